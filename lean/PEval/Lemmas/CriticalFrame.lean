import PEval.Model.CriticalFrame
import PEval.Lemmas.FilterList
import PEval.Lemmas.PassFailCount
/-!
# C03 — lemmas about the critical filter on objects with positions (`Model/CriticalFrame.lean`)

* the confidence stage of `_is_target_object` does not change the verdict on a ground truth whose
  confidence beats the threshold of its label (`isTarget_gt_conf`): the only difference between the
  ground-truth test of `filter_object_results` and that of `filter_objects(is_gt=True, …)`;
* the ego-relative position the filter decides on, spelled with the frame's transforms (`egoPos_view`);
* what the two filter loops keep (`kept_results`, `kept_gts`);
* frame change: an object of a BASE_LINK frame and its MAP rendering are judged alike (`view_toMap`,
  `isTarget_toMap`: C10's `frame_invariant` = `position_renderMap` on the view).
-/
namespace PEval.PassFail

/-! ## nothing is counted that was not handed in -/

theorem evaluate_members (rs : List Res) (gts : List GT) :
    (∀ r ∈ (evaluate rs gts).tp, r ∈ rs) ∧
    (∀ r ∈ (evaluate rs gts).fp, ∃ r0 ∈ rs, r.est = r0.est ∧ (r.gt = r0.gt ∨ r.gt = none)) ∧
    (∀ g ∈ (evaluate rs gts).tn, g ∈ gts ∨ g ∈ gtsOf rs) ∧
    (∀ g ∈ (evaluate rs gts).fn, g ∈ gts ∨ g ∈ gtsOf rs) := by
  refine ⟨?_, ?_, ?_, ?_⟩
  · intro r hr
    simp only [evaluate, getPositive_fst] at hr
    exact (List.mem_filter.1 hr).1
  · intro r hr
    simp only [evaluate, getPositive_snd] at hr
    obtain ⟨r0, hr0, rfl⟩ := List.mem_map.1 hr
    exact ⟨r0, (List.mem_filter.1 hr0).1, fpEntry_est r0, fpEntry_gt r0⟩
  · intro g hg
    simp only [evaluate, getNegative_eq] at hg
    rcases List.mem_append.1 hg with h | h
    · obtain ⟨r, hr, _, hrg⟩ := mem_gtsOf_filter.1 h
      exact Or.inr (mem_gtsOf.2 ⟨r, hr, hrg⟩)
    · exact Or.inl (List.mem_filter.1 h).1
  · intro g hg
    simp only [evaluate, getNegative_eq] at hg
    rcases List.mem_append.1 hg with h | h
    · obtain ⟨r, hr, _, hrg⟩ := mem_gtsOf_filter.1 h
      exact Or.inr (mem_gtsOf.2 ⟨r, hr, hrg⟩)
    · exact Or.inl (List.mem_filter.1 h).1

end PEval.PassFail

namespace PEval.CritFrame
open PEval PEval.Filter

/-! ## the confidence stage on ground truths -/

theorem getLabelThreshold_of_labelBound {α} {P : Params} {o : Obj} {l : List α} {t : α}
    (h : LabelBound P o l t) : getLabelThreshold P.targets o.label l = .ok (some t) := by
  obtain ⟨ts, i, hT, hi, hmin, hl⟩ := h
  unfold getLabelThreshold
  rw [hT]
  simp only
  rw [indexOf?_eq_some.2 ⟨hi, hmin⟩]
  simp only
  rw [hl]

/-- the confidence of a ground truth beats the critical confidence threshold of its label -/
def ConfBeats (P : Params) (o : Obj) : Prop :=
  IsFP o.label ∨ ∀ l, P.conf = some l → ∃ t, LabelBound P o l t ∧ t < o.score

theorem useUnknown_gt {P : Params} (o : Obj) (hg : P.isGt = true) : useUnknown P o = false := by
  unfold useUnknown
  simp [hg]

/-- on a ground truth whose confidence beats its threshold, the confidence list plays no role -/
theorem isTarget_gt_conf {P : Params} {o : Obj} (hg : P.isGt = true) (hc : ConfBeats P o) :
    isTarget P o = isTarget { P with conf := none } o := by
  unfold isTarget
  by_cases hfp : isFP o.label = true
  · rw [if_pos hfp, if_pos hfp]
  · rw [if_neg hfp, if_neg hfp]
    have hu : useUnknown P o = false := useUnknown_gt o hg
    have hu' : useUnknown { P with conf := none } o = false := useUnknown_gt o hg
    have hnfp : ¬ IsFP o.label := fun c => hfp ((isFP_iff _).2 c)
    have hconf : ∀ ok, stage P false o ok P.conf (fun _ => some 0) (fun t => decide (t < o.score)) = .ok ok := by
      intro ok
      unfold stage
      cases ok with
      | false => cases P.conf <;> rfl
      | true =>
        cases hl : P.conf with
        | none => rfl
        | some l =>
          rcases hc with h | h
          · exact absurd h hnfp
          · obtain ⟨t, hb, hlt⟩ := h l hl
            simp only [bound, Bool.false_eq_true, if_false, getLabelThreshold_of_labelBound hb, cmpB,
              decide_eq_true hlt]
    have hs : ∀ (Q : Params) (ok : Bool) (unk : List Rat → Option Rat) (test : Rat → Bool),
        stage Q false o ok none unk test = .ok ok := by
      intro Q ok unk test; cases ok <;> rfl
    simp only [hu, hu']
    rw [hconf, hs]
    rfl

/-! ## criteria with and without the confidence list -/

theorem criteria_drop_conf {P : Params} {o : Obj} (h : Criteria P o) : Criteria { P with conf := none } o := by
  rcases h with h | ⟨h1, h2, _, h4, h5⟩
  · exact Or.inl h
  · exact Or.inr ⟨h1, h2, fun l hl => (by cases hl), h4, h5⟩

/-! ## the ego-relative position, spelled with the frame's transforms -/

/-- `p` is the ego-relative planar position of object `o` of a frame with transforms `tr`: its own
position when it is given in BASE_LINK; otherwise its position carried through the inverse of the ego
pose registered for its frame id -/
def EgoRel (tr : Option Transforms) (o : CObj) (p : Pos) : Prop :=
  (o.frame = "base_link" ∧ o.pos = some p) ∨
  (o.frame ≠ "base_link" ∧ ∃ d e q, tr = some d ∧ poseOf d o.frame = some e ∧ o.pos = some q ∧ p = toEgo e q)

theorem egoOf_eq_some (tr : Option Transforms) (o : CObj) (p : Pos) :
    egoOf tr o = some p ↔ ∃ d e q, tr = some d ∧ poseOf d o.frame = some e ∧ o.pos = some q ∧ p = toEgo e q := by
  cases tr with
  | none => simp [egoOf]
  | some d =>
    simp only [egoOf, Option.some.injEq]
    cases hl : poseOf d o.frame with
    | none =>
      simp only [reduceCtorEq, false_iff]
      rintro ⟨d', e', q', rfl, he', _⟩
      rw [hl] at he'; cases he'
    | some e =>
      cases hp : o.pos with
      | none =>
        simp only [Option.map_none, reduceCtorEq, false_iff]
        rintro ⟨d', e', q', _, _, hq', _⟩
        cases hq'
      | some q =>
        simp only [Option.map_some, Option.some.injEq]
        constructor
        · intro h; exact ⟨d, e, q, rfl, hl, rfl, h.symm⟩
        · rintro ⟨d', e', q', rfl, he', rfl, h⟩
          rw [hl] at he'; cases he'; exact h.symm

/-- the position `_is_target_object` decides on (C10's `EgoPos`) is the ego-relative position -/
theorem egoPos_view {P : Params} {tr : Option Transforms} (hP : P.hasTransforms = tr.isSome) (o : CObj) (p : Pos) :
    EgoPos P (view tr o) p ↔ EgoRel tr o p := by
  unfold EgoPos EgoRel
  simp only [view, egoOf_eq_some]
  constructor
  · rintro (h | ⟨h1, _, _, h4⟩)
    · exact Or.inl h
    · exact Or.inr ⟨h1, h4⟩
  · rintro (h | ⟨h1, d, e, q, hd, he, hq, hp⟩)
    · exact Or.inl h
    · refine Or.inr ⟨h1, ?_, ?_, d, e, q, hd, he, hq, hp⟩
      · rw [hP, hd]; rfl
      · rw [hq]; simp

/-! ## what the two loops keep -/

theorem decide_eq_isOkTrue (x : Except Err Bool) : decide (x = .ok true) = isOkTrue x := by
  cases x with
  | error e => simp [isOkTrue]
  | ok b => cases b <;> simp [isOkTrue]

theorem isOkTrue_ok (b : Bool) : isOkTrue (.ok b) = b := by cases b <;> rfl

/-- the verdict of the loop body of `filter_object_results`, whenever it returns, in terms of the flags -/
theorem resTarget_flag {s : Site} {r : CRes} {b : Bool} (h : resTarget s r = .ok b) :
    b = (estFlag s r && (match r.gt with
      | none => true
      | some g => gtFlagRes s g)) := by
  unfold resTarget resultTarget toFRes at h
  unfold estFlag gtFlagRes
  cases he : isTarget (estParams s.P) (view s.transforms r.est) with
  | error e => rw [he] at h; cases h
  | ok e =>
    rw [he] at h
    cases hg : r.gt with
    | none =>
      rw [hg] at h
      simp only [Option.map_none] at h
      cases h
      cases e <;> cases truthy s.P.uuids <;> rfl
    | some g =>
      rw [hg] at h
      simp only [Option.map_some] at h
      cases e with
      | false => cases h; rfl
      | true =>
        simp only at h
        simp [h, isOkTrue_ok]

/-- the result-side test and the list-side test give the same verdict on the ground truth of every
result whose estimate passes: "both call sites apply the same predicate with the same transforms" -/
def SitesAgree (w : Wiring) (f : Frame) : Prop :=
  ∀ r ∈ f.results, ∀ g, r.gt = some g → estFlag (w.resSite f) r = true →
    gtFlagRes (w.resSite f) g = gtFlagList (w.gtSite f) g

theorem resSurvives_absRes (sR sG : Site) (r : CRes) :
    PassFail.resSurvives (absRes sR sG r) = (estFlag sR r && (match r.gt with
      | none => true
      | some g => gtFlagList sG g)) := by
  unfold PassFail.resSurvives absRes
  cases r.gt <;> rfl

/-- the lists kept by the two loops are the input lists filtered by the flags -/
theorem evaluateFrameWith_ok {w : Wiring} {f : Frame} {out : Out} (h : evaluateFrameWith w f = .ok out) :
    (∀ r ∈ f.results, ∃ b, resTarget (w.resSite f) r = .ok b) ∧
    (∀ g ∈ f.gts, ∃ b, gtTarget (w.gtSite f) g = .ok b) ∧
    out.keptResults = f.results.filter (fun r => isOkTrue (resTarget (w.resSite f) r)) ∧
    out.keptGts = f.gts.filter (gtFlagList (w.gtSite f)) ∧
    out.pf = PassFail.evaluate (out.keptResults.map (absRes (w.resSite f) (w.gtSite f)))
      (out.keptGts.map (absGT (w.gtSite f))) := by
  unfold evaluateFrameWith at h
  cases h1 : filterE (resTarget (w.resSite f)) f.results with
  | error e => rw [h1] at h; cases h
  | ok rs =>
    rw [h1] at h
    cases h2 : filterE (gtTarget (w.gtSite f)) f.gts with
    | error e => rw [h2] at h; cases h
    | ok gs =>
      rw [h2] at h
      cases h
      obtain ⟨a1, e1⟩ := filterE_ok h1
      obtain ⟨a2, e2⟩ := filterE_ok h2
      have e1' : rs = f.results.filter (fun r => isOkTrue (resTarget (w.resSite f) r)) := by
        rw [e1]; congr 1; funext r; exact decide_eq_isOkTrue _
      have e2' : gs = f.gts.filter (gtFlagList (w.gtSite f)) := by
        rw [e2]; congr 1; funext g; exact decide_eq_isOkTrue _
      exact ⟨a1, a2, e1', e2', rfl⟩

/-- **refinement**: when the two sites agree, `evaluate_frame` on objects with positions IS
`PassFail.evaluateFrame` on the frame whose opaque Booleans are the computed flags -/
theorem evaluateFrameWith_refines {w : Wiring} {f : Frame} {out : Out}
    (h : evaluateFrameWith w f = .ok out) (ha : SitesAgree w f) :
    out.pf = PassFail.evaluateFrame (absFrame w f) ∧
    out.keptResults.map (absRes (w.resSite f) (w.gtSite f)) = PassFail.criticalResults (absFrame w f).results ∧
    out.keptGts.map (absGT (w.gtSite f)) = PassFail.criticalGts (absFrame w f).gts := by
  obtain ⟨a1, _, e1, e2, e3⟩ := evaluateFrameWith_ok h
  have k1 : out.keptResults.map (absRes (w.resSite f) (w.gtSite f)) = PassFail.criticalResults (absFrame w f).results := by
    unfold PassFail.criticalResults absFrame
    rw [List.filter_map, e1]
    congr 1
    apply List.filter_congr
    intro r hr
    obtain ⟨b, hb⟩ := a1 r hr
    rw [hb, isOkTrue_ok, resTarget_flag hb]
    simp only [Function.comp, resSurvives_absRes]
    cases he : estFlag (w.resSite f) r with
    | false => rfl
    | true =>
      cases hg : r.gt with
      | none => rfl
      | some g => simp only [Bool.true_and]; exact ha r hr g hg he
  have k2 : out.keptGts.map (absGT (w.gtSite f)) = PassFail.criticalGts (absFrame w f).gts := by
    unfold PassFail.criticalGts absFrame
    rw [List.filter_map, e2]
    rfl
  refine ⟨?_, k1, k2⟩
  rw [e3, k1, k2]
  rfl

/-! ## the code's wiring: the two sites agree -/

/-- the parameters both call sites of the code share (`transforms is not None` included) -/
def critP (f : Frame) : Params := { f.critical with hasTransforms := f.transforms.isSome }

/-- every ground truth attached to a result beats the critical confidence threshold of its label
(ground-truth confidence is 1.0 in every loaded dataset; vacuous without a critical confidence list) -/
def GtConfOK (f : Frame) : Prop :=
  ∀ r ∈ f.results, ∀ g, r.gt = some g → ConfBeats f.critical (view f.transforms g)

theorem gtFlag_agree (f : Frame) (g : CObj) (hc : ConfBeats f.critical (view f.transforms g)) :
    gtFlagRes (wiring.resSite f) g = gtFlagList (wiring.gtSite f) g := by
  unfold gtFlagRes gtFlagList gtTarget
  have h := isTarget_gt_conf (P := (wiring.gtSite f).P) (o := view f.transforms g) rfl hc
  show isOkTrue (isTarget (gtParams (wiring.resSite f).P) (view f.transforms g)) =
    isOkTrue (isTarget (wiring.gtSite f).P (view f.transforms g))
  rw [h]
  rfl

/-- for the code, both call sites apply the same predicate with the same transforms -/
theorem sitesAgree_wiring (f : Frame) (hc : GtConfOK f) : SitesAgree wiring f :=
  fun r hr g hg _ => gtFlag_agree f g (hc r hr g hg)

/-! ## frame change -/

theorem poseOf_map (e : Pose) : poseOf [("map", e)] "map" = some e := by
  simp [poseOf, List.lookup]

theorem view_toMap (e : Pose) (tr : Option Transforms) (o : CObj) :
    view (some [("map", e)]) (o.toMap e) = renderMap e (view tr o) := by
  simp only [view, CObj.toMap, renderMap, egoOf, poseOf_map]

/-- C10's frame invariance on the view: an object of a BASE_LINK frame and its MAP rendering under any
ego pose (unit yaw, any translation), filtered with the transform supplied, are judged alike -/
theorem isTarget_toMap (P : Params) (tr : Option Transforms) (o : CObj) (e : Pose)
    (he : e.c * e.c + e.s * e.s = 1) (hf : o.frame = "base_link") (hp : o.pos ≠ none) :
    isTarget { P with hasTransforms := true } (view (some [("map", e)]) (o.toMap e)) = isTarget P (view tr o) := by
  rw [view_toMap e tr o]
  have hpos := position_renderMap (P := P) (o := view tr o) he hf hp
  unfold isTarget
  rw [hpos]
  rfl

/-- `o` is given in BASE_LINK with a position -/
def CObj.ego (o : CObj) : Prop := o.frame = "base_link" ∧ o.pos ≠ none

theorem allEgo_iff (f : Frame) : f.allEgo = true ↔
    (∀ g ∈ f.gts, g.ego) ∧ ∀ r ∈ f.results, r.est.ego ∧ ∀ g, r.gt = some g → g.ego := by
  unfold Frame.allEgo CObj.ego
  simp only [Bool.and_eq_true, List.all_eq_true, beq_iff_eq, Option.isSome_iff_ne_none]
  constructor
  · rintro ⟨h1, h2⟩
    refine ⟨h1, fun r hr => ⟨(h2 r hr).1, ?_⟩⟩
    intro g hg
    have := (h2 r hr).2
    rw [hg] at this
    simpa [Option.isSome_iff_ne_none] using this
  · rintro ⟨h1, h2⟩
    refine ⟨h1, fun r hr => ⟨(h2 r hr).1, ?_⟩⟩
    cases hg : r.gt with
    | none => rfl
    | some g => simpa [Option.isSome_iff_ne_none] using (h2 r hr).2 g hg

theorem gtTarget_toMap (f : Frame) (e : Pose) (he : e.c * e.c + e.s * e.s = 1) (g : CObj) (hg : g.ego) :
    gtTarget (wiring.gtSite (f.toMap e)) (g.toMap e) = gtTarget (wiring.gtSite f) g :=
  isTarget_toMap (wiring.gtSite f).P f.transforms g e he hg.1 hg.2

theorem resultTarget_congr {P P' : Params} {R R' : Filter.Res}
    (h1 : isTarget (estParams P') R'.est = isTarget (estParams P) R.est)
    (hg : R'.gt.isSome = R.gt.isSome)
    (h2 : ∀ g' g, R'.gt = some g' → R.gt = some g → isTarget (gtParams P') g' = isTarget (gtParams P) g)
    (hu : P'.uuids = P.uuids) : resultTarget P' R' = resultTarget P R := by
  unfold resultTarget
  rw [h1, hu]
  cases isTarget (estParams P) R.est with
  | error err => rfl
  | ok b =>
    cases hR : R.gt with
    | none =>
      cases hR' : R'.gt with
      | none => cases b <;> rfl
      | some g' => rw [hR, hR'] at hg; cases hg
    | some g =>
      cases hR' : R'.gt with
      | none => rw [hR, hR'] at hg; cases hg
      | some g' =>
        cases b with
        | false => rfl
        | true => exact h2 g' g hR' hR

theorem resTarget_toMap (f : Frame) (e : Pose) (he : e.c * e.c + e.s * e.s = 1) (r : CRes)
    (hr : r.est.ego ∧ ∀ g, r.gt = some g → g.ego) :
    resTarget (wiring.resSite (f.toMap e)) (r.toMap e) = resTarget (wiring.resSite f) r := by
  apply resultTarget_congr
  · exact isTarget_toMap (estParams (wiring.resSite f).P) f.transforms r.est e he hr.1.1 hr.1.2
  · show ((r.gt.map (CObj.toMap e)).map _).isSome = (r.gt.map _).isSome
    cases r.gt <;> rfl
  · intro g' g hg' hg
    cases hrg : r.gt with
    | none => simp [toFRes, hrg] at hg
    | some g0 =>
      have e1 : g = view f.transforms g0 := by simpa [toFRes, hrg, wiring] using hg.symm
      have e2 : g' = view (some [("map", e)]) (g0.toMap e) := by
        simpa [toFRes, CRes.toMap, hrg, wiring, Frame.toMap] using hg'.symm
      rw [e1, e2]
      exact isTarget_toMap (gtParams (wiring.resSite f).P) f.transforms g0 e he (hr.2 g0 hrg).1 (hr.2 g0 hrg).2
  · rfl

theorem absGT_toMap (f : Frame) (e : Pose) (he : e.c * e.c + e.s * e.s = 1) (g : CObj) (hg : g.ego) :
    absGT (wiring.gtSite (f.toMap e)) (g.toMap e) = absGT (wiring.gtSite f) g := by
  unfold absGT gtFlagList
  rw [gtTarget_toMap f e he g hg]
  rfl

theorem estFlag_toMap (f : Frame) (e : Pose) (he : e.c * e.c + e.s * e.s = 1) (r : CRes) (hr : r.est.ego) :
    estFlag (wiring.resSite (f.toMap e)) (r.toMap e) = estFlag (wiring.resSite f) r := by
  unfold estFlag
  have h1 : isTarget (estParams (wiring.resSite (f.toMap e)).P)
      (view (wiring.resSite (f.toMap e)).transforms (r.toMap e).est) =
      isTarget (estParams (wiring.resSite f).P) (view (wiring.resSite f).transforms r.est) :=
    isTarget_toMap (estParams (wiring.resSite f).P) f.transforms r.est e he hr.1 hr.2
  rw [h1]
  have h2 : (r.toMap e).gt.isSome = r.gt.isSome := by
    show (r.gt.map (CObj.toMap e)).isSome = r.gt.isSome
    cases r.gt <;> rfl
  rw [h2]
  rfl

theorem absRes_toMap (f : Frame) (e : Pose) (he : e.c * e.c + e.s * e.s = 1) (r : CRes)
    (hr : r.est.ego ∧ ∀ g, r.gt = some g → g.ego) :
    absRes (wiring.resSite (f.toMap e)) (wiring.gtSite (f.toMap e)) (r.toMap e) =
      absRes (wiring.resSite f) (wiring.gtSite f) r := by
  unfold absRes
  rw [estFlag_toMap f e he r hr.1]
  have h2 : (r.toMap e).gt.map (absGT (wiring.gtSite (f.toMap e))) = r.gt.map (absGT (wiring.gtSite f)) := by
    show (r.gt.map (CObj.toMap e)).map _ = _
    cases hg : r.gt with
    | none => rfl
    | some g => simp only [Option.map_some]; rw [absGT_toMap f e he g (hr.2 g hg)]
  rw [h2]
  rfl

/-- **frame change**: `evaluate_frame` on the MAP rendering of a BASE_LINK frame (any unit yaw, any
translation, the ego pose registered in the frame's transforms) keeps the renderings of the same objects,
raises the same exception if any, and produces the SAME pass/fail lists -/
theorem evaluateFrame_toMap' (f : Frame) (e : Pose) (he : e.c * e.c + e.s * e.s = 1) (hf : f.allEgo = true) :
    evaluateFrame (f.toMap e) = (evaluateFrame f).map (Out.toMap e) := by
  obtain ⟨hG, hR⟩ := (allEgo_iff f).1 hf
  unfold evaluateFrame evaluateFrameWith
  have h1 : filterE (resTarget (wiring.resSite (f.toMap e))) (f.toMap e).results =
      (filterE (resTarget (wiring.resSite f)) f.results).map (List.map (CRes.toMap e)) :=
    filterE_map (fun r hr => resTarget_toMap f e he r (hR r hr))
  have h2 : filterE (gtTarget (wiring.gtSite (f.toMap e))) (f.toMap e).gts =
      (filterE (gtTarget (wiring.gtSite f)) f.gts).map (List.map (CObj.toMap e)) :=
    filterE_map (fun g hg => gtTarget_toMap f e he g (hG g hg))
  rw [h1, h2]
  cases k1 : filterE (resTarget (wiring.resSite f)) f.results with
  | error err => rfl
  | ok rs =>
    cases k2 : filterE (gtTarget (wiring.gtSite f)) f.gts with
    | error err => rfl
    | ok gs =>
      have m1 : ∀ r ∈ rs, r ∈ f.results := by
        intro r hr; rw [(filterE_ok k1).2] at hr; exact (List.mem_filter.1 hr).1
      have m2 : ∀ g ∈ gs, g ∈ f.gts := by
        intro g hg; rw [(filterE_ok k2).2] at hg; exact (List.mem_filter.1 hg).1
      have a1 : (rs.map (CRes.toMap e)).map (absRes (wiring.resSite (f.toMap e)) (wiring.gtSite (f.toMap e))) =
          rs.map (absRes (wiring.resSite f) (wiring.gtSite f)) := by
        rw [List.map_map]
        apply List.map_congr_left
        intro r hr
        exact absRes_toMap f e he r (hR r (m1 r hr))
      have a2 : (gs.map (CObj.toMap e)).map (absGT (wiring.gtSite (f.toMap e))) =
          gs.map (absGT (wiring.gtSite f)) := by
        rw [List.map_map]
        apply List.map_congr_left
        intro g hg
        exact absGT_toMap f e he g (hG g (m2 g hg))
      simp only [Except.map, Out.toMap]
      rw [a1, a2]

/-! ## well-formedness on objects with positions gives `MatcherWF` of the induced frame -/

/-- ground truths attached to a list of results, in order -/
def gtsOfC (rs : List CRes) : List CObj := rs.filterMap (·.gt)

/-- what the matcher guarantees (C01) on a frame whose ground truths are a set, stated on the objects:
pairwise different objects, pairwise different under `__eq__`; the ground truths of the results are
distinct members of the ground-truth list -/
def FrameWF (f : Frame) : Prop :=
  f.gts.Pairwise (fun a b => a.id ≠ b.id ∧ a.eqKey ≠ b.eqKey) ∧ (gtsOfC f.results).Nodup ∧
    ∀ g ∈ gtsOfC f.results, g ∈ f.gts

theorem gtsOf_absRes (sR sG : Site) (rs : List CRes) :
    PassFail.gtsOf (rs.map (absRes sR sG)) = (gtsOfC rs).map (absGT sG) := by
  unfold PassFail.gtsOf gtsOfC
  rw [List.filterMap_map, List.map_filterMap]
  rfl

private theorem nodup_map_on' {α β : Type} {g : α → β} {l : List α}
    (H : ∀ x ∈ l, ∀ y ∈ l, g x = g y → x = y) (d : l.Nodup) : (l.map g).Nodup := by
  induction l with
  | nil => simp
  | cons a t ih =>
    rw [List.nodup_cons] at d
    rw [List.map_cons, List.nodup_cons]
    refine ⟨?_, ih (fun x hx y hy => H x (List.mem_cons_of_mem _ hx) y (List.mem_cons_of_mem _ hy)) d.2⟩
    intro hm
    obtain ⟨y, hy, hya⟩ := List.mem_map.1 hm
    have := H y (List.mem_cons_of_mem _ hy) a List.mem_cons_self hya
    subst this
    exact d.1 hy

private theorem eq_of_id {l : List CObj} (hd : l.Pairwise (fun a b => a.id ≠ b.id ∧ a.eqKey ≠ b.eqKey)) :
    ∀ a ∈ l, ∀ b ∈ l, a.id = b.id → a = b := by
  induction l with
  | nil => intro a ha; cases ha
  | cons x xs ih =>
    have hp := List.pairwise_cons.mp hd
    intro a ha b hb hs
    rcases List.mem_cons.mp ha with rfl | ha' <;> rcases List.mem_cons.mp hb with rfl | hb'
    · rfl
    · exact absurd hs (hp.1 b hb').1
    · exact absurd hs.symm (hp.1 a ha').1
    · exact ih hp.2 a ha' b hb' hs

theorem matcherWF_abs (w : Wiring) (f : Frame) (h : FrameWF f) : PassFail.MatcherWF (absFrame w f) := by
  obtain ⟨hd, hn, hsub⟩ := h
  have inj : ∀ a ∈ f.gts, ∀ b ∈ f.gts, absGT (w.gtSite f) a = absGT (w.gtSite f) b → a = b := by
    intro a ha b hb hab
    exact eq_of_id hd a ha b hb (congrArg PassFail.GT.id hab)
  refine ⟨?_, ?_, ?_⟩
  · show PassFail.GtsDistinct (f.gts.map (absGT (w.gtSite f)))
    unfold PassFail.GtsDistinct
    rw [List.pairwise_map]
    exact hd
  · show (PassFail.gtsOf (f.results.map (absRes (w.resSite f) (w.gtSite f)))).Nodup
    rw [gtsOf_absRes]
    exact nodup_map_on' (fun a ha b hb => inj a (hsub a ha) b (hsub b hb)) hn
  · intro g hg
    change g ∈ PassFail.gtsOf (f.results.map (absRes (w.resSite f) (w.gtSite f))) at hg
    rw [gtsOf_absRes] at hg
    obtain ⟨cg, hcg, rfl⟩ := List.mem_map.1 hg
    exact List.mem_map.2 ⟨cg, hsub cg hcg, rfl⟩

/-! ## what is kept satisfies the criteria at its call site -/

theorem isOkTrue_iff (x : Except Err Bool) : isOkTrue x = true ↔ x = .ok true := by
  cases x with
  | error e => simp [isOkTrue]
  | ok b => cases b <;> simp [isOkTrue]

theorem kept_criteria {w : Wiring} {f : Frame} {out : Out} (h : evaluateFrameWith w f = .ok out) :
    (∀ cr ∈ out.keptResults, cr ∈ f.results ∧
      Criteria (estParams (w.resSite f).P) (view (w.resSite f).transforms cr.est) ∧
      ∀ cg, cr.gt = some cg → Criteria (gtParams (w.resSite f).P) (view (w.resSite f).transforms cg)) ∧
    (∀ cg ∈ out.keptGts, cg ∈ f.gts ∧ Criteria (w.gtSite f).P (view (w.gtSite f).transforms cg)) := by
  obtain ⟨_, _, e1, e2, _⟩ := evaluateFrameWith_ok h
  constructor
  · intro cr hcr
    rw [e1] at hcr
    obtain ⟨hm, hk⟩ := List.mem_filter.1 hcr
    have hk' := (isOkTrue_iff _).1 hk
    have hf := resTarget_flag hk'
    have h1 : estFlag (w.resSite f) cr = true := by
      cases he : estFlag (w.resSite f) cr with
      | true => rfl
      | false => rw [he] at hf; simp at hf
    refine ⟨hm, ?_, ?_⟩
    · unfold estFlag at h1
      have := Bool.and_eq_true_iff.1 h1
      exact (isTarget_ok_iff ((isOkTrue_iff _).1 this.1)).1 rfl
    · intro cg hg
      rw [h1, hg] at hf
      simp only [Bool.true_and] at hf
      unfold gtFlagRes at hf
      exact (isTarget_ok_iff ((isOkTrue_iff _).1 hf.symm)).1 rfl
  · intro cg hcg
    rw [e2] at hcg
    obtain ⟨hm, hk⟩ := List.mem_filter.1 hcg
    exact ⟨hm, (isTarget_ok_iff ((isOkTrue_iff _).1 hk)).1 rfl⟩

/-- every entry of the four lists comes from a kept result / a kept ground truth -/
theorem counted_from_kept {w : Wiring} {f : Frame} {out : Out} (h : evaluateFrameWith w f = .ok out) :
    (∀ r ∈ out.pf.tp ++ out.pf.fp, ∃ cr ∈ out.keptResults, r.est = cr.est.id ∧
      ∀ g, r.gt = some g → ∃ cg, cr.gt = some cg ∧ g = absGT (w.gtSite f) cg) ∧
    (∀ g ∈ out.pf.tn ++ out.pf.fn, ∃ cg, (cg ∈ out.keptGts ∨ ∃ cr ∈ out.keptResults, cr.gt = some cg) ∧
      g = absGT (w.gtSite f) cg) := by
  obtain ⟨_, _, _, _, e3⟩ := evaluateFrameWith_ok h
  obtain ⟨m1, m2, m3, m4⟩ := PassFail.evaluate_members
    (out.keptResults.map (absRes (w.resSite f) (w.gtSite f))) (out.keptGts.map (absGT (w.gtSite f)))
  rw [← e3] at m1 m2 m3 m4
  have gtOf : ∀ (cr : CRes) (g : PassFail.GT), (absRes (w.resSite f) (w.gtSite f) cr).gt = some g →
      ∃ cg, cr.gt = some cg ∧ g = absGT (w.gtSite f) cg := by
    intro cr g hg
    change cr.gt.map (absGT (w.gtSite f)) = some g at hg
    cases hc : cr.gt with
    | none => rw [hc] at hg; cases hg
    | some cg => rw [hc] at hg; exact ⟨cg, rfl, (Option.some.inj hg).symm⟩
  have neg : ∀ g, (g ∈ out.keptGts.map (absGT (w.gtSite f)) ∨
      g ∈ PassFail.gtsOf (out.keptResults.map (absRes (w.resSite f) (w.gtSite f)))) →
      ∃ cg, (cg ∈ out.keptGts ∨ ∃ cr ∈ out.keptResults, cr.gt = some cg) ∧ g = absGT (w.gtSite f) cg := by
    rintro g (hg | hg)
    · obtain ⟨cg, hcg, rfl⟩ := List.mem_map.1 hg
      exact ⟨cg, Or.inl hcg, rfl⟩
    · rw [gtsOf_absRes] at hg
      obtain ⟨cg, hcg, rfl⟩ := List.mem_map.1 hg
      obtain ⟨cr, hcr, hg'⟩ := List.mem_filterMap.1 hcg
      exact ⟨cg, Or.inr ⟨cr, hcr, hg'⟩, rfl⟩
  constructor
  · intro r hr
    rcases List.mem_append.1 hr with hr | hr
    · obtain ⟨cr, hcr, rfl⟩ := List.mem_map.1 (m1 r hr)
      exact ⟨cr, hcr, rfl, gtOf cr⟩
    · obtain ⟨r0, hr0, he, hg⟩ := m2 r hr
      obtain ⟨cr, hcr, rfl⟩ := List.mem_map.1 hr0
      refine ⟨cr, hcr, he, ?_⟩
      intro g hrg
      rcases hg with hg | hg
      · rw [hg] at hrg; exact gtOf cr g hrg
      · rw [hg] at hrg; cases hrg
  · intro g hg
    rcases List.mem_append.1 hg with hg | hg
    · exact neg g (m3 g hg)
    · exact neg g (m4 g hg)

end PEval.CritFrame

