import PEval.Model.FilterTable
import PEval.Lemmas.Filter
/-!
# Bridge: the model `isTarget` IS its decision skeleton applied to the atoms of the input

`isTarget_eq_tree : eval isTargetTree (valuationOf P o) = ofExcept (isTarget P o)` for every configuration and object.
Each stage of the skeleton (`tUse`, `tLabel`, `tAttr`, `tStage`, `tPosition`, `tPts`, `tUuid`) is shown to compute the
corresponding stage of the model under the valuation of the input.
-/
namespace PEval.FilterTable
open PEval PEval.DT PEval.Filter

def ofExcept : Except Err Bool → DT.Res
  | .ok b => .ret b
  | .error e => .raise (errCode e)

/-- continue with `f` on a returned Boolean, stop with the exception's code otherwise -/
def bindR (r : Except Err Bool) (f : Bool → DT.Res) : DT.Res :=
  match r with
  | .error e => .raise (errCode e)
  | .ok b => f b

theorem ofExcept_ret {x : Except Err Bool} {b : Bool} (h : ofExcept x = .ret b) : x = .ok b := by
  cases x with
  | error e => simp [ofExcept] at h
  | ok c => simp only [ofExcept, DT.Res.ret.injEq] at h; rw [h]

variable {P : Params} {o : Obj}

theorem eval_ite (c : Prop) [Decidable c] (a b : DTree) (v : Val) :
    eval (if c then a else b) v = if c then eval a v else eval b v := by
  split <;> rfl

theorem contains_eq_indexOf (a : String) (ts : List String) : ts.contains a = (indexOf? a ts).isSome := by
  induction ts with
  | nil => simp [indexOf?]
  | cons b bs ih =>
    simp only [List.contains_cons, indexOf?]
    by_cases h : b = a
    · subst h; simp
    · have : (a == b) = false := by simpa using fun e => h e.symm
      rw [this, ih]; simp [h]

theorem eval_tUse (k : Bool → DTree) :
    eval (tUse k) (valuationOf P o) = eval (k (useUnknown P o)) (valuationOf P o) := by
  unfold tUse useUnknown
  have h1 : (valuationOf P o).b aUnknown = isUnknown o.label := rfl
  have h2 : (valuationOf P o).b aIsGt = P.isGt := rfl
  have h3 : (valuationOf P o).b aTargetsNone = P.targets.isNone := rfl
  have h5 : (valuationOf P o).b aHasUnknown = (match P.targets with | some ts => ts.any isUnknown | none => false) := rfl
  simp only [eval_ite, eval_askB, h1, h2, h3, h5]
  cases isUnknown o.label <;> cases P.isGt <;> cases P.targets <;> simp

theorem eval_tLabel (u : Bool) (k : Bool → DTree) :
    eval (tLabel u k) (valuationOf P o) = eval (k (stageLabel P u o)) (valuationOf P o) := by
  unfold tLabel stageLabel
  have h3 : (valuationOf P o).b aTargetsNone = P.targets.isNone := rfl
  have h4 : (valuationOf P o).b aTargetsEmpty = isEmptyL P.targets := rfl
  have h6 : (valuationOf P o).b aLabelIn = (labelIdx P o).isSome := rfl
  simp only [eval_ite, eval_askB, h3, h4, h6]
  cases hT : P.targets with
  | none => simp
  | some ts =>
    cases ts with
    | nil => simp [isEmptyL]
    | cons t ts =>
      cases u
      · simp [isEmptyL, labelIdx, hT, ← contains_eq_indexOf]
      · simp [isEmptyL]

theorem eval_tAttr (u ok : Bool) (k : Bool → DTree) :
    eval (tAttr u ok k) (valuationOf P o) = eval (k (stageAttr P u o ok)) (valuationOf P o) := by
  unfold tAttr stageAttr
  have h7 : (valuationOf P o).b aIgnoreNone = P.ignoreAttrs.isNone := rfl
  have h8 : (valuationOf P o).b aAttrHit = (match P.ignoreAttrs with | some ks => containsAny o ks | none => false) := rfl
  simp only [eval_ite, eval_askB, h7, h8]
  cases P.ignoreAttrs <;> cases u <;> simp

/-- the per-label entry: what `getLabelThreshold` answers, read off the atoms -/
theorem eval_tEntry {α} (la : LA) (l : List α) (kk : DTree)
    (hs : (valuationOf P o).b la.short = isShort P o (some l)) :
    eval (tEntry la kk) (valuationOf P o) =
      (match getLabelThreshold P.targets o.label l with
       | .error _ => .raise eIndex
       | .ok none => .raise eType
       | .ok (some _) => eval kk (valuationOf P o)) := by
  unfold tEntry getLabelThreshold
  have h3 : (valuationOf P o).b aTargetsNone = P.targets.isNone := rfl
  have h6 : (valuationOf P o).b aLabelIn = (labelIdx P o).isSome := rfl
  simp only [eval_ite, eval_askB, h3, h6, hs]
  cases hT : P.targets with
  | none => simp [eval]
  | some ts =>
    cases hi : indexOf? o.label ts with
    | none => simp [labelIdx, hT, hi, eval]
    | some i =>
      cases hl : l[i]? with
      | none => simp [labelIdx, hT, hi, isShort, hl, eval]
      | some t => simp [labelIdx, hT, hi, isShort, hl]

theorem getLabelThreshold_error {α} {ts : Option (List String)} {a : String} {l : List α} {e : Err}
    (h : getLabelThreshold ts a l = .error e) : e = "IndexError" := by
  unfold getLabelThreshold at h
  cases ts with
  | none => simp at h
  | some ts =>
    simp only at h
    cases hi : indexOf? a ts with
    | none => rw [hi] at h; simp at h
    | some i =>
      rw [hi] at h
      simp only at h
      cases hl : l[i]? with
      | none => rw [hl] at h; simp only [Except.error.injEq] at h; exact h.symm
      | some t => rw [hl] at h; simp at h

/-- a numeric stage of the skeleton computes `stage` of the model -/
theorem eval_tStage (u ok : Bool) (la : LA) (cL cU : Nat) (nan : Bool) (pass : Ordering → Bool)
    (l? : Option (List Rat)) (unk : List Rat → Option Rat) (test : Rat → Bool) (k : Bool → DTree)
    (hn : (valuationOf P o).b la.none = l?.isNone)
    (hs : ∀ l, l? = some l → (valuationOf P o).b la.short = isShort P o (some l))
    (hL : ∀ l t, l? = some l → getLabelThreshold P.targets o.label l = .ok (some t) →
      pass ((valuationOf P o).c cL) = test t)
    (hU : ∀ l, l? = some l →
      (nan = true → (valuationOf P o).b la.empty = (unk l).isNone) ∧ (nan = false → (unk l).isSome = true) ∧
      (∀ m, unk l = some m → pass ((valuationOf P o).c cU) = test m)) :
    eval (tStage u ok la cL cU nan pass k) (valuationOf P o) =
      bindR (stage P u o ok l? unk test) (fun b => eval (k b) (valuationOf P o)) := by
  unfold tStage stage
  cases ok with
  | false => simp [bindR]
  | true =>
    simp only [Bool.not_true, Bool.false_eq_true, if_false, eval_askB, eval_ite, hn]
    cases hl : l? with
    | none => simp [bindR]
    | some l =>
      simp only [Option.isNone_some, Bool.false_eq_true, if_false]
      obtain ⟨h1, h2, h3⟩ := hU l hl
      cases u with
      | true =>
        simp only [if_true, bound]
        cases nan with
        | true =>
          simp only [if_true, eval_askB, eval_ite, h1 rfl]
          cases hunk : unk l with
          | none => simp [bindR, cmpB]
          | some m => simp [bindR, cmpB, eval_askC, h3 m hunk]
        | false =>
          simp only [Bool.false_eq_true, if_false, eval_askC]
          have := h2 rfl
          cases hunk : unk l with
          | none => rw [hunk] at this; simp at this
          | some m => simp [bindR, cmpB, h3 m hunk]
      | false =>
        simp only [Bool.false_eq_true, if_false, bound]
        rw [eval_tEntry la l _ (hs l hl)]
        cases hg : getLabelThreshold P.targets o.label l with
        | error e =>
          have := getLabelThreshold_error hg
          subst this
          simp [bindR, errCode, eIndex]
        | ok r =>
          cases r with
          | none => simp [bindR, errCode, eType]
          | some t => simp [bindR, cmpB, eval_askC, hL l t hl hg]

/-! ## order atoms against the model's tests -/

theorem cmpR_lt (a b : Rat) : (cmpR a b == .lt) = decide (a < b) := by
  unfold cmpR
  by_cases h : a < b
  · simp [h]
  · by_cases e : a = b <;> simp [h, e]

theorem cmpR_gt (a b : Rat) : (cmpR a b == .gt) = decide (b < a) := by
  unfold cmpR
  by_cases h : a < b
  · have : ¬ b < a := by linarith
    simp [h, this]
  · by_cases e : a = b
    · subst e; simp
    · have : b < a := lt_of_le_of_ne (not_lt.1 h) (fun x => e x.symm)
      simp [h, e, this]

theorem cmpDist_lt (p : Pos) (t : Rat) : (cmpDist p.d2 t == .lt) = distLt p.d2 t := by
  have hd : 0 ≤ p.d2 := by unfold Pos.d2; nlinarith [mul_self_nonneg p.x, mul_self_nonneg p.y]
  unfold cmpDist distLt
  by_cases h : t < 0
  · have : ¬ 0 < t := by linarith
    simp [h, this]
  · simp only [h, if_false, cmpR_lt]
    by_cases h0 : 0 < t
    · simp [h0]
    · have ht : t = 0 := le_antisymm (not_lt.1 h0) (not_lt.1 h)
      subst ht
      simp [hd]

theorem cmpDist_gt (p : Pos) (t : Rat) : (cmpDist p.d2 t == .gt) = distGt p.d2 t := by
  unfold cmpDist distGt
  by_cases h : t < 0
  · simp [h]
  · simp [h, cmpR_gt]

theorem cmpI_ne_lt (a b : Int) : (cmpI a b != .lt) = decide (b ≤ a) := by
  unfold cmpI
  by_cases h : a < b
  · have : ¬ b ≤ a := by omega
    simp [h, this]
  · have : b ≤ a := by omega
    by_cases e : a = b <;> simp [h, e, this]

theorem entryR_eq {l : List Rat} {t : Rat} (h : getLabelThreshold P.targets o.label l = .ok (some t)) (l' : Option (List Rat))
    (hl : l' = some l) : entryR P o l' = t := by
  subst hl
  unfold getLabelThreshold at h
  unfold entryR labelIdx
  cases hT : P.targets with
  | none => rw [hT] at h; simp at h
  | some ts =>
    rw [hT] at h
    simp only at h
    cases hi : indexOf? o.label ts with
    | none => rw [hi] at h; simp at h
    | some i =>
      rw [hi] at h
      simp only at h
      cases hg : l[i]? with
      | none => rw [hg] at h; simp at h
      | some x => rw [hg] at h; simp only [Except.ok.injEq, Option.some.injEq] at h; simp [hi, hg, h]

theorem entryI_eq {l : List Int} {t : Int} (h : getLabelThreshold P.targets o.label l = .ok (some t)) (l' : Option (List Int))
    (hl : l' = some l) : entryI P o l' = t := by
  subst hl
  unfold getLabelThreshold at h
  unfold entryI labelIdx
  cases hT : P.targets with
  | none => rw [hT] at h; simp at h
  | some ts =>
    rw [hT] at h
    simp only at h
    cases hi : indexOf? o.label ts with
    | none => rw [hi] at h; simp at h
    | some i =>
      rw [hi] at h
      simp only at h
      cases hg : l[i]? with
      | none => rw [hg] at h; simp at h
      | some x => rw [hg] at h; simp only [Except.ok.injEq, Option.some.injEq] at h; simp [hi, hg, h]

theorem mean_facts (l : List Rat) : isEmptyL (some l) = (mean l).isNone ∧ ∀ m, mean l = some m → meanR (some l) = m := by
  unfold mean meanR isEmptyL
  cases l with
  | nil => simp [mean]
  | cons a as => simp [mean]

/-! ## position -/

/-- which position the range tests read: `none` none, `some false` the object's own, `some true` the transformed one -/
def posKind (P : Params) (o : Obj) : Option Bool :=
  if !P.hasTransforms && o.frame == "base_link" then some false
  else if o.pos.isSome && P.hasTransforms then (if o.frame == "base_link" then some false else some true)
  else none

theorem eval_tPosition (k : Option Bool → DTree) :
    eval (tPosition k) (valuationOf P o) =
      (match position P o with
       | .error e => .raise (errCode e)
       | .ok _ => eval (k (posKind P o)) (valuationOf P o)) := by
  unfold tPosition position posKind
  have h9 : (valuationOf P o).b aTfNone = !P.hasTransforms := rfl
  have h10 : (valuationOf P o).b aFrameBl = (o.frame == "base_link") := rfl
  have h11 : (valuationOf P o).b aPosNone = o.pos.isNone := rfl
  have h12 : (valuationOf P o).b aIs2d = o.is2d := rfl
  have h13 : (valuationOf P o).b aTfMissing = o.egoPos.isNone := rfl
  simp only [eval_ite, eval_askB, h9, h10, h11, h12, h13]
  cases P.hasTransforms <;> cases (o.frame == "base_link") <;> cases o.pos <;> cases o.egoPos <;> cases o.is2d <;>
    simp [eval, errCode, eAssert, eType, eKey]

theorem position_kind {pos : Option Pos} (h : position P o = .ok pos) :
    pos = (posKind P o).map (fun tf => posOf tf o) := by
  unfold position at h
  unfold posKind posOf
  cases hT : P.hasTransforms <;> cases hF : (o.frame == "base_link") <;> cases hp : o.pos <;> cases he : o.egoPos <;>
    simp [hT, hF, hp, he] at h ⊢ <;> first | exact h.symm | exact h | skip

/-! ## points, uuid -/

theorem eval_tPts (u ok : Bool) (k : Bool → DTree) :
    eval (tPts u ok k) (valuationOf P o) = bindR (stagePts P u o ok) (fun b => eval (k b) (valuationOf P o)) := by
  unfold tPts stagePts
  cases ok with
  | false => simp [bindR]
  | true =>
    have h2 : (valuationOf P o).b aIsGt = P.isGt := rfl
    have hn : (valuationOf P o).b laPts.none = P.minPts.isNone := rfl
    have h12 : (valuationOf P o).b aIs2d = o.is2d := rfl
    have h14 : (valuationOf P o).b aPcNone = o.pcNum.isNone := rfl
    have hs : (valuationOf P o).b laPts.short = isShort P o P.minPts := rfl
    have h3 : (valuationOf P o).b aTargetsNone = P.targets.isNone := rfl
    have h6 : (valuationOf P o).b aLabelIn = (labelIdx P o).isSome := rfl
    have hc : (valuationOf P o).c cPts = cmpI (o.pcNum.getD 0) (entryI P o P.minPts) := rfl
    have hc0 : (valuationOf P o).c cPts0 = cmpI 0 (o.pcNum.getD 0) := rfl
    simp only [Bool.not_true, Bool.false_eq_true, if_false, eval_ite, eval_askB, h2, hn, Bool.true_and]
    cases hg : P.isGt with
    | false => simp [bindR]
    | true =>
      cases hl : P.minPts with
      | none => simp [bindR]
      | some l =>
        simp only [Bool.not_true, Bool.false_eq_true, if_false, Option.isNone_some]
        cases u with
        | true =>
          unfold tPc
          simp only [if_true, eval_ite, eval_askB, eval_askC, h12, h14, hc0]
          cases o.is2d
          · cases hp : o.pcNum with
            | none => simp [bindR, eval, errCode, eType]
            | some c =>
              simp only [Bool.false_eq_true, if_false, Option.isNone_some, Bool.not_true, Option.getD_some, bindR]
              congr 2
              unfold cmpI
              by_cases h0 : (0:Int) < c
              · have : (0:Int) ≤ c := by omega
                simp [h0, this]
              · by_cases e0 : (0:Int) = c
                · simp [← e0]
                · have : ¬ (0:Int) ≤ c := by omega
                  simp [h0, e0, this]
          · simp [bindR, eval, errCode, eAttr]
        | false =>
          simp only [Bool.false_eq_true, if_false]
          unfold getLabelThreshold tPc
          simp only [eval_ite, eval_askB, eval_askC, h3, h6, hs, h12, h14, hc, hl]
          cases hT : P.targets with
          | none => cases o.is2d <;> simp [bindR, eval, errCode, eAttr, eType]
          | some ts =>
            cases hi : indexOf? o.label ts with
            | none => cases o.is2d <;> simp [labelIdx, hT, hi, bindR, eval, errCode, eAttr, eType]
            | some i =>
              cases hli : l[i]? with
              | none => simp [labelIdx, hT, hi, isShort, hli, bindR, eval, errCode, eIndex]
              | some n =>
                cases o.is2d
                · cases hp : o.pcNum with
                  | none => simp [labelIdx, hT, hi, isShort, hli, bindR, eval, errCode, eType]
                  | some c =>
                    have he : entryI P o (some l) = n := by simp [entryI, labelIdx, hT, hi, hli]
                    simp [labelIdx, hT, hi, isShort, hli, bindR, he, cmpI_ne_lt]
                · simp [labelIdx, hT, hi, isShort, hli, bindR, eval, errCode, eAttr]

theorem eval_tUuid (ok : Bool) (k : Bool → DTree) :
    eval (tUuid ok k) (valuationOf P o) = eval (k (stageUuid P o ok)) (valuationOf P o) := by
  unfold tUuid stageUuid
  have h2 : (valuationOf P o).b aIsGt = P.isGt := rfl
  have h15 : (valuationOf P o).b aUuidsNone = P.uuids.isNone := rfl
  have h16 : (valuationOf P o).b aUuidIn = (match P.uuids, o.uuid with | some us, some u => us.contains u | _, _ => false) := rfl
  simp only [eval_ite, eval_askB, h2, h15, h16]
  cases ok <;> cases P.isGt <;> cases P.uuids <;> cases o.uuid <;> simp


/-! ## the numeric stages -/

theorem eval_conf (u ok : Bool) (k : Bool → DTree) :
    eval (tStage u ok laConf cConf cConf0 false (· == .lt) k) (valuationOf P o) =
      bindR (stage P u o ok P.conf (fun _ => some 0) (fun t => decide (t < o.score))) (fun b => eval (k b) (valuationOf P o)) := by
  apply eval_tStage
  · rfl
  · intro l hl
    show isShort P o P.conf = isShort P o (some l)
    rw [hl]
  · intro l t hl hg
    show (cmpR (entryR P o P.conf) o.score == .lt) = decide (t < o.score)
    rw [entryR_eq hg _ hl, cmpR_lt]
  · intro l _
    refine ⟨fun h => (by cases h), fun _ => rfl, ?_⟩
    intro m hm
    simp only [Option.some.injEq] at hm
    subst hm
    show (cmpR 0 o.score == .lt) = decide (0 < o.score)
    rw [cmpR_lt]

theorem valC_pos (tf : Bool) (i : Nat) (hi : i < 8) : (valuationOf P o).c (cBase tf + i) = valCPos P o tf i := by
  have : i = 0 ∨ i = 1 ∨ i = 2 ∨ i = 3 ∨ i = 4 ∨ i = 5 ∨ i = 6 ∨ i = 7 := by omega
  cases tf <;> rcases this with rfl | rfl | rfl | rfl | rfl | rfl | rfl | rfl <;> rfl

/-- a range stage (`np.mean` for relaxed objects) at offset `i` of the position-dependent order atoms -/
theorem eval_range_stage (tf : Bool) (u ok : Bool) (la : LA) (i : Nat) (hi : i + 1 < 8) (l? : Option (List Rat))
    (pass : Ordering → Bool) (test : Rat → Bool) (k : Bool → DTree)
    (hn : (valuationOf P o).b la.none = l?.isNone)
    (hs : (valuationOf P o).b la.short = isShort P o l?)
    (he : (valuationOf P o).b la.empty = isEmptyL l?)
    (hcL : pass (valCPos P o tf i) = test (entryR P o l?))
    (hcU : pass (valCPos P o tf (i + 1)) = test (meanR l?)) :
    eval (tStage u ok la (cBase tf + i) (cBase tf + (i + 1)) true pass k) (valuationOf P o) =
      bindR (stage P u o ok l? mean test) (fun b => eval (k b) (valuationOf P o)) := by
  apply eval_tStage
  · exact hn
  · intro l hl; rw [hs, hl]
  · intro l t hl hg
    rw [valC_pos tf i (by omega), hcL, entryR_eq hg _ hl]
  · intro l hl
    obtain ⟨m1, m2⟩ := mean_facts l
    refine ⟨fun _ => (by rw [he, hl]; exact m1), fun h => (by cases h), ?_⟩
    intro m hm
    rw [valC_pos tf (i + 1) hi, hcU, hl, m2 m hm]

theorem bindR_ok (b : Bool) (f : Bool → DT.Res) : bindR (.ok b) f = f b := rfl
theorem bindR_error (e : Err) (f : Bool → DT.Res) : bindR (.error e) f = .raise (errCode e) := rfl

theorem eval_tRange (u ok : Bool) (kind : Option Bool) (k : Bool → DTree) :
    eval (tRange u ok kind k) (valuationOf P o) =
      bindR (stageRange P u o (kind.map (fun tf => posOf tf o)) ok) (fun b => eval (k b) (valuationOf P o)) := by
  cases kind with
  | none => simp [tRange, stageRange, bindR]
  | some tf =>
    unfold tRange stageRange
    simp only [Option.map_some]
    have sX := fun ok k => eval_range_stage (P := P) (o := o) tf u ok laMaxX 0 (by omega) P.maxX (· == .lt)
      (fun t => decide (absR (posOf tf o).x < t)) k rfl rfl rfl (cmpR_lt _ _) (cmpR_lt _ _)
    have sY := fun ok k => eval_range_stage (P := P) (o := o) tf u ok laMaxY 2 (by omega) P.maxY (· == .lt)
      (fun t => decide (absR (posOf tf o).y < t)) k rfl rfl rfl (cmpR_lt _ _) (cmpR_lt _ _)
    have sD := fun ok k => eval_range_stage (P := P) (o := o) tf u ok laMaxD 4 (by omega) P.maxDist (· == .lt)
      (fun t => distLt (posOf tf o).d2 t) k rfl rfl rfl (cmpDist_lt _ _) (cmpDist_lt _ _)
    have sM := fun ok k => eval_range_stage (P := P) (o := o) tf u ok laMinD 6 (by omega) P.minDist (· == .gt)
      (fun t => distGt (posOf tf o).d2 t) k rfl rfl rfl (cmpDist_gt _ _) (cmpDist_gt _ _)
    simp only [Nat.add_zero, Nat.reduceAdd] at sX sY sD sM
    rw [sX]
    cases stage P u o ok P.maxX mean fun t => decide (absR (posOf tf o).x < t) with
    | error e => rfl
    | ok ok1 =>
      simp only [bindR_ok]
      rw [sY]
      cases stage P u o ok1 P.maxY mean fun t => decide (absR (posOf tf o).y < t) with
      | error e => rfl
      | ok ok2 =>
        simp only [bindR_ok]
        rw [sD]
        cases stage P u o ok2 P.maxDist mean fun t => distLt (posOf tf o).d2 t with
        | error e => rfl
        | ok ok3 =>
          simp only [bindR_ok]
          rw [sM]
          cases stage P u o ok3 P.minDist mean fun t => distGt (posOf tf o).d2 t with
          | error e => rfl
          | ok ok4 =>
            simp only [bindR_ok]
            exact eval_tPts u ok4 k

/-! ## the whole function -/

/-- the model IS its decision skeleton applied to the atoms of the input -/
theorem isTarget_eq_tree (P : Params) (o : Obj) :
    eval isTargetTree (valuationOf P o) = ofExcept (isTarget P o) := by
  unfold isTargetTree isTarget
  have h0 : (valuationOf P o).b aFp = isFP o.label := rfl
  simp only [eval_askB, eval_ite, h0]
  cases isFP o.label with
  | true => simp [eval, ofExcept]
  | false =>
    simp only [Bool.false_eq_true, if_false]
    rw [eval_tUse, eval_tLabel, eval_tAttr, eval_conf]
    cases stage P (useUnknown P o) o (stageAttr P (useUnknown P o) o (stageLabel P (useUnknown P o) o)) P.conf
        (fun _ => some 0) fun t => decide (t < o.score) with
    | error e => rfl
    | ok ok2 =>
      simp only [bindR_ok]
      rw [eval_tPosition]
      cases hpos : position P o with
      | error e => rfl
      | ok pos =>
        simp only []
        rw [eval_tRange, ← position_kind hpos]
        cases stageRange P (useUnknown P o) o pos ok2 with
        | error e => rfl
        | ok ok3 =>
          simp only [bindR_ok]
          rw [eval_tUuid]
          rfl

theorem isTargetAtoms_valuationOf (P : Params) (o : Obj) : isTargetAtoms (valuationOf P o) = ofExcept (isTarget P o) :=
  isTarget_eq_tree P o

/-! ## the readings the text leaves open (`Model/FilterTable.lean`) differ only on `openValuations` -/

/-- kernel evaluation, independent of the generated table (cached by Lake): today's reading, written as head and tail,
is the skeleton `isTargetTree` whose bridge is proved above -/
theorem isTargetTreeR_today_check :
    agree [] [aIsGt, aTargetsNone, aLabelIn] (isTargetTreeR today) isTargetTree PA.empty = true := by decide +kernel

theorem eval_isTargetTreeR_today (v : Val) : eval (isTargetTreeR today) v = eval isTargetTree v :=
  agree_sound isTargetTreeR_today_check v (by simp [consistent])

/-- kernel evaluation (small trees): the head of each of the eight readings agrees with the head of today's reading under
every valuation avoiding `openValuations` -/
theorem readings_agree_check :
    readings.all (fun r => agree openValuations openSticky (headR r) (headR today) PA.empty) = true := by
  decide +kernel

theorem readings_agree_outside_open {r : Reading} (hr : r ∈ readings) (v : Val)
    (hv : consistent openValuations v = true) : eval (isTargetTreeR r) v = eval isTargetTree v := by
  rw [← eval_isTargetTreeR_today]
  unfold isTargetTreeR
  rw [eval_bindT, eval_bindT, agree_sound (List.all_eq_true.1 readings_agree_check r hr) v hv]

/-- under every reading an FP-labelled object passes -/
theorem eval_isTargetTreeR_fp (r : Reading) (v : Val) (h : v.b aFp = true) : eval (isTargetTreeR r) v = .ret true := by
  unfold isTargetTreeR headR
  rw [eval_bindT, eval_askB, h]
  rfl

/-- every reading is listed -/
theorem mem_readings (r : Reading) : r ∈ readings := by
  rcases r with ⟨a, b, c⟩
  cases a <;> cases b <;> cases c <;> decide

theorem canonRes_ret {x : DT.Res} {b : Bool} (h : canonRes x = .ret b) : x = .ret b := by
  cases x <;> simp [canonRes] at h ⊢
  exact h

end PEval.FilterTable
