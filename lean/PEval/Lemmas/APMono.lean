import PEval.Lemmas.APClassify
/-!
Lemmas about the AP model, part 4 (C08): loosening a matching threshold. `looser m t t'` is the
per-mode direction (distance modes: `t ≤ t'`; IoU modes: `t' ≤ t`).
-/

namespace PEval.AP

/-- `t'` is at least as loose as `t` for mode `m` -/
def looser (m : Mode) (t t' : Rat) : Prop := if m.isDistance then t ≤ t' else t' ≤ t

/-- the same on optional thresholds (a label without threshold has none under both lists) -/
def optLooser (m : Mode) : Option Rat → Option Rat → Prop
  | none, none => True
  | some t, some t' => looser m t t'
  | _, _ => False

theorem isBetter_mono {m : Mode} {v t t' : Rat} (hl : looser m t t') (h : isBetter m v t = true) :
    isBetter m v t' = true := by
  unfold isBetter looser at *
  cases hm : m.isDistance <;> simp only [hm, if_true, if_false, Bool.false_eq_true, decide_eq_true_eq] at *
  · exact lt_of_le_of_lt hl h
  · exact lt_of_lt_of_le h hl

theorem isBetterThan_mono {m : Mode} {v : Option Rat} {t t' : Rat} (hl : looser m t t')
    (h : isBetterThan m v t = .ok true) {b : Bool} (h' : isBetterThan m v t' = .ok b) : b = true := by
  unfold isBetterThan at h h'
  split at h
  · split at h'
    · cases v with
      | none => simp at h
      | some x =>
        simp only [Except.ok.injEq] at h h'
        rw [← h']
        exact isBetter_mono hl h
    · cases h'
  · cases h

/-- a result with an ordinary ground truth that is correct at `o` stays correct at any looser `o'` -/
theorem isResultCorrect_mono_opt {m : Mode} {r : Res} {o o' : Option Rat}
    (hord : ∀ g, r.gt = some g → g.label ≠ fpLabel) (hl : optLooser m o o')
    (h : isResultCorrect m o r = .ok true) {b : Bool} (h' : isResultCorrect m o' r = .ok b) :
    b = true := by
  unfold isResultCorrect at h h'
  cases hg : r.gt with
  | none => simp [hg] at h
  | some g =>
    have hne : (g.label == fpLabel) = false := by
      simp only [beq_eq_false_iff_ne, ne_eq]; exact hord g hg
    simp only [hg] at h h'
    cases o with
    | none =>
      cases o' with
      | none =>
        simp only [Except.ok.injEq] at h h'; rw [← h', h]
      | some t' => simp [optLooser] at hl
    | some t =>
      cases o' with
      | none => simp [optLooser] at hl
      | some t' =>
        simp only [optLooser] at hl
        cases hs : r.score with
        | noMethod =>
          simp only [hs, Except.ok.injEq] at h h'; rw [← h', h]
        | val v =>
          simp only [hs] at h h'
          cases hb : isBetterThan m v t with
          | error e => simp [hb] at h
          | ok b1 =>
            cases hb' : isBetterThan m v t' with
            | error e => simp [hb'] at h'
            | ok b2 =>
              simp only [hb, hb', hne, Bool.false_eq_true, if_false, Except.ok.injEq,
                Bool.and_eq_true] at h h'
              have : b2 = true := isBetterThan_mono hl (by rw [hb, h.1]) hb'
              rw [← h', this, h.2]; rfl

/-- for a false-positive-labelled ground truth the direction is reversed: "correct" means the
estimate does NOT match it, and that is lost, never gained, by loosening -/
theorem isResultCorrect_anti_fp {m : Mode} {r : Res} {g : Gt} {t t' : Rat} (hg : r.gt = some g)
    (hfp : g.label = fpLabel) (hl : looser m t t')
    (h : isResultCorrect m (some t) r = .ok false) {b : Bool}
    (h' : isResultCorrect m (some t') r = .ok b) : b = false := by
  unfold isResultCorrect at h h'
  have he : (g.label == fpLabel) = true := by simp [hfp]
  simp only [hg] at h h'
  cases hs : r.score with
  | noMethod => simp only [hs, Except.ok.injEq] at h h'; rw [← h', h]
  | val v =>
    simp only [hs] at h h'
    cases hb : isBetterThan m v t with
    | error e => simp [hb] at h
    | ok b1 =>
      cases hb' : isBetterThan m v t' with
      | error e => simp [hb'] at h'
      | ok b2 =>
        simp only [hb, hb', he, if_true, Except.ok.injEq, Bool.not_eq_false'] at h h'
        have : b2 = true := isBetterThan_mono hl (by rw [hb, h]) hb'
        rw [← h', this]; rfl

/-! ### threshold lookup under two pointwise related lists -/

theorem forall₂_getElem? {α : Type} {R : α → α → Prop} {l l' : List α} (h : List.Forall₂ R l l')
    (i : Nat) : (l[i]? = none ∧ l'[i]? = none) ∨ ∃ a b, l[i]? = some a ∧ l'[i]? = some b ∧ R a b := by
  induction h generalizing i with
  | nil => exact Or.inl ⟨rfl, rfl⟩
  | @cons a b t t' hab _ ih =>
    cases i with
    | zero => exact Or.inr ⟨a, b, rfl, rfl, hab⟩
    | succ n => simpa using ih n

/-- both lookups fail alike, or find nothing alike, or find related thresholds -/
theorem getLabelThreshold_rel {m : Mode} (l : Label) (T : List Label) {th th' : List Rat}
    (h : List.Forall₂ (looser m) th th') :
    (∃ e, getLabelThreshold l T (some th) = .error e ∧ getLabelThreshold l T (some th') = .error e)
    ∨ ∃ o o', getLabelThreshold l T (some th) = .ok o ∧ getLabelThreshold l T (some th') = .ok o'
        ∧ optLooser m o o' := by
  unfold getLabelThreshold
  cases hi : T.findIdx? (· == l) with
  | none => exact Or.inr ⟨none, none, rfl, rfl, trivial⟩
  | some i =>
    rcases forall₂_getElem? h i with ⟨h1, h2⟩ | ⟨a, b, h1, h2, hab⟩
    · exact Or.inl ⟨"IndexError", by simp [h1], by simp [h2]⟩
    · exact Or.inr ⟨some a, some b, by simp [h1], by simp [h2], hab⟩

theorem getLabelThreshold_not_target {l : Label} {T : List Label} (h : l ∉ T) (th : Option (List Rat)) :
    getLabelThreshold l T th = .ok none := by
  unfold getLabelThreshold
  cases th with
  | none => rfl
  | some ts =>
    have : T.findIdx? (· == l) = none := by
      rw [List.findIdx?_eq_none_iff]
      intro x hx
      simp only [beq_eq_false_iff_ne, ne_eq]
      intro e; subst e; exact h hx
    simp [this]

/-! ### one result under two thresholds -/

/-- `hfp`: the result's ground truth is ordinary, or the false-positive label is no target (then an
FP-labelled ground truth has no threshold and the result is ignored under both lists) -/
theorem classify_thr_rel {tm : TpMetric} {m : Mode} {T : List Label} {th th' : List Rat} {r : Res}
    (hth : List.Forall₂ (looser m) th th')
    (hfp : fpLabel ∉ T ∨ ∀ g, r.gt = some g → g.label ≠ fpLabel) (hw : 0 ≤ tpValue tm r)
    {k k' : Kind} (h1 : classify tm m T th r = .ok k) (h2 : classify tm m T th' r = .ok k') :
    0 ≤ k.tpw ∧ k.tpw ≤ k'.tpw := by
  have hk' : 0 ≤ k'.tpw := by
    rcases classify_tpw h2 with h | h <;> rw [h]
    exact hw
  -- an FP-labelled ground truth with `fpLabel ∉ T` is ignored
  by_cases hord : ∀ g, r.gt = some g → g.label ≠ fpLabel
  · unfold classify at h1 h2
    rcases getLabelThreshold_rel (m := m) (keyLabel r) T hth with ⟨e, he, _⟩ | ⟨o, o', ho, ho', hoo⟩
    · simp [he] at h1
    · simp only [ho] at h1
      simp only [ho'] at h2
      cases o with
      | none => cases h1; exact ⟨le_refl 0, hk'⟩
      | some t =>
        cases o' with
        | none => simp [optLooser] at hoo
        | some t' =>
          simp only at h1 h2
          cases hc : isResultCorrect m (some t) r with
          | error e => simp [hc] at h1
          | ok b =>
            cases hc' : isResultCorrect m (some t') r with
            | error e => simp [hc'] at h2
            | ok b' =>
              cases b with
              | false => simp only [hc, Except.ok.injEq] at h1; subst h1; exact ⟨le_refl 0, hk'⟩
              | true =>
                have : b' = true := isResultCorrect_mono_opt hord hoo hc hc'
                subst this
                simp only [hc, hc', Except.ok.injEq] at h1 h2
                subst h1 h2
                exact ⟨hw, le_refl _⟩
  · have hT : fpLabel ∉ T := by
      rcases hfp with h | h
      · exact h
      · exact absurd h hord
    simp only [not_forall, not_not] at hord
    obtain ⟨g, hg, hgl⟩ := hord
    have hkey : keyLabel r = fpLabel := by simp [keyLabel, hg]; exact hgl
    unfold classify at h1
    rw [hkey, getLabelThreshold_not_target hT] at h1
    cases h1
    exact ⟨le_refl 0, hk'⟩

/-! ### `getPositive` / `getNegative` under two thresholds -/

theorem getStatus_rel {m : Mode} {r : Res} {o o' : Option Rat} (hl : optLooser m o o')
    {s s' : Status × Option Status} (h : getStatus m o r = .ok s) (h' : getStatus m o' r = .ok s') :
    -- a TP stays a TP; an FN can only come from an FN
    (s = (.tp, some .tp) → s' = (.tp, some .tp)) ∧ (s'.2 = some .fn → s.2 = some .fn)
    ∧ (s.2 = none ↔ s'.2 = none) := by
  unfold getStatus at h h'
  cases hg : r.gt with
  | none => simp only [hg, Except.ok.injEq] at h h'; subst h h'; simp
  | some g =>
    simp only [hg] at h h'
    cases hc : isResultCorrect m o r with
    | error e => simp [hc] at h
    | ok b =>
      cases hc' : isResultCorrect m o' r with
      | error e => simp [hc'] at h'
      | ok b' =>
        by_cases hfp : g.label = fpLabel
        · have he : (g.label == fpLabel) = true := by simp [hfp]
          cases b <;> cases b' <;> simp only [hc, hc', he, if_true, Except.ok.injEq] at h h' <;>
            subst h h' <;> simp
        · have he : (g.label == fpLabel) = false := by simp [hfp]
          have hord : ∀ g', r.gt = some g' → g'.label ≠ fpLabel := by
            intro g' hg'; rw [hg] at hg'; cases hg'; exact hfp
          cases b with
          | true =>
            have : b' = true := isResultCorrect_mono_opt hord hl hc hc'
            subst this
            simp only [hc, hc', he, if_false, Bool.false_eq_true, Except.ok.injEq] at h h'
            subst h h'; simp
          | false =>
            cases b' <;> simp only [hc, hc', he, if_false, Bool.false_eq_true, Except.ok.injEq] at h h' <;>
              subst h h' <;> simp

theorem isPositive_mono {m : Mode} {T : List Label} {th th' : List Rat} {r : Res}
    (hth : List.Forall₂ (looser m) th th') (h : isPositive m T (some th) r = .ok true) {b : Bool}
    (h' : isPositive m T (some th') r = .ok b) : b = true := by
  unfold isPositive at h h'
  cases hg : r.gt with
  | none => simp [hg] at h
  | some g =>
    simp only [hg] at h h'
    rcases getLabelThreshold_rel (m := m) g.label T hth with ⟨e, he, _⟩ | ⟨o, o', ho, ho', hoo⟩
    · simp [he] at h
    · simp only [ho] at h
      simp only [ho'] at h'
      cases hs : getStatus m o r with
      | error e => simp [hs] at h
      | ok s =>
        cases hs' : getStatus m o' r with
        | error e => simp [hs'] at h'
        | ok s' =>
          have hrel := (getStatus_rel hoo hs hs').1
          obtain ⟨s1, s2⟩ := s
          have hs12 : (s1, s2) = (Status.tp, some Status.tp) := by
            simp only [hs] at h
            split at h <;> simp_all
          have := hrel hs12
          subst this
          simp only [hs'] at h'
          cases h'; rfl

/-- the TP ids under the tighter list are a sub-list of the TP ids under the looser list, and the FP
ids under the looser list a sub-list of those under the tighter one -/
theorem getPositive_mono {m : Mode} {T : List Label} {th th' : List Rat}
    (hth : List.Forall₂ (looser m) th th') {rs : List Res} {p p' : List Nat × List Nat}
    (h : getPositive m T (some th) rs = .ok p) (h' : getPositive m T (some th') rs = .ok p') :
    p.1.Sublist p'.1 ∧ p'.2.Sublist p.2 := by
  induction rs generalizing p p' with
  | nil =>
    simp only [getPositive, Except.ok.injEq] at h h'
    subst h h'
    exact ⟨List.Sublist.refl _, List.Sublist.refl _⟩
  | cons r t ih =>
    unfold getPositive at h h'
    cases hb : isPositive m T (some th) r with
    | error e => simp [hb] at h
    | ok b =>
      cases hb' : isPositive m T (some th') r with
      | error e => simp [hb'] at h'
      | ok b' =>
        cases hp : getPositive m T (some th) t with
        | error e => simp [hb, hp] at h
        | ok q =>
          cases hp' : getPositive m T (some th') t with
          | error e => simp [hb', hp'] at h'
          | ok q' =>
            obtain ⟨i1, i2⟩ := ih hp hp'
            simp only [hb, hp, Except.ok.injEq] at h
            simp only [hb', hp', Except.ok.injEq] at h'
            subst h h'
            cases b with
            | true =>
              have : b' = true := isPositive_mono hth hb hb'
              subst this
              exact ⟨List.Sublist.cons_cons _ i1, i2⟩
            | false =>
              cases b' with
              | true => exact ⟨List.Sublist.cons _ i1, List.Sublist.cons _ i2⟩
              | false => exact ⟨i1, List.Sublist.cons_cons _ i2⟩

/-- relation between the ground-truth statuses of one result list under two threshold lists -/
def StRel : Option (Gt × Status) → Option (Gt × Status) → Prop
  | none, none => True
  | some (g, s), some (g', s') => g = g' ∧ (s' = Status.fn → s = Status.fn)
  | _, _ => False

theorem gtStatuses_rel {m : Mode} {T : List Label} {th th' : List Rat}
    (hth : List.Forall₂ (looser m) th th') {rs : List Res} {l l' : List (Option (Gt × Status))}
    (h : gtStatuses m T (some th) rs = .ok l) (h' : gtStatuses m T (some th') rs = .ok l') :
    List.Forall₂ StRel l l' := by
  induction rs generalizing l l' with
  | nil =>
    simp only [gtStatuses, Except.ok.injEq] at h h'
    subst h h'
    exact .nil
  | cons r t ih =>
    unfold gtStatuses at h h'
    rcases getLabelThreshold_rel (m := m) (keyLabel r) T hth with ⟨e, he, _⟩ | ⟨o, o', ho, ho', hoo⟩
    · simp [he] at h
    · simp only [ho] at h
      simp only [ho'] at h'
      cases hs : getStatus m o r with
      | error e => simp [hs] at h
      | ok s =>
        cases hs' : getStatus m o' r with
        | error e => simp [hs'] at h'
        | ok s' =>
          cases hq : gtStatuses m T (some th) t with
          | error e => simp [hs, hq] at h
          | ok q =>
            cases hq' : gtStatuses m T (some th') t with
            | error e => simp [hs', hq'] at h'
            | ok q' =>
              simp only [hs, hq, Except.ok.injEq] at h
              simp only [hs', hq', Except.ok.injEq] at h'
              subst h h'
              refine .cons ?_ (ih hq hq')
              obtain ⟨_, hfn, hnone⟩ := getStatus_rel hoo hs hs'
              obtain ⟨s1, s2⟩ := s
              obtain ⟨s1', s2'⟩ := s'
              cases hg : r.gt with
              | none => simp [StRel]
              | some g =>
                cases s2 with
                | none =>
                  have : s2' = none := hnone.1 rfl
                  subst this; simp [StRel]
                | some a =>
                  cases s2' with
                  | none => have := hnone.2 rfl; cases this
                  | some a' =>
                    simp only [StRel, true_and]
                    intro e; subst e
                    have := hfn rfl
                    simpa using this

theorem stRel_filter {l l' : List (Option (Gt × Status))} (h : List.Forall₂ StRel l l') :
    (((l'.filterMap id).filter (fun gs => gs.2 == Status.fn)).map (fun gs => gs.1.id)).Sublist
      (((l.filterMap id).filter (fun gs => gs.2 == Status.fn)).map (fun gs => gs.1.id))
    ∧ (l.filterMap id).map (fun gs => gs.1.id) = (l'.filterMap id).map (fun gs => gs.1.id) := by
  induction h with
  | nil => exact ⟨List.Sublist.refl _, rfl⟩
  | @cons a b t t' hab _ ih =>
    cases a with
    | none =>
      cases b with
      | none => simpa using ih
      | some y => simp [StRel] at hab
    | some x =>
      cases b with
      | none => obtain ⟨g, s⟩ := x; simp [StRel] at hab
      | some y =>
        obtain ⟨g, s⟩ := x
        obtain ⟨g', s'⟩ := y
        simp only [StRel] at hab
        obtain ⟨rfl, hfn⟩ := hab
        simp only [List.filterMap_cons, id, List.filter_cons, List.map_cons]
        refine ⟨?_, by rw [ih.2]⟩
        by_cases hs' : s' = Status.fn
        · have hs := hfn hs'
          subst hs hs'
          simpa using List.Sublist.cons_cons g.id ih.1
        · have : (s' == Status.fn) = false := by simp [hs']
          simp only [this, Bool.false_eq_true, if_false]
          split
          · exact List.Sublist.cons _ ih.1
          · exact ih.1

/-- the FN ids under the looser list are a sub-list of the FN ids under the tighter list -/
theorem getNegative_mono {m : Mode} {T : List Label} {th th' : List Rat}
    (hth : List.Forall₂ (looser m) th th') {gts : List Gt} {rs : List Res} {n n' : List Nat × List Nat}
    (h : getNegative m T (some th) gts rs = .ok n) (h' : getNegative m T (some th') gts rs = .ok n') :
    n'.2.Sublist n.2 := by
  unfold getNegative at h h'
  cases hq : gtStatuses m T (some th) rs with
  | error e => simp [hq] at h
  | ok l =>
    cases hq' : gtStatuses m T (some th') rs with
    | error e => simp [hq'] at h'
    | ok l' =>
      simp only [hq, Except.ok.injEq] at h
      simp only [hq', Except.ok.injEq] at h'
      subst h h'
      obtain ⟨hsub, hids⟩ := stRel_filter (gtStatuses_rel hth hq hq')
      simp only
      rw [hids]
      exact List.Sublist.append hsub (List.Sublist.refl _)

/-! ### AP and mAP under two threshold lists -/

theorem tpValue_nonneg {tm : TpMetric} {r : Res} (h : 0 ≤ r.hw) : 0 ≤ tpValue tm r := by
  cases tm with
  | ap => exact zero_le_one
  | aph =>
    simp only [tpValue]
    by_cases hg : r.gt.isNone = true
    · simp only [hg, if_true]; exact le_refl 0
    · simp only [hg]; exact h

theorem apOf_thr_mono {tm : TpMetric} {m : Mode} {T : List Label} {th th' : List Rat} {G : Nat}
    {rs : List Res} (hth : List.Forall₂ (looser m) th th')
    (hfp : fpLabel ∉ T ∨ ∀ r ∈ rs, ∀ g, r.gt = some g → g.label ≠ fpLabel)
    (hw : ∀ r ∈ rs, 0 ≤ r.hw) {a a' : ApOut} (h : apOf tm m T th G rs = .ok a)
    (h' : apOf tm m T th' G rs = .ok a') : optLe a.ap a'.ap := by
  obtain ⟨ks, hk, rfl⟩ := apOf_ok h
  obtain ⟨ks', hk', rfl⟩ := apOf_ok h'
  apply apOfKinds_mono
  refine classifyAll_rel (fun r hr k k' h1 h2 => ?_) hk hk'
  have hr' := mem_sortDesc.1 hr
  refine classify_thr_rel hth ?_ (tpValue_nonneg (hw r hr')) h1 h2
  rcases hfp with h | h
  · exact Or.inl h
  · exact Or.inr (h r hr')

theorem mapLoop_mono {m : Mode} {is2d : Bool} {buckets : List (Label × List (List Res))}
    {nums : List (Label × Nat)} {zs zs' : List (Label × Rat)}
    (hz : List.Forall₂ (fun a b => a.1 = b.1 ∧ looser m a.2 b.2) zs zs')
    (hfp : ∀ a ∈ zs, a.1 ≠ fpLabel)
    (hhw : ∀ l rss, lookupKey l buckets = .ok rss → ∀ r ∈ rss.flatten, 0 ≤ r.hw)
    {o o' : List ApOut × List ApOut} (h : mapLoop m is2d buckets nums zs = .ok o)
    (h' : mapLoop m is2d buckets nums zs' = .ok o') :
    List.Forall₂ (fun a a' => optLe a.ap a'.ap) o.1 o'.1
      ∧ List.Forall₂ (fun a a' => optLe a.ap a'.ap) o.2 o'.2 := by
  induction hz generalizing o o' with
  | nil =>
    simp only [mapLoop, Except.ok.injEq] at h h'
    subst h h'
    exact ⟨.nil, .nil⟩
  | @cons a b t t' hab htl ih =>
    obtain ⟨l, thr⟩ := a
    obtain ⟨l', thr'⟩ := b
    obtain ⟨hl, hloose⟩ := hab
    simp only at hl hloose
    subst hl
    have hne : l ≠ fpLabel := hfp (l, thr) (List.mem_cons_self ..)
    have hnotin : fpLabel ∉ [l] := by
      simp only [List.mem_singleton]; exact fun e => hne e.symm
    have hth1 : List.Forall₂ (looser m) [thr] [thr'] := .cons hloose .nil
    unfold mapLoop at h h'
    cases hb : lookupKey l buckets with
    | error e => simp [hb] at h
    | ok rss =>
      cases hn : lookupKey l nums with
      | error e => simp [hb, hn] at h
      | ok G =>
        simp only [hb, hn] at h h'
        have hwr : ∀ r ∈ rss.flatten, 0 ≤ r.hw := hhw l rss hb
        cases ha : apOfNested .ap m [l] [thr] G rss with
        | error e => simp [ha] at h
        | ok a1 =>
          cases ha' : apOfNested .ap m [l] [thr'] G rss with
          | error e => simp [ha'] at h'
          | ok a1' =>
            have hap : optLe a1.ap a1'.ap := apOf_thr_mono hth1 (Or.inl hnotin) hwr ha ha'
            simp only [ha] at h
            simp only [ha'] at h'
            cases is2d with
            | true =>
              simp only [if_true] at h h'
              cases hr : mapLoop m true buckets nums t with
              | error e => simp [hr] at h
              | ok q =>
                cases hr' : mapLoop m true buckets nums t' with
                | error e => simp [hr'] at h'
                | ok q' =>
                  obtain ⟨i1, i2⟩ := ih (fun x hx => hfp x (List.mem_cons_of_mem _ hx)) hr hr'
                  obtain ⟨q1, q2⟩ := q
                  obtain ⟨q1', q2'⟩ := q'
                  simp only [hr, Except.ok.injEq] at h
                  simp only [hr', Except.ok.injEq] at h'
                  subst h h'
                  exact ⟨.cons hap i1, i2⟩
            | false =>
              simp only [Bool.false_eq_true, if_false] at h h'
              cases hh : apOfNested .aph m [l] [thr] G rss with
              | error e => simp [hh, Except.map] at h
              | ok h1 =>
                cases hh' : apOfNested .aph m [l] [thr'] G rss with
                | error e => simp [hh', Except.map] at h'
                | ok h1' =>
                  have haph : optLe h1.ap h1'.ap := apOf_thr_mono hth1 (Or.inl hnotin) hwr hh hh'
                  simp only [hh, Except.map] at h
                  simp only [hh', Except.map] at h'
                  cases hr : mapLoop m false buckets nums t with
                  | error e => simp [hr] at h
                  | ok q =>
                    cases hr' : mapLoop m false buckets nums t' with
                    | error e => simp [hr'] at h'
                    | ok q' =>
                      obtain ⟨i1, i2⟩ := ih (fun x hx => hfp x (List.mem_cons_of_mem _ hx)) hr hr'
                      obtain ⟨q1, q2⟩ := q
                      obtain ⟨q1', q2'⟩ := q'
                      simp only [hr, Except.ok.injEq] at h
                      simp only [hr', Except.ok.injEq] at h'
                      subst h h'
                      exact ⟨.cons hap i1, .cons haph i2⟩

theorem zip_looser {m : Mode} (T : List Label) {th th' : List Rat}
    (h : List.Forall₂ (looser m) th th') :
    List.Forall₂ (fun a b => a.1 = b.1 ∧ looser m a.2 b.2) (T.zip th) (T.zip th') := by
  induction h generalizing T with
  | nil => simp
  | cons hab _ ih =>
    cases T with
    | nil => simp
    | cons l ls => exact .cons ⟨rfl, hab⟩ (ih ls)

theorem mapOf_mono {m : Mode} {is2d : Bool} {T : List Label} {th th' : List Rat}
    {buckets : List (Label × List (List Res))} {nums : List (Label × Nat)}
    (hth : List.Forall₂ (looser m) th th') (hfp : fpLabel ∉ T)
    (hhw : ∀ l rss, lookupKey l buckets = .ok rss → ∀ r ∈ rss.flatten, 0 ≤ r.hw)
    {o o' : MapOut} (h : mapOf m is2d T th buckets nums = .ok o)
    (h' : mapOf m is2d T th' buckets nums = .ok o') :
    optLe o.map o'.map ∧ optLe o.maph o'.maph
      ∧ List.Forall₂ (fun a a' => optLe a.ap a'.ap) o.aps o'.aps
      ∧ List.Forall₂ (fun a a' => optLe a.ap a'.ap) o.aphs o'.aphs := by
  unfold mapOf at h h'
  cases hl : mapLoop m is2d buckets nums (T.zip th) with
  | error e => simp [hl] at h
  | ok q =>
    cases hl' : mapLoop m is2d buckets nums (T.zip th') with
    | error e => simp [hl'] at h'
    | ok q' =>
      have hfp' : ∀ a ∈ T.zip th, a.1 ≠ fpLabel := by
        intro a ha e
        obtain ⟨l, t⟩ := a
        have := (List.of_mem_zip ha).1
        simp only at e
        subst e
        exact hfp this
      obtain ⟨i1, i2⟩ := mapLoop_mono (zip_looser T hth) hfp' hhw hl hl'
      obtain ⟨q1, q2⟩ := q
      obtain ⟨q1', q2'⟩ := q'
      simp only [hl, Except.ok.injEq] at h
      simp only [hl', Except.ok.injEq] at h'
      subst h h'
      exact ⟨meanDefined_mono (forall₂_map (R := optLe) ApOut.ap i1),
        meanDefined_mono (forall₂_map (R := optLe) ApOut.ap i2), i1, i2⟩

/-! ### frame level: the buckets of `divide_objects` contain only input results -/

theorem lookupKey_mem {β : Type} {l : Label} {L : List (Label × β)} {v : β}
    (h : lookupKey l L = .ok v) : ∃ k, (k, v) ∈ L := by
  induction L with
  | nil => simp [lookupKey] at h
  | cons kv t ih =>
    obtain ⟨k, w⟩ := kv
    unfold lookupKey at h
    split at h
    · cases h; exact ⟨k, List.mem_cons_self ..⟩
    · obtain ⟨k', hk'⟩ := ih h
      exact ⟨k', List.mem_cons_of_mem _ hk'⟩

theorem bucketAdd_mem {β : Type} {l : Label} {x : β} {acc : List (Label × List β)} {k : Label}
    {v : List β} (h : (k, v) ∈ bucketAdd l x acc) {y : β} (hy : y ∈ v) :
    y = x ∨ ∃ k' v', (k', v') ∈ acc ∧ y ∈ v' := by
  induction acc with
  | nil =>
    simp only [bucketAdd, List.mem_singleton, Prod.mk.injEq] at h
    obtain ⟨_, rfl⟩ := h
    simp only [List.mem_singleton] at hy
    exact Or.inl hy
  | cons kv t ih =>
    obtain ⟨k0, v0⟩ := kv
    simp only [bucketAdd] at h
    by_cases hk0 : (k0 == l) = true
    · simp only [hk0, if_true] at h
      rcases List.mem_cons.1 h with h | h
      · simp only [Prod.mk.injEq] at h
        obtain ⟨_, hv⟩ := h
        rw [hv] at hy
        rcases List.mem_append.1 hy with hy | hy
        · exact Or.inr ⟨k0, v0, List.mem_cons_self .., hy⟩
        · simp only [List.mem_singleton] at hy; exact Or.inl hy
      · exact Or.inr ⟨k, v, List.mem_cons_of_mem _ h, hy⟩
    · simp only [hk0, if_false, Bool.false_eq_true] at h
      rcases List.mem_cons.1 h with h | h
      · simp only [Prod.mk.injEq] at h
        obtain ⟨_, hv⟩ := h
        rw [hv] at hy
        exact Or.inr ⟨k0, v0, List.mem_cons_self .., hy⟩
      · rcases ih h with h' | ⟨k', v', hm, hy'⟩
        · exact Or.inl h'
        · exact Or.inr ⟨k', v', List.mem_cons_of_mem _ hm, hy'⟩

theorem divideObjects_mem (targets : Option (List Label)) (rs : List Res) {k : Label} {v : List Res}
    (h : (k, v) ∈ divideObjects targets rs) {y : Res} (hy : y ∈ v) : y ∈ rs := by
  unfold divideObjects at h
  have gen : ∀ (xs : List Res) (acc : List (Label × List Res)),
      (∀ k v, (k, v) ∈ acc → ∀ y ∈ v, y ∈ rs) → (∀ x ∈ xs, x ∈ rs) →
      ∀ k v, (k, v) ∈ xs.foldl (fun acc r =>
        match bucketLabel targets r with
        | some l => bucketAdd l r acc
        | none => acc) acc → ∀ y ∈ v, y ∈ rs := by
    intro xs
    induction xs with
    | nil => intro acc hacc _ k v hkv y hy; exact hacc k v hkv y hy
    | cons x t ih =>
      intro acc hacc hxs k v hkv y hy
      simp only [List.foldl_cons] at hkv
      refine ih _ ?_ (fun z hz => hxs z (List.mem_cons_of_mem _ hz)) k v hkv y hy
      intro k1 v1 hkv1 y1 hy1
      cases hb : bucketLabel targets x with
      | none => simp only [hb] at hkv1; exact hacc k1 v1 hkv1 y1 hy1
      | some l =>
        simp only [hb] at hkv1
        rcases bucketAdd_mem hkv1 hy1 with rfl | ⟨k', v', hm, hy'⟩
        · exact hxs _ (List.mem_cons_self ..)
        · exact hacc k' v' hm y1 hy'
  refine gen rs _ ?_ (fun x hx => hx) k v h y hy
  intro k1 v1 hkv1 y1 hy1
  simp only [List.mem_map] at hkv1
  obtain ⟨l, _, hl⟩ := hkv1
  simp only [Prod.mk.injEq] at hl
  obtain ⟨_, rfl⟩ := hl
  cases hy1

theorem frameMap_mono {m : Mode} {is2d : Bool} {T : List Label} {th th' : List Rat} {rs : List Res}
    {gtLabels : List Label} (hth : List.Forall₂ (looser m) th th') (hfp : fpLabel ∉ T)
    (hw : ∀ r ∈ rs, 0 ≤ r.hw) {o o' : MapOut} (h : frameMap m is2d T th rs gtLabels = .ok o)
    (h' : frameMap m is2d T th' rs gtLabels = .ok o') :
    optLe o.map o'.map ∧ optLe o.maph o'.maph
      ∧ List.Forall₂ (fun a a' => optLe a.ap a'.ap) o.aps o'.aps
      ∧ List.Forall₂ (fun a a' => optLe a.ap a'.ap) o.aphs o'.aphs := by
  unfold frameMap at h h'
  refine mapOf_mono hth hfp ?_ h h'
  intro l rss hl r hr
  obtain ⟨k, hk⟩ := lookupKey_mem hl
  simp only [List.mem_map] at hk
  obtain ⟨kv, hkv, he⟩ := hk
  obtain ⟨k0, v0⟩ := kv
  simp only [Prod.mk.injEq] at he
  obtain ⟨_, rfl⟩ := he
  simp only [List.flatten_cons, List.flatten_nil, List.append_nil] at hr
  exact hw r (divideObjects_mem (some T) rs hkv hr)

end PEval.AP
