import PEval.Lemmas.SensingWinding
import PEval.Lemmas.SensingCrop
/-!
The winding counter on a parallelogram area and on a box (C12): assembly of the edge lemmas.
-/

namespace PEval.Sensing

/-- the area `c ± a ± b` in the corner order of the code (`+a+b, −a+b, −a−b, +a−b`; upper plane at
`zu`, then the lower plane at `zl`) -/
def paraArea (cx cy ax ay bx by_ zu zl : ℚ) : List Corner :=
  [⟨cx + ax + bx, cy + ay + by_, zu⟩, ⟨cx - ax + bx, cy - ay + by_, zu⟩,
   ⟨cx - ax - bx, cy - ay - by_, zu⟩, ⟨cx + ax - bx, cy + ay - by_, zu⟩,
   ⟨cx + ax + bx, cy + ay + by_, zl⟩, ⟨cx - ax + bx, cy - ay + by_, zl⟩,
   ⟨cx - ax - bx, cy - ay - by_, zl⟩, ⟨cx + ax - bx, cy + ay - by_, zl⟩]

theorem side (x E c : ℚ) (L : Prop) (hE : 0 < E) (hx : x ≠ 0) (hc : c = x * E) (hL : L ↔ 0 < x) :
    (0 < c ↔ L) ∧ (c < 0 ↔ ¬L) := by
  subst hc
  rw [hL, mul_pos_iff_right hE, mul_neg_iff_right hE]
  refine ⟨Iff.rfl, ?_⟩
  constructor
  · intro h h'; linarith
  · intro h
    rcases lt_trichotomy x 0 with h1 | h1 | h1
    · exact h1
    · exact absurd h1 hx
    · exact absurd h1 h

theorem edgeK_mk (Ax Ay Az Bx By Bz Qx Qz : ℚ) (p : Pt) (L : Prop) [Decidable L]
    (hpos : 0 < (Bx - Ax) * (p.y - Ay) - (By - Ay) * (p.x - Ax) ↔ L)
    (hneg : (Bx - Ax) * (p.y - Ay) - (By - Ay) * (p.x - Ax) < 0 ↔ ¬L) :
    edgeK ⟨Ax, Ay, Az⟩ ⟨Bx, By, Bz⟩ ⟨Qx, By, Qz⟩ p = kE (p.y - Ay) (p.y - By) L :=
  edgeK_eq_kE ⟨Ax, Ay, Az⟩ ⟨Bx, By, Bz⟩ ⟨Qx, By, Qz⟩ p L
    ((Bx - Ax) * (p.y - Ay) - (By - Ay) * (p.x - Ax)) rfl rfl hpos hneg

theorem not_lt_iff_pos (x y : ℚ) (h : x ≠ y) : (¬ x < y) ↔ 0 < x - y := by
  constructor
  · intro h1
    rcases lt_trichotomy x y with h2 | h2 | h2
    · exact absurd h2 h1
    · exact absurd h2 h
    · linarith
  · intro h1 h2; linarith

theorem u8add_zero_ite (P : Prop) [Decidable P] (k : Int) :
    u8add 0 (if P then k else 0) = if P then u8add 0 k else 0 := by
  split <;> simp [u8add]

/-- **value of the winding counter on a parallelogram.** `p = c + u·a + v·b`, `det(a,b) ≠ 0`, `p` on
none of the four edge lines: the counter is `1` (counter-clockwise) or `255` (clockwise, the `uint8`
wrap of `−1`) if `|u| < 1 ∧ |v| < 1`, and `0` otherwise. All 8 sign cases of `(a.y, b.y)`. -/
theorem wn_para (cx cy ax ay bx by_ zu zl u v : ℚ) (p : Pt)
    (hD : ax * by_ - ay * bx ≠ 0)
    (hx : p.x = cx + u * ax + v * bx) (hy : p.y = cy + u * ay + v * by_)
    (hu1 : u ≠ 1) (hu2 : u ≠ -1) (hv1 : v ≠ 1) (hv2 : v ≠ -1) :
    wn (paraArea cx cy ax ay bx by_ zu zl) p
      = if (u < 1 ∧ -1 < u ∧ v < 1 ∧ -1 < v) then (if 0 < ax * by_ - ay * bx then 1 else 255) else 0 := by
  rw [wn_eq_sum]
  have hlen : (paraArea cx cy ax ay bx by_ zu zl).length / 2 = 4 := by simp [paraArea]
  rw [hlen]
  have hr : List.range 4 = [0, 1, 2, 3] := rfl
  rw [hr]
  simp only [List.map_cons, List.map_nil, List.sum_cons, List.sum_nil, add_zero]
  have c0 : cornerAt (paraArea cx cy ax ay bx by_ zu zl) 0 = ⟨cx + ax + bx, cy + ay + by_, zu⟩ := rfl
  have c1 : cornerAt (paraArea cx cy ax ay bx by_ zu zl) 1 = ⟨cx - ax + bx, cy - ay + by_, zu⟩ := rfl
  have c2 : cornerAt (paraArea cx cy ax ay bx by_ zu zl) 2 = ⟨cx - ax - bx, cy - ay - by_, zu⟩ := rfl
  have c3 : cornerAt (paraArea cx cy ax ay bx by_ zu zl) 3 = ⟨cx + ax - bx, cy + ay - by_, zu⟩ := rfl
  have c4 : cornerAt (paraArea cx cy ax ay bx by_ zu zl) 4 = ⟨cx + ax + bx, cy + ay + by_, zl⟩ := rfl
  have m1 : (0 + 1) % 4 = 1 := rfl
  have m2 : (1 + 1) % 4 = 2 := rfl
  have m3 : (2 + 1) % 4 = 3 := rfl
  have m4 : (3 + 1) % 4 = 0 := rfl
  have a1 : 0 + 1 = 1 := rfl
  have a2 : 1 + 1 = 2 := rfl
  have a3 : 2 + 1 = 3 := rfl
  have a4 : 3 + 1 = 4 := rfl
  rw [m1, m2, m3, m4, a1, a2, a3, a4, c0, c1, c2, c3, c4]
  -- the heights over the four corners
  have e0 : p.y - (cy + ay + by_) = (u - 1) * ay + (v - 1) * by_ := by rw [hy]; ring
  have e1 : p.y - (cy - ay + by_) = (u - 1) * ay + (v - 1) * by_ + 2 * ay := by rw [hy]; ring
  have e2 : p.y - (cy - ay - by_) = (u - 1) * ay + (v - 1) * by_ + 2 * ay + 2 * by_ := by rw [hy]; ring
  have e3 : p.y - (cy + ay - by_) = (u - 1) * ay + (v - 1) * by_ + 2 * by_ := by rw [hy]; ring
  have hab : ay ≠ 0 ∨ by_ ≠ 0 := by
    by_contra h
    have h' := not_or.mp h
    have ha : ay = 0 := not_not.mp h'.1
    have hb : by_ = 0 := not_not.mp h'.2
    apply hD; rw [ha, hb]; ring
  have la := link_of ay u hu1 hu2
  have lb := link_of by_ v hv1 hv2
  have nu1 : (1 - u) ≠ 0 := fun h => hu1 (by linarith)
  have nu2 : (u + 1) ≠ 0 := fun h => hu2 (by linarith)
  have nv1 : (1 - v) ≠ 0 := fun h => hv1 (by linarith)
  have nv2 : (v + 1) ≠ 0 := fun h => hv2 (by linarith)
  have nu1' : (u - 1) ≠ 0 := fun h => hu1 (by linarith)
  have nv1' : (v - 1) ≠ 0 := fun h => hv1 (by linarith)
  have nu2' : (-1 - u) ≠ 0 := fun h => hu2 (by linarith)
  have nv2' : (-1 - v) ≠ 0 := fun h => hv2 (by linarith)
  rcases lt_or_gt_of_ne hD with hneg | hpos
  · -- clockwise
    have hE : 0 < -(2 * (ax * by_ - ay * bx)) := by linarith
    have hn : ¬ (0 < ax * by_ - ay * bx) := not_lt.mpr hneg.le
    obtain ⟨p0, n0⟩ := side (v - 1) _ ((cx - ax + bx - (cx + ax + bx)) * (p.y - (cy + ay + by_))
        - (cy - ay + by_ - (cy + ay + by_)) * (p.x - (cx + ax + bx))) (¬ v < 1) hE nv1'
        (by rw [hx, hy]; ring) (not_lt_iff_pos v 1 hv1)
    obtain ⟨p1, n1⟩ := side (-1 - u) _ ((cx - ax - bx - (cx - ax + bx)) * (p.y - (cy - ay + by_))
        - (cy - ay - by_ - (cy - ay + by_)) * (p.x - (cx - ax + bx))) (¬ -1 < u) hE nu2'
        (by rw [hx, hy]; ring) (not_lt_iff_pos (-1) u (Ne.symm hu2))
    obtain ⟨p2, n2⟩ := side (-1 - v) _ ((cx + ax - bx - (cx - ax - bx)) * (p.y - (cy - ay - by_))
        - (cy + ay - by_ - (cy - ay - by_)) * (p.x - (cx - ax - bx))) (¬ -1 < v) hE nv2'
        (by rw [hx, hy]; ring) (not_lt_iff_pos (-1) v (Ne.symm hv2))
    obtain ⟨p3, n3⟩ := side (u - 1) _ ((cx + ax + bx - (cx + ax - bx)) * (p.y - (cy + ay - by_))
        - (cy + ay + by_ - (cy + ay - by_)) * (p.x - (cx + ax - bx))) (¬ u < 1) hE nu1'
        (by rw [hx, hy]; ring) (not_lt_iff_pos u 1 hu1)
    rw [edgeK_mk _ _ _ _ _ _ _ _ p (¬ v < 1) p0 n0, edgeK_mk _ _ _ _ _ _ _ _ p (¬ -1 < u) p1 n1,
        edgeK_mk _ _ _ _ _ _ _ _ p (¬ -1 < v) p2 n2, edgeK_mk _ _ _ _ _ _ _ _ p (¬ u < 1) p3 n3]
    rw [e0, e1, e2, e3]
    have := core_cw ay by_ ((u - 1) * ay) ((v - 1) * by_) (u < 1) (-1 < u) (v < 1) (-1 < v) hab la lb
    rw [add_assoc, add_assoc] at this
    rw [this, u8add_zero_ite]
    simp only [hn, if_false]
    rfl
  · -- counter-clockwise
    have hE : 0 < 2 * (ax * by_ - ay * bx) := by linarith
    have hpos' : 0 < ax * by_ - ay * bx := hpos
    obtain ⟨p0, n0⟩ := side (1 - v) _ ((cx - ax + bx - (cx + ax + bx)) * (p.y - (cy + ay + by_))
        - (cy - ay + by_ - (cy + ay + by_)) * (p.x - (cx + ax + bx))) (v < 1) hE nv1
        (by rw [hx, hy]; ring) (by constructor <;> intro h <;> linarith)
    obtain ⟨p1, n1⟩ := side (u + 1) _ ((cx - ax - bx - (cx - ax + bx)) * (p.y - (cy - ay + by_))
        - (cy - ay - by_ - (cy - ay + by_)) * (p.x - (cx - ax + bx))) (-1 < u) hE nu2
        (by rw [hx, hy]; ring) (by constructor <;> intro h <;> linarith)
    obtain ⟨p2, n2⟩ := side (v + 1) _ ((cx + ax - bx - (cx - ax - bx)) * (p.y - (cy - ay - by_))
        - (cy + ay - by_ - (cy - ay - by_)) * (p.x - (cx - ax - bx))) (-1 < v) hE nv2
        (by rw [hx, hy]; ring) (by constructor <;> intro h <;> linarith)
    obtain ⟨p3, n3⟩ := side (1 - u) _ ((cx + ax + bx - (cx + ax - bx)) * (p.y - (cy + ay - by_))
        - (cy + ay + by_ - (cy + ay - by_)) * (p.x - (cx + ax - bx))) (u < 1) hE nu1
        (by rw [hx, hy]; ring) (by constructor <;> intro h <;> linarith)
    rw [edgeK_mk _ _ _ _ _ _ _ _ p (v < 1) p0 n0, edgeK_mk _ _ _ _ _ _ _ _ p (-1 < u) p1 n1,
        edgeK_mk _ _ _ _ _ _ _ _ p (-1 < v) p2 n2, edgeK_mk _ _ _ _ _ _ _ _ p (u < 1) p3 n3]
    rw [e0, e1, e2, e3]
    have := core_ccw ay by_ ((u - 1) * ay) ((v - 1) * by_) (u < 1) (-1 < u) (v < 1) (-1 < v) hab la lb
    rw [add_assoc, add_assoc] at this
    rw [this, u8add_zero_ite]
    simp only [hpos', if_true]
    rfl

end PEval.Sensing
