import PEval.Lemmas.Matching
/-!
Facts about the score-table construction (`cell`, `cellAt`, `mkTbl`, `tableError`): an entry carries a
score exactly when the two objects are in the same frame and the pair is better than the threshold
looked up by the ground truth's label (or there is no such threshold).
-/
namespace PEval.Matching

/-- the pair passes the matchable-threshold gate of `_get_score_table` -/
def withinThreshold (c : Cfg) (g : Obj) (v : Rat) : Prop :=
  ∃ thr, labelThreshold c.targets c.thresholds g.label = .ok thr ∧
    ∀ r, thr = some r → isBetterThan c.mode v r = .ok true

theorem isBetterThan_ok_true {m : Mode} {v r : Rat} (h : isBetterThan m v r = .ok true) :
    better m.maximize v r = true := by
  unfold isBetterThan at h
  cases hm : m.maximize <;> simp [hm] at h
  · exact h
  · split at h
    · simpa using h
    · simp at h

/-- an entry with a score: same frame, within the threshold of the ground truth's label, the score is
the matching value and the flag is `is_matchable` -/
theorem cell_score_some {c : Cfg} {e g : Obj} {v : Rat} {x : Cell} {s : Rat}
    (h : cell c e g v = .ok x) (hs : x.score = some s) :
    s = v ∧ e.frame = g.frame ∧ withinThreshold c g v ∧ x.valid = isMatchable c.policy e g := by
  unfold cell at h
  split at h
  · rename_i hf
    have hf' : e.frame = g.frame := by simpa using hf
    cases hthr : labelThreshold c.targets c.thresholds g.label with
    | error err => simp [hthr, bind, Except.bind] at h
    | ok thr =>
      cases thr with
      | none =>
        simp [hthr, bind, Except.bind, pure, Except.pure] at h
        subst h
        refine ⟨by simpa using hs.symm, hf', ⟨none, hthr, by simp⟩, rfl⟩
      | some r =>
        cases hbt : isBetterThan c.mode v r with
        | error err => simp [hthr, hbt, bind, Except.bind] at h
        | ok b =>
          cases b with
          | false =>
            simp [hthr, hbt, bind, Except.bind, pure, Except.pure] at h
            subst h; simp [Cell.nan] at hs
          | true =>
            simp [hthr, hbt, bind, Except.bind, pure, Except.pure] at h
            subst h
            refine ⟨by simpa using hs.symm, hf', ⟨some r, hthr, ?_⟩, rfl⟩
            intro r' hr'; cases hr'; exact hbt
  · simp [pure, Except.pure] at h
    subst h; simp [Cell.nan] at hs

/-- conversely: same frame and within the threshold give an entry carrying the value -/
theorem cell_of_within {c : Cfg} {e g : Obj} {v : Rat} (hf : e.frame = g.frame) (hw : withinThreshold c g v) :
    cell c e g v = .ok ⟨some v, isMatchable c.policy e g⟩ := by
  obtain ⟨thr, hthr, hr⟩ := hw
  unfold cell
  simp only [hf, beq_self_eq_true, if_true]
  cases thr with
  | none => simp [hthr, bind, Except.bind, pure, Except.pure]
  | some r => simp [hthr, hr r rfl, bind, Except.bind, pure, Except.pure]

/-- a different frame never yields a score -/
theorem cell_diff_frame {c : Cfg} {e g : Obj} {v : Rat} (hf : e.frame ≠ g.frame) :
    cell c e g v = .ok Cell.nan := by
  unfold cell
  have : (e.frame == g.frame) = false := by simpa using hf
  simp [this, pure, Except.pure]

theorem mkTbl_score_some {c : Cfg} {sc : Scene} {i j : Nat} {s : Rat}
    (h : (mkTbl c sc).score i j = some s) :
    ∃ e g, sc.ests[i]? = some e ∧ sc.gts[j]? = some g ∧ s = sc.val i j ∧ e.frame = g.frame ∧
      withinThreshold c g (sc.val i j) ∧ (mkTbl c sc).valid i j = isMatchable c.policy e g := by
  simp only [mkTbl] at h ⊢
  cases hc : cellAt c sc i j with
  | error err => simp [hc] at h
  | ok x =>
    simp only [hc] at h ⊢
    unfold cellAt at hc
    cases he : sc.ests[i]? with
    | none => simp [he] at hc; subst hc; simp [Cell.nan] at h
    | some e =>
      cases hg : sc.gts[j]? with
      | none => simp [he, hg] at hc; subst hc; simp [Cell.nan] at h
      | some g =>
        simp only [he, hg] at hc
        obtain ⟨h1, h2, h3, h4⟩ := cell_score_some hc h
        exact ⟨e, g, rfl, rfl, h1, h2, h3, h4⟩

theorem mkTbl_score_of_within {c : Cfg} {sc : Scene} {i j : Nat} {e g : Obj}
    (he : sc.ests[i]? = some e) (hg : sc.gts[j]? = some g) (hf : e.frame = g.frame)
    (hw : withinThreshold c g (sc.val i j)) :
    (mkTbl c sc).score i j = some (sc.val i j) ∧ (mkTbl c sc).valid i j = isMatchable c.policy e g := by
  simp [mkTbl, cellAt, he, hg, cell_of_within hf hw]

theorem mkTbl_score_diff_frame {c : Cfg} {sc : Scene} {i j : Nat} {e g : Obj}
    (he : sc.ests[i]? = some e) (hg : sc.gts[j]? = some g) (hf : e.frame ≠ g.frame) :
    (mkTbl c sc).score i j = none := by
  simp [mkTbl, cellAt, he, hg, cell_diff_frame hf, Cell.nan]

/-- no exception while filling the table: every entry is defined -/
theorem tableError_none {c : Cfg} {sc : Scene} (h : tableError c sc = none) {i j : Nat}
    (hi : i < sc.ests.length) (hj : j < sc.gts.length) : ∃ x, cellAt c sc i j = .ok x := by
  unfold tableError at h
  rw [List.findSome?_eq_none_iff] at h
  have h1 := h i (List.mem_range.2 hi)
  rw [List.findSome?_eq_none_iff] at h1
  have h2 := h1 j (List.mem_range.2 hj)
  cases hc : cellAt c sc i j with
  | error err => simp [hc] at h2
  | ok x => exact ⟨x, rfl⟩

end PEval.Matching
