import PEval.Model.LookupLin
import PEval.Lemmas.LookupTable
import Mathlib.Tactic.Linarith
import Mathlib.Tactic.Ring
/-!
Soundness of the semantic table check of C17 (`PEval/Model/LookupLin.lean`):

* `refute_sound`: a successful Fourier-Motzkin refutation means that no integer point satisfies the constraints;
* `nowTableOk_sound`: a table accepted by `nowTableOk` answers, on every non-decreasing list of stamps, every
  `q ≤ 10^17` and every tolerance, with SOME frame of minimal `|q - t|` within the tolerance, or with nothing when every
  frame is farther than the tolerance (`NowSpec`);
* `eqTableOk_sound`: a table accepted by `eqTableOk` reaches the skeleton's leaf on every strictly increasing list.
-/
namespace PEval.LookupDT
open PEval PEval.Lookup

/-! ## affine forms -/

theorem dot_nil_left (x : List Int) : dot [] x = 0 := by cases x <;> rfl
theorem dot_nil_right (a : List Int) : dot a [] = 0 := by cases a <;> rfl

theorem dot_addL (a : List Int) : ∀ (b x : List Int), dot (addL a b) x = dot a x + dot b x := by
  induction a with
  | nil => intro b x; simp [addL, dot_nil_left]
  | cons a as ih =>
    intro b x
    cases b with
    | nil => simp [addL, dot_nil_left]
    | cons b bs =>
      cases x with
      | nil => simp [dot_nil_right]
      | cons x xs => simp only [addL, dot, ih]; ring

theorem dot_map_mul (m : Int) (a : List Int) : ∀ x : List Int, dot (a.map (fun c => m * c)) x = m * dot a x := by
  induction a with
  | nil => intro x; simp [dot_nil_left]
  | cons a as ih =>
    intro x
    cases x with
    | nil => simp [dot_nil_right]
    | cons x xs => simp only [List.map_cons, dot, ih]; ring

theorem eval_add (x : List Int) (f g : Aff) : (f.add g).eval x = f.eval x + g.eval x := by
  simp only [Aff.eval, Aff.add, dot_addL]; ring

theorem eval_smul (x : List Int) (a : Int) (f : Aff) : (f.smul a).eval x = a * f.eval x := by
  simp only [Aff.eval, Aff.smul, dot_map_mul]; ring

theorem eval_neg (x : List Int) (f : Aff) : f.neg.eval x = - f.eval x := by
  simp only [Aff.neg, eval_smul]; ring

theorem eval_addConst (x : List Int) (f : Aff) (d : Int) : (f.addConst d).eval x = f.eval x + d := by
  simp only [Aff.eval, Aff.addConst]; ring

theorem dot_unit (i : Nat) : ∀ x : List Int, dot (List.replicate i 0 ++ [1]) x = x.getD i 0 := by
  induction i with
  | zero => intro x; cases x <;> simp [dot]
  | succ i ih =>
    intro x
    cases x with
    | nil => simp [dot_nil_right]
    | cons x xs => simp only [List.replicate_succ, List.cons_append, dot, ih]; simp

theorem eval_varA (i : Nat) (x : List Int) : (varA i).eval x = x.getD i 0 := by
  simp [Aff.eval, varA, dot_unit]

/-- the variable vector of a concrete input -/
def env (q tol : Int) (ts : List Int) : List Int := q :: tol :: ts

theorem eval_affQ (q tol : Int) (ts : List Int) : affQ.eval (env q tol ts) = q := by
  simp [affQ, eval_varA, env]

theorem eval_affTol (q tol : Int) (ts : List Int) : affTol.eval (env q tol ts) = tol := by
  simp [affTol, eval_varA, env]

theorem eval_affT (q tol : Int) (ts : List Int) (i : Nat) : (affT i).eval (env q tol ts) = ts.getD i 0 := by
  simp [affT, eval_varA, env]

theorem eval_affD (q tol : Int) (ts : List Int) (i : Nat) : (affD i).eval (env q tol ts) = q - ts.getD i 0 := by
  simp only [affD, eval_add, eval_neg, eval_affQ, eval_affT]; ring

/-- `sg` names the actual sign of every `q - t i`, `i < |ts|` -/
def SgOk (sg : List Bool) (ts : List Int) (q : Int) : Prop :=
  ∀ i, i < ts.length → (sg.getD i true = true → 0 ≤ q - ts.getD i 0) ∧ (sg.getD i true = false → q - ts.getD i 0 ≤ 0)

/-- `|q - t i|` -/
def absI (ts : List Int) (q : Int) (i : Nat) : Int := ((q - ts.getD i 0).natAbs : Int)

theorem eval_affAbs {sg : List Bool} {ts : List Int} {q : Int} (h : SgOk sg ts q) (tol : Int) {i : Nat}
    (hi : i < ts.length) : (affAbs sg i).eval (env q tol ts) = absI ts q i := by
  unfold affAbs absI
  cases hb : sg.getD i true
  · have := (h i hi).2 hb
    simp only [Bool.false_eq_true, if_false, eval_neg, eval_affD]; omega
  · have := (h i hi).1 hb
    simp only [if_true, eval_affD]; omega

theorem eval_leafAff {sg : List Bool} {ts : List Int} {q : Int} (h : SgOk sg ts q) (tol : Int) (l : Leaf)
    (hl : l.inRange ts.length = true) : (l.aff sg).eval (env q tol ts) = l.eval ts q tol := by
  cases l with
  | q => exact eval_affQ q tol ts
  | tol => exact eval_affTol q tol ts
  | t i => exact eval_affT q tol ts i
  | absd i =>
    simp only [Leaf.inRange, decide_eq_true_eq] at hl
    simp only [Leaf.aff, Leaf.eval]
    exact eval_affAbs h tol hl

theorem eval_termsAff {sg : List Bool} {ts : List Int} {q : Int} (h : SgOk sg ts q) (tol : Int) :
    ∀ (l : List (Int × Leaf)), termsOk ts.length l = true →
      (termsAff sg l).eval (env q tol ts) = evalTerms ts q tol l := by
  intro l
  induction l with
  | nil => intro _; simp [termsAff, evalTerms, Aff.eval, dot_nil_left]
  | cons p r ih =>
    obtain ⟨c, lf⟩ := p
    intro hok
    simp only [termsOk, Bool.and_eq_true] at hok
    simp only [termsAff, evalTerms, eval_add, eval_smul, eval_leafAff h tol lf hok.1, ih hok.2]

theorem eval_atomAff {sg : List Bool} {ts : List Int} {q : Int} (h : SgOk sg ts q) (tol : Int) (a : Atom)
    (ha : a.ok ts.length = true) : (a.aff sg).eval (env q tol ts) = a.eval ts q tol := by
  simp only [Atom.aff, Atom.eval, eval_addConst, eval_termsAff h tol a.terms ha]

/-! ## constraints -/

def Sat (x : List Int) (cs : List Aff) : Prop := ∀ c ∈ cs, c.eval x ≤ 0

theorem sat_append {x : List Int} {a b : List Aff} (ha : Sat x a) (hb : Sat x b) : Sat x (a ++ b) := by
  intro c hc
  rcases List.mem_append.1 hc with h | h
  · exact ha c h
  · exact hb c h

theorem signOf_eq {x : Int} : signOf x = .eq ↔ x = 0 := by
  unfold signOf
  by_cases h1 : x < 0
  · simp [h1]; omega
  · by_cases h2 : x = 0
    · simp [h2]
    · simp [h1, h2]

theorem sat_signCs (x : List Int) (f : Aff) (s : Sign) (h : signOf (f.eval x) = s) : Sat x (signCs f s) := by
  intro c hc
  cases s with
  | lt =>
    have := signOf_lt.1 h
    simp only [signCs, List.mem_singleton] at hc
    subst hc; rw [eval_addConst]; omega
  | eq =>
    have := signOf_eq.1 h
    simp only [signCs, List.mem_cons, List.not_mem_nil, or_false] at hc
    rcases hc with rfl | rfl
    · omega
    · rw [eval_neg]; omega
  | gt =>
    have := signOf_gt.1 h
    simp only [signCs, List.mem_singleton] at hc
    subst hc; rw [eval_addConst, eval_neg]; omega

/-! ## Fourier-Motzkin -/

theorem dot_all_zero (c : List Int) (h : c.all (fun c => c == 0) = true) : ∀ x : List Int, dot c x = 0 := by
  induction c with
  | nil => intro x; exact dot_nil_left x
  | cons a as ih =>
    intro x
    simp only [List.all_cons, Bool.and_eq_true, beq_iff_eq] at h
    cases x with
    | nil => rfl
    | cons x xs => simp [dot, h.1, ih h.2]

theorem isContra_not_sat {f : Aff} (h : isContra f = true) (x : List Int) : ¬ f.eval x ≤ 0 := by
  simp only [isContra, Bool.and_eq_true, decide_eq_true_eq] at h
  simp only [Aff.eval, dot_all_zero f.c h.1 x]
  omega

theorem combine_sat (j : Nat) (p n : Aff) (x : List Int) (hp : 0 < coef p j) (hn : coef n j < 0)
    (h1 : p.eval x ≤ 0) (h2 : n.eval x ≤ 0) : (combine j p n).eval x ≤ 0 := by
  simp only [combine, eval_add, eval_smul]
  nlinarith [mul_nonneg (show (0 : Int) ≤ -(coef n j) by omega) (show (0 : Int) ≤ -(p.eval x) by omega),
    mul_nonneg (show (0 : Int) ≤ coef p j by omega) (show (0 : Int) ≤ -(n.eval x) by omega)]

theorem elim_sat (j : Nat) (cs : List Aff) (x : List Int) (h : Sat x cs) : Sat x (elim j cs) := by
  intro c hc
  simp only [elim, List.mem_append, List.mem_filter, List.mem_flatMap, List.mem_map, decide_eq_true_eq] at hc
  rcases hc with hz | ⟨p, ⟨hp, hpp⟩, n, ⟨hn, hnn⟩, rfl⟩
  · exact h c hz.1
  · exact combine_sat j p n x hpp hnn (h p hp) (h n hn)

theorem refute_sound (vars : List Nat) : ∀ (cs : List Aff), refute vars cs = true → ∀ x : List Int, ¬ Sat x cs := by
  induction vars with
  | nil =>
    intro cs h x hs
    simp only [refute, List.any_eq_true] at h
    obtain ⟨f, hf, hc⟩ := h
    exact isContra_not_sat hc x (hs f hf)
  | cons j js ih =>
    intro cs h x hs
    simp only [refute, Bool.or_eq_true, List.any_eq_true] at h
    rcases h with ⟨f, hf, hc⟩ | h
    · exact isContra_not_sat hc x (hs f hf)
    · exact ih _ h x (elim_sat j cs x hs)

/-! ## constraints that hold for every input of the quantifier -/

/-- the sign case a concrete input is in -/
def sgOf (ts : List Int) (q : Int) : List Bool := ts.map (fun t => decide (0 ≤ q - t))

theorem sgOf_mem (q : Int) : ∀ ts : List Int, sgOf ts q ∈ allSg ts.length := by
  intro ts
  induction ts with
  | nil => simp [sgOf, allSg]
  | cons t ts ih =>
    simp only [List.length_cons, allSg, List.mem_flatMap]
    refine ⟨sgOf ts q, ih, ?_⟩
    simp only [sgOf, List.map_cons]
    cases decide (0 ≤ q - t) <;> simp

theorem sgOf_getD (ts : List Int) (q : Int) (i : Nat) (hi : i < ts.length) :
    (sgOf ts q).getD i true = decide (0 ≤ q - ts.getD i 0) := by
  simp [sgOf, List.getD, List.getElem?_map, List.getElem?_eq_getElem hi]

theorem sgOk_sgOf (ts : List Int) (q : Int) : SgOk (sgOf ts q) ts q := by
  intro i hi
  rw [sgOf_getD ts q i hi]
  constructor
  · intro h; simpa using h
  · intro h
    have : ¬ 0 ≤ q - ts.getD i 0 := by simpa using h
    omega

theorem sat_sgCs {sg : List Bool} {ts : List Int} {q : Int} (h : SgOk sg ts q) (tol : Int) :
    Sat (env q tol ts) (sgCs sg ts.length) := by
  intro c hc
  simp only [sgCs, List.mem_map, List.mem_range] at hc
  obtain ⟨i, hi, rfl⟩ := hc
  cases hb : sg.getD i true
  · have := (h i hi).2 hb
    simp only [Bool.false_eq_true, if_false, eval_affD]; exact this
  · have := (h i hi).1 hb
    simp only [if_true, eval_neg, eval_affD]; omega

theorem getD_eq_getElem' (ts : List Int) (i : Nat) (hi : i < ts.length) : ts.getD i 0 = ts[i] := by
  simp [List.getD, List.getElem?_eq_getElem hi]

theorem sat_sortedCs (ts : List Int) (q tol : Int) (hs : ts.Pairwise (fun a b => a ≤ b)) :
    Sat (env q tol ts) (sortedCs ts.length) := by
  intro c hc
  simp only [sortedCs, List.mem_map, List.mem_range] at hc
  obtain ⟨i, hi, rfl⟩ := hc
  have h1 : i < ts.length := by omega
  have h2 : i + 1 < ts.length := by omega
  have := (List.pairwise_iff_getElem.1 hs) i (i + 1) h1 h2 (by omega)
  rw [eval_add, eval_neg, eval_affT, eval_affT, getD_eq_getElem' ts i h1, getD_eq_getElem' ts (i + 1) h2]
  omega

theorem sat_strictCs (ts : List Int) (q tol : Int) (hs : ts.Pairwise (fun a b => a < b)) :
    Sat (env q tol ts) (strictCs ts.length) := by
  intro c hc
  simp only [strictCs, List.mem_map, List.mem_range] at hc
  obtain ⟨i, hi, rfl⟩ := hc
  have h1 : i < ts.length := by omega
  have h2 : i + 1 < ts.length := by omega
  have := (List.pairwise_iff_getElem.1 hs) i (i + 1) h1 h2 (by omega)
  rw [eval_addConst, eval_add, eval_neg, eval_affT, eval_affT, getD_eq_getElem' ts i h1, getD_eq_getElem' ts (i + 1) h2]
  omega

theorem sat_guardC (ts : List Int) (q tol : Int) (h : q ≤ maxTime) : guardC.eval (env q tol ts) ≤ 0 := by
  rw [guardC, eval_addConst, eval_affQ]
  simp only [maxTime] at h
  omega

theorem valuationOf_sat {sg : List Bool} {ts : List Int} {q : Int} (h : SgOk sg ts q) (tol : Int) (a : Atom)
    (ha : a.ok ts.length = true) (s : Sign) (hv : valuationOf ts q tol a = s) :
    Sat (env q tol ts) (signCs (a.aff sg) s) := by
  apply sat_signCs
  rw [eval_atomAff h tol a ha]
  exact hv

/-! ## `get_now_frame`: any arg-min within the tolerance -/

/-- what the property says about the answer of `get_now_frame` on the stamps `ts`: `frame k` = a frame of minimal distance
that lies within the tolerance (ANY of them when several are equidistant); `none` = every frame is farther than the
tolerance; no other answer -/
def NowSpec (ts : List Int) (q tol : Int) : Res → Prop
  | .frame k => k < ts.length ∧ (∀ j, j < ts.length → absI ts q k ≤ absI ts q j) ∧ absI ts q k ≤ tol
  | .none => ∀ j, j < ts.length → tol < absI ts q j
  | .interp _ _ => False
  | .err _ => False

theorem refute_goal {vars : List Nat} {g cs : List Aff} {x : List Int} (h : refute vars (g ++ cs) = true)
    (hcs : Sat x cs) : ¬ Sat x g := fun hg => refute_sound vars _ h x (sat_append hg hcs)

theorem checkNow_leaf {sg : List Bool} {ts : List Int} {q : Int} (hsg : SgOk sg ts q) (tol : Int) (r : Res)
    (cs : List Aff) (hcs : Sat (env q tol ts) cs)
    (h : (nowGoals ts.length sg r).all (fun g => refute (elimOrder ts.length) (g ++ cs)) = true) :
    NowSpec ts q tol r := by
  have hall := List.all_eq_true.1 h
  have hfalse : ([] : List Aff) ∈ nowGoals ts.length sg r → False := by
    intro hm
    exact refute_goal (hall _ hm) hcs (by intro c hc; cases hc)
  cases r with
  | none =>
    intro j hj
    have hm : [(affAbs sg j).add affTol.neg] ∈ nowGoals ts.length sg .none := by
      simp only [nowGoals, List.mem_map, List.mem_range]; exact ⟨j, hj, rfl⟩
    have := refute_goal (hall _ hm) hcs
    simp only [Sat, List.mem_singleton, forall_eq, eval_add, eval_neg, eval_affTol, eval_affAbs hsg tol hj] at this
    omega
  | frame k =>
    by_cases hk : k < ts.length
    · refine ⟨hk, ?_, ?_⟩
      · intro j hj
        have hm : [((affAbs sg j).add (affAbs sg k).neg).addConst 1] ∈ nowGoals ts.length sg (.frame k) := by
          simp only [nowGoals, if_pos hk, List.mem_append, List.mem_map, List.mem_range]
          exact Or.inl ⟨j, hj, rfl⟩
        have := refute_goal (hall _ hm) hcs
        simp only [Sat, List.mem_singleton, forall_eq, eval_addConst, eval_add, eval_neg, eval_affAbs hsg tol hj,
          eval_affAbs hsg tol hk] at this
        omega
      · have hm : [(affTol.add (affAbs sg k).neg).addConst 1] ∈ nowGoals ts.length sg (.frame k) := by
          simp only [nowGoals, if_pos hk, List.mem_append, List.mem_singleton, or_true]
        have := refute_goal (hall _ hm) hcs
        simp only [Sat, List.mem_singleton, forall_eq, eval_addConst, eval_add, eval_neg, eval_affTol,
          eval_affAbs hsg tol hk] at this
        omega
    · exact (hfalse (by simp [nowGoals, hk])).elim
  | interp i j => exact (hfalse (by simp [nowGoals])).elim
  | err k => exact (hfalse (by simp [nowGoals])).elim

theorem checkNow_sound {sg : List Bool} {ts : List Int} {q : Int} (hsg : SgOk sg ts q) (tol : Int) :
    ∀ (t : DTree) (cs : List Aff), Sat (env q tol ts) cs → checkNow ts.length sg cs t = true →
      NowSpec ts q tol (evalTree t (valuationOf ts q tol)) := by
  intro t
  induction t with
  | leaf r =>
    intro cs hcs h
    exact checkNow_leaf hsg tol r cs hcs (by simpa [checkNow] using h)
  | node a l e g ihl ihe ihg =>
    intro cs hcs h
    simp only [checkNow, Bool.and_eq_true] at h
    obtain ⟨⟨⟨hok, hl⟩, he⟩, hg⟩ := h
    simp only [evalTree]
    cases hv : valuationOf ts q tol a
    · exact ihl _ (sat_append (valuationOf_sat hsg tol a hok _ hv) hcs) hl
    · exact ihe _ (sat_append (valuationOf_sat hsg tol a hok _ hv) hcs) he
    · exact ihg _ (sat_append (valuationOf_sat hsg tol a hok _ hv) hcs) hg

/-- a row accepted by `nowRowOk` answers with an arg-min within the tolerance (or nothing when there is none) on every
non-decreasing non-empty list of stamps and every `q ≤ 10^17` -/
theorem nowRowOk_sound {t : DTree} {ts : List Int} (h : nowRowOk ts.length t = true) (q tol : Int)
    (hne : ts ≠ []) (hq : q ≤ maxTime) (hs : ts.Pairwise (fun a b => a ≤ b)) :
    NowSpec ts q tol (evalTree t (valuationOf ts q tol)) := by
  simp only [nowRowOk, Bool.or_eq_true, beq_iff_eq] at h
  rcases h with h0 | h
  · exact absurd (List.length_eq_zero_iff.1 h0) hne
  · have hsg := sgOk_sgOf ts q
    have hc := List.all_eq_true.1 h _ (sgOf_mem q ts)
    refine checkNow_sound hsg tol t _ ?_ hc
    intro c hc'
    rcases List.mem_cons.1 hc' with rfl | hc'
    · exact sat_guardC ts q tol hq
    · exact sat_append (sat_sgCs hsg tol) (sat_sortedCs ts q tol hs) c hc'

theorem nowTableOk_sound {rows : List (Nat × DTree)} (h : nowTableOk rows = true) :
    ∀ p ∈ rows, ∀ (ts : List Int) (q tol : Int), ts.length = p.1 → ts ≠ [] → q ≤ maxTime →
      ts.Pairwise (fun a b => a ≤ b) → NowSpec ts q tol (evalTree p.2 (valuationOf ts q tol)) := by
  intro p hp ts q tol hn hne hq hs
  have := List.all_eq_true.1 h p hp
  rw [← hn] at this
  exact nowRowOk_sound this q tol hne hq hs

/-! ## two trees reach the same leaf on every realisable valuation -/

theorem checkLeafSem_sound {sg : List Bool} {ts : List Int} {q : Int} (hsg : SgOk sg ts q) (tol : Int) (r : Res) :
    ∀ (t : DTree) (dec : List (Atom × Sign)) (cs : List Aff), Agrees (valuationOf ts q tol) dec →
      Sat (env q tol ts) cs → checkLeafSem ts.length sg r dec cs t = true → evalTree t (valuationOf ts q tol) = r := by
  intro t
  induction t with
  | leaf r' =>
    intro dec cs _ hcs h
    simp only [checkLeafSem, Bool.or_eq_true, beq_iff_eq] at h
    rcases h with h | h
    · simp [evalTree, h]
    · exact absurd hcs (refute_sound _ _ h _)
  | node a l e g ihl ihe ihg =>
    intro dec cs hdec hcs h
    unfold checkLeafSem at h
    unfold evalTree
    split at h
    · rename_i s hs
      have hva := lookupA_agrees hdec hs
      rw [hva]
      cases s
      · exact ihl dec cs hdec hcs h
      · exact ihe dec cs hdec hcs h
      · exact ihg dec cs hdec hcs h
    · simp only [Bool.and_eq_true] at h
      obtain ⟨⟨⟨hok, hl⟩, he⟩, hg⟩ := h
      have hdec' := agrees_cons hdec a
      cases hv : valuationOf ts q tol a
      · rw [hv] at hdec'; exact ihl _ _ hdec' (sat_append (valuationOf_sat hsg tol a hok _ hv) hcs) hl
      · rw [hv] at hdec'; exact ihe _ _ hdec' (sat_append (valuationOf_sat hsg tol a hok _ hv) hcs) he
      · rw [hv] at hdec'; exact ihg _ _ hdec' (sat_append (valuationOf_sat hsg tol a hok _ hv) hcs) hg

theorem checkEq_sound {sg : List Bool} {ts : List Int} {q : Int} (hsg : SgOk sg ts q) (tol : Int) (t2 : DTree) :
    ∀ (t : DTree) (dec : List (Atom × Sign)) (cs : List Aff), Agrees (valuationOf ts q tol) dec →
      Sat (env q tol ts) cs → checkEq ts.length sg t2 dec cs t = true →
      evalTree t (valuationOf ts q tol) = evalTree t2 (valuationOf ts q tol) := by
  intro t
  induction t with
  | leaf r =>
    intro dec cs hdec hcs h
    simp only [checkEq] at h
    rw [checkLeafSem_sound hsg tol r t2 dec cs hdec hcs h]; rfl
  | node a l e g ihl ihe ihg =>
    intro dec cs hdec hcs h
    unfold checkEq at h
    rw [evalTree]
    split at h
    · rename_i s hs
      have hva := lookupA_agrees hdec hs
      rw [hva]
      cases s
      · exact ihl dec cs hdec hcs h
      · exact ihe dec cs hdec hcs h
      · exact ihg dec cs hdec hcs h
    · simp only [Bool.and_eq_true] at h
      obtain ⟨⟨⟨hok, hl⟩, he⟩, hg⟩ := h
      have hdec' := agrees_cons hdec a
      cases hv : valuationOf ts q tol a
      · rw [hv] at hdec'; exact ihl _ _ hdec' (sat_append (valuationOf_sat hsg tol a hok _ hv) hcs) hl
      · rw [hv] at hdec'; exact ihe _ _ hdec' (sat_append (valuationOf_sat hsg tol a hok _ hv) hcs) he
      · rw [hv] at hdec'; exact ihg _ _ hdec' (sat_append (valuationOf_sat hsg tol a hok _ hv) hcs) hg

theorem eqRowOk_sound {code skel : DTree} {ts : List Int} (h : eqRowOk ts.length code skel = true) (q tol : Int)
    (hs : ts.Pairwise (fun a b => a < b)) :
    evalTree code (valuationOf ts q tol) = evalTree skel (valuationOf ts q tol) := by
  have hsg := sgOk_sgOf ts q
  have hc := List.all_eq_true.1 h _ (sgOf_mem q ts)
  exact checkEq_sound hsg tol skel code [] _ (agrees_nil _) (sat_append (sat_sgCs hsg tol) (sat_strictCs ts q tol hs)) hc

/-- a table accepted by `eqTableOk` reaches the skeleton's leaf on every strictly increasing list of stamps -/
theorem eqTableOk_sound {rows : List (Nat × DTree)} {skel : Nat → DTree} (h : eqTableOk rows skel = true) :
    ∀ p ∈ rows, ∀ (ts : List Int) (q tol : Int), ts.length = p.1 → ts.Pairwise (fun a b => a < b) →
      evalTree p.2 (valuationOf ts q tol) = evalTree (skel p.1) (valuationOf ts q tol) := by
  intro p hp ts q tol hn hs
  obtain ⟨n, t⟩ := p
  have := List.all_eq_true.1 h _ hp
  simp only [Bool.or_eq_true] at this hn ⊢
  rcases this with h1 | h2
  · exact equiv_sound h1 _
  · subst hn
    exact eqRowOk_sound h2 q tol hs

/-! ## what the checker accepts and rejects (independent of the generated tables; `decide +kernel`) -/

section Examples

/-- today's scan keeps the FIRST of two equidistant frames -/
example : nowRowOk 2 (getNowSkel 2) = true := by decide +kernel

/-- `<=` instead of `<`: the LAST of two equidistant frames; differs from the skeleton atom by atom, same property -/
def lastTie2 : DTree :=
  let body : DTree := .node (aCmp 0 1) (nowTailSkel 0) (nowTailSkel 1) (nowTailSkel 1)
  .node aGuard body body (.leaf (.err "DatasetLoadingError"))

example : equiv [] lastTie2 (getNowSkel 2) = false := by decide +kernel
example : nowRowOk 2 lastTie2 = true := by decide +kernel

/-- a bisection on two frames: compares `q` with the stamps, then `q - t 0` with `t 1 - q`, then one signed distance with
the tolerance (no `|q - t i|` anywhere); correct on time-ordered stamps only -/
def bisect2 : DTree :=
  let none' : DTree := .leaf .none
  let f0 : DTree := .leaf (.frame 0)
  let f1 : DTree := .leaf (.frame 1)
  let at0after : DTree := .node (aAfter 0) none' f0 f0          -- t0 - q ≤ tol ?
  let at0before : DTree := .node (aBefore 0) f0 f0 none'        -- q - t0 ≤ tol ?
  let at1after : DTree := .node (aAfter 1) none' f1 f1
  let at1before : DTree := .node (aBefore 1) f1 f1 none'
  let mid : DTree := .node ⟨[(2, .q), (-1, .t 0), (-1, .t 1)], 0⟩ at0before at0before at1after
  let inner : DTree := .node (aGe 1) mid mid at1before          -- q ≤ t1 ?
  let body : DTree := .node (aGe 0) at0after at0after inner       -- q ≤ t0 ?
  .node aGuard body body (.leaf (.err "DatasetLoadingError"))

example : nowRowOk 2 bisect2 = true := by decide +kernel

/-- the empty list is outside the obligation: `[] ↦ None`, `IndexError`, anything -/
example : nowRowOk 0 (.leaf .none) = true := by decide +kernel
example : nowRowOk 0 (.leaf (.err "ValueError")) = true := by decide +kernel

/-- rejected: no tolerance test -/
example : nowRowOk 1 (.node aGuard (.leaf (.frame 0)) (.leaf (.frame 0)) (.leaf (.err "DatasetLoadingError"))) = false := by
  decide +kernel
/-- rejected: always the first frame -/
example : nowRowOk 2 (.node aGuard (nowTailSkel 0) (nowTailSkel 0) (.leaf (.err "DatasetLoadingError"))) = false := by
  decide +kernel
/-- rejected: an exception when two frames are equidistant (seeded change C17_F) -/
example : nowRowOk 2
    (let body : DTree := .node (aCmp 0 1) (nowTailSkel 0) (.leaf (.err "TypeError")) (nowTailSkel 1)
     .node aGuard body body (.leaf (.err "DatasetLoadingError"))) = false := by decide +kernel
/-- rejected: tolerance exclusive (`≥` instead of `>`) -/
example : nowRowOk 1
    (let body : DTree := .node (aTolAbs 0) (.leaf .none) (.leaf .none) (.leaf (.frame 0))
     .node aGuard body body (.leaf (.err "DatasetLoadingError"))) = false := by decide +kernel

/-- the interpolated lookup: the skeleton agrees with itself semantically, not with the skeleton for another length -/
example : eqRowOk 2 (getInterpSkel 2) (getInterpSkel 2) = true := by decide +kernel
example : eqRowOk 2 (getInterpSkel 1) (getInterpSkel 2) = false := by decide +kernel

end Examples

end PEval.LookupDT
