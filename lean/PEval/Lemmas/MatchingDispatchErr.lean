import PEval.Lemmas.MatchingTotal
import PEval.Model.MatchDispatch
/-!
`MatchDispatch.getObjectResultsXE` (the entry point with the constructor exits of the matching classes) against
`getObjectResultsX` / `Matching.getObjectResults`: equal whenever every same-frame pair carries the geometry the mode
reads; otherwise the call raises the exception of the first failing cell.
-/
namespace PEval.MatchDispatch
open PEval PEval.Matching

theorem valueError_eq_none_iff {is2d : Bool} {m : Mode} {e g : ObjX} :
    valueError is2d m e g = none ↔
      is2d = false ∨ ((m = .centerDistance ∨ m = .iou2d) ∧ e.roiNone = false ∧ g.roiNone = false) := by
  unfold valueError
  cases is2d <;> cases m <;> cases e.roiNone <;> cases g.roiNone <;> simp

/-- which exception the constructor raises -/
theorem valueError_eq_some_iff {is2d : Bool} {m : Mode} {e g : ObjX} {err : Err} :
    valueError is2d m e g = some err ↔
      is2d = true ∧
        ((err = "AttributeError" ∧ (m = .planeDistance ∨ m = .iou3d)) ∨
          (err = "AttributeError" ∧ m = .centerDistance ∧ (e.roiNone = true ∨ g.roiNone = true)) ∨
          (err = "RuntimeError" ∧ m = .iou2d ∧ (e.roiNone = true ∨ g.roiNone = true))) := by
  unfold valueError
  cases is2d <;> cases m <;> cases e.roiNone <;> cases g.roiNone <;> simp <;>
    first | exact ⟨fun h => h.symm, fun h => h.symm⟩ | skip

theorem cellXE_of_no_valueError {c : Cfg} {is2d : Bool} {e g : ObjX} {v : Rat}
    (h : e.frame = g.frame → valueError is2d c.mode e g = none) :
    cellXE c is2d e g v = cell c (toObj e) (toObj g) v := by
  unfold cellXE cell
  by_cases hf : e.frame = g.frame
  · simp only [h hf]
    rfl
  · have : (e.frame == g.frame) = false := by simpa using hf
    simp [this, toObj]

theorem cellAtXE_eq_cellAt {c : Cfg} {sx : SceneX}
    (h : ∀ e ∈ sx.ests, ∀ g ∈ sx.gts, e.frame = g.frame → valueError sx.is2d c.mode e g = none) (i j : Nat) :
    cellAtXE c sx i j = cellAt c (toScene sx) i j := by
  unfold cellAtXE cellAt
  simp only [toScene, List.getElem?_map]
  cases he : sx.ests[i]? with
  | none => simp
  | some e =>
    cases hg : sx.gts[j]? with
    | none => simp
    | some g =>
      simp only [Option.map_some]
      exact cellXE_of_no_valueError (h e (List.mem_of_getElem? he) g (List.mem_of_getElem? hg))

theorem tableErrorXE_eq_tableError {c : Cfg} {sx : SceneX}
    (h : ∀ e ∈ sx.ests, ∀ g ∈ sx.gts, e.frame = g.frame → valueError sx.is2d c.mode e g = none) :
    tableErrorXE c sx = tableError c (toScene sx) := by
  unfold tableErrorXE tableError
  simp only [cellAtXE_eq_cellAt h]
  simp only [toScene, List.length_map]
  rfl

/-- the exception of the table construction of the extended model is that of the FIRST failing cell, row-major -/
theorem tableErrorXE_eq_some_iff {c : Cfg} {sx : SceneX} {err : Err} :
    tableErrorXE c sx = some err ↔
      ∃ i j, i < sx.ests.length ∧ j < sx.gts.length ∧ cellAtXE c sx i j = .error err ∧
        ∀ i' j', i' < sx.ests.length → j' < sx.gts.length → (i' < i ∨ (i' = i ∧ j' < j)) →
          ∃ x, cellAtXE c sx i' j' = .ok x := by
  unfold tableErrorXE
  rw [findSome?_range_eq_some_iff]
  constructor
  · rintro ⟨i, hi, hrow, hbefore⟩
    rw [findSome?_range_eq_some_iff] at hrow
    obtain ⟨j, hj, hcell, hjbefore⟩ := hrow
    have hce : cellAtXE c sx i j = .error err := by
      cases hx : cellAtXE c sx i j with
      | ok x => simp [hx] at hcell
      | error e' => simp [hx] at hcell; rw [hcell]
    refine ⟨i, j, hi, hj, hce, ?_⟩
    intro i' j' hi' hj' hlt
    rcases hlt with hlt | ⟨rfl, hlt⟩
    · have := hbefore i' hlt
      rw [findSome?_range_eq_none_iff] at this
      have := this j' hj'
      cases hx : cellAtXE c sx i' j' with
      | ok x => exact ⟨x, rfl⟩
      | error e' => simp [hx] at this
    · have := hjbefore j' hlt
      cases hx : cellAtXE c sx i' j' with
      | ok x => exact ⟨x, rfl⟩
      | error e' => simp [hx] at this
  · rintro ⟨i, j, hi, hj, hce, hbefore⟩
    refine ⟨i, hi, ?_, ?_⟩
    · rw [findSome?_range_eq_some_iff]
      refine ⟨j, hj, by simp [hce], ?_⟩
      intro k hk
      obtain ⟨x, hx⟩ := hbefore i k hi (by omega) (Or.inr ⟨rfl, hk⟩)
      simp [hx]
    · intro k hk
      rw [findSome?_range_eq_none_iff]
      intro j' hj'
      obtain ⟨x, hx⟩ := hbefore k j' (by omega) hj' (Or.inl hk)
      simp [hx]

/-- one cell of the extended model raises iff the objects are in the same frame and, in this order, the threshold
lookup fails, or the constructor of the matching method fails, or the IoU range assertion fails -/
theorem cellXE_error_iff {c : Cfg} {is2d : Bool} {e g : ObjX} {v : Rat} {err : Err} :
    cellXE c is2d e g v = .error err ↔
      e.frame = g.frame ∧
        (labelThreshold c.targets c.thresholds g.label = .error err ∨
          ((∃ thr, labelThreshold c.targets c.thresholds g.label = .ok thr) ∧
            valueError is2d c.mode e g = some err) ∨
          (valueError is2d c.mode e g = none ∧
            ∃ r, labelThreshold c.targets c.thresholds g.label = .ok (some r) ∧
              isBetterThan c.mode v r = .error err)) := by
  unfold cellXE
  by_cases hf : e.frame = g.frame
  · simp only [hf, beq_self_eq_true, if_true, true_and]
    cases hl : labelThreshold c.targets c.thresholds g.label with
    | error e' => simp [bind, Except.bind]
    | ok thr =>
      cases hv : valueError is2d c.mode e g with
      | some e' =>
        simp only [bind, Except.bind, throw, throwThe, MonadExceptOf.throw, Except.error.injEq, reduceCtorEq,
          false_or, Option.some.injEq, false_and, or_false]
        exact ⟨fun h => ⟨⟨thr, rfl⟩, h⟩, fun h => h.2⟩
      | none =>
        cases thr with
        | none => simp [bind, Except.bind, pure, Except.pure]
        | some r =>
          cases hb : isBetterThan c.mode v r with
          | error e' => simp [hb, bind, Except.bind]
          | ok b => cases b <;> simp [hb, bind, Except.bind, pure, Except.pure]
  · have hf' : (e.frame == g.frame) = false := by simpa using hf
    simp [hf', hf, pure, Except.pure]

/-- every same-frame pair carries what the mode reads: 3-D boxes, or 2-D objects that all have a ROI and a 2-D mode -/
def modeReadable (c : Cfg) (sx : SceneX) : Prop :=
  ∀ e ∈ sx.ests, ∀ g ∈ sx.gts, e.frame = g.frame → valueError sx.is2d c.mode e g = none

theorem modeReadable_of_geometry {c : Cfg} {sx : SceneX} (hgeo : hasGeometry sx)
    (hmode : sx.is2d = true → c.mode = .centerDistance ∨ c.mode = .iou2d) : modeReadable c sx := by
  intro e he g hg _
  rw [valueError_eq_none_iff]
  rcases hgeo with h | ⟨h1, h2⟩
  · exact Or.inl h
  · cases h2d : sx.is2d with
    | false => exact Or.inl rfl
    | true => exact Or.inr ⟨hmode h2d, h1 e he, h2 g hg⟩

/-- **Refinement**: whenever every same-frame pair is readable by the mode, the extended entry point is the entry point
of `MatchDispatch` (so all C01 / C02 statements hold for it) -/
theorem getObjectResultsXE_eq_X {uf : Bool} {c : Cfg} {sx : SceneX} (h : modeReadable c sx) :
    getObjectResultsXE uf c sx = getObjectResultsX uf c sx := by
  unfold getObjectResultsXE getObjectResultsX
  cases hE : sx.ests with
  | nil => rfl
  | cons e0 es =>
    cases hG : sx.gts with
    | nil => rfl
    | cons g0 gs =>
      simp only
      cases hd : dispatch sx.is2d e0 g0 with
      | tlr => rfl
      | byId => rfl
      | geometric =>
        simp only
        rw [tableErrorXE_eq_tableError h]
        cases ht : tableError c (toScene sx) with
        | none => rfl
        | some err =>
          simp only
          symm
          rw [getObjectResults_error_iff]
          refine ⟨?_, ?_, ht⟩ <;> simp [toScene, hE, hG]

/-- on the geometric path the extended entry point raises exactly the exception of its table construction -/
theorem getObjectResultsXE_geometric_error_iff {uf : Bool} {c : Cfg} {sx : SceneX} {e0 g0 : ObjX} {es gs : List ObjX}
    (hE : sx.ests = e0 :: es) (hG : sx.gts = g0 :: gs) (hd : dispatch sx.is2d e0 g0 = .geometric) {err : Err} :
    getObjectResultsXE uf c sx = .error err ↔ tableErrorXE c sx = some err := by
  unfold getObjectResultsXE
  simp only [hE, hG, hd]
  cases ht : tableErrorXE c sx with
  | some e' => simp
  | none =>
    simp only [reduceCtorEq, iff_false]
    intro herr
    obtain ⟨_, _, hte⟩ := getObjectResults_error_iff.1 herr
    obtain ⟨i, j, hi, hj, hce, _⟩ := tableError_eq_some_iff.1 hte
    -- the same cell is defined in the extended table, hence readable, hence equal to the plain cell
    have hnone := ht
    unfold tableErrorXE at hnone
    rw [findSome?_range_eq_none_iff] at hnone
    have hi' : i < sx.ests.length := by simpa [toScene] using hi
    have hj' : j < sx.gts.length := by simpa [toScene] using hj
    have h1 := hnone i hi'
    rw [findSome?_range_eq_none_iff] at h1
    have h2 := h1 j hj'
    cases hx : cellAtXE c sx i j with
    | error e' => simp [hx] at h2
    | ok x =>
      unfold cellAtXE at hx
      unfold cellAt at hce
      simp only [toScene, List.getElem?_map] at hce
      cases he : sx.ests[i]? with
      | none => simp [he] at hce
      | some e =>
        cases hg : sx.gts[j]? with
        | none => simp [he, hg] at hce
        | some g =>
          simp only [he, hg, Option.map_some] at hce hx
          by_cases hv : e.frame = g.frame → valueError sx.is2d c.mode e g = none
          · rw [cellXE_of_no_valueError hv, hce] at hx; cases hx
          · have hf : e.frame = g.frame := Classical.not_not.1 (fun hn => hv (fun h => absurd h hn))
            have hv' : valueError sx.is2d c.mode e g ≠ none := fun hn => hv (fun _ => hn)
            cases hvv : valueError sx.is2d c.mode e g with
            | none => exact hv' hvv
            | some e' =>
              -- the extended cell raises (threshold lookup or constructor): contradiction with `hx`
              have hth := (cell_error_iff.1 hce).2
              unfold cellXE at hx
              simp only [hf, beq_self_eq_true, if_true] at hx
              cases hl : labelThreshold c.targets c.thresholds g.label with
              | error e'' => simp [hl, bind, Except.bind] at hx
              | ok thr =>
                simp [hl, hvv, bind, Except.bind, throw, throwThe, MonadExceptOf.throw] at hx

end PEval.MatchDispatch
