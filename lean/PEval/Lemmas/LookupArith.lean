import PEval.Lemmas.Lookup
import Mathlib.Tactic.Linarith
import Mathlib.Tactic.Ring
import Mathlib.Algebra.Order.Field.Basic
import Mathlib.Algebra.Order.Field.Rat
import Mathlib.Algebra.Order.Ring.Abs
/-!
Arithmetic lemmas for C17: the weight `α = (t - t1)/(t2 - t1)`, linear interpolation at the end
points, and the shortest-arc wrap of headings in half-turns.
-/
namespace PEval.Lookup

/-! ## the weight -/

theorem alpha_nonneg {t1 t2 t : Int} (h1 : t1 ≤ t) (h12 : t1 < t2) : 0 ≤ alpha t1 t2 t := by
  unfold alpha
  apply div_nonneg
  · exact_mod_cast (by omega : (0 : Int) ≤ t - t1)
  · exact_mod_cast (by omega : (0 : Int) ≤ t2 - t1)

theorem alpha_le_one {t1 t2 t : Int} (h2 : t ≤ t2) (h12 : t1 < t2) : alpha t1 t2 t ≤ 1 := by
  unfold alpha
  have hpos : (0 : ℚ) < ((t2 - t1 : Int) : ℚ) := by exact_mod_cast (by omega : (0 : Int) < t2 - t1)
  rw [div_le_one hpos]
  exact_mod_cast (by omega : t - t1 ≤ t2 - t1)

theorem alpha_lt_one {t1 t2 t : Int} (h2 : t < t2) (h12 : t1 < t2) : alpha t1 t2 t < 1 := by
  unfold alpha
  have hpos : (0 : ℚ) < ((t2 - t1 : Int) : ℚ) := by exact_mod_cast (by omega : (0 : Int) < t2 - t1)
  rw [div_lt_one hpos]
  exact_mod_cast (by omega : t - t1 < t2 - t1)

/-- proportional time: `α (t2 - t1) = t - t1` -/
theorem alpha_mul {t1 t2 t : Int} (h12 : t1 ≠ t2) :
    alpha t1 t2 t * (((t2 : Int) : ℚ) - ((t1 : Int) : ℚ)) = ((t : Int) : ℚ) - ((t1 : Int) : ℚ) := by
  unfold alpha
  have hne : ((t2 - t1 : Int) : ℚ) ≠ 0 := by exact_mod_cast (by omega : t2 - t1 ≠ 0)
  push_cast at hne ⊢
  rw [div_mul_cancel₀ _ hne]

theorem alpha_self_left (t1 t2 : Int) : alpha t1 t2 t1 = 0 := by
  unfold alpha
  simp

theorem alpha_self_right {t1 t2 : Int} (h12 : t1 ≠ t2) : alpha t1 t2 t2 = 1 := by
  unfold alpha
  have hne : ((t2 - t1 : Int) : ℚ) ≠ 0 := by exact_mod_cast (by omega : t2 - t1 ≠ 0)
  exact div_self hne

/-! ## linear interpolation -/

theorem Vec3.ext' {a b : Vec3} (hx : a.x = b.x) (hy : a.y = b.y) (hz : a.z = b.z) : a = b := by
  cases a; cases b; simp_all

theorem Vec3.lerp_x (a b : Vec3) (α : ℚ) : (Vec3.lerp a b α).x = a.x + α * (b.x - a.x) := rfl
theorem Vec3.lerp_y (a b : Vec3) (α : ℚ) : (Vec3.lerp a b α).y = a.y + α * (b.y - a.y) := rfl
theorem Vec3.lerp_z (a b : Vec3) (α : ℚ) : (Vec3.lerp a b α).z = a.z + α * (b.z - a.z) := rfl

theorem Vec3.lerp_zero (a b : Vec3) : Vec3.lerp a b 0 = a := by
  apply Vec3.ext' <;> simp [Vec3.lerp_x, Vec3.lerp_y, Vec3.lerp_z]

theorem Vec3.lerp_one (a b : Vec3) : Vec3.lerp a b 1 = b := by
  apply Vec3.ext' <;> simp [Vec3.lerp_x, Vec3.lerp_y, Vec3.lerp_z]

/-- a coordinate of an interpolated point lies between the two end coordinates -/
theorem lerp_between {p q α : ℚ} (h0 : 0 ≤ α) (h1 : α ≤ 1) :
    min p q ≤ p + α * (q - p) ∧ p + α * (q - p) ≤ max p q := by
  rcases le_total p q with h | h
  · rw [min_eq_left h, max_eq_right h]
    constructor
    · nlinarith
    · nlinarith
  · rw [min_eq_right h, max_eq_left h]
    constructor
    · nlinarith
    · nlinarith

/-! ## the shortest arc -/

theorem wrap_eq (x : ℚ) : wrap x = x - 2 * ((((x + 1) / 2).floor : Int) : ℚ) := rfl

theorem wrap_range (x : ℚ) : -1 ≤ wrap x ∧ wrap x < 1 := by
  have h1 := Rat.floor_le ((x + 1) / 2)
  have h2 := Rat.lt_floor_add_one ((x + 1) / 2)
  rw [wrap_eq]
  push_cast at h2
  constructor <;> linarith

theorem wrap_congr (x : ℚ) : ∃ k : Int, wrap x = x - 2 * (k : ℚ) := ⟨_, wrap_eq x⟩

theorem abs_wrap_le_one (x : ℚ) : |wrap x| ≤ 1 := by
  obtain ⟨h1, h2⟩ := wrap_range x
  exact abs_le.2 ⟨h1, le_of_lt h2⟩

/-- no representative of the same angle (mod a full turn = 2 half-turns) is shorter -/
theorem wrap_min (x : ℚ) (m : Int) : |wrap x| ≤ |x + 2 * (m : ℚ)| := by
  obtain ⟨h1, h2⟩ := wrap_range x
  have hk := wrap_eq x
  generalize ((x + 1) / 2).floor = k at hk
  -- x + 2m = wrap x + 2 (k + m)
  have hx : x + 2 * (m : ℚ) = wrap x + 2 * (((k + m : Int)) : ℚ) := by
    push_cast; rw [hk]; ring
  rw [hx]
  rcases lt_trichotomy (k + m) 0 with hj | hj | hj
  · have hj' : (((k + m : Int)) : ℚ) ≤ -1 := by exact_mod_cast (by omega : k + m ≤ -1)
    calc |wrap x| ≤ 1 := abs_wrap_le_one x
      _ ≤ -(wrap x + 2 * (((k + m : Int)) : ℚ)) := by linarith
      _ ≤ |wrap x + 2 * (((k + m : Int)) : ℚ)| := neg_le_abs _
  · rw [hj]; simp
  · have hj' : (1 : ℚ) ≤ (((k + m : Int)) : ℚ) := by exact_mod_cast (by omega : 1 ≤ k + m)
    calc |wrap x| ≤ 1 := abs_wrap_le_one x
      _ ≤ wrap x + 2 * (((k + m : Int)) : ℚ) := by linarith
      _ ≤ |wrap x + 2 * (((k + m : Int)) : ℚ)| := le_abs_self _

theorem abs_mul_le_of_unit {α d : ℚ} (h0 : 0 ≤ α) (h1 : α ≤ 1) : |α * d| ≤ |d| := by
  rw [abs_mul, abs_of_nonneg h0]
  have := abs_nonneg d
  nlinarith

end PEval.Lookup
