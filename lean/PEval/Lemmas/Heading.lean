import PEval.Model.Heading
import Mathlib.Tactic.Linarith
import Mathlib.Tactic.Ring
/-!
Helper lemmas for C09: closed forms of the piecewise-linear functions of `PEval.Model.Heading` on the
yaw domain `(−1, 1]`.
-/
namespace PEval.Heading

theorem absR_nonneg (x : Rat) : 0 ≤ absR x := by
  unfold absR; split <;> linarith

theorem absR_neg (x : Rat) : absR (-x) = absR x := by
  unfold absR; split <;> split <;> linarith

theorem absR_sub_comm (a b : Rat) : absR (a - b) = absR (b - a) := by
  rw [← absR_neg (a - b)]; congr 1; ring

theorem absR_eq_zero_iff (x : Rat) : absR x = 0 ↔ x = 0 := by
  unfold absR; constructor
  · intro h; split at h <;> linarith
  · rintro rfl; simp

/-- closed form of `get_heading_bev` on the yaw domain: the first wrap never fires, the second fires
exactly for yaw > π/2 -/
theorem headingBev_eq {τ : Rat} (h : InDom τ) :
    headingBev τ = if τ > 1/2 then 3/2 - τ else -τ - 1/2 := by
  obtain ⟨h1, h2⟩ := h
  unfold headingBev
  simp only
  have : ¬ (-τ - 1/2 > 1) := by linarith
  rw [if_neg this]
  by_cases c : τ > 1/2
  · rw [if_pos c, if_pos (by linarith)]; ring
  · rw [if_neg c, if_neg (by linarith)]

/-- the heading lies in `[−π, π)` -/
theorem headingBev_range {τ : Rat} (h : InDom τ) : -1 ≤ headingBev τ ∧ headingBev τ < 1 := by
  rw [headingBev_eq h]; obtain ⟨h1, h2⟩ := h
  split <;> constructor <;> linarith

theorem wrapYaw_inDom {t : Rat} (h1 : -2 < t) (h2 : t ≤ 2) : InDom (wrapYaw t) := by
  unfold wrapYaw InDom
  split
  · constructor <;> linarith
  · split <;> constructor <;> linarith

theorem wrapYaw_sum_inDom {a b : Rat} (ha : InDom a) (hb : InDom b) : InDom (wrapYaw (a + b)) :=
  wrapYaw_inDom (by have := ha.1; have := hb.1; linarith) (by have := ha.2; have := hb.2; linarith)

/-- `wrapYaw` changes its argument by a multiple of a full turn -/
theorem wrapYaw_cases (t : Rat) : wrapYaw t = t ∨ wrapYaw t = t - 2 ∨ wrapYaw t = t + 2 := by
  unfold wrapYaw; split
  · right; left; rfl
  · split
    · right; right; rfl
    · left; rfl

theorem absR_le {x c : Rat} (h1 : -c ≤ x) (h2 : x ≤ c) : absR x ≤ c := by
  unfold absR; split <;> linarith

theorem circDist_nonneg {a b : Rat} (ha : InDom a) (hb : InDom b) : 0 ≤ circDist a b := by
  unfold circDist; simp only
  have := absR_nonneg (a - b)
  have := absR_le (x := a - b) (c := 2) (by have := ha.1; have := hb.2; linarith)
    (by have := ha.2; have := hb.1; linarith)
  split <;> linarith

theorem circDist_le_one (a b : Rat) : circDist a b ≤ 1 := by
  unfold circDist; simp only
  split <;> linarith

theorem circDist_comm (a b : Rat) : circDist a b = circDist b a := by
  unfold circDist; rw [absR_sub_comm]

/-- on the domain the clamp never fires: `1 − fold` is already in `[0, 1]` -/
theorem clamp01_id {x : Rat} (h0 : 0 ≤ x) (h1 : x ≤ 1) : clamp01 x = x := by
  unfold clamp01; simp only
  by_cases c : x > 0
  · rw [if_pos c]; by_cases d : x < 1
    · rw [if_pos d]
    · rw [if_neg d]; linarith
  · have : x = 0 := by linarith
    subst this; simp

theorem clamp01_range (x : Rat) : 0 ≤ clamp01 x ∧ clamp01 x ≤ 1 := by
  unfold clamp01; simp only
  by_cases c : x > 0
  · rw [if_pos c]; split <;> constructor <;> linarith
  · rw [if_neg c]; simp

/-- the fold of a heading difference is the circular distance of the yaws -/
theorem foldAbs_heading {a b : Rat} (ha : InDom a) (hb : InDom b) :
    foldAbs (headingBev a - headingBev b) = circDist a b := by
  rw [headingBev_eq ha, headingBev_eq hb]
  obtain ⟨a1, a2⟩ := ha
  obtain ⟨b1, b2⟩ := hb
  unfold foldAbs circDist absR
  simp only
  by_cases ca : a > 1/2 <;> by_cases cb : b > 1/2 <;> simp only [ca, cb, if_true, if_false] <;>
    split_ifs <;> linarith

theorem circDist_eq_zero_iff {a b : Rat} (ha : InDom a) (hb : InDom b) : circDist a b = 0 ↔ a = b := by
  obtain ⟨a1, a2⟩ := ha
  obtain ⟨b1, b2⟩ := hb
  unfold circDist absR
  simp only
  constructor
  · intro h; split_ifs at h <;> linarith
  · rintro rfl; simp

theorem circDist_eq_one_iff (a b : Rat) : circDist a b = 1 ↔ absR (a - b) = 1 := by
  unfold circDist
  simp only
  constructor
  · intro h; split_ifs at h <;> linarith
  · intro h; rw [h]; norm_num

theorem clip_neg (x : Rat) : clip (-x) = -clip x := by
  unfold clip
  split_ifs <;> linarith

theorem clip_range {x : Rat} (h1 : -2 < x) (h2 : x < 2) : -1 ≤ clip x ∧ clip x ≤ 1 := by
  unfold clip
  split_ifs <;> constructor <;> linarith

theorem absR_clip {a b : Rat} (ha : InDom a) (hb : InDom b) : absR (clip (b - a)) = circDist a b := by
  obtain ⟨a1, a2⟩ := ha
  obtain ⟨b1, b2⟩ := hb
  unfold clip circDist absR
  simp only
  split_ifs <;> linarith

/-- a common rotation of both yaws (with the `atan2` wrap) does not change the circular distance -/
theorem circDist_wrapYaw {t a b : Rat} (ht : InDom t) (ha : InDom a) (hb : InDom b) :
    circDist (wrapYaw (a + t)) (wrapYaw (b + t)) = circDist a b := by
  obtain ⟨t1, t2⟩ := ht
  obtain ⟨a1, a2⟩ := ha
  obtain ⟨b1, b2⟩ := hb
  unfold circDist absR wrapYaw
  simp only
  split_ifs <;> linarith

/-- after a common rotation the raw yaw difference changes by a whole number of turns (0 or ±1) -/
theorem wrap_diff {t a b : Rat} (ht : InDom t) (ha : InDom a) (hb : InDom b) :
    wrapYaw (b + t) - wrapYaw (a + t) = b - a ∨ wrapYaw (b + t) - wrapYaw (a + t) = b - a + 2
      ∨ wrapYaw (b + t) - wrapYaw (a + t) = b - a - 2 := by
  have hx := wrapYaw_sum_inDom ha ht
  have hy := wrapYaw_sum_inDom hb ht
  obtain ⟨x1, x2⟩ := hx
  obtain ⟨y1, y2⟩ := hy
  obtain ⟨a1, a2⟩ := ha
  obtain ⟨b1, b2⟩ := hb
  rcases wrapYaw_cases (a + t) with h | h | h <;> rcases wrapYaw_cases (b + t) with h' | h' | h' <;>
    first
      | (left; linarith) | (right; left; linarith) | (right; right; linarith)

/-- `_clip` picks the same representative for two differences one turn apart, except at `±π` where the two
representatives `+π`/`−π` are both fixed points -/
theorem clip_shift {x y : Rat} (hx1 : -2 < x) (hx2 : x < 2) (hy1 : -2 < y) (hy2 : y < 2)
    (h : y = x ∨ y = x + 2 ∨ y = x - 2) :
    clip y = clip x ∨ (absR x = 1 ∧ clip y = -clip x) := by
  unfold clip absR
  rcases h with rfl | rfl | rfl
  · left; rfl
  · by_cases c : x = -1
    · subst c; right; norm_num
    · left; split_ifs <;> first | linarith | (exfalso; apply c; linarith)
  · by_cases c : x = 1
    · subst c; right; norm_num
    · left; split_ifs <;> first | linarith | (exfalso; apply c; linarith)

end PEval.Heading
