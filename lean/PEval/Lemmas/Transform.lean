import PEval.Model.Transform
import Mathlib.Tactic.Ring
import Mathlib.Tactic.LinearCombination
/-!
Algebra of the quaternion / rigid-motion model (`PEval.Model.Transform`): polynomial identities closed
by `ring`, and the unit-length consequences closed by `linear_combination`.
-/
namespace PEval.Transform

/-! ## quaternions -/

theorem Quat.mul_assoc' (p q r : Quat) : (p * q) * r = p * (q * r) := by
  ext <;> simp <;> ring

theorem Quat.one_mul' (q : Quat) : Quat.one * q = q := by
  ext <;> simp [Quat.one]

theorem Quat.mul_one' (q : Quat) : q * Quat.one = q := by
  ext <;> simp [Quat.one]

theorem Quat.normSq_mul (p q : Quat) : (p * q).normSq = p.normSq * q.normSq := by
  simp [Quat.normSq]; ring

theorem Quat.normSq_conj (q : Quat) : q.conj.normSq = q.normSq := by
  simp [Quat.normSq, Quat.conj]

theorem Quat.normSq_neg (q : Quat) : (-q).normSq = q.normSq := by
  simp [Quat.normSq]

theorem Quat.conj_conj (q : Quat) : q.conj.conj = q := by
  ext <;> simp [Quat.conj]

theorem Quat.conj_mul (p q : Quat) : (p * q).conj = q.conj * p.conj := by
  ext <;> simp [Quat.conj] <;> ring

/-- `q̄ q = |q|²` -/
theorem Quat.conj_mul_self (q : Quat) : q.conj * q = ⟨q.normSq, 0, 0, 0⟩ := by
  ext <;> simp [Quat.conj, Quat.normSq] <;> ring

theorem Quat.self_mul_conj (q : Quat) : q * q.conj = ⟨q.normSq, 0, 0, 0⟩ := by
  ext <;> simp [Quat.conj, Quat.normSq] <;> ring

theorem Quat.conj_mul_self_unit (q : Quat) (h : q.normSq = 1) : q.conj * q = Quat.one := by
  rw [Quat.conj_mul_self, h]; rfl

theorem Quat.self_mul_conj_unit (q : Quat) (h : q.normSq = 1) : q * q.conj = Quat.one := by
  rw [Quat.self_mul_conj, h]; rfl

/-- for a unit quaternion: `q̄ (q r) = r` -/
theorem Quat.conj_mul_cancel (q r : Quat) (h : q.normSq = 1) : q.conj * (q * r) = r := by
  rw [← Quat.mul_assoc', Quat.conj_mul_self_unit q h, Quat.one_mul']

theorem Quat.mul_conj_cancel (q r : Quat) (h : q.normSq = 1) : q * (q.conj * r) = r := by
  rw [← Quat.mul_assoc', Quat.self_mul_conj_unit q h, Quat.one_mul']

/-! ## the rotation action -/

/-- the homogeneous rotation matrix is multiplicative: a polynomial identity, no unit hypothesis -/
theorem rotate_mul (p q : Quat) (v : V3) : rotate (p * q) v = rotate p (rotate q v) := by
  ext <;> simp [rotate, rotMat, Mat3.mulVec, V3.dot] <;> ring

theorem rotate_one (v : V3) : rotate Quat.one v = v := by
  ext <;> simp [rotate, rotMat, Mat3.mulVec, V3.dot, Quat.one]

/-- `q` and `-q` are the same rotation -/
theorem rotMat_neg (q : Quat) : rotMat (-q) = rotMat q := by
  ext <;> simp [rotMat]

theorem rotate_neg (q : Quat) (v : V3) : rotate (-q) v = rotate q v := by
  simp [rotate, rotMat_neg]

theorem rotate_add (q : Quat) (u v : V3) : rotate q (u + v) = rotate q u + rotate q v := by
  ext <;> simp [rotate, rotMat, Mat3.mulVec, V3.dot] <;> ring

theorem rotate_vneg (q : Quat) (v : V3) : rotate q (-v) = -(rotate q v) := by
  ext <;> simp [rotate, rotMat, Mat3.mulVec, V3.dot] <;> ring

/-- in general `R(q̄) R(q) = |q|⁴ · I` -/
theorem rotate_conj_rotate_gen (q : Quat) (v : V3) :
    rotate q.conj (rotate q v) = ⟨q.normSq * q.normSq * v.x, q.normSq * q.normSq * v.y, q.normSq * q.normSq * v.z⟩ := by
  ext <;> simp [rotate, rotMat, Mat3.mulVec, V3.dot, Quat.conj, Quat.normSq] <;> ring

theorem rotate_conj_rotate (q : Quat) (h : q.normSq = 1) (v : V3) : rotate q.conj (rotate q v) = v := by
  rw [rotate_conj_rotate_gen, h]; ext <;> simp

theorem rotate_rotate_conj (q : Quat) (h : q.normSq = 1) (v : V3) : rotate q (rotate q.conj v) = v := by
  have := rotate_conj_rotate q.conj (by rw [Quat.normSq_conj]; exact h) v
  rwa [Quat.conj_conj] at this

/-- a unit quaternion preserves lengths (so `rotMat q` is orthogonal) -/
theorem rotate_normSq (q : Quat) (h : q.normSq = 1) (v : V3) : (rotate q v).dot (rotate q v) = v.dot v := by
  simp only [Quat.normSq] at h
  simp [rotate, rotMat, Mat3.mulVec, V3.dot]
  linear_combination (v.x * v.x + v.y * v.y + v.z * v.z) * (q.w * q.w + q.x * q.x + q.y * q.y + q.z * q.z + 1) * h

/-! ## vectors -/

theorem V3.add_neg_cancel' (a b : V3) : a + b + -b = a := by
  ext <;> simp

theorem V3.neg_add_cancel_right' (a b : V3) : a + -b + b = a := by
  ext <;> simp

/-! ## the registry -/

theorem lookup_some_key {d : List HM} {k : String × String} {m : HM} (h : lookup d k = some m) :
    m ∈ d ∧ m.key = k := by
  induction d with
  | nil => simp [lookup] at h
  | cons a d ih =>
    unfold lookup at h
    cases hl : lookup d k with
    | some r =>
      rw [hl] at h
      simp only [Option.some.injEq] at h
      subst h
      exact ⟨List.mem_cons_of_mem _ (ih hl).1, (ih hl).2⟩
    | none =>
      rw [hl] at h
      by_cases hk : a.key = k
      · simp only [hk, if_true, Option.some.injEq] at h
        subst h
        exact ⟨List.mem_cons_self, hk⟩
      · simp [hk] at h

theorem lookup_eq_none_iff {d : List HM} {k : String × String} :
    lookup d k = none ↔ ∀ m ∈ d, m.key ≠ k := by
  induction d with
  | nil => simp [lookup]
  | cons a d ih =>
    unfold lookup
    cases hl : lookup d k with
    | some r =>
      simp only [reduceCtorEq, false_iff]
      intro hall
      exact hall r (List.mem_cons_of_mem _ (lookup_some_key hl).1) (lookup_some_key hl).2
    | none =>
      have hd := ih.1 hl
      by_cases hk : a.key = k
      · simp only [hk, if_true, reduceCtorEq, false_iff]
        intro hall
        exact hall a List.mem_cons_self hk
      · simp only [hk, if_false, true_iff]
        intro m hm
        rcases List.mem_cons.1 hm with rfl | hm'
        · exact hk
        · exact hd m hm'

/-- a Python dict keeps the last value written under a key -/
theorem lookup_append_last (pre post : List HM) (m : HM) (h : ∀ m' ∈ post, m'.key ≠ m.key) :
    lookup (pre ++ m :: post) m.key = some m := by
  induction pre with
  | nil =>
    simp only [List.nil_append]
    unfold lookup
    rw [lookup_eq_none_iff.2 h]
    simp
  | cons a pre ih =>
    simp only [List.cons_append]
    unfold lookup
    rw [ih]

end PEval.Transform
