import PEval.Model.MatchKernelsDT
/-!
# Bridges: the models of the matching / result-status kernels ARE their decision skeletons applied to the atoms of the input

For every input of the model functions (`PEval.Matching`, `PEval.AP`, `PEval.PassFail`) the skeleton of
`PEval/Model/MatchKernelsDT.lean`, evaluated under the valuation the input induces, gives the model's result:
`matchable_bridge`, `matchable_bridge_AP`, `better_bridge`, `better_bridge_M`, `labelCorrect_bridge_AP`,
`resultCorrect_bridge_AP`, `status_bridge_AP`, `resultCorrect_bridge_PF`, `status_bridge_PF`, `cell_bridge`.
Also the generic table check `tableOk` with its soundness (`tableOk_sound`, from `PEval.DT.agree_sound`).
-/
set_option linter.unusedSimpArgs false
set_option linter.unusedVariables false
namespace PEval.MatchKernels
open PEval PEval.DT

/-- atoms whose decisions the checker records: those a skeleton may ask again further down a path (`gt.none`, `gt.fp`,
`matchable`) and those the clauses of `forbIoU` speak about (`mode.is(IOU2D)`, `mode.is(IOU3D)` = Boolean atoms 6, 7;
`cmp(0|thr)`, `cmp(1|thr)`, `cmp(0|thr[gt])`, `cmp(1|thr[gt])` = order atoms 4, 5, 10, 11), so that a leaf below them is
recognised as sitting under a forbidden conjunction also when code and skeleton asked the atom at the same moment.
(One numbering serves both kinds of atoms; recording more than needed is always sound.) -/
def sticky : List Nat := [0, 1, 2, 4, 5, 6, 7, 10, 11]

/-- the per-run check of one table: the complete agreement checker accepts (an untranslatable function has no table) -/
def tableOk (forb : List (List Lit)) (t : Option DTree) (m : DTree) : Bool :=
  match t with
  | some t => agree forb sticky t m PA.empty
  | none => true

theorem tableOk_sound {forb : List (List Lit)} {t? : Option DTree} {m : DTree} (h : tableOk forb t? m = true) :
    ∀ t, t? = some t → ∀ v : Val, consistent forb v = true → eval t v = eval m v := by
  intro t ht
  unfold tableOk at h
  rw [ht] at h
  exact agree_sound h

theorem consistent_nil (v : Val) : consistent [] v = true := by simp [consistent]

theorem forbidden_consistent (v : Val) (h1 : v.b aSameLabel = true → v.b aEstUnknown = v.b aGtUnknown)
    (h2 : v.b aSameLabel = true → v.b aEstFp = v.b aGtFp) (h3 : (v.b aEstFp && v.b aEstUnknown) = false)
    (h4 : (v.b aGtFp && v.b aGtUnknown) = false) (h5 : (v.b aEstFp && v.b aGtFp) = true → v.b aSameLabel = true)
    (h6 : (v.b aEstUnknown && v.b aGtUnknown) = true → v.b aSameLabel = true) : consistent forbidden v = true := by
  simp only [consistent, forbidden, List.all_cons, List.all_nil, Lit.holds, Bool.and_true]
  generalize v.b aSameLabel = s at *
  generalize v.b aEstUnknown = eu at *
  generalize v.b aGtUnknown = gu at *
  generalize v.b aEstFp = ef at *
  generalize v.b aGtFp = gf at *
  revert h1 h2 h3 h4 h5 h6
  cases s <;> cases eu <;> cases gu <;> cases ef <;> cases gf <;> decide

theorem polAtoms_consistent (a b c gf eu s ef gu : Bool) (h1 : s = true → eu = gu) (h2 : s = true → ef = gf)
    (h3 : (ef && eu) = false) (h4 : (gf && gu) = false) (h5 : (ef && gf) = true → s = true)
    (h6 : (eu && gu) = true → s = true) : consistent forbidden (polAtoms a b c gf eu s ef gu) = true :=
  forbidden_consistent _ h1 h2 h3 h4 h5 h6

theorem valMatchable_consistent (p : Matching.Policy) (e g : Matching.Obj) :
    consistent forbidden (valMatchable p e g) = true := by
  unfold valMatchable
  apply polAtoms_consistent
  · intro h; have : e.label = g.label := by simpa using h
    rw [this]
  · intro h; have : e.label = g.label := by simpa using h
    rw [this]
  · cases h : Matching.isFp e.label <;> simp_all [Matching.isFp, Matching.isUnknown]
  · cases h : Matching.isFp g.label <;> simp_all [Matching.isFp, Matching.isUnknown]
  · simp [Matching.isFp]; intro h1 h2; rw [h1, h2]
  · simp [Matching.isUnknown]; intro h1 h2; rw [h1, h2]

theorem valMatchableAP_consistent (p : AP.Policy) (e g : AP.Label) :
    consistent forbidden (valMatchableAP p e g) = true := by
  unfold valMatchableAP
  apply polAtoms_consistent
  · intro h; have : e = g := by simpa using h
    rw [this]
  · intro h; have : e = g := by simpa using h
    rw [this]
  · cases h : (e == AP.fpLabel) <;> simp_all [AP.fpLabel, AP.unknownLabel]
  · cases h : (g == AP.fpLabel) <;> simp_all [AP.fpLabel, AP.unknownLabel]
  · simp; intro h1 h2; rw [h1, h2]
  · simp; intro h1 h2; rw [h1, h2]

/-! ## valuations of in-quantifier inputs avoid `forbIoU` (thresholds on the mode's scale) -/

theorem cmpR_ne_gt {a b : Rat} (h : a ≤ b) : cmpR a b ≠ .gt := by
  unfold cmpR
  by_cases h1 : a < b
  · simp [h1]
  · by_cases h2 : a = b
    · simp [h2]
    · exfalso; grind

theorem cmpR_ne_lt {a b : Rat} (h : b ≤ a) : cmpR a b ≠ .lt := by
  unfold cmpR
  have h1 : ¬ a < b := by grind
  by_cases h2 : a = b <;> simp [h1, h2]

theorem forbIoU_consistent (v : Val)
    (h : ∀ k, k = 2 ∨ k = 3 → v.b (aMode k) = true →
      v.c (cThr + 4) ≠ .gt ∧ v.c (cThr + 5) ≠ .lt ∧ v.c (cRadius + 4) ≠ .gt ∧ v.c (cRadius + 5) ≠ .lt) :
    consistent forbIoU v = true := by
  have h2 := h 2 (Or.inl rfl)
  have h3 := h 3 (Or.inr rfl)
  simp only [consistent, forbIoU, List.all_cons, List.all_nil, Lit.holds, Bool.and_true]
  generalize v.b (aMode 2) = m2 at *
  generalize v.b (aMode 3) = m3 at *
  generalize v.c (cThr + 4) = a at *
  generalize v.c (cThr + 5) = b at *
  generalize v.c (cRadius + 4) = c at *
  generalize v.c (cRadius + 5) = d at *
  cases m2 <;> cases m3 <;> simp_all

/-- the valuation of `is_better_than(t)` avoids `forbIoU` when `t` is on the mode's scale -/
theorem valBetter_consistent (m : AP.Mode) (x : Option Rat) (t : Rat) (hv : AP.thrValid m t = true) :
    consistent forbIoU (valBetter m x t) = true := by
  apply forbIoU_consistent
  intro k hk hm
  have h4 : (valBetter m x t).c (cThr + 4) = cmpR 0 t := by cases m <;> rfl
  have h5 : (valBetter m x t).c (cThr + 5) = cmpR 1 t := by cases m <;> rfl
  have h10 : (valBetter m x t).c (cRadius + 4) = .eq := by cases m <;> rfl
  have h11 : (valBetter m x t).c (cRadius + 5) = .eq := by cases m <;> rfl
  rw [h4, h5, h10, h11]
  have hd : m.isDistance = false := by
    rcases hk with rfl | rfl <;> cases m <;> first | rfl | exact absurd hm Bool.false_ne_true
  simp only [AP.thrValid, hd, Bool.false_eq_true, if_false, Bool.and_eq_true, decide_eq_true_eq] at hv
  exact ⟨cmpR_ne_gt hv.1, cmpR_ne_lt hv.2, by decide, by decide⟩

theorem eval_ite (c : Prop) [Decidable c] (a b : DTree) (v : Val) :
    eval (if c then a else b) v = if c then eval a v else eval b v := by
  split <;> rfl

theorem eval_leaf (r : DT.Res) (v : Val) : eval (.leaf r) v = r := rfl

theorem cmpR_lt (a b : Rat) : (cmpR a b == .lt) = decide (a < b) := by
  unfold cmpR
  by_cases h : a < b
  · simp [h]
  · by_cases h' : a = b <;> simp [h, h']

theorem cmpR_gt (a b : Rat) : (cmpR a b == .gt) = decide (b < a) := by
  unfold cmpR
  by_cases h : a < b
  · have : ¬ b < a := by grind
    simp [h, this]
  · by_cases h' : a = b
    · subst h'; simp
    · have : b < a := by grind
      simp [h, h', this]

theorem errCode_assert : errCode "AssertionError" = 3 := by decide +kernel

def optBetter (m : AP.Mode) (x : Option Rat) (t : Rat) : Bool :=
  match x with
  | none => false
  | some y => AP.isBetter m y t

theorem isBetterThan_eq (m : AP.Mode) (x : Option Rat) (t : Rat) :
    AP.isBetterThan m x t = if AP.thrValid m t then .ok (optBetter m x t) else .error "AssertionError" := by
  unfold AP.isBetterThan optBetter
  cases x <;> rfl

theorem eval_tCompare (m : AP.Mode) (cb : Nat) (optV : Bool) (kk : Bool → DTree) (v : Val) (x : Option Rat) (t : Rat)
    (hn : v.b (aVNone (modeIdx m)) = x.isNone) (hx : optV = false → x.isSome = true)
    (hc : v.c (cb + modeIdx m) = cmpR (x.getD 0) t) :
    eval (tCompare (modeIdx m) cb optV kk) v = eval (kk (optBetter m x t)) v := by
  unfold tCompare optBetter
  cases optV
  · cases x with
    | none => simp at hx
    | some y =>
      simp only [Bool.false_eq_true, if_false, eval_askC, hc, Option.getD_some, passOrd, AP.isBetter]
      cases m <;> simp [modeIdx, AP.Mode.isDistance, cmpR_lt, cmpR_gt]
  · cases x with
    | none => simp [eval_askB, eval_ite, hn]
    | some y =>
      simp only [if_true, eval_askB, eval_ite, hn, eval_askC, hc, Option.getD_some, passOrd, AP.isBetter]
      cases m <;> simp [modeIdx, AP.Mode.isDistance, cmpR_lt, cmpR_gt]

theorem eval_tBetter_iou (k cb : Nat) (hk : ¬ k < 2) (optV : Bool) (kk : Bool → DTree) (v : Val) (t : Rat)
    (h0 : v.c (cb + 4) = cmpR 0 t) (h1 : v.c (cb + 5) = cmpR 1 t) :
    eval (tBetter k cb optV kk) v =
      if decide (0 ≤ t) && decide (t ≤ 1) then eval (tCompare k cb optV kk) v else .raise eAssert := by
  unfold tBetter
  rw [if_neg hk, eval_askC, h0, eval_ite, cmpR_gt, eval_askC, h1, eval_ite, cmpR_lt]
  by_cases c0 : t < 0
  · have : ¬ 0 ≤ t := by grind
    simp [c0, this, eval_leaf]
  · have c0' : 0 ≤ t := by grind
    by_cases c1 : 1 < t
    · have : ¬ t ≤ 1 := by grind
      simp [c0, c1, this, eval_leaf]
    · have c1' : t ≤ 1 := by grind
      simp [c0, c0', c1, c1']

theorem eval_tBetter (m : AP.Mode) (cb : Nat) (optV : Bool) (kk : Bool → DTree) (v : Val) (x : Option Rat) (t : Rat)
    (hn : v.b (aVNone (modeIdx m)) = x.isNone) (hx : optV = false → x.isSome = true)
    (hc : v.c (cb + modeIdx m) = cmpR (x.getD 0) t) (h0 : v.c (cb + 4) = cmpR 0 t) (h1 : v.c (cb + 5) = cmpR 1 t) :
    eval (tBetter (modeIdx m) cb optV kk) v =
      match AP.isBetterThan m x t with
      | .ok b => eval (kk b) v
      | .error _ => .raise eAssert := by
  have hcmp := eval_tCompare m cb optV kk v x t hn hx hc
  rw [isBetterThan_eq]
  cases m
  · simpa [tBetter, modeIdx, AP.thrValid, AP.Mode.isDistance] using hcmp
  · simpa [tBetter, modeIdx, AP.thrValid, AP.Mode.isDistance] using hcmp
  · rw [show modeIdx .iou2d = 2 from rfl] at hcmp ⊢
    rw [eval_tBetter_iou 2 cb (by decide) optV kk v t h0 h1, hcmp]
    simp only [AP.thrValid, AP.Mode.isDistance, Bool.false_eq_true, if_false]
    split <;> rfl
  · rw [show modeIdx .iou3d = 3 from rfl] at hcmp ⊢
    rw [eval_tBetter_iou 3 cb (by decide) optV kk v t h0 h1, hcmp]
    simp only [AP.thrValid, AP.Mode.isDistance, Bool.false_eq_true, if_false]
    split <;> rfl

theorem matchable_bridge (p : Matching.Policy) (e g : Matching.Obj) :
    eval matchableTree (valMatchable p e g) = .ret (Matching.isMatchable p e g) := by
  have h1 : (valMatchable p e g).b aPolAny = (p == .allowAny) := rfl
  have h2 : (valMatchable p e g).b aPolUnknown = (p == .allowUnknown) := rfl
  have h3 : (valMatchable p e g).b aPolDefault = (p == .default) := rfl
  have h4 : (valMatchable p e g).b aGtFp = Matching.isFp g.label := rfl
  have h5 : (valMatchable p e g).b aSameLabel = (e.label == g.label) := rfl
  have h6 : (valMatchable p e g).b aEstUnknown = Matching.isUnknown e.label := rfl
  unfold matchableTree tPolicyBody Matching.isMatchable
  simp only [eval_askB, eval_ite, eval_leaf, h1, h2, h3, h4, h5, h6]
  cases p <;> cases Matching.isFp g.label <;> cases (e.label == g.label) <;> simp

theorem matchable_bridge_AP (p : AP.Policy) (e g : AP.Label) :
    eval matchableTree (valMatchableAP p e g) = .ret (AP.isMatchable p e g) := by
  have h1 : (valMatchableAP p e g).b aPolAny = (p == .allowAny) := rfl
  have h2 : (valMatchableAP p e g).b aPolUnknown = (p == .allowUnknown) := rfl
  have h3 : (valMatchableAP p e g).b aPolDefault = (p == .default) := rfl
  have h4 : (valMatchableAP p e g).b aGtFp = (g == AP.fpLabel) := rfl
  have h5 : (valMatchableAP p e g).b aSameLabel = (e == g) := rfl
  have h6 : (valMatchableAP p e g).b aEstUnknown = (e == AP.unknownLabel) := rfl
  unfold matchableTree tPolicyBody AP.isMatchable
  simp only [eval_askB, eval_ite, eval_leaf, h1, h2, h3, h4, h5, h6]
  cases p <;> cases (g == AP.fpLabel) <;> cases (e == g) <;> simp


/-! ## the mode chain -/

theorem eval_modeChain (f : Nat → DTree) (v : Val) (k : Nat) (hk : k < 4)
    (h : ∀ j, j < 4 → v.b (aMode j) = (j == k)) : eval (modeChain f) v = eval (f k) v := by
  unfold modeChain
  simp only [eval_askB, eval_ite, h 0 (by decide), h 1 (by decide), h 2 (by decide), h 3 (by decide)]
  have : k = 0 ∨ k = 1 ∨ k = 2 ∨ k = 3 := by omega
  rcases this with rfl | rfl | rfl | rfl <;> simp

/-! ## `is_better_than` -/

theorem valBetter_mode (m : AP.Mode) (x : Option Rat) (t : Rat) (j : Nat) (hj : j < 4) :
    (valBetter m x t).b (aMode j) = (j == modeIdx m) := by
  have : j = 0 ∨ j = 1 ∨ j = 2 ∨ j = 3 := by omega
  rcases this with rfl | rfl | rfl | rfl <;> cases m <;> rfl

theorem better_bridge (m : AP.Mode) (x : Option Rat) (t : Rat) :
    eval betterTree (valBetter m x t) = ofBool (AP.isBetterThan m x t) := by
  unfold betterTree
  rw [eval_modeChain _ _ (modeIdx m) (by cases m <;> decide) (valBetter_mode m x t)]
  rw [eval_tBetter m cThr true _ _ x t (by cases m <;> rfl) (by simp) (by cases m <;> rfl) (by cases m <;> rfl)
    (by cases m <;> rfl)]
  rw [isBetterThan_eq]
  by_cases h : AP.thrValid m t = true <;> simp [h, ofBool, errCode_assert, eval_leaf, eAssert]


/-! ## `is_label_correct`, `is_result_correct`, `get_status` against the metrics model (`PEval.AP`) -/

theorem valAP_mode (m : AP.Mode) (thr : Option Rat) (r : AP.Res) (j : Nat) (hj : j < 4) :
    (valAP m thr r).b (aMode j) = (j == modeIdx m) := by
  have : j = 0 ∨ j = 1 ∨ j = 2 ∨ j = 3 := by omega
  rcases this with rfl | rfl | rfl | rfl <;> cases m <;> rfl

def scoreOpt : AP.Score → Option Rat
  | .val v => v
  | .noMethod => none

/-- continue on the returned Boolean, stop with the assertion's code otherwise -/
def bindB (x : Except Err Bool) (f : Bool → DT.Res) : DT.Res :=
  match x with
  | .ok b => f b
  | .error e => .raise (errCode e)

theorem eval_tResultCorrectBody_AP (m : AP.Mode) (thr : Option Rat) (r : AP.Res) (g : AP.Gt) (hg : r.gt = some g)
    (kk : Bool → DTree) :
    eval (tResultCorrectBody (modeIdx m) kk) (valAP m thr r) =
      bindB (AP.isResultCorrect m thr r) fun b => eval (kk b) (valAP m thr r) := by
  have h2 : (valAP m thr r).b aMatchable = AP.isLabelCorrect r := rfl
  have h3 : (valAP m thr r).b aThrNone = thr.isNone := rfl
  have h1 : (valAP m thr r).b aGtFp = (g.label == AP.fpLabel) := by
    show (match r.gt with | some g => g.label == AP.fpLabel | none => false) = _
    rw [hg]
  have h8 : (valAP m thr r).b (aMNone (modeIdx m)) = (r.score == .noMethod) := by cases m <;> rfl
  unfold tResultCorrectBody AP.isResultCorrect
  rw [hg]
  simp only [eval_askB, eval_ite, h2, h3, h8]
  cases thr with
  | none => simp [bindB]
  | some t =>
    cases hs : r.score with
    | noMethod => simp [bindB]
    | val x =>
      have hne : (AP.Score.val x == AP.Score.noMethod) = false := by cases x <;> rfl
      simp only [Option.isNone_some, Bool.false_eq_true, if_false, hne]
      rw [eval_tBetter m cThr true _ _ x t (by cases m <;> simp [valAP, hs, aVNone, aGtNone, aGtFp, aMatchable, aThrNone, aMode, aMNone, modeIdx] <;> cases x <;> rfl)
        (by simp) (by cases m <;> cases x <;> simp [valAP, valCmp, hs, cThr, modeIdx, scoreValue])
        (by cases m <;> simp [valAP, valCmp, cThr, modeIdx]) (by cases m <;> simp [valAP, valCmp, cThr, modeIdx])]
      rw [isBetterThan_eq]
      by_cases hv : AP.thrValid m t = true
      · simp only [hv, if_true, bindB, eval_askB, eval_ite, h1, h2]
        cases (g.label == AP.fpLabel) <;> cases optBetter m x t <;> simp
      · simp [hv, bindB, errCode_assert, eAssert]

theorem resultCorrect_bridge_AP (m : AP.Mode) (thr : Option Rat) (r : AP.Res) :
    eval resultCorrectTree (valAP m thr r) = ofBool (AP.isResultCorrect m thr r) := by
  unfold resultCorrectTree
  rw [eval_modeChain _ _ (modeIdx m) (by cases m <;> decide) (valAP_mode m thr r)]
  unfold tResultCorrect
  have h0 : (valAP m thr r).b aGtNone = r.gt.isNone := rfl
  rw [eval_askB, h0]
  cases hg : r.gt with
  | none => simp [AP.isResultCorrect, hg, ofBool, eval_leaf]
  | some g =>
    simp only [Option.isNone_some, Bool.false_eq_true, if_false]
    rw [eval_tResultCorrectBody_AP m thr r g hg]
    cases AP.isResultCorrect m thr r <;> rfl

theorem labelCorrect_bridge_AP (m : AP.Mode) (thr : Option Rat) (r : AP.Res) :
    eval labelCorrectTree (valAP m thr r) = .ret (AP.isLabelCorrect r) := by
  have h0 : (valAP m thr r).b aGtNone = r.gt.isNone := rfl
  have h2 : (valAP m thr r).b aMatchable = AP.isLabelCorrect r := rfl
  unfold labelCorrectTree tLabelCorrect
  simp only [eval_askB, eval_ite, eval_leaf, h0, h2]
  cases hg : r.gt with
  | none => simp [AP.isLabelCorrect, hg]
  | some g => simp

theorem status_bridge_AP (m : AP.Mode) (thr : Option Rat) (r : AP.Res) :
    eval statusTree (valAP m thr r) = ofStatusAP (AP.getStatus m thr r) := by
  unfold statusTree
  rw [eval_modeChain _ _ (modeIdx m) (by cases m <;> decide) (valAP_mode m thr r)]
  unfold tStatus
  have h0 : (valAP m thr r).b aGtNone = r.gt.isNone := rfl
  rw [eval_askB, h0]
  cases hg : r.gt with
  | none => simp [AP.getStatus, hg, ofStatusAP, statusCodeAP, eval_leaf]
  | some g =>
    have h1 : (valAP m thr r).b aGtFp = (g.label == AP.fpLabel) := by
      show (match r.gt with | some g => g.label == AP.fpLabel | none => false) = _
      rw [hg]
    simp only [Option.isNone_some, Bool.false_eq_true, if_false]
    rw [eval_tResultCorrectBody_AP m thr r g hg]
    unfold AP.getStatus
    rw [hg]
    cases hc : AP.isResultCorrect m thr r with
    | error e => simp [bindB, ofStatusAP]
    | ok b =>
      simp only [bindB, eval_askB, eval_leaf, h1]
      cases b <;> cases (g.label == AP.fpLabel) <;> simp [ofStatusAP, statusCodeAP]


/-! ## against the pass/fail model (`PEval.PassFail`: plane distance, method present) -/

theorem valPF_mode (r : PassFail.Res) (j : Nat) (hj : j < 4) : (valPF r).b (aMode j) = (j == 1) := by
  have : j = 0 ∨ j = 1 ∨ j = 2 ∨ j = 3 := by omega
  rcases this with rfl | rfl | rfl | rfl <;> rfl

theorem pf_isBetterThan (x : Option Rat) (t : Rat) : PassFail.isBetterThan x t = optBetter .planeDistance x t := by
  cases x <;> simp [PassFail.isBetterThan, optBetter, AP.isBetter, AP.Mode.isDistance]

theorem eval_tResultCorrectBody_PF (r : PassFail.Res) (g : PassFail.GT) (hg : r.gt = some g) (kk : Bool → DTree) :
    eval (tResultCorrectBody 1 kk) (valPF r) = eval (kk (PassFail.isResultCorrect r)) (valPF r) := by
  have h2 : (valPF r).b aMatchable = r.labelOk := rfl
  have h3 : (valPF r).b aThrNone = r.thr.isNone := rfl
  have h1 : (valPF r).b aGtFp = g.isFP := by
    show (match r.gt with | some g => g.isFP | none => false) = _
    rw [hg]
  have h8 : (valPF r).b (aMNone 1) = false := rfl
  unfold tResultCorrectBody PassFail.isResultCorrect
  rw [hg]
  simp only [eval_askB, eval_ite, h2, h3, h8]
  cases ht : r.thr with
  | none => simp
  | some t =>
    simp only [Option.isNone_some, Bool.false_eq_true, if_false]
    have := eval_tBetter .planeDistance cThr true (fun b => askB aGtFp fun fp => if fp = true then kk (!b) else
        if b = true then askB aMatchable fun m => kk m else kk false) (valPF r) r.score t rfl (by simp)
      (by simp [valPF, valCmp, cThr, modeIdx, ht]) (by simp [valPF, valCmp, cThr, ht]) (by simp [valPF, valCmp, cThr, ht])
    rw [show modeIdx .planeDistance = 1 from rfl] at this
    rw [this, isBetterThan_eq]
    simp only [AP.thrValid, AP.Mode.isDistance, if_true, eval_askB, eval_ite, h1, h2, pf_isBetterThan]
    cases g.isFP <;> cases optBetter .planeDistance r.score t <;> simp

theorem resultCorrect_bridge_PF (r : PassFail.Res) :
    eval resultCorrectTree (valPF r) = .ret (PassFail.isResultCorrect r) := by
  unfold resultCorrectTree
  rw [eval_modeChain _ _ 1 (by decide) (valPF_mode r)]
  unfold tResultCorrect
  have h0 : (valPF r).b aGtNone = r.gt.isNone := rfl
  rw [eval_askB, h0]
  cases hg : r.gt with
  | none => simp [PassFail.isResultCorrect, hg, eval_leaf]
  | some g =>
    simp only [Option.isNone_some, Bool.false_eq_true, if_false]
    rw [eval_tResultCorrectBody_PF r g hg]; rfl

theorem status_bridge_PF (r : PassFail.Res) :
    eval statusTree (valPF r) = .other (statusCodePF (PassFail.getStatus r)) := by
  unfold statusTree
  rw [eval_modeChain _ _ 1 (by decide) (valPF_mode r)]
  unfold tStatus
  have h0 : (valPF r).b aGtNone = r.gt.isNone := rfl
  rw [eval_askB, h0]
  cases hg : r.gt with
  | none => simp [PassFail.getStatus, hg, statusCodePF, eval_leaf]
  | some g =>
    have h1 : (valPF r).b aGtFp = g.isFP := by
      show (match r.gt with | some g => g.isFP | none => false) = _
      rw [hg]
    simp only [Option.isNone_some, Bool.false_eq_true, if_false]
    rw [eval_tResultCorrectBody_PF r g hg]
    unfold PassFail.getStatus
    rw [hg]
    simp only [eval_askB, eval_leaf, h1]
    cases PassFail.isResultCorrect r <;> cases g.isFP <;> simp [statusCodePF]

/-! ## against the matcher's model (`PEval.Matching`) -/

theorem matching_isBetterThan (m : Matching.Mode) (v t : Rat) :
    Matching.isBetterThan m v t = AP.isBetterThan (toAP m) (some v) t := by
  rw [isBetterThan_eq]
  cases m <;> simp [Matching.isBetterThan, Matching.Mode.maximize, Matching.better, toAP, AP.thrValid, AP.Mode.isDistance,
    optBetter, AP.isBetter]

theorem better_bridge_M (m : Matching.Mode) (v t : Rat) :
    eval betterTree (valBetter (toAP m) (some v) t) = ofBool (Matching.isBetterThan m v t) := by
  rw [matching_isBetterThan, better_bridge]

theorem valCell_mode (c : Matching.Cfg) (e g : Matching.Obj) (v : Rat) (rd : Option Rat) (j : Nat) (hj : j < 4) :
    (valCell c e g v rd).b (aMode j) = (j == modeIdx (toAP c.mode)) := by
  have : j = 0 ∨ j = 1 ∨ j = 2 ∨ j = 3 := by omega
  rcases this with rfl | rfl | rfl | rfl <;> cases hm : c.mode <;> simp [valCell, modeIdxM, hm, toAP, modeIdx, aMode,
    aSameFrame, aRadiusNone, aMatchable]

theorem cell_bridge (c : Matching.Cfg) (e g : Matching.Obj) (v : Rat) (rd : Option Rat)
    (hr : Matching.labelThreshold c.targets c.thresholds g.label = .ok rd) :
    eval cellTree (valCell c e g v rd) = ofCell (Matching.cell c e g v) := by
  unfold cellTree
  rw [eval_modeChain _ _ (modeIdx (toAP c.mode)) (by cases c.mode <;> decide) (valCell_mode c e g v rd)]
  have h1 : (valCell c e g v rd).b aSameFrame = (e.frame == g.frame) := rfl
  have h2 : (valCell c e g v rd).b aRadiusNone = rd.isNone := rfl
  have h3 : (valCell c e g v rd).b aMatchable = Matching.isMatchable c.policy e g := rfl
  unfold tCell Matching.cell
  simp only [eval_askB, eval_ite, h1, h2, h3, hr]
  cases hf : (e.frame == g.frame) with
  | false => simp [ofCell, Matching.Cell.nan, eval_leaf, pure, Except.pure]
  | true =>
    cases rd with
    | none =>
      simp only [Bool.not_true, Bool.false_eq_true, if_false, Option.isNone_none, if_true, eval_leaf]
      cases Matching.isMatchable c.policy e g <;> simp [ofCell, bind, Except.bind, pure, Except.pure]
    | some t =>
      simp only [Bool.not_true, Bool.false_eq_true, if_false, Option.isNone_some]
      rw [eval_tBetter (toAP c.mode) cRadius false _ _ (some v) t
        (by cases hm : c.mode <;> simp [valCell, modeIdxM, hm, toAP, modeIdx, aMode, aVNone, aSameFrame, aRadiusNone, aMatchable])
        (by simp)
        (by cases hm : c.mode <;> simp [valCell, valCmp, modeIdxM, hm, toAP, modeIdx, cRadius])
        (by cases hm : c.mode <;> simp [valCell, valCmp, modeIdxM, hm, toAP, modeIdx, cRadius])
        (by cases hm : c.mode <;> simp [valCell, valCmp, modeIdxM, hm, toAP, modeIdx, cRadius])]
      rw [← matching_isBetterThan]
      cases hb : Matching.isBetterThan c.mode v t with
      | error err =>
        have : err = "AssertionError" := by
          rw [matching_isBetterThan, isBetterThan_eq] at hb
          split at hb <;> simp at hb
          exact hb.symm
        subst this
        simp [hb, ofCell, bind, Except.bind, errCode_assert, eAssert]
      | ok b =>
        cases b
        · simp [hb, ofCell, bind, Except.bind, pure, Except.pure, Matching.Cell.nan, eval_leaf]
        · simp only [if_true, eval_askB, eval_leaf, h3]
          cases Matching.isMatchable c.policy e g <;> simp [hb, ofCell, bind, Except.bind, pure, Except.pure]

/-! ## the valuations of the other in-quantifier inputs avoid `forbIoU` -/

theorem thrOk_none (m : AP.Mode) : thrOk m none := fun _ h => by cases h
theorem thrOk_some {m : AP.Mode} {t : Rat} (h : AP.thrValid m t = true) : thrOk m (some t) :=
  fun t' h' => by cases h'; exact h
theorem thrOk_distance {m : AP.Mode} (hm : m.isDistance = true) (thr : Option Rat) : thrOk m thr :=
  fun t _ => by simp [AP.thrValid, hm]

/-- `is_result_correct(m, thr)` / `get_status(m, thr)`: no threshold, or one on the mode's scale -/
theorem valAP_consistent (m : AP.Mode) (thr : Option Rat) (r : AP.Res) (hv : thrOk m thr) :
    consistent forbIoU (valAP m thr r) = true := by
  apply forbIoU_consistent
  intro k hk hm
  have h4 : (valAP m thr r).c (cThr + 4) = cmpR 0 (thr.getD 0) := by cases m <;> rfl
  have h5 : (valAP m thr r).c (cThr + 5) = cmpR 1 (thr.getD 0) := by cases m <;> rfl
  have h10 : (valAP m thr r).c (cRadius + 4) = .eq := by cases m <;> rfl
  have h11 : (valAP m thr r).c (cRadius + 5) = .eq := by cases m <;> rfl
  rw [h4, h5, h10, h11]
  have hd : m.isDistance = false := by
    have := valAP_mode m thr r k (by rcases hk with rfl | rfl <;> decide)
    rw [hm] at this
    rcases hk with rfl | rfl <;> cases m <;> first | rfl | exact absurd this (by decide)
  have hr : 0 ≤ thr.getD 0 ∧ thr.getD 0 ≤ 1 := by
    cases thr with
    | none => exact ⟨by decide, by decide⟩
    | some t =>
      have := hv t rfl
      simpa [AP.thrValid, hd] using this
  exact ⟨cmpR_ne_gt hr.1, cmpR_ne_lt hr.2, by decide, by decide⟩

/-- the pass/fail model's results (plane distance): every threshold is on the scale -/
theorem valPF_consistent (r : PassFail.Res) : consistent forbIoU (valPF r) = true := by
  apply forbIoU_consistent
  intro k hk hm
  have := valPF_mode r k (by rcases hk with rfl | rfl <;> decide)
  rw [hm] at this
  rcases hk with rfl | rfl <;> exact absurd this (by decide)

/-- one score-table cell: no radius for the ground truth's label, or one on the mode's scale -/
theorem valCell_consistent (c : Matching.Cfg) (e g : Matching.Obj) (v : Rat) (rd : Option Rat) (hv : thrOk (toAP c.mode) rd) :
    consistent forbIoU (valCell c e g v rd) = true := by
  apply forbIoU_consistent
  intro k hk hm
  have h4 : (valCell c e g v rd).c (cThr + 4) = .eq := by cases hm' : c.mode <;> simp [valCell, valCmp, modeIdxM, hm', toAP, modeIdx, cRadius, cThr]
  have h5 : (valCell c e g v rd).c (cThr + 5) = .eq := by cases hm' : c.mode <;> simp [valCell, valCmp, modeIdxM, hm', toAP, modeIdx, cRadius, cThr]
  have h10 : (valCell c e g v rd).c (cRadius + 4) = cmpR 0 (rd.getD 0) := by cases hm' : c.mode <;> simp [valCell, valCmp, modeIdxM, hm', toAP, modeIdx, cRadius]
  have h11 : (valCell c e g v rd).c (cRadius + 5) = cmpR 1 (rd.getD 0) := by cases hm' : c.mode <;> simp [valCell, valCmp, modeIdxM, hm', toAP, modeIdx, cRadius]
  rw [h4, h5, h10, h11]
  have hd : (toAP c.mode).isDistance = false := by
    have := valCell_mode c e g v rd k (by rcases hk with rfl | rfl <;> decide)
    rw [hm] at this
    rcases hk with rfl | rfl <;> cases hm' : c.mode <;> rw [hm'] at this <;> first | rfl | exact absurd this (by decide)
  have hr : 0 ≤ rd.getD 0 ∧ rd.getD 0 ≤ 1 := by
    cases rd with
    | none => exact ⟨by decide, by decide⟩
    | some t =>
      have := hv t rfl
      simpa [AP.thrValid, hd] using this
  exact ⟨by decide, by decide, cmpR_ne_gt hr.1, cmpR_ne_lt hr.2⟩

end PEval.MatchKernels
