import PEval.Lemmas.MatchingTable
import PEval.Model.MatchDispatch
/-!
The member-level (family-carrying) label rules of `MatchDispatch` coincide with the value-level rules of `Matching`
whenever the objects and target labels of a call belong to one label family (audit C01 finding 8).
-/
namespace PEval.MatchDispatch
open PEval PEval.Matching

theorem sameMember_of_same_family {e g : ObjX} (h : e.tl = g.tl) : sameMember e g = (e.label == g.label) := by
  simp [sameMember, h]

theorem isMatchableF_of_same_family {p : Policy} {e g : ObjX} (h : e.tl = g.tl) :
    isMatchableF p e g = isMatchable p (toObj e) (toObj g) := by
  unfold isMatchableF isMatchable
  simp [sameMember_of_same_family h, toObj]

theorem findIdx?_map_congr {α β} (l : List α) (f : α → β) (p : α → Bool) (q : β → Bool)
    (h : ∀ t ∈ l, p t = q (f t)) : l.findIdx? p = (l.map f).findIdx? q := by
  induction l with
  | nil => rfl
  | cons a l ih =>
    rw [List.map_cons, List.findIdx?_cons, List.findIdx?_cons, h a (by simp),
      ih (fun t ht => h t (List.mem_cons_of_mem _ ht))]

theorem labelThresholdF_of_same_family {ts : List (Bool × String)} {th : Option (List Rat)} {g : ObjX}
    (h : ∀ t ∈ ts, t.1 = g.tl) :
    labelThresholdF (some ts) th g = labelThreshold (some (ts.map (·.2))) th g.label := by
  unfold labelThresholdF labelThreshold
  cases th with
  | none => rfl
  | some H =>
    simp only
    rw [findIdx?_map_congr ts (·.2) (fun t => t.1 == g.tl && t.2 == g.label) (· == g.label)
      (fun t ht => by simp [h t ht])]
    rfl

theorem labelThresholdF_none {th : Option (List Rat)} {g : ObjX} :
    labelThresholdF none th g = labelThreshold none th g.label := rfl

/-- one family per call: the member-level cell IS the value-level cell -/
theorem cellF_of_same_family {c : Cfg} {tsF : Option (List (Bool × String))} {e g : ObjX} {v : Rat}
    (hts : c.targets = tsF.map (fun l => l.map (·.2))) (hfam : e.tl = g.tl)
    (htf : ∀ l, tsF = some l → ∀ t ∈ l, t.1 = g.tl) :
    cellF c.policy c.mode tsF c.thresholds e g v = cell c (toObj e) (toObj g) v := by
  unfold cellF cell
  have hthr : labelThresholdF tsF c.thresholds g = labelThreshold c.targets c.thresholds (toObj g).label := by
    cases tsF with
    | none => simp [hts, labelThresholdF_none, toObj]
    | some l =>
      rw [labelThresholdF_of_same_family (htf l rfl), hts]
      rfl
  simp only [hthr, isMatchableF_of_same_family hfam]
  rfl

end PEval.MatchDispatch
