import PEval.Lemmas.APClassify
import PEval.Model.APVariants
/-!
Lemmas about the AP model, part 6: from RESULTS to the ranking's shape.

* `classify` in terms of `isCorrectAt` (TP iff counted correct; weight `tpValue` or 0);
* `isCorrectAt` for the per-label call of `Map` spelled out in the property's words (`isCorrectAt_iff`);
* the stable descending sort puts every element of a class `P` before every other element exactly when the INPUT
  order satisfies `RankOK` pairwise (`sortDesc_split`): no non-`P` element has a larger key than a `P` element, and
  among equal keys no non-`P` element stands before a `P` element;
* counting: if every ground truth of a duplicate-free list is the ground truth of a correct result and no ground
  truth is used twice, the number of correct results is the number of ground truths (`correct_count_eq`);
* `apW` on `G` full weights followed by zeros is 1; on no ground truth it is 0.
-/

namespace PEval.AP

/-! ### `classify` and `isCorrectAt` -/

theorem classify_isTp {tm : TpMetric} {m : Mode} {T : List Label} {th : List Rat} {r : Res} {k : Kind}
    (h : classify tm m T th r = .ok k) :
    k.isTp = isCorrectAt m T th r ∧ k.tpw = if isCorrectAt m T th r = true then tpValue tm r else 0 := by
  unfold classify at h
  unfold isCorrectAt
  cases hg : getLabelThreshold (keyLabel r) T (some th) with
  | error e => simp [hg] at h
  | ok o =>
    cases o with
    | none => simp only [hg, Except.ok.injEq] at h; subst h; simp [Kind.isTp, Kind.tpw]
    | some t =>
      cases hc : isResultCorrect m (some t) r with
      | error e => simp [hg, hc] at h
      | ok b =>
        cases b
        · simp only [hg, hc, Except.ok.injEq] at h; subst h; simp [Kind.isTp, Kind.tpw, hc]
        · simp only [hg, hc, Except.ok.injEq] at h; subst h; simp [Kind.isTp, Kind.tpw, hc]

theorem classifyAll_tpw {tm : TpMetric} {m : Mode} {T : List Label} {th : List Rat} {L : List Res}
    {ks : List Kind} (h : classifyAll tm m T th L = .ok ks) :
    ks.map Kind.tpw = L.map (fun r => if isCorrectAt m T th r = true then tpValue tm r else 0) := by
  induction L generalizing ks with
  | nil => simp only [classifyAll, Except.ok.injEq] at h; subst h; rfl
  | cons r t ih =>
    obtain ⟨k, ks0, hk, hks, rfl⟩ := classifyAll_cons_ok h
    simp only [List.map_cons, ih hks, (classify_isTp hk).2]

/-- the threshold `Map`'s per-label call finds: `t` when the key label is `L`, none otherwise -/
theorem getLabelThreshold_singleton (l L : Label) (t : Rat) :
    getLabelThreshold l [L] (some [t]) = .ok (if l = L then some t else none) := by
  by_cases h : l = L
  · subst h; simp [getLabelThreshold, List.findIdx?_cons]
  · have hne : (L == l) = false := by simpa using fun e : L = l => h e.symm
    simp [getLabelThreshold, List.findIdx?_cons, hne, h]

/-- "counted correct" by the per-label evaluation (`target_labels = [L]`, `L` an ordinary label), in the property's
words: the result has a ground truth of label `L`, is label-compatible under its policy, and its matching score beats
the label's threshold (a result without matching method is judged by its label alone) -/
theorem isCorrectAt_iff (m : Mode) (L : Label) (t : Rat) (r : Res) (hL : L ≠ fpLabel) :
    isCorrectAt m [L] [t] r = true ↔
      ∃ g, r.gt = some g ∧ g.label = L ∧ isLabelCorrect r = true ∧
        (r.score = .noMethod ∨
          ∃ v, r.score = .val (some v) ∧ thrValid m t = true ∧ isBetter m v t = true) := by
  unfold isCorrectAt
  rw [getLabelThreshold_singleton]
  cases hg : r.gt with
  | none =>
    simp only [keyLabel, hg]
    constructor
    · intro h
      split at h
      · simp [isResultCorrect, hg] at h
      · cases h
    · rintro ⟨g, hg', _⟩; cases hg'
  | some g =>
    simp only [keyLabel, hg]
    by_cases hl : g.label = L
    · have hfp : (g.label == fpLabel) = false := by
        simp only [beq_eq_false_iff_ne, ne_eq, hl]; exact hL
      simp only [hl, if_true]
      unfold isResultCorrect
      simp only [hg]
      cases hs : r.score with
      | noMethod =>
        constructor
        · intro h; exact ⟨g, rfl, hl, h, Or.inl rfl⟩
        · rintro ⟨g', hg', _, h, _⟩; exact h
      | val v =>
        simp only []
        unfold isBetterThan
        by_cases hv : thrValid m t = true
        · simp only [hv, if_true, hfp, Bool.false_eq_true, if_false]
          cases v with
          | none =>
            simp only [Bool.false_and, Bool.false_eq_true, false_iff]
            rintro ⟨g', _, _, _, h | ⟨v, h, _⟩⟩ <;> cases h
          | some x =>
            simp only [Bool.and_eq_true]
            constructor
            · rintro ⟨h1, h2⟩
              exact ⟨g, rfl, hl, h2, Or.inr ⟨x, rfl, trivial, h1⟩⟩
            · rintro ⟨g', _, _, h2, h | ⟨v, h, _, h1⟩⟩
              · cases h
              · cases h; exact ⟨h1, h2⟩
        · simp only [hv, Bool.false_eq_true, if_false, false_iff]
          rintro ⟨g', _, _, _, h | ⟨v, _, h, _⟩⟩
          · cases h
          · exact h
    · simp only [hl, if_false, Bool.false_eq_true, false_iff]
      rintro ⟨g', hg', hl', _⟩
      cases hg'
      exact hl hl'

/-- a result counted correct has a ground truth (any target list) -/
theorem isCorrectAt_gt_some {m : Mode} {T : List Label} {th : List Rat} {r : Res}
    (h : isCorrectAt m T th r = true) : ∃ g, r.gt = some g := by
  cases hg : r.gt with
  | some g => exact ⟨g, rfl⟩
  | none =>
    exfalso
    unfold isCorrectAt at h
    have hc : ∀ o, isResultCorrect m o r = .ok false := by
      intro o; simp [isResultCorrect, hg]
    split at h
    · rw [hc] at h; cases h
    · cases h

/-- per-label call: a result counted correct has a ground truth of THAT label (also for `L = false_positive`) -/
theorem isCorrectAt_gt_label {m : Mode} {L : Label} {t : Rat} {r : Res}
    (h : isCorrectAt m [L] [t] r = true) : ∃ g, r.gt = some g ∧ g.label = L := by
  obtain ⟨g, hg⟩ := isCorrectAt_gt_some h
  refine ⟨g, hg, ?_⟩
  unfold isCorrectAt at h
  rw [getLabelThreshold_singleton] at h
  simp only [keyLabel, hg] at h
  by_cases hl : g.label = L
  · exact hl
  · simp [hl] at h

/-- the heading weight of a result counted correct is its `hw` -/
theorem tpValue_aph_of_correct {m : Mode} {T : List Label} {th : List Rat} {r : Res}
    (h : isCorrectAt m T th r = true) : tpValue .aph r = r.hw := by
  obtain ⟨g, hg⟩ := isCorrectAt_gt_some h
  simp [tpValue, hg]

/-! ### the stable sort and a two-class input -/

section Split
variable {α : Type} (key : α → Rat) (P : α → Bool)

/-- `a` stands BEFORE `b` in the input. The sort will not put a non-`P` element before a `P` element iff: a `P`
element in front is not out-keyed by a later non-`P` element (ties keep the input order), and a non-`P` element in
front has a strictly smaller key than every later `P` element (a tie would keep it in front) -/
def RankOK (a b : α) : Prop :=
  (P a = true → P b = false → key b ≤ key a) ∧ (P a = false → P b = true → key a < key b)

instance (a b : α) : Decidable (RankOK key P a b) := by unfold RankOK; infer_instance

theorem insertDesc_split (x : α) {S : List α} (hs : S.Pairwise (fun a b => key b ≤ key a))
    (hq : S.Pairwise (fun a b => P b = true → P a = true)) (hx : ∀ y ∈ S, RankOK key P x y) :
    (insertDesc key x S).Pairwise (fun a b => P b = true → P a = true) := by
  induction S with
  | nil => simp [insertDesc]
  | cons y ys ih =>
    rw [List.pairwise_cons] at hs hq
    unfold insertDesc
    split
    · next hlt =>
      rw [List.pairwise_cons]
      refine ⟨?_, ih hs.2 hq.2 (fun z hz => hx z (List.mem_cons_of_mem _ hz))⟩
      intro z hz hPz
      rcases List.mem_cons.1 ((insertDesc_perm key x ys).mem_iff.1 hz) with hzx | hz'
      · subst hzx
        cases hPy : P y with
        | true => rfl
        | false =>
          exfalso
          have := (hx y List.mem_cons_self).1 hPz hPy
          exact absurd hlt (not_lt.2 this)
      · exact hq.1 z hz' hPz
    · next hge =>
      have hyx : key y ≤ key x := not_lt.1 hge
      rw [List.pairwise_cons]
      refine ⟨?_, List.pairwise_cons.2 hq⟩
      intro z hz hPz
      cases hPx : P x with
      | true => rfl
      | false =>
        exfalso
        have h1 := (hx z hz).2 hPx hPz
        have h2 : key z ≤ key y := by
          rcases List.mem_cons.1 hz with hzy | hz'
          · rw [hzy]
          · exact hs.1 z hz'
        linarith

/-- input order `RankOK` pairwise ⇒ in the ranking every `P` element precedes every non-`P` element -/
theorem sortDesc_split {l : List α} (h : l.Pairwise (RankOK key P)) :
    (sortDesc key l).Pairwise (fun a b => P b = true → P a = true) := by
  induction l with
  | nil => exact List.Pairwise.nil
  | cons x xs ih =>
    rw [List.pairwise_cons] at h
    exact insertDesc_split key P x (sortDesc_sorted key xs) (ih h.2)
      (fun y hy => h.1 y ((sortDesc_perm key xs).mem_iff.1 hy))

/-- the simple sufficient condition: every non-`P` element has a strictly smaller key than every `P` element -/
theorem rankOK_of_strict {l : List α}
    (h : ∀ a ∈ l, ∀ b ∈ l, P a = true → P b = false → key b < key a) : l.Pairwise (RankOK key P) := by
  apply List.pairwise_of_forall_mem_list
  intro a ha b hb
  exact ⟨fun h1 h2 => le_of_lt (h a ha b hb h1 h2), fun h1 h2 => h b hb a ha h2 h1⟩

/-- weights along a list whose `P` elements come first: the `P` weights, then zeros -/
theorem map_weights_of_split (w : α → Rat) {l : List α}
    (h : l.Pairwise (fun a b => P b = true → P a = true)) :
    l.map (fun a => if P a = true then w a else 0)
      = (l.filter P).map w ++ List.replicate (l.filter (fun a => !P a)).length 0 := by
  induction l with
  | nil => rfl
  | cons a t ih =>
    rw [List.pairwise_cons] at h
    cases hPa : P a with
    | true =>
      simp only [List.map_cons, hPa, if_true, List.filter_cons, Bool.not_true, Bool.false_eq_true,
        if_false, List.cons_append, ih h.2]
    | false =>
      have hall : ∀ b ∈ t, P b = false := by
        intro b hb
        cases hPb : P b with
        | false => rfl
        | true => rw [h.1 b hb hPb] at hPa; cases hPa
      have hnil : t.filter P = [] := List.filter_eq_nil_iff.2 (fun b hb => by simp [hall b hb])
      have hself : t.filter (fun a => !P a) = t := List.filter_eq_self.2 (fun b hb => by simp [hall b hb])
      have := ih h.2
      rw [hnil, hself] at this
      simp only [List.map_cons, hPa, Bool.false_eq_true, if_false, List.filter_cons, Bool.not_false,
        if_true, hnil, hself, List.map_nil, List.nil_append, List.length_cons, List.replicate_succ, this]

theorem sortDesc_filter_perm (l : List α) : ((sortDesc key l).filter P).Perm (l.filter P) :=
  (sortDesc_perm key l).filter P

end Split

/-! ### counting the correct results -/

theorem length_filterMap_of_isSome {α β : Type} (f : α → Option β) {l : List α}
    (h : ∀ a ∈ l, (f a).isSome = true) : (l.filterMap f).length = l.length := by
  induction l with
  | nil => rfl
  | cons a t ih =>
    have ha := h a List.mem_cons_self
    cases hf : f a with
    | none => rw [hf] at ha; cases ha
    | some b =>
      simp only [List.filterMap_cons, hf, List.length_cons,
        ih (fun x hx => h x (List.mem_cons_of_mem _ hx))]

/-- every ground truth of the duplicate-free list `gts` is the ground truth of a `P` result, the ground truth of a `P`
result is one of `gts`, no ground truth is used twice ⇒ #`P` results = #`gts` -/
theorem correct_count_eq {rs : List Res} {gts : List Gt} (P : Res → Bool) (hgn : gts.Nodup)
    (hnd : (rs.filterMap (·.gt)).Nodup)
    (hP : ∀ r ∈ rs, P r = true → ∃ g ∈ gts, r.gt = some g)
    (hall : ∀ g ∈ gts, ∃ r ∈ rs, r.gt = some g ∧ P r = true) :
    (rs.filter P).length = gts.length := by
  have hlen : ((rs.filter P).filterMap (·.gt)).length = (rs.filter P).length := by
    apply length_filterMap_of_isSome
    intro r hr
    obtain ⟨hr1, hr2⟩ := List.mem_filter.1 hr
    obtain ⟨g, _, hg⟩ := hP r hr1 hr2
    rw [hg]; rfl
  have hnd' : ((rs.filter P).filterMap (·.gt)).Nodup := hnd.sublist ((List.filter_sublist).filterMap _)
  have hperm : ((rs.filter P).filterMap (·.gt)).Perm gts := by
    rw [List.perm_ext_iff_of_nodup hnd' hgn]
    intro g
    constructor
    · intro hg
      obtain ⟨r, hr, hrg⟩ := List.mem_filterMap.1 hg
      obtain ⟨hr1, hr2⟩ := List.mem_filter.1 hr
      obtain ⟨g', hg', hrg'⟩ := hP r hr1 hr2
      rw [hrg'] at hrg
      cases hrg
      exact hg'
    · intro hg
      obtain ⟨r, hr, hrg, hPr⟩ := hall g hg
      exact List.mem_filterMap.2 ⟨r, List.mem_filter.2 ⟨hr, hPr⟩, hrg⟩
  rw [← hlen, hperm.length_eq]

/-! ### the value on the two extreme rankings -/

theorem recallOf_zero_gt (w : Rat) : recallOf 0 w = 0 := by simp [recallOf]

/-- no ground truth: every recall is `0.0` (the code's own branch), the area is 0 -/
theorem apW_no_gt (i : Nat) (c : Rat) (ws : List Rat) : apW 0 i c ws = 0 := by
  induction ws generalizing i c with
  | nil => rfl
  | cons w t ih => simp only [apW, recallOf_zero_gt, zero_mul, zero_add, ih]

/-- `G ≥ 1` weight-1 entries followed by zeros: area 1 -/
theorem apW_perfect (G : Nat) (hG : 0 < G) (k : Nat) :
    apW G 0 0 (List.replicate G 1 ++ List.replicate k 0) = 1 := by
  have hGq : (0 : Rat) < (G : Rat) := by exact_mod_cast hG
  have hz : ∀ z ∈ List.replicate k (0 : Rat), z = 0 := fun z hz => (List.mem_replicate.1 hz).2
  apply le_antisymm
  · have hsum : (List.replicate G (1 : Rat) ++ List.replicate k 0).sum = (G : Rat) := by
      rw [List.sum_append, sum_zero hz, sum_replicate_one]
      ring
    have h1 := apW_le_recall_total G (i := 0) (c := 0) (ws := List.replicate G 1 ++ List.replicate k 0)
      (le_refl 0) (by simp) (by
        intro w hw
        rcases List.mem_append.1 hw with h | h
        · rw [(List.mem_replicate.1 h).2]; exact ⟨zero_le_one, le_refl 1⟩
        · rw [hz w h]; exact ⟨le_refl 0, zero_le_one⟩)
    rw [hsum] at h1
    exact le_trans h1 (recallOf_le_one G (le_refl _))
  · have h2 := apW_perfect_ge G hG G (i := 0) (zs := List.replicate k 0)
      (fun z hz' => by rw [hz z hz'])
    simp only [Nat.cast_zero] at h2
    rwa [div_self (ne_of_gt hGq)] at h2

theorem sum_append_zeros (ws : List Rat) (k : Nat) : (ws ++ List.replicate k 0).sum = ws.sum := by
  rw [List.sum_append, sum_zero (fun z hz => (List.mem_replicate.1 hz).2)]
  ring

theorem sum_le_length {ws : List Rat} (h : ∀ w ∈ ws, w ≤ 1) : ws.sum ≤ (ws.length : Rat) := by
  induction ws with
  | nil => simp
  | cons a t ih =>
    have ha := h a List.mem_cons_self
    have ht := ih (fun x hx => h x (List.mem_cons_of_mem _ hx))
    simp only [List.sum_cons, List.length_cons, Nat.cast_succ]
    linarith

/-- a sum of weights `≤ 1` with one weight below 1 is below the count -/
theorem sum_lt_length {ws : List Rat} (h : ∀ w ∈ ws, w ≤ 1) (hlt : ∃ w ∈ ws, w < 1) :
    ws.sum < (ws.length : Rat) := by
  induction ws with
  | nil => obtain ⟨w, hw, _⟩ := hlt; cases hw
  | cons a t ih =>
    have ha := h a List.mem_cons_self
    have ht := sum_le_length (fun x hx => h x (List.mem_cons_of_mem _ hx))
    simp only [List.sum_cons, List.length_cons, Nat.cast_succ]
    obtain ⟨w, hw, hw1⟩ := hlt
    rcases List.mem_cons.1 hw with hwa | hw'
    · rw [hwa] at hw1; linarith
    · have := ih (fun x hx => h x (List.mem_cons_of_mem _ hx)) ⟨w, hw', hw1⟩
      linarith

/-- permutations have equal sums -/
theorem perm_sum_eq {l₁ l₂ : List Rat} (h : l₁.Perm l₂) : l₁.sum = l₂.sum := by
  induction h with
  | nil => rfl
  | cons x _ ih => simp only [List.sum_cons, ih]
  | swap x y l => simp only [List.sum_cons]; ring
  | trans _ _ ih1 ih2 => exact ih1.trans ih2

/-- `is_result_correct` raises only through the IoU modes' assertion on the threshold -/
theorem isResultCorrect_total {m : Mode} {t : Rat} (r : Res) (hv : thrValid m t = true) :
    ∃ b, isResultCorrect m (some t) r = .ok b := by
  unfold isResultCorrect
  cases r.gt with
  | none => exact ⟨_, rfl⟩
  | some g =>
    cases r.score with
    | noMethod => exact ⟨_, rfl⟩
    | val v => simp only [isBetterThan, hv, if_true]; exact ⟨_, rfl⟩

end PEval.AP
