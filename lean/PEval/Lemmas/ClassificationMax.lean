import PEval.Lemmas.ClassificationGeneric
import Batteries.Data.List.Perm
/-!
Optimality of the label stage: no one-to-one same-camera pairing has more equally-labelled pairs than
stage 1 produces.  Class-wise argument: within each (camera, label) class stage 1 exhausts the
estimates or the ground truths, so an injection from the equally-labelled pairs of any competitor into
the stage-1 pairs exists (send a pair to its estimate if the class's estimates are exhausted, to its
ground truth otherwise).
-/
namespace PEval.Classification

/-- a one-to-one, same-camera pairing of some of the estimates with some of the ground truths -/
structure Pairing (ests gts : List Obj) (P : List (Obj × Obj)) : Prop where
  est_mem : ∀ p ∈ P, p.1 ∈ ests
  gt_mem : ∀ p ∈ P, p.2 ∈ gts
  cam : ∀ p ∈ P, p.1.frame = p.2.frame
  est_once : (P.map Prod.fst).Nodup
  gt_once : (P.map Prod.snd).Nodup

/-- the pair agrees in label -/
def equalLabel (p : Obj × Obj) : Bool := decide (p.1.label = p.2.label)

/-- number of equally-labelled pairs -/
def numEqual (P : List (Obj × Obj)) : Nat := P.countP equalLabel

/-- the (estimate, ground truth) pairs of a result list -/
def resPairs (rs : List Res) : List (Obj × Obj) := rs.filterMap fun r => r.gt.map fun g => (r.est, g)

theorem resPairs_paired (ps : List (Obj × Obj)) : resPairs (paired ps) = ps := by
  induction ps with
  | nil => rfl
  | cons p t ih =>
    simp only [resPairs, paired, List.map_cons, List.filterMap_cons, Option.map_some] at *
    rw [ih]

theorem resPairs_append (a b : List Res) : resPairs (a ++ b) = resPairs a ++ resPairs b := by
  simp [resPairs, List.filterMap_append]

theorem resPairs_fp (es : List Obj) : resPairs (fpResults es) = [] := by
  induction es with
  | nil => rfl
  | cons e t ih => simp only [resPairs, fpResults, List.map_cons, List.filterMap_cons, Option.map_none] at *; exact ih

theorem mem_resPairs {rs : List Res} {e g : Obj} : (e, g) ∈ resPairs rs ↔ ({ est := e, gt := some g } : Res) ∈ rs := by
  simp only [resPairs, List.mem_filterMap]
  constructor
  · rintro ⟨r, hr, h⟩
    rcases r with ⟨re, rg⟩
    cases rg with
    | none => simp at h
    | some g' =>
      simp only [Option.map_some, Option.some.injEq, Prod.mk.injEq] at h
      obtain ⟨rfl, rfl⟩ := h
      exact hr
  · intro h
    exact ⟨_, h, by simp⟩

/-- "no unused estimate of class `k` after stage 1" -/
def estExhausted (s1 : St) (k : String × Label) : Bool := s1.es.all fun e => !decide (cls e = k)

/-- the injection's value on a pair -/
def tok (s1 : St) (p : Obj × Obj) : Bool × Obj := if estExhausted s1 (cls p.1) then (true, p.1) else (false, p.2)

theorem pair_eq_of_fst {P : List (Obj × Obj)} (h : (P.map Prod.fst).Nodup) {p q : Obj × Obj}
    (hp : p ∈ P) (hq : q ∈ P) (e : p.1 = q.1) : p = q := List.inj_on_of_nodup_map h hp hq e

theorem pair_eq_of_snd {P : List (Obj × Obj)} (h : (P.map Prod.snd).Nodup) {p q : Obj × Obj}
    (hp : p ∈ P) (hq : q ∈ P) (e : p.2 = q.2) : p = q := List.inj_on_of_nodup_map h hp hq e

/-- the core counting step: equally-labelled pairs of any competitor inject into the stage-1 pairs -/
theorem stage1_dominates {ests gts : List Obj} {s1 : St} {P : List (Obj × Obj)}
    (w : WF ests gts s1)
    (hres : ∀ p ∈ s1.res, cls p.1 = cls p.2)
    (hmax : ∀ e ∈ s1.es, ∀ g ∈ s1.gs, cls e ≠ cls g)
    (hP : Pairing ests gts P) : numEqual P ≤ s1.res.length := by
  let C := P.filter equalLabel
  have hCmem : ∀ p ∈ C, p ∈ P ∧ cls p.1 = cls p.2 := by
    intro p hp
    have := List.mem_filter.1 hp
    refine ⟨this.1, ?_⟩
    have hl : p.1.label = p.2.label := by simpa [equalLabel] using this.2
    simp [cls, hl, hP.cam p this.1]
  have hPnd : P.Nodup := List.Nodup.of_map _ hP.est_once
  have hCnd : C.Nodup := hPnd.filter _
  -- injectivity of `tok` on C
  have hinj : ∀ p ∈ C, ∀ q ∈ C, tok s1 p = tok s1 q → p = q := by
    intro p hp q hq h
    unfold tok at h
    by_cases h1 : estExhausted s1 (cls p.1) = true <;> by_cases h2 : estExhausted s1 (cls q.1) = true
    · simp only [h1, h2, if_true, Prod.mk.injEq, true_and] at h
      exact pair_eq_of_fst hP.est_once (hCmem p hp).1 (hCmem q hq).1 h
    · simp [h1, h2] at h
    · simp [h1, h2] at h
    · simp only [h1, h2, Bool.false_eq_true, if_false, Prod.mk.injEq, true_and] at h
      exact pair_eq_of_snd hP.gt_once (hCmem p hp).1 (hCmem q hq).1 h
  have hnd : (C.map (tok s1)).Nodup := List.Nodup.map_on hinj hCnd
  -- every token of C is a token of a stage-1 pair
  have hsub : C.map (tok s1) ⊆ s1.res.map (tok s1) := by
    intro t ht
    obtain ⟨p, hp, rfl⟩ := List.mem_map.1 ht
    obtain ⟨hpP, hcls⟩ := hCmem p hp
    by_cases hx : estExhausted s1 (cls p.1) = true
    · -- the estimate is used by stage 1
      have hnot : p.1 ∉ s1.es := by
        intro hin
        have := List.all_eq_true.1 hx p.1 hin
        simp at this
      have : p.1 ∈ s1.res.map Prod.fst := by
        rcases (w.mem_es p.1).1 (hP.est_mem p hpP) with h | h
        · exact absurd h hnot
        · exact h
      obtain ⟨q, hq, hq1⟩ := List.mem_map.1 this
      refine List.mem_map.2 ⟨q, hq, ?_⟩
      unfold tok
      rw [hq1, hx]
      simp
    · -- some estimate of the class is unused, so the ground truth must be used
      have hx' : estExhausted s1 (cls p.1) = false := by simpa using hx
      have : ∃ e0 ∈ s1.es, cls e0 = cls p.1 := by
        unfold estExhausted at hx'
        rw [List.all_eq_false] at hx'
        obtain ⟨e0, he0, h0⟩ := hx'
        exact ⟨e0, he0, by simpa using h0⟩
      obtain ⟨e0, he0, hc0⟩ := this
      have hnot : p.2 ∉ s1.gs := fun hin => hmax e0 he0 p.2 hin (hc0.trans hcls)
      have : p.2 ∈ s1.res.map Prod.snd := by
        rcases (w.mem_gs p.2).1 (hP.gt_mem p hpP) with h | h
        · exact absurd h hnot
        · exact h
      obtain ⟨q, hq, hq2⟩ := List.mem_map.1 this
      refine List.mem_map.2 ⟨q, hq, ?_⟩
      have hqc : cls q.1 = cls p.1 := by rw [hres q hq, hq2, hcls]
      unfold tok
      rw [hqc, hx']
      simp [hq2]
  have hle := (List.subperm_of_subset hnd hsub).length_le
  simp only [List.length_map] at hle
  have : numEqual P = C.length := List.countP_eq_length_filter
  omega

/-- class-wise count: in each (camera, label) class stage 1 makes `min(#estimates, #ground truths)` pairs -/
theorem stage1_class_count {ests gts : List Obj} {s1 : St} (w : WF ests gts s1)
    (hres : ∀ p ∈ s1.res, cls p.1 = cls p.2)
    (hmax : ∀ e ∈ s1.es, ∀ g ∈ s1.gs, cls e ≠ cls g) (k : String × Label) :
    s1.res.countP (fun p => decide (cls p.1 = k)) =
      min (ests.countP fun o => decide (cls o = k)) (gts.countP fun o => decide (cls o = k)) := by
  have he := w.es.countP_eq (fun o => decide (cls o = k))
  have hg := w.gs.countP_eq (fun o => decide (cls o = k))
  rw [List.countP_append, List.countP_map] at he hg
  have hsame : s1.res.countP ((fun o => decide (cls o = k)) ∘ Prod.snd) =
      s1.res.countP ((fun o => decide (cls o = k)) ∘ Prod.fst) := by
    apply List.countP_congr
    intro p hp
    simp [Function.comp, hres p hp]
  rw [hsame] at hg
  have hfst : s1.res.countP (fun p => decide (cls p.1 = k)) =
      s1.res.countP ((fun o => decide (cls o = k)) ∘ Prod.fst) := rfl
  rw [hfst]
  have hzero : s1.es.countP (fun o => decide (cls o = k)) = 0 ∨ s1.gs.countP (fun o => decide (cls o = k)) = 0 := by
    by_contra hcon
    have h1 : 0 < s1.es.countP (fun o => decide (cls o = k)) := by omega
    have h2 : 0 < s1.gs.countP (fun o => decide (cls o = k)) := by omega
    obtain ⟨e, he, hek⟩ := List.countP_pos_iff.1 h1
    obtain ⟨g, hg, hgk⟩ := List.countP_pos_iff.1 h2
    simp only [decide_eq_true_eq] at hek hgk
    exact hmax e he g hg (hek.trans hgk.symm)
  omega

end PEval.Classification
