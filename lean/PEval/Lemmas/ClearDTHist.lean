import PEval.Lemmas.ClearDT
/-!
The bridge of the frame loop `CLEAR.__init__` (core Lean only; does not import `PEval.Gen.*`, so Lake caches it):

* `histVal` — the valuation a concrete history induces on the atoms `empty i`;
* `pairAcc` / `sumPairs` — what a list of (previous, current) index pairs stands for on a concrete history: the sum of
  `frameStep` (= `_calculate_tp_fp`) over the pairs, read on the frames of the history;
* `initAtoms_eq` — the skeleton `initAtoms` in closed form: the pairs `(i-1, i)` for the non-empty `i`, in order;
* `clearLoop_bridge` / `clear_bridge` — for histories of ANY length the model's fold `clear cfg hist` is the sum of
  `frameStep` over exactly the pairs `initAtoms` selects at `histVal hist` (list induction);
* `predictNum_bridge` — `objects_results_num` is the sum of the sizes of the current frames of those pairs;
* `clear_bridge_symbolic` — the same with every `frameStep` replaced by the interpretation of the step skeleton
  (`frameStep_bridge`), so the whole of `CLEAR.__init__` is the two skeletons read at the induced valuations.
-/

namespace PEval.ClearDT
open PEval.Clear

/-- frame `i` of a history (`[]` beyond its end; never consulted there) -/
def frameAt (hist : List (List Res)) (i : Nat) : List Res := (hist[i]?).getD []

/-- the valuation a concrete history induces: `empty i` ⇔ frame `i` holds no result -/
def histVal (hist : List (List Res)) : Val where
  b := fun a =>
    match a with
    | .empty i => (frameAt hist i).isEmpty
    | _ => false
  o := fun _ => .eq

theorem histVal_consistent (hist : List (List Res)) : (histVal hist).consistent := by
  refine ⟨?_, by simp [histVal]⟩
  intro r j s h
  simp [histVal] at h

/-- what one (previous, current) pair of an `__init__` table row stands for: `_calculate_tp_fp(cur, prev)` on those frames -/
def pairAcc (cfg : Cfg) (hist : List (List Res)) : Option Nat × Option Nat → Acc
  | (some a, some b) => frameStep cfg (frameAt hist a) (frameAt hist b)
  | _ => Acc.zero

/-- the accumulation over a list of pairs, in order, from `a` -/
def sumPairsFrom (cfg : Cfg) (hist : List (List Res)) (a : Acc) (ps : List (Option Nat × Option Nat)) : Acc :=
  ps.foldl (fun a p => a.add (pairAcc cfg hist p)) a

def sumPairs (cfg : Cfg) (hist : List (List Res)) (ps : List (Option Nat × Option Nat)) : Acc :=
  sumPairsFrom cfg hist Acc.zero ps

/-- the size of the current frame of a pair -/
def pairLen (hist : List (List Res)) : Option Nat × Option Nat → Nat
  | (_, some b) => (frameAt hist b).length
  | _ => 0

def lenPairsFrom (hist : List (List Res)) (n : Nat) (ps : List (Option Nat × Option Nat)) : Nat :=
  ps.foldl (fun n p => n + pairLen hist p) n

/-- the pairs the skeleton selects among frames `i, …, i+n-1`: `(k-1, k)` for every non-empty `k`, in order -/
def selPairs (v : Val) (i n : Nat) : List (Option Nat × Option Nat) :=
  ((List.range' i n).filter fun k => !v.b (.empty k)).map fun k => (some (k - 1), some k)

/-- closed form of the skeleton of `CLEAR.__init__` -/
theorem initAtoms_eq (v : Val) : ∀ (n i : Nat) (ps : List (Option Nat × Option Nat)) (c : Nat),
    initAtoms v i n ps c = (ps ++ selPairs v i n, c + (selPairs v i n).length) := by
  intro n
  induction n with
  | zero => intro i ps c; simp [initAtoms, selPairs]
  | succ n ih =>
    intro i ps c
    simp only [initAtoms]
    cases h : v.b (.empty i)
    · simp only [Bool.false_eq_true, if_false]
      rw [ih]
      simp [selPairs, List.range'_succ, h, List.append_assoc]
      omega
    · simp only [if_true]
      rw [ih]
      simp [selPairs, List.range'_succ, h]

theorem Acc.add_zero (a : Acc) : a.add Acc.zero = a := by
  cases a
  simp [Acc.add, Acc.zero, Rat.add_zero]

theorem frameStep_nil (cfg : Cfg) (prev : List Res) : frameStep cfg prev [] = Acc.zero := rfl

theorem frameAt_of_drop {hist : List (List Res)} {i : Nat} {cur : List Res} {rest : List (List Res)}
    (h : hist.drop i = cur :: rest) : frameAt hist i = cur ∧ hist.drop (i + 1) = rest := by
  obtain ⟨h1, h2⟩ := drop_cons_getElem? h
  exact ⟨by simp [frameAt, h1], h2⟩

theorem sumPairsFrom_snoc (cfg : Cfg) (hist : List (List Res)) (a : Acc) (ps : List (Option Nat × Option Nat))
    (p : Option Nat × Option Nat) :
    sumPairsFrom cfg hist a (ps ++ [p]) = (sumPairsFrom cfg hist a ps).add (pairAcc cfg hist p) := by
  simp [sumPairsFrom, List.foldl_append]

/-- the loop of `CLEAR.__init__` from frame `i ≥ 1` on = the skeleton's selection from `i` on, accumulated -/
theorem clearLoop_bridge (cfg : Cfg) (hist : List (List Res)) :
    ∀ (rest : List (List Res)) (i : Nat) (prev : List Res) (ps : List (Option Nat × Option Nat)) (c : Nat),
      hist.drop i = rest → frameAt hist (i - 1) = prev → 1 ≤ i →
      clearLoop cfg prev rest (sumPairs cfg hist ps) =
        sumPairs cfg hist (initAtoms (histVal hist) i rest.length ps c).1 := by
  intro rest
  induction rest with
  | nil => intro i prev ps c _ _ _; rfl
  | cons cur rest ih =>
    intro i prev ps c hd hp hi
    obtain ⟨hc, hd'⟩ := frameAt_of_drop hd
    have hv : (histVal hist).b (.empty i) = cur.isEmpty := by simp [histVal, hc]
    simp only [clearLoop, List.length_cons, initAtoms, hv]
    cases cur with
    | nil =>
      simp only [List.isEmpty_nil, if_true, frameStep_nil, Acc.add_zero]
      exact ih (i + 1) [] ps c hd' (by simpa using hc) (by omega)
    | cons x xs =>
      simp only [List.isEmpty_cons, Bool.false_eq_true, if_false]
      have hs : (sumPairs cfg hist ps).add (frameStep cfg prev (x :: xs)) =
          sumPairs cfg hist (ps ++ [(some (i - 1), some i)]) := by
        unfold sumPairs
        rw [sumPairsFrom_snoc]
        simp only [pairAcc, hp, hc]
      rw [hs]
      exact ih (i + 1) (x :: xs) _ (c + 1) hd' (by simpa using hc) (by omega)

/-- **the frame loop, any length**: the model's `clear cfg hist` is the sum of `_calculate_tp_fp` over exactly the
(previous, current) pairs the skeleton of `CLEAR.__init__` selects at the valuation of the history -/
theorem clear_bridge (cfg : Cfg) (hist : List (List Res)) :
    clear cfg hist = sumPairs cfg hist (initAtoms (histVal hist) 1 (hist.length - 1) [] 0).1 := by
  cases hist with
  | nil => rfl
  | cons f0 rest =>
    have := clearLoop_bridge cfg (f0 :: rest) rest 1 f0 [] 0 (by simp) (by simp [frameAt]) (by omega)
    simpa [clear, sumPairs, sumPairsFrom] using this

theorem lenPairsFrom_snoc (hist : List (List Res)) (n : Nat) (ps : List (Option Nat × Option Nat))
    (p : Option Nat × Option Nat) : lenPairsFrom hist n (ps ++ [p]) = lenPairsFrom hist n ps + pairLen hist p := by
  simp [lenPairsFrom, List.foldl_append]

theorem predictLoop_bridge (hist : List (List Res)) :
    ∀ (rest : List (List Res)) (i : Nat) (ps : List (Option Nat × Option Nat)) (c : Nat),
      hist.drop i = rest →
      rest.foldl (fun n f => n + f.length) (lenPairsFrom hist 0 ps) =
        lenPairsFrom hist 0 (initAtoms (histVal hist) i rest.length ps c).1 := by
  intro rest
  induction rest with
  | nil => intro i ps c _; rfl
  | cons cur rest ih =>
    intro i ps c hd
    obtain ⟨hc, hd'⟩ := frameAt_of_drop hd
    have hv : (histVal hist).b (.empty i) = cur.isEmpty := by simp [histVal, hc]
    simp only [List.foldl_cons, List.length_cons, initAtoms, hv]
    cases cur with
    | nil =>
      simp only [List.isEmpty_nil, if_true, List.length_nil, Nat.add_zero]
      exact ih (i + 1) ps c hd'
    | cons x xs =>
      simp only [List.isEmpty_cons, Bool.false_eq_true, if_false]
      have hs : lenPairsFrom hist 0 ps + (x :: xs).length = lenPairsFrom hist 0 (ps ++ [(some (i - 1), some i)]) := by
        rw [lenPairsFrom_snoc]
        simp only [pairLen, hc]
      rw [hs]
      exact ih (i + 1) _ (c + 1) hd'

/-- `objects_results_num` = the sizes of the current frames of the selected pairs, summed -/
theorem predictNum_bridge (hist : List (List Res)) :
    predictNum hist = lenPairsFrom hist 0 (initAtoms (histVal hist) 1 (hist.length - 1) [] 0).1 := by
  have := predictLoop_bridge hist (hist.drop 1) 1 [] 0 rfl
  simpa [predictNum, lenPairsFrom] using this

/-- one pair read through the step skeleton: the numbers its symbolic outcome stands for at the induced valuation -/
def pairAccSym (cfg : Cfg) (hist : List (List Res)) : Option Nat × Option Nat → Acc
  | (some a, some b) =>
    interp (frameAt hist a) (frameAt hist b)
      (stepAtoms (frameAt hist b).length (frameAt hist a).length (valOf cfg (frameAt hist a) (frameAt hist b)))
  | _ => Acc.zero

theorem pairAccSym_eq (cfg : Cfg) (hist : List (List Res)) (p : Option Nat × Option Nat) :
    pairAccSym cfg hist p = pairAcc cfg hist p := by
  rcases p with ⟨a | a, b | b⟩ <;> simp [pairAccSym, pairAcc, frameStep_bridge]

/-- the whole of `CLEAR.__init__` through the two skeletons: pairs from `initAtoms`, each pair's increment from `stepAtoms` -/
theorem clear_bridge_symbolic (cfg : Cfg) (hist : List (List Res)) :
    clear cfg hist =
      (initAtoms (histVal hist) 1 (hist.length - 1) [] 0).1.foldl (fun a p => a.add (pairAccSym cfg hist p)) Acc.zero := by
  rw [clear_bridge]
  simp only [sumPairs, sumPairsFrom, pairAccSym_eq]

end PEval.ClearDT
