import PEval.Lemmas.APMono
/-!
Composition lemmas, part 2 (structure of the frame-level `Map`): every bucket of `divide_objects` is
a sub-list of the result list (so "each ground truth is the ground truth of at most one result" is
inherited by every bucket), `divide_objects_to_num` counts the ground truths of a label, and the
per-label loop of `Map.__init__` produces exactly one `Ap` (and one APH) per (label, threshold) from
the bucket and the count looked up under that label.
-/
namespace PEval.AP

theorem lookupKey_mem_key {β : Type} {l : Label} {L : List (Label × β)} {v : β}
    (h : lookupKey l L = .ok v) : (l, v) ∈ L := by
  induction L with
  | nil => simp [lookupKey] at h
  | cons kv t ih =>
    obtain ⟨k, w⟩ := kv
    unfold lookupKey at h
    split at h
    · rename_i hk
      cases h
      have hkl : k = l := by simpa using hk
      rw [hkl]
      exact List.mem_cons_self
    · exact List.mem_cons_of_mem _ (ih h)

/-! ### `divide_objects`: buckets are sub-lists -/

theorem bucketAdd_cases {β : Type} {l : Label} {x : β} {acc : List (Label × List β)} {k : Label}
    {v : List β} (h : (k, v) ∈ bucketAdd l x acc) :
    (k, v) ∈ acc ∨ v = [x] ∨ ∃ v0, (k, v0) ∈ acc ∧ v = v0 ++ [x] := by
  induction acc with
  | nil =>
    simp only [bucketAdd, List.mem_singleton, Prod.mk.injEq] at h
    exact Or.inr (Or.inl h.2)
  | cons kv t ih =>
    obtain ⟨k0, v0⟩ := kv
    simp only [bucketAdd] at h
    by_cases hk0 : (k0 == l) = true
    · simp only [hk0, if_true] at h
      rcases List.mem_cons.1 h with h | h
      · simp only [Prod.mk.injEq] at h
        obtain ⟨hk, hv⟩ := h
        refine Or.inr (Or.inr ⟨v0, ?_, hv⟩)
        rw [hk]
        exact List.mem_cons_self
      · exact Or.inl (List.mem_cons_of_mem _ h)
    · simp only [hk0, if_false, Bool.false_eq_true] at h
      rcases List.mem_cons.1 h with h | h
      · rw [h]
        exact Or.inl List.mem_cons_self
      · rcases ih h with h' | h' | ⟨v1, hm, hv⟩
        · exact Or.inl (List.mem_cons_of_mem _ h')
        · exact Or.inr (Or.inl h')
        · exact Or.inr (Or.inr ⟨v1, List.mem_cons_of_mem _ hm, hv⟩)

/-- every bucket of `divide_objects` is a sub-list (same relative order) of the object results -/
theorem divideObjects_sublist (targets : Option (List Label)) (rs : List Res) {k : Label}
    {v : List Res} (h : (k, v) ∈ divideObjects targets rs) : v.Sublist rs := by
  unfold divideObjects at h
  have gen : ∀ (xs pre : List Res) (acc : List (Label × List Res)),
      (∀ k v, (k, v) ∈ acc → v.Sublist pre) →
      ∀ k v, (k, v) ∈ xs.foldl (fun acc r =>
        match bucketLabel targets r with
        | some l => bucketAdd l r acc
        | none => acc) acc → v.Sublist (pre ++ xs) := by
    intro xs
    induction xs with
    | nil =>
      intro pre acc hacc k v hkv
      rw [List.append_nil]
      exact hacc k v hkv
    | cons x t ih =>
      intro pre acc hacc k v hkv
      simp only [List.foldl_cons] at hkv
      have := ih (pre ++ [x]) _ ?_ k v hkv
      · rwa [List.append_assoc, List.singleton_append] at this
      · intro k1 v1 hkv1
        have hpre : pre.Sublist (pre ++ [x]) := List.sublist_append_left pre [x]
        cases hb : bucketLabel targets x with
        | none =>
          simp only [hb] at hkv1
          exact (hacc k1 v1 hkv1).trans hpre
        | some l =>
          simp only [hb] at hkv1
          rcases bucketAdd_cases hkv1 with h1 | h1 | ⟨v0, hm, hv⟩
          · exact (hacc k1 v1 h1).trans hpre
          · rw [h1]
            exact List.sublist_append_right pre [x]
          · rw [hv]
            exact List.Sublist.append (hacc k1 v0 hm) (List.Sublist.refl _)
  have := gen rs [] _ ?_ k v h
  · simpa using this
  · intro k1 v1 hkv1
    simp only [List.mem_map] at hkv1
    obtain ⟨l, _, hl⟩ := hkv1
    simp only [Prod.mk.injEq] at hl
    rw [← hl.2]
    exact List.nil_sublist _

/-- one-to-one matching is inherited by every bucket -/
theorem divideObjects_gt_nodup (targets : Option (List Label)) (rs : List Res) {k : Label}
    {v : List Res} (h : (k, v) ∈ divideObjects targets rs) (hnd : (rs.filterMap (·.gt)).Nodup) :
    (v.filterMap (·.gt)).Nodup :=
  hnd.sublist ((divideObjects_sublist targets rs h).filterMap _)

/-! ### `divide_objects_to_num`: the count under a label -/

theorem lookupKey_countAdd_self {l : Label} {acc : List (Label × Nat)} {n : Nat}
    (h : lookupKey l acc = .ok n) : lookupKey l (countAdd l acc) = .ok (n + 1) := by
  induction acc with
  | nil => simp [lookupKey] at h
  | cons kv t ih =>
    obtain ⟨k, v⟩ := kv
    unfold lookupKey at h
    by_cases hk : (k == l) = true
    · simp only [hk, if_true, Except.ok.injEq] at h
      simp [countAdd, hk, lookupKey, h]
    · simp only [hk, if_false, Bool.false_eq_true] at h
      simp only [countAdd, hk, if_false, Bool.false_eq_true, lookupKey]
      exact ih h

theorem lookupKey_countAdd_ne {l l' : Label} (hne : l' ≠ l) (acc : List (Label × Nat)) :
    lookupKey l (countAdd l' acc) = lookupKey l acc := by
  have hb : (l' == l) = false := by simpa using hne
  induction acc with
  | nil => simp [countAdd, lookupKey, hb]
  | cons kv t ih =>
    obtain ⟨k, v⟩ := kv
    by_cases hk : (k == l') = true
    · have hkl : k = l' := by simpa using hk
      have hkb : (k == l) = false := by rw [hkl]; exact hb
      simp [countAdd, hk, lookupKey, hkb]
    · simp only [countAdd, hk, if_false, Bool.false_eq_true, lookupKey]
      by_cases hkl : (k == l) = true
      · simp [hkl]
      · simp only [hkl, if_false, Bool.false_eq_true]
        exact ih

theorem lookupKey_init {β : Type} (l : Label) (ts : List Label) (b : β) :
    lookupKey l (ts.map (fun k => (k, b))) = if ts.contains l then .ok b else .error "KeyError" := by
  induction ts with
  | nil => simp [lookupKey]
  | cons k t ih =>
    simp only [List.map_cons, lookupKey, List.contains_cons]
    by_cases hk : (k == l) = true
    · have : (l == k) = true := by
        have e : k = l := by simpa using hk
        simp [e]
      simp [hk, this]
    · have : (l == k) = false := by
        have e : ¬ k = l := by simpa using hk
        simp only [beq_eq_false_iff_ne, ne_eq]
        exact fun h => e h.symm
      simp only [hk, if_false, Bool.false_eq_true, this, Bool.false_or]
      exact ih

/-- `divide_objects_to_num(ground truths, target_labels)[l]` = number of ground truths of label `l` -/
theorem lookup_divideObjectsToNum {ts : List Label} {ls : List Label} {l : Label} {G : Nat}
    (h : lookupKey l (divideObjectsToNum (some ts) ls) = .ok G) :
    G = (ls.filter (fun k => k == l)).length := by
  unfold divideObjectsToNum at h
  simp only [Option.getD_some] at h
  by_cases hl : ts.contains l = true
  · have gen : ∀ (xs : List Label) (acc : List (Label × Nat)) (n : Nat), lookupKey l acc = .ok n →
        lookupKey l (xs.foldl (fun acc l' => if ts.contains l' then countAdd l' acc else acc) acc)
          = .ok (n + (xs.filter (fun k => k == l)).length) := by
      intro xs
      induction xs with
      | nil => intro acc n hn; simpa using hn
      | cons x t ih =>
        intro acc n hn
        simp only [List.foldl_cons, List.filter_cons]
        by_cases hx : (x == l) = true
        · have e : x = l := by simpa using hx
          rw [e] at *
          simp only [hl, if_true, beq_self_eq_true, List.length_cons]
          rw [ih _ (n + 1) (lookupKey_countAdd_self hn)]
          congr 1
          omega
        · have e : x ≠ l := by simpa using hx
          simp only [hx, if_false, Bool.false_eq_true]
          by_cases hc : ts.contains x = true
          · simp only [hc, if_true]
            exact ih _ n (by rw [lookupKey_countAdd_ne e]; exact hn)
          · simp only [hc, if_false, Bool.false_eq_true]
            exact ih _ n hn
    have h0 : lookupKey l (ts.map (fun k => (k, 0))) = .ok 0 := by
      rw [lookupKey_init, hl]; rfl
    rw [gen ls _ 0 h0] at h
    simp only [Except.ok.injEq] at h
    omega
  · have hl' : ts.contains l = false := by simpa using hl
    have gen : ∀ (xs : List Label) (acc : List (Label × Nat)), lookupKey l acc = .error "KeyError" →
        lookupKey l (xs.foldl (fun acc l' => if ts.contains l' then countAdd l' acc else acc) acc)
          = .error "KeyError" := by
      intro xs
      induction xs with
      | nil => intro acc hn; simpa using hn
      | cons x t ih =>
        intro acc hn
        simp only [List.foldl_cons]
        by_cases hc : ts.contains x = true
        · have e : x ≠ l := by
            intro e; rw [e] at hc; rw [hl'] at hc; cases hc
          simp only [hc, if_true]
          exact ih _ (by rw [lookupKey_countAdd_ne e]; exact hn)
        · simp only [hc, if_false, Bool.false_eq_true]
          exact ih _ hn
    have h0 : lookupKey l (ts.map (fun k => (k, 0))) = .error "KeyError" := by
      rw [lookupKey_init, hl']; rfl
    rw [gen ls _ h0] at h
    cases h

/-! ### the per-label loop of `Map.__init__` -/

/-- what produced one element of `Map.aps` / `Map.aphs` -/
def FromLabel (tm : TpMetric) (m : Mode) (buckets : List (Label × List (List Res)))
    (nums : List (Label × Nat)) (zs : List (Label × Rat)) (a : ApOut) : Prop :=
  ∃ l t rss G, (l, t) ∈ zs ∧ lookupKey l buckets = .ok rss ∧ lookupKey l nums = .ok G ∧
    apOfNested tm m [l] [t] G rss = .ok a

theorem FromLabel.cons {tm : TpMetric} {m : Mode} {buckets : List (Label × List (List Res))}
    {nums : List (Label × Nat)} {zs : List (Label × Rat)} {a : ApOut} (z : Label × Rat)
    (h : FromLabel tm m buckets nums zs a) : FromLabel tm m buckets nums (z :: zs) a := by
  obtain ⟨l, t, rss, G, hm, h1, h2, h3⟩ := h
  exact ⟨l, t, rss, G, List.mem_cons_of_mem _ hm, h1, h2, h3⟩

theorem mapLoop_mem {m : Mode} {is2d : Bool} {buckets : List (Label × List (List Res))}
    {nums : List (Label × Nat)} {zs : List (Label × Rat)} {o : List ApOut × List ApOut}
    (h : mapLoop m is2d buckets nums zs = .ok o) :
    (∀ a ∈ o.1, FromLabel .ap m buckets nums zs a) ∧ (∀ a ∈ o.2, FromLabel .aph m buckets nums zs a) := by
  induction zs generalizing o with
  | nil =>
    simp only [mapLoop, Except.ok.injEq] at h
    subst h
    exact ⟨fun a ha => (by cases ha), fun a ha => (by cases ha)⟩
  | cons z t ih =>
    obtain ⟨l, thr⟩ := z
    unfold mapLoop at h
    cases hb : lookupKey l buckets with
    | error e => simp [hb] at h
    | ok rss =>
      cases hn : lookupKey l nums with
      | error e => simp [hb, hn] at h
      | ok G =>
        simp only [hb, hn] at h
        cases ha : apOfNested .ap m [l] [thr] G rss with
        | error e => simp [ha] at h
        | ok a1 =>
          simp only [ha] at h
          have hfa : FromLabel .ap m buckets nums ((l, thr) :: t) a1 :=
            ⟨l, thr, rss, G, List.mem_cons_self, hb, hn, ha⟩
          cases is2d with
          | true =>
            simp only [if_true] at h
            cases hr : mapLoop m true buckets nums t with
            | error e => simp [hr] at h
            | ok q =>
              obtain ⟨q1, q2⟩ := q
              simp only [hr, Except.ok.injEq] at h
              subst h
              obtain ⟨i1, i2⟩ := ih hr
              refine ⟨?_, fun a ha' => (i2 a ha').cons _⟩
              intro a ha'
              rcases List.mem_cons.1 ha' with rfl | ha'
              · exact hfa
              · exact (i1 a ha').cons _
          | false =>
            simp only [Bool.false_eq_true, if_false] at h
            cases hh : apOfNested .aph m [l] [thr] G rss with
            | error e => simp [hh, Except.map] at h
            | ok h1 =>
              simp only [hh, Except.map] at h
              have hfh : FromLabel .aph m buckets nums ((l, thr) :: t) h1 :=
                ⟨l, thr, rss, G, List.mem_cons_self, hb, hn, hh⟩
              cases hr : mapLoop m false buckets nums t with
              | error e => simp [hr] at h
              | ok q =>
                obtain ⟨q1, q2⟩ := q
                simp only [hr, Except.ok.injEq] at h
                subst h
                obtain ⟨i1, i2⟩ := ih hr
                constructor
                · intro a ha'
                  rcases List.mem_cons.1 ha' with rfl | ha'
                  · exact hfa
                  · exact (i1 a ha').cons _
                · intro a ha'
                  rcases List.mem_cons.1 ha' with rfl | ha'
                  · exact hfh
                  · exact (i2 a ha').cons _

/-- 3-D: `aps` and `aphs` are produced pairwise from the same bucket, count, label and threshold -/
theorem mapLoop_pairs {m : Mode} {buckets : List (Label × List (List Res))}
    {nums : List (Label × Nat)} {zs : List (Label × Rat)} {o : List ApOut × List ApOut}
    (h : mapLoop m false buckets nums zs = .ok o) :
    List.Forall₂ (fun hh a => ∃ l t rss G, lookupKey l buckets = .ok rss ∧
      apOfNested .aph m [l] [t] G rss = .ok hh ∧ apOfNested .ap m [l] [t] G rss = .ok a) o.2 o.1 := by
  induction zs generalizing o with
  | nil =>
    simp only [mapLoop, Except.ok.injEq] at h
    subst h
    exact .nil
  | cons z t ih =>
    obtain ⟨l, thr⟩ := z
    unfold mapLoop at h
    cases hb : lookupKey l buckets with
    | error e => simp [hb] at h
    | ok rss =>
      cases hn : lookupKey l nums with
      | error e => simp [hb, hn] at h
      | ok G =>
        simp only [hb, hn] at h
        cases ha : apOfNested .ap m [l] [thr] G rss with
        | error e => simp [ha] at h
        | ok a1 =>
          simp only [ha, Bool.false_eq_true, if_false] at h
          cases hh : apOfNested .aph m [l] [thr] G rss with
          | error e => simp [hh, Except.map] at h
          | ok h1 =>
            simp only [hh, Except.map] at h
            cases hr : mapLoop m false buckets nums t with
            | error e => simp [hr] at h
            | ok q =>
              obtain ⟨q1, q2⟩ := q
              simp only [hr, Except.ok.injEq] at h
              subst h
              exact .cons ⟨l, thr, rss, G, hb, hh, ha⟩ (ih hr)

theorem mapOf_ok {m : Mode} {is2d : Bool} {T : List Label} {th : List Rat}
    {buckets : List (Label × List (List Res))} {nums : List (Label × Nat)} {o : MapOut}
    (h : mapOf m is2d T th buckets nums = .ok o) :
    mapLoop m is2d buckets nums (T.zip th) = .ok (o.aps, o.aphs) ∧
      o.map = meanDefined (o.aps.map (·.ap)) ∧ o.maph = meanDefined (o.aphs.map (·.ap)) := by
  unfold mapOf at h
  cases hl : mapLoop m is2d buckets nums (T.zip th) with
  | error e => simp [hl] at h
  | ok q =>
    obtain ⟨q1, q2⟩ := q
    simp only [hl, Except.ok.injEq] at h
    subst h
    exact ⟨rfl, rfl, rfl⟩

end PEval.AP
