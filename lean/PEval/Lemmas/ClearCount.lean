import PEval.Lemmas.Clear
/-!
Helper lemmas for C05, part 2: the totals of `clear` as counts / sums over the events of the history.
-/

namespace PEval.Clear

theorem events_mem {hist : List (List Res)} {e : List Res × Res} (h : e ∈ events hist) :
    e.1 ∈ hist ∧ ∃ f ∈ hist, e.2 ∈ f := by
  match hist with
  | [] => simp [events] at h
  | [_] => simp [events] at h
  | prev :: cur :: rest =>
    simp only [events, List.mem_append, List.mem_map] at h
    rcases h with ⟨c, hc, rfl⟩ | h
    · exact ⟨by simp, cur, by simp, hc⟩
    · have ih := events_mem h
      exact ⟨List.mem_cons_of_mem _ ih.1, by
        obtain ⟨f, hf, he⟩ := ih.2
        exact ⟨f, List.mem_cons_of_mem _ hf, he⟩⟩

theorem events_length (hist : List (List Res)) : (events hist).length = resultCount hist := by
  match hist with
  | [] => simp [events, resultCount]
  | [_] => simp [events, resultCount]
  | prev :: cur :: rest =>
    have ih := events_length (cur :: rest)
    simp only [events, List.length_append, List.length_map, ih, resultCount, List.drop_succ_cons,
      List.drop_zero, List.flatten_cons]

theorem predictNum_eq (hist : List (List Res)) : predictNum hist = resultCount hist := by
  unfold predictNum resultCount
  generalize hist.drop 1 = l
  have : ∀ (l : List (List Res)) (n : Nat), l.foldl (fun n f => n + f.length) n = n + l.flatten.length := by
    intro l
    induction l with
    | nil => simp
    | cons a l ih => intro n; simp [ih, Nat.add_assoc]
  simpa using this l 0

/-! ### pointwise facts -/

theorem counts_exclusive (cfg : Cfg) (prev : List Res) (c : Res) :
    (if countsTp cfg prev c then 1 else 0) + (if countsFp cfg prev c then 1 else 0)
      = (if evaluated cfg c then 1 else 0 : Nat) := by
  have hs := outcome_skipped_iff cfg prev c
  unfold countsTp countsFp
  cases ho : outcome cfg prev c with
  | skipped => have := hs.mp ho; simp [this]
  | carried p =>
    have : evaluated cfg c = true := by
      cases h : evaluated cfg c
      · rw [hs.mpr h] at ho; cases ho
      · rfl
    simp [this]
  | tp b =>
    have : evaluated cfg c = true := by
      cases h : evaluated cfg c
      · rw [hs.mpr h] at ho; cases ho
      · rfl
    simp [this]
  | fp =>
    have : evaluated cfg c = true := by
      cases h : evaluated cfg c
      · rw [hs.mpr h] at ho; cases ho
      · rfl
    simp [this]

theorem resStep_fp (cfg : Cfg) (prev : List Res) (c : Res) :
    (resStep cfg prev c).fp = if countsFp cfg prev c then 1 else 0 := by
  rw [resStep_eq_outcome]; unfold countsFp
  cases outcome cfg prev c <;> simp [Outcome.acc]

theorem resStep_sw (cfg : Cfg) (prev : List Res) (c : Res) :
    (resStep cfg prev c).sw = if countsSwitch cfg prev c then 1 else 0 := by
  rw [resStep_eq_outcome]; unfold countsSwitch
  cases outcome cfg prev c with
  | tp b => cases b <;> simp [Outcome.acc]
  | _ => simp [Outcome.acc]

theorem resStep_tp_unit (cfg : Cfg) (prev : List Res) (c : Res) (hc : c.w = 1) (hp : ∀ p ∈ prev, p.w = 1) :
    (resStep cfg prev c).tp = if countsTp cfg prev c then 1 else 0 := by
  rw [resStep_eq_outcome]; unfold countsTp
  cases ho : outcome cfg prev c with
  | carried p => simp [Outcome.acc, hp p (outcome_carried_mem cfg prev c p ho)]
  | tp b => simp [Outcome.acc, hc]
  | _ => simp [Outcome.acc]

theorem resStep_score (cfg : Cfg) (prev : List Res) (c : Res) :
    (resStep cfg prev c).score = (bookedScore cfg prev c).getD 0 := by
  rw [resStep_eq_outcome]; unfold bookedScore
  cases outcome cfg prev c <;> simp [Outcome.acc]

theorem countsTp_iff_booked (cfg : Cfg) (prev : List Res) (c : Res) :
    countsTp cfg prev c = (bookedScore cfg prev c).isSome := by
  unfold countsTp bookedScore
  cases outcome cfg prev c <;> rfl

theorem countsSwitch_imp_countsTp (cfg : Cfg) (prev : List Res) (c : Res)
    (h : countsSwitch cfg prev c = true) : countsTp cfg prev c = true := by
  unfold countsSwitch at h; unfold countsTp
  cases ho : outcome cfg prev c with
  | tp b => rfl
  | _ => simp [ho] at h

/-! ### totals over a list of events -/

/-- totals of the increments of a list of events -/
def total (cfg : Cfg) (l : List (List Res × Res)) : Acc := accSum (l.map (fun e => resStep cfg e.1 e.2))

theorem clear_eq_total (cfg : Cfg) (hist : List (List Res)) : clear cfg hist = total cfg (events hist) :=
  clear_eq_events cfg hist

@[simp] theorem total_nil (cfg : Cfg) : total cfg [] = Acc.zero := rfl
@[simp] theorem total_cons (cfg : Cfg) (e : List Res × Res) (l : List (List Res × Res)) :
    total cfg (e :: l) = (resStep cfg e.1 e.2).add (total cfg l) := rfl

theorem total_append (cfg : Cfg) (l₁ l₂ : List (List Res × Res)) :
    total cfg (l₁ ++ l₂) = (total cfg l₁).add (total cfg l₂) := by
  simp [total, accSum_append]

theorem total_fp (cfg : Cfg) (l : List (List Res × Res)) :
    (total cfg l).fp = l.countP (fun e => countsFp cfg e.1 e.2) := by
  induction l with
  | nil => simp
  | cons e l ih =>
    rw [total_cons, Acc.add_fp, ih, resStep_fp, List.countP_cons]
    omega

theorem total_sw (cfg : Cfg) (l : List (List Res × Res)) :
    (total cfg l).sw = l.countP (fun e => countsSwitch cfg e.1 e.2) := by
  induction l with
  | nil => simp
  | cons e l ih =>
    rw [total_cons, Acc.add_sw, ih, resStep_sw, List.countP_cons]
    omega

/-- unit weights on both sides of every event -/
def UnitEvents (l : List (List Res × Res)) : Prop := ∀ e ∈ l, e.2.w = 1 ∧ ∀ p ∈ e.1, p.w = 1

theorem unitEvents_of_unitWeights {hist : List (List Res)} (h : UnitWeights hist) : UnitEvents (events hist) := by
  intro e he
  obtain ⟨h1, f, hf, h2⟩ := events_mem he
  exact ⟨h f hf _ h2, fun p hp => h _ h1 p hp⟩

theorem total_tp_unit (cfg : Cfg) (l : List (List Res × Res)) (hu : UnitEvents l) :
    (total cfg l).tp = ((l.countP (fun e => countsTp cfg e.1 e.2) : Nat) : Rat) := by
  induction l with
  | nil => simp
  | cons e l ih =>
    have hu' : UnitEvents l := fun x hx => hu x (List.mem_cons_of_mem _ hx)
    have he := hu e (by simp)
    rw [total_cons, Acc.add_tp, ih hu', resStep_tp_unit cfg e.1 e.2 he.1 he.2, List.countP_cons]
    by_cases h : countsTp cfg e.1 e.2 = true
    · simp only [h, if_true]; grind
    · simp only [h]; grind

theorem counts_sum (cfg : Cfg) (l : List (List Res × Res)) :
    l.countP (fun e => countsTp cfg e.1 e.2) + l.countP (fun e => countsFp cfg e.1 e.2)
      = l.countP (fun e => evaluated cfg e.2) := by
  induction l with
  | nil => simp
  | cons e l ih =>
    have := counts_exclusive cfg e.1 e.2
    simp only [List.countP_cons]
    omega

theorem switch_le_counts (cfg : Cfg) (l : List (List Res × Res)) :
    l.countP (fun e => countsSwitch cfg e.1 e.2) ≤ l.countP (fun e => countsTp cfg e.1 e.2) := by
  induction l with
  | nil => simp
  | cons e l ih =>
    simp only [List.countP_cons]
    by_cases h : countsSwitch cfg e.1 e.2 = true
    · have := countsSwitch_imp_countsTp cfg e.1 e.2 h
      simp [h, this]; omega
    · simp [h]; omega

/-- sum of a list of rationals (own definition: no algebraic-hierarchy instances needed) -/
def ratSum : List Rat → Rat
  | [] => 0
  | x :: l => x + ratSum l

theorem total_score (cfg : Cfg) (l : List (List Res × Res)) :
    (total cfg l).score = ratSum (l.filterMap (fun e => bookedScore cfg e.1 e.2)) := by
  induction l with
  | nil => simp [ratSum]
  | cons e l ih =>
    rw [total_cons, Acc.add_score, ih, resStep_score, List.filterMap_cons]
    cases bookedScore cfg e.1 e.2 with
    | none => simp [Rat.zero_add]
    | some v => simp [ratSum]

theorem booked_length (cfg : Cfg) (l : List (List Res × Res)) :
    (l.filterMap (fun e => bookedScore cfg e.1 e.2)).length = l.countP (fun e => countsTp cfg e.1 e.2) := by
  induction l with
  | nil => simp
  | cons e l ih =>
    rw [List.filterMap_cons, List.countP_cons, countsTp_iff_booked]
    cases bookedScore cfg e.1 e.2 with
    | none => simp [ih]
    | some v => simp [ih]

end PEval.Clear
