import PEval.Lemmas.SensingPara
/-!
The winding counter of `crop_pointcloud` on a parallelogram for EVERY point, the four edge lines included
(C12): the half-open convention of the scan.

An edge `a → b` counts `+1` when `a.y ≤ p.y < b.y` and `−1` when `b.y ≤ p.y < a.y`, both only when the point is
STRICTLY left of the crossing (`p.x < x_cross`).  Consequence (`wn_para_closed`): a point on an edge line is
counted inside iff an infinitesimal step in the +x direction (and, when that step stays on the line, in the +y
direction) takes it strictly inside.  For an axis-aligned box: the x-min and y-min edges belong to the box, the
x-max and y-max edges do not.
-/
namespace PEval.Sensing

/-- edge contribution with the cross product itself as side test (no assumption that it is non-zero) -/
def kE3 (hs he c : ℚ) : Int :=
  if 0 ≤ hs ∧ he < 0 ∧ 0 < c then 1 else if hs < 0 ∧ 0 ≤ he ∧ c < 0 then -1 else 0

theorem edgeK_eq_kE3 (a b q : Corner) (p : Pt) (hq : q.y = b.y) :
    edgeK a b q p = kE3 (p.y - a.y) (p.y - b.y) ((b.x - a.x) * (p.y - a.y) - (b.y - a.y) * (p.x - a.x)) := by
  unfold edgeK kE3
  by_cases hup : a.y ≤ p.y ∧ b.y > p.y
  · have hlt : a.y < b.y := lt_of_le_of_lt hup.1 hup.2
    have hne : q.y ≠ a.y := by rw [hq]; exact ne_of_gt hlt
    have hv := valid_iff_cross_up p.x p.y a.x a.y b.x b.y hlt
    have hd : ¬ (a.y > p.y) := not_lt.mpr hup.1
    have e1 : (0 : ℚ) ≤ p.y - a.y := by linarith [hup.1]
    have e2 : p.y - b.y < 0 := by linarith [hup.2]
    have e3 : ¬ (p.y - a.y < 0) := not_lt.mpr e1
    simp only [hne, if_true, ne_eq, not_false_eq_true, hv, hup.1, hup.2, true_and, hd, false_and, if_false, e1, e2, e3]
  · by_cases hdn : a.y > p.y ∧ b.y ≤ p.y
    · have hlt : b.y < a.y := lt_of_le_of_lt hdn.2 hdn.1
      have hne : q.y ≠ a.y := by rw [hq]; exact ne_of_lt hlt
      have hv := valid_iff_cross_down p.x p.y a.x a.y b.x b.y hlt
      have hd : ¬ (a.y ≤ p.y) := not_le.mpr hdn.1
      have e1 : p.y - a.y < 0 := by linarith [hdn.1]
      have e2 : (0 : ℚ) ≤ p.y - b.y := by linarith [hdn.2]
      have e3 : ¬ ((0 : ℚ) ≤ p.y - a.y) := not_le.mpr e1
      simp only [hne, if_true, ne_eq, not_false_eq_true, hv, hdn.1, hdn.2, true_and, hd, false_and, if_false, e1, e2, e3]
    · have n1 : ∀ X : Prop, ¬ ((0 : ℚ) ≤ p.y - a.y ∧ p.y - b.y < 0 ∧ X) := by
        rintro X ⟨x1, x2, _⟩; exact hup ⟨by linarith, by linarith⟩
      have n2 : ∀ X : Prop, ¬ (p.y - a.y < 0 ∧ (0 : ℚ) ≤ p.y - b.y ∧ X) := by
        rintro X ⟨x1, x2, _⟩; exact hdn ⟨by linarith, by linarith⟩
      have n3 : ∀ X : Prop, ¬ (a.y ≤ p.y ∧ b.y > p.y ∧ X) := fun X h => hup ⟨h.1, h.2.1⟩
      have n4 : ∀ X : Prop, ¬ (a.y > p.y ∧ b.y ≤ p.y ∧ X) := fun X h => hdn ⟨h.1, h.2.1⟩
      rw [if_neg (n3 _), if_neg (n4 _), if_neg (n1 _), if_neg (n2 _)]

/-- how `u` is tied to `p = (u − 1)·α` (five-way: `u < −1`, `u = −1`, between, `u = 1`, `u > 1`) -/
structure Link5 (α p u : ℚ) : Prop where
  pos : 0 < α → ((u < 1 ↔ p < 0) ∧ (u = 1 ↔ p = 0) ∧ (-1 < u ↔ 0 < p + 2 * α) ∧ (u = -1 ↔ p + 2 * α = 0))
  neg : α < 0 → ((u < 1 ↔ 0 < p) ∧ (u = 1 ↔ p = 0) ∧ (-1 < u ↔ p + 2 * α < 0) ∧ (u = -1 ↔ p + 2 * α = 0))
  zero : α = 0 → p = 0

theorem mul_eq_zero_iff_right {x a : ℚ} (ha : a ≠ 0) : x * a = 0 ↔ x = 0 := by
  constructor
  · intro h; rcases mul_eq_zero.1 h with h | h
    · exact h
    · exact absurd h ha
  · intro h; rw [h, zero_mul]

theorem link5_of (α u : ℚ) : Link5 α ((u - 1) * α) u := by
  have e : (u - 1) * α + 2 * α = (u + 1) * α := by ring
  refine ⟨fun ha => ?_, fun ha => ?_, fun ha => by rw [ha, mul_zero]⟩
  · rw [e, mul_neg_iff_right ha, mul_eq_zero_iff_right (ne_of_gt ha), mul_pos_iff_right ha,
      mul_eq_zero_iff_right (ne_of_gt ha)]
    refine ⟨?_, ?_, ?_, ?_⟩ <;> constructor <;> intro h <;> linarith
  · have hn : 0 < -α := by linarith
    have f1 : ∀ x : ℚ, 0 < x * α ↔ x < 0 := fun x => by
      have := mul_neg_iff_right (x := x) hn
      constructor
      · intro h; apply this.mp; linarith [mul_neg x α]
      · intro h; have := this.mpr h; linarith [mul_neg x α]
    have f2 : ∀ x : ℚ, x * α < 0 ↔ 0 < x := fun x => by
      have := mul_pos_iff_right (x := x) hn
      constructor
      · intro h; apply this.mp; linarith [mul_neg x α]
      · intro h; have := this.mpr h; linarith [mul_neg x α]
    rw [e, f1, f2, mul_eq_zero_iff_right (ne_of_lt ha), mul_eq_zero_iff_right (ne_of_lt ha)]
    refine ⟨?_, ?_, ?_, ?_⟩ <;> constructor <;> intro h <;> linarith

/-- signs of the four cross products, counter-clockwise corner order -/
structure CrossCcw (u v c0 c1 c2 c3 : ℚ) : Prop where
  c0 : (0 < c0 ↔ v < 1) ∧ (c0 < 0 ↔ 1 < v)
  c1 : (0 < c1 ↔ -1 < u) ∧ (c1 < 0 ↔ u < -1)
  c2 : (0 < c2 ↔ -1 < v) ∧ (c2 < 0 ↔ v < -1)
  c3 : (0 < c3 ↔ u < 1) ∧ (c3 < 0 ↔ 1 < u)

/-- signs of the four cross products, clockwise corner order -/
structure CrossCw (u v c0 c1 c2 c3 : ℚ) : Prop where
  c0 : (0 < c0 ↔ 1 < v) ∧ (c0 < 0 ↔ v < 1)
  c1 : (0 < c1 ↔ u < -1) ∧ (c1 < 0 ↔ -1 < u)
  c2 : (0 < c2 ↔ v < -1) ∧ (c2 < 0 ↔ -1 < v)
  c3 : (0 < c3 ↔ 1 < u) ∧ (c3 < 0 ↔ u < 1)

/-- half-open membership in the `u` direction, in terms of the heights `α = a.y`, `β = b.y` (counter-clockwise) -/
@[reducible] def uInCcw (α β u : ℚ) : Prop :=
  (-1 < u ∧ u < 1) ∨ (u = 1 ∧ (β < 0 ∨ (β = 0 ∧ α < 0))) ∨ (u = -1 ∧ (0 < β ∨ (β = 0 ∧ 0 < α)))
@[reducible] def vInCcw (α β v : ℚ) : Prop :=
  (-1 < v ∧ v < 1) ∨ (v = 1 ∧ (0 < α ∨ (α = 0 ∧ β < 0))) ∨ (v = -1 ∧ (α < 0 ∨ (α = 0 ∧ 0 < β)))
@[reducible] def uInCw (α β u : ℚ) : Prop :=
  (-1 < u ∧ u < 1) ∨ (u = 1 ∧ (0 < β ∨ (β = 0 ∧ α < 0))) ∨ (u = -1 ∧ (β < 0 ∨ (β = 0 ∧ 0 < α)))
@[reducible] def vInCw (α β v : ℚ) : Prop :=
  (-1 < v ∧ v < 1) ∨ (v = 1 ∧ (α < 0 ∨ (α = 0 ∧ β < 0))) ∨ (v = -1 ∧ (0 < α ∨ (α = 0 ∧ 0 < β)))

theorem five (u : ℚ) : u < -1 ∨ u = -1 ∨ (-1 < u ∧ u < 1) ∨ u = 1 ∨ 1 < u := by
  rcases lt_trichotomy u (-1) with h | h | h
  · exact Or.inl h
  · exact Or.inr (Or.inl h)
  · rcases lt_trichotomy u 1 with h' | h' | h'
    · exact Or.inr (Or.inr (Or.inl ⟨h, h'⟩))
    · exact Or.inr (Or.inr (Or.inr (Or.inl h')))
    · exact Or.inr (Or.inr (Or.inr (Or.inr h')))

section core5
variable (α β p q u v c0 c1 c2 c3 : ℚ)

theorem core5_ccw_neg_neg (ha : α < 0) (hb : β < 0)
    (la : Link5 α p u) (lb : Link5 β q v) (hc : CrossCcw u v c0 c1 c2 c3) :
    kE3 (p + q) (p + q + 2 * α) c0 + kE3 (p + q + 2 * α) (p + q + 2 * α + 2 * β) c1
      + kE3 (p + q + 2 * α + 2 * β) (p + q + 2 * β) c2 + kE3 (p + q + 2 * β) (p + q) c3
      = if uInCcw α β u ∧ vInCcw α β v then 1 else 0 := by
  unfold kE3
  obtain ⟨ap, an, a0⟩ := la
  obtain ⟨bp, bn, b0⟩ := lb
  obtain ⟨h0, h1, h2, h3⟩ := hc
  have A := an ha
  have B := bn hb
  clear ap an a0 bp bn b0
  rcases five u with hu | hu | hu | hu | hu <;> rcases five v with hv | hv | hv | hv | hv <;>
    grind (splits := 30)

theorem core5_ccw_neg_zero (ha : α < 0) (hb : β = 0)
    (la : Link5 α p u) (lb : Link5 β q v) (hc : CrossCcw u v c0 c1 c2 c3) :
    kE3 (p + q) (p + q + 2 * α) c0 + kE3 (p + q + 2 * α) (p + q + 2 * α + 2 * β) c1
      + kE3 (p + q + 2 * α + 2 * β) (p + q + 2 * β) c2 + kE3 (p + q + 2 * β) (p + q) c3
      = if uInCcw α β u ∧ vInCcw α β v then 1 else 0 := by
  unfold kE3
  obtain ⟨ap, an, a0⟩ := la
  obtain ⟨bp, bn, b0⟩ := lb
  obtain ⟨h0, h1, h2, h3⟩ := hc
  have A := an ha
  have B := b0 hb
  clear ap an a0 bp bn b0
  rcases five u with hu | hu | hu | hu | hu <;> rcases five v with hv | hv | hv | hv | hv <;>
    grind (splits := 30)

theorem core5_ccw_neg_pos (ha : α < 0) (hb : 0 < β)
    (la : Link5 α p u) (lb : Link5 β q v) (hc : CrossCcw u v c0 c1 c2 c3) :
    kE3 (p + q) (p + q + 2 * α) c0 + kE3 (p + q + 2 * α) (p + q + 2 * α + 2 * β) c1
      + kE3 (p + q + 2 * α + 2 * β) (p + q + 2 * β) c2 + kE3 (p + q + 2 * β) (p + q) c3
      = if uInCcw α β u ∧ vInCcw α β v then 1 else 0 := by
  unfold kE3
  obtain ⟨ap, an, a0⟩ := la
  obtain ⟨bp, bn, b0⟩ := lb
  obtain ⟨h0, h1, h2, h3⟩ := hc
  have A := an ha
  have B := bp hb
  clear ap an a0 bp bn b0
  rcases five u with hu | hu | hu | hu | hu <;> rcases five v with hv | hv | hv | hv | hv <;>
    grind (splits := 30)

theorem core5_ccw_zero_neg (ha : α = 0) (hb : β < 0)
    (la : Link5 α p u) (lb : Link5 β q v) (hc : CrossCcw u v c0 c1 c2 c3) :
    kE3 (p + q) (p + q + 2 * α) c0 + kE3 (p + q + 2 * α) (p + q + 2 * α + 2 * β) c1
      + kE3 (p + q + 2 * α + 2 * β) (p + q + 2 * β) c2 + kE3 (p + q + 2 * β) (p + q) c3
      = if uInCcw α β u ∧ vInCcw α β v then 1 else 0 := by
  unfold kE3
  obtain ⟨ap, an, a0⟩ := la
  obtain ⟨bp, bn, b0⟩ := lb
  obtain ⟨h0, h1, h2, h3⟩ := hc
  have A := a0 ha
  have B := bn hb
  clear ap an a0 bp bn b0
  rcases five u with hu | hu | hu | hu | hu <;> rcases five v with hv | hv | hv | hv | hv <;>
    grind (splits := 30)

theorem core5_ccw_zero_pos (ha : α = 0) (hb : 0 < β)
    (la : Link5 α p u) (lb : Link5 β q v) (hc : CrossCcw u v c0 c1 c2 c3) :
    kE3 (p + q) (p + q + 2 * α) c0 + kE3 (p + q + 2 * α) (p + q + 2 * α + 2 * β) c1
      + kE3 (p + q + 2 * α + 2 * β) (p + q + 2 * β) c2 + kE3 (p + q + 2 * β) (p + q) c3
      = if uInCcw α β u ∧ vInCcw α β v then 1 else 0 := by
  unfold kE3
  obtain ⟨ap, an, a0⟩ := la
  obtain ⟨bp, bn, b0⟩ := lb
  obtain ⟨h0, h1, h2, h3⟩ := hc
  have A := a0 ha
  have B := bp hb
  clear ap an a0 bp bn b0
  rcases five u with hu | hu | hu | hu | hu <;> rcases five v with hv | hv | hv | hv | hv <;>
    grind (splits := 30)

theorem core5_ccw_pos_neg (ha : 0 < α) (hb : β < 0)
    (la : Link5 α p u) (lb : Link5 β q v) (hc : CrossCcw u v c0 c1 c2 c3) :
    kE3 (p + q) (p + q + 2 * α) c0 + kE3 (p + q + 2 * α) (p + q + 2 * α + 2 * β) c1
      + kE3 (p + q + 2 * α + 2 * β) (p + q + 2 * β) c2 + kE3 (p + q + 2 * β) (p + q) c3
      = if uInCcw α β u ∧ vInCcw α β v then 1 else 0 := by
  unfold kE3
  obtain ⟨ap, an, a0⟩ := la
  obtain ⟨bp, bn, b0⟩ := lb
  obtain ⟨h0, h1, h2, h3⟩ := hc
  have A := ap ha
  have B := bn hb
  clear ap an a0 bp bn b0
  rcases five u with hu | hu | hu | hu | hu <;> rcases five v with hv | hv | hv | hv | hv <;>
    grind (splits := 30)

theorem core5_ccw_pos_zero (ha : 0 < α) (hb : β = 0)
    (la : Link5 α p u) (lb : Link5 β q v) (hc : CrossCcw u v c0 c1 c2 c3) :
    kE3 (p + q) (p + q + 2 * α) c0 + kE3 (p + q + 2 * α) (p + q + 2 * α + 2 * β) c1
      + kE3 (p + q + 2 * α + 2 * β) (p + q + 2 * β) c2 + kE3 (p + q + 2 * β) (p + q) c3
      = if uInCcw α β u ∧ vInCcw α β v then 1 else 0 := by
  unfold kE3
  obtain ⟨ap, an, a0⟩ := la
  obtain ⟨bp, bn, b0⟩ := lb
  obtain ⟨h0, h1, h2, h3⟩ := hc
  have A := ap ha
  have B := b0 hb
  clear ap an a0 bp bn b0
  rcases five u with hu | hu | hu | hu | hu <;> rcases five v with hv | hv | hv | hv | hv <;>
    grind (splits := 30)

theorem core5_ccw_pos_pos (ha : 0 < α) (hb : 0 < β)
    (la : Link5 α p u) (lb : Link5 β q v) (hc : CrossCcw u v c0 c1 c2 c3) :
    kE3 (p + q) (p + q + 2 * α) c0 + kE3 (p + q + 2 * α) (p + q + 2 * α + 2 * β) c1
      + kE3 (p + q + 2 * α + 2 * β) (p + q + 2 * β) c2 + kE3 (p + q + 2 * β) (p + q) c3
      = if uInCcw α β u ∧ vInCcw α β v then 1 else 0 := by
  unfold kE3
  obtain ⟨ap, an, a0⟩ := la
  obtain ⟨bp, bn, b0⟩ := lb
  obtain ⟨h0, h1, h2, h3⟩ := hc
  have A := ap ha
  have B := bp hb
  clear ap an a0 bp bn b0
  rcases five u with hu | hu | hu | hu | hu <;> rcases five v with hv | hv | hv | hv | hv <;>
    grind (splits := 30)

/-- all 8 sign cases of `(a.y, b.y)`, ccw -/
theorem core5_ccw (hab : α ≠ 0 ∨ β ≠ 0) (la : Link5 α p u) (lb : Link5 β q v) (hc : CrossCcw u v c0 c1 c2 c3) :
    kE3 (p + q) (p + q + 2 * α) c0 + kE3 (p + q + 2 * α) (p + q + 2 * α + 2 * β) c1
      + kE3 (p + q + 2 * α + 2 * β) (p + q + 2 * β) c2 + kE3 (p + q + 2 * β) (p + q) c3
      = if uInCcw α β u ∧ vInCcw α β v then 1 else 0 := by
  rcases lt_trichotomy α 0 with ha | ha | ha <;> rcases lt_trichotomy β 0 with hb | hb | hb
  · exact core5_ccw_neg_neg α β p q u v c0 c1 c2 c3 ha hb la lb hc
  · exact core5_ccw_neg_zero α β p q u v c0 c1 c2 c3 ha hb la lb hc
  · exact core5_ccw_neg_pos α β p q u v c0 c1 c2 c3 ha hb la lb hc
  · exact core5_ccw_zero_neg α β p q u v c0 c1 c2 c3 ha hb la lb hc
  · rcases hab with h | h
    · exact absurd ha h
    · exact absurd hb h
  · exact core5_ccw_zero_pos α β p q u v c0 c1 c2 c3 ha hb la lb hc
  · exact core5_ccw_pos_neg α β p q u v c0 c1 c2 c3 ha hb la lb hc
  · exact core5_ccw_pos_zero α β p q u v c0 c1 c2 c3 ha hb la lb hc
  · exact core5_ccw_pos_pos α β p q u v c0 c1 c2 c3 ha hb la lb hc

theorem core5_cw_neg_neg (ha : α < 0) (hb : β < 0)
    (la : Link5 α p u) (lb : Link5 β q v) (hc : CrossCw u v c0 c1 c2 c3) :
    kE3 (p + q) (p + q + 2 * α) c0 + kE3 (p + q + 2 * α) (p + q + 2 * α + 2 * β) c1
      + kE3 (p + q + 2 * α + 2 * β) (p + q + 2 * β) c2 + kE3 (p + q + 2 * β) (p + q) c3
      = if uInCw α β u ∧ vInCw α β v then -1 else 0 := by
  unfold kE3
  obtain ⟨ap, an, a0⟩ := la
  obtain ⟨bp, bn, b0⟩ := lb
  obtain ⟨h0, h1, h2, h3⟩ := hc
  have A := an ha
  have B := bn hb
  clear ap an a0 bp bn b0
  rcases five u with hu | hu | hu | hu | hu <;> rcases five v with hv | hv | hv | hv | hv <;>
    grind (splits := 30)

theorem core5_cw_neg_zero (ha : α < 0) (hb : β = 0)
    (la : Link5 α p u) (lb : Link5 β q v) (hc : CrossCw u v c0 c1 c2 c3) :
    kE3 (p + q) (p + q + 2 * α) c0 + kE3 (p + q + 2 * α) (p + q + 2 * α + 2 * β) c1
      + kE3 (p + q + 2 * α + 2 * β) (p + q + 2 * β) c2 + kE3 (p + q + 2 * β) (p + q) c3
      = if uInCw α β u ∧ vInCw α β v then -1 else 0 := by
  unfold kE3
  obtain ⟨ap, an, a0⟩ := la
  obtain ⟨bp, bn, b0⟩ := lb
  obtain ⟨h0, h1, h2, h3⟩ := hc
  have A := an ha
  have B := b0 hb
  clear ap an a0 bp bn b0
  rcases five u with hu | hu | hu | hu | hu <;> rcases five v with hv | hv | hv | hv | hv <;>
    grind (splits := 30)

theorem core5_cw_neg_pos (ha : α < 0) (hb : 0 < β)
    (la : Link5 α p u) (lb : Link5 β q v) (hc : CrossCw u v c0 c1 c2 c3) :
    kE3 (p + q) (p + q + 2 * α) c0 + kE3 (p + q + 2 * α) (p + q + 2 * α + 2 * β) c1
      + kE3 (p + q + 2 * α + 2 * β) (p + q + 2 * β) c2 + kE3 (p + q + 2 * β) (p + q) c3
      = if uInCw α β u ∧ vInCw α β v then -1 else 0 := by
  unfold kE3
  obtain ⟨ap, an, a0⟩ := la
  obtain ⟨bp, bn, b0⟩ := lb
  obtain ⟨h0, h1, h2, h3⟩ := hc
  have A := an ha
  have B := bp hb
  clear ap an a0 bp bn b0
  rcases five u with hu | hu | hu | hu | hu <;> rcases five v with hv | hv | hv | hv | hv <;>
    grind (splits := 30)

theorem core5_cw_zero_neg (ha : α = 0) (hb : β < 0)
    (la : Link5 α p u) (lb : Link5 β q v) (hc : CrossCw u v c0 c1 c2 c3) :
    kE3 (p + q) (p + q + 2 * α) c0 + kE3 (p + q + 2 * α) (p + q + 2 * α + 2 * β) c1
      + kE3 (p + q + 2 * α + 2 * β) (p + q + 2 * β) c2 + kE3 (p + q + 2 * β) (p + q) c3
      = if uInCw α β u ∧ vInCw α β v then -1 else 0 := by
  unfold kE3
  obtain ⟨ap, an, a0⟩ := la
  obtain ⟨bp, bn, b0⟩ := lb
  obtain ⟨h0, h1, h2, h3⟩ := hc
  have A := a0 ha
  have B := bn hb
  clear ap an a0 bp bn b0
  rcases five u with hu | hu | hu | hu | hu <;> rcases five v with hv | hv | hv | hv | hv <;>
    grind (splits := 30)

theorem core5_cw_zero_pos (ha : α = 0) (hb : 0 < β)
    (la : Link5 α p u) (lb : Link5 β q v) (hc : CrossCw u v c0 c1 c2 c3) :
    kE3 (p + q) (p + q + 2 * α) c0 + kE3 (p + q + 2 * α) (p + q + 2 * α + 2 * β) c1
      + kE3 (p + q + 2 * α + 2 * β) (p + q + 2 * β) c2 + kE3 (p + q + 2 * β) (p + q) c3
      = if uInCw α β u ∧ vInCw α β v then -1 else 0 := by
  unfold kE3
  obtain ⟨ap, an, a0⟩ := la
  obtain ⟨bp, bn, b0⟩ := lb
  obtain ⟨h0, h1, h2, h3⟩ := hc
  have A := a0 ha
  have B := bp hb
  clear ap an a0 bp bn b0
  rcases five u with hu | hu | hu | hu | hu <;> rcases five v with hv | hv | hv | hv | hv <;>
    grind (splits := 30)

theorem core5_cw_pos_neg (ha : 0 < α) (hb : β < 0)
    (la : Link5 α p u) (lb : Link5 β q v) (hc : CrossCw u v c0 c1 c2 c3) :
    kE3 (p + q) (p + q + 2 * α) c0 + kE3 (p + q + 2 * α) (p + q + 2 * α + 2 * β) c1
      + kE3 (p + q + 2 * α + 2 * β) (p + q + 2 * β) c2 + kE3 (p + q + 2 * β) (p + q) c3
      = if uInCw α β u ∧ vInCw α β v then -1 else 0 := by
  unfold kE3
  obtain ⟨ap, an, a0⟩ := la
  obtain ⟨bp, bn, b0⟩ := lb
  obtain ⟨h0, h1, h2, h3⟩ := hc
  have A := ap ha
  have B := bn hb
  clear ap an a0 bp bn b0
  rcases five u with hu | hu | hu | hu | hu <;> rcases five v with hv | hv | hv | hv | hv <;>
    grind (splits := 30)

theorem core5_cw_pos_zero (ha : 0 < α) (hb : β = 0)
    (la : Link5 α p u) (lb : Link5 β q v) (hc : CrossCw u v c0 c1 c2 c3) :
    kE3 (p + q) (p + q + 2 * α) c0 + kE3 (p + q + 2 * α) (p + q + 2 * α + 2 * β) c1
      + kE3 (p + q + 2 * α + 2 * β) (p + q + 2 * β) c2 + kE3 (p + q + 2 * β) (p + q) c3
      = if uInCw α β u ∧ vInCw α β v then -1 else 0 := by
  unfold kE3
  obtain ⟨ap, an, a0⟩ := la
  obtain ⟨bp, bn, b0⟩ := lb
  obtain ⟨h0, h1, h2, h3⟩ := hc
  have A := ap ha
  have B := b0 hb
  clear ap an a0 bp bn b0
  rcases five u with hu | hu | hu | hu | hu <;> rcases five v with hv | hv | hv | hv | hv <;>
    grind (splits := 30)

theorem core5_cw_pos_pos (ha : 0 < α) (hb : 0 < β)
    (la : Link5 α p u) (lb : Link5 β q v) (hc : CrossCw u v c0 c1 c2 c3) :
    kE3 (p + q) (p + q + 2 * α) c0 + kE3 (p + q + 2 * α) (p + q + 2 * α + 2 * β) c1
      + kE3 (p + q + 2 * α + 2 * β) (p + q + 2 * β) c2 + kE3 (p + q + 2 * β) (p + q) c3
      = if uInCw α β u ∧ vInCw α β v then -1 else 0 := by
  unfold kE3
  obtain ⟨ap, an, a0⟩ := la
  obtain ⟨bp, bn, b0⟩ := lb
  obtain ⟨h0, h1, h2, h3⟩ := hc
  have A := ap ha
  have B := bp hb
  clear ap an a0 bp bn b0
  rcases five u with hu | hu | hu | hu | hu <;> rcases five v with hv | hv | hv | hv | hv <;>
    grind (splits := 30)

/-- all 8 sign cases of `(a.y, b.y)`, cw -/
theorem core5_cw (hab : α ≠ 0 ∨ β ≠ 0) (la : Link5 α p u) (lb : Link5 β q v) (hc : CrossCw u v c0 c1 c2 c3) :
    kE3 (p + q) (p + q + 2 * α) c0 + kE3 (p + q + 2 * α) (p + q + 2 * α + 2 * β) c1
      + kE3 (p + q + 2 * α + 2 * β) (p + q + 2 * β) c2 + kE3 (p + q + 2 * β) (p + q) c3
      = if uInCw α β u ∧ vInCw α β v then -1 else 0 := by
  rcases lt_trichotomy α 0 with ha | ha | ha <;> rcases lt_trichotomy β 0 with hb | hb | hb
  · exact core5_cw_neg_neg α β p q u v c0 c1 c2 c3 ha hb la lb hc
  · exact core5_cw_neg_zero α β p q u v c0 c1 c2 c3 ha hb la lb hc
  · exact core5_cw_neg_pos α β p q u v c0 c1 c2 c3 ha hb la lb hc
  · exact core5_cw_zero_neg α β p q u v c0 c1 c2 c3 ha hb la lb hc
  · rcases hab with h | h
    · exact absurd ha h
    · exact absurd hb h
  · exact core5_cw_zero_pos α β p q u v c0 c1 c2 c3 ha hb la lb hc
  · exact core5_cw_pos_neg α β p q u v c0 c1 c2 c3 ha hb la lb hc
  · exact core5_cw_pos_zero α β p q u v c0 c1 c2 c3 ha hb la lb hc
  · exact core5_cw_pos_pos α β p q u v c0 c1 c2 c3 ha hb la lb hc

end core5

end PEval.Sensing
