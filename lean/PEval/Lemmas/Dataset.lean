import Mathlib.Data.List.Forall2
import PEval.Model.Dataset
/-!
Helper lemmas for C16 (core Lean + `List.Forall₂` from Mathlib): inversion of the loader's `Except` pipelines, `mapE`,
quaternion identities (closed by `grind`'s ring reasoning over `Rat`), the `prev`-chain walk.
-/
namespace PEval.Dataset
open PEval

/-! ## `mapE` -/

theorem mapE_forall₂ {α β} {f : α → Except Err β} :
    ∀ {l : List α} {r : List β}, mapE f l = .ok r → List.Forall₂ (fun a b => f a = .ok b) l r
  | [], r, h => by
    simp only [mapE] at h
    cases h
    exact .nil
  | a :: l, r, h => by
    simp only [mapE] at h
    cases hfa : f a with
    | error e => simp [hfa] at h
    | ok b =>
      simp only [hfa] at h
      cases hl : mapE f l with
      | error e => simp [hl] at h
      | ok bs =>
        simp only [hl] at h
        cases h
        exact .cons hfa (mapE_forall₂ hl)

theorem mapE_ok_of_forall {α β} {f : α → Except Err β} :
    ∀ {l : List α}, (∀ a ∈ l, ∃ b, f a = .ok b) → ∃ r, mapE f l = .ok r
  | [], _ => ⟨[], rfl⟩
  | a :: l, h => by
    obtain ⟨b, hb⟩ := h a (List.mem_cons_self)
    obtain ⟨bs, hbs⟩ := mapE_ok_of_forall (l := l) (fun x hx => h x (List.mem_cons_of_mem _ hx))
    exact ⟨b :: bs, by simp [mapE, hb, hbs]⟩

theorem forall₂_imp {α β} {R S : α → β → Prop} {l : List α} {r : List β}
    (h : List.Forall₂ R l r) (hi : ∀ a b, a ∈ l → R a b → S a b) : List.Forall₂ S l r := by
  induction h with
  | nil => exact .nil
  | cons hab _ ih =>
    exact .cons (hi _ _ List.mem_cons_self hab)
      (ih (fun a b ha => hi a b (List.mem_cons_of_mem _ ha)))

theorem forall₂_mem_right {α β} {R : α → β → Prop} {l : List α} {r : List β}
    (h : List.Forall₂ R l r) {b : β} (hb : b ∈ r) : ∃ a ∈ l, R a b := by
  induction h with
  | nil => cases hb
  | cons hab _ ih =>
    rcases List.mem_cons.1 hb with rfl | hb'
    · exact ⟨_, List.mem_cons_self, hab⟩
    · obtain ⟨a, ha, h'⟩ := ih hb'
      exact ⟨a, List.mem_cons_of_mem _ ha, h'⟩

theorem forall₂_mem_left {α β} {R : α → β → Prop} {l : List α} {r : List β}
    (h : List.Forall₂ R l r) {a : α} (ha : a ∈ l) : ∃ b ∈ r, R a b := by
  induction h with
  | nil => cases ha
  | cons hab _ ih =>
    rcases List.mem_cons.1 ha with rfl | ha'
    · exact ⟨_, List.mem_cons_self, hab⟩
    · obtain ⟨b, hb, h'⟩ := ih ha'
      exact ⟨b, List.mem_cons_of_mem _ hb, h'⟩

/-! ## inversion of `objectOf` and `sampleToFrame` -/

theorem objectOf_ok {T : Tables} {cfg : Config} {time : Nat} {ego : EgoPose} {cs : CalibratedSensor}
    {a : Annotation} {o : Obj} (h : objectOf T cfg time ego cs a = .ok o) :
    ∃ pose vis attrs name vel tracked,
      boxPose cfg.frame ego cs a = .ok pose ∧ visibilityOf T a = .ok vis ∧
      attributeNamesOf T a = .ok attrs ∧ categoryNameOf T a = .ok name ∧
      fpCheck cfg (convertLabel cfg.merge name) = .ok () ∧
      velocityOf T true a = .ok vel ∧ trackedOf T cfg a = .ok tracked ∧
      o = { uuid := a.instanceToken, label := convertLabel cfg.merge name, name := name, attributes := attrs,
            size := a.size, points := a.numLidarPts, visibility := vis, frame := cfg.frame, time := time,
            pose := pose, velocity := vel, tracked := tracked } := by
  unfold objectOf at h
  simp only [bind, Except.bind, pure, Except.pure] at h
  split at h
  · cases h
  · rename_i pose hpose
    split at h
    · cases h
    · rename_i vis hvis
      split at h
      · cases h
      · rename_i attrs hattrs
        split at h
        · cases h
        · rename_i name hname
          split at h
          · cases h
          · rename_i u hfp
            split at h
            · cases h
            · rename_i vel hvel
              split at h
              · cases h
              · rename_i tracked htracked
                cases h
                exact ⟨pose, vis, attrs, name, vel, tracked, hpose, hvis, hattrs, hname, hfp, hvel, htracked, rfl⟩

theorem sampleToFrame_ok {T : Tables} {cfg : Config} {n : Nat} {s : Sample} {f : Frame}
    (h : sampleToFrame T cfg n s = .ok f) :
    ∃ sd ego cs objs frs,
      lidarOf T s.token = .ok sd ∧ (cfg.frame = "BASE_LINK" ∨ cfg.frame = "MAP") ∧
      lookup EgoPose.token T.egoPoses sd.egoPoseToken = .ok ego ∧
      lookup CalibratedSensor.token T.calibratedSensors sd.calibratedSensorToken = .ok cs ∧
      sensorFrames T = .ok frs ∧
      mapE (objectOf T cfg s.timestamp ego cs) (annsOf T s.token) = .ok objs ∧
      f = { unixTime := s.timestamp, frameName := toString n, objects := objs,
            ego2map := ⟨ego.translation, ego.rotation⟩ } := by
  unfold sampleToFrame at h
  simp only [bind, Except.bind, pure, Except.pure, throw, throwThe, MonadExceptOf.throw] at h
  split at h
  · cases h
  · rename_i sd hsd
    split at h
    · rename_i hfr
      split at h
      · cases h
      · rename_i ego hego
        split at h
        · cases h
        · rename_i cs hcs
          split at h
          · cases h
          · rename_i frs hfrs
            split at h
            · cases h
            · rename_i objs hobjs
              cases h
              exact ⟨sd, ego, cs, objs, frs, hsd, hfr, hego, hcs, hfrs, hobjs, rfl⟩
    · cases h

/-- the objects of a loaded frame, one per annotation of the sample, each the loop body's result -/
theorem sampleToFrame_objects {T : Tables} {cfg : Config} {n : Nat} {s : Sample} {f : Frame}
    (h : sampleToFrame T cfg n s = .ok f) :
    ∃ sd ego cs,
      lidarOf T s.token = .ok sd ∧
      lookup EgoPose.token T.egoPoses sd.egoPoseToken = .ok ego ∧
      lookup CalibratedSensor.token T.calibratedSensors sd.calibratedSensorToken = .ok cs ∧
      f.ego2map = ⟨ego.translation, ego.rotation⟩ ∧ f.unixTime = s.timestamp ∧ f.frameName = toString n ∧
      List.Forall₂ (fun a o => objectOf T cfg s.timestamp ego cs a = .ok o) (annsOf T s.token) f.objects := by
  obtain ⟨sd, ego, cs, objs, _, hsd, _, hego, hcs, _, hobjs, rfl⟩ := sampleToFrame_ok h
  exact ⟨sd, ego, cs, hsd, hego, hcs, rfl, rfl, rfl, mapE_forall₂ hobjs⟩

/-- inversion of `sensorFrames`: every channel converts, and the traffic-light rotations do not cancel -/
theorem sensorFrames_ok {T : Tables} {frs : List String} (h : sensorFrames T = .ok frs) :
    mapE (fun cs =>
      match lookup Sensor.token T.sensors cs.sensorToken with
      | .error e => .error e
      | .ok s => Enums.frameFromValue s.channel) T.calibratedSensors = .ok frs ∧
    ((tlrRotations T frs) = [] ∨ (tlrRotations T frs).foldl Quat.add Quat.zero ≠ Quat.zero) := by
  unfold sensorFrames at h
  split at h
  · cases h
  · rename_i frames hm
    split at h
    · cases h
    · rename_i hc
      cases h
      refine ⟨hm, ?_⟩
      by_cases he : tlrRotations T frs = []
      · exact Or.inl he
      · right
        intro hz
        apply hc
        simp [hz, he]

/-! ## `loadFrom` -/

theorem loadFrom_spec {T : Tables} {cfg : Config} :
    ∀ {l : List Sample} {n : Nat} {fs : List Frame}, loadFrom T cfg n l = .ok fs →
      fs.length = l.length ∧
      ∀ i (h : i < l.length), ∃ f, fs[i]? = some f ∧ sampleToFrame T cfg (n + i) l[i] = .ok f
  | [], n, fs, h => by
    simp only [loadFrom] at h
    cases h
    exact ⟨rfl, fun i hi => absurd hi (Nat.not_lt_zero _)⟩
  | s :: rest, n, fs, h => by
    simp only [loadFrom] at h
    cases hs : sampleToFrame T cfg n s with
    | error e => simp [hs] at h
    | ok f =>
      simp only [hs] at h
      cases hr : loadFrom T cfg (n + 1) rest with
      | error e => simp [hr] at h
      | ok fr =>
        simp only [hr] at h
        cases h
        obtain ⟨hlen, hidx⟩ := loadFrom_spec hr
        refine ⟨by simp [hlen], ?_⟩
        intro i hi
        cases i with
        | zero => exact ⟨f, rfl, by simpa using hs⟩
        | succ j =>
          have hj : j < rest.length := by simpa using hi
          obtain ⟨g, hg1, hg2⟩ := hidx j hj
          refine ⟨g, by simpa using hg1, ?_⟩
          have : n + (j + 1) = n + 1 + j := by omega
          simpa [this] using hg2

/-! ## quaternion identities -/

theorem rotate_conj_rotate (q : Quat) (v : Vec3) :
    rotate q (rotate q.conj v) = ⟨q.normSq * q.normSq * v.x, q.normSq * q.normSq * v.y, q.normSq * q.normSq * v.z⟩ := by
  simp only [rotate, Quat.conj, Quat.normSq, Vec3.mk.injEq]
  refine ⟨?_, ?_, ?_⟩ <;> grind

theorem mul_conj_mul (q r : Quat) :
    q.mul (q.conj.mul r) = ⟨q.normSq * r.w, q.normSq * r.x, q.normSq * r.y, q.normSq * r.z⟩ := by
  simp only [Quat.mul, Quat.conj, Quat.normSq, Quat.mk.injEq]
  refine ⟨?_, ?_, ?_, ?_⟩ <;> grind

/-- moving a pose into a unit frame and back -/
theorem applyPose_moveInv (t : Vec3) (q : Quat) (hq : q.normSq = 1) (p : Pose) :
    applyPose ⟨t, q⟩ (moveInv t q p) = p := by
  obtain ⟨⟨px, py, pz⟩, ⟨rw, rx, ry, rz⟩⟩ := p
  obtain ⟨tx, ty, tz⟩ := t
  simp only [applyPose, moveInv, rotate_conj_rotate, mul_conj_mul, hq, Vec3.add, Vec3.sub]
  simp only [Pose.mk.injEq, Vec3.mk.injEq, Quat.mk.injEq]
  refine ⟨⟨?_, ?_, ?_⟩, ⟨?_, ?_, ?_, ?_⟩⟩ <;> grind

/-- a sensor calibrated at the origin of the ego frame does not move anything -/
theorem moveInv_identity (p : Pose) : moveInv Vec3.zero Quat.one p = p := by
  obtain ⟨⟨px, py, pz⟩, ⟨rw, rx, ry, rz⟩⟩ := p
  simp only [moveInv, rotate, Quat.conj, Quat.one, Quat.mul, Vec3.zero, Vec3.sub,
    Pose.mk.injEq, Vec3.mk.injEq, Quat.mk.injEq]
  refine ⟨⟨?_, ?_, ?_⟩, ⟨?_, ?_, ?_, ?_⟩⟩ <;> grind

/-- rotations preserve the rotation property: the norm is multiplicative -/
theorem normSq_mul (p q : Quat) : (p.mul q).normSq = p.normSq * q.normSq := by
  simp only [Quat.mul, Quat.normSq]
  grind

theorem normSq_conj (q : Quat) : q.conj.normSq = q.normSq := by
  simp only [Quat.conj, Quat.normSq]
  grind

/-! ## token lookup -/

theorem lookup_ok_mem {α} {tok : α → String} {tbl : List α} {t : String} {r : α}
    (h : lookup tok tbl t = .ok r) : r ∈ tbl ∧ tok r = t := by
  unfold lookup at h
  split at h
  · rename_i r' hf
    cases h
    exact ⟨by simpa using List.mem_of_find?_eq_some hf, by simpa using List.find?_some hf⟩
  · cases h

theorem lookup_ok_of_mem {α} {tok : α → String} {tbl : List α} {t : String}
    (h : ∃ r ∈ tbl, tok r = t) : ∃ r, lookup tok tbl t = .ok r := by
  unfold lookup
  cases hf : tbl.reverse.find? (fun r => tok r == t) with
  | some r => exact ⟨r, rfl⟩
  | none =>
    obtain ⟨r, hr, ht⟩ := h
    have := List.find?_eq_none.1 hf r (by simpa using hr)
    simp [ht] at this

theorem lookup_error {α} {tok : α → String} {tbl : List α} {t : String} {e : Err}
    (h : lookup tok tbl t = .error e) : e = "KeyError" := by
  unfold lookup at h
  split at h
  · cases h
  · cases h; rfl

/-- in a table whose tokens are unique, `lookup` finds THE record carrying the token -/
theorem lookup_of_unique {α} {tok : α → String} {tbl : List α} {r : α} (hr : r ∈ tbl)
    (huniq : ∀ x ∈ tbl, tok x = tok r → x = r) : lookup tok tbl (tok r) = .ok r := by
  obtain ⟨x, hx⟩ := lookup_ok_of_mem (tok := tok) (tbl := tbl) (t := tok r) ⟨r, hr, rfl⟩
  obtain ⟨hm, ht⟩ := lookup_ok_mem hx
  rw [hx, huniq x hm ht]

/-! ## label table -/

theorem convertLabel_cases (merge : Bool) (name : String) :
    (∃ p ∈ pairTable merge, name.toLower = p.2 ∧ convertLabel merge name = p.1) ∨
    (name.toLower ∉ (pairTable merge).map (·.2) ∧ convertLabel merge name = "UNKNOWN") := by
  unfold convertLabel convertWith
  cases hf : (pairTable merge).find? (fun p => name.toLower == p.2) with
  | some p =>
    left
    exact ⟨p, List.mem_of_find?_eq_some hf, by simpa using List.find?_some hf, rfl⟩
  | none =>
    right
    refine ⟨?_, rfl⟩
    intro hmem
    obtain ⟨p, hp, hp2⟩ := List.mem_map.1 hmem
    have := List.find?_eq_none.1 hf p hp
    simp [hp2] at this

/-! ## the walk along `prev` -/

/-- an invariant `Q` of the cursor and a property `P` of everything appended -/
theorem iterate_inv {T : Tables} {start : Nat} (P Q : Annotation → Prop)
    (step : ∀ cur nxt t, Q cur → lookup Annotation.token T.annotations cur.prev = .ok nxt →
      timeOf T nxt.sampleToken = .ok t → Q nxt ∧ (absDiff t start < windowUs → P nxt)) :
    ∀ (fuel : Nat) (cur : Annotation) (elapsed : Nat) (acc recs : List Annotation),
      Q cur → (∀ r ∈ acc, P r) → iterate T start fuel cur elapsed acc = .ok recs → ∀ r ∈ recs, P r
  | 0, cur, elapsed, acc, recs, _, hacc, h => by
    simp only [iterate] at h
    cases h
    exact hacc
  | fuel + 1, cur, elapsed, acc, recs, hq, hacc, h => by
    simp only [iterate] at h
    split at h
    · split at h
      · cases h; exact hacc
      · split at h
        · cases h
        · rename_i nxt hn
          split at h
          · cases h
          · rename_i t ht
            obtain ⟨hq', hp'⟩ := step cur nxt t hq hn ht
            refine iterate_inv P Q step fuel nxt _ _ recs hq' ?_ h
            split
            · rename_i hlt
              intro r hr
              rcases List.mem_append.1 hr with hr | hr
              · exact hacc r hr
              · simp only [List.mem_singleton] at hr
                subst hr
                exact hp' hlt
            · exact hacc
    · cases h; exact hacc

theorem iterate_length {T : Tables} {start : Nat} :
    ∀ (fuel : Nat) (cur : Annotation) (elapsed : Nat) (acc recs : List Annotation),
      acc.length ≤ maxPast → iterate T start fuel cur elapsed acc = .ok recs → recs.length ≤ maxPast
  | 0, cur, elapsed, acc, recs, hacc, h => by
    simp only [iterate] at h
    cases h
    exact hacc
  | fuel + 1, cur, elapsed, acc, recs, hacc, h => by
    simp only [iterate] at h
    split at h
    · rename_i hc
      split at h
      · cases h; exact hacc
      · split at h
        · cases h
        · split at h
          · cases h
          · refine iterate_length fuel _ _ _ recs ?_ h
            split
            · simp only [List.length_append, List.length_singleton]
              omega
            · exact hacc
    · cases h; exact hacc

/-- the walk cannot fail when every record it can reach resolves -/
theorem iterate_ok {T : Tables} {start : Nat} (Q : Annotation → Prop)
    (step : ∀ cur, Q cur → cur.prev ≠ "" →
      ∃ nxt t, lookup Annotation.token T.annotations cur.prev = .ok nxt ∧
        timeOf T nxt.sampleToken = .ok t ∧ Q nxt) :
    ∀ (fuel : Nat) (cur : Annotation) (elapsed : Nat) (acc : List Annotation),
      Q cur → ∃ recs, iterate T start fuel cur elapsed acc = .ok recs
  | 0, cur, elapsed, acc, _ => ⟨acc, by simp [iterate]⟩
  | fuel + 1, cur, elapsed, acc, hq => by
    simp only [iterate]
    split
    · split
      · exact ⟨acc, rfl⟩
      · rename_i hprev
        have hne : cur.prev ≠ "" := by simpa using hprev
        obtain ⟨nxt, t, hn, ht, hq'⟩ := step cur hq hne
        simp only [hn, ht]
        exact iterate_ok Q step fuel nxt _ _ hq'
    · exact ⟨acc, rfl⟩

end PEval.Dataset
