import PEval.Lemmas.Threshold
import PEval.Model.Config
/-!
# Lemmas about the configuration model (C15)

What each accepted step of the configuration classes guarantees (`*_ok`), the keys the model reads
(`readKeys`) and the congruence lemma behind the characterisation of finding F8.  Core Lean only.
-/
namespace PEval.Config
open PEval PEval.Threshold

/-- exactly one complete kind of range bound (x/y position or max/min distance) is given -/
def OneRangeKind (d : Dict) : Prop :=
  (given (get d "max_x_position") = true ∧ given (get d "max_y_position") = true ∧
     given (get d "max_distance") = false ∧ given (get d "min_distance") = false) ∨
  (given (get d "max_x_position") = false ∧ given (get d "max_y_position") = false ∧
     given (get d "max_distance") = true ∧ given (get d "min_distance") = true)

theorem checkThresholds_ok {v : PyVal} {n : Nat} {r : PyVal} (h : checkThresholds v n = .ok r) (hn : 1 ≤ n) :
    r = v ∧ IsFlatNorm n v := by
  cases v with
  | list xs =>
    unfold checkThresholds at h
    by_cases h1 : xs.any (fun t => !isReal t) = true
    · simp [h1, thresholdError] at h
    · by_cases h2 : (xs.length != n) = true
      · simp [h1, h2, thresholdError] at h
      · simp only [h1, h2, if_false, Bool.false_eq_true] at h
        refine ⟨by cases h; rfl, xs, rfl, by simpa using h2, ?_⟩
        intro x hx
        have := h1; simp only [List.any_eq_true, not_exists, not_and] at this
        simpa using this x hx
  | str s =>
    unfold checkThresholds at h
    by_cases h1 : (s.length != 0) = true
    · simp [h1, thresholdError] at h
    · have : (n != 0) = true := by simp; omega
      simp [h1, this, thresholdError] at h
  | num q => simp [checkThresholds, typeError] at h
  | bool b => simp [checkThresholds, typeError] at h
  | none => simp [checkThresholds, typeError] at h
  | other t => simp [checkThresholds, typeError] at h

theorem optFlat_ok {v : PyVal} {n : Nat} {r : PyVal} (h : optFlat v n = .ok r) :
    (v = .none ∧ r = .none) ∨ (given v = true ∧ IsFlatNorm n r) := by
  cases v with
  | none => left; exact ⟨rfl, by simp [optFlat] at h; exact h.symm⟩
  | num q => right; exact ⟨rfl, flat_result_norm (by simpa [optFlat] using h)⟩
  | bool b => right; exact ⟨rfl, flat_result_norm (by simpa [optFlat] using h)⟩
  | str s => right; exact ⟨rfl, flat_result_norm (by simpa [optFlat] using h)⟩
  | list xs => right; exact ⟨rfl, flat_result_norm (by simpa [optFlat] using h)⟩
  | other t => right; exact ⟨rfl, flat_result_norm (by simpa [optFlat] using h)⟩

theorem optNested_ok {v : PyVal} {n : Nat} {r : PyVal} (h : optNested v n = .ok r) :
    r = .list [] ∨ IsNestedNorm n r := by
  unfold optNested at h
  by_cases ht : truthy v = true
  · rw [if_pos ht] at h; exact Or.inr (nested_result_norm h)
  · rw [if_neg ht] at h; left; cases h; rfl

theorem optCheck_ok {v : PyVal} {n : Nat} {r : PyVal} (h : optCheck v n = .ok r) (hn : 1 ≤ n) :
    r = v ∧ (v = .none ∨ IsFlatNorm n v) := by
  cases v with
  | none => simp [optCheck] at h; exact ⟨h.symm, Or.inl rfl⟩
  | num q => have := checkThresholds_ok (by simpa [optCheck] using h) hn; exact ⟨this.1, Or.inr this.2⟩
  | bool b => have := checkThresholds_ok (by simpa [optCheck] using h) hn; exact ⟨this.1, Or.inr this.2⟩
  | str s => have := checkThresholds_ok (by simpa [optCheck] using h) hn; exact ⟨this.1, Or.inr this.2⟩
  | list xs => have := checkThresholds_ok (by simpa [optCheck] using h) hn; exact ⟨this.1, Or.inr this.2⟩
  | other t => have := checkThresholds_ok (by simpa [optCheck] using h) hn; exact ⟨this.1, Or.inr this.2⟩

theorem checkTasks_ok {sup : List String} {d : Dict} {t : String} (h : checkTasks sup d = .ok t) :
    d.lookup "evaluation_task" = some (.str t) ∧ t ∈ sup := by
  unfold checkTasks at h
  split at h
  · cases h
  · rename_i t' heq
    by_cases hc : sup.contains t' = true
    · rw [if_pos hc] at h; cases h
      exact ⟨heq, by simpa using hc⟩
    · rw [if_neg hc] at h; cases h
  · cases h

theorem checkParameters_iff (valid keys : List String) :
    checkParameters valid keys = .ok () ↔ ∀ k ∈ keys, k ∈ valid := by
  unfold checkParameters
  by_cases h : keys.all (fun k => valid.contains k) = true
  · rw [if_pos h]
    simp only [List.all_eq_true, List.contains_iff_mem] at h
    simp only [true_iff]; exact h
  · rw [if_neg h]
    simp only [List.all_eq_true, List.contains_iff_mem] at h
    constructor
    · intro h'; cases h'
    · intro h'; exact absurd h' h


/-- the range-bound facts of an accepted configuration -/
structure RangeFacts (task : String) (d : Dict) (n : Nat) (xl yl dl ml : PyVal) : Prop where
  kinds :
    (given (get d "max_x_position") = true ∧ given (get d "max_y_position") = true ∧
      given (get d "max_distance") = false ∧ given (get d "min_distance") = false ∧
      IsFlatNorm n xl ∧ IsFlatNorm n yl ∧ dl = .none ∧ ml = .none) ∨
    (given (get d "max_x_position") = false ∧ given (get d "max_y_position") = false ∧
      given (get d "max_distance") = true ∧ given (get d "min_distance") = true ∧
      xl = .none ∧ yl = .none ∧ IsFlatNorm n dl ∧ IsFlatNorm n ml) ∨
    (is3d task = false ∧ xl = .none ∧ yl = .none ∧ dl = .none ∧ ml = .none)

theorem rangeParams_ok {task : String} {d : Dict} {n : Nat} {xl yl dl ml : PyVal}
    (h : rangeParams task d n = .ok (xl, yl, dl, ml)) : RangeFacts task d n xl yl dl ml := by
  unfold rangeParams at h
  simp only at h
  cases gx : given (get d "max_x_position") <;> cases gy : given (get d "max_y_position") <;>
    cases gd : given (get d "max_distance") <;> cases gm : given (get d "min_distance") <;>
    simp only [gx, gy, gd, gm, Bool.or_true, Bool.or_false, Bool.and_true, Bool.and_false,
      Bool.false_eq_true, if_false, if_true, Bool.or_self, Bool.and_self] at h
  all_goals first
    | (cases h; done)
    | skip
  all_goals first
    | (cases h3 : is3d task <;> simp only [h3, Bool.not_true, Bool.not_false, Bool.false_eq_true, if_false, if_true] at h
       · cases h; exact ⟨Or.inr (Or.inr ⟨h3, rfl, rfl, rfl, rfl⟩)⟩
       · cases h)
    | (split at h
       · cases h
       · rename_i a ha
         split at h
         · cases h
         · rename_i b hb
           cases h
           first
             | exact ⟨Or.inl ⟨gx, gy, gd, gm, flat_result_norm ha, flat_result_norm hb, rfl, rfl⟩⟩
             | exact ⟨Or.inr (Or.inl ⟨gx, gy, gd, gm, rfl, rfl, flat_result_norm ha, flat_result_norm hb⟩)⟩)

/-- what an accepted `_extract_params` guarantees -/
structure ExtractFacts (task : String) (d : Dict) (n : Nat) (f m : Dict) : Prop where
  range : ∃ xl yl dl ml, RangeFacts task d n xl yl dl ml ∧
    f.lookup "max_x_position_list" = some xl ∧ f.lookup "max_y_position_list" = some yl ∧
    f.lookup "max_distance_list" = some dl ∧ f.lookup "min_distance_list" = some ml
  minPts : task = "detection" → given (get d "min_point_numbers") = true
  perLabel : ∀ k ∈ perLabelFilterKeys, ∃ v, f.lookup k = some v ∧ (v = .none ∨ IsFlatNorm n v)
  metrics : m = metricThresholdKeys.map fun k => (k, get d k)

theorem RangeFacts.lists {task : String} {d : Dict} {n : Nat} {xl yl dl ml : PyVal}
    (h : RangeFacts task d n xl yl dl ml) :
    (xl = .none ∨ IsFlatNorm n xl) ∧ (yl = .none ∨ IsFlatNorm n yl) ∧
    (dl = .none ∨ IsFlatNorm n dl) ∧ (ml = .none ∨ IsFlatNorm n ml) := by
  rcases h.kinds with ⟨_, _, _, _, a, b, c, e⟩ | ⟨_, _, _, _, a, b, c, e⟩ | ⟨_, a, b, c, e⟩
  · exact ⟨Or.inr a, Or.inr b, Or.inl c, Or.inl e⟩
  · exact ⟨Or.inl a, Or.inl b, Or.inr c, Or.inr e⟩
  · exact ⟨Or.inl a, Or.inl b, Or.inl c, Or.inl e⟩

theorem optFlat_list {v : PyVal} {n : Nat} {r : PyVal} (h : optFlat v n = .ok r) :
    r = .none ∨ IsFlatNorm n r := by
  rcases optFlat_ok h with ⟨_, h⟩ | ⟨_, h⟩
  · exact Or.inl h
  · exact Or.inr h

theorem extractParams_ok {task : String} {nAll : Nat} {d : Dict} {n : Nat} {f m : Dict}
    (h : extractParams task nAll d = .ok (n, f, m)) : ExtractFacts task d n f m := by
  unfold extractParams at h
  split at h
  · cases h
  · rename_i n' hn'
    split at h
    · cases h
    · rename_i xl yl dl ml hr
      split at h
      · cases h
      · rename_i radii hrad
        split at h
        · cases h
        · rename_i minPts hmp
          split at h
          · cases h
          · rename_i hdet
            split at h
            · cases h
            · rename_i conf hconf
              cases h
              have R := rangeParams_ok hr
              obtain ⟨l1, l2, l3, l4⟩ := R.lists
              refine ⟨⟨xl, yl, dl, ml, R, by simp [List.lookup], by simp [List.lookup], by simp [List.lookup], by simp [List.lookup]⟩, ?_, ?_, rfl⟩
              · intro ht
                subst ht
                simp at hdet
                rcases optFlat_ok hmp with ⟨_, e⟩ | ⟨g, _⟩
                · subst e; simp [given] at hdet
                · exact g
              · intro k hk
                simp only [perLabelFilterKeys, List.mem_cons, List.not_mem_nil, or_false] at hk
                rcases hk with rfl | rfl | rfl | rfl | rfl | rfl | rfl
                · exact ⟨xl, by simp [List.lookup], l1⟩
                · exact ⟨yl, by simp [List.lookup], l2⟩
                · exact ⟨dl, by simp [List.lookup], l3⟩
                · exact ⟨ml, by simp [List.lookup], l4⟩
                · exact ⟨radii, by simp [List.lookup], optFlat_list hrad⟩
                · exact ⟨minPts, by simp [List.lookup], optFlat_list hmp⟩
                · exact ⟨conf, by simp [List.lookup], optFlat_list hconf⟩



theorem metricsConfigBase_ok {m : Dict} {n : Nat} {r : Dict} (h : metricsConfigBase m n = .ok r) :
    r.map (·.1) = metricThresholdKeys ∧ ∀ kv ∈ r, kv.2 = .list [] ∨ IsNestedNorm n kv.2 := by
  unfold metricsConfigBase at h
  split at h
  · cases h
  · rename_i c hc
    split at h
    · cases h
    · rename_i p hp
      split at h
      · cases h
      · rename_i i2 hi2
        split at h
        · cases h
        · rename_i i3 hi3
          cases h
          refine ⟨rfl, ?_⟩
          intro kv hkv
          simp only [List.mem_cons, List.not_mem_nil, or_false] at hkv
          rcases hkv with rfl | rfl | rfl | rfl
          · exact optNested_ok hc
          · exact optNested_ok hp
          · exact optNested_ok hi2
          · exact optNested_ok hi3

theorem metricsScoreConfig_ok {task : String} {m : Dict} {n : Nat} {mc : Option Dict}
    (h : metricsScoreConfig task m n = .ok mc) :
    task ≠ "prediction" ∧
    (∀ valid, metricParamNames task = some valid → ∀ k ∈ "target_labels" :: m.map (·.1), k ∈ valid) ∧
    ∀ r, mc = some r →
      r.map (·.1) = metricThresholdKeys ∧ ∀ kv ∈ r, kv.2 = .list [] ∨ IsNestedNorm n kv.2 := by
  unfold metricsScoreConfig at h
  split at h
  · rename_i hnone
    cases h
    refine ⟨?_, ?_, ?_⟩
    · intro ht; subst ht; simp [metricParamNames] at hnone
    · intro valid hv; rw [hnone] at hv; cases hv
    · intro r hr; cases hr
  · rename_i valid hvalid
    split at h
    · cases h
    · rename_i hcheck
      split at h
      · cases h
      · rename_i hpred
        split at h
        · cases h
        · rename_i r hr
          cases h
          refine ⟨?_, ?_, ?_⟩
          · intro ht; subst ht; simp at hpred
          · intro valid' hv; rw [hvalid] at hv; cases hv
            exact (checkParameters_iff _ _).mp hcheck
          · intro r' hr'; cases hr'
            exact metricsConfigBase_ok hr


/-- the keys of the evaluation config dictionary the model of `PerceptionEvaluationConfig` reads -/
def readKeys : List String :=
  ["evaluation_task", "matching_label_policy", "label_prefix", "target_labels",
   "max_x_position", "max_y_position", "max_distance", "min_distance",
   "max_matchable_radii", "min_point_numbers", "confidence_threshold",
   "ignore_attributes", "target_uuids", "uuid_matching_first"] ++ metricThresholdKeys

theorem perceptionConfig_congr (d d' : Dict) (frames : List String)
    (h : ∀ k ∈ readKeys, d.lookup k = d'.lookup k) :
    perceptionConfig d frames = perceptionConfig d' frames := by
  have e1 := h "evaluation_task" (by decide)
  have e2 := h "matching_label_policy" (by decide)
  have e3 := h "label_prefix" (by decide)
  have e4 := h "target_labels" (by decide)
  have e5 := h "max_x_position" (by decide)
  have e6 := h "max_y_position" (by decide)
  have e7 := h "max_distance" (by decide)
  have e8 := h "min_distance" (by decide)
  have e9 := h "max_matchable_radii" (by decide)
  have e10 := h "min_point_numbers" (by decide)
  have e11 := h "confidence_threshold" (by decide)
  have e12 := h "ignore_attributes" (by decide)
  have e13 := h "target_uuids" (by decide)
  have e14 := h "uuid_matching_first" (by decide)
  have e15 := h "center_distance_thresholds" (by decide)
  have e16 := h "plane_distance_thresholds" (by decide)
  have e17 := h "iou_2d_thresholds" (by decide)
  have e18 := h "iou_3d_thresholds" (by decide)
  have c1 : checkTasks Gen.perceptionSupportTasks d = checkTasks Gen.perceptionSupportTasks d' := by
    unfold checkTasks; rw [e1]
  have c2 : matchingPolicy d = matchingPolicy d' := by
    unfold matchingPolicy get; rw [e2]
  have c3 : ∀ task n, rangeParams task d n = rangeParams task d' n := by
    intro task n; unfold rangeParams get; rw [e5, e6, e7, e8]
  have c4 : ∀ task nAll, extractParams task nAll d = extractParams task nAll d' := by
    intro task nAll
    unfold extractParams
    simp only [c3, metricThresholdKeys, List.map]
    unfold get
    rw [e4, e9, e10, e11, e12, e13, e14, e15, e16, e17, e18]
  unfold perceptionConfig
  rw [c1, c2, e3]
  simp only [c4]


theorem targetLabelCount_pos {v : PyVal} {nAll n : Nat} (h : targetLabelCount v nAll = .ok n)
    (hAll : 1 ≤ nAll) : 1 ≤ n := by
  unfold targetLabelCount at h
  split at h
  · cases h; exact hAll
  · rename_i xs
    by_cases h0 : (xs.length == 0) = true
    · rw [if_pos h0] at h; cases h; exact hAll
    · rw [if_neg h0] at h
      split at h
      · cases h; simp at h0; exact Nat.pos_of_ne_zero (by simpa using h0)
      · cases h
  · rename_i s
    by_cases h0 : (s.length == 0) = true
    · rw [if_pos h0] at h; cases h; exact hAll
    · rw [if_neg h0] at h; cases h; simp at h0; exact Nat.pos_of_ne_zero (by simpa using h0)
  · cases h

/-- the four range lists of an accepted `CriticalObjectFilterConfig` -/
theorem criticalRange_ok {is2d : Bool} {n : Nat} {mx my mxd mnd xl yl dl ml : PyVal} (hn : 1 ≤ n)
    (h : (if truthy mx && truthy my then
            match checkThresholds mx n with
            | .error e => .error e
            | .ok xl =>
              match checkThresholds my n with
              | .error e => .error e
              | .ok yl => .ok (xl, yl, PyVal.none, PyVal.none)
          else if truthy mxd && truthy mnd then
            match checkThresholds mxd n with
            | .error e => .error e
            | .ok dl =>
              match checkThresholds mnd n with
              | .error e => .error e
              | .ok ml => .ok (PyVal.none, PyVal.none, dl, ml)
          else if is2d then .ok (PyVal.none, PyVal.none, PyVal.none, PyVal.none)
          else .error "RuntimeError" : Except Err (PyVal × PyVal × PyVal × PyVal)) = .ok (xl, yl, dl, ml)) :
    (xl = mx ∧ yl = my ∧ IsFlatNorm n xl ∧ IsFlatNorm n yl ∧ dl = .none ∧ ml = .none) ∨
    (xl = .none ∧ yl = .none ∧ dl = mxd ∧ ml = mnd ∧ IsFlatNorm n dl ∧ IsFlatNorm n ml) ∨
    (is2d = true ∧ xl = .none ∧ yl = .none ∧ dl = .none ∧ ml = .none) := by
  split at h
  · split at h
    · cases h
    · rename_i a ha
      split at h
      · cases h
      · rename_i b hb
        cases h
        obtain ⟨e1, n1⟩ := checkThresholds_ok ha hn
        obtain ⟨e2, n2⟩ := checkThresholds_ok hb hn
        subst e1; subst e2
        exact Or.inl ⟨rfl, rfl, n1, n2, rfl, rfl⟩
  · split at h
    · split at h
      · cases h
      · rename_i a ha
        split at h
        · cases h
        · rename_i b hb
          cases h
          obtain ⟨e1, n1⟩ := checkThresholds_ok ha hn
          obtain ⟨e2, n2⟩ := checkThresholds_ok hb hn
          subst e1; subst e2
          exact Or.inr (Or.inl ⟨rfl, rfl, rfl, rfl, n1, n2⟩)
    · split at h
      · rename_i h2; cases h
        exact Or.inr (Or.inr ⟨h2, rfl, rfl, rfl, rfl⟩)
      · cases h


end PEval.Config
