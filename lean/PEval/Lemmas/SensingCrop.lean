import PEval.Model.Sensing
/-!
Helper lemmas for C12 that need no geometry: the inside/outside masks are complementary, the
frame loops are folds over pure per-object results, the non-detection crops compose to one filter.
-/

namespace PEval.Sensing

/-! ### masks -/

theorem keepOutside_eq_not (cols : Nat) (area : List Corner) (p : Pt) :
    keepOutside cols area p = !keepInside cols area p := by
  unfold keepOutside keepInside
  by_cases hc : cols < 3
  · simp only [hc, if_true]
    by_cases h : 0 < wn area p <;> simp [h] <;> omega
  · simp only [hc, if_false]
    by_cases h : 0 < wn area p
    · have h' : ¬ wn area p ≤ 0 := by omega
      by_cases h1 : zMin area ≤ p.z <;> by_cases h2 : p.z ≤ zMax area <;>
        simp [h, h', h1, h2] <;> grind
    · have h' : wn area p ≤ 0 := by omega
      simp [h, h']

theorem crop_ok {cols : Nat} {cloud : List Pt} {area : List Corner} {inside : Bool} {r : List Pt}
    (h : crop cols cloud area inside = .ok r) :
    2 ≤ cols ∧ 3 ≤ area.length / 2 ∧ area.length % 2 = 0 ∧
      r = cloud.filter (fun p => if inside then keepInside cols area p else keepOutside cols area p) := by
  unfold crop at h
  split at h
  · cases h
  · split at h
    · cases h
    · rename_i h1 h2
      injection h with h
      refine ⟨by omega, by omega, by omega, ?_⟩
      subst h
      cases inside <;> simp [cropInside, cropOutside]

theorem crop_of_valid {cols : Nat} (cloud : List Pt) {area : List Corner} (inside : Bool)
    (hc : 2 ≤ cols) (h3 : 3 ≤ area.length / 2) (he : area.length % 2 = 0) :
    crop cols cloud area inside
      = .ok (if inside then cropInside cols cloud area else cropOutside cols cloud area) := by
  unfold crop
  have h1 : ¬ cols < 2 := by omega
  have h2 : ¬ (area.length / 2 < 3 ∨ area.length % 2 ≠ 0) := by omega
  rw [if_neg h1, if_neg h2]

theorem boxCorners_length (b : Box) (k : Rat) : (boxCorners b k).length = 8 := rfl

theorem cropBox_eq (cols : Nat) (cloud : List Pt) (b : Box) (k : Rat) (inside : Bool) :
    cropBox cols cloud b k inside =
      if cols < 2 then .error "RuntimeError"
      else .ok (if inside then cropInside cols cloud (boxCorners b k) else cropOutside cols cloud (boxCorners b k)) := by
  unfold cropBox crop
  simp [boxCorners_length]

/-! ### `Except` plumbing -/

theorem bind_ok {α β : Type} {x : Except Err α} {f : α → Except Err β} {b : β}
    (h : (x >>= f) = .ok b) : ∃ a, x = .ok a ∧ f a = .ok b := by
  cases x with
  | error e => cases h
  | ok a => exact ⟨a, rfl, h⟩

/-! ### detection loop -/

/-- the per-object result when the cloud has at least two columns -/
def sres (cfg : Cfg) (cols : Nat) (cloud : List Pt) (o : Obj) : SRes :=
  let ins := cropInside cols cloud (boxCorners o.box (scaleFactor cfg o.dist))
  { gt := o.id, inside := ins, num := ins.length,
    isDetected := decide ((ins.length : Int) ≥ cfg.minPoints),
    isOccluded := isNone o.visibility }

theorem sensingResult_ok {cfg : Cfg} {cols : Nat} {cloud : List Pt} {o : Obj} {r : SRes}
    (h : sensingResult cfg cols cloud o = .ok r) : 2 ≤ cols ∧ r = sres cfg cols cloud o := by
  unfold sensingResult at h
  obtain ⟨ins, h1, h2⟩ := bind_ok h
  rw [cropBox_eq] at h1
  split at h1
  · cases h1
  · injection h1 with h1
    injection h2 with h2
    refine ⟨by omega, ?_⟩
    subst h1 h2
    simp [sres]

/-- pushing results one after the other -/
def pushAll (fr : FrameRes) (rs : List SRes) : FrameRes := rs.foldl FrameRes.push fr

theorem evaluateDetection_ok {cfg : Cfg} {cols : Nat} {cloud : List Pt} :
    ∀ {objs : List Obj} {fr0 fr : FrameRes},
      evaluateDetection cfg cols cloud objs fr0 = .ok fr →
      fr = pushAll fr0 (objs.map (sres cfg cols cloud)) ∧ (objs ≠ [] → 2 ≤ cols)
  | [], fr0, fr, h => by
    simp [evaluateDetection, pure, Except.pure] at h
    subst h
    simp [pushAll]
  | o :: os, fr0, fr, h => by
    unfold evaluateDetection at h
    obtain ⟨r, h1, h2⟩ := bind_ok h
    obtain ⟨hc, hr⟩ := sensingResult_ok h1
    obtain ⟨ih, _⟩ := evaluateDetection_ok h2
    subst hr
    refine ⟨?_, fun _ => hc⟩
    rw [ih]
    simp [pushAll]

theorem push_warning (fr : FrameRes) (r : SRes) :
    (fr.push r).warning = fr.warning ++ (if classify r = .warning then [r] else []) := by
  unfold FrameRes.push
  cases h : classify r <;> simp

theorem push_success (fr : FrameRes) (r : SRes) :
    (fr.push r).success = fr.success ++ (if classify r = .success then [r] else []) := by
  unfold FrameRes.push
  cases h : classify r <;> simp

theorem push_fail (fr : FrameRes) (r : SRes) :
    (fr.push r).fail = fr.fail ++ (if classify r = .fail then [r] else []) := by
  unfold FrameRes.push
  cases h : classify r <;> simp

theorem push_nonDetection (fr : FrameRes) (r : SRes) : (fr.push r).nonDetection = fr.nonDetection := by
  unfold FrameRes.push
  cases h : classify r <;> simp

theorem pushAll_lists (rs : List SRes) : ∀ (fr : FrameRes),
    (pushAll fr rs).warning = fr.warning ++ rs.filter (fun r => classify r = .warning) ∧
    (pushAll fr rs).success = fr.success ++ rs.filter (fun r => classify r = .success) ∧
    (pushAll fr rs).fail = fr.fail ++ rs.filter (fun r => classify r = .fail) ∧
    (pushAll fr rs).nonDetection = fr.nonDetection := by
  induction rs with
  | nil => intro fr; simp [pushAll]
  | cons r rs ih =>
    intro fr
    have := ih (fr.push r)
    simp only [pushAll, List.foldl_cons] at this ⊢
    obtain ⟨h1, h2, h3, h4⟩ := this
    rw [h1, h2, h3, h4, push_warning, push_success, push_fail, push_nonDetection]
    refine ⟨?_, ?_, ?_, rfl⟩ <;> cases hc : classify r <;> simp [hc]

/-! ### non-detection loops -/

/-- a point survives the removal of every object's scaled box -/
def outsideAll (cfg : Cfg) (cols : Nat) (objs : List Obj) (p : Pt) : Bool :=
  objs.all (fun o => keepOutside cols (boxCorners o.box (scaleFactor cfg o.dist)) p)

theorem cropOutsideAll_ok {cfg : Cfg} {cols : Nat} :
    ∀ {objs : List Obj} {pts r : List Pt}, cropOutsideAll cfg cols objs pts = .ok r →
      r = pts.filter (outsideAll cfg cols objs) ∧ (objs ≠ [] → 2 ≤ cols)
  | [], pts, r, h => by
    simp [cropOutsideAll, pure, Except.pure] at h
    subst h
    have : outsideAll cfg cols [] = fun _ => true := by funext p; simp [outsideAll]
    rw [this, List.filter_eq_self.mpr]
    · exact ⟨rfl, fun h => absurd rfl h⟩
    · intro _ _; rfl
  | o :: os, pts, r, h => by
    unfold cropOutsideAll at h
    obtain ⟨rest, h1, h2⟩ := bind_ok h
    rw [cropBox_eq] at h1
    split at h1
    · cases h1
    · injection h1 with h1
      obtain ⟨ih, _⟩ := cropOutsideAll_ok h2
      refine ⟨?_, fun _ => by omega⟩
      subst h1
      rw [ih]
      simp only [cropOutside, Bool.false_eq_true, if_false, List.filter_filter]
      congr 1
      funext p
      simp [outsideAll, Bool.and_comm]

/-- the clouds reported by `_evaluate_pointcloud_for_non_detection` -/
def reported (cfg : Cfg) (cols : Nat) (objs : List Obj) (cs : List (List Pt)) : List (List Pt) :=
  (cs.map (fun c => c.filter (outsideAll cfg cols objs))).filter (fun c => c.length ≠ 0)

theorem evaluateNonDetection_ok {cfg : Cfg} {cols : Nat} {objs : List Obj} :
    ∀ {cs : List (List Pt)} {fr0 fr : FrameRes}, evaluateNonDetection cfg cols objs cs fr0 = .ok fr →
      fr.nonDetection = fr0.nonDetection ++ reported cfg cols objs cs ∧
      fr.warning = fr0.warning ∧ fr.success = fr0.success ∧ fr.fail = fr0.fail
  | [], fr0, fr, h => by
    simp [evaluateNonDetection, pure, Except.pure] at h
    subst h
    simp [reported]
  | c :: cs, fr0, fr, h => by
    unfold evaluateNonDetection at h
    obtain ⟨rest, h1, h2⟩ := bind_ok h
    obtain ⟨hr, _⟩ := cropOutsideAll_ok h1
    obtain ⟨ih, i2, i3, i4⟩ := evaluateNonDetection_ok h2
    subst hr
    by_cases hl : (List.filter (outsideAll cfg cols objs) c).length ≠ 0
    · rw [if_pos hl] at ih i2 i3 i4
      refine ⟨?_, i2, i3, i4⟩
      rw [ih]
      have hl' : List.filter (outsideAll cfg cols objs) c ≠ [] := by
        intro h0; rw [h0] at hl; exact hl rfl
      simp [reported, hl']
    · rw [if_neg hl] at ih i2 i3 i4
      refine ⟨?_, i2, i3, i4⟩
      rw [ih]
      have hl' : List.filter (outsideAll cfg cols objs) c = [] := by
        cases hf : List.filter (outsideAll cfg cols objs) c with
        | nil => rfl
        | cons a l => rw [hf] at hl; simp at hl
      simp only [reported, List.map_cons, List.filter_cons, hl']
      simp

theorem managerCropAreas_ok {cols : Nat} {cloud : List Pt} :
    ∀ {areas : List (List Corner)} {r : List (List Pt)}, managerCropAreas cols cloud areas = .ok r →
      r = areas.map (fun a => cloud.filter (keepInside cols a))
  | [], r, h => by
    simp [managerCropAreas, pure, Except.pure] at h
    subst h; rfl
  | a :: as, r, h => by
    unfold managerCropAreas at h
    obtain ⟨c, h1, h2⟩ := bind_ok h
    obtain ⟨cs, h3, h4⟩ := bind_ok h2
    obtain ⟨_, _, _, hc⟩ := crop_ok h1
    have ih := managerCropAreas_ok h3
    simp [pure, Except.pure] at h4
    subst h4 hc ih
    simp

theorem managerCropObjects_ok {mcfg : Cfg} {cols : Nat} {objs : List Obj} :
    ∀ {cs r : List (List Pt)}, managerCropObjects mcfg cols objs cs = .ok r →
      r = cs.map (fun c => c.filter (outsideAll mcfg cols objs))
  | [], r, h => by
    simp [managerCropObjects, pure, Except.pure] at h
    subst h; rfl
  | c :: cs, r, h => by
    unfold managerCropObjects at h
    obtain ⟨x, h1, h2⟩ := bind_ok h
    obtain ⟨xs, h3, h4⟩ := bind_ok h2
    obtain ⟨hx, _⟩ := cropOutsideAll_ok h1
    have ih := managerCropObjects_ok h3
    simp [pure, Except.pure] at h4
    subst h4 hx ih
    simp

end PEval.Sensing

namespace PEval.Sensing

/-! ### the `area[i + 1]` index is unobservable on prisms -/

/-- the edge step with `area[next_idx]` in place of the code's `area[i + 1]` -/
def edgeStepNext (area : List Corner) (n : Nat) (p : Pt) (cnt : Nat) (i : Nat) : Nat :=
  let a := cornerAt area i
  let b := cornerAt area ((i + 1) % n)
  let vt : Rat := if b.y ≠ a.y then (p.y - a.y) / (b.y - a.y) else p.x
  let valid : Bool := decide (p.x < a.x + vt * (b.x - a.x))
  let inc : Bool := decide (a.y ≤ p.y) && decide (b.y > p.y) && valid
  let dec : Bool := decide (a.y > p.y) && decide (b.y ≤ p.y) && valid
  let cnt := if inc then u8inc cnt else cnt
  if dec then u8dec cnt else cnt

def wnNext (area : List Corner) (p : Pt) : Nat :=
  (List.range (area.length / 2)).foldl (edgeStepNext area (area.length / 2) p) 0

theorem foldl_congr_mem {α β : Type} (f g : α → β → α) :
    ∀ (l : List β) (c : α), (∀ c, ∀ i ∈ l, f c i = g c i) → l.foldl f c = l.foldl g c
  | [], _, _ => rfl
  | i :: l, c, h => by
    simp only [List.foldl_cons]
    rw [h c i (List.mem_cons_self ..)]
    exact foldl_congr_mem f g l _ (fun c j hj => h c j (List.mem_cons_of_mem _ hj))

theorem edgeStep_eq_next (area : List Corner) (n : Nat) (p : Pt) (cnt i : Nat)
    (hq : (cornerAt area (i + 1)).y = (cornerAt area ((i + 1) % n)).y) :
    edgeStep area n p cnt i = edgeStepNext area n p cnt i := by
  unfold edgeStep edgeStepNext
  simp only [hq]

/-- when the first corner of the second plane has the same `y` as the first corner of the first
plane (the documented precondition "upper and lower plane has same shape"), indexing with
`area[i + 1]` and with `area[next_idx]` give the same counter -/
theorem wn_eq_wnNext (area : List Corner) (p : Pt)
    (h : (cornerAt area (area.length / 2)).y = (cornerAt area 0).y) : wn area p = wnNext area p := by
  unfold wn wnNext
  apply foldl_congr_mem
  intro c i hi
  apply edgeStep_eq_next
  have hi' : i < area.length / 2 := List.mem_range.mp hi
  by_cases hlast : i + 1 = area.length / 2
  · rw [hlast, Nat.mod_self, h]
  · rw [Nat.mod_eq_of_lt (by omega)]

/-! ### the three result lists together -/

theorem three_way_perm (rs : List SRes) :
    (rs.filter (fun r => classify r = .warning) ++ rs.filter (fun r => classify r = .success)
      ++ rs.filter (fun r => classify r = .fail)).Perm rs := by
  induction rs with
  | nil => simp
  | cons r rs ih =>
    cases hc : classify r
    · simp only [List.filter_cons, hc, decide_true, if_true]
      have : ¬ (Verdict.warning = Verdict.success) := by decide
      have : ¬ (Verdict.warning = Verdict.fail) := by decide
      simp only [*, decide_false, Bool.false_eq_true, if_false, List.cons_append]
      exact List.Perm.cons r ih
    · simp only [List.filter_cons, hc, decide_true, if_true]
      have : ¬ (Verdict.success = Verdict.warning) := by decide
      have : ¬ (Verdict.success = Verdict.fail) := by decide
      simp only [*, decide_false, Bool.false_eq_true, if_false, List.append_assoc, List.cons_append]
      refine List.Perm.trans List.perm_middle (List.Perm.cons r ?_)
      rw [← List.append_assoc]; exact ih
    · simp only [List.filter_cons, hc, decide_true, if_true]
      have : ¬ (Verdict.fail = Verdict.warning) := by decide
      have : ¬ (Verdict.fail = Verdict.success) := by decide
      simp only [*, decide_false, Bool.false_eq_true, if_false]
      exact List.Perm.trans List.perm_middle (List.Perm.cons r ih)

theorem sres_gt (cfg : Cfg) (cols : Nat) (cloud : List Pt) (objs : List Obj) :
    (objs.map (sres cfg cols cloud)).map (·.gt) = objs.map (·.id) := by
  simp [List.map_map, Function.comp_def, sres]

end PEval.Sensing
