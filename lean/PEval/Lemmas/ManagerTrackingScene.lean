import PEval.Lemmas.ManagerTracking
import PEval.Lemmas.ClearRename
/-!
Helper lemmas for the tracking extension of C13 (core Lean only), part 2: the scene tracking score as
CLEAR over the pooled history, scene counts as sums of the per-frame counts, renaming of track ids.
-/

namespace PEval.ManagerTracking
open PEval.Manager PEval PEval.Clear

variable {E C : Type}

/-! ### scene score = CLEAR over `[[]] ++ stored buckets` with summed ground-truth numbers -/

theorem sceneTrack_eq (labels : List Nat) (cfgs : List TCfg) (s : TState) :
    sceneTrack labels cfgs (tsceneAcc labels.length s)
      = evaluateTracking labels cfgs (fun l => (s.frameResults.map (·.det.gt l)).sum)
          (fun l => [] :: s.frameResults.map (·.bucket l)) := by
  unfold sceneTrack
  apply evaluateTracking_congr
  intro l hl
  exact ⟨tscene_gt _ s l hl, tscene_hist _ s l hl⟩

theorem clearAt_frameTrack (labels : List Nat) (cfgs : List TCfg) (prev : Option (List (List TRes)))
    (cur : List (List TRes)) (d : Det) (k l : Nat) (cfg : TCfg) (lab : Nat) (t : Rat)
    (hk : cfgs[k]? = some cfg) (hl : (labels.zip cfg.thr)[l]? = some (lab, t)) :
    clearAt (frameTrack labels cfgs prev cur d) k l
      = some (evalClear ⟨cfg.maximize, [(lab, t)]⟩ (d.gt l)
          [viewBucket cfg.mode (prevBucket prev l), viewBucket cfg.mode (cur.getD l [])]) := by
  unfold frameTrack
  rw [clearAt_evaluateTracking labels cfgs _ _ k l cfg lab t hk hl]
  rfl

/-! ### scene counts are the sums of the per-frame counts -/

/-- the per-frame `CLEAR` of configuration `cc` and mode `m`, label `l`, for every stored frame with its predecessor -/
def frameOuts (cc : Cfg) (m l : Nat) (p : Option (List (List TRes))) (rs : List TFrameResult) : List Clear.Out :=
  (framePairs p rs).map (fun qr =>
    evalClear cc (qr.2.det.gt l) [viewBucket m (prevBucket qr.1 l), viewBucket m (qr.2.bucket l)])

theorem frameOuts_acc (cc : Cfg) (m l : Nat) (p : Option (List (List TRes))) (rs : List TFrameResult) :
    (frameOuts cc m l p rs).map (·.acc)
      = steps cc (viewBucket m (prevBucket p l)) (rs.map (fun r => viewBucket m (r.bucket l))) := by
  rw [steps_framePairs]
  unfold frameOuts
  rw [List.map_map]
  apply List.map_congr_left
  intro qr _
  show clear cc [_, _] = _
  rw [clear_pair]

theorem frameOuts_g (cc : Cfg) (m l : Nat) (p : Option (List (List TRes))) (rs : List TFrameResult) :
    (frameOuts cc m l p rs).map (·.g) = rs.map (·.det.gt l) := by
  unfold frameOuts
  rw [List.map_map]
  conv => rhs; rw [← framePairs_map_snd p rs, List.map_map]
  rfl

theorem frameOuts_predictNum (cc : Cfg) (m l : Nat) (p : Option (List (List TRes))) (rs : List TFrameResult) :
    (frameOuts cc m l p rs).map (·.predictNum) = rs.map (fun r => (r.bucket l).length) := by
  unfold frameOuts
  rw [List.map_map]
  conv => rhs; rw [← framePairs_map_snd p rs, List.map_map]
  apply List.map_congr_left
  intro qr _
  simp only [Function.comp, evalClear, predictNum_pair]
  simp [viewBucket]

/-- the stored tracking scores of a consistent history are the `frameOuts` -/
theorem stored_clearAt (labels : List Nat) (cfgs : List TCfg) (rs : List TFrameResult)
    (hc : Consistent labels cfgs none rs) (k l : Nat) (cfg : TCfg) (lab : Nat) (t : Rat)
    (hk : cfgs[k]? = some cfg) (hl : (labels.zip cfg.thr)[l]? = some (lab, t)) :
    rs.map (fun r => clearAt r.track k l)
      = (frameOuts ⟨cfg.maximize, [(lab, t)]⟩ cfg.mode l none rs).map some := by
  unfold frameOuts
  rw [List.map_map]
  conv => lhs; rw [← framePairs_map_snd none rs, List.map_map]
  apply List.map_congr_left
  intro qr hm
  simp only [Function.comp]
  rw [hc qr hm, clearAt_frameTrack labels cfgs _ _ _ k l cfg lab t hk hl]
  rfl

/-- CLEAR over `[[]] ++ buckets` against the per-frame evaluations: accumulators, ground-truth number, `predict_num` -/
theorem scene_vs_frames (cc : Cfg) (m l : Nat) (rs : List TFrameResult) :
    (evalClear cc (rs.map (·.det.gt l)).sum (([] :: rs.map (·.bucket l)).map (viewBucket m))).acc
      = accSum ((frameOuts cc m l none rs).map (·.acc)) ∧
    (evalClear cc (rs.map (·.det.gt l)).sum (([] :: rs.map (·.bucket l)).map (viewBucket m))).g
      = ((frameOuts cc m l none rs).map (·.g)).sum ∧
    (evalClear cc (rs.map (·.det.gt l)).sum (([] :: rs.map (·.bucket l)).map (viewBucket m))).predictNum
      = ((frameOuts cc m l none rs).map (·.predictNum)).sum := by
  refine ⟨?_, ?_, ?_⟩
  · simp only [evalClear]
    rw [frameOuts_acc, List.map_cons, clear_cons, List.map_map]
    rfl
  · simp only [evalClear]
    rw [frameOuts_g]
  · simp only [evalClear]
    rw [frameOuts_predictNum, List.map_cons, predictNum_cons, List.map_map, List.map_map]
    congr 1
    apply List.map_congr_left
    intro r _
    simp [viewBucket]

/-! ### renaming of track ids -/

section rename
variable {f g : Nat → Nat}

/-- rename the estimate's uuid with `f` and the ground truth's uuid with `g` -/
def TRes.rename (f g : Nat → Nat) (r : TRes) : TRes :=
  { r with est := f r.est, gt := r.gt.map (Gt.rename g) }

def renameTB (f g : Nat → Nat) (tb : List (List TRes)) : List (List TRes) :=
  tb.map (fun b => b.map (TRes.rename f g))

def TFrameResult.rename (f g : Nat → Nat) (r : TFrameResult) : TFrameResult :=
  { r with tb := renameTB f g r.tb }

def TState.rename (f g : Nat → Nat) (s : TState) : TState :=
  { s with frameResults := s.frameResults.map (TFrameResult.rename f g) }

/-- the same manager fed with renamed track ids: the tracking view of every frame evaluation is renamed -/
def TSem.rename (f g : Nat → Nat) (sem : TSem E C) : TSem E C :=
  { sem with evalTB := fun gf e c => renameTB f g (sem.evalTB gf e c) }

theorem view_rename (m : Nat) (r : TRes) : (r.rename f g).view m = (r.view m).rename f g := rfl

theorem viewBucket_rename (m : Nat) (b : List TRes) :
    viewBucket m (b.map (TRes.rename f g)) = renameFrame f g (viewBucket m b) := by
  simp [viewBucket, renameFrame, List.map_map, Function.comp_def, view_rename]

theorem getD_renameTB (tb : List (List TRes)) (l : Nat) :
    (renameTB f g tb).getD l [] = (tb.getD l []).map (TRes.rename f g) := by
  unfold renameTB
  rw [List.getD_eq_getElem?_getD, List.getD_eq_getElem?_getD, List.getElem?_map]
  cases tb[l]? <;> simp

theorem bucket_rename (r : TFrameResult) (l : Nat) :
    (r.rename f g).bucket l = (r.bucket l).map (TRes.rename f g) :=
  getD_renameTB r.tb l

theorem prevBucket_rename (prev : Option (List (List TRes))) (l : Nat) :
    prevBucket (prev.map (renameTB f g)) l = (prevBucket prev l).map (TRes.rename f g) := by
  cases prev with
  | none => rfl
  | some tb => exact getD_renameTB tb l

theorem evalClear_rename (hf : Function.Injective f) (hg : Function.Injective g) (cfg : Cfg) (n : Nat)
    (hist : List (List Clear.Res)) : evalClear cfg n (renameHist f g hist) = evalClear cfg n hist := by
  unfold evalClear
  rw [clear_rename hf hg, predictNum_eq, predictNum_eq, resultCount_rename]

theorem evaluateTracking_rename (hf : Function.Injective f) (hg : Function.Injective g)
    (labels : List Nat) (cfgs : List TCfg) (gt : Nat → Nat) (hist : Nat → List (List TRes)) :
    evaluateTracking labels cfgs gt (fun l => (hist l).map (fun b => b.map (TRes.rename f g)))
      = evaluateTracking labels cfgs gt hist := by
  unfold evaluateTracking
  apply List.map_congr_left
  intro cfg _
  unfold trackingScore trackingClears
  have h : (labelInputs labels cfg gt (fun l => (hist l).map (fun b => b.map (TRes.rename f g)))).map
        (fun l => evalClear ⟨cfg.maximize, [(l.label, l.thr)]⟩ l.g l.hist)
      = (labelInputs labels cfg gt hist).map (fun l => evalClear ⟨cfg.maximize, [(l.label, l.thr)]⟩ l.g l.hist) := by
    unfold labelInputs
    rw [List.map_map, List.map_map]
    apply List.map_congr_left
    intro ⟨lt, i⟩ _
    simp only [Function.comp]
    have : ((hist i).map (fun b => b.map (TRes.rename f g))).map (viewBucket cfg.mode)
        = renameHist f g ((hist i).map (viewBucket cfg.mode)) := by
      simp [renameHist, List.map_map, Function.comp_def, viewBucket_rename]
    rw [this, evalClear_rename hf hg]
  simp only [h]

theorem frameTrack_rename (hf : Function.Injective f) (hg : Function.Injective g)
    (labels : List Nat) (cfgs : List TCfg) (prev : Option (List (List TRes))) (cur : List (List TRes)) (d : Det) :
    frameTrack labels cfgs (prev.map (renameTB f g)) (renameTB f g cur) d = frameTrack labels cfgs prev cur d := by
  unfold frameTrack
  rw [← evaluateTracking_rename hf hg labels cfgs d.gt (fun l => [prevBucket prev l, cur.getD l []])]
  congr 1
  funext l
  simp only [List.map_cons, List.map_nil, prevBucket_rename, getD_renameTB]

theorem tstep_rename (hf : Function.Injective f) (hg : Function.Injective g) (sem : TSem E C) (s : TState) (op : Op E C) :
    (tstep (sem.rename f g) (s.rename f g) op).1 = (tstep sem s op).1.rename f g ∧
    (tstep (sem.rename f g) (s.rename f g) op).2.track = (tstep sem s op).2.track := by
  cases op with
  | add gf e c =>
    have hlast : ((s.rename f g).frameResults.getLast?.map (·.tb))
        = (s.frameResults.getLast?.map (·.tb)).map (renameTB f g) := by
      simp [TState.rename, List.getLast?_map, TFrameResult.rename, Option.map_map, Function.comp_def]
    have hr : tevalFrame (sem.rename f g) gf e c (s.rename f g).frameResults.getLast?
        = (tevalFrame sem gf e c s.frameResults.getLast?).rename f g := by
      simp only [tevalFrame, TFrameResult.rename, TSem.rename]
      rw [hlast, frameTrack_rename hf hg]
    constructor
    · simp only [tstep, taddFrameResult, hr]
      simp [TState.rename]
    · simp only [tstep, taddFrameResult, hr, TOut.track]
      rfl
  | scene =>
    refine ⟨rfl, ?_⟩
    show sceneTrack sem.labels sem.cfgs (tsceneAcc sem.labels.length (s.rename f g))
      = sceneTrack sem.labels sem.cfgs (tsceneAcc sem.labels.length s)
    rw [sceneTrack_eq, sceneTrack_eq,
      ← evaluateTracking_rename hf hg sem.labels sem.cfgs _ (fun l => [] :: s.frameResults.map (·.bucket l))]
    congr 1
    · funext l
      simp [TState.rename, List.map_map, Function.comp_def, TFrameResult.rename]
    · funext l
      simp [TState.rename, List.map_map, Function.comp_def, bucket_rename]
  | lookup t thr => exact ⟨rfl, rfl⟩

theorem trun_rename (hf : Function.Injective f) (hg : Function.Injective g) (sem : TSem E C) (s : TState)
    (ops : List (Op E C)) :
    (trun (sem.rename f g) (s.rename f g) ops).1 = (trun sem s ops).1.rename f g ∧
    (trun (sem.rename f g) (s.rename f g) ops).2.map TOut.track = (trun sem s ops).2.map TOut.track := by
  induction ops generalizing s with
  | nil => exact ⟨rfl, rfl⟩
  | cons op ops ih =>
    simp only [trun, List.map_cons]
    obtain ⟨h1, h2⟩ := tstep_rename hf hg sem s op
    obtain ⟨i1, i2⟩ := ih (tstep sem s op).1
    rw [h1]
    exact ⟨i1, by rw [h2, i2]⟩

end rename

end PEval.ManagerTracking
