import PEval.Lemmas.MatchingResults
/-!
The "no blocking pair" invariant of the greedy loops: every candidate of a loop is either still
available (both members remaining) or *blocked* by an already made pair that shares a member with it
and satisfies a relation `R` (stage 1: compatible and not worse; stage 2: compatible or not worse).
-/
namespace PEval.Matching

/-- some pair of `ps` shares a member with `(i, j)` and is related to the score `s` by `R` -/
def Blocked (R : Nat × Nat → Rat → Prop) (ps : List (Nat × Nat)) (i j : Nat) (s : Rat) : Prop :=
  ∃ p ∈ ps, (p.1 = i ∨ p.2 = j) ∧ R p s

theorem Blocked.mono {R ps ps' i j s} (h : Blocked R ps i j s) (hsub : ∀ p ∈ ps, p ∈ ps') :
    Blocked R ps' i j s := by
  obtain ⟨p, hp, rest⟩ := h; exact ⟨p, hsub p hp, rest⟩

/-- the pair's own score is not worse than `s` ("scores at least as well") -/
def NotWorse (t : Tbl) (p : Nat × Nat) (s : Rat) : Prop :=
  ∃ s', t.score p.1 p.2 = some s' ∧ better t.maximize s s' = false

/-- stage-1 relation: the blocking pair is label-compatible and scores at least as well -/
def R1 (t : Tbl) (p : Nat × Nat) (s : Rat) : Prop := t.valid p.1 p.2 = true ∧ NotWorse t p s
/-- stage-2 relation: the blocking pair is label-compatible, or scores at least as well -/
def R2 (t : Tbl) (p : Nat × Nat) (s : Rat) : Prop := t.valid p.1 p.2 = true ∨ NotWorse t p s

/-- invariant of one loop over the index sets `es0 × gs0`: every candidate (w.r.t. the loop's filter)
is available or blocked -/
def StageInv (t : Tbl) (s1 : Bool) (R : Nat × Nat → Rat → Prop) (es0 gs0 : List Nat) (st : St) : Prop :=
  ∀ i j s, i ∈ es0 → j ∈ gs0 → t.score i j = some s → (s1 = true → t.valid i j = true) →
    (i ∈ st.es ∧ j ∈ st.gs) ∨ Blocked R st.pairs i j s

theorem stage_preserves (t : Tbl) (s1 : Bool) (R : Nat × Nat → Rat → Prop) (es0 gs0 : List Nat)
    (hR : ∀ i0 j0 s0 s, t.score i0 j0 = some s0 → (s1 = true → t.valid i0 j0 = true) →
      better t.maximize s s0 = false → R (i0, j0) s)
    (fuel : Nat) (st : St) (h : StageInv t s1 R es0 gs0 st) :
    StageInv t s1 R es0 gs0 (stage t s1 fuel st) := by
  refine stage_induction (StageInv t s1 R es0 gs0) ?_ fuel st h
  intro st i0 j0 s0 hst hb
  obtain ⟨hi0, hj0, hs0, hv0, hopt⟩ := pick_spec hb
  intro i j s hie hjg hs hv
  rcases hst i j s hie hjg hs hv with ⟨hi, hj⟩ | hbl
  · have hnw : better t.maximize s s0 = false := hopt i j s hi hj hs hv
    by_cases hii : i = i0
    · right
      exact ⟨(i0, j0), by simp, Or.inl hii.symm, hR i0 j0 s0 s hs0 hv0 hnw⟩
    · by_cases hjj : j = j0
      · right
        exact ⟨(i0, j0), by simp, Or.inr hjj.symm, hR i0 j0 s0 s hs0 hv0 hnw⟩
      · left
        exact ⟨(List.mem_erase_of_ne hii).2 hi, (List.mem_erase_of_ne hjj).2 hj⟩
  · right; exact hbl.mono (fun p hp => by simp [hp])

/-- the state after the first loop -/
def stage1State (t : Tbl) (es gs : List Nat) : St :=
  stage t true es.length { es := es, gs := gs, pairs := [] }

theorem matchFrom_eq (t : Tbl) (es gs : List Nat) :
    matchFrom t es gs = stage t false (stage1State t es gs).es.length (stage1State t es gs) := rfl

/-- pairs of the first loop are label-compatible and scored -/
theorem stage1_pairs_valid (t : Tbl) (es gs : List Nat) :
    ∀ p ∈ (stage1State t es gs).pairs, t.valid p.1 p.2 = true ∧ ∃ s, t.score p.1 p.2 = some s := by
  obtain ⟨new, hnew, hall⟩ := stage_pairs_append t true es.length { es := es, gs := gs, pairs := [] }
  intro p hp
  unfold stage1State at hp
  rw [hnew] at hp
  simp only [List.nil_append] at hp
  obtain ⟨_, _, h3, h4⟩ := hall p hp
  exact ⟨h4 rfl, h3⟩

/-- stage 1 is exhaustive: when it stops no label-compatible scored pair has both members free -/
theorem stage1_done (t : Tbl) (es gs : List Nat) :
    cands t true (stage1State t es gs).es (stage1State t es gs).gs = [] :=
  stage_done t true es.length _ (Nat.le_refl _)

/-- every compatible scored pair is blocked by a compatible stage-1 pair that is not worse -/
theorem stage1_blocked (t : Tbl) (es gs : List Nat) {i j : Nat} {s : Rat}
    (hi : i ∈ es) (hj : j ∈ gs) (hs : t.score i j = some s) (hv : t.valid i j = true) :
    Blocked (R1 t) (stage1State t es gs).pairs i j s := by
  have hinv : StageInv t true (R1 t) es gs { es := es, gs := gs, pairs := [] } :=
    fun i j s hi hj _ _ => Or.inl ⟨hi, hj⟩
  have hfin := stage_preserves t true (R1 t) es gs
    (fun i0 j0 s0 s hs0 hv0 hnw => ⟨hv0 rfl, s0, hs0, hnw⟩) es.length _ hinv
  rcases hfin i j s hi hj hs (fun _ => hv) with ⟨hie, hjg⟩ | hb
  · have : (i, j, s) ∈ cands t true (stage1State t es gs).es (stage1State t es gs).gs :=
      mem_cands_iff.2 ⟨hie, hjg, hs, fun _ => hv⟩
    rw [stage1_done] at this; cases this
  · exact hb

/-- the final pair list is the stage-1 pairs followed by the stage-2 pairs; the latter are scored,
label-INcompatible and made of objects left free by stage 1 -/
theorem matchFrom_pairs_split (t : Tbl) (es gs : List Nat) :
    ∃ B, (matchFrom t es gs).pairs = (stage1State t es gs).pairs ++ B ∧
      ∀ p ∈ B, p.1 ∈ (stage1State t es gs).es ∧ p.2 ∈ (stage1State t es gs).gs ∧
        (∃ s, t.score p.1 p.2 = some s) ∧ t.valid p.1 p.2 = false := by
  obtain ⟨new, hnew, hall⟩ :=
    stage_pairs_append t false (stage1State t es gs).es.length (stage1State t es gs)
  refine ⟨new, by rw [matchFrom_eq]; exact hnew, ?_⟩
  intro p hp
  obtain ⟨h1, h2, ⟨s, h3⟩, _⟩ := hall p hp
  refine ⟨h1, h2, ⟨s, h3⟩, ?_⟩
  cases hv : t.valid p.1 p.2 with
  | false => rfl
  | true =>
    have : (p.1, p.2, s) ∈ cands t true (stage1State t es gs).es (stage1State t es gs).gs :=
      mem_cands_iff.2 ⟨h1, h2, h3, fun _ => hv⟩
    rw [stage1_done] at this; cases this

/-- every scored pair (compatible or not) is blocked at the end by a pair that is compatible or not worse -/
theorem matchFrom_blocked (t : Tbl) {es gs : List Nat} (hE : es.Nodup) (hG : gs.Nodup) {i j : Nat} {s : Rat}
    (hi : i ∈ es) (hj : j ∈ gs) (hs : t.score i j = some s) :
    Blocked (R2 t) (matchFrom t es gs).pairs i j s := by
  have hinv1 : MInv t es gs (stage1State t es gs) := stage_inv hE hG _ _ (MInv.init t es gs)
  -- after stage 1 every index is free or belongs to a (compatible) stage-1 pair
  have hinv : StageInv t false (R2 t) es gs (stage1State t es gs) := by
    intro i j s hi hj _ _
    by_cases hie : i ∈ (stage1State t es gs).es
    · by_cases hjg : j ∈ (stage1State t es gs).gs
      · exact Or.inl ⟨hie, hjg⟩
      · right
        rw [hinv1.gsEq, mem_filter_not_contains] at hjg
        have hjm : j ∈ (stage1State t es gs).pairs.map (·.2) := Classical.not_not.1 (fun h => hjg ⟨hj, h⟩)
        obtain ⟨p, hp, hpj⟩ := List.mem_map.1 hjm
        exact ⟨p, hp, Or.inr hpj, Or.inl (stage1_pairs_valid t es gs p hp).1⟩
    · right
      rw [hinv1.esEq, mem_filter_not_contains] at hie
      have him : i ∈ (stage1State t es gs).pairs.map (·.1) := Classical.not_not.1 (fun h => hie ⟨hi, h⟩)
      obtain ⟨p, hp, hpi⟩ := List.mem_map.1 him
      exact ⟨p, hp, Or.inl hpi, Or.inl (stage1_pairs_valid t es gs p hp).1⟩
  have hfin := stage_preserves t false (R2 t) es gs
    (fun i0 j0 s0 s hs0 _ hnw => Or.inr ⟨s0, hs0, hnw⟩) (stage1State t es gs).es.length _ hinv
  rw [matchFrom_eq]
  rcases hfin i j s hi hj hs (fun h => by cases h) with ⟨hie, hjg⟩ | hb
  · have hdone := stage_done t false (stage1State t es gs).es.length (stage1State t es gs) (Nat.le_refl _)
    have : (i, j, s) ∈ cands t false
        (stage t false (stage1State t es gs).es.length (stage1State t es gs)).es
        (stage t false (stage1State t es gs).es.length (stage1State t es gs)).gs :=
      mem_cands_iff.2 ⟨hie, hjg, hs, fun h => by cases h⟩
    rw [hdone] at this; cases this
  · exact hb

/-- a score in the table built from a scene only exists for indices inside the two lists -/
theorem mkTbl_score_some_lt {c : Cfg} {sc : Scene} {i j : Nat} {s : Rat}
    (h : (mkTbl c sc).score i j = some s) : i < sc.ests.length ∧ j < sc.gts.length := by
  obtain ⟨e, g, he, hg, _⟩ := mkTbl_score_some h
  exact ⟨(List.getElem?_eq_some_iff.1 he).1, (List.getElem?_eq_some_iff.1 hg).1⟩

end PEval.Matching
