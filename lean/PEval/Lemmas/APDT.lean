import PEval.Lemmas.ClearDT
import PEval.Model.APDT
/-!
Lemmas about the decision tables / normal forms of the AP kernels (core Lean only): reading the continuation-passing
skeletons of `PEval/Model/APDT.lean` over a valuation.
-/
namespace PEval.APDT
open PEval.AP PEval.ClearDT

theorem eval_kindSk {α : Type} (j : Nat) (k : K → DTree α) (v : Val) :
    (kindSk j k).eval v = (k (kindAtoms v j)).eval v := by
  unfold kindSk kindAtoms
  simp only [eval_askB]
  cases h1 : v.b (.inTargets j (v.b (.hasGt (.cur j))))
  · simp
  · cases h2 : v.b (.isTp (.cur j) j (v.b (.hasGt (.cur j)))) <;> simp [eval_askB, h2]

theorem eval_kindsSk {α : Type} (v : Val) :
    ∀ (js : List Nat) (k : List K → DTree α), (kindsSk js k).eval v = (k (js.map (kindAtoms v))).eval v := by
  intro js
  induction js with
  | nil => intro k; rfl
  | cons j js ih =>
    intro k
    simp only [kindsSk, eval_kindSk, ih, List.map_cons]

theorem eval_tpfpSk (pat : List Nat) (G : Nat) (v : Val) : (tpfpSk pat G).eval v = .ok (tpfpAtoms pat G v) := by
  unfold tpfpSk tpfpAtoms
  rw [eval_kindsSk]
  rfl

theorem eval_emptiesSk {α : Type} (v : Val) :
    ∀ (is : List Nat) (k : List Bool → DTree α),
      (emptiesSk is k).eval v = (k (is.map fun i => v.b (.empty i))).eval v := by
  intro is
  induction is with
  | nil => intro k; rfl
  | cons i is ih =>
    intro k
    simp only [emptiesSk, eval_askB, ih, List.map_cons]

theorem eval_mapSk (s : MapShape) (v : Val) : (mapSk s).eval v = mapAtoms s v := by
  unfold mapSk mapAtoms
  split
  · rw [eval_emptiesSk]; rfl
  · rfl

/-! ### relational agreement (`relTree`, `tpfpAdmits`) -/

theorem eval_mapTree {β γ : Type} (f : β → γ) (v : Val) : ∀ t : DTree β, (mapTree f t).eval v = f (t.eval v) := by
  intro t
  induction t with
  | leaf r => rfl
  | ite a f' t ihf iht =>
    simp only [mapTree, DTree.eval]
    split <;> assumption
  | cmp a l e g ihl ihe ihg =>
    simp only [mapTree, DTree.eval]
    split <;> assumption

theorem eval_relTree {α β : Type} (rel : α → β → Bool) (v : Val) (m : DTree β) :
    ∀ c : DTree α, (relTree rel c m).eval v = rel (c.eval v) (m.eval v) := by
  intro c
  induction c with
  | leaf r => exact eval_mapTree (rel r) v m
  | ite a f t ihf iht =>
    simp only [relTree, DTree.eval]
    split <;> assumption
  | cmp a l e g ihl ihe ihg =>
    simp only [relTree, DTree.eval]
    split <;> assumption

theorem eval_kindsTree (pat : List Nat) (v : Val) : (kindsTree pat).eval v = (sortIdx pat).map (kindAtoms v) := by
  unfold kindsTree
  rw [eval_kindsSk]
  rfl

/-- a relational table check is sound: if `relTree rel code model` agrees with `.leaf true`, then on every consistent
valuation the code's leaf is related to the model's -/
theorem relTree_sound {α β : Type} (rel : α → β → Bool) (code : DTree α) (m : DTree β)
    (h : agree PVal.empty (relTree rel code m) (.leaf true) = true) (v : Val) (hc : v.consistent) :
    rel (code.eval v) (m.eval v) = true := by
  have := agree_sound v hc (.leaf true) (relTree rel code m) PVal.empty h (sat_empty v)
  rw [eval_relTree] at this
  exact this

theorem ignFlex_of_no_ign : ∀ ks : List K, (∀ k ∈ ks, k ≠ .ign) → ignFlex ks = [ks] := by
  intro ks
  induction ks with
  | nil => intro _; rfl
  | cons k ks ih =>
    intro h
    have hk : k ≠ .ign := h k (by simp)
    have ih' := ih fun x hx => h x (by simp [hx])
    cases k with
    | ign => exact absurd rfl hk
    | tp j => simp [ignFlex, ih']
    | fp => simp [ignFlex, ih']

/-- a pattern without ties admits no rearrangement of the ranking (all tabulated shapes; kernel evaluation) -/
theorem tiePerms_of_strict : ∀ s ∈ tpfpShapes, strictPat s.1 = true → tiePerms s.1 = [List.range s.1.length] := by
  decide +kernel

theorem map_getD_range {α : Type} (d : α) : ∀ l : List α, (List.range l.length).map (l.getD · d) = l := by
  intro l
  apply List.ext_getElem
  · simp
  · intro i h1 h2
    simp at h1
    simp [List.getD_eq_getElem?_getD, h1]

/-- WHERE THE TEXT LEAVES NO CHOICE (no tie among the confidences, no ignored result) an admitted leaf IS the model's leaf -/
theorem tpfpAdmits_pinned (pat : List Nat) (G : Nat) (hs : (pat, G) ∈ tpfpShapes) (hne : pat ≠ []) (hst : strictPat pat = true)
    (c : Except String TpFp) (ks : List K) (hlen : ks.length = pat.length) (hno : ∀ k ∈ ks, k ≠ .ign)
    (h : tpfpAdmits pat G c ks = true) : c = .ok (leafOfKinds G ks) := by
  unfold tpfpAdmits at h
  cases c with
  | error e => simp at h
  | ok leaf =>
    have hE : pat.isEmpty = false := by cases pat <;> simp at hne ⊢
    have hv : tpfpVariants pat ks = [ks] := by
      unfold tpfpVariants
      rw [tiePerms_of_strict (pat, G) hs hst]
      simp only [List.flatMap_cons, List.flatMap_nil, List.append_nil]
      rw [← hlen, map_getD_range, ignFlex_of_no_ign ks hno]
    simp only [hE, Bool.false_or, hv, List.any_cons, List.any_nil, Bool.or_false, decide_eq_true_eq] at h
    rw [h]

end PEval.APDT
