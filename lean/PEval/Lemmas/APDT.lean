import PEval.Lemmas.ClearDT
import PEval.Model.APDT
/-!
Lemmas about the decision tables / normal forms of the AP kernels (core Lean only): reading the continuation-passing
skeletons of `PEval/Model/APDT.lean` over a valuation.
-/
namespace PEval.APDT
open PEval.AP PEval.ClearDT

theorem eval_kindSk {α : Type} (j : Nat) (k : K → DTree α) (v : Val) :
    (kindSk j k).eval v = (k (kindAtoms v j)).eval v := by
  unfold kindSk kindAtoms
  simp only [eval_askB]
  cases h1 : v.b (.inTargets j (v.b (.hasGt (.cur j))))
  · simp
  · cases h2 : v.b (.isTp (.cur j) j (v.b (.hasGt (.cur j)))) <;> simp [eval_askB, h2]

theorem eval_kindsSk {α : Type} (v : Val) :
    ∀ (js : List Nat) (k : List K → DTree α), (kindsSk js k).eval v = (k (js.map (kindAtoms v))).eval v := by
  intro js
  induction js with
  | nil => intro k; rfl
  | cons j js ih =>
    intro k
    simp only [kindsSk, eval_kindSk, ih, List.map_cons]

theorem eval_tpfpSk (pat : List Nat) (G : Nat) (v : Val) : (tpfpSk pat G).eval v = .ok (tpfpAtoms pat G v) := by
  unfold tpfpSk tpfpAtoms
  rw [eval_kindsSk]
  rfl

theorem eval_emptiesSk {α : Type} (v : Val) :
    ∀ (is : List Nat) (k : List Bool → DTree α),
      (emptiesSk is k).eval v = (k (is.map fun i => v.b (.empty i))).eval v := by
  intro is
  induction is with
  | nil => intro k; rfl
  | cons i is ih =>
    intro k
    simp only [emptiesSk, eval_askB, ih, List.map_cons]

theorem eval_mapSk (s : MapShape) (v : Val) : (mapSk s).eval v = mapAtoms s v := by
  unfold mapSk mapAtoms
  split
  · rw [eval_emptiesSk]; rfl
  · rfl

end PEval.APDT
