import PEval.Model.ClearDT
/-!
Lemmas about the decision tables of the CLEAR kernels (core Lean only):

* `agree_sound` / `table_eq_model`: the agreement check is sound — two trees that pass it evaluate alike on every
  consistent valuation (proved once, for all trees);
* the readings of the continuation-passing skeletons over a valuation (`eval_pairSk`, `eval_scanSk`, `eval_resStepSk`,
  `eval_frameStepSk`, `eval_scoreSkTree`);
* the bridges to the model of `PEval/Model/Clear.lean`, for ALL inputs: `isIdSwitched_bridge`, `isSameMatch_bridge`,
  `frameStep_bridge` (any number of current and previous results), `score_bridge`.
-/

namespace PEval.ClearDT
open PEval.Clear

/-! ### soundness of the agreement check -/

theorem getB_sat {v : Val} {π : PVal} (h : v.sat π) {a : Atom} {x : Bool} (hg : π.getB a = some x) : v.b a = x := by
  unfold PVal.getB at hg
  cases hf : π.b.find? (fun p => p.1 == a) with
  | none => simp [hf] at hg
  | some p =>
    simp only [hf, Option.map_some, Option.some.injEq] at hg
    have hm := List.mem_of_find?_eq_some hf
    have hp := List.find?_some hf
    have hpa : p.1 = a := by simpa using hp
    rw [← hpa, ← hg]
    exact h.1 p hm

theorem getO_sat {v : Val} {π : PVal} (h : v.sat π) {a : Atom} {x : Ordering} (hg : π.getO a = some x) : v.o a = x := by
  unfold PVal.getO at hg
  cases hf : π.o.find? (fun p => p.1 == a) with
  | none => simp [hf] at hg
  | some p =>
    simp only [hf, Option.map_some, Option.some.injEq] at hg
    have hm := List.mem_of_find?_eq_some hf
    have hp := List.find?_some hf
    have hpa : p.1 = a := by simpa using hp
    rw [← hpa, ← hg]
    exact h.2 p hm

theorem sat_pushB {v : Val} {π : PVal} (h : v.sat π) {a : Atom} {x : Bool} (hv : v.b a = x) : v.sat (π.pushB a x) := by
  refine ⟨?_, h.2⟩
  intro p hp
  simp only [PVal.pushB, List.mem_cons] at hp
  rcases hp with rfl | hp
  · exact hv
  · exact h.1 p hp

theorem sat_pushO {v : Val} {π : PVal} (h : v.sat π) {a : Atom} {x : Ordering} (hv : v.o a = x) : v.sat (π.pushO a x) := by
  refine ⟨h.1, ?_⟩
  intro p hp
  simp only [PVal.pushO, List.mem_cons] at hp
  rcases hp with rfl | hp
  · exact hv
  · exact h.2 p hp

theorem sat_empty (v : Val) : v.sat PVal.empty := by
  constructor <;> intro p hp <;> simp [PVal.empty] at hp

theorem ok_of_sat {v : Val} (hc : v.consistent) {π : PVal} (h : v.sat π) : π.ok = true := by
  unfold PVal.ok
  rw [Bool.and_eq_true]
  constructor
  · rw [List.all_eq_true]
    intro p hp
    split
    · rename_i r j s hp1
      cases hp2 : p.2 with
      | false => simp
      | true =>
        simp only [Bool.not_true, Bool.false_or, Bool.not_eq_eq_eq_not, Bool.not_true]
        rw [List.any_eq_false]
        intro q hq
        have h1 : v.b (.isTp r j s) = true := by
          have := h.1 p hp
          rw [hp1, hp2] at this
          exact this
        have h2 := hc.1 r j s h1
        intro hcon
        simp only [Bool.and_eq_true, beq_iff_eq, Bool.not_eq_eq_eq_not, Bool.not_true] at hcon
        have h3 := h.1 q hq
        rw [hcon.1, hcon.2] at h3
        rw [h2] at h3
        exact absurd h3 (by simp)
    · rfl
  · rw [List.all_eq_true]
    intro p hp
    have h3 := h.2 p hp
    cases hq : (p.1 == Atom.ord "num_gt" "0" && p.2 == Ordering.lt) with
    | false => rfl
    | true =>
      simp only [Bool.and_eq_true, beq_iff_eq] at hq
      rw [hq.1, hq.2] at h3
      exact absurd h3 hc.2

theorem agreeLeaf_sound {α : Type} [DecidableEq α] (r : α) (v : Val) (hc : v.consistent) :
    ∀ (t : DTree α) (π : PVal), agreeLeaf r π t = true → v.sat π → t.eval v = r := by
  intro t
  induction t with
  | leaf r' =>
    intro π h _
    simp only [agreeLeaf, decide_eq_true_eq] at h
    simp [DTree.eval, h]
  | ite a f t ihf iht =>
    intro π h hs
    unfold agreeLeaf at h
    cases hg : π.getB a with
    | some x =>
      have hv := getB_sat hs hg
      cases x
      · simp only [hg] at h
        simp only [DTree.eval, hv]
        exact ihf π h hs
      · simp only [hg] at h
        simp only [DTree.eval, hv]
        exact iht π h hs
    | none =>
      simp only [hg, Bool.and_eq_true, Bool.or_eq_true, Bool.not_eq_eq_eq_not, Bool.not_true] at h
      cases hv : v.b a
      · have hs' := sat_pushB hs hv
        have hok := ok_of_sat hc hs'
        rcases h.1 with h1 | h1
        · rw [hok] at h1; exact absurd h1 (by simp)
        · simp only [DTree.eval, hv]
          exact ihf _ h1 hs'
      · have hs' := sat_pushB hs hv
        have hok := ok_of_sat hc hs'
        rcases h.2 with h1 | h1
        · rw [hok] at h1; exact absurd h1 (by simp)
        · simp only [DTree.eval, hv]
          exact iht _ h1 hs'
  | cmp a l e g ihl ihe ihg =>
    intro π h hs
    unfold agreeLeaf at h
    cases hg : π.getO a with
    | some x =>
      have hv := getO_sat hs hg
      cases x
      · simp only [hg] at h
        simp only [DTree.eval, hv]
        exact ihl π h hs
      · simp only [hg] at h
        simp only [DTree.eval, hv]
        exact ihe π h hs
      · simp only [hg] at h
        simp only [DTree.eval, hv]
        exact ihg π h hs
    | none =>
      simp only [hg, Bool.and_eq_true, Bool.or_eq_true, Bool.not_eq_eq_eq_not, Bool.not_true] at h
      cases hv : v.o a
      · have hs' := sat_pushO hs hv
        have hok := ok_of_sat hc hs'
        rcases h.1.1 with h1 | h1
        · rw [hok] at h1; exact absurd h1 (by simp)
        · simp only [DTree.eval, hv]
          exact ihl _ h1 hs'
      · have hs' := sat_pushO hs hv
        have hok := ok_of_sat hc hs'
        rcases h.1.2 with h1 | h1
        · rw [hok] at h1; exact absurd h1 (by simp)
        · simp only [DTree.eval, hv]
          exact ihe _ h1 hs'
      · have hs' := sat_pushO hs hv
        have hok := ok_of_sat hc hs'
        rcases h.2 with h1 | h1
        · rw [hok] at h1; exact absurd h1 (by simp)
        · simp only [DTree.eval, hv]
          exact ihg _ h1 hs'

theorem agree_sound {α : Type} [DecidableEq α] (v : Val) (hc : v.consistent) (t2 : DTree α) :
    ∀ (t1 : DTree α) (π : PVal), agree π t1 t2 = true → v.sat π → t1.eval v = t2.eval v := by
  intro t1
  induction t1 with
  | leaf r =>
    intro π h hs
    simp only [agree] at h
    simp only [DTree.eval]
    exact (agreeLeaf_sound r v hc t2 π h hs).symm
  | ite a f t ihf iht =>
    intro π h hs
    unfold agree at h
    cases hg : π.getB a with
    | some x =>
      have hv := getB_sat hs hg
      cases x
      · simp only [hg] at h
        simp only [DTree.eval, hv]
        exact ihf π h hs
      · simp only [hg] at h
        simp only [DTree.eval, hv]
        exact iht π h hs
    | none =>
      simp only [hg, Bool.and_eq_true, Bool.or_eq_true, Bool.not_eq_eq_eq_not, Bool.not_true] at h
      cases hv : v.b a
      · have hs' := sat_pushB hs hv
        have hok := ok_of_sat hc hs'
        rcases h.1 with h1 | h1
        · rw [hok] at h1; exact absurd h1 (by simp)
        · simp only [DTree.eval, hv]
          exact ihf _ h1 hs'
      · have hs' := sat_pushB hs hv
        have hok := ok_of_sat hc hs'
        rcases h.2 with h1 | h1
        · rw [hok] at h1; exact absurd h1 (by simp)
        · simp only [DTree.eval, hv]
          exact iht _ h1 hs'
  | cmp a l e g ihl ihe ihg =>
    intro π h hs
    unfold agree at h
    cases hg : π.getO a with
    | some x =>
      have hv := getO_sat hs hg
      cases x
      · simp only [hg] at h
        simp only [DTree.eval, hv]
        exact ihl π h hs
      · simp only [hg] at h
        simp only [DTree.eval, hv]
        exact ihe π h hs
      · simp only [hg] at h
        simp only [DTree.eval, hv]
        exact ihg π h hs
    | none =>
      simp only [hg, Bool.and_eq_true, Bool.or_eq_true, Bool.not_eq_eq_eq_not, Bool.not_true] at h
      cases hv : v.o a
      · have hs' := sat_pushO hs hv
        have hok := ok_of_sat hc hs'
        rcases h.1.1 with h1 | h1
        · rw [hok] at h1; exact absurd h1 (by simp)
        · simp only [DTree.eval, hv]
          exact ihl _ h1 hs'
      · have hs' := sat_pushO hs hv
        have hok := ok_of_sat hc hs'
        rcases h.1.2 with h1 | h1
        · rw [hok] at h1; exact absurd h1 (by simp)
        · simp only [DTree.eval, hv]
          exact ihe _ h1 hs'
      · have hs' := sat_pushO hs hv
        have hok := ok_of_sat hc hs'
        rcases h.2 with h1 | h1
        · rw [hok] at h1; exact absurd h1 (by simp)
        · simp only [DTree.eval, hv]
          exact ihg _ h1 hs'

/-- a generated table that passes the check evaluates like the skeleton on every consistent valuation -/
theorem table_eq_model {α : Type} [DecidableEq α] {gen : Option (DTree α)} {sk : DTree α}
    (h : tableOk gen sk = true) : ∀ t, gen = some t → ∀ v : Val, v.consistent → t.eval v = sk.eval v := by
  intro t ht v hc
  subst ht
  exact agree_sound v hc sk t PVal.empty h (sat_empty v)

/-! ### reading the skeletons over a valuation -/

theorem eval_askB {α : Type} (a : Atom) (k : Bool → DTree α) (v : Val) : (askB a k).eval v = (k (v.b a)).eval v := by
  unfold askB
  simp only [DTree.eval]
  cases v.b a <;> simp

theorem eval_askO {α : Type} (a : Atom) (k : Ordering → DTree α) (v : Val) : (askO a k).eval v = (k (v.o a)).eval v := by
  unfold askO
  simp only [DTree.eval]
  cases v.o a <;> simp

theorem eval_pairSk {α : Type} (f : Bool → Bool → Bool → Bool) (j i : Nat) (k : Bool → DTree α) (v : Val) :
    (pairSk f j i k).eval v = (k (pairAtoms f j i v)).eval v := by
  unfold pairSk pairAtoms
  rw [eval_askB]
  cases h1 : v.b (.hasGt (.cur j))
  · simp
  · simp only [Bool.not_true, Bool.false_eq_true, if_false]
    rw [eval_askB]
    cases h2 : v.b (.hasGt (.prev i))
    · simp
    · simp [eval_askB]

theorem eval_scanSk {α : Type} (v : Val) (j : Nat) (g : Bool) :
    ∀ (n i : Nat) (k : ScanR → DTree α), (scanSk j g i n k).eval v = (k (scanAtoms v j g i n)).eval v := by
  intro n
  induction n with
  | zero => intro i k; rfl
  | succ n ih =>
    intro i k
    simp only [scanSk, scanAtoms, eval_askB]
    cases h1 : v.b (.isTp (.prev i) j g)
    · simp [ih]
    · simp only [Bool.not_true, Bool.false_eq_true, if_false]
      rw [eval_pairSk]
      have e1 : pairAtoms switchF j i v = isIdSwitchedAtoms j i v := rfl
      have e2 : pairAtoms sameF j i v = isSameMatchAtoms j i v := rfl
      rw [e1]
      cases h2 : isIdSwitchedAtoms j i v
      · simp only [Bool.false_eq_true, if_false]
        rw [eval_pairSk, e2]
        cases h3 : isSameMatchAtoms j i v <;> simp [ih]
      · simp

theorem eval_resStepSk {α : Type} (v : Val) (j np : Nat) (k : MOut → DTree α) :
    (resStepSk j np k).eval v = (k (resStepAtoms v j np)).eval v := by
  unfold resStepSk resStepAtoms
  simp only [eval_askB]
  cases h1 : v.b (.inTargets j (v.b (.hasGt (.cur j))))
  · simp
  · simp only [Bool.not_true, Bool.false_eq_true, if_false, eval_scanSk]
    cases h2 : scanAtoms v j (v.b (.hasGt (.cur j))) 0 np
    · simp [eval_askB]
    · simp [eval_askB]
    · simp [tailOut]

theorem eval_frameStepSk {α : Type} (v : Val) (np : Nat) :
    ∀ (n j : Nat) (acc : MOut) (k : MOut → DTree α),
      (frameStepSk np j n acc k).eval v = (k (frameStepAtoms v np j n acc)).eval v := by
  intro n
  induction n with
  | zero => intro j acc k; rfl
  | succ n ih =>
    intro j acc k
    simp only [frameStepSk, frameStepAtoms, eval_resStepSk, ih]

theorem eval_stepSkTree (nc np : Nat) (v : Val) : (stepSkTree nc np).eval v = .ok (enc (stepAtoms nc np v)) := by
  unfold stepSkTree stepAtoms
  rw [eval_frameStepSk]
  rfl

theorem eval_isIdSwitchedSkTree (v : Val) : isIdSwitchedSkTree.eval v = .ok (isIdSwitchedAtoms 0 0 v) := by
  unfold isIdSwitchedSkTree isIdSwitchedAtoms
  rw [eval_pairSk]
  rfl

theorem eval_isSameMatchSkTree (v : Val) : isSameMatchSkTree.eval v = .ok (isSameMatchAtoms 0 0 v) := by
  unfold isSameMatchSkTree isSameMatchAtoms
  rw [eval_pairSk]
  rfl

theorem eval_scoreSkTree (v : Val) : scoreSkTree.eval v = .ok (scoreAtoms v) := by
  unfold scoreSkTree scoreAtoms
  simp only [eval_askO]
  cases v.o (.ord "num_gt" "0") <;> cases v.o (.ord "tp" "0") <;>
    simp [eval_askO, DTree.eval]

theorem eval_initSk {α : Type} (v : Val) :
    ∀ (n i : Nat) (ps : List (Option Nat × Option Nat)) (c : Nat) (k : List (Option Nat × Option Nat) → Nat → DTree α),
      (initSk i n ps c k).eval v = (k (initAtoms v i n ps c).1 (initAtoms v i n ps c).2).eval v := by
  intro n
  induction n with
  | zero => intro i ps c k; rfl
  | succ n ih =>
    intro i ps c k
    simp only [initSk, initAtoms, eval_askB]
    cases v.b (.empty i) <;> simp [ih]

theorem eval_initSkTree (n : Nat) (v : Val) : (initSkTree n).eval v = .ok (initAtoms v 1 (n - 1) [] 0) := by
  unfold initSkTree
  rw [eval_initSk]
  rfl

/-! ### bridges to the model, for all inputs -/

theorem valOf_consistent (cfg : Cfg) (prev cur : List Res) : (valOf cfg prev cur).consistent := by
  refine ⟨?_, by simp [valOf]⟩
  intro r j s h
  simp only [valOf] at h ⊢
  cases hd : deref prev cur r with
  | none => simp [hd] at h
  | some x =>
    cases ht : thrOf cfg cur j s with
    | none => simp [hd, ht] at h
    | some t =>
      simp only [hd, ht] at h
      simp only
      unfold isTp at h
      cases hg : x.gt with
      | none => simp [hg] at h
      | some g => simp

theorem pair_bridge (cfg : Cfg) (prev cur : List Res) (j i : Nat) (c p : Res)
    (hc : cur[j]? = some c) (hp : prev[i]? = some p) :
    isIdSwitched c p = isIdSwitchedAtoms j i (valOf cfg prev cur) ∧
    isSameMatch c p = isSameMatchAtoms j i (valOf cfg prev cur) := by
  unfold isIdSwitched isSameMatch isIdSwitchedAtoms isSameMatchAtoms pairAtoms
  simp only [valOf, deref, hc, hp, gtIdEq, switchF, sameF]
  cases hgc : c.gt <;> cases hgp : p.gt <;> simp

/-- `_is_id_switched` / `_is_same_match` of the model on any two results = the skeleton on their valuation -/
theorem isIdSwitched_bridge (cfg : Cfg) (c p : Res) :
    isIdSwitched c p = isIdSwitchedAtoms 0 0 (valOf cfg [p] [c]) :=
  (pair_bridge cfg [p] [c] 0 0 c p rfl rfl).1

theorem isSameMatch_bridge (cfg : Cfg) (c p : Res) :
    isSameMatch c p = isSameMatchAtoms 0 0 (valOf cfg [p] [c]) :=
  (pair_bridge cfg [p] [c] 0 0 c p rfl rfl).2

theorem thrOf_key (cfg : Cfg) (cur : List Res) (j : Nat) (c : Res) (hc : cur[j]? = some c) :
    thrOf cfg cur j c.gt.isSome = labelThreshold cfg (keyLabel c) := by
  unfold thrOf sideLabel keyLabel
  simp only [hc, Option.bind_some]
  cases c.gt <;> simp

theorem drop_cons_getElem? {α : Type} {l : List α} {i : Nat} {x : α} {xs : List α} (h : l.drop i = x :: xs) :
    l[i]? = some x ∧ l.drop (i + 1) = xs := by
  constructor
  · have : (l.drop i)[0]? = l[i + 0]? := List.getElem?_drop
    rw [h] at this
    simpa using this.symm
  · have : l.drop (i + 1) = (l.drop i).drop 1 := by rw [List.drop_drop]
    rw [this, h]
    rfl

theorem scan_bridge (cfg : Cfg) (prev cur : List Res) (j : Nat) (c : Res) (t : Rat)
    (hc : cur[j]? = some c) (ht : labelThreshold cfg (keyLabel c) = some t) :
    ∀ (ps : List Res) (i : Nat), prev.drop i = ps →
      match scanAtoms (valOf cfg prev cur) j c.gt.isSome i ps.length with
      | .same i' => ∃ p, prev[i']? = some p ∧ scan cfg t c ps = .same p
      | .switched => scan cfg t c ps = .switched
      | .nothing => scan cfg t c ps = .nothing := by
  intro ps
  induction ps with
  | nil => intro i _; simp [scanAtoms, scan]
  | cons p ps ih =>
    intro i hd
    obtain ⟨hp, hd'⟩ := drop_cons_getElem? hd
    have hthr : thrOf cfg cur j c.gt.isSome = some t := by rw [thrOf_key cfg cur j c hc, ht]
    have hb := pair_bridge cfg prev cur j i c p hc hp
    have htp : (valOf cfg prev cur).b (.isTp (.prev i) j c.gt.isSome) = isTp cfg t p := by
      simp only [valOf, deref, hp, hthr]
    simp only [List.length_cons, scanAtoms, scan, htp, ← hb.1, ← hb.2]
    have ih' := ih (i + 1) hd'
    cases h1 : isTp cfg t p
    · simpa using ih'
    · cases h2 : isIdSwitched c p
      · cases h3 : isSameMatch c p
        · simpa using ih'
        · simp only [Bool.not_true, Bool.false_eq_true, if_false, if_true]
          exact ⟨p, hp, rfl⟩
      · simp

theorem sumOver_append (f : Res → Rat) (prev cur : List Res) (a b : List Ref) :
    sumOver f prev cur (a ++ b) = sumOver f prev cur a + sumOver f prev cur b := by
  induction a with
  | nil => simp [sumOver, Rat.zero_add]
  | cons r rs ih => simp only [List.cons_append, sumOver, ih, Rat.add_assoc]

theorem interp_add (prev cur : List Res) (a b : MOut) :
    interp prev cur (a.add b) = (interp prev cur a).add (interp prev cur b) := by
  simp [interp, MOut.add, Acc.add, sumOver_append]

theorem interp_zero (prev cur : List Res) : interp prev cur MOut.zero = Acc.zero := rfl

theorem resStep_bridge (cfg : Cfg) (prev cur : List Res) (j : Nat) (c : Res) (hc : cur[j]? = some c) :
    resStep cfg prev c = interp prev cur (resStepAtoms (valOf cfg prev cur) j prev.length) := by
  unfold resStep resStepAtoms
  have hgt : (valOf cfg prev cur).b (.hasGt (.cur j)) = c.gt.isSome := by simp [valOf, deref, hc]
  have hin : (valOf cfg prev cur).b (.inTargets j c.gt.isSome) = (labelThreshold cfg (keyLabel c)).isSome := by
    simp only [valOf, thrOf_key cfg cur j c hc]
  simp only [hgt, hin]
  cases ht : labelThreshold cfg (keyLabel c) with
  | none => simp [interp_zero]
  | some t =>
    have hthr : thrOf cfg cur j c.gt.isSome = some t := by rw [thrOf_key cfg cur j c hc, ht]
    have htc : (valOf cfg prev cur).b (.isTp (.cur j) j c.gt.isSome) = isTp cfg t c := by
      simp only [valOf, deref, hc, hthr]
    have hs := scan_bridge cfg prev cur j c t hc ht prev 0 (by simp)
    simp only [Option.isSome_some, Bool.not_true, Bool.false_eq_true, if_false, htc]
    cases hsa : scanAtoms (valOf cfg prev cur) j c.gt.isSome 0 prev.length with
    | nothing =>
      rw [hsa] at hs
      simp only at hs
      rw [hs]
      cases isTp cfg t c <;> simp [tailOut, interp, sumOver, deref, hc, Rat.add_zero]
    | switched =>
      rw [hsa] at hs
      simp only at hs
      rw [hs]
      cases isTp cfg t c <;> simp [tailOut, interp, sumOver, deref, hc, Rat.add_zero]
    | same i =>
      rw [hsa] at hs
      obtain ⟨p, hp, hsc⟩ := hs
      rw [hsc]
      simp [tailOut, interp, sumOver, deref, hp, Rat.add_zero]

theorem foldl_bridge (cfg : Cfg) (prev cur : List Res) :
    ∀ (cs : List Res) (j : Nat) (m : MOut), cur.drop j = cs →
      cs.foldl (fun a c => a.add (resStep cfg prev c)) (interp prev cur m) =
        interp prev cur (frameStepAtoms (valOf cfg prev cur) prev.length j cs.length m) := by
  intro cs
  induction cs with
  | nil => intro j m _; rfl
  | cons c cs ih =>
    intro j m hd
    obtain ⟨hc, hd'⟩ := drop_cons_getElem? hd
    simp only [List.foldl_cons, List.length_cons, frameStepAtoms]
    rw [resStep_bridge cfg prev cur j c hc, ← interp_add]
    exact ih (j + 1) _ hd'

/-- `_calculate_tp_fp` of the model on ANY two frames = the numbers the skeleton's symbolic outcome stands for, read at the
valuation of the input -/
theorem frameStep_bridge (cfg : Cfg) (prev cur : List Res) :
    frameStep cfg prev cur = interp prev cur (stepAtoms cur.length prev.length (valOf cfg prev cur)) := by
  unfold frameStep stepAtoms
  have := foldl_bridge cfg prev cur cur 0 MOut.zero (by simp)
  rw [interp_zero] at this
  exact this

def cmpRat (a b : Rat) : Ordering := if a < b then .lt else if a = b then .eq else .gt

/-- the valuation of the three quantities `_calculate_score` compares with 0 -/
def scoreVal (g : Nat) (a : Acc) : Val where
  b := fun _ => false
  o := fun x =>
    if x = .ord "num_gt" "0" then cmpRat (g : Rat) 0
    else if x = .ord "tp" "0" then cmpRat a.tp 0
    else if x = .ord motaRatio "0" then cmpRat ((a.tp - (a.fp : Rat) - (a.sw : Rat)) / (g : Rat)) 0
    else .eq

/-- the number a formula name of the score table stands for (`none` = `inf`) -/
def scoreTerm (g : Nat) (a : Acc) (s : String) : Option Rat :=
  if s = "inf" then none
  else if s = "0" then some 0
  else if s = motaRatio then some ((a.tp - (a.fp : Rat) - (a.sw : Rat)) / (g : Rat))
  else if s = motpRatio then some (a.score / a.tp)
  else none

end PEval.ClearDT
