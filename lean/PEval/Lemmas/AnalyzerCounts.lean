import PEval.Lemmas.AnalyzerTable
/-!
# C19 lemmas (2): counts read off the table = sums over the frames' pass/fail lists

Includes the well-formedness predicate `Frame.WF` (what `PassFailResult.evaluate` guarantees) and the
exact ground-truth count that characterises finding F11.  Core Lean only.
-/

set_option linter.unusedSimpArgs false
set_option linter.unnecessarySimpa false

namespace PEval.Analyzer

/-! ### the empty selection and a single-label selection -/

@[simp] theorem Cell.matches_empty (c : Cell) : c.matches {} = true := by
  simp [Cell.matches, keyMatch]

theorem Cell.matches_label (L : String) (c : Cell) :
    c.matches { labels := some [L] } = decide (c.obj.label = L) := by
  simp [Cell.matches, keyMatch]

theorem Status.beq_decide (a b : Status) : (a == b) = decide (a = b) := by
  cases a <;> cases b <;> rfl

@[simp] theorem opt_map_false_getD {α : Type} (o : Option α) :
    (Option.map (fun _ => false) o).getD false = false := by cases o <;> rfl

theorem getGroundTruth_empty (t : Table) : getGroundTruth t {} = t.filterMap (·.gt) := by
  simp [getGroundTruth]

theorem getEstimation_empty (t : Table) : getEstimation t {} = t.filterMap (·.est) := by
  simp [getEstimation]

/-! ### ground truths carried by the lists of a frame -/

/-- ground truths of the TP results -/
def Frame.tpGts (f : Frame) : List Obj := f.tp.filterMap (·.gt)
/-- ground truths carried by FP results -/
def Frame.fpGts (f : Frame) : List Obj := f.fp.filterMap (·.gt)
/-- ORDINARY (not FP-labelled) ground truths carried by FP results: the objects finding F11 counts twice -/
def Frame.fpOrd (f : Frame) : List Obj := f.fpGts.filter fun g => !g.isFp
/-- FP-labelled ground truths carried by FP results (status `(FP, FP)`): tabulated once -/
def Frame.fpFpl (f : Frame) : List Obj := f.fpGts.filter (·.isFp)

/-- number of ground-truth rows a frame contributes -/
def Frame.gtRows (f : Frame) : Nat := f.tpGts.length + f.fpGts.length + f.tn.length + f.fn.length

/-- what `PassFailResult.evaluate` guarantees about its four lists (proved for the model of
`evaluate` in `Lemmas/AnalyzerPassFail`, checked on the real lists by the harness oracle):
TP results carry a ground truth; the critical ground truths are, up to order, the TP ground truths, the
FP-labelled ground truths kept in FP results, the TN and the FN objects; and every ordinary ground truth
kept in an FP result is also an FN object. -/
structure Frame.WF (f : Frame) : Prop where
  tp_has_gt : ∀ p ∈ f.tp, p.gt.isSome = true
  partition : f.critical.Perm (f.tpGts ++ f.fpFpl ++ f.tn ++ f.fn)
  fpOrd_sub_fn : ∀ g ∈ f.fpOrd, g ∈ f.fn

theorem Frame.fpGts_length (f : Frame) : f.fpGts.length = f.fpFpl.length + f.fpOrd.length := by
  unfold Frame.fpFpl Frame.fpOrd
  induction f.fpGts with
  | nil => rfl
  | cons g l ih =>
    by_cases h : g.isFp = true <;> simp [h] <;> omega

theorem Frame.WF.gtRows_eq {f : Frame} (h : f.WF) : f.gtRows = f.critical.length + f.fpOrd.length := by
  have hp := h.partition.length_eq
  simp only [List.length_append] at hp
  have := f.fpGts_length
  unfold Frame.gtRows
  omega

theorem filterMap_gt_length (l : List Pair) (h : ∀ p ∈ l, p.gt.isSome = true) :
    (l.filterMap (·.gt)).length = l.length := by
  induction l with
  | nil => rfl
  | cons p l ih =>
    have hp := h p (by simp)
    cases hg : p.gt with
    | none => simp [hg] at hp
    | some g =>
      simpa [hg] using ih (fun q hq => h q (by simp [hq]))

theorem Frame.tpGts_length {f : Frame} (h : ∀ p ∈ f.tp, p.gt.isSome = true) : f.tpGts.length = f.tp.length :=
  filterMap_gt_length f.tp h

/-! ### counts of the whole table -/

section
variable (area : Rat → Rat → Option Nat) (scenes : List (List Frame))

theorem filterMap_map_length {α β γ : Type} (l : List α) (g : α → Option β) (mk : α → β → γ) :
    (l.filterMap fun a => (g a).map (mk a)).length = (l.filterMap g).length := by
  induction l with
  | nil => rfl
  | cons a l ih => cases h : g a <;> simp [h, ih]

theorem getNumGroundTruth_table :
    getNumGroundTruth (addAll area scenes).table = sumN (scenes.flatten.map Frame.gtRows) := by
  unfold getNumGroundTruth
  rw [getGroundTruth_empty, table_filterMap_gt]
  apply table_measure area scenes (fun l => (l.filterMap (·.1)).length) Frame.gtRows rfl
  · intro a b; simp [List.filterMap_append]
  · intro k f
    simp only [frameItems_gt, List.length_append, List.length_map, Frame.gtRows, Frame.tpGts, Frame.fpGts]
    rw [filterMap_map_length, filterMap_map_length]

theorem getNumEstimation_table :
    getNumEstimation (addAll area scenes).table = sumN (scenes.flatten.map fun f => f.tp.length + f.fp.length) := by
  unfold getNumEstimation
  rw [getEstimation_empty, table_filterMap_est]
  apply table_measure area scenes (fun l => (l.filterMap (·.2)).length) _ rfl
  · intro a b; simp [List.filterMap_append]
  · intro k f; simp [frameItems_est]

theorem countP_gt_some (l : List Pair) :
    List.countP (fun a => (Option.map (fun _ => true) a.gt).getD false) l = (l.filterMap (·.gt)).length := by
  induction l with
  | nil => rfl
  | cons p l ih => cases h : p.gt <;> simp [List.countP_cons, h, ih]

theorem countStatus_append (st : Status) (a b : List Cell) :
    countStatus st (a ++ b) = countStatus st a + countStatus st b := by
  simp [countStatus, List.countP_append]

theorem frameItems_countStatus_est (k : Nat) (f : Frame) (st : Status) :
    countStatus st ((frameItems area k f).filterMap (·.2)) =
      (if st = .TP then f.tp.length else 0) + (if st = .FP then f.fp.length else 0) := by
  cases st <;>
    simp [frameItems_est, countStatus, List.countP_append, List.countP_map, Function.comp_def, Status.beq_decide]

theorem frameItems_countStatus_gt (k : Nat) (f : Frame) (st : Status) :
    countStatus st ((frameItems area k f).filterMap (·.1)) =
      (if st = .TP then f.tpGts.length else 0) + (if st = .FP then f.fpGts.length else 0) +
      (if st = .TN then f.tn.length else 0) + (if st = .FN then f.fn.length else 0) := by
  cases st <;>
    simp [frameItems_gt, countStatus, List.countP_append, List.countP_map, List.countP_filterMap,
      Function.comp_def, Status.beq_decide, Frame.tpGts, Frame.fpGts]
  all_goals exact countP_gt_some _

theorem getNumTP_table : getNumTP (addAll area scenes).table = sumN (scenes.flatten.map fun f => f.tp.length) := by
  unfold getNumTP
  rw [getEstimation_empty, table_filterMap_est]
  apply table_measure area scenes (fun l => countStatus .TP (l.filterMap (·.2))) _ rfl
  · intro a b; simp [List.filterMap_append, countStatus_append]
  · intro k f; simp [frameItems_countStatus_est]

theorem getNumFP_table : getNumFP (addAll area scenes).table = sumN (scenes.flatten.map fun f => f.fp.length) := by
  unfold getNumFP
  rw [getEstimation_empty, table_filterMap_est]
  apply table_measure area scenes (fun l => countStatus .FP (l.filterMap (·.2))) _ rfl
  · intro a b; simp [List.filterMap_append, countStatus_append]
  · intro k f; simp [frameItems_countStatus_est]

theorem getNumTN_table : getNumTN (addAll area scenes).table = sumN (scenes.flatten.map fun f => f.tn.length) := by
  unfold getNumTN
  rw [getGroundTruth_empty, table_filterMap_gt]
  apply table_measure area scenes (fun l => countStatus .TN (l.filterMap (·.1))) _ rfl
  · intro a b; simp [List.filterMap_append, countStatus_append]
  · intro k f; simp [frameItems_countStatus_gt]

theorem getNumFN_table : getNumFN (addAll area scenes).table = sumN (scenes.flatten.map fun f => f.fn.length) := by
  unfold getNumFN
  rw [getGroundTruth_empty, table_filterMap_gt]
  apply table_measure area scenes (fun l => countStatus .FN (l.filterMap (·.1))) _ rfl
  · intro a b; simp [List.filterMap_append, countStatus_append]
  · intro k f; simp [frameItems_countStatus_gt]

end

/-! ### sums -/

theorem sumN_map_add {α : Type} (l : List α) (f g : α → Nat) :
    sumN (l.map fun a => f a + g a) = sumN (l.map f) + sumN (l.map g) := by
  induction l with
  | nil => rfl
  | cons a l ih => simp [ih]; omega

theorem sumN_map_congr {α : Type} (l : List α) (f g : α → Nat) (h : ∀ a ∈ l, f a = g a) :
    sumN (l.map f) = sumN (l.map g) := by
  induction l with
  | nil => rfl
  | cons a l ih =>
    simp only [List.map_cons, sumN_cons]
    rw [h a (by simp), ih (fun b hb => h b (by simp [hb]))]

theorem sumN_map_zero {α : Type} (l : List α) (f : α → Nat) (h : ∀ a ∈ l, f a = 0) : sumN (l.map f) = 0 := by
  induction l with
  | nil => rfl
  | cons a l ih =>
    simp only [List.map_cons, sumN_cons]
    rw [h a (by simp), ih (fun b hb => h b (by simp [hb]))]

/-- the table is empty exactly when no frame has an item -/
theorem table_isEmpty_iff (area : Rat → Rat → Option Nat) (scenes : List (List Frame)) :
    (addAll area scenes).table.isEmpty = true ↔ sumN (scenes.flatten.map Frame.items) = 0 := by
  rw [← table_length]
  cases (addAll area scenes).table <;> simp

end PEval.Analyzer
