import PEval.Model.Geometry
import Mathlib.Tactic.Linarith
import Mathlib.Tactic.Ring
import Mathlib.Tactic.LinearCombination
import Mathlib.Tactic.Positivity
import Mathlib.Tactic.FieldSimp
import Mathlib.Algebra.Order.Field.Basic
import Mathlib.Algebra.Order.Ring.Rat
import Mathlib.Data.Rat.Defs
/-!
Helper lemmas for C06, scalar part: `rmax`/`rmin`/`rabs`, interval overlap, the area contract
`InterOK`, IoU as the code composes it, height intersection.
-/
namespace PEval.Geometry

/-! ## `rmax`, `rmin`, `rabs` -/

theorem rmax_comm (a b : Rat) : rmax a b = rmax b a := by unfold rmax; grind
theorem rmin_comm (a b : Rat) : rmin a b = rmin b a := by unfold rmin; grind
theorem le_rmax_left (a b : Rat) : a ≤ rmax a b := by unfold rmax; grind
theorem le_rmax_right (a b : Rat) : b ≤ rmax a b := by unfold rmax; grind
theorem rmin_le_left (a b : Rat) : rmin a b ≤ a := by unfold rmin; grind
theorem rmin_le_right (a b : Rat) : rmin a b ≤ b := by unfold rmin; grind
theorem rabs_nonneg (a : Rat) : 0 ≤ rabs a := by unfold rabs; grind
theorem rabs_of_nonneg {a : Rat} (h : 0 ≤ a) : rabs a = a := by unfold rabs; grind
theorem rabs_neg (a : Rat) : rabs (-a) = rabs a := by unfold rabs; grind

/-! ## overlap of two intervals -/

theorem overlap_nonneg (a la b lb : Rat) : 0 ≤ overlap a la b lb := le_rmax_left _ _

theorem overlap_le_left {a la b lb : Rat} (hla : 0 ≤ la) : overlap a la b lb ≤ la := by
  unfold overlap rmax rmin; grind

theorem overlap_le_right {a la b lb : Rat} (hlb : 0 ≤ lb) : overlap a la b lb ≤ lb := by
  unfold overlap rmax rmin; grind

theorem overlap_symm (a la b lb : Rat) : overlap a la b lb = overlap b lb a la := by
  unfold overlap rmax rmin; grind

theorem overlap_self {a la : Rat} (hla : 0 ≤ la) : overlap a la a la = la := by
  unfold overlap rmax rmin; grind

theorem overlap_disjoint {a la b lb : Rat} (h : a + la ≤ b ∨ b + lb ≤ a) :
    overlap a la b lb = 0 := by
  unfold overlap rmax rmin; grind

theorem overlap_shift (a la b lb d : Rat) : overlap (a + d) la (b + d) lb = overlap a la b lb := by
  unfold overlap rmax rmin; grind

/-! ## the area contract and IoU -/

/-- The EXTERNAL CONTRACT of an intersection area `I` of two regions of areas `A1`, `A2`
(shapely's `intersection(...).area`): `0 ≤ I ≤ min(A1, A2)`. -/
structure InterOK (I A1 A2 : Rat) : Prop where
  nonneg : 0 ≤ I
  le1 : I ≤ A1
  le2 : I ≤ A2

theorem InterOK.symm {I A1 A2 : Rat} (h : InterOK I A1 A2) : InterOK I A2 A1 := ⟨h.nonneg, h.le2, h.le1⟩

theorem union_pos {I A1 A2 : Rat} (h : InterOK I A1 A2) (h1 : 0 < A1) : 0 < A1 + A2 - I := by
  have := h.le2; linarith

theorem iou_nonneg {I A1 A2 : Rat} (h : InterOK I A1 A2) (h1 : 0 < A1) : 0 ≤ iou I A1 A2 := by
  unfold iou; exact div_nonneg h.nonneg (le_of_lt (union_pos h h1))

theorem iou_le_one {I A1 A2 : Rat} (h : InterOK I A1 A2) (h1 : 0 < A1) : iou I A1 A2 ≤ 1 := by
  unfold iou
  rw [div_le_one (union_pos h h1)]
  have := h.le1; have := h.le2; linarith

theorem iou_comm (I A1 A2 : Rat) : iou I A1 A2 = iou I A2 A1 := by
  unfold iou; rw [add_comm A1 A2]

theorem iou_self {A : Rat} (hA : 0 < A) : iou A A A = 1 := by
  unfold iou
  have : A + A - A = A := by ring
  rw [this]; exact div_self (ne_of_gt hA)

theorem iou_zero (A1 A2 : Rat) : iou 0 A1 A2 = 0 := by unfold iou; simp

theorem iouCode_eq {I A1 A2 : Rat} (h : InterOK I A1 A2) (h1 : 0 < A1) :
    iouCode I A1 A2 = .ok (iou I A1 A2) := by
  unfold iouCode
  rw [if_neg (ne_of_gt (union_pos h h1))]

/-! ## height intersection -/

theorem heightInter_eq_overlap (z1 h1 z2 h2 : Rat) :
    heightInter z1 h1 z2 h2 = overlap (z1 - h1 / 2) h1 (z2 - h2 / 2) h2 := by
  unfold heightInter overlap
  have e1 : z1 - h1 / 2 + h1 = z1 + h1 / 2 := by ring
  have e2 : z2 - h2 / 2 + h2 = z2 + h2 / 2 := by ring
  rw [e1, e2]

/-- volumes: if `I` meets the area contract and `h` is a height overlap, `I·h` meets the volume contract -/
theorem InterOK.mul {I A1 A2 h H1 H2 : Rat} (hI : InterOK I A1 A2) (hh : InterOK h H1 H2) :
    InterOK (I * h) (A1 * H1) (A2 * H2) := by
  refine ⟨mul_nonneg hI.nonneg hh.nonneg, ?_, ?_⟩
  · exact mul_le_mul hI.le1 hh.le1 hh.nonneg (le_trans hI.nonneg hI.le1)
  · exact mul_le_mul hI.le2 hh.le2 hh.nonneg (le_trans hI.nonneg hI.le2)

theorem heightInter_ok {z1 h1 z2 h2 : Rat} (p1 : 0 ≤ h1) (p2 : 0 ≤ h2) :
    InterOK (heightInter z1 h1 z2 h2) h1 h2 := by
  rw [heightInter_eq_overlap]
  exact ⟨overlap_nonneg _ _ _ _, overlap_le_left p1, overlap_le_right p2⟩

/-- the 3-D IoU never exceeds the BEV IoU (prototype of the design round) -/
theorem iou3d_le_iou {I A1 A2 H1 H2 h : Rat} (hI : InterOK I A1 A2) (hh : InterOK h H1 H2)
    (hA1 : 0 < A1) (hA2 : 0 < A2) (hH2 : 0 < H2) :
    iou3d I A1 A2 H1 H2 h ≤ iou I A1 A2 := by
  obtain ⟨hI0, hIA1, hIA2⟩ := hI
  obtain ⟨hh0, hh1, hh2⟩ := hh
  unfold iou3d iou
  have d1 : 0 < A1 + A2 - I := by linarith
  have d2 : 0 < A1 * H1 + A2 * H2 - I * h := by
    nlinarith [mul_le_mul hIA1 hh1 hh0 (le_of_lt hA1), mul_pos hA2 hH2]
  rw [div_le_div_iff₀ d2 d1]
  nlinarith [mul_nonneg hI0 (mul_nonneg (sub_nonneg.2 hh1) (le_of_lt hA1)),
    mul_nonneg hI0 (mul_nonneg (sub_nonneg.2 hh2) (le_of_lt hA2)), mul_nonneg hI0 hh0,
    mul_nonneg (mul_nonneg hI0 hI0) hh0]

theorem heightInter_shift (z1 h1 z2 h2 d : Rat) :
    heightInter (z1 + d) h1 (z2 + d) h2 = heightInter z1 h1 z2 h2 := by
  unfold heightInter rmax rmin; grind

/-! ## axis-aligned rectangles: the closed form meets the contract -/

theorem rectInter_ok {r1 r2 : Rect} (h1 : r1.PosSize) (h2 : r2.PosSize) :
    InterOK (rectInter r1 r2) r1.area r2.area := by
  obtain ⟨w1, hh1⟩ := h1
  obtain ⟨w2, hh2⟩ := h2
  unfold rectInter Rect.area
  refine ⟨mul_nonneg (overlap_nonneg _ _ _ _) (overlap_nonneg _ _ _ _), ?_, ?_⟩
  · exact mul_le_mul (overlap_le_left (le_of_lt w1)) (overlap_le_left (le_of_lt hh1)) (overlap_nonneg _ _ _ _) (le_of_lt w1)
  · exact mul_le_mul (overlap_le_right (le_of_lt w2)) (overlap_le_right (le_of_lt hh2)) (overlap_nonneg _ _ _ _) (le_of_lt w2)

theorem rectInter_comm (r1 r2 : Rect) : rectInter r1 r2 = rectInter r2 r1 := by
  unfold rectInter; rw [overlap_symm r1.x, overlap_symm r1.y]

theorem rectInter_self_eq {r : Rect} (h : r.PosSize) : rectInter r r = r.area := by
  unfold rectInter Rect.area; rw [overlap_self (le_of_lt h.1), overlap_self (le_of_lt h.2)]

theorem rectInter_disjoint_eq {r1 r2 : Rect} (h : r1.Disjoint r2) : rectInter r1 r2 = 0 := by
  unfold rectInter
  rcases h with h | h | h | h
  · rw [overlap_disjoint (Or.inl h)]; ring
  · rw [overlap_disjoint (Or.inr h)]; ring
  · rw [overlap_disjoint (Or.inl h), mul_zero]
  · rw [overlap_disjoint (Or.inr h), mul_zero]

/-! ## ROIs are rectangles with integer data -/

theorem roi_area_cast (a : Roi) : ((a.area : Int) : Rat) = a.toRect.area := by
  simp [Roi.area, Roi.toRect, Rect.area]

theorem roi_posSize {a : Roi} (h : a.PosSize) : a.toRect.PosSize := by
  obtain ⟨hw, hh⟩ := h
  exact ⟨by simpa [Roi.toRect] using (Int.cast_pos (R := Rat)).2 hw, by simpa [Roi.toRect] using (Int.cast_pos (R := Rat)).2 hh⟩

theorem roi_disjoint {a b : Roi} (h : a.Disjoint b) : a.toRect.Disjoint b.toRect := by
  unfold Roi.Disjoint at h
  unfold Rect.Disjoint Roi.toRect
  simp only
  rcases h with h | h | h | h
  · left; exact_mod_cast h
  · right; left; exact_mod_cast h
  · right; right; left; exact_mod_cast h
  · right; right; right; exact_mod_cast h

theorem roiIoU_eq_rect (a b : Roi) : roiIoU a b = rectIoU a.toRect b.toRect := by
  unfold roiIoU rectIoU roiInter; rw [roi_area_cast, roi_area_cast]

theorem roiInter_shift (dx dy : Int) (a b : Roi) : roiInter (a.shift dx dy) (b.shift dx dy) = roiInter a b := by
  unfold roiInter rectInter Roi.toRect Roi.shift
  simp only [Int.cast_add]
  rw [overlap_shift, overlap_shift]

/-! ## area of a box footprint -/

theorem signed2_localCorners (b : Box) : signed2 (localCorners b) = 2 * (b.w * b.l) := by
  simp only [localCorners, signed2, fan2, cross]; ring

theorem areaBev_eq_mul {b : Box} (hw : 0 < b.w) (hl : 0 < b.l) : areaBev b = b.w * b.l := by
  unfold areaBev polyArea
  rw [signed2_localCorners, rabs_of_nonneg (by positivity)]
  ring

end PEval.Geometry
