import PEval.Lemmas.GeometryConvex
/-!
Helper lemmas for C06, area part of the exact clipper: one Sutherland–Hodgman pass `clipEdge a b P` is
"insert the crossing points into `P`, then keep the vertices of the closed half-plane"; for a subject in
convex position (`Cvx`) the result is again in convex position and its shoelace area is between 0 and
that of `P`.  Folding over the clip polygon's edges: `interArea P Q ≤ polyArea P` for every subject in
convex position and ANY clip polygon.  Every vertex of the result satisfies every convex predicate that
all subject vertices satisfy; hence a subject lying strictly beyond one edge of the clip polygon is clipped
to the empty list, and a subject lying in the closed outer half-plane of an edge to a polygon of area 0.
-/
namespace PEval.Geometry

/-! ## the crossing point lies on the clip line, inside the edge -/

theorem isect_on_line (a b p q : V2) (h : cross a b p ≠ cross a b q) :
    cross a b (isect p q (cross a b p) (cross a b q)) = 0 := by
  rw [isect_eq_lerp, cross_lerp3]
  have hd : cross a b p - cross a b q ≠ 0 := sub_ne_zero.2 h
  field_simp
  ring

theorem isect_param_out {dp dc : Rat} (hp : 0 ≤ dp) (hc : dc < 0) :
    0 ≤ dp / (dp - dc) ∧ dp / (dp - dc) ≤ 1 := by
  have hd : 0 < dp - dc := by linarith
  exact ⟨div_nonneg hp (le_of_lt hd), (div_le_one hd).2 (by linarith)⟩

theorem isect_param_in {dp dc : Rat} (hp : dp < 0) (hc : 0 ≤ dc) :
    0 ≤ dp / (dp - dc) ∧ dp / (dp - dc) ≤ 1 := by
  have hd : dp - dc < 0 := by linarith
  exact ⟨div_nonneg_of_nonpos (le_of_lt hp) (le_of_lt hd), (div_le_one_of_neg hd).2 (by linarith)⟩

/-! ## Sutherland–Hodgman pass = subdivide, then filter -/

/-- the vertex list with the crossing point inserted on every edge that crosses the line `a → b`
(`prev` = the vertex before the head of the list) -/
def subdivAux (a b : V2) : V2 → List V2 → List V2
  | _, [] => []
  | prev, cur :: rest =>
    if 0 ≤ cross a b cur then
      if cross a b prev < 0 then
        isect prev cur (cross a b prev) (cross a b cur) :: cur :: subdivAux a b cur rest
      else cur :: subdivAux a b cur rest
    else
      if 0 ≤ cross a b prev then
        isect prev cur (cross a b prev) (cross a b cur) :: cur :: subdivAux a b cur rest
      else cur :: subdivAux a b cur rest

def inside (a b : V2) (p : V2) : Bool := decide (0 ≤ cross a b p)

theorem foldl_clipStep_eq (a b : V2) (poly : List V2) : ∀ (prev : V2) (out : List V2),
    (poly.foldl (clipStep a b) (prev, out)).2.reverse
      = out.reverse ++ (subdivAux a b prev poly).filter (inside a b) := by
  induction poly with
  | nil => intro prev out; simp [subdivAux]
  | cons cur rest ih =>
    intro prev out
    rw [List.foldl_cons]
    by_cases hc : 0 ≤ cross a b cur
    · by_cases hp : cross a b prev < 0
      · have hne : cross a b prev ≠ cross a b cur := by intro h; linarith
        have hI : inside a b (isect prev cur (cross a b prev) (cross a b cur)) = true := by
          simp [inside, isect_on_line a b prev cur hne]
        have hC : inside a b cur = true := by simp [inside, hc]
        have hstep : clipStep a b (prev, out) cur
            = (cur, cur :: isect prev cur (cross a b prev) (cross a b cur) :: out) := by
          unfold clipStep; simp only [if_pos hc, if_pos hp]
        have hsub : subdivAux a b prev (cur :: rest)
            = isect prev cur (cross a b prev) (cross a b cur) :: cur :: subdivAux a b cur rest := by
          simp only [subdivAux, if_pos hc, if_pos hp]
        rw [hstep, hsub, ih]
        simp [hI, hC]
      · have hC : inside a b cur = true := by simp [inside, hc]
        have hstep : clipStep a b (prev, out) cur = (cur, cur :: out) := by
          unfold clipStep; simp only [if_pos hc, if_neg hp]
        have hsub : subdivAux a b prev (cur :: rest) = cur :: subdivAux a b cur rest := by
          simp only [subdivAux, if_pos hc, if_neg hp]
        rw [hstep, hsub, ih]
        simp [hC]
    · by_cases hp : 0 ≤ cross a b prev
      · have hne : cross a b prev ≠ cross a b cur := by intro h; rw [h] at hp; exact hc hp
        have hI : inside a b (isect prev cur (cross a b prev) (cross a b cur)) = true := by
          simp [inside, isect_on_line a b prev cur hne]
        have hC : inside a b cur = false := by simp [inside, hc]
        have hstep : clipStep a b (prev, out) cur
            = (cur, isect prev cur (cross a b prev) (cross a b cur) :: out) := by
          unfold clipStep; simp only [if_neg hc, if_pos hp]
        have hsub : subdivAux a b prev (cur :: rest)
            = isect prev cur (cross a b prev) (cross a b cur) :: cur :: subdivAux a b cur rest := by
          simp only [subdivAux, if_neg hc, if_pos hp]
        rw [hstep, hsub, ih]
        simp [hI, hC]
      · have hC : inside a b cur = false := by simp [inside, hc]
        have hstep : clipStep a b (prev, out) cur = (cur, out) := by
          unfold clipStep; simp only [if_neg hc, if_neg hp]
        have hsub : subdivAux a b prev (cur :: rest) = cur :: subdivAux a b cur rest := by
          simp only [subdivAux, if_neg hc, if_neg hp]
        rw [hstep, hsub, ih]
        simp [hC]

/-- one clipping pass is a filter of the subdivided polygon -/
theorem clipEdge_cons_eq (a b p0 : V2) (M : List V2) :
    clipEdge a b (p0 :: M) = (subdivAux a b (M.getLastD p0) (p0 :: M)).filter (inside a b) := by
  unfold clipEdge
  rw [List.getLast?_cons]
  simp only []
  rw [foldl_clipStep_eq]
  simp

theorem clipEdge_nil (a b : V2) : clipEdge a b [] = [] := rfl

/-! ## subdivision keeps convex position, the last vertex and the shoelace area -/

theorem subdivAux_getLastD (a b : V2) : ∀ (R : List V2) (prev d : V2),
    (subdivAux a b prev R).getLastD d = R.getLastD d := by
  intro R
  induction R with
  | nil => intro prev d; rfl
  | cons cur rest ih =>
    intro prev d
    unfold subdivAux
    split <;> split <;> (simp only [List.getLastD_cons]; exact ih _ _)

theorem subdivAux_cvx (a b : V2) : ∀ (R X : List V2) (prev : V2), Cvx (X ++ prev :: R) →
    Cvx (X ++ prev :: subdivAux a b prev R) ∧
      signed2 (X ++ prev :: subdivAux a b prev R) = signed2 (X ++ prev :: R) := by
  intro R
  induction R with
  | nil => intro X prev hc; exact ⟨hc, rfl⟩
  | cons cur rest ih =>
    intro X prev hc
    have e1 : ∀ S : List V2, X ++ prev :: cur :: S = (X ++ [prev]) ++ cur :: S := by intro S; simp
    have e2 : ∀ (I : V2) (S : List V2), X ++ prev :: I :: cur :: S = (X ++ [prev, I]) ++ cur :: S := by
      intro I S; simp
    have plain : Cvx (X ++ prev :: cur :: subdivAux a b cur rest) ∧
        signed2 (X ++ prev :: cur :: subdivAux a b cur rest) = signed2 (X ++ prev :: cur :: rest) := by
      rw [e1, e1]; rw [e1] at hc; exact ih _ _ hc
    have withI : ∀ t : Rat, 0 ≤ t → t ≤ 1 →
        Cvx (X ++ prev :: lerp prev cur t :: cur :: subdivAux a b cur rest) ∧
        signed2 (X ++ prev :: lerp prev cur t :: cur :: subdivAux a b cur rest)
          = signed2 (X ++ prev :: cur :: rest) := by
      intro t h0 h1
      have hc' := Cvx.insert_mid h0 h1 prev cur rest X hc
      have hs := signed2_insert_mid prev cur t X rest
      rw [e2] at hc' hs ⊢
      obtain ⟨c1, c2⟩ := ih _ _ hc'
      exact ⟨c1, c2.trans hs⟩
    unfold subdivAux
    by_cases hcur : 0 ≤ cross a b cur
    · by_cases hp : cross a b prev < 0
      · rw [if_pos hcur, if_pos hp, isect_eq_lerp]
        obtain ⟨h0, h1⟩ := isect_param_in hp hcur
        exact withI _ h0 h1
      · rw [if_pos hcur, if_neg hp]; exact plain
    · by_cases hp : 0 ≤ cross a b prev
      · rw [if_neg hcur, if_pos hp, isect_eq_lerp]
        obtain ⟨h0, h1⟩ := isect_param_out hp (not_le.1 hcur)
        exact withI _ h0 h1
      · rw [if_neg hcur, if_neg hp]; exact plain

/-- the fully subdivided polygon (closing edge included) is in convex position, with the same area -/
theorem subdiv_cvx (a b p0 : V2) (M : List V2) (hc : Cvx (p0 :: M)) :
    Cvx (subdivAux a b (M.getLastD p0) (p0 :: M)) ∧
      signed2 (subdivAux a b (M.getLastD p0) (p0 :: M)) = signed2 (p0 :: M) := by
  obtain ⟨c1, c2⟩ := subdivAux_cvx a b M [] p0 hc
  simp only [List.nil_append] at c1 c2
  have hl : (subdivAux a b p0 M).getLastD p0 = M.getLastD p0 := subdivAux_getLastD a b M p0 p0
  have withI : ∀ t : Rat, 0 ≤ t → t ≤ 1 →
      Cvx (lerp (M.getLastD p0) p0 t :: p0 :: subdivAux a b p0 M) ∧
      signed2 (lerp (M.getLastD p0) p0 t :: p0 :: subdivAux a b p0 M) = signed2 (p0 :: M) := by
    intro t h0 h1
    rw [← hl]
    exact ⟨Cvx.insert_front h0 h1 p0 _ c1, (signed2_insert_front p0 _ t).trans c2⟩
  show Cvx (subdivAux a b (M.getLastD p0) (p0 :: M)) ∧ _
  unfold subdivAux
  by_cases hcur : 0 ≤ cross a b p0
  · by_cases hp : cross a b (M.getLastD p0) < 0
    · rw [if_pos hcur, if_pos hp, isect_eq_lerp]
      obtain ⟨h0, h1⟩ := isect_param_in hp hcur
      exact withI _ h0 h1
    · rw [if_pos hcur, if_neg hp]; exact ⟨c1, c2⟩
  · by_cases hp : 0 ≤ cross a b (M.getLastD p0)
    · rw [if_neg hcur, if_pos hp, isect_eq_lerp]
      obtain ⟨h0, h1⟩ := isect_param_out hp (not_le.1 hcur)
      exact withI _ h0 h1
    · rw [if_neg hcur, if_neg hp]; exact ⟨c1, c2⟩

/-! ## one pass: convex position is kept, the shoelace area does not grow -/

theorem clipEdge_cvx (a b : V2) {P : List V2} (hc : Cvx P) : Cvx (clipEdge a b P) := by
  cases P with
  | nil => trivial
  | cons p0 M =>
    rw [clipEdge_cons_eq]
    exact Cvx.sublist List.filter_sublist (subdiv_cvx a b p0 M hc).1

/-- clipping a polygon in convex position by a half-plane does not increase the shoelace area -/
theorem signed2_clipEdge_le (a b : V2) {P : List V2} (hc : Cvx P) : signed2 (clipEdge a b P) ≤ signed2 P := by
  cases P with
  | nil => exact le_refl _
  | cons p0 M =>
    rw [clipEdge_cons_eq]
    obtain ⟨c1, c2⟩ := subdiv_cvx a b p0 M hc
    rw [← c2]
    exact signed2_sublist_le List.filter_sublist c1

/-! ## all passes -/

theorem foldl_clipEdge_cvx (es : List (V2 × V2)) : ∀ {P : List V2}, Cvx P →
    Cvx (es.foldl (fun poly e => clipEdge e.1 e.2 poly) P) ∧
      signed2 (es.foldl (fun poly e => clipEdge e.1 e.2 poly) P) ≤ signed2 P := by
  induction es with
  | nil => intro P hc; exact ⟨hc, le_refl _⟩
  | cons e es ih =>
    intro P hc
    rw [List.foldl_cons]
    obtain ⟨c1, c2⟩ := ih (clipEdge_cvx e.1 e.2 hc)
    exact ⟨c1, le_trans c2 (signed2_clipEdge_le e.1 e.2 hc)⟩

theorem clipConvex_cvx {P : List V2} (Q : List V2) (hc : Cvx P) : Cvx (clipConvex P Q) :=
  (foldl_clipEdge_cvx _ hc).1

theorem signed2_clipConvex_le {P : List V2} (Q : List V2) (hc : Cvx P) :
    signed2 (clipConvex P Q) ≤ signed2 P := (foldl_clipEdge_cvx _ hc).2

theorem polyArea_of_cvx {P : List V2} (hc : Cvx P) : polyArea P = signed2 P / 2 := by
  unfold polyArea; rw [rabs_of_nonneg (signed2_nonneg_of_cvx hc)]

/-- the exact intersection area never exceeds the area of the SUBJECT polygon, for every subject in
convex position and every clip polygon -/
theorem interArea_le_subject {P : List V2} (Q : List V2) (hc : Cvx P) : interArea P Q ≤ polyArea P := by
  unfold interArea
  split
  · rw [polyArea_of_cvx hc]
    exact div_nonneg (signed2_nonneg_of_cvx hc) (by norm_num)
  · rw [polyArea_of_cvx hc, polyArea_of_cvx (clipConvex_cvx Q hc)]
    exact div_le_div_of_nonneg_right (signed2_clipConvex_le Q hc) (by norm_num)

/-! ## convex predicates are inherited by the vertices of the clipped polygon -/

/-- a predicate on points that holds on a segment as soon as it holds at both ends -/
def ConvexPred (S : V2 → Prop) : Prop := ∀ p q t, S p → S q → 0 ≤ t → t ≤ 1 → S (lerp p q t)

theorem subdivAux_forall {S : V2 → Prop} (hS : ConvexPred S) (a b : V2) : ∀ (R : List V2) (prev : V2),
    S prev → (∀ p ∈ R, S p) → ∀ p ∈ subdivAux a b prev R, S p := by
  intro R
  induction R with
  | nil => intro prev _ _ p hp; cases hp
  | cons cur rest ih =>
    intro prev hprev hall
    have hcur : S cur := hall cur (by simp)
    have hrest := ih cur hcur (fun p hp => hall p (by simp [hp]))
    unfold subdivAux
    by_cases hc : 0 ≤ cross a b cur
    · by_cases hp : cross a b prev < 0
      · rw [if_pos hc, if_pos hp, isect_eq_lerp]
        obtain ⟨h0, h1⟩ := isect_param_in hp hc
        intro p hpm
        rcases List.mem_cons.1 hpm with rfl | hpm
        · exact hS _ _ _ hprev hcur h0 h1
        · rcases List.mem_cons.1 hpm with rfl | hpm
          · exact hcur
          · exact hrest p hpm
      · rw [if_pos hc, if_neg hp]
        intro p hpm
        rcases List.mem_cons.1 hpm with rfl | hpm
        · exact hcur
        · exact hrest p hpm
    · by_cases hp : 0 ≤ cross a b prev
      · rw [if_neg hc, if_pos hp, isect_eq_lerp]
        obtain ⟨h0, h1⟩ := isect_param_out hp (not_le.1 hc)
        intro p hpm
        rcases List.mem_cons.1 hpm with rfl | hpm
        · exact hS _ _ _ hprev hcur h0 h1
        · rcases List.mem_cons.1 hpm with rfl | hpm
          · exact hcur
          · exact hrest p hpm
      · rw [if_neg hc, if_neg hp]
        intro p hpm
        rcases List.mem_cons.1 hpm with rfl | hpm
        · exact hcur
        · exact hrest p hpm

theorem clipEdge_forall {S : V2 → Prop} (hS : ConvexPred S) (a b : V2) {P : List V2}
    (hall : ∀ p ∈ P, S p) : ∀ p ∈ clipEdge a b P, S p := by
  cases P with
  | nil => intro p hp; cases hp
  | cons p0 M =>
    rw [clipEdge_cons_eq]
    intro p hp
    have hl : M.getLastD p0 ∈ p0 :: M := List.getLastD_mem_cons
    exact subdivAux_forall hS a b (p0 :: M) _ (hall _ hl) hall p (List.mem_filter.1 hp).1

/-- every vertex of one clipping pass lies in the closed half-plane -/
theorem clipEdge_inside_mem (a b : V2) {P : List V2} : ∀ p ∈ clipEdge a b P, 0 ≤ cross a b p := by
  cases P with
  | nil => intro p hp; cases hp
  | cons p0 M =>
    rw [clipEdge_cons_eq]
    intro p hp
    have := (List.mem_filter.1 hp).2
    simpa [inside] using this

theorem foldl_clipEdge_forall {S : V2 → Prop} (hS : ConvexPred S) (es : List (V2 × V2)) : ∀ {P : List V2},
    (∀ p ∈ P, S p) → ∀ p ∈ es.foldl (fun poly e => clipEdge e.1 e.2 poly) P, S p := by
  induction es with
  | nil => intro P h; exact h
  | cons e es ih =>
    intro P h
    rw [List.foldl_cons]
    exact ih (clipEdge_forall hS e.1 e.2 h)

theorem foldl_clipEdge_nil (es : List (V2 × V2)) :
    es.foldl (fun poly e => clipEdge e.1 e.2 poly) [] = [] := by
  induction es with
  | nil => rfl
  | cons e es ih => rw [List.foldl_cons, clipEdge_nil]; exact ih

theorem convexPred_neg (u v : V2) : ConvexPred (fun p => cross u v p < 0) := by
  intro p q t hp hq h0 h1
  show cross u v (lerp p q t) < 0
  rw [cross_lerp3]
  rcases lt_or_eq_of_le h0 with h | h
  · have := mul_neg_of_pos_of_neg h hq
    have := mul_nonpos_of_nonneg_of_nonpos (sub_nonneg.2 h1) (le_of_lt hp)
    linarith
  · rw [← h]; simpa using hp

theorem convexPred_nonpos (u v : V2) : ConvexPred (fun p => cross u v p ≤ 0) := by
  intro p q t hp hq h0 h1
  show cross u v (lerp p q t) ≤ 0
  rw [cross_lerp3]
  have := mul_nonpos_of_nonneg_of_nonpos h0 hq
  have := mul_nonpos_of_nonneg_of_nonpos (sub_nonneg.2 h1) hp
  linarith

theorem convexPred_nonneg (u v : V2) : ConvexPred (fun p => 0 ≤ cross u v p) := by
  intro p q t hp hq h0 h1
  show 0 ≤ cross u v (lerp p q t)
  rw [cross_lerp3]
  exact conv_nonneg h0 h1 hp hq

theorem convexPred_zero (u v : V2) : ConvexPred (fun p => cross u v p = 0) := by
  intro p q t hp hq _ _
  show cross u v (lerp p q t) = 0
  rw [cross_lerp3, hp, hq]; ring

/-! ## a separating edge of the clip polygon -/

/-- one pass against a line that has every vertex strictly on its outer side leaves nothing -/
theorem clipEdge_strict_outside (a b : V2) {P : List V2} (h : ∀ p ∈ P, cross a b p < 0) :
    clipEdge a b P = [] := by
  apply List.eq_nil_iff_forall_not_mem.2
  intro p hp
  have h1 := clipEdge_forall (convexPred_neg a b) a b h p hp
  have h2 := clipEdge_inside_mem a b p hp
  linarith

/-- STRICT separation by an edge of the clip polygon: the clipped polygon is empty -/
theorem clipConvex_separated {P Q : List V2} {e : V2 × V2} (he : e ∈ edges (ccw Q))
    (h : ∀ p ∈ P, cross e.1 e.2 p < 0) : clipConvex P Q = [] := by
  unfold clipConvex
  obtain ⟨es1, es2, hes⟩ := List.append_of_mem he
  rw [hes, List.foldl_append, List.foldl_cons]
  rw [clipEdge_strict_outside e.1 e.2 (foldl_clipEdge_forall (convexPred_neg e.1 e.2) es1 h)]
  exact foldl_clipEdge_nil es2

theorem interArea_separated {P Q : List V2} {e : V2 × V2} (he : e ∈ edges (ccw Q))
    (h : ∀ p ∈ P, cross e.1 e.2 p < 0) : interArea P Q = 0 := by
  unfold interArea
  split
  · rfl
  · rw [clipConvex_separated he h]; simp [polyArea, signed2, rabs]

/-! ## touching: every subject vertex in the closed outer half-plane of a (non-degenerate) clip edge -/

theorem cross_collinear {a b p q r : V2} (hab : a ≠ b) (hp : cross a b p = 0) (hq : cross a b q = 0)
    (hr : cross a b r = 0) : cross p q r = 0 := by
  have hne : b.x - a.x ≠ 0 ∨ b.y - a.y ≠ 0 := by
    by_contra hcon
    simp only [not_or, ne_eq, not_not] at hcon
    apply hab
    cases a; cases b
    simp only [V2.mk.injEq]
    simp only at hcon
    constructor <;> linarith [hcon.1, hcon.2]
  unfold cross at hp hq hr ⊢
  rcases hne with hx | hy
  · have : (b.x - a.x) * ((q.x - p.x) * (r.y - p.y) - (q.y - p.y) * (r.x - p.x)) = 0 := by
      linear_combination (q.x - p.x) * (hr - hp) - (r.x - p.x) * (hq - hp)
    rcases mul_eq_zero.1 this with h | h
    · exact absurd h hx
    · exact h
  · have : (b.y - a.y) * ((q.x - p.x) * (r.y - p.y) - (q.y - p.y) * (r.x - p.x)) = 0 := by
      linear_combination (q.y - p.y) * (hr - hp) - (r.y - p.y) * (hq - hp)
    rcases mul_eq_zero.1 this with h | h
    · exact absurd h hy
    · exact h

theorem fan2_collinear {a b o : V2} (hab : a ≠ b) (ho : cross a b o = 0) : ∀ L : List V2,
    (∀ p ∈ L, cross a b p = 0) → fan2 o L = 0 := by
  intro L
  induction L with
  | nil => intro _; rfl
  | cons x L ih =>
    intro h
    cases L with
    | nil => rfl
    | cons y L =>
      rw [fan2_cons_cons, ih (fun p hp => h p (by simp [hp])),
        cross_collinear hab ho (h x (by simp)) (h y (by simp))]
      ring

theorem signed2_collinear {a b : V2} (hab : a ≠ b) {L : List V2} (h : ∀ p ∈ L, cross a b p = 0) :
    signed2 L = 0 := by
  cases L with
  | nil => rfl
  | cons o L => exact fan2_collinear hab (h o (by simp)) L (fun p hp => h p (by simp [hp]))

/-- NON-STRICT separation (touching allowed) by a non-degenerate edge of the clip polygon: the
clipped polygon lies on that edge's line and has area 0 -/
theorem clipConvex_touching {P Q : List V2} {e : V2 × V2} (he : e ∈ edges (ccw Q)) (hne : e.1 ≠ e.2)
    (h : ∀ p ∈ P, cross e.1 e.2 p ≤ 0) : signed2 (clipConvex P Q) = 0 := by
  unfold clipConvex
  obtain ⟨es1, es2, hes⟩ := List.append_of_mem he
  rw [hes, List.foldl_append, List.foldl_cons]
  apply signed2_collinear hne
  apply foldl_clipEdge_forall (convexPred_zero e.1 e.2) es2
  intro p hp
  have h1 := clipEdge_forall (convexPred_nonpos e.1 e.2) e.1 e.2
    (foldl_clipEdge_forall (convexPred_nonpos e.1 e.2) es1 h) p hp
  have h2 := clipEdge_inside_mem e.1 e.2 p hp
  exact le_antisymm h1 h2

theorem interArea_touching {P Q : List V2} {e : V2 × V2} (he : e ∈ edges (ccw Q)) (hne : e.1 ≠ e.2)
    (h : ∀ p ∈ P, cross e.1 e.2 p ≤ 0) : interArea P Q = 0 := by
  unfold interArea
  split
  · rfl
  · unfold polyArea; rw [clipConvex_touching he hne h]; simp [rabs]

/-! ## box footprints: orientation, non-degenerate edges, the subject bound -/

theorem ccw_footprint {b : Box} (hw : 0 ≤ b.w) (hl : 0 ≤ b.l) (hr : b.rot.IsUnit) :
    ccw (footprint b) = footprint b := by
  unfold ccw
  rw [signed2_footprint hr, if_neg]
  have := mul_nonneg hw hl
  linarith

theorem footprint_edges_ne {b : Box} (hb : b.PosSize) (hr : b.rot.IsUnit) :
    ∀ ed ∈ edges (footprint b), ed.1 ≠ ed.2 := by
  intro ed hed
  rw [footprint_eq_map_local, edges_motion] at hed
  obtain ⟨ed', hed', rfl⟩ := List.mem_map.1 hed
  intro heq
  simp only at heq
  have hd : dist2 ed'.1 ed'.2 = 0 := by
    rw [← dist2_motion (m := ⟨b.rot, ⟨b.center.x, b.center.y, 0⟩⟩) hr, heq, dist2_self]
  have hl2 := mul_pos hb.2.1 hb.2.1
  have hw2 := mul_pos hb.1 hb.1
  simp only [localCorners, edges, List.cons_append, List.nil_append, List.zip_cons_cons, List.zip_nil_right,
    List.mem_cons, List.not_mem_nil, or_false] at hed'
  rcases hed' with rfl | rfl | rfl | rfl <;> simp only [dist2] at hd <;> nlinarith

theorem interArea_footprint_le_subject (e g : Box) (hw : 0 ≤ e.w) (hl : 0 ≤ e.l) (hr : e.rot.IsUnit) :
    interArea (footprint e) (footprint g) ≤ areaBev e := by
  have := interArea_le_subject (footprint g) (cvx_footprint hw hl hr)
  rwa [polyArea_footprint hr] at this

/-! ## the symmetrised exact intersection area meets the whole contract -/

theorem rmin_nonneg {a b : Rat} (ha : 0 ≤ a) (hb : 0 ≤ b) : 0 ≤ rmin a b := by unfold rmin; grind
theorem rmin_self (a : Rat) : rmin a a = a := by unfold rmin; grind
theorem rmin_zero_left {b : Rat} (hb : 0 ≤ b) : rmin 0 b = 0 := by unfold rmin; grind
theorem rmin_zero_right {a : Rat} (ha : 0 ≤ a) : rmin a 0 = 0 := by unfold rmin; grind

theorem interSym_comm (p q : List V2) : interSym p q = interSym q p := rmin_comm _ _

theorem interSym_nonneg (p q : List V2) : 0 ≤ interSym p q :=
  rmin_nonneg (interArea_nonneg p q) (interArea_nonneg q p)

theorem interSym_le_left {p : List V2} (q : List V2) (hp : Cvx p) : interSym p q ≤ polyArea p :=
  le_trans (rmin_le_left _ _) (interArea_le_subject q hp)

theorem interSym_le_right (p : List V2) {q : List V2} (hq : Cvx q) : interSym p q ≤ polyArea q :=
  le_trans (rmin_le_right _ _) (interArea_le_subject p hq)

theorem interSym_motion {m : Motion} (h : m.rot.IsUnit) (p q : List V2) :
    interSym (p.map m.apply2) (q.map m.apply2) = interSym p q := by
  unfold interSym; rw [interArea_motion h, interArea_motion h]

/-- whenever the clipper is symmetric on a pair, the symmetrised value IS the clipper's value -/
theorem interSym_eq_of_symm {p q : List V2} (h : interArea p q = interArea q p) : interSym p q = interArea p q := by
  unfold interSym; rw [← h, rmin_self]

theorem interSym_eq_zero_of_left {p q : List V2} (h : interArea p q = 0) : interSym p q = 0 := by
  unfold interSym; rw [h]; exact rmin_zero_left (interArea_nonneg q p)

theorem interSym_eq_zero_of_right {p q : List V2} (h : interArea q p = 0) : interSym p q = 0 := by
  unfold interSym; rw [h]; exact rmin_zero_right (interArea_nonneg p q)

/-! ## a separating edge of the SUBJECT box: the result lies in the clip box, hence beyond that edge too -/

/-- every vertex of the clipped polygon lies in every closed half-plane of the clip polygon -/
theorem clipConvex_mem_inside {P Q : List V2} {e : V2 × V2} (he : e ∈ edges (ccw Q)) :
    ∀ x ∈ clipConvex P Q, 0 ≤ cross e.1 e.2 x := by
  unfold clipConvex
  obtain ⟨es1, es2, hes⟩ := List.append_of_mem he
  rw [hes, List.foldl_append, List.foldl_cons]
  exact foldl_clipEdge_forall (convexPred_nonneg e.1 e.2) es2 (clipEdge_inside_mem e.1 e.2)

/-- every convex predicate of the subject's vertices holds for the vertices of the clipped polygon -/
theorem clipConvex_forall {S : V2 → Prop} (hS : ConvexPred S) {P : List V2} (Q : List V2)
    (h : ∀ p ∈ P, S p) : ∀ x ∈ clipConvex P Q, S x :=
  foldl_clipEdge_forall hS _ h

/-- bilinear interpolation in a parallelogram `c0 c1 c2 c3` (`c2 = c1 + c3 − c0`), division-free -/
theorem para_identity (c0 c1 c2 c3 x u v : V2) (hx : c2.x = c1.x + c3.x - c0.x) (hy : c2.y = c1.y + c3.y - c0.y) :
    cross c0 c1 c2 * cross c0 c1 c2 * cross u v x
      = cross c2 c3 x * cross c1 c2 x * cross u v c0 + cross c2 c3 x * cross c3 c0 x * cross u v c1
        + cross c0 c1 x * cross c3 c0 x * cross u v c2 + cross c0 c1 x * cross c1 c2 x * cross u v c3 := by
  obtain ⟨c2x, c2y⟩ := c2
  simp only at hx hy
  subst hx hy
  unfold cross
  ring

/-- an affine upper bound 0 at the four corners of a (non-degenerate, counter-clockwise) parallelogram
holds at every point of its four closed half-planes -/
theorem para_bound (c0 c1 c2 c3 x u v : V2) (hx : c2.x = c1.x + c3.x - c0.x) (hy : c2.y = c1.y + c3.y - c0.y)
    (hD : 0 < cross c0 c1 c2)
    (h01 : 0 ≤ cross c0 c1 x) (h12 : 0 ≤ cross c1 c2 x) (h23 : 0 ≤ cross c2 c3 x) (h30 : 0 ≤ cross c3 c0 x)
    (f0 : cross u v c0 ≤ 0) (f1 : cross u v c1 ≤ 0) (f2 : cross u v c2 ≤ 0) (f3 : cross u v c3 ≤ 0) :
    cross u v x ≤ 0 := by
  have hid := para_identity c0 c1 c2 c3 x u v hx hy
  have t0 := mul_nonpos_of_nonneg_of_nonpos (mul_nonneg h23 h12) f0
  have t1 := mul_nonpos_of_nonneg_of_nonpos (mul_nonneg h23 h30) f1
  have t2 := mul_nonpos_of_nonneg_of_nonpos (mul_nonneg h01 h30) f2
  have t3 := mul_nonpos_of_nonneg_of_nonpos (mul_nonneg h01 h12) f3
  have hDD : 0 < cross c0 c1 c2 * cross c0 c1 c2 := mul_pos hD hD
  by_contra hcon
  have hpos : 0 < cross u v x := not_le.1 hcon
  have := mul_pos hDD hpos
  linarith

theorem ccw_localCorners {b : Box} (hw : 0 ≤ b.w) (hl : 0 ≤ b.l) : ccw (localCorners b) = localCorners b := by
  unfold ccw
  rw [signed2_localCorners, if_neg]
  have := mul_nonneg hw hl
  linarith

/-- every corner of a box lies in every closed half-plane of its own footprint -/
theorem footprint_inside_self {b : Box} (hb : b.PosSize) (hr : b.rot.IsUnit) :
    ∀ ed ∈ edges (footprint b), ∀ p ∈ footprint b, 0 ≤ cross ed.1 ed.2 p := by
  intro ed hed p hp
  rw [footprint_eq_map_local] at hp
  rw [footprint_eq_map_local, edges_motion] at hed
  obtain ⟨ed', hed', rfl⟩ := List.mem_map.1 hed
  obtain ⟨p', hp', rfl⟩ := List.mem_map.1 hp
  simp only
  rw [cross_motion hr]
  have h := localCorners_inside_self hb.1 hb.2.1
  unfold InsideOf at h
  rw [ccw_localCorners (le_of_lt hb.1) (le_of_lt hb.2.1)] at h
  exact h ed' hed' p' hp'

/-- a point in the four closed half-planes of a box footprint satisfies every affine bound `≤ 0` that holds
at the four corners -/
theorem footprint_bound {g : Box} (hg : g.PosSize) (hr : g.rot.IsUnit) (u v x : V2)
    (hin : ∀ ed ∈ edges (footprint g), 0 ≤ cross ed.1 ed.2 x)
    (hf : ∀ c ∈ footprint g, cross u v c ≤ 0) : cross u v x ≤ 0 := by
  have hfp : footprint g =
      [Motion.apply2 ⟨g.rot, ⟨g.center.x, g.center.y, 0⟩⟩ ⟨g.l / 2, g.w / 2⟩,
       Motion.apply2 ⟨g.rot, ⟨g.center.x, g.center.y, 0⟩⟩ ⟨-g.l / 2, g.w / 2⟩,
       Motion.apply2 ⟨g.rot, ⟨g.center.x, g.center.y, 0⟩⟩ ⟨-g.l / 2, -g.w / 2⟩,
       Motion.apply2 ⟨g.rot, ⟨g.center.x, g.center.y, 0⟩⟩ ⟨g.l / 2, -g.w / 2⟩] := rfl
  rw [hfp] at hin hf
  simp only [edges, List.cons_append, List.nil_append, List.zip_cons_cons, List.zip_nil_right, List.mem_cons,
    List.not_mem_nil, or_false, forall_eq_or_imp, forall_eq] at hin hf
  obtain ⟨h01, h12, h23, h30⟩ := hin
  obtain ⟨f0, f1, f2, f3⟩ := hf
  refine para_bound _ _ _ _ x u v ?_ ?_ ?_ h01 h12 h23 h30 f0 f1 f2 f3
  · simp only [Motion.apply2, Rot2.apply, V2.add]; ring
  · simp only [Motion.apply2, Rot2.apply, V2.add]; ring
  · rw [cross_motion (m := ⟨g.rot, ⟨g.center.x, g.center.y, 0⟩⟩) hr]
    have := mul_pos hg.1 hg.2.1
    simp only [cross]
    nlinarith

/-- an edge of `g`'s footprint (the CLIP polygon) with all corners of `e` in its closed outer half-plane -/
theorem interArea_footprint_sep_clip {e g : Box} (hg : g.PosSize) (hrg : g.rot.IsUnit) {ed : V2 × V2}
    (hed : ed ∈ edges (footprint g)) (h : ∀ p ∈ footprint e, cross ed.1 ed.2 p ≤ 0) :
    interArea (footprint e) (footprint g) = 0 :=
  interArea_touching (by rwa [ccw_footprint (le_of_lt hg.1) (le_of_lt hg.2.1) hrg])
    (footprint_edges_ne hg hrg ed hed) h

/-- an edge of `e`'s footprint (the SUBJECT polygon) with all corners of `g` in its closed outer half-plane:
every vertex of the clipped polygon lies on that edge's line, the area is 0 -/
theorem interArea_footprint_sep_subject {e g : Box} (he : e.PosSize) (hg : g.PosSize) (hre : e.rot.IsUnit)
    (hrg : g.rot.IsUnit) {ed : V2 × V2} (hed : ed ∈ edges (footprint e))
    (h : ∀ p ∈ footprint g, cross ed.1 ed.2 p ≤ 0) : interArea (footprint e) (footprint g) = 0 := by
  have hne := footprint_edges_ne he hre ed hed
  have hall : ∀ x ∈ clipConvex (footprint e) (footprint g), cross ed.1 ed.2 x = 0 := by
    intro x hx
    have h1 : 0 ≤ cross ed.1 ed.2 x :=
      clipConvex_forall (convexPred_nonneg ed.1 ed.2) _ (footprint_inside_self he hre ed hed) x hx
    have h2 : cross ed.1 ed.2 x ≤ 0 := by
      apply footprint_bound hg hrg _ _ x _ h
      intro ed' hed'
      have hed'' : ed' ∈ edges (ccw (footprint g)) := by
        rwa [ccw_footprint (le_of_lt hg.1) (le_of_lt hg.2.1) hrg]
      exact clipConvex_mem_inside hed'' x hx
    exact le_antisymm h2 h1
  unfold interArea
  split
  · rfl
  · unfold polyArea; rw [signed2_collinear hne hall]; simp [rabs]

/-! ## separated boxes -/

/-- an edge of `g`'s footprint has every corner of `e` in its closed outer half-plane -/
def SepByEdge (e g : Box) : Prop :=
  ∃ ed ∈ edges (footprint g), ∀ p ∈ footprint e, cross ed.1 ed.2 p ≤ 0

/-- the two footprints have disjoint interiors, witnessed by a separating edge of either box (touching
allowed).  By the separating-axis theorem this is every pair of rectangles with disjoint interiors (that
direction is not formalised; the definition is the hypothesis of the theorems below). -/
def Separated (e g : Box) : Prop := SepByEdge e g ∨ SepByEdge g e

instance (e g : Box) : Decidable (SepByEdge e g) := by unfold SepByEdge; infer_instance
instance (e g : Box) : Decidable (Separated e g) := by unfold Separated; infer_instance

theorem Separated.symm {e g : Box} (h : Separated e g) : Separated g e := Or.symm h

/-- the exact clipper returns area 0 for two separated boxes, whichever box owns the separating edge -/
theorem interArea_footprint_separated {e g : Box} (he : e.PosSize) (hg : g.PosSize) (hre : e.rot.IsUnit)
    (hrg : g.rot.IsUnit) (h : Separated e g) : interArea (footprint e) (footprint g) = 0 := by
  rcases h with ⟨ed, hed, h⟩ | ⟨ed, hed, h⟩
  · exact interArea_footprint_sep_clip hg hrg hed h
  · exact interArea_footprint_sep_subject he hg hre hrg hed h

end PEval.Geometry
