import PEval.Lemmas.ClearScenario
/-!
Helper lemmas for C05, part 5: a perfect history whose estimate ids are renamed from some frame on.
-/

namespace PEval.Clear

open Function

theorem mem_split_hist {pre : List (List Res)} {prev cur : List Res} {rest : List (List Res)} :
    (∀ f ∈ pre ++ [prev], f ∈ pre ++ prev :: cur :: rest) ∧ (∀ f ∈ cur :: rest, f ∈ pre ++ prev :: cur :: rest) ∧
      prev ∈ pre ++ prev :: cur :: rest ∧ cur ∈ pre ++ prev :: cur :: rest := by
  refine ⟨?_, ?_, ?_, ?_⟩
  · intro f hf
    simp only [List.mem_append, List.mem_cons, List.not_mem_nil, or_false] at hf ⊢
    rcases hf with h | h
    · exact Or.inl h
    · exact Or.inr (Or.inl h)
  · intro f hf
    simp only [List.mem_append, List.mem_cons] at hf ⊢
    rcases hf with h | h
    · exact Or.inr (Or.inr (Or.inl h))
    · exact Or.inr (Or.inr (Or.inr h))
  · simp
  · simp

/-- totals of a perfect history whose frames from `cur` on have their estimate ids renamed by an injective `ρ` -/
theorem relabel_totals (cfg : Cfg) (pre : List (List Res)) (prev cur : List Res) (rest : List (List Res))
    (ρ : Nat → Nat) (hρ : Injective ρ)
    (hP : Perfect cfg (pre ++ prev :: cur :: rest))
    (hcont : ∀ c ∈ cur, ρ c.est ≠ c.est → ∃ p ∈ prev, sameGt c p = true) :
    (clear cfg (pre ++ prev :: renameHist ρ id (cur :: rest))).tp = (resultCount (pre ++ prev :: cur :: rest) : Rat) ∧
    (clear cfg (pre ++ prev :: renameHist ρ id (cur :: rest))).fp = 0 ∧
    (clear cfg (pre ++ prev :: renameHist ρ id (cur :: rest))).sw = cur.countP (fun c => decide (ρ c.est ≠ c.est)) := by
  obtain ⟨hA, hC, hprev, hcur⟩ := @mem_split_hist pre prev cur rest
  have hren : renameHist ρ id (cur :: rest) = renameFrame ρ id cur :: renameHist ρ id rest := rfl
  -- part A: the unchanged prefix
  have pA := perfect_totals cfg (pre ++ [prev]) (hP.sublist hA)
  rw [clear_eq_total] at pA
  -- part C: the renamed suffix
  have pC := perfect_totals cfg (cur :: rest) (hP.sublist hC)
  rw [← clear_rename hρ injective_id cfg (cur :: rest), clear_eq_total, hren] at pC
  -- part B: the boundary
  let lB : List (List Res × Res) := (renameFrame ρ id cur).map (fun x => (prev, x))
  have hB : ∀ e ∈ lB, ∃ c ∈ cur, e = (prev, c.rename ρ id) := by
    intro e he
    simp only [lB, renameFrame, List.map_map, List.mem_map] at he
    obtain ⟨c, hc, rfl⟩ := he
    exact ⟨c, hc, rfl⟩
  have hfacts : ∀ c ∈ cur, countsTp cfg prev (c.rename ρ id) = true ∧ countsFp cfg prev (c.rename ρ id) = false ∧
      countsSwitch cfg prev (c.rename ρ id) = decide (ρ c.est ≠ c.est) := by
    intro c hc
    exact boundary_counts cfg ρ prev c (hP.good cur hcur c hc) (fun p hp => hP.good prev hprev p hp)
      (fun p hp => hP.consistent cur hcur c hc prev hprev p hp) (hcont c hc)
  have huB : UnitEvents lB := by
    intro e he
    obtain ⟨c, hc, rfl⟩ := hB e he
    exact ⟨by simpa using (hP.good cur hcur c hc).2.2.2, fun p hp => (hP.good prev hprev p hp).2.2.2⟩
  have pB := total_all_tp cfg lB huB (by
    intro e he
    obtain ⟨c, hc, rfl⟩ := hB e he
    exact ⟨(hfacts c hc).1, (hfacts c hc).2.1⟩)
  have pBsw : (total cfg lB).sw = cur.countP (fun c => decide (ρ c.est ≠ c.est)) := by
    rw [total_sw]
    simp only [lB, renameFrame, List.map_map, List.countP_map]
    apply List.countP_congr
    intro c hc
    simp only [Function.comp]
    rw [(hfacts c hc).2.2]
  have hlen : lB.length = cur.length := by simp [lB, renameFrame]
  -- assemble
  rw [clear_eq_total, hren, events_split, total_append, total_append]
  have hrc := resultCount_split pre prev cur rest
  refine ⟨?_, ?_, ?_⟩
  · simp only [Acc.add_tp]
    rw [pA.1, pB.1, pC.1, hlen, hrc]
    grind
  · simp only [Acc.add_fp]
    rw [pA.2.1, pB.2, pC.2.1]
  · simp only [Acc.add_sw]
    rw [pA.2.2, pBsw, pC.2.2]
    omega

theorem swapId_ne_iff (a b x : Nat) (hab : a ≠ b) : swapId a b x ≠ x ↔ (x = a ∨ x = b) := by
  unfold swapId
  split
  · rename_i h; subst h; simp [Ne.symm hab]
  · split
    · rename_i h1 h; subst h; simp [hab]
    · rename_i h1 h2; simp [h1, h2]

theorem renameFrame_congr (f f' g : Nat → Nat) (fr : List Res) (h : ∀ r ∈ fr, f r.est = f' r.est) :
    renameFrame f g fr = renameFrame f' g fr := by
  unfold renameFrame
  apply List.map_congr_left
  intro r hr
  unfold Res.rename
  rw [h r hr]

theorem renameHist_congr (f f' g : Nat → Nat) (hist : List (List Res)) (h : ∀ fr ∈ hist, ∀ r ∈ fr, f r.est = f' r.est) :
    renameHist f g hist = renameHist f' g hist := by
  unfold renameHist
  apply List.map_congr_left
  intro fr hfr
  exact renameFrame_congr f f' g fr (h fr hfr)

theorem replaceId_eq_swapId (a b x : Nat) (hx : x ≠ b) : replaceId a b x = swapId a b x := by
  unfold replaceId swapId
  split
  · rfl
  · rfl

end PEval.Clear
