import PEval.Lemmas.DatasetTotal
/-!
A concrete, non-trivial table set used by the non-vacuity `example`s of `PEval.Properties.C16`:
two samples 0.5 s apart, LIDAR_TOP calibrated at the ego origin plus a camera elsewhere, ego poses
rotated by the unit quaternions (3,0,0,4)/5 and (1,2,2,4)/5, a bus present in both samples (so the
second annotation has a history) and a pedestrian of an unregistered category in the first only.
-/
namespace PEval.Dataset
open PEval

def exTables : Tables where
  samples := [⟨"s0", 1600000000000000⟩, ⟨"s1", 1600000000500000⟩]
  sensors := [⟨"senT", "LIDAR_TOP"⟩, ⟨"senF", "CAM_FRONT"⟩]
  calibratedSensors := [⟨"csT", "senT", Vec3.zero, Quat.one⟩, ⟨"csF", "senF", ⟨3/2, 0, 3/2⟩, ⟨1/2, -1/2, 1/2, -1/2⟩⟩]
  egoPoses := [⟨"e0", ⟨100, -50, 1/2⟩, ⟨3/5, 0, 0, 4/5⟩⟩, ⟨"e1", ⟨105, -49, 1/2⟩, ⟨1/5, 2/5, 2/5, 4/5⟩⟩,
               ⟨"e2", ⟨0, 0, 0⟩, Quat.one⟩]
  sampleData := [⟨"sd0", "s0", "e0", "csT", true⟩, ⟨"sd1", "s1", "e1", "csT", true⟩,
                 ⟨"sd2", "s1", "e2", "csT", false⟩, ⟨"sd3", "s0", "e2", "csF", true⟩]
  categories := [⟨"c0", "Vehicle.Bus"⟩, ⟨"c1", "human.pedestrian.adult"⟩]
  attributes := [⟨"at0", "vehicle.moving"⟩]
  visibility := [⟨"none", "v80-100"⟩, ⟨"3", "most"⟩]
  instances := [⟨"i0", "c0"⟩, ⟨"i1", "c1"⟩]
  annotations := [
    ⟨"a0", "s1", "i0", "none", ["at0"], ⟨120, -40, 1⟩, ⟨5/2, 10, 3⟩, ⟨4/5, 0, 0, 3/5⟩, "a2", 0⟩,
    ⟨"a1", "s0", "i1", "3", [], ⟨90, -60, 3/4⟩, ⟨1/2, 3/4, 7/4⟩, ⟨0, 0, 0, -1⟩, "", 12⟩,
    ⟨"a2", "s0", "i0", "3", [], ⟨118, -41, 1⟩, ⟨5/2, 10, 3⟩, ⟨4/5, 0, 0, 3/5⟩, "", 300⟩]

def exS1 : Sample := ⟨"s1", 1600000000500000⟩
def exSd1 : SampleData := ⟨"sd1", "s1", "e1", "csT", true⟩
def exEgo1 : EgoPose := ⟨"e1", ⟨105, -49, 1/2⟩, ⟨1/5, 2/5, 2/5, 4/5⟩⟩
def exCsT : CalibratedSensor := ⟨"csT", "senT", Vec3.zero, Quat.one⟩
def exA0 : Annotation :=
  ⟨"a0", "s1", "i0", "none", ["at0"], ⟨120, -40, 1⟩, ⟨5/2, 10, 3⟩, ⟨4/5, 0, 0, 3/5⟩, "a2", 0⟩
def exA2 : Annotation :=
  ⟨"a2", "s0", "i0", "3", [], ⟨118, -41, 1⟩, ⟨5/2, 10, 3⟩, ⟨4/5, 0, 0, 3/5⟩, "", 300⟩

/-- `∀ a ∈ l, ∃ b, f a = ok b` from a decidable check -/
theorem all_ok {α β} {f : α → Except Err β} {l : List α}
    (h : l.all (fun a => (f a).toBool) = true) : ∀ a ∈ l, ∃ b, f a = .ok b := by
  intro a ha
  have := List.all_eq_true.1 h a ha
  cases hf : f a with
  | ok b => exact ⟨b, rfl⟩
  | error e => simp [hf, Except.toBool] at this

theorem exTables_wellFormed : WellFormed exTables where
  samples_ne := by decide
  lidar := all_ok (by decide +kernel)
  ego := all_ok (by decide +kernel)
  calib := all_ok (by decide +kernel)
  ann_sample := all_ok (by decide +kernel)
  ann_instance := all_ok (by decide +kernel)
  inst_category := all_ok (by decide +kernel)
  ann_attributes := by
    intro a ha
    exact all_ok (f := fun t => lookup Named.token exTables.attributes t)
      (List.all_eq_true.1 (by decide +kernel :
        exTables.annotations.all (fun a => a.attributeTokens.all
          (fun t => (lookup Named.token exTables.attributes t).toBool)) = true) a ha)
  ann_visibility := fun _ => all_ok (by decide +kernel)
  ann_prev := by
    intro a ha hne
    have h : exTables.annotations.all (fun a =>
        a.prev == "" || (lookup Annotation.token exTables.annotations a.prev).toBool) = true := by
      decide +kernel
    have := List.all_eq_true.1 h a ha
    cases hl : lookup Annotation.token exTables.annotations a.prev with
    | ok b => exact ⟨b, rfl⟩
    | error e => simp [hl, Except.toBool, hne] at this

end PEval.Dataset
