import PEval.Lemmas.DatasetHistory
import PEval.Lemmas.Dataset2D
/-!
A concrete, non-trivial table set used by the non-vacuity `example`s of `PEval.Properties.C16`:
two samples 0.5 s apart, LIDAR_TOP calibrated at the ego origin plus a camera elsewhere, ego poses
rotated by the unit quaternions (3,0,0,4)/5 and (1,2,2,4)/5, a bus present in both samples (so the
second annotation has a history) and a pedestrian of an unregistered category in the first only.
`exTables2D` adds a second camera, traffic-light categories, four instances sharing two regulatory
element ids and five 2-D annotations (one on a sweep image that no sample exposes). `exTablesN1` calibrates
two traffic-light cameras `q` and `-q` (the input of the repaired finding C16-N1).
-/
namespace PEval.Dataset
open PEval

def exTables : Tables where
  samples := [⟨"s0", 1600000000000000, 1600000000⟩, ⟨"s1", 1600000000500000, 3200000001 / 2⟩]
  sensors := [⟨"senT", "LIDAR_TOP"⟩, ⟨"senF", "CAM_FRONT"⟩]
  calibratedSensors := [⟨"csT", "senT", Vec3.zero, Quat.one⟩, ⟨"csF", "senF", ⟨3/2, 0, 3/2⟩, ⟨1/2, -1/2, 1/2, -1/2⟩⟩]
  egoPoses := [⟨"e0", ⟨100, -50, 1/2⟩, ⟨3/5, 0, 0, 4/5⟩⟩, ⟨"e1", ⟨105, -49, 1/2⟩, ⟨1/5, 2/5, 2/5, 4/5⟩⟩,
               ⟨"e2", ⟨0, 0, 0⟩, Quat.one⟩]
  sampleData := [⟨"sd0", "s0", "e0", "csT", true⟩, ⟨"sd1", "s1", "e1", "csT", true⟩,
                 ⟨"sd2", "s1", "e2", "csT", false⟩, ⟨"sd3", "s0", "e2", "csF", true⟩]
  categories := [⟨"c0", "Vehicle.Bus"⟩, ⟨"c1", "human.pedestrian.adult"⟩]
  attributes := [⟨"at0", "vehicle.moving"⟩]
  visibility := [⟨"none", "v80-100"⟩, ⟨"3", "most"⟩]
  instances := [⟨"i0", "c0", ""⟩, ⟨"i1", "c1", ""⟩]
  annotations := [
    ⟨"a0", "s1", "i0", "none", ["at0"], ⟨120, -40, 1⟩, ⟨5/2, 10, 3⟩, ⟨4/5, 0, 0, 3/5⟩, "a2", "", 0⟩,
    ⟨"a1", "s0", "i1", "3", [], ⟨90, -60, 3/4⟩, ⟨1/2, 3/4, 7/4⟩, ⟨0, 0, 0, -1⟩, "", "", 12⟩,
    ⟨"a2", "s0", "i0", "3", [], ⟨118, -41, 1⟩, ⟨5/2, 10, 3⟩, ⟨4/5, 0, 0, 3/5⟩, "", "a0", 300⟩]

def exTables2D : Tables :=
  { exTables with
    sensors := [⟨"senT", "LIDAR_TOP"⟩, ⟨"senF", "CAM_FRONT"⟩, ⟨"senN", "CAM_TRAFFIC_LIGHT_NEAR"⟩],
    calibratedSensors := exTables.calibratedSensors ++ [⟨"csN", "senN", ⟨1, 0, 2⟩, Quat.one⟩],
    sampleData := exTables.sampleData ++ [⟨"sd4", "s0", "e1", "csN", true⟩, ⟨"sd5", "s0", "e0", "csN", false⟩],
    categories := exTables.categories ++ [⟨"c2", "green"⟩, ⟨"c3", "UNKNOWN"⟩, ⟨"c4", "red_left"⟩],
    instances := exTables.instances ++ [⟨"j0", "c2", "scene::traffic_light:123"⟩, ⟨"j1", "c3", "x::traffic_light:123"⟩,
      ⟨"j2", "c4", "77"⟩, ⟨"j3", "c4", "a:77"⟩],
    objectAnns := [
      ⟨"o0", "sd3", "j0", "c2", ["at0"], 21 / 2, 20, 1109 / 10, -7 / 2⟩,
      ⟨"o1", "sd4", "j1", "c3", [], 0, 0, 5, 5⟩,
      ⟨"o2", "sd5", "j2", "c4", [], 0, 0, 9, 9⟩,
      ⟨"o3", "sd4", "j2", "c4", [], 1, 2, 3, 4⟩,
      ⟨"o4", "sd3", "j3", "c4", [], 1, 1, 2, 2⟩] }

/-- the input of the repaired finding C16-N1: `exTables2D` with its traffic-light camera calibrated
`q = (4,0,0,3)/5` and a second traffic-light camera calibrated `-q` (one and the same rotation) -/
def exTablesN1 : Tables :=
  { exTables2D with
    sensors := exTables2D.sensors ++ [⟨"senX", "CAM_TRAFFIC_LIGHT_FAR"⟩],
    calibratedSensors := exTables.calibratedSensors ++
      [⟨"csN", "senN", ⟨1, 0, 2⟩, ⟨4/5, 0, 0, 3/5⟩⟩, ⟨"csX", "senX", ⟨1, 0, 3⟩, ⟨-4/5, 0, 0, -3/5⟩⟩] }

def exS0 : Sample := ⟨"s0", 1600000000000000, 1600000000⟩
def exS1 : Sample := ⟨"s1", 1600000000500000, 3200000001 / 2⟩
def exSd1 : SampleData := ⟨"sd1", "s1", "e1", "csT", true⟩
def exEgo1 : EgoPose := ⟨"e1", ⟨105, -49, 1/2⟩, ⟨1/5, 2/5, 2/5, 4/5⟩⟩
def exCsT : CalibratedSensor := ⟨"csT", "senT", Vec3.zero, Quat.one⟩
def exA0 : Annotation :=
  ⟨"a0", "s1", "i0", "none", ["at0"], ⟨120, -40, 1⟩, ⟨5/2, 10, 3⟩, ⟨4/5, 0, 0, 3/5⟩, "a2", "", 0⟩
def exA2 : Annotation :=
  ⟨"a2", "s0", "i0", "3", [], ⟨118, -41, 1⟩, ⟨5/2, 10, 3⟩, ⟨4/5, 0, 0, 3/5⟩, "", "a0", 300⟩

/-- `∀ a ∈ l, ∃ b, f a = ok b` from a decidable check -/
theorem all_ok {α β} {f : α → Except Err β} {l : List α}
    (h : l.all (fun a => (f a).toBool) = true) : ∀ a ∈ l, ∃ b, f a = .ok b := by
  intro a ha
  have := List.all_eq_true.1 h a ha
  cases hf : f a with
  | ok b => exact ⟨b, rfl⟩
  | error e => simp [hf, Except.toBool] at this

/-- the `sensors` clause of well-formedness from a decidable check -/
theorem sensors_of_all {T : Tables}
    (h : T.calibratedSensors.all (fun cs =>
      match lookup Sensor.token T.sensors cs.sensorToken with
      | .error _ => false
      | .ok s => (Enums.frameFromValue s.channel).toBool) = true) :
    ∀ cs ∈ T.calibratedSensors, ∃ sen m, lookup Sensor.token T.sensors cs.sensorToken = .ok sen ∧
      Enums.frameFromValue sen.channel = .ok m := by
  intro cs hcs
  have := List.all_eq_true.1 h cs hcs
  cases hl : lookup Sensor.token T.sensors cs.sensorToken with
  | error e => simp [hl] at this
  | ok sen =>
    cases hf : Enums.frameFromValue sen.channel with
    | error e => simp [hl, hf, Except.toBool] at this
    | ok m => exact ⟨sen, m, rfl, hf⟩

/-- the `rotations` clause of well-formedness from a decidable check -/
theorem rotations_of_all {T : Tables}
    (h : T.calibratedSensors.all (fun cs => cs.rotation != Quat.zero) = true) :
    ∀ cs ∈ T.calibratedSensors, cs.rotation ≠ Quat.zero := by
  intro cs hcs
  simpa using List.all_eq_true.1 h cs hcs

theorem exTables_wellFormed : WellFormed exTables where
  samples_ne := by decide
  lidar := all_ok (by decide +kernel)
  ego := all_ok (by decide +kernel)
  calib := all_ok (by decide +kernel)
  ann_sample := all_ok (by decide +kernel)
  ann_instance := all_ok (by decide +kernel)
  inst_category := all_ok (by decide +kernel)
  ann_attributes := by
    intro a ha
    exact all_ok (f := fun t => lookup Named.token exTables.attributes t)
      (List.all_eq_true.1 (by decide +kernel :
        exTables.annotations.all (fun a => a.attributeTokens.all
          (fun t => (lookup Named.token exTables.attributes t).toBool)) = true) a ha)
  ann_visibility := fun _ => all_ok (by decide +kernel)
  ann_prev := by
    intro a ha hne
    have h : exTables.annotations.all (fun a =>
        a.prev == "" || (lookup Annotation.token exTables.annotations a.prev).toBool) = true := by
      decide +kernel
    have := List.all_eq_true.1 h a ha
    cases hl : lookup Annotation.token exTables.annotations a.prev with
    | ok b => exact ⟨b, rfl⟩
    | error e => simp [hl, Except.toBool, hne] at this
  ann_next := by
    intro a ha hne
    have h : exTables.annotations.all (fun a =>
        a.next == "" || (lookup Annotation.token exTables.annotations a.next).toBool) = true := by
      decide +kernel
    have := List.all_eq_true.1 h a ha
    cases hl : lookup Annotation.token exTables.annotations a.next with
    | ok b => exact ⟨b, rfl⟩
    | error e => simp [hl, Except.toBool, hne] at this
  sensors := sensors_of_all (by decide +kernel)
  rotations := rotations_of_all (by decide +kernel)

theorem exTables2D_wellFormed : WellFormed2D exTables2D where
  samples_ne := by decide
  ego := all_ok (by decide +kernel)
  sensors := sensors_of_all (by decide +kernel)
  rotations := rotations_of_all (by decide +kernel)
  oann_category := all_ok (by decide +kernel)
  oann_attributes := by
    intro o ho
    exact all_ok (f := fun t => lookup Named.token exTables2D.attributes t)
      (List.all_eq_true.1 (by decide +kernel :
        exTables2D.objectAnns.all (fun o => o.attributeTokens.all
          (fun t => (lookup Named.token exTables2D.attributes t).toBool)) = true) o ho)
  oann_instance := by
    intro o ho
    have h : exTables2D.objectAnns.all (fun o => exTables2D.instances.any (fun i => i.token == o.instanceToken)) = true := by
      decide +kernel
    have := List.all_eq_true.1 h o ho
    obtain ⟨i, hi, hit⟩ := List.any_eq_true.1 this
    exact ⟨i, hi, by simpa using hit⟩

theorem exTablesN1_wellFormed : WellFormed exTablesN1 where
  samples_ne := by decide
  lidar := all_ok (by decide +kernel)
  ego := all_ok (by decide +kernel)
  calib := all_ok (by decide +kernel)
  ann_sample := all_ok (by decide +kernel)
  ann_instance := all_ok (by decide +kernel)
  inst_category := all_ok (by decide +kernel)
  ann_attributes := by
    intro a ha
    exact all_ok (f := fun t => lookup Named.token exTablesN1.attributes t)
      (List.all_eq_true.1 (by decide +kernel :
        exTablesN1.annotations.all (fun a => a.attributeTokens.all
          (fun t => (lookup Named.token exTablesN1.attributes t).toBool)) = true) a ha)
  ann_visibility := fun _ => all_ok (by decide +kernel)
  ann_prev := by
    intro a ha hne
    have h : exTablesN1.annotations.all (fun a =>
        a.prev == "" || (lookup Annotation.token exTablesN1.annotations a.prev).toBool) = true := by
      decide +kernel
    have := List.all_eq_true.1 h a ha
    cases hl : lookup Annotation.token exTablesN1.annotations a.prev with
    | ok b => exact ⟨b, rfl⟩
    | error e => simp [hl, Except.toBool, hne] at this
  ann_next := by
    intro a ha hne
    have h : exTablesN1.annotations.all (fun a =>
        a.next == "" || (lookup Annotation.token exTablesN1.annotations a.next).toBool) = true := by
      decide +kernel
    have := List.all_eq_true.1 h a ha
    cases hl : lookup Annotation.token exTablesN1.annotations a.next with
    | ok b => exact ⟨b, rfl⟩
    | error e => simp [hl, Except.toBool, hne] at this
  sensors := sensors_of_all (by decide +kernel)
  rotations := rotations_of_all (by decide +kernel)

theorem exTablesN1_wellFormed2D : WellFormed2D exTablesN1 where
  samples_ne := by decide
  ego := all_ok (by decide +kernel)
  sensors := sensors_of_all (by decide +kernel)
  rotations := rotations_of_all (by decide +kernel)
  oann_category := all_ok (by decide +kernel)
  oann_attributes := by
    intro o ho
    exact all_ok (f := fun t => lookup Named.token exTablesN1.attributes t)
      (List.all_eq_true.1 (by decide +kernel :
        exTablesN1.objectAnns.all (fun o => o.attributeTokens.all
          (fun t => (lookup Named.token exTablesN1.attributes t).toBool)) = true) o ho)
  oann_instance := by
    intro o ho
    have h : exTablesN1.objectAnns.all (fun o => exTablesN1.instances.any (fun i => i.token == o.instanceToken)) = true := by
      decide +kernel
    have := List.all_eq_true.1 h o ho
    obtain ⟨i, hi, hit⟩ := List.any_eq_true.1 this
    exact ⟨i, hi, by simpa using hit⟩

end PEval.Dataset
