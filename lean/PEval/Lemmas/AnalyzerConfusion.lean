import PEval.Lemmas.AnalyzerRates
import PEval.Lemmas.AnalyzerSelect
/-!
# C19 lemmas (7): when the PRE-FIX `get_confusion_matrix` raised (N3), and totality of the repaired one

`labelIndices tl ls` fails exactly when some label of `ls` is not in `tl`, always with `ValueError`; the pre-fix
`getConfusionMatrixOld` therefore failed exactly when some PAIRED row (both sides present) carries a label — on its
ground-truth row or on its estimate row — outside `target_labels + ["unknown"]`, and `analyzeOld` failed with
`ValueError` exactly when the selected sub-table has such a row.  The repaired `getConfusionMatrix` indexes the matrix
by `confusionIndex` (`target_labels`, `"unknown"`, then the other labels met, in order of first occurrence), never
fails, and returns what the old function returned whenever that was defined.
-/

set_option linter.unusedSimpArgs false
set_option linter.unnecessarySimpa false

namespace PEval.Analyzer

theorem labelIndices_error_iff (tl : List String) : ∀ (ls : List String),
    (∃ e, labelIndices tl ls = .error e) ↔ ∃ l ∈ ls, l ∉ tl := by
  intro ls
  induction ls with
  | nil => simp [labelIndices]
  | cons l ls ih =>
    simp only [labelIndices]
    cases hi : tl.idxOf? l with
    | none =>
      have : l ∉ tl := by simpa using hi
      simp only [List.mem_cons]
      exact ⟨fun _ => ⟨l, Or.inl rfl, this⟩, fun _ => ⟨_, rfl⟩⟩
    | some i =>
      have hl : l ∈ tl := by
        by_contra hn
        have : tl.idxOf? l = none := by simpa using hn
        rw [this] at hi; cases hi
      cases hr : labelIndices tl ls with
      | error e =>
        have := (ih.mp (by rw [hr]; exact ⟨e, rfl⟩))
        obtain ⟨l', hl', hn⟩ := this
        simp only [List.mem_cons]
        exact ⟨fun _ => ⟨l', Or.inr hl', hn⟩, fun _ => ⟨e, rfl⟩⟩
      | ok is =>
        simp only [List.mem_cons]
        constructor
        · rintro ⟨e, he⟩; cases he
        · rintro ⟨l', hl' | hl', hn⟩
          · subst hl'; exact absurd hl hn
          · have := ih.mpr ⟨l', hl', hn⟩
            rw [hr] at this
            obtain ⟨e, he⟩ := this
            cases he

/-- the only error kind is `ValueError` (`list.index`) -/
theorem labelIndices_error_kind (tl : List String) : ∀ (ls : List String) (e : Err),
    labelIndices tl ls = .error e → e = "ValueError" := by
  intro ls
  induction ls with
  | nil => intro e h; simp [labelIndices] at h
  | cons l ls ih =>
    intro e h
    simp only [labelIndices] at h
    cases hi : tl.idxOf? l with
    | none => simp [hi] at h; exact h.symm
    | some i =>
      simp only [hi] at h
      cases hr : labelIndices tl ls with
      | error e' =>
        simp only [hr, Except.error.injEq] at h
        subst h
        exact ih e' hr
      | ok is => simp [hr] at h

/-- a paired row with a label outside `target_labels + ["unknown"]` -/
def OutsideLabel (labels : List String) (p : Cell × Cell) : Prop :=
  p.1.obj.label ∉ confusionLabels labels ∨ p.2.obj.label ∉ confusionLabels labels

instance (labels : List String) (p : Cell × Cell) : Decidable (OutsideLabel labels p) := by
  unfold OutsideLabel; infer_instance

theorem confusionWith_error_iff (tl : List String) (t : Table) :
    (∃ e, confusionWith tl t = .error e) ↔
      ∃ p ∈ getPairResults t, p.1.obj.label ∉ tl ∨ p.2.obj.label ∉ tl := by
  unfold confusionWith
  by_cases hemp : t.isEmpty = true
  · have : t = [] := by cases t <;> simp_all
    subst this
    simp [getPairResults]
  · simp only [hemp, Bool.false_eq_true, if_false]
    have hg := labelIndices_error_iff tl ((getPairResults t).map (·.1.obj.label))
    have he := labelIndices_error_iff tl ((getPairResults t).map (·.2.obj.label))
    cases h1 : labelIndices tl ((getPairResults t).map (·.1.obj.label)) with
    | error e1 =>
      obtain ⟨l, hl, hn⟩ := hg.mp (by rw [h1]; exact ⟨e1, rfl⟩)
      obtain ⟨p, hp, rfl⟩ := List.mem_map.mp hl
      exact ⟨fun _ => ⟨p, hp, Or.inl hn⟩, fun _ => ⟨e1, rfl⟩⟩
    | ok gi =>
      cases h2 : labelIndices tl ((getPairResults t).map (·.2.obj.label)) with
      | error e2 =>
        obtain ⟨l, hl, hn⟩ := he.mp (by rw [h2]; exact ⟨e2, rfl⟩)
        obtain ⟨p, hp, rfl⟩ := List.mem_map.mp hl
        exact ⟨fun _ => ⟨p, hp, Or.inr hn⟩, fun _ => ⟨e2, rfl⟩⟩
      | ok ei =>
        simp only
        constructor
        · rintro ⟨e, h⟩
          split at h <;> cases h
        · rintro ⟨p, hp, hout | hout⟩
          · have := hg.mpr ⟨_, List.mem_map_of_mem hp, hout⟩
            rw [h1] at this
            obtain ⟨e, h⟩ := this; cases h
          · have := he.mpr ⟨_, List.mem_map_of_mem hp, hout⟩
            rw [h2] at this
            obtain ⟨e, h⟩ := this; cases h

theorem confusionWith_error_kind (tl : List String) (t : Table) (e : Err)
    (h : confusionWith tl t = .error e) : e = "ValueError" := by
  unfold confusionWith at h
  split at h
  · cases h
  · simp only at h
    cases h1 : labelIndices tl ((getPairResults t).map (·.1.obj.label)) with
    | error e1 =>
      simp only [h1, Except.error.injEq] at h
      subst h
      exact labelIndices_error_kind _ _ _ h1
    | ok gi =>
      cases h2 : labelIndices tl ((getPairResults t).map (·.2.obj.label)) with
      | error e2 =>
        simp only [h1, h2, Except.error.injEq] at h
        subst h
        exact labelIndices_error_kind _ _ _ h2
      | ok ei =>
        simp only [h1, h2] at h
        split at h <;> cases h

/-- PRE-FIX (N3): the old function raised exactly for a paired row with an outside label -/
theorem confusion_error_iff' (labels : List String) (t : Table) :
    (∃ e, getConfusionMatrixOld labels t = .error e) ↔ ∃ p ∈ getPairResults t, OutsideLabel labels p :=
  confusionWith_error_iff _ t

theorem confusion_error_kind (labels : List String) (t : Table) (e : Err)
    (h : getConfusionMatrixOld labels t = .error e) : e = "ValueError" :=
  confusionWith_error_kind _ t e h

/-! ### the extended index of the repaired code -/

theorem extendLabels_prefix (ls : List String) : ∀ tl : List String, tl <+: extendLabels tl ls := by
  induction ls with
  | nil => intro tl; exact List.prefix_refl tl
  | cons l ls ih =>
    intro tl
    simp only [extendLabels, List.foldl_cons]
    split
    · exact ih tl
    · exact (List.prefix_append tl [l]).trans (ih (tl ++ [l]))

theorem mem_extendLabels (ls : List String) : ∀ (tl : List String) (x : String),
    x ∈ extendLabels tl ls ↔ x ∈ tl ∨ x ∈ ls := by
  induction ls with
  | nil => intro tl x; simp [extendLabels]
  | cons l ls ih =>
    intro tl x
    simp only [extendLabels, List.foldl_cons]
    split
    · rename_i hc
      have hl : l ∈ tl := by simpa using hc
      have := ih tl x
      simp only [extendLabels] at this
      rw [this]
      constructor
      · rintro (h | h)
        · exact Or.inl h
        · exact Or.inr (List.mem_cons_of_mem _ h)
      · rintro (h | h)
        · exact Or.inl h
        · rcases List.mem_cons.mp h with rfl | h
          · exact Or.inl hl
          · exact Or.inr h
    · have := ih (tl ++ [l]) x
      simp only [extendLabels] at this
      rw [this]
      simp only [List.mem_append, List.mem_singleton, List.mem_cons]
      tauto

theorem extendLabels_eq_self (ls : List String) : ∀ tl : List String, (∀ l ∈ ls, l ∈ tl) → extendLabels tl ls = tl := by
  induction ls with
  | nil => intro tl _; rfl
  | cons l ls ih =>
    intro tl h
    have hl : tl.contains l = true := by simpa using h l (by simp)
    simp only [extendLabels, List.foldl_cons, hl, if_true]
    exact ih tl (fun x hx => h x (by simp [hx]))

theorem unknown_mem_confusionLabels (labels : List String) : "unknown" ∈ confusionLabels labels := by
  unfold confusionLabels
  split
  · rename_i h; simpa using h
  · simp

theorem confusionLabels_of_mem (l : List String) (h : "unknown" ∈ l) : confusionLabels l = l := by
  unfold confusionLabels
  have : l.contains "unknown" = true := by simpa using h
  rw [if_pos this]

/-- the index starts with `target_labels + ["unknown"]` and holds exactly those and the labels of the paired rows -/
theorem confusionIndex_spec (labels : List String) (t : Table) :
    confusionLabels labels <+: confusionIndex labels t ∧
    ∀ x, x ∈ confusionIndex labels t ↔
      x ∈ confusionLabels labels ∨ ∃ p ∈ getPairResults t, x = p.1.obj.label ∨ x = p.2.obj.label := by
  refine ⟨extendLabels_prefix _ _, fun x => ?_⟩
  unfold confusionIndex
  simp only
  rw [mem_extendLabels]
  simp only [List.mem_append, List.mem_map]
  constructor
  · rintro (h | ⟨p, hp, rfl⟩ | ⟨p, hp, rfl⟩)
    · exact Or.inl h
    · exact Or.inr ⟨p, hp, Or.inl rfl⟩
    · exact Or.inr ⟨p, hp, Or.inr rfl⟩
  · rintro (h | ⟨p, hp, rfl | rfl⟩)
    · exact Or.inl h
    · exact Or.inr (Or.inl ⟨p, hp, rfl⟩)
    · exact Or.inr (Or.inr ⟨p, hp, rfl⟩)

/-- **the repaired function never raises** -/
theorem confusion_ok (labels : List String) (t : Table) : ∃ m, getConfusionMatrix labels t = .ok m := by
  cases hc : getConfusionMatrix labels t with
  | ok m => exact ⟨m, rfl⟩
  | error e =>
    obtain ⟨p, hp, ho⟩ := (confusionWith_error_iff _ t).mp ⟨e, hc⟩
    have h1 := ((confusionIndex_spec labels t).2 p.1.obj.label).mpr (Or.inr ⟨p, hp, Or.inl rfl⟩)
    have h2 := ((confusionIndex_spec labels t).2 p.2.obj.label).mpr (Or.inr ⟨p, hp, Or.inr rfl⟩)
    rcases ho with h | h
    · exact absurd h1 h
    · exact absurd h2 h

/-- whenever the pre-fix function returned, the index is the old one and the repaired function returns the same -/
theorem confusion_old_ok_eq (labels : List String) (t : Table) (r : Option (List (List Nat)))
    (h : getConfusionMatrixOld labels t = .ok r) :
    confusionIndex labels t = confusionLabels labels ∧ getConfusionMatrix labels t = .ok r := by
  have hin : ∀ p ∈ getPairResults t, ¬ OutsideLabel labels p := by
    intro p hp ho
    obtain ⟨e, he⟩ := (confusion_error_iff' labels t).mpr ⟨p, hp, ho⟩
    rw [h] at he; cases he
  have hidx : confusionIndex labels t = confusionLabels labels := by
    unfold confusionIndex
    apply extendLabels_eq_self
    intro l hl
    simp only [List.mem_append, List.mem_map] at hl
    rcases hl with ⟨p, hp, rfl⟩ | ⟨p, hp, rfl⟩
    · by_contra hn; exact hin p hp (Or.inl hn)
    · by_contra hn; exact hin p hp (Or.inr hn)
  refine ⟨hidx, ?_⟩
  unfold getConfusionMatrix
  rw [hidx]
  exact h

theorem getConfusionMatrixExt_eq (labels : List String) (t : Table) :
    getConfusionMatrixExt labels t = getConfusionMatrix labels t := by
  unfold getConfusionMatrixExt getConfusionMatrixOld getConfusionMatrix
  rw [confusionLabels_of_mem]
  exact ((confusionIndex_spec labels t).2 _).mpr (Or.inl (unknown_mem_confusionLabels labels))

/-! ### entries of a returned matrix -/

theorem labelIndices_ok_eq (tl : List String) : ∀ (ls : List String) (is : List Nat),
    labelIndices tl ls = .ok is → is = ls.map tl.idxOf := by
  intro ls
  induction ls with
  | nil => intro is h; simp [labelIndices] at h; subst h; rfl
  | cons l ls ih =>
    intro is h
    simp only [labelIndices] at h
    cases hi : tl.idxOf? l with
    | none => simp [hi] at h
    | some i =>
      simp only [hi] at h
      cases hr : labelIndices tl ls with
      | error e => simp [hr] at h
      | ok is' =>
        simp only [hr, Except.ok.injEq] at h
        subst h
        have hi' : tl.idxOf l = i := by
          unfold List.idxOf? at hi
          unfold List.idxOf
          exact (List.findIdx?_eq_some_iff_findIdx_eq.mp hi).2
        simp [ih is' hr, hi']

/-- entry `(i, j)` of a matrix (0 outside) -/
def entry (m : List (List Nat)) (i j : Nat) : Nat := (m.getD i []).getD j 0

theorem entry_bincount (n : Nat) (indices : List Nat) (i j : Nat) (hi : i < n) (hj : j < n) :
    entry (bincountMatrix n indices) i j = indices.count (n * i + j) := by
  simp [entry, bincountMatrix, List.getD, List.getElem?_map, List.getElem?_range, hi, hj]

theorem index_eq_iff (n g e i j : Nat) (he : e < n) (hj : j < n) : n * g + e = n * i + j ↔ g = i ∧ e = j := by
  constructor
  · intro h
    have h1 := (decomp_iff n (n * g + e) i j hj).mp h
    have h2 := (decomp_iff n (n * g + e) g e he).mp rfl
    exact ⟨h2.1.trans h1.1.symm, h2.2.trans h1.2.symm⟩
  · rintro ⟨rfl, rfl⟩; rfl

/-- **entries.** Entry `(i, j)` of a returned matrix is the number of paired rows whose ground-truth label is the `i`-th
and whose estimate label is the `j`-th label of the index. -/
theorem confusionWith_entry (tl : List String) (t : Table) (m : List (List Nat))
    (h : confusionWith tl t = .ok (some m)) (i j : Nat) (hi : i < tl.length) (hj : j < tl.length) :
    entry m i j = (getPairResults t).countP
      (fun p => decide (tl.idxOf p.1.obj.label = i) && decide (tl.idxOf p.2.obj.label = j)) := by
  unfold confusionWith at h
  split at h
  · simp at h
  · simp only at h
    cases h1 : labelIndices tl ((getPairResults t).map (·.1.obj.label)) with
    | error e1 => simp [h1] at h
    | ok gi =>
      cases h2 : labelIndices tl ((getPairResults t).map (·.2.obj.label)) with
      | error e2 => simp [h1, h2] at h
      | ok ei =>
        simp only [h1, h2] at h
        split at h
        · simp at h
        · simp only [Except.ok.injEq, Option.some.injEq] at h
          subst h
          have hg := labelIndices_ok_eq tl _ gi h1
          have he := labelIndices_ok_eq tl _ ei h2
          have hb := (labelIndices_ok tl _ ei h2).2
          subst hg
          rw [entry_bincount _ _ i j hi hj]
          have hz : ((List.map tl.idxOf ((getPairResults t).map (·.1.obj.label))).zip ei).map
              (fun (g, e) => tl.length * g + e) =
              (getPairResults t).map (fun p => tl.length * tl.idxOf p.1.obj.label + tl.idxOf p.2.obj.label) := by
            rw [he, List.map_map, List.map_map, List.zip_map', List.map_map]
            rfl
          rw [hz, List.count_eq_countP, List.countP_map]
          apply List.countP_congr
          intro p hp
          have hlt : tl.idxOf p.2.obj.label < tl.length := by
            apply hb
            rw [he]
            exact List.mem_map_of_mem (List.mem_map_of_mem hp)
          have := index_eq_iff tl.length (tl.idxOf p.1.obj.label) (tl.idxOf p.2.obj.label) i j hlt hj
          simp only [Function.comp_apply, beq_iff_eq, Bool.and_eq_true, decide_eq_true_eq]
          exact this

/-! ### `analyze`: pre-fix and repaired -/

/-- PRE-FIX (N3): `analyze` raised `ValueError` exactly when the selected sub-table has a paired row with an outside label -/
theorem analyze_valueError_iff (labels : List String) (full : Table) (s : Sel) (d : Option (Rat × Rat)) :
    analyzeOld labels full s d = .error "ValueError" ↔
      ∃ df, selectTable full s d = .ok df ∧ ∃ p ∈ getPairResults df, OutsideLabel labels p := by
  unfold analyzeOld
  cases hs : selectTable full s d with
  | error e =>
    have : e = "AssertionError" := by
      cases d with
      | none => simp [selectTable] at hs
      | some dd =>
        simp only [selectTable, filterByDistance] at hs
        split at hs <;> simp at hs
        exact hs.symm
    subst this
    simp
  | ok df =>
    simp only [Except.ok.injEq, exists_eq_left']
    by_cases hemp : df.isEmpty = true
    · have : df = [] := by cases df <;> simp_all
      subst this
      simp [getPairResults]
    · simp only [hemp, Bool.false_eq_true, if_false]
      rw [← confusion_error_iff']
      cases hc : getConfusionMatrixOld labels df with
      | error e =>
        have := confusion_error_kind labels df e hc
        subst this
        simp
      | ok cm => simp

/-- the repaired `analyze` fails only for an inverted distance range -/
theorem analyze_error_kind (labels : List String) (full : Table) (s : Sel) (d : Option (Rat × Rat)) (e : Err)
    (h : analyze labels full s d = .error e) :
    e = "AssertionError" ∧ ∃ dd, d = some dd ∧ ¬ dd.1 < dd.2 := by
  rw [analyze_eq_selectTable] at h
  cases hs : selectTable full s d with
  | error e' =>
    simp only [hs, Except.error.injEq] at h
    subst h
    cases d with
    | none => simp [selectTable] at hs
    | some dd =>
      simp only [selectTable, filterByDistance] at hs
      split at hs
      · cases hs
      · rename_i hn
        simp only [Except.error.injEq] at hs
        exact ⟨hs.symm, dd, rfl, hn⟩
  | ok df =>
    simp only [hs] at h
    split at h
    · cases h
    · obtain ⟨m, hm⟩ := confusion_ok labels df
      simp [hm] at h

/-- whatever the pre-fix `analyze` returned, the repaired one returns -/
theorem analyze_of_analyzeOld (labels : List String) (full : Table) (s : Sel) (d : Option (Rat × Rat))
    (r : Option Analysis) (h : analyzeOld labels full s d = .ok r) : analyze labels full s d = .ok r := by
  rw [analyze_eq_selectTable]
  unfold analyzeOld at h
  cases hs : selectTable full s d with
  | error e => simp [hs] at h
  | ok df =>
    simp only [hs] at h ⊢
    split
    · rename_i he; simpa [he] using h
    · rename_i he
      simp only [he, Bool.false_eq_true, if_false] at h
      cases hc : getConfusionMatrixOld labels df with
      | error e => simp [hc] at h
      | ok cm =>
        rw [(confusion_old_ok_eq labels df cm hc).2]
        simpa [hc] using h

end PEval.Analyzer
