import PEval.Lemmas.Geometry
/-!
Helper lemmas for C06, planar part: rotations and rigid motions preserve squared distances and cross
products; the footprint of a moved box is the moved footprint; the stable argsort returns a sorted
permutation; unfolding of the plane distance.
-/
namespace PEval.Geometry

/-! ## rotations and rigid motions -/

theorem norm2_rot {r : Rot2} (h : r.IsUnit) (p : V2) : (r.apply p).norm2 = p.norm2 := by
  unfold Rot2.IsUnit at h
  simp only [Rot2.apply, V2.norm2]
  linear_combination (p.x * p.x + p.y * p.y) * h

theorem dist2_rot {r : Rot2} (h : r.IsUnit) (p q : V2) : dist2 (r.apply p) (r.apply q) = dist2 p q := by
  unfold Rot2.IsUnit at h
  simp only [Rot2.apply, dist2]
  linear_combination ((p.x - q.x) * (p.x - q.x) + (p.y - q.y) * (p.y - q.y)) * h

theorem cross0_rot {r : Rot2} (h : r.IsUnit) (p q : V2) : cross0 (r.apply p) (r.apply q) = cross0 p q := by
  unfold Rot2.IsUnit at h
  simp only [Rot2.apply, cross0]
  linear_combination (p.x * q.y - p.y * q.x) * h

theorem dist2_motion {m : Motion} (h : m.rot.IsUnit) (p q : V2) :
    dist2 (m.apply2 p) (m.apply2 q) = dist2 p q := by
  unfold Rot2.IsUnit at h
  simp only [Motion.apply2, Rot2.apply, V2.add, dist2]
  linear_combination ((p.x - q.x) * (p.x - q.x) + (p.y - q.y) * (p.y - q.y)) * h

theorem cross_motion {m : Motion} (h : m.rot.IsUnit) (a b p : V2) :
    cross (m.apply2 a) (m.apply2 b) (m.apply2 p) = cross a b p := by
  unfold Rot2.IsUnit at h
  simp only [Motion.apply2, Rot2.apply, V2.add, cross]
  linear_combination ((b.x - a.x) * (p.y - a.y) - (b.y - a.y) * (p.x - a.x)) * h

theorem rotation_apply2 (r : Rot2) (p : V2) : (Motion.rotation r).apply2 p = r.apply p := by
  simp [Motion.rotation, Motion.apply2, V2.add]

theorem dist2_nonneg (p q : V2) : 0 ≤ dist2 p q := by
  unfold dist2; nlinarith [mul_self_nonneg (p.x - q.x), mul_self_nonneg (p.y - q.y)]

theorem dist2_self (p : V2) : dist2 p p = 0 := by unfold dist2; ring

theorem dist2_comm (p q : V2) : dist2 p q = dist2 q p := by unfold dist2; ring

/-- the footprint of the moved box is the moved footprint, corner by corner (no unit hypothesis needed) -/
theorem footprint_move_eq (m : Motion) (b : Box) : footprint (b.move m) = (footprint b).map m.apply2 := by
  simp only [footprint, localCorners, Box.move, Motion.apply2, Motion.apply3, Rot2.apply, Rot2.mul, V2.add,
    Box.center2, List.map_cons, List.map_nil, List.cons.injEq, V2.mk.injEq, and_true]
  refine ⟨⟨?_, ?_⟩, ⟨?_, ?_⟩, ⟨?_, ?_⟩, ⟨?_, ?_⟩⟩ <;> ring

theorem footprint_length (b : Box) : (footprint b).length = 4 := by simp [footprint, localCorners]

/-! ## the stable argsort is a sorted permutation -/

theorem insertBy_perm (key : Nat → Rat) (i : Nat) (l : List Nat) : (insertBy key i l).Perm (i :: l) := by
  induction l with
  | nil => simp [insertBy]
  | cons j js ih =>
    unfold insertBy
    split
    · exact List.Perm.refl _
    · exact (List.Perm.cons j ih).trans (List.Perm.swap i j js)

theorem insertBy_sorted (key : Nat → Rat) (i : Nat) (l : List Nat)
    (hl : l.Pairwise (fun a b => key a ≤ key b)) :
    (insertBy key i l).Pairwise (fun a b => key a ≤ key b) := by
  induction l with
  | nil => simp [insertBy]
  | cons j js ih =>
    rw [List.pairwise_cons] at hl
    unfold insertBy
    split
    · rename_i hlt
      rw [List.pairwise_cons]
      refine ⟨?_, List.pairwise_cons.2 hl⟩
      intro b hb
      rcases List.mem_cons.1 hb with rfl | hb
      · exact le_of_lt hlt
      · exact le_trans (le_of_lt hlt) (hl.1 b hb)
    · rename_i hge
      rw [List.pairwise_cons]
      refine ⟨?_, ih hl.2⟩
      intro b hb
      rcases List.mem_cons.1 ((insertBy_perm key i js).mem_iff.1 hb) with rfl | hb
      · exact not_lt.1 hge
      · exact hl.1 b hb

theorem foldl_insertBy (key : Nat → Rat) (is acc : List Nat)
    (hacc : acc.Pairwise (fun a b => key a ≤ key b)) :
    (is.foldl (fun acc i => insertBy key i acc) acc).Perm (is ++ acc) ∧
    (is.foldl (fun acc i => insertBy key i acc) acc).Pairwise (fun a b => key a ≤ key b) := by
  induction is generalizing acc with
  | nil => exact ⟨List.Perm.refl _, hacc⟩
  | cons i is ih =>
    simp only [List.foldl_cons]
    obtain ⟨hp, hs⟩ := ih (insertBy key i acc) (insertBy_sorted key i acc hacc)
    refine ⟨hp.trans ?_, hs⟩
    have h1 : (is ++ insertBy key i acc).Perm (is ++ i :: acc) := List.Perm.append_left is (insertBy_perm key i acc)
    exact h1.trans (List.perm_middle)

theorem argsort_perm (keys : List Rat) : (argsort keys).Perm (List.range keys.length) := by
  have := (foldl_insertBy (fun k => keys.getD k 0) (List.range keys.length) [] List.Pairwise.nil).1
  simpa [argsort] using this

theorem argsort_sorted (keys : List Rat) :
    (argsort keys).Pairwise (fun a b => keys.getD a 0 ≤ keys.getD b 0) :=
  (foldl_insertBy (fun k => keys.getD k 0) (List.range keys.length) [] List.Pairwise.nil).2

/-- with at least two keys: the first two indices of the argsort are distinct, in range, and every other
index has a key at least as large as both -/
theorem argsort_first_two (keys : List Rat) (hn : 2 ≤ keys.length) :
    let i := (argsort keys).getD 0 0
    let j := (argsort keys).getD 1 0
    i < keys.length ∧ j < keys.length ∧ i ≠ j ∧ keys.getD i 0 ≤ keys.getD j 0 ∧
    ∀ k, k < keys.length → k ≠ i → k ≠ j → keys.getD j 0 ≤ keys.getD k 0 := by
  have hp := argsort_perm keys
  have hs := argsort_sorted keys
  have hlen : (argsort keys).length = keys.length := by simpa using hp.length_eq
  have hnd : (argsort keys).Nodup := hp.nodup_iff.2 List.nodup_range
  match h : argsort keys, hlen with
  | [], hl => simp at hl; omega
  | [_], hl => simp at hl; omega
  | i :: j :: rest, _ =>
    rw [h] at hs hnd
    have hmem : ∀ k, k ∈ i :: j :: rest ↔ k < keys.length := by
      intro k; rw [← h, hp.mem_iff, List.mem_range]
    simp only [List.getD_cons_zero, List.getD_cons_succ]
    rw [List.pairwise_cons, List.pairwise_cons] at hs
    rw [List.nodup_cons, List.nodup_cons] at hnd
    refine ⟨(hmem i).1 (by simp), (hmem j).1 (by simp), ?_, hs.1 j (by simp), ?_⟩
    · intro e; exact hnd.1 (by simp [e])
    · intro k hk hki hkj
      have : k ∈ i :: j :: rest := (hmem k).2 hk
      rcases List.mem_cons.1 this with e | this
      · exact absurd e hki
      · rcases List.mem_cons.1 this with e | this
        · exact absurd e hkj
        · exact hs.2.1 k this

/-! ## plane distance -/

theorem getD_map {α β : Type} (f : α → β) (l : List α) (i : Nat) (d : α) :
    (l.map f).getD i (f d) = f (l.getD i d) := by
  simp only [List.getD_eq_getElem?_getD, List.getElem?_map]
  cases l[i]? <;> simp

theorem getD_map_zero {f : V2 → V2} (hf : f V2.zero = V2.zero) (l : List V2) (i : Nat) :
    (l.map f).getD i V2.zero = f (l.getD i V2.zero) := by
  simp only [List.getD_eq_getElem?_getD, List.getElem?_map]
  cases l[i]? <;> simp [hf]

/-- the value does not depend on which of the two corners is called left -/
theorem planeDist2Of_eq (est gt : List V2) :
    planeDist2Of est gt =
      (dist2 (est.getD (nearestTwo gt).1 V2.zero) (gt.getD (nearestTwo gt).1 V2.zero)
        + dist2 (est.getD (nearestTwo gt).2 V2.zero) (gt.getD (nearestTwo gt).2 V2.zero)) / 2 := by
  unfold planeDist2Of leftRightIndex
  simp only []
  split
  · simp
  · simp [add_comm]

theorem rot_zero (r : Rot2) : r.apply V2.zero = V2.zero := by simp [Rot2.apply, V2.zero]

theorem nearestTwo_map_rot {r : Rot2} (h : r.IsUnit) (gt : List V2) :
    nearestTwo (gt.map r.apply) = nearestTwo gt := by
  unfold nearestTwo
  have : (gt.map r.apply).map V2.norm2 = gt.map V2.norm2 := by
    rw [List.map_map]; apply List.map_congr_left; intro p _; exact norm2_rot h p
  rw [this]

theorem planeDist2Of_map_rot {r : Rot2} (h : r.IsUnit) (est gt : List V2) :
    planeDist2Of (est.map r.apply) (gt.map r.apply) = planeDist2Of est gt := by
  rw [planeDist2Of_eq, planeDist2Of_eq, nearestTwo_map_rot h]
  simp only [getD_map_zero (rot_zero r), dist2_rot h]

end PEval.Geometry
