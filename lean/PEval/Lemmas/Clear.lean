import PEval.Lemmas.ClearSpec
/-!
Helper lemmas for C05, part 1 (core Lean only): accumulator algebra, the fold of `CLEAR.__init__` as a sum
over the events of the history, the scan of the previous frame, per-result classification.
-/

namespace PEval.Clear

/-! ### accumulator algebra -/

theorem Acc.ext' {a b : Acc} (h1 : a.tp = b.tp) (h2 : a.fp = b.fp) (h3 : a.sw = b.sw) (h4 : a.score = b.score) :
    a = b := by
  cases a; cases b; simp_all

@[simp] theorem Acc.add_tp (a b : Acc) : (a.add b).tp = a.tp + b.tp := rfl
@[simp] theorem Acc.add_fp (a b : Acc) : (a.add b).fp = a.fp + b.fp := rfl
@[simp] theorem Acc.add_sw (a b : Acc) : (a.add b).sw = a.sw + b.sw := rfl
@[simp] theorem Acc.add_score (a b : Acc) : (a.add b).score = a.score + b.score := rfl
@[simp] theorem Acc.zero_tp : Acc.zero.tp = 0 := rfl
@[simp] theorem Acc.zero_fp : Acc.zero.fp = 0 := rfl
@[simp] theorem Acc.zero_sw : Acc.zero.sw = 0 := rfl
@[simp] theorem Acc.zero_score : Acc.zero.score = 0 := rfl

theorem Acc.add_assoc (a b c : Acc) : (a.add b).add c = a.add (b.add c) := by
  apply Acc.ext' <;> simp [Rat.add_assoc, Nat.add_assoc]

@[simp] theorem Acc.add_zero (a : Acc) : a.add Acc.zero = a := by
  apply Acc.ext' <;> simp [Rat.add_zero]

@[simp] theorem Acc.zero_add (a : Acc) : Acc.zero.add a = a := by
  apply Acc.ext' <;> simp [Rat.zero_add]

/-- sum of a list of accumulators -/
def accSum : List Acc → Acc
  | [] => Acc.zero
  | a :: l => a.add (accSum l)

@[simp] theorem accSum_nil : accSum [] = Acc.zero := rfl
@[simp] theorem accSum_cons (a : Acc) (l : List Acc) : accSum (a :: l) = a.add (accSum l) := rfl

theorem accSum_append (l₁ l₂ : List Acc) : accSum (l₁ ++ l₂) = (accSum l₁).add (accSum l₂) := by
  induction l₁ with
  | nil => simp
  | cons a l ih => simp [ih, Acc.add_assoc]

theorem foldl_add_eq {α : Type} (f : α → Acc) (l : List α) (a : Acc) :
    l.foldl (fun a c => a.add (f c)) a = a.add (accSum (l.map f)) := by
  induction l generalizing a with
  | nil => simp
  | cons x l ih => simp [ih, Acc.add_assoc]

theorem frameStep_eq (cfg : Cfg) (prev cur : List Res) :
    frameStep cfg prev cur = accSum (cur.map (resStep cfg prev)) := by
  unfold frameStep
  rw [foldl_add_eq]; simp

/-- the per-frame increments of `CLEAR.__init__` -/
def steps (cfg : Cfg) : List Res → List (List Res) → List Acc
  | _, [] => []
  | prev, cur :: rest => frameStep cfg prev cur :: steps cfg cur rest

theorem clearLoop_eq (cfg : Cfg) (prev : List Res) (frames : List (List Res)) (a : Acc) :
    clearLoop cfg prev frames a = a.add (accSum (steps cfg prev frames)) := by
  induction frames generalizing prev a with
  | nil => simp [clearLoop, steps]
  | cons cur rest ih => simp [clearLoop, steps, ih, Acc.add_assoc]

theorem clear_cons (cfg : Cfg) (f0 : List Res) (rest : List (List Res)) :
    clear cfg (f0 :: rest) = accSum (steps cfg f0 rest) := by
  simp [clear, clearLoop_eq]

/-- `clear` is the sum of the increments of the events of the history -/
theorem clear_eq_events (cfg : Cfg) (hist : List (List Res)) :
    clear cfg hist = accSum ((events hist).map (fun e => resStep cfg e.1 e.2)) := by
  match hist with
  | [] => simp [clear, events]
  | f0 :: rest =>
    rw [clear_cons]
    induction rest generalizing f0 with
    | nil => simp [steps, events]
    | cons cur rest ih =>
      simp only [steps, events, accSum_cons, List.map_append, accSum_append, List.map_map]
      rw [ih cur, frameStep_eq]
      rfl

/-! ### projections of sums -/

theorem accSum_tp (l : List Acc) : (accSum l).tp = (l.map (·.tp)).sum := by
  induction l with
  | nil => simp
  | cons a l ih => simp [ih]

theorem accSum_fp (l : List Acc) : (accSum l).fp = (l.map (·.fp)).sum := by
  induction l with
  | nil => simp
  | cons a l ih => simp [ih]

theorem accSum_sw (l : List Acc) : (accSum l).sw = (l.map (·.sw)).sum := by
  induction l with
  | nil => simp
  | cons a l ih => simp [ih]

theorem accSum_score (l : List Acc) : (accSum l).score = (l.map (·.score)).sum := by
  induction l with
  | nil => simp
  | cons a l ih => simp [ih]

/-! ### the scan of the previous frame -/

theorem scan_same (cfg : Cfg) (t : Rat) (c : Res) (prev : List Res) (p : Res)
    (h : scan cfg t c prev = .same p) :
    p ∈ prev ∧ isTp cfg t p = true ∧ isSameMatch c p = true := by
  induction prev with
  | nil => simp [scan] at h
  | cons q qs ih =>
    unfold scan at h
    split at h
    · have := ih h; simp [this]
    · split at h
      · cases h
      · split at h
        · cases h
          simp_all
        · have := ih h; simp [this]

theorem scan_nothing_iff (cfg : Cfg) (t : Rat) (c : Res) (prev : List Res) :
    scan cfg t c prev = .nothing ↔
      ∀ p ∈ prev, isTp cfg t p = true → isIdSwitched c p = false ∧ isSameMatch c p = false := by
  induction prev with
  | nil => simp [scan]
  | cons q qs ih =>
    unfold scan
    by_cases h1 : isTp cfg t q = true
    · by_cases h2 : isIdSwitched c q = true
      · simp [h1, h2]
      · by_cases h3 : isSameMatch c q = true
        · simp [h1, h2, h3]
        · simp [h1, h2, h3, ih]
    · simp [h1, ih]

/-- the scan is left through the id-switch `break` iff the first previous TP that is decisive (switch or
same pairing) is a switch -/
theorem scan_switched_iff (cfg : Cfg) (t : Rat) (c : Res) (prev : List Res) :
    scan cfg t c prev = .switched ↔
      ∃ pre p post, prev = pre ++ p :: post ∧ isTp cfg t p = true ∧ isIdSwitched c p = true ∧
        ∀ q ∈ pre, isTp cfg t q = true → isIdSwitched c q = false ∧ isSameMatch c q = false := by
  induction prev with
  | nil => simp [scan]
  | cons q qs ih =>
    unfold scan
    by_cases h1 : isTp cfg t q = true
    · by_cases h2 : isIdSwitched c q = true
      · simp only [h1, h2, Bool.not_true, Bool.false_eq_true, ↓reduceIte, true_iff]
        exact ⟨[], q, qs, rfl, h1, h2, by simp⟩
      · by_cases h3 : isSameMatch c q = true
        · simp only [h1, h2, h3, Bool.not_true, Bool.false_eq_true, ↓reduceIte]
          constructor
          · intro h; cases h
          · intro ⟨pre, p, post, he, hp, hs, hall⟩
            cases pre with
            | nil => simp at he; rw [he.1] at h2; exact absurd hs h2
            | cons x xs =>
              simp at he
              have := hall x (by simp) (by rw [← he.1]; exact h1)
              rw [← he.1] at this
              simp [h3] at this
        · simp only [h1, h2, h3, Bool.not_true, Bool.false_eq_true, ↓reduceIte, ih]
          constructor
          · intro ⟨pre, p, post, he, hp, hs, hall⟩
            refine ⟨q :: pre, p, post, by simp [he], hp, hs, ?_⟩
            intro x hx
            rcases List.mem_cons.mp hx with rfl | hx
            · intro _; simp_all
            · exact hall x hx
          · intro ⟨pre, p, post, he, hp, hs, hall⟩
            cases pre with
            | nil => simp at he; rw [he.1] at h2; exact absurd hs h2
            | cons x xs =>
              simp at he
              exact ⟨xs, p, post, he.2, hp, hs, fun y hy => hall y (by simp [hy])⟩
    · have h1' : isTp cfg t q = false := by simpa using h1
      simp only [h1', Bool.not_false, ↓reduceIte, ih]
      constructor
      · intro ⟨pre, p, post, he, hp, hs, hall⟩
        refine ⟨q :: pre, p, post, by simp [he], hp, hs, ?_⟩
        intro x hx
        rcases List.mem_cons.mp hx with rfl | hx
        · intro h; exact absurd h h1
        · exact hall x hx
      · intro ⟨pre, p, post, he, hp, hs, hall⟩
        cases pre with
        | nil => simp at he; rw [he.1] at h1; exact absurd hp h1
        | cons x xs =>
          simp at he
          exact ⟨xs, p, post, he.2, hp, hs, fun y hy => hall y (by simp [hy])⟩

/-! ### the three tests, in the specification's vocabulary -/

theorem isIdSwitched_eq_conflict (c p : Res) : isIdSwitched c p = conflict c p := by
  unfold isIdSwitched conflict bothGt sameEst sameGt
  cases c.gt with
  | none => cases p.gt <;> rfl
  | some gc =>
    cases p.gt with
    | none => rfl
    | some gp =>
      dsimp only [Option.isSome]
      generalize (c.est == p.est && c.estLabel == p.estLabel) = a
      generalize (gc.id == gp.id) = b
      cases a <;> cases b <;> rfl

theorem isSameMatch_eq_samePair (c p : Res) : isSameMatch c p = samePair c p := by
  unfold isSameMatch samePair bothGt sameEst sameGt
  cases hc : c.gt <;> cases hp : p.gt <;> simp

theorem not_conflict_and_samePair (c p : Res) : ¬ (conflict c p = true ∧ samePair c p = true) := by
  unfold conflict samePair
  cases bothGt c p <;> cases sameEst c p <;> cases sameGt c p <;> simp

/-! ### increments by outcome -/

/-- the increment booked for an outcome -/
def Outcome.acc (c : Res) : Outcome → Acc
  | .skipped => Acc.zero
  | .carried p => ⟨p.w, 0, 0, p.value⟩
  | .tp sw => ⟨c.w, 0, if sw then 1 else 0, c.value⟩
  | .fp => ⟨0, 1, 0, 0⟩

theorem resStep_eq_outcome (cfg : Cfg) (prev : List Res) (c : Res) :
    resStep cfg prev c = (outcome cfg prev c).acc c := by
  unfold resStep outcome
  cases labelThreshold cfg (keyLabel c) with
  | none => rfl
  | some t =>
    simp only
    cases scan cfg t c prev with
    | nothing => simp only; split <;> rfl
    | switched => simp only; split <;> rfl
    | same p => rfl

theorem outcome_carried_mem (cfg : Cfg) (prev : List Res) (c p : Res)
    (h : outcome cfg prev c = .carried p) : p ∈ prev := by
  unfold outcome at h
  cases ht : labelThreshold cfg (keyLabel c) with
  | none => simp [ht] at h
  | some t =>
    simp only [ht] at h
    cases hs : scan cfg t c prev with
    | nothing => simp only [hs] at h; split at h <;> cases h
    | switched => simp only [hs] at h; split at h <;> cases h
    | same q =>
      simp only [hs] at h
      cases h
      exact (scan_same cfg t c prev _ hs).1

theorem outcome_skipped_iff (cfg : Cfg) (prev : List Res) (c : Res) :
    outcome cfg prev c = .skipped ↔ evaluated cfg c = false := by
  unfold outcome evaluated
  cases labelThreshold cfg (keyLabel c) with
  | none => simp
  | some t =>
    simp only [Option.isSome_some, Bool.true_eq_false, iff_false]
    cases scan cfg t c prev with
    | nothing => simp only; split <;> exact Outcome.noConfusion
    | switched => simp only; split <;> exact Outcome.noConfusion
    | same p => exact Outcome.noConfusion

end PEval.Clear
