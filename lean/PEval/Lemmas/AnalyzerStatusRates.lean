import PEval.Lemmas.AnalyzerStatus
import Mathlib.Algebra.Order.Field.Basic
import Mathlib.Algebra.Order.Ring.Rat
import Mathlib.Tactic.Linarith
import Mathlib.Tactic.FieldSimp
import Mathlib.Tactic.Ring
/-!
# C19 lemmas (9): `GroundTruthStatus.get_status_rates`, `StatusRate.rate`, `get_scene_rates`

Every record `get_object_status` returns is *balanced*: `total` has one entry per entry of `tp`, `fp`, `tn`, `fn`
(`add_status` appends to `total` and to exactly one of the four), and is non-empty.  Hence every defined rate lies in
(0, 1], a rate is `inf` exactly for a status that never occurred, the defined rates of one record sum to 1, and the
four scene rates lie in [0, 1] and sum to 1.  With well-formed pass/fail lists the scene tallies are, exactly,
`total = D + X`, `tp = TP`, `fp = FPL + X`, `tn = TN`, `fn = FN` with `D = TP + FPL + TN + FN` the number of
(critical ground truth, frame) incidences and `X` the number of FP results carrying an ordinary ground truth (F11).
-/

set_option linter.unusedSimpArgs false
set_option linter.unnecessarySimpa false
set_option linter.unnecessarySeqFocus false

namespace PEval.Analyzer

/-! ### balanced records -/

def GtStatus.Balanced (s : GtStatus) : Prop :=
  s.total.length = s.tp.length + s.fp.length + s.tn.length + s.fn.length ∧ 0 < s.total.length

theorem addStatus_balanced (s : GtStatus) (st : Status) (n : Nat)
    (h : s.total.length = s.tp.length + s.fp.length + s.tn.length + s.fn.length) :
    (s.addStatus st n).Balanced := by
  cases st <;> simp [GtStatus.addStatus, GtStatus.Balanced] <;> omega

theorem addTo_balanced (u : String) (st : Status) (n : Nat) :
    ∀ l : List GtStatus, (∀ s ∈ l, s.Balanced) → ∀ s ∈ addTo u st n l, s.Balanced := by
  intro l
  induction l with
  | nil =>
    intro _ s hs
    simp only [addTo, List.mem_singleton] at hs
    subst hs
    exact addStatus_balanced _ st n rfl
  | cons a l ih =>
    intro h s hs
    simp only [addTo] at hs
    split at hs
    · rcases List.mem_cons.mp hs with rfl | hs
      · exact addStatus_balanced _ st n (h a (by simp)).1
      · exact h s (by simp [hs])
    · rcases List.mem_cons.mp hs with rfl | hs
      · exact h _ (by simp)
      · exact ih (fun s hs => h s (by simp [hs])) s hs

theorem foldl_addTo_balanced (evs : List Ev) :
    ∀ l : List GtStatus, (∀ s ∈ l, s.Balanced) →
      ∀ s ∈ evs.foldl (fun infos ev => addTo ev.1 ev.2.1 ev.2.2 infos) l, s.Balanced := by
  induction evs with
  | nil => intro l h; simpa using h
  | cons e evs ih =>
    intro l h
    simp only [List.foldl_cons]
    exact ih _ (addTo_balanced e.1 e.2.1 e.2.2 l h)

/-- every record of `get_object_status` is balanced and non-empty -/
theorem getObjectStatus_balanced (frames : List Frame) : ∀ s ∈ getObjectStatus frames, s.Balanced :=
  foldl_addTo_balanced _ [] (by simp)

/-! ### `StatusRate.rate` -/

theorem statusRate_none_iff (k n : Nat) : statusRate k n = none ↔ k = 0 ∨ n = 0 := by
  unfold statusRate
  by_cases hk : k = 0 <;> by_cases hn : n = 0 <;> simp [hk, hn]

theorem statusRate_some (k n : Nat) (r : Rat) (h : statusRate k n = some r) :
    k ≠ 0 ∧ n ≠ 0 ∧ r = (k : Rat) / (n : Rat) := by
  unfold statusRate at h
  split at h
  · rename_i hc
    simp only [Option.some.injEq] at h
    exact ⟨hc.1, hc.2, h.symm⟩
  · cases h

theorem statusRate_unit (k n : Nat) (r : Rat) (hle : k ≤ n) (h : statusRate k n = some r) : 0 < r ∧ r ≤ 1 := by
  obtain ⟨hk, hn, rfl⟩ := statusRate_some k n r h
  have hk' : (0 : Rat) < (k : Rat) := by exact_mod_cast Nat.pos_of_ne_zero hk
  have hn' : (0 : Rat) < (n : Rat) := by exact_mod_cast Nat.pos_of_ne_zero hn
  refine ⟨div_pos hk' hn', ?_⟩
  rw [div_le_one hn']
  exact_mod_cast hle

/-- `inf` read as 0 -/
def rateOr0 (r : Option Rat) : Rat := r.getD 0

theorem rateOr0_statusRate (k n : Nat) (hn : n ≠ 0) : rateOr0 (statusRate k n) = (k : Rat) / (n : Rat) := by
  unfold statusRate rateOr0
  by_cases hk : k = 0
  · simp [hk]
  · simp [hk, hn]

theorem statusRates_sum (s : GtStatus) (h : s.Balanced) :
    rateOr0 (statusRate s.tp.length s.total.length) + rateOr0 (statusRate s.fp.length s.total.length) +
    rateOr0 (statusRate s.tn.length s.total.length) + rateOr0 (statusRate s.fn.length s.total.length) = 1 := by
  obtain ⟨hb, hp⟩ := h
  have hn : s.total.length ≠ 0 := by omega
  rw [rateOr0_statusRate _ _ hn, rateOr0_statusRate _ _ hn, rateOr0_statusRate _ _ hn, rateOr0_statusRate _ _ hn]
  have hn' : (s.total.length : Rat) ≠ 0 := by exact_mod_cast hn
  have hb' : (s.total.length : Rat) = s.tp.length + s.fp.length + s.tn.length + s.fn.length := by exact_mod_cast hb
  field_simp
  linarith

/-! ### `get_scene_rates` -/

def scStep (c : SceneCounts) (s : GtStatus) : SceneCounts :=
  ⟨c.total + s.total.length, c.tp + s.tp.length, c.fp + s.fp.length, c.tn + s.tn.length, c.fn + s.fn.length⟩

theorem sceneCounts_foldl (l : List GtStatus) : ∀ c : SceneCounts,
    l.foldl scStep c =
      ⟨c.total + sumN (l.map fun s => s.total.length), c.tp + sumN (l.map fun s => s.tp.length),
       c.fp + sumN (l.map fun s => s.fp.length), c.tn + sumN (l.map fun s => s.tn.length),
       c.fn + sumN (l.map fun s => s.fn.length)⟩ := by
  induction l with
  | nil => intro c; simp [sumN]
  | cons s l ih =>
    intro c
    simp only [List.foldl_cons, ih, List.map_cons, sumN_cons, scStep]
    congr 1 <;> omega

theorem sceneCounts_eq (l : List GtStatus) :
    sceneCounts l =
      ⟨sumN (l.map fun s => s.total.length), sumN (l.map fun s => s.tp.length),
       sumN (l.map fun s => s.fp.length), sumN (l.map fun s => s.tn.length),
       sumN (l.map fun s => s.fn.length)⟩ := by
  have : sceneCounts l = l.foldl scStep {} := rfl
  rw [this, sceneCounts_foldl]
  simp

theorem sum_balanced (l : List GtStatus) (h : ∀ s ∈ l, s.Balanced) :
    sumN (l.map fun s => s.total.length) =
      sumN (l.map fun s => s.tp.length) + sumN (l.map fun s => s.fp.length) +
      sumN (l.map fun s => s.tn.length) + sumN (l.map fun s => s.fn.length) := by
  induction l with
  | nil => simp [sumN]
  | cons s l ih =>
    have := (h s (by simp)).1
    have ih' := ih (fun s hs => h s (by simp [hs]))
    simp only [List.map_cons, sumN_cons]
    omega

theorem sceneCounts_balanced (l : List GtStatus) (h : ∀ s ∈ l, s.Balanced) :
    (sceneCounts l).total = (sceneCounts l).tp + (sceneCounts l).fp + (sceneCounts l).tn + (sceneCounts l).fn := by
  rw [sceneCounts_eq]
  exact sum_balanced l h

theorem sceneRates_none_iff (l : List GtStatus) : sceneRates l = none ↔ (sceneCounts l).total = 0 := by
  unfold sceneRates
  by_cases h : (sceneCounts l).total = 0 <;> simp [h]

theorem sceneRates_some (l : List GtStatus) (a b c d : Rat) (h : sceneRates l = some (a, b, c, d)) :
    (sceneCounts l).total ≠ 0 ∧
    a = ((sceneCounts l).tp : Rat) / (sceneCounts l).total ∧ b = ((sceneCounts l).fp : Rat) / (sceneCounts l).total ∧
    c = ((sceneCounts l).tn : Rat) / (sceneCounts l).total ∧ d = ((sceneCounts l).fn : Rat) / (sceneCounts l).total := by
  unfold sceneRates at h
  simp only at h
  split at h
  · cases h
  · rename_i hne
    simp only [Option.some.injEq, Prod.mk.injEq] at h
    exact ⟨hne, h.1.symm, h.2.1.symm, h.2.2.1.symm, h.2.2.2.symm⟩

theorem nat_ratio_unit (k n : Nat) (hle : k ≤ n) (hn : n ≠ 0) : 0 ≤ (k : Rat) / (n : Rat) ∧ (k : Rat) / (n : Rat) ≤ 1 := by
  have hn' : (0 : Rat) < (n : Rat) := by exact_mod_cast Nat.pos_of_ne_zero hn
  refine ⟨div_nonneg (by exact_mod_cast Nat.zero_le k) hn'.le, ?_⟩
  rw [div_le_one hn']
  exact_mod_cast hle

theorem sceneRates_unit_sum (l : List GtStatus) (hb : ∀ s ∈ l, s.Balanced) (a b c d : Rat)
    (h : sceneRates l = some (a, b, c, d)) :
    (0 ≤ a ∧ a ≤ 1) ∧ (0 ≤ b ∧ b ≤ 1) ∧ (0 ≤ c ∧ c ≤ 1) ∧ (0 ≤ d ∧ d ≤ 1) ∧ a + b + c + d = 1 := by
  obtain ⟨hne, rfl, rfl, rfl, rfl⟩ := sceneRates_some l a b c d h
  have hbal := sceneCounts_balanced l hb
  refine ⟨nat_ratio_unit _ _ (by omega) hne, nat_ratio_unit _ _ (by omega) hne, nat_ratio_unit _ _ (by omega) hne,
    nat_ratio_unit _ _ (by omega) hne, ?_⟩
  have hn' : ((sceneCounts l).total : Rat) ≠ 0 := by exact_mod_cast hne
  have hb' : ((sceneCounts l).total : Rat) = (sceneCounts l).tp + (sceneCounts l).fp + (sceneCounts l).tn + (sceneCounts l).fn := by
    exact_mod_cast hbal
  field_simp
  linarith

/-! ### the scene tallies of a list of frames, exactly -/

def statusField (st : Status) (s : GtStatus) : List Nat :=
  match st with
  | .TP => s.tp | .FP => s.fp | .TN => s.tn | .FN => s.fn

/-- tally entries of one status, summed over the records = number of events of that status -/
theorem sum_status_length (st : Status) (evs : List Ev) (keys : List String) (hnd : keys.Nodup)
    (hcov : ∀ e ∈ evs, e.1 ∈ keys) :
    sumN (keys.map fun k => (statusField st (evSummary evs k)).length) = (evs.filter (fun e => e.2.1 == st)).length := by
  induction evs with
  | nil =>
    rw [sumN_map_zero]
    · rfl
    · intro k _; cases st <;> simp [evSummary, statusField]
  | cons e evs ih =>
    have h1 : ∀ k, (statusField st (evSummary (e :: evs) k)).length =
        (if e.1 = k then (if e.2.1 = st then 1 else 0) else 0) + (statusField st (evSummary evs k)).length := by
      intro k
      by_cases hk : e.1 = k <;> by_cases hs : e.2.1 = st <;> cases st <;>
        simp_all [evSummary, statusField, List.filter_cons, Status.beq_decide] <;> omega
    have h2 : sumN (keys.map fun k => if e.1 = k then (if e.2.1 = st then 1 else 0) else 0) = if e.2.1 = st then 1 else 0 := by
      have := sumN_indicator keys id (fun _ => if e.2.1 = st then 1 else 0) e.1 (by simpa using hnd) (hcov e (by simp))
      simpa [eq_comm] using this
    rw [sumN_map_congr _ _ _ (fun k _ => h1 k), sumN_map_add, h2, ih (fun e' he' => hcov e' (by simp [he']))]
    by_cases hs : e.2.1 = st <;> simp [List.filter_cons, hs, Status.beq_decide] <;> omega

theorem frameEvents_status_length (f : Frame) (st : Status) :
    ((frameEvents f).filter (fun e => e.2.1 == st)).length =
      match st with
      | .TP => f.tpGts.length | .FP => f.fpGts.length | .TN => f.tn.length | .FN => f.fn.length := by
  cases st <;>
    simp [frameEvents, List.filter_append, List.filter_map, Function.comp_def, Status.beq_decide,
      Frame.tpGts, Frame.fpGts]

theorem allEvents_status_length (frames : List Frame) (st : Status) :
    ((allEvents frames).filter (fun e => e.2.1 == st)).length =
      sumN (frames.map fun f => match st with
        | .TP => f.tpGts.length | .FP => f.fpGts.length | .TN => f.tn.length | .FN => f.fn.length) := by
  induction frames with
  | nil => rfl
  | cons f fs ih =>
    simp only [allEvents, List.flatMap_cons, List.filter_append, List.length_append, List.map_cons, sumN_cons] at ih ⊢
    rw [ih, frameEvents_status_length]

theorem sum_records_status (frames : List Frame) (st : Status) :
    sumN ((getObjectStatus frames).map fun s => (statusField st s).length) =
      sumN (frames.map fun f => match st with
        | .TP => f.tpGts.length | .FP => f.fpGts.length | .TN => f.tn.length | .FN => f.fn.length) := by
  rw [getObjectStatus_eq, List.map_map]
  have := sum_status_length st (allEvents frames) (keysOf (allEvents frames)) (keysOf_nodup _) (mem_keysOf _)
  rw [show ((fun s : GtStatus => (statusField st s).length) ∘ evSummary (allEvents frames)) =
    (fun k => (statusField st (evSummary (allEvents frames) k)).length) from rfl, this, allEvents_status_length]

/-- **the scene tallies, exactly.** -/
theorem sceneCounts_frames (frames : List Frame) :
    sceneCounts (getObjectStatus frames) =
      ⟨sumN (frames.map Frame.gtRows), sumN (frames.map fun f => f.tpGts.length),
       sumN (frames.map fun f => f.fpGts.length), sumN (frames.map fun f => f.tn.length),
       sumN (frames.map fun f => f.fn.length)⟩ := by
  rw [sceneCounts_eq]
  have ht : sumN ((getObjectStatus frames).map fun s => s.total.length) = sumN (frames.map Frame.gtRows) := by
    rw [getObjectStatus_eq, List.map_map]
    have := sum_total_length (allEvents frames) (keysOf (allEvents frames)) (keysOf_nodup _) (mem_keysOf _)
    rw [show ((fun s : GtStatus => s.total.length) ∘ evSummary (allEvents frames)) =
      (fun k => (evSummary (allEvents frames) k).total.length) from rfl, this, allEvents_length]
  have h1 := sum_records_status frames .TP
  have h2 := sum_records_status frames .FP
  have h3 := sum_records_status frames .TN
  have h4 := sum_records_status frames .FN
  simp only [statusField] at h1 h2 h3 h4
  rw [ht, h1, h2, h3, h4]

end PEval.Analyzer
