import PEval.Lemmas.AnalyzerCounts
import Mathlib.Tactic.Ring
import Mathlib.Tactic.Linarith
import Mathlib.Tactic.FieldSimp
/-!
# C19 lemmas (4): errors are GT − estimate of the paired rows; summaries follow their definitions
-/

set_option linter.unusedSimpArgs false
set_option linter.unnecessarySimpa false

namespace PEval.Analyzer

/-! ### paired rows -/

/-- list-valued version of `measure_allItems` -/
theorem measureL_allItems {β : Type} (area : Rat → Rat → Option Nat) (φ : List Item → List β) (c : Frame → List β)
    (h0 : φ [] = []) (happ : ∀ a b, φ (a ++ b) = φ a ++ φ b) (hc : ∀ k f, φ (frameItems area k f) = c f) :
    ∀ (k : Nat) (scenes : List (List Frame)), φ (allItemsFrom area k scenes) = scenes.flatten.flatMap c := by
  have hs : ∀ k (fs : List Frame), φ (sceneItems area k fs) = fs.flatMap c := by
    intro k fs
    induction fs with
    | nil => simpa [sceneItems] using h0
    | cons f fs ih =>
      have : sceneItems area k (f :: fs) = frameItems area k f ++ sceneItems area k fs := by simp [sceneItems]
      rw [this, happ, hc, ih]; simp
  intro k scenes
  induction scenes generalizing k with
  | nil => simpa [allItemsFrom] using h0
  | cons fs rest ih => simp only [allItemsFrom, happ, hs, ih, List.flatten_cons, List.flatMap_append]

def bothSides (it : Item) : Option (Cell × Cell) :=
  match it.1, it.2 with
  | some g, some e => some (g, e)
  | _, _ => none

theorem getPairResults_strip (t : Table) : getPairResults t = (t.map RowPair.strip).filterMap bothSides := by
  simp only [getPairResults, List.filterMap_map]
  congr 1

/-- (ground truth, estimate) of the paired results of a frame: TP results, then FP results that carry a
ground truth -/
def Frame.pairs (f : Frame) : List (Obj × Obj) := (f.tp ++ f.fp).filterMap fun p => p.gt.map (·, p.est)

def inStatus (l : List Status) (p : Cell × Cell) : Bool := l.contains p.1.status && l.contains p.2.status

theorem resultCells_pairs (area : Rat → Rat → Option Nat) (k n : Nat) (st : Status) (l : List Status)
    (hst : l.contains st = true) (ps : List Pair) :
    ((((ps.map (resultCells area k n st)).filterMap bothSides).filter (inStatus l)).map
        fun p => (p.1.obj, p.2.obj)) = ps.filterMap fun p => p.gt.map (·, p.est) := by
  induction ps with
  | nil => rfl
  | cons p ps ih =>
    rw [List.map_cons, List.filterMap_cons, List.filterMap_cons]
    cases hg : p.gt with
    | none =>
      simp only [resultCells, bothSides, hg, Option.map_none]
      exact ih
    | some g =>
      simp only [resultCells, bothSides, hg, Option.map_some, List.filter_cons, inStatus, hst, Bool.and_self, if_true,
        List.map_cons]
      rw [← ih]

theorem objectCells_pairs (area : Rat → Rat → Option Nat) (k n : Nat) (st : Status) (os : List Obj) :
    (os.map (objectCells area k n st)).filterMap bothSides = [] := by
  induction os with
  | nil => rfl
  | cons o os ih =>
    rw [List.map_cons, List.filterMap_cons]
    simp only [objectCells, bothSides]
    exact ih

theorem frameItems_pairs (area : Rat → Rat → Option Nat) (k : Nat) (f : Frame) (l : List Status)
    (hTP : l.contains Status.TP = true) (hFP : l.contains Status.FP = true) :
    ((((frameItems area k f).filterMap bothSides).filter (inStatus l)).map fun p => (p.1.obj, p.2.obj)) = f.pairs := by
  simp only [frameItems, List.filterMap_append, List.filter_append, List.map_append,
    resultCells_pairs area k f.frameNum _ l hTP, resultCells_pairs area k f.frameNum _ l hFP, objectCells_pairs,
    Frame.pairs, List.filter_nil, List.map_nil, List.append_nil]

/-- the paired rows of the table are the frames' paired results, in order -/
theorem pairs_table (area : Rat → Rat → Option Nat) (scenes : List (List Frame)) (l : List Status)
    (hTP : l.contains Status.TP = true) (hFP : l.contains Status.FP = true) :
    (((getPairResults (addAll area scenes).table).filter (inStatus l)).map fun p => (p.1.obj, p.2.obj)) =
      scenes.flatten.flatMap Frame.pairs := by
  rw [getPairResults_strip, addAll_strip]
  exact measureL_allItems area (fun its => ((its.filterMap bothSides).filter (inStatus l)).map fun p => (p.1.obj, p.2.obj))
    Frame.pairs rfl (by intro a b; simp [List.filterMap_append, List.filter_append])
    (fun k f => frameItems_pairs area k f l hTP hFP) 0 scenes

theorem getPairResults_all (t : Table) :
    (getPairResults t).filter (inStatus [.TP, .FP, .TN, .FN]) = getPairResults t := by
  apply List.filter_eq_self.mpr
  intro p _
  have : ∀ s : Status, [Status.TP, .FP, .TN, .FN].contains s = true := by intro s; cases s <;> decide
  simp only [inStatus, this, Bool.and_self]

/-! ### `calculate_error` -/

def pairOf (r : RowPair) : Option (Cell × Cell) :=
  match r.gt, r.est with
  | some g, some e => some (g, e)
  | _, _ => none

theorem getPairResults_eq (t : Table) : getPairResults t = t.filterMap pairOf := rfl

theorem pairOf_filter (l : List Status) (r : RowPair) :
    pairOf { r with gt := r.gt.filter (fun c => l.contains c.status), est := r.est.filter (fun c => l.contains c.status) } =
      (pairOf r).filter (inStatus l) := by
  cases hg : r.gt with
  | none => simp [pairOf, hg]
  | some g =>
    cases he : r.est with
    | none => by_cases h1 : g.status ∈ l <;> simp [pairOf, hg, he, Option.filter, h1]
    | some e =>
      by_cases h1 : g.status ∈ l <;> by_cases h2 : e.status ∈ l <;>
        simp [pairOf, hg, he, Option.filter, h1, h2, inStatus]

theorem getPairResults_rowFilter (l : List Status) (t : Table) :
    getPairResults (rowFilterStatus l t) = (getPairResults t).filter (inStatus l) := by
  rw [getPairResults_eq, getPairResults_eq, rowFilterStatus, List.filterMap_map, List.filter_filterMap]
  congr 1
  funext r
  simp only [Function.comp_apply, pairOf_filter]

theorem getPairResults_ne_nil (t : Table) (h : getPairResults t ≠ []) :
    t.any (·.gt.isSome) = true ∧ t.any (·.est.isSome) = true := by
  induction t with
  | nil => simp [getPairResults] at h
  | cons r t ih =>
    cases hg : r.gt with
    | none =>
      have : getPairResults t ≠ [] := by simpa [getPairResults, hg] using h
      have := ih this
      simp [List.any_cons, this.1, this.2]
    | some g =>
      cases he : r.est with
      | none =>
        have : getPairResults t ≠ [] := by simpa [getPairResults, hg, he] using h
        have := ih this
        simp [List.any_cons, this.1, this.2]
      | some e => simp [List.any_cons, hg, he]

/-- `calculate_error` = GT − estimate over the paired rows whose status is TP/FP/TN -/
theorem calculateError_eq (col : Col) (t : Table) :
    calculateError col t = ((getPairResults t).filter (inStatus [.TP, .FP, .TN])).map (pairError col) := by
  unfold calculateError
  simp only
  rw [← getPairResults_rowFilter]
  split
  · rfl
  · rename_i hguard
    by_cases hp : getPairResults (rowFilterStatus [.TP, .FP, .TN] t) = []
    · simp [hp]
    · have := getPairResults_ne_nil _ hp
      simp [this.1, this.2] at hguard

/-- GT − estimate on the objects (`none` = NaN) -/
def objError (col : Col) (g e : Obj) : Option Rat :=
  match col.get g, col.get e with
  | some a, some b => some (if col = .yaw then wrapYaw (a - b) else a - b)
  | _, _ => none

theorem calculateError_table (area : Rat → Rat → Option Nat) (scenes : List (List Frame)) (col : Col) :
    calculateError col (addAll area scenes).table =
      (scenes.flatten.flatMap Frame.pairs).map fun p => objError col p.1 p.2 := by
  rw [calculateError_eq, ← pairs_table area scenes [.TP, .FP, .TN] (by decide) (by decide), List.map_map]
  rfl

/-! ### yaw wrap -/

theorem wrapYaw_range (d : Rat) (h1 : -2 ≤ d) (h2 : d ≤ 2) : -1 ≤ wrapYaw d ∧ wrapYaw d ≤ 1 := by
  unfold wrapYaw; grind

theorem wrapYaw_cases (d : Rat) : wrapYaw d = d ∨ wrapYaw d = d - 2 ∨ wrapYaw d = d + 2 := by
  unfold wrapYaw; grind

theorem wrapYaw_id (d : Rat) (h1 : -1 ≤ d) (h2 : d ≤ 1) : wrapYaw d = d := by
  unfold wrapYaw; grind

/-! ### summaries -/

theorem sumR_cons (a : Rat) (l : List Rat) : sumR (a :: l) = a + sumR l := rfl

theorem sumR_var (l : List Rat) (a : Rat) :
    sumR (l.map fun v => (v - a) * (v - a)) = sumR (l.map fun v => v * v) - 2 * a * sumR l + (l.length : Rat) * a * a := by
  induction l with
  | nil => simp [sumR]
  | cons v l ih =>
    simp only [List.map_cons, sumR_cons, ih, List.length_cons]
    push_cast
    ring

theorem summarize_eq_none (errs : List Rat) : summarize errs = none ↔ errs = [] := by
  cases errs <;> simp [summarize]

theorem foldl_max (l : List Rat) (init : Rat) :
    init ≤ l.foldl (fun m v => if m < v.abs then v.abs else m) init ∧
    (∀ v ∈ l, v.abs ≤ l.foldl (fun m v => if m < v.abs then v.abs else m) init) ∧
    (l.foldl (fun m v => if m < v.abs then v.abs else m) init = init ∨
      ∃ v ∈ l, l.foldl (fun m v => if m < v.abs then v.abs else m) init = v.abs) := by
  induction l generalizing init with
  | nil => simp
  | cons v l ih =>
    simp only [List.foldl_cons]
    obtain ⟨h1, h2, h3⟩ := ih (if init < v.abs then v.abs else init)
    refine ⟨?_, ?_, ?_⟩
    · grind
    · intro w hw
      rcases List.mem_cons.mp hw with h | h
      · subst h; grind
      · exact h2 w h
    · rcases h3 with h | ⟨w, hw, h⟩
      · by_cases hc : init < v.abs
        · simp only [hc, if_true] at h ⊢; exact Or.inr ⟨v, by simp, h⟩
        · simp only [hc, if_false] at h ⊢; exact Or.inl h
      · exact Or.inr ⟨w, by simp [hw], h⟩

theorem foldl_min (l : List Rat) (init : Rat) :
    l.foldl (fun m v => if v.abs < m then v.abs else m) init ≤ init ∧
    (∀ v ∈ l, l.foldl (fun m v => if v.abs < m then v.abs else m) init ≤ v.abs) ∧
    (l.foldl (fun m v => if v.abs < m then v.abs else m) init = init ∨
      ∃ v ∈ l, l.foldl (fun m v => if v.abs < m then v.abs else m) init = v.abs) := by
  induction l generalizing init with
  | nil => simp
  | cons v l ih =>
    simp only [List.foldl_cons]
    obtain ⟨h1, h2, h3⟩ := ih (if v.abs < init then v.abs else init)
    refine ⟨?_, ?_, ?_⟩
    · grind
    · intro w hw
      rcases List.mem_cons.mp hw with h | h
      · subst h; grind
      · exact h2 w h
    · rcases h3 with h | ⟨w, hw, h⟩
      · by_cases hc : v.abs < init
        · simp only [hc, if_true] at h ⊢; exact Or.inr ⟨v, by simp, h⟩
        · simp only [hc, if_false] at h ⊢; exact Or.inl h
      · exact Or.inr ⟨w, by simp [hw], h⟩

theorem summarize_defs (errs : List Rat) (s : Summary) (h : summarize errs = some s) :
    s.average * (errs.length : Rat) = sumR errs ∧
    s.rms2 * (errs.length : Rat) = sumR (errs.map fun v => v * v) ∧
    s.var = s.rms2 - s.average * s.average := by
  cases errs with
  | nil => simp [summarize] at h
  | cons e es =>
    simp only [summarize, Option.some.injEq] at h
    subst h
    have hn : ((e :: es).length : Rat) ≠ 0 := by
      simp only [List.length_cons]; push_cast
      have : (0 : Rat) ≤ (es.length : Rat) := by exact_mod_cast Nat.zero_le _
      linarith
    refine ⟨?_, ?_, ?_⟩
    · simp only []; field_simp
    · simp only []; field_simp
    · simp only [sumR_var]
      field_simp
      ring

theorem summarize_max_min (errs : List Rat) (s : Summary) (h : summarize errs = some s) :
    (∀ v ∈ errs, v.abs ≤ s.max) ∧ (∃ v ∈ errs, s.max = v.abs) ∧
    (∀ v ∈ errs, s.min ≤ v.abs) ∧ (∃ v ∈ errs, s.min = v.abs) := by
  cases errs with
  | nil => simp [summarize] at h
  | cons e es =>
    simp only [summarize, Option.some.injEq] at h
    subst h
    have hmax := foldl_max es e.abs
    have hmin := foldl_min es e.abs
    obtain ⟨a1, a2, a3⟩ := hmax
    obtain ⟨b1, b2, b3⟩ := hmin
    refine ⟨?_, ?_, ?_, ?_⟩
    · intro v hv
      rcases List.mem_cons.mp hv with h | h
      · subst h; exact a1
      · exact a2 v h
    · rcases a3 with h | ⟨w, hw, h⟩
      · exact ⟨e, by simp, h⟩
      · exact ⟨w, by simp [hw], h⟩
    · intro v hv
      rcases List.mem_cons.mp hv with h | h
      · subst h; exact b1
      · exact b2 v h
    · rcases b3 with h | ⟨w, hw, h⟩
      · exact ⟨e, by simp, h⟩
      · exact ⟨w, by simp [hw], h⟩

end PEval.Analyzer
