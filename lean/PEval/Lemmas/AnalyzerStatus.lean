import PEval.Lemmas.AnalyzerCounts
/-!
# C19 lemmas (3): `get_object_status` is a group-by of the frames' `(uuid, status, frame)` events

`getObjectStatus frames = (keysOf evs).map (evSummary evs)`: one record per uuid in order of first
appearance, holding exactly the frame numbers of that uuid's events.  Consequences: the exact tally per
(uuid, frame), which under `Frame.WF` is `#critical + #FP results carrying that ordinary GT` (F11), and
"once per frame" when no FP result carries an ordinary ground truth.  Core Lean only.
-/

set_option linter.unusedSimpArgs false
set_option linter.unnecessarySimpa false

namespace PEval.Analyzer

abbrev Ev := String × Status × Nat

/-- the record that `get_object_status` must hold for `u` after the events `evs` -/
def evSummary (evs : List Ev) (u : String) : GtStatus :=
  { uuid := u
    total := (evs.filter (fun e => e.1 == u)).map (·.2.2)
    tp := (evs.filter (fun e => e.1 == u && e.2.1 == .TP)).map (·.2.2)
    fp := (evs.filter (fun e => e.1 == u && e.2.1 == .FP)).map (·.2.2)
    tn := (evs.filter (fun e => e.1 == u && e.2.1 == .TN)).map (·.2.2)
    fn := (evs.filter (fun e => e.1 == u && e.2.1 == .FN)).map (·.2.2) }

def keyStep (acc : List String) (e : Ev) : List String := if acc.contains e.1 then acc else acc ++ [e.1]

/-- uuids in order of first appearance -/
def keysOf (evs : List Ev) : List String := evs.foldl keyStep []

theorem evSummary_snoc_ne (evs : List Ev) (u k : String) (st : Status) (n : Nat) (h : k ≠ u) :
    evSummary (evs ++ [(u, st, n)]) k = evSummary evs k := by
  have : (u == k) = false := by simp [Ne.symm h]
  simp [evSummary, List.filter_append, this]

theorem evSummary_snoc_eq (evs : List Ev) (u : String) (st : Status) (n : Nat) :
    evSummary (evs ++ [(u, st, n)]) u = (evSummary evs u).addStatus st n := by
  cases st <;> simp [evSummary, List.filter_append, GtStatus.addStatus, Status.beq_decide]

theorem evSummary_fresh (evs : List Ev) (u : String) (h : ∀ e ∈ evs, e.1 ≠ u) :
    evSummary evs u = { uuid := u } := by
  have h1 : ∀ (q : Ev → Bool), evs.filter (fun e => e.1 == u && q e) = [] := by
    intro q
    apply List.filter_eq_nil_iff.mpr
    intro e he
    simp [h e he]
  have h2 : evs.filter (fun e => e.1 == u) = [] := by
    apply List.filter_eq_nil_iff.mpr
    intro e he
    simp [h e he]
  simp [evSummary, h1, h2]

/-- one step of the loop on a list of records that are the summaries of `evs` for the nodup keys -/
theorem addTo_map (evs : List Ev) (u : String) (st : Status) (n : Nat) :
    ∀ (keys : List String), keys.Nodup → (u ∈ keys ∨ ∀ e ∈ evs, e.1 ≠ u) →
      addTo u st n (keys.map (evSummary evs)) =
        (if keys.contains u then keys else keys ++ [u]).map (evSummary (evs ++ [(u, st, n)])) := by
  intro keys
  induction keys with
  | nil =>
    intro _ h
    have hf : ∀ e ∈ evs, e.1 ≠ u := by
      cases h with
      | inl h => simp at h
      | inr h => exact h
    simp [addTo, evSummary_snoc_eq, evSummary_fresh evs u hf]
  | cons k ks ih =>
    intro hnd h
    have hk : k ∉ ks := (List.nodup_cons.mp hnd).1
    have hks : ks.Nodup := (List.nodup_cons.mp hnd).2
    by_cases hku : k = u
    · subst hku
      have hrest : ks.map (evSummary (evs ++ [(k, st, n)])) = ks.map (evSummary evs) := by
        apply List.map_congr_left
        intro k' hk'
        exact evSummary_snoc_ne evs k k' st n (fun e => hk (e ▸ hk'))
      simp [addTo, evSummary, hrest]
      cases st <;> simp [GtStatus.addStatus, List.filter_append, Status.beq_decide]
    · have hne : ((evSummary evs k).uuid == u) = false := by simp [evSummary, hku]
      have hmem : (u ∈ ks ∨ ∀ e ∈ evs, e.1 ≠ u) := by
        cases h with
        | inl h => left; simpa [Ne.symm hku] using h
        | inr h => exact Or.inr h
      have hc : (k :: ks).contains u = ks.contains u := by
        simp [List.contains_cons, Ne.symm hku]
      have e1 := evSummary_snoc_ne evs u k st n hku
      have e2 := ih hks hmem
      by_cases hcu : ks.contains u = true
      · rw [hc]
        simp only [hcu, if_true] at e2 ⊢
        simp only [List.map_cons, addTo, hne, Bool.false_eq_true, if_false, e2, e1]
      · rw [hc]
        simp only [hcu, if_false] at e2 ⊢
        simp only [List.map_cons, List.cons_append, addTo, hne, Bool.false_eq_true, if_false, e2, e1]

theorem keyStep_nodup (acc : List String) (e : Ev) (h : acc.Nodup) : (keyStep acc e).Nodup := by
  unfold keyStep
  split
  · exact h
  · rename_i hc
    apply List.nodup_append.mpr
    refine ⟨h, by simp, ?_⟩
    intro a ha b hb
    simp at hb
    subst hb
    intro hab
    subst hab
    exact hc (by simpa using ha)

theorem mem_keyStep (acc : List String) (e : Ev) : e.1 ∈ keyStep acc e ∧ ∀ k ∈ acc, k ∈ keyStep acc e := by
  unfold keyStep
  split
  · rename_i hc; exact ⟨by simpa using hc, fun k hk => hk⟩
  · exact ⟨by simp, fun k hk => by simp [hk]⟩

/-- the loop invariant, generalised over the events already consumed -/
theorem foldl_addTo (evs : List Ev) :
    ∀ (evs0 : List Ev) (keys : List String), keys.Nodup → (∀ e ∈ evs0, e.1 ∈ keys) →
      evs.foldl (fun infos ev => addTo ev.1 ev.2.1 ev.2.2 infos) (keys.map (evSummary evs0)) =
        (evs.foldl keyStep keys).map (evSummary (evs0 ++ evs)) := by
  induction evs with
  | nil => intro evs0 keys _ _; simp
  | cons e evs ih =>
    intro evs0 keys hnd hcov
    obtain ⟨u, st, n⟩ := e
    simp only [List.foldl_cons]
    have hor : u ∈ keys ∨ ∀ e ∈ evs0, e.1 ≠ u := by
      by_cases hu : u ∈ keys
      · exact Or.inl hu
      · exact Or.inr (fun e he heq => hu (heq ▸ hcov e he))
    rw [addTo_map evs0 u st n keys hnd hor]
    have hstep : (if keys.contains u then keys else keys ++ [u]) = keyStep keys (u, st, n) := rfl
    rw [hstep, ih (evs0 ++ [(u, st, n)]) (keyStep keys (u, st, n)) (keyStep_nodup _ _ hnd)]
    · simp [List.append_assoc]
    · intro e he
      have hm := mem_keyStep keys (u, st, n)
      rcases List.mem_append.mp he with h | h
      · exact hm.2 _ (hcov e h)
      · simp at h; subst h; exact hm.1

def allEvents (frames : List Frame) : List Ev := frames.flatMap frameEvents

/-- `get_object_status` = group-by uuid, in order of first appearance -/
theorem getObjectStatus_eq (frames : List Frame) :
    getObjectStatus frames = (keysOf (allEvents frames)).map (evSummary (allEvents frames)) := by
  have := foldl_addTo (allEvents frames) [] [] (by simp) (by simp)
  simpa [getObjectStatus, keysOf, allEvents] using this

theorem keysOf_nodup (evs : List Ev) : (keysOf evs).Nodup := by
  have : ∀ (acc : List String), acc.Nodup → (evs.foldl keyStep acc).Nodup := by
    induction evs with
    | nil => intro acc h; simpa using h
    | cons e evs ih => intro acc h; exact ih _ (keyStep_nodup acc e h)
  exact this [] (by simp)

theorem mem_keysOf (evs : List Ev) : ∀ e ∈ evs, e.1 ∈ keysOf evs := by
  have : ∀ (acc : List String), (∀ k ∈ acc, k ∈ evs.foldl keyStep acc) ∧ ∀ e ∈ evs, e.1 ∈ evs.foldl keyStep acc := by
    induction evs with
    | nil => intro acc; simp
    | cons e evs ih =>
      intro acc
      have hm := mem_keyStep acc e
      have := ih (keyStep acc e)
      refine ⟨fun k hk => this.1 k (hm.2 k hk), ?_⟩
      intro e' he'
      rcases List.mem_cons.mp he' with h | h
      · subst h; exact this.1 _ hm.1
      · exact this.2 e' h
  exact (this []).2

theorem keysOf_sub (evs : List Ev) : ∀ k ∈ keysOf evs, ∃ e ∈ evs, e.1 = k := by
  have : ∀ (acc : List String), ∀ k ∈ evs.foldl keyStep acc, k ∈ acc ∨ ∃ e ∈ evs, e.1 = k := by
    induction evs with
    | nil => intro acc k hk; exact Or.inl (by simpa using hk)
    | cons e evs ih =>
      intro acc k hk
      rcases ih (keyStep acc e) k hk with h | ⟨e', he', h⟩
      · unfold keyStep at h
        split at h
        · exact Or.inl h
        · rcases List.mem_append.mp h with h | h
          · exact Or.inl h
          · simp at h; exact Or.inr ⟨e, by simp, h.symm⟩
      · exact Or.inr ⟨e', by simp [he'], h⟩
  intro k hk
  rcases this [] k hk with h | h
  · simp at h
  · exact h

/-! ### counting entries per (uuid, frame) -/

/-- uuids of the ground-truth rows a frame contributes -/
def Frame.gtUuids (f : Frame) : List String := (f.tpGts ++ f.fpGts ++ f.tn ++ f.fn).map (·.uuid)

theorem frameEvents_filter_count (f : Frame) (u : String) (n : Nat) :
    (((frameEvents f).filter (fun e => e.1 == u)).map (·.2.2)).count n =
      if f.frameNum = n then f.gtUuids.count u else 0 := by
  have key : ∀ (l : List Obj) (st : Status),
      (((l.map fun g => ((g.uuid, st, f.frameNum) : Ev)).filter (fun e => e.1 == u)).map (·.2.2)).count n =
        if f.frameNum = n then (l.map (·.uuid)).count u else 0 := by
    intro l st
    induction l with
    | nil => simp
    | cons g l ih =>
      by_cases hg : g.uuid = u <;> by_cases hn : f.frameNum = n <;>
        simp_all [List.filter_cons, List.count_cons]
  simp only [frameEvents, List.filter_append, List.map_append, List.count_append, key, Frame.gtUuids,
    Frame.tpGts, Frame.fpGts]
  split <;> simp <;> omega

theorem count_flatMap_events (frames : List Frame) (u : String) (n : Nat) :
    (((allEvents frames).filter (fun e => e.1 == u)).map (·.2.2)).count n =
      sumN (frames.map fun f => if f.frameNum = n then f.gtUuids.count u else 0) := by
  induction frames with
  | nil => simp [allEvents]
  | cons f fs ih =>
    simp only [allEvents, List.flatMap_cons, List.filter_append, List.map_append, List.count_append,
      List.map_cons, sumN_cons] at ih ⊢
    rw [frameEvents_filter_count, ih]

theorem Frame.fpGts_perm (f : Frame) : f.fpGts.Perm (f.fpFpl ++ f.fpOrd) := by
  unfold Frame.fpFpl Frame.fpOrd
  exact (List.filter_append_perm (·.isFp) f.fpGts).symm

/-- under `WF`, the ground-truth rows of a frame are the critical ground truths plus (again) the ordinary
ground truths carried by FP results -/
theorem Frame.WF.gtUuids_count {f : Frame} (h : f.WF) (u : String) :
    f.gtUuids.count u = (f.critical.map (·.uuid)).count u + (f.fpOrd.map (·.uuid)).count u := by
  have hp : (f.tpGts ++ f.fpGts ++ f.tn ++ f.fn).Perm (f.critical ++ f.fpOrd) := by
    have h1 : (f.tpGts ++ f.fpGts ++ f.tn ++ f.fn).Perm (f.tpGts ++ (f.fpFpl ++ f.fpOrd) ++ f.tn ++ f.fn) :=
      ((List.Perm.append_left _ f.fpGts_perm).append_right _).append_right _
    have h2 : (f.tpGts ++ (f.fpFpl ++ f.fpOrd) ++ f.tn ++ f.fn).Perm ((f.tpGts ++ f.fpFpl ++ f.tn ++ f.fn) ++ f.fpOrd) := by
      apply List.perm_iff_count.mpr
      intro a
      simp only [List.count_append]
      omega
    exact (h1.trans h2).trans (List.Perm.append_right _ h.partition.symm)
  have := (hp.map (·.uuid)).count_eq u
  simpa [Frame.gtUuids, List.count_append] using this

theorem sumN_indicator {α κ : Type} [DecidableEq κ] (l : List α) (key : α → κ) (c : α → Nat) (a : α)
    (hnd : (l.map key).Nodup) (ha : a ∈ l) :
    sumN (l.map fun b => if key b = key a then c b else 0) = c a := by
  induction l with
  | nil => simp at ha
  | cons b l ih =>
    have hb : key b ∉ l.map key := (List.nodup_cons.mp hnd).1
    have hl : (l.map key).Nodup := (List.nodup_cons.mp hnd).2
    rcases List.mem_cons.mp ha with h | h
    · subst h
      have : sumN (l.map fun b => if key b = key a then c b else 0) = 0 := by
        apply sumN_map_zero
        intro b' hb'
        have : key b' ≠ key a := fun e => hb (e ▸ List.mem_map_of_mem hb')
        simp [this]
      simp [this]
    · have hne : key b ≠ key a := fun e => hb (e ▸ List.mem_map_of_mem h)
      simp [hne, ih hl h]

/-- total number of tally entries = number of events -/
theorem sum_total_length (evs : List Ev) (keys : List String) (hnd : keys.Nodup) (hcov : ∀ e ∈ evs, e.1 ∈ keys) :
    sumN (keys.map fun k => (evSummary evs k).total.length) = evs.length := by
  induction evs with
  | nil => simp [evSummary, sumN_map_zero]
  | cons e evs ih =>
    have h1 : ∀ k, (evSummary (e :: evs) k).total.length =
        (if e.1 = k then 1 else 0) + (evSummary evs k).total.length := by
      intro k
      by_cases hk : e.1 = k <;> simp [evSummary, List.filter_cons, hk] <;> omega
    have h2 : sumN (keys.map fun k => if e.1 = k then 1 else 0) = 1 := by
      have := sumN_indicator keys id (fun _ => 1) e.1 (by simpa using hnd) (hcov e (by simp))
      simpa [eq_comm] using this
    rw [sumN_map_congr _ _ _ (fun k _ => h1 k), sumN_map_add, h2, ih (fun e' he' => hcov e' (by simp [he']))]
    simp; omega

theorem allEvents_length (frames : List Frame) : (allEvents frames).length = sumN (frames.map Frame.gtRows) := by
  induction frames with
  | nil => rfl
  | cons f fs ih =>
    simp only [allEvents, List.flatMap_cons, List.length_append, List.map_cons, sumN_cons] at ih ⊢
    rw [ih]
    simp [frameEvents, Frame.gtRows, Frame.tpGts, Frame.fpGts]
    omega

end PEval.Analyzer
