import PEval.Lemmas.ThresholdConfig
/-!
# The target-label list of a configuration (C15, audit round 2)

Links `targetLabelCount` / `labelTypeSize` (lengths, used by the configuration model) to `targetLabelList` /
`Label.tableFor` (the converted list, through the converter model of C14): the count is the length of the list, the
errors coincide.  Core Lean only.
-/
namespace PEval.Config
open PEval PEval.Threshold

theorem familyMembers_length :
    (Label.familyMembers "autoware").length = Gen.autowareLabel.length ∧
    (Label.familyMembers "traffic_light").length = Gen.trafficLightLabel.length := by
  constructor <;> simp [Label.familyMembers]

/-- the size of the label enum chosen by `label_prefix` is the number of members of the family the converter reports,
and both constructors fail alike -/
theorem labelTypeSize_eq_tableFor (p : String) (merge : Bool) (task : String) :
    labelTypeSize (.str p) =
      (match Label.tableFor p merge task with
       | .ok r => .ok (Label.familyMembers r.2).length
       | .error e => .error e) := by
  unfold labelTypeSize Label.tableFor
  by_cases h1 : p = "autoware"
  · subst h1; simp [familyMembers_length.1]
  · have h1' : (p == "autoware") = false := by simpa using h1
    by_cases h2 : p = "traffic_light"
    · subst h2; simp [familyMembers_length.2]
    · have h2' : (p == "traffic_light") = false := by simpa using h2
      simp only [h1', h2', Bool.false_eq_true, if_false]
      split <;> rfl

/-- `len(set_target_lists(..))`: the count the configuration model uses is the length of the converted list, and the
two fail alike -/
theorem targetLabelCount_eq_length (v : PyVal) (t : Label.Table) (fam : String) :
    targetLabelCount v (Label.familyMembers fam).length =
      (match targetLabelList v t fam with
       | .ok L => .ok L.length
       | .error e => .error e) := by
  cases v with
  | none => simp [targetLabelCount, targetLabelList, Label.setTargetLists]
  | num q => simp [targetLabelCount, targetLabelList]
  | bool b => simp [targetLabelCount, targetLabelList]
  | other s => simp [targetLabelCount, targetLabelList]
  | str s =>
    unfold targetLabelCount targetLabelList
    by_cases h : (s.length == 0) = true
    · simp [h, Label.setTargetLists]
    · have hne : s.toList ≠ [] := by
        intro e
        have hl := String.length_toList (s := s)
        rw [e] at hl
        exact h (by rw [← hl]; rfl)
      simp only [h, Bool.false_eq_true, if_false]
      cases hl : s.toList with
      | nil => exact absurd hl hne
      | cons c cs =>
        have : s.length = (c :: cs).length := by rw [← hl, String.length_toList]
        simp [Label.setTargetLists, this]
  | list xs =>
    unfold targetLabelCount targetLabelList
    by_cases h : (xs.length == 0) = true
    · simp [h, Label.setTargetLists]
    · simp only [h, Bool.false_eq_true, if_false]
      by_cases ha : xs.all isStr = true
      · simp only [ha, if_true]
        cases xs with
        | nil => simp at h
        | cons x xs => simp [Label.setTargetLists]
      · simp [ha]

theorem extractParams_count {task : String} {nAll : Nat} {d : Dict} {n : Nat} {f m : Dict}
    (h : extractParams task nAll d = .ok (n, f, m)) :
    targetLabelCount (get d "target_labels") nAll = .ok n := by
  unfold extractParams at h
  split at h
  · cases h
  · rename_i n' hn'
    split at h
    · cases h
    · split at h
      · cases h
      · split at h
        · cases h
        · split at h
          · cases h
          · split at h
            · cases h
            · cases h; exact hn'

/-- every task the perception configuration supports is the value of an `EvaluationTask` member (regenerated lists) -/
theorem supportTasks_are_members : ∀ t ∈ Gen.perceptionSupportTasks, (Enums.setTask t).isSome = true := by
  decide +kernel

/-- an accepted configuration: its target-label list exists, and `nLabels` is its length -/
theorem perceptionConfig_targets {d : Dict} {frames : List String} {a : Accepted}
    (h : perceptionConfig d frames = .ok a) :
    ∃ t fam L, checkTasks Gen.perceptionSupportTasks d = .ok a.task ∧ converterOf a.task d = .ok (t, fam) ∧
      targetLabelList (get d "target_labels") t fam = .ok L ∧ configTargetLabels d = .ok L ∧ a.nLabels = L.length := by
  unfold perceptionConfig at h
  split at h
  · cases h
  · rename_i task htask
    split at h
    · cases h
    · rename_i hpol
      split at h
      · cases h
      · rename_i pre hpre
        split at h
        · cases h
        · rename_i nAll hnAll
          split at h
          · cases h
          · rename_i n f m hex
            split at h
            · cases h
            · split at h
              · cases h
              · split at h
                · cases h
                · cases h
                  have hcnt := extractParams_count hex
                  -- the prefix is a string, and the converter's constructor succeeds with the same size
                  cases pre with
                  | str p =>
                    have hsz := labelTypeSize_eq_tableFor p (mergeFlag d) ((Enums.setTask task).getD task)
                    rw [hnAll] at hsz
                    cases htf : Label.tableFor p (mergeFlag d) ((Enums.setTask task).getD task) with
                    | error e => rw [htf] at hsz; cases hsz
                    | ok r =>
                      rw [htf] at hsz
                      simp only [Except.ok.injEq] at hsz
                      have hconv : converterOf task d = .ok (r.1, r.2) := by
                        simp [converterOf, hpre, htf]
                      have hcl := targetLabelCount_eq_length (get d "target_labels") r.1 r.2
                      rw [← hsz, hcnt] at hcl
                      cases hL : targetLabelList (get d "target_labels") r.1 r.2 with
                      | error e => rw [hL] at hcl; cases hcl
                      | ok L =>
                        rw [hL] at hcl
                        simp only [Except.ok.injEq] at hcl
                        refine ⟨r.1, r.2, L, htask, hconv, hL, ?_, hcl⟩
                        simp [configTargetLabels, htask, hpol, hconv, hL]
                  | num q => simp [labelTypeSize] at hnAll
                  | bool b => simp [labelTypeSize] at hnAll
                  | none => simp [labelTypeSize] at hnAll
                  | list xs => simp [labelTypeSize] at hnAll
                  | other s => simp [labelTypeSize] at hnAll

/-- the stages of an accepted `_extract_params`: the count, the range block, the three optional lists -/
theorem extractParams_steps {task : String} {nAll : Nat} {d : Dict} {n : Nat} {f m : Dict}
    (h : extractParams task nAll d = .ok (n, f, m)) :
    targetLabelCount (get d "target_labels") nAll = .ok n ∧
    (∃ r, rangeParams task d n = .ok r) ∧
    (∃ v, f.lookup "max_matchable_radii" = some v ∧ optFlat (get d "max_matchable_radii") n = .ok v) ∧
    (∃ v, f.lookup "min_point_numbers" = some v ∧ optFlat (get d "min_point_numbers") n = .ok v) ∧
    (∃ v, f.lookup "confidence_threshold_list" = some v ∧ optFlat (get d "confidence_threshold") n = .ok v) := by
  unfold extractParams at h
  split at h
  · cases h
  · rename_i n' hn'
    split at h
    · cases h
    · rename_i xl yl dl ml hr
      split at h
      · cases h
      · rename_i radii hrad
        split at h
        · cases h
        · rename_i minPts hmp
          split at h
          · cases h
          · split at h
            · cases h
            · rename_i conf hconf
              cases h
              exact ⟨hn', ⟨_, hr⟩, ⟨radii, by simp [List.lookup], hrad⟩, ⟨minPts, by simp [List.lookup], hmp⟩,
                ⟨conf, by simp [List.lookup], hconf⟩⟩

/-- both kinds of range bound given (in part or completely): rejected, whatever the task (2-D tasks included) -/
theorem rangeParams_both_kinds (task : String) (d : Dict) (n : Nat)
    (h : ((given (get d "max_x_position") || given (get d "max_y_position")) &&
          (given (get d "max_distance") || given (get d "min_distance"))) = true) :
    rangeParams task d n = .error "RuntimeError" := by
  unfold rangeParams
  simp only [h, if_true]

/-- a 3-D task with no complete kind of range bound: rejected -/
theorem rangeParams_3d_incomplete (task : String) (d : Dict) (n : Nat) (h3 : is3d task = true)
    (hxy : (given (get d "max_x_position") && given (get d "max_y_position")) = false)
    (hd : (given (get d "max_distance") && given (get d "min_distance")) = false) :
    rangeParams task d n = .error "RuntimeError" := by
  unfold rangeParams
  cases gx : given (get d "max_x_position") <;> cases gy : given (get d "max_y_position") <;>
    cases gd : given (get d "max_distance") <;> cases gm : given (get d "min_distance") <;>
    simp_all

/-- the first stages of the constructor, up to and including `set_target_lists`: whatever makes the target-label list
fail makes the configuration fail with the same exception -/
theorem perceptionConfig_error_of_targets {d : Dict} (frames : List String) {e : Err}
    (h : configTargetLabels d = .error e) : perceptionConfig d frames = .error e := by
  unfold configTargetLabels at h
  unfold perceptionConfig
  cases hct : checkTasks Gen.perceptionSupportTasks d with
  | error e' => rw [hct] at h; simp only at h ⊢; cases h; rfl
  | ok task =>
    rw [hct] at h
    simp only at h ⊢
    cases hpol : matchingPolicy d with
    | error e' => rw [hpol] at h; simp only at h ⊢; cases h; rfl
    | ok u =>
      rw [hpol] at h
      simp only at h ⊢
      unfold converterOf at h
      cases hpre : d.lookup "label_prefix" with
      | none => rw [hpre] at h; simp only at h ⊢; cases h; rfl
      | some pre =>
        rw [hpre] at h
        simp only at h ⊢
        cases pre with
        | str p =>
          simp only at h
          have hsz := labelTypeSize_eq_tableFor p (mergeFlag d) ((Enums.setTask task).getD task)
          cases htf : Label.tableFor p (mergeFlag d) ((Enums.setTask task).getD task) with
          | error e' =>
            rw [htf] at hsz h
            simp only at hsz h
            cases h
            rw [hsz]
          | ok r =>
            rw [htf] at hsz h
            simp only at hsz h
            have hcl := targetLabelCount_eq_length (get d "target_labels") r.1 r.2
            rw [h] at hcl
            simp only at hcl
            rw [hsz]
            simp only
            unfold extractParams
            rw [hcl]
        | num q => simp only at h; cases h; rfl
        | bool b => simp only at h; cases h; rfl
        | none => simp only at h; cases h; rfl
        | list xs => simp only at h; cases h; rfl
        | other s => simp only at h; cases h; rfl

/-- the error exits of `set_target_lists` on a configuration value, characterised -/
theorem targetLabelList_error_iff (v : PyVal) (t : Label.Table) (fam : String) :
    (targetLabelList v t fam = .error "AttributeError" ↔
      ∃ xs, v = .list xs ∧ xs ≠ [] ∧ ∃ x ∈ xs, isStr x = false) ∧
    (targetLabelList v t fam = .error "TypeError" ↔ ((∃ q, v = .num q) ∨ (∃ b, v = .bool b) ∨ ∃ s, v = .other s)) ∧
    (∀ e, targetLabelList v t fam = .error e → e = "AttributeError" ∨ e = "TypeError") := by
  cases v with
  | none => simp [targetLabelList]
  | num q => simp [targetLabelList]
  | bool b => simp [targetLabelList]
  | other s => simp [targetLabelList]
  | str s =>
    unfold targetLabelList
    by_cases h : (s.length == 0) = true <;> simp [h]
  | list xs =>
    unfold targetLabelList
    by_cases h : (xs.length == 0) = true
    · have : xs = [] := by simpa using h
      subst this; simp
    · have hne : xs ≠ [] := by intro e; subst e; simp at h
      by_cases ha : xs.all isStr = true
      · simp only [h, ha, Bool.false_eq_true, if_false, if_true]
        refine ⟨?_, by simp, by simp⟩
        constructor
        · intro h'; cases h'
        · rintro ⟨ys, hy, _, x, hx, hxs⟩
          cases hy
          have := List.all_eq_true.mp ha x hx
          rw [hxs] at this; cases this
      · simp only [h, ha, Bool.false_eq_true, if_false]
        refine ⟨?_, by simp, by simp⟩
        constructor
        · intro _
          have : ∃ x ∈ xs, isStr x = false := by
            have h' : xs.all isStr = false := by simpa using ha
            obtain ⟨x, hx, hxs⟩ := List.all_eq_false.mp h'
            exact ⟨x, hx, by simpa using hxs⟩
          exact ⟨xs, rfl, hne, this⟩
        · intro _; trivial

end PEval.Config
