import PEval.Lemmas.MatchingResults
import PEval.Model.MatchHeap
/-!
The heap model of `get_object_results` (`Model/MatchHeap.lean`) simulates the index-level model
(`Matching.getObjectResults`) step by step, and writes only into the two working lists.
-/
namespace PEval.MatchHeap
open PEval PEval.Matching

/-! ## the store -/

theorem read_write_same {h : Heap} {r : LRef} {v : List ORef} (hr : r < h.cells.length) : (h.write r v).read r = v := by
  simp [Heap.read, Heap.write, List.getElem?_set_self hr]

theorem read_write_ne {h : Heap} {r r' : LRef} {v : List ORef} (hne : r' ≠ r) : (h.write r v).read r' = h.read r' := by
  simp [Heap.read, Heap.write, List.getElem?_set_ne (Ne.symm hne)]

theorem write_length {h : Heap} {r : LRef} {v : List ORef} : (h.write r v).cells.length = h.cells.length := by
  simp [Heap.write]

theorem read_alloc_old {h : Heap} {v : List ORef} {r : LRef} (hr : r < h.cells.length) :
    (h.alloc v).1.read r = h.read r := by
  simp [Heap.read, Heap.alloc, List.getElem?_append_left hr]

theorem read_alloc_new {h : Heap} {v : List ORef} : (h.alloc v).1.read (h.alloc v).2 = v := by
  simp [Heap.read, Heap.alloc]

theorem alloc_length {h : Heap} {v : List ORef} : (h.alloc v).1.cells.length = h.cells.length + 1 := by
  simp [Heap.alloc]

theorem alloc_ref {h : Heap} {v : List ORef} : (h.alloc v).2 = h.cells.length := rfl

/-- a reference outside the store reads as the empty list -/
theorem read_of_ge {h : Heap} {r : LRef} (hr : h.cells.length ≤ r) : h.read r = [] := by
  simp [Heap.read, List.getElem?_eq_none hr]

/-! ## lists -/

theorem eraseIdx_idxOf {l : List Nat} {a : Nat} (ha : a ∈ l) : l.eraseIdx (l.idxOf a) = l.erase a := by
  induction l with
  | nil => cases ha
  | cons x l ih =>
    by_cases hx : x = a
    · subst hx; simp
    · have hm : a ∈ l := by
        rcases List.mem_cons.1 ha with h | h
        · exact absurd h.symm hx
        · exact h
      have hb : (x == a) = false := by simpa using hx
      rw [List.idxOf_cons, hb]
      simp only [cond_false, List.eraseIdx_cons_succ, ih hm]
      rw [List.erase_cons, hb]
      simp

theorem map_eraseIdx {α β} (f : α → β) (l : List α) (k : Nat) : (l.map f).eraseIdx k = (l.eraseIdx k).map f := by
  induction l generalizing k with
  | nil => simp
  | cons x l ih =>
    cases k with
    | zero => simp
    | succ n => simp [ih]

theorem getElem?_map_idxOf {l : List Nat} {a : Nat} (f : Nat → ORef) (ha : a ∈ l) :
    (l.map f)[l.idxOf a]? = some (f a) := by
  have hlt := List.idxOf_lt_length_iff.2 ha
  rw [List.getElem?_map, List.getElem?_eq_getElem hlt, List.getElem_idxOf hlt]
  rfl

theorem map_getD_range (l : List ORef) : (List.range l.length).map (fun i => l.getD i 0) = l := by
  apply List.ext_getElem?
  intro i
  by_cases hi : i < l.length
  · rw [List.getElem?_map, List.getElem?_range hi]
    simp [List.getD_eq_getElem?_getD, List.getElem?_eq_getElem hi]
  · have hi' : l.length ≤ i := Nat.le_of_not_lt hi
    rw [List.getElem?_eq_none hi', List.getElem?_eq_none (by simpa using hi')]

/-- `lst.pop(position of a)` on a list that holds the objects of the remaining indices `l` -/
theorem pop_sim {h : Heap} {r : LRef} {l : List Nat} {f : Nat → ORef} {a : Nat} (hrd : h.read r = l.map f)
    (ha : a ∈ l) : h.pop r (l.idxOf a) = some (f a, h.write r ((l.erase a).map f)) := by
  unfold Heap.pop
  rw [hrd, getElem?_map_idxOf f ha, map_eraseIdx, eraseIdx_idxOf ha]

/-! ## unfolding one loop -/

theorem stageH_zero (t : Tbl) (s1 : Bool) (wE wG : LRef) (st : HSt) : stageH t s1 wE wG 0 st = st := rfl

theorem stageH_succ_none {t : Tbl} {s1 : Bool} {wE wG : LRef} {n : Nat} {st : HSt}
    (hb : argBest t.maximize (cands t s1 st.es st.gs) = none) : stageH t s1 wE wG (n + 1) st = st := by
  simp [stageH, hb]

theorem stageH_succ_some {t : Tbl} {s1 : Bool} {wE wG : LRef} {n : Nat} {st : HSt} {i j : Nat} {s : Rat}
    {eo go : ORef} {h1 h2 : Heap}
    (hb : argBest t.maximize (cands t s1 st.es st.gs) = some (i, j, s))
    (hp1 : st.heap.pop wE (st.es.idxOf i) = some (eo, h1)) (hp2 : h1.pop wG (st.gs.idxOf j) = some (go, h2)) :
    stageH t s1 wE wG (n + 1) st =
      stageH t s1 wE wG n
        { st with heap := h2, es := st.es.eraseIdx (st.es.idxOf i), gs := st.gs.eraseIdx (st.gs.idxOf j),
                  results := st.results ++ [(eo, some go)] } := by
  simp [stageH, hb, hp1, hp2]

/-! ## simulation -/

/-- the heap-level state `hs` represents the index-level state `st`: the working lists hold the objects of the remaining
indices, the results are the pairs read as objects, nothing but the two working lists differs from the heap `h1` the
loops were started on -/
structure Sim (eL gL : List ORef) (wE wG : LRef) (h1 : Heap) (hs : HSt) (st : St) : Prop where
  es : hs.es = st.es
  gs : hs.gs = st.gs
  rdE : hs.heap.read wE = st.es.map (fun i => eL.getD i 0)
  rdG : hs.heap.read wG = st.gs.map (fun j => gL.getD j 0)
  res : hs.results = st.pairs.map (fun p => (eL.getD p.1 0, some (gL.getD p.2 0)))
  noErr : hs.err = none
  inE : wE < hs.heap.cells.length
  inG : wG < hs.heap.cells.length
  frame : ∀ r, r ≠ wE → r ≠ wG → hs.heap.read r = h1.read r
  len : hs.heap.cells.length = h1.cells.length

theorem stageH_sim {eL gL : List ORef} {wE wG : LRef} {h1 : Heap} (hne : wE ≠ wG) (t : Tbl) (s1 : Bool) (fuel : Nat)
    (hs : HSt) (st : St) (h : Sim eL gL wE wG h1 hs st) :
    Sim eL gL wE wG h1 (stageH t s1 wE wG fuel hs) (stage t s1 fuel st) := by
  induction fuel generalizing hs st with
  | zero => exact h
  | succ n ih =>
    cases hb : argBest t.maximize (cands t s1 st.es st.gs) with
    | none =>
      have hb' : argBest t.maximize (cands t s1 hs.es hs.gs) = none := by rw [h.es, h.gs]; exact hb
      rw [stage_succ_none hb, stageH_succ_none hb']
      exact h
    | some c =>
      obtain ⟨i, j, s⟩ := c
      have hb' : argBest t.maximize (cands t s1 hs.es hs.gs) = some (i, j, s) := by rw [h.es, h.gs]; exact hb
      obtain ⟨hi, hj, _⟩ := pick_spec hb
      have hp1 : hs.heap.pop wE (hs.es.idxOf i) = some (eL.getD i 0,
          hs.heap.write wE ((st.es.erase i).map (fun i => eL.getD i 0))) := by
        rw [h.es]; exact pop_sim h.rdE hi
      have hrdG : (hs.heap.write wE ((st.es.erase i).map (fun i => eL.getD i 0))).read wG =
          st.gs.map (fun j => gL.getD j 0) := by
        rw [read_write_ne (Ne.symm hne)]; exact h.rdG
      have hp2 : (hs.heap.write wE ((st.es.erase i).map (fun i => eL.getD i 0))).pop wG (hs.gs.idxOf j) =
          some (gL.getD j 0, (hs.heap.write wE ((st.es.erase i).map (fun i => eL.getD i 0))).write wG
            ((st.gs.erase j).map (fun j => gL.getD j 0))) := by
        rw [h.gs]; exact pop_sim hrdG hj
      rw [stage_succ_some hb, stageH_succ_some hb' hp1 hp2]
      apply ih
      constructor
      · show hs.es.eraseIdx (hs.es.idxOf i) = st.es.erase i
        rw [h.es]; exact eraseIdx_idxOf hi
      · show hs.gs.eraseIdx (hs.gs.idxOf j) = st.gs.erase j
        rw [h.gs]; exact eraseIdx_idxOf hj
      · show ((hs.heap.write wE _).write wG _).read wE = _
        rw [read_write_ne hne, read_write_same h.inE]
      · show ((hs.heap.write wE _).write wG _).read wG = _
        rw [read_write_same (by rw [write_length]; exact h.inG)]
      · show hs.results ++ [_] = _
        rw [h.res]; simp
      · exact h.noErr
      · show wE < ((hs.heap.write wE _).write wG _).cells.length
        rw [write_length, write_length]; exact h.inE
      · show wG < ((hs.heap.write wE _).write wG _).cells.length
        rw [write_length, write_length]; exact h.inG
      · intro r h1' h2'
        show ((hs.heap.write wE _).write wG _).read r = _
        rw [read_write_ne h2', read_write_ne h1']
        exact h.frame r h1' h2'
      · show ((hs.heap.write wE _).write wG _).cells.length = _
        rw [write_length, write_length]; exact h.len

/-! ## the whole call -/

theorem sceneOf_ests_length (w : World) (eL gL : List ORef) : (sceneOf w eL gL).ests.length = eL.length := by
  simp [sceneOf]

theorem sceneOf_gts_length (w : World) (eL gL : List ORef) : (sceneOf w eL gL).gts.length = gL.length := by
  simp [sceneOf]

/-- the state reached by the two loops of the code (with the copies), and the facts about it -/
theorem loops_sim (c : Cfg) (w : World) (h : Heap) (eL gL : List ORef) :
    let t := mkTbl c (sceneOf w eL gL)
    let a1 := h.alloc eL
    let a2 := a1.1.alloc gL
    let s0 : HSt := { heap := a2.1, es := List.range eL.length, gs := List.range gL.length, results := [], err := none }
    let s1 := stageH t true a1.2 a2.2 eL.length s0
    let s2 := stageH t false a1.2 a2.2 s1.es.length s1
    s1.err = none ∧ Sim eL gL a1.2 a2.2 a2.1 s2 (matchAll t eL.length gL.length) := by
  intro t a1 a2 s0 s1 s2
  have hne : a1.2 ≠ a2.2 := by
    show h.cells.length ≠ (h.alloc eL).1.cells.length
    rw [alloc_length]; omega
  have hlen2 : a2.1.cells.length = h.cells.length + 2 := by
    show ((h.alloc eL).1.alloc gL).1.cells.length = _
    rw [alloc_length, alloc_length]
  have h0 : Sim eL gL a1.2 a2.2 a2.1 s0 { es := List.range eL.length, gs := List.range gL.length, pairs := [] } := by
    constructor
    · rfl
    · rfl
    · show ((h.alloc eL).1.alloc gL).1.read (h.alloc eL).2 = _
      have hlt : (h.alloc eL).2 < (h.alloc eL).1.cells.length := by
        rw [alloc_length]; exact Nat.lt_succ_self _
      rw [read_alloc_old hlt, read_alloc_new, map_getD_range]
    · show ((h.alloc eL).1.alloc gL).1.read ((h.alloc eL).1.alloc gL).2 = _
      rw [read_alloc_new, map_getD_range]
    · rfl
    · rfl
    · show h.cells.length < a2.1.cells.length
      rw [hlen2]; omega
    · show (h.alloc eL).1.cells.length < a2.1.cells.length
      rw [hlen2, alloc_length]; omega
    · intro r _ _; rfl
    · rfl
  have h1 := stageH_sim hne t true eL.length s0 _ h0
  have h2 := stageH_sim hne t false s1.es.length s1 _ h1
  refine ⟨h1.noErr, ?_⟩
  have : s1.es.length =
      (stage t true eL.length { es := List.range eL.length, gs := List.range gL.length, pairs := [] }).es.length := by
    rw [h1.es]
  have hm : matchAll t eL.length gL.length =
      stage t false
        (stage t true eL.length { es := List.range eL.length, gs := List.range gL.length, pairs := [] }).es.length
        (stage t true eL.length { es := List.range eL.length, gs := List.range gL.length, pairs := [] }) := by
    simp [matchAll, matchFrom]
  rw [hm, ← this]
  exact h2

/-- what `runH true` computes in the general branch, in terms of the final state of the loops -/
theorem runH_general {c : Cfg} {w : World} {h : Heap} {rE rG : LRef} (hE : (h.read rE).isEmpty = false)
    (hG : (h.read rG).isEmpty = false) (hT : tableError c (sceneOf w (h.read rE) (h.read rG)) = none) :
    ∃ s2 : HSt, Sim (h.read rE) (h.read rG) (h.alloc (h.read rE)).2 ((h.alloc (h.read rE)).1.alloc (h.read rG)).2
        ((h.alloc (h.read rE)).1.alloc (h.read rG)).1 s2
        (matchAll (mkTbl c (sceneOf w (h.read rE) (h.read rG))) (h.read rE).length (h.read rG).length) ∧
      runH true c w h rE rG =
        (.ok (s2.results ++ (if c.fpValidation then [] else
          (s2.heap.read (h.alloc (h.read rE)).2).map fun o => (o, none))), s2.heap) := by
  obtain ⟨he1, hsim⟩ := loops_sim c w h (h.read rE) (h.read rG)
  refine ⟨_, hsim, ?_⟩
  unfold runH
  simp only [hE, hG, hT, if_true, Bool.false_eq_true, if_false, he1, Option.isSome_none, hsim.noErr]

/-- **Frame condition.** The call changes no list that existed before it: every address of the original heap reads the
same afterwards (in particular the caller's two lists). -/
theorem runH_frame (c : Cfg) (w : World) (h : Heap) (rE rG : LRef) :
    ∀ r : Nat, r < h.cells.length → (runH true c w h rE rG).2.read r = h.read r := by
  intro r hr
  cases hE : (h.read rE).isEmpty with
  | true => simp [runH, hE]
  | false =>
    cases hG : (h.read rG).isEmpty with
    | true => simp [runH, hE, hG]
    | false =>
      cases hT : tableError c (sceneOf w (h.read rE) (h.read rG)) with
      | some e => simp [runH, hE, hG, hT]
      | none =>
        obtain ⟨s2, hsim, hrun⟩ := runH_general hE hG hT
        rw [hrun]
        show s2.heap.read r = h.read r
        rw [hsim.frame r (Nat.ne_of_lt (by rw [alloc_ref]; exact hr))
          (Nat.ne_of_lt (by rw [alloc_ref, alloc_length]; omega))]
        have hr1 : r < (h.alloc (h.read rE)).1.cells.length := by rw [alloc_length]; omega
        rw [read_alloc_old hr1, read_alloc_old hr]

/-- **Refinement.** The results of the heap-level call are the results of the index-level model, each index read as the
object at that position of the caller's list; exceptions agree. -/
theorem runH_refines (c : Cfg) (w : World) (h : Heap) (rE rG : LRef) :
    (runH true c w h rE rG).1 =
      (getObjectResults c (sceneOf w (h.read rE) (h.read rG))).map
        (fun rs => rs.map (deref (h.read rE) (h.read rG))) := by
  cases hE : (h.read rE).isEmpty with
  | true =>
    have : (sceneOf w (h.read rE) (h.read rG)).ests.isEmpty = true := by
      simpa [sceneOf] using hE
    simp [runH, hE, getObjectResults, this, Except.map]
  | false =>
    have hE' : (sceneOf w (h.read rE) (h.read rG)).ests.isEmpty = false := by
      simpa [sceneOf] using hE
    cases hG : (h.read rG).isEmpty with
    | true =>
      have hG' : (sceneOf w (h.read rE) (h.read rG)).gts.isEmpty = true := by
        simpa [sceneOf] using hG
      simp only [runH, hE, hG, getObjectResults, hE', hG', Except.map, if_true, Bool.false_eq_true, if_false]
      congr 1
      cases c.fpValidation
      · simp only [Bool.false_eq_true, if_false, fpResults, List.map_map, sceneOf_ests_length]
        conv => lhs; rw [← map_getD_range (h.read rE)]
        simp [deref, Function.comp_def]
      · simp
    | false =>
      have hG' : (sceneOf w (h.read rE) (h.read rG)).gts.isEmpty = false := by
        simpa [sceneOf] using hG
      cases hT : tableError c (sceneOf w (h.read rE) (h.read rG)) with
      | some e => simp [runH, hE, hG, hT, getObjectResults, hE', hG', Except.map]
      | none =>
        obtain ⟨s2, hsim, hrun⟩ := runH_general hE hG hT
        rw [hrun]
        simp only [getObjectResults, hE', hG', hT, Except.map, Bool.false_eq_true, if_false,
          sceneOf_ests_length, sceneOf_gts_length]
        congr 1
        rw [hsim.res, hsim.rdE]
        cases c.fpValidation <;>
          simp [pairResults, fpResults, deref, Function.comp_def]

end PEval.MatchHeap
