import PEval.Lemmas.ClassificationDT
/-!
# C11: relabelling invariance of the id-based pairing (parametricity), and the bridge to the index form

The model's pairing (`pairByIdG` / `pairTlrG`, i.e. `pairById` / `pairTlr` with their tests as parameters) looks at the
objects only through (i) the tests it is given, (ii) identity (`∈`, `erase`) and (iii) `uuid is None`.  Hence:

* `pairByIdG_sim` / `pairTlrG_sim` (any list lengths): if `fE`, `fG` rename the estimates / ground truths injectively on
  the input lists, preserve `uuid is None`, and the tests of the renamed run answer on the renamed objects what the tests of
  the original run answer on the originals, then the renamed run returns the renamed results (or the same exception).
  With `fE = fG = id` this is "the result depends on the tests only through their values on the input objects".
* `objectResults_eq_modelOnIndex` (any list lengths): for pairwise distinct objects with non-null uuids, the model's
  `objectResults` written as index pairs (`encodeC`: positions in the input lists) is `modelOnIndex` — the model run on
  index objects — at EVERY valuation that answers the tests as the objects do (`Induces`).
* `valC` is such a valuation for at most two estimates and two ground truths (`valC_induces`; the atom numbering of the
  tables has room for 2 × 2), and `skel_eq_model_all` lifts the exhaustive check `skel_eq_model_on_index` from the
  enumerated valuations to ALL valuations (`eval_congr`: a tree reads a valuation only at the atoms it asks).

Core Lean only; does not import `PEval.Gen.*`, so Lake caches it.
-/
namespace PEval.ClassificationDT
open PEval PEval.DT PEval.Classification

/-! ## injective renamings commute with `∈` and `erase` -/

def InjOn (f : Obj → Obj) (l : List Obj) : Prop := ∀ a ∈ l, ∀ b ∈ l, f a = f b → a = b

theorem mem_map_injOn {f : Obj → Obj} {l : List Obj} (h : InjOn f l) {a : Obj} (ha : a ∈ l) {l' : List Obj}
    (hl' : l' ⊆ l) : f a ∈ l'.map f ↔ a ∈ l' := by
  constructor
  · intro hm
    obtain ⟨b, hb, hfb⟩ := List.mem_map.1 hm
    have : b = a := h b (hl' hb) a ha hfb
    exact this ▸ hb
  · exact List.mem_map_of_mem

theorem erase_map_injOn {f : Obj → Obj} {l : List Obj} (h : InjOn f l) {a : Obj} (ha : a ∈ l) :
    ∀ {l' : List Obj}, l' ⊆ l → (l'.map f).erase (f a) = (l'.erase a).map f := by
  intro l'
  induction l' with
  | nil => intro _; rfl
  | cons x xs ih =>
    intro hl'
    have hx : x ∈ l := hl' (by simp)
    have hxs : xs ⊆ l := fun y hy => hl' (by simp [hy])
    simp only [List.map_cons, List.erase_cons]
    by_cases e : x = a
    · subst e; simp
    · have e' : ¬ f x = f a := fun hf => e (h x hx a ha hf)
      simp [e, e', ih hxs]

/-! ## the simulation -/

def mapSt (fE fG : Obj → Obj) (s : St) : St :=
  ⟨s.res.map fun p => (fE p.1, fG p.2), s.es.map fE, s.gs.map fG⟩

def mapE (fE fG : Obj → Obj) : Except Err St → Except Err St
  | .ok s => .ok (mapSt fE fG s)
  | .error x => .error x

def mapRes (fE fG : Obj → Obj) (r : Classification.Res) : Classification.Res := ⟨fE r.est, r.gt.map fG⟩

def mapOut (fE fG : Obj → Obj) : Except Err (List Classification.Res) → Except Err (List Classification.Res)
  | .ok rs => .ok (rs.map (mapRes fE fG))
  | .error x => .error x

/-- the working copies only ever hold input objects -/
def Inv (E G : List Obj) (s : St) : Prop := s.es ⊆ E ∧ s.gs ⊆ G

/-- a renaming under which the tests `c` (original) and `c'` (renamed) correspond -/
structure Renaming (fE fG : Obj → Obj) (E G : List Obj) (c c' : Obj → Obj → Bool) : Prop where
  injE : InjOn fE E
  injG : InjOn fG G
  test : ∀ e ∈ E, ∀ g ∈ G, c' (fE e) (fG g) = c e g
  null : ∀ e ∈ E, ∀ g ∈ G, nullUuid (fE e) (fG g) = nullUuid e g

/-- what a loop body must satisfy for the loops to commute with the renaming -/
def StepSim (fE fG : Obj → Obj) (E G : List Obj) (step step' : Obj → Obj → St → Except Err St) : Prop :=
  ∀ e ∈ E, ∀ g ∈ G, ∀ s, Inv E G s →
    step' (fE e) (fG g) (mapSt fE fG s) = mapE fE fG (step e g s) ∧ ∀ s', step e g s = .ok s' → Inv E G s'

theorem take_sim {fE fG : Obj → Obj} {E G : List Obj} {c c' : Obj → Obj → Bool} (R : Renaming fE fG E G c c')
    {e g : Obj} (he : e ∈ E) (hg : g ∈ G) {s : St} (hs : Inv E G s) :
    take (fE e) (fG g) (mapSt fE fG s) = mapSt fE fG (take e g s) ∧ Inv E G (take e g s) := by
  constructor
  · simp only [take, mapSt, List.map_append, List.map_cons, List.map_nil,
      erase_map_injOn R.injE he hs.1, erase_map_injOn R.injG hg hs.2]
  · exact ⟨fun x hx => hs.1 (List.erase_subset hx), fun x hx => hs.2 (List.erase_subset hx)⟩

theorem stepU_sim {fE fG : Obj → Obj} {E G : List Obj} {c c' : Obj → Obj → Bool} (R : Renaming fE fG E G c c') :
    StepSim fE fG E G (stepU c) (stepU c') := by
  intro e he g hg s hs
  have hme : fE e ∈ (mapSt fE fG s).es ↔ e ∈ s.es := mem_map_injOn R.injE he hs.1
  have hmg : fG g ∈ (mapSt fE fG s).gs ↔ g ∈ s.gs := mem_map_injOn R.injG hg hs.2
  obtain ⟨ht, hi⟩ := take_sim R he hg hs
  unfold stepU
  rw [R.null e he g hg, R.test e he g hg]
  by_cases h1 : nullUuid e g = true
  · simp [h1, mapE]
  · by_cases h2 : c e g = true
    · by_cases h3 : e ∈ s.es
      · by_cases h4 : g ∈ s.gs
        · have h3' := hme.2 h3
          have h4' := hmg.2 h4
          simp only [h1, h2, h3, h4, h3', h4', if_true, if_false, Bool.false_eq_true, ht, mapE]
          refine ⟨trivial, ?_⟩
          intro s' hs'
          cases hs'
          exact hi
        · have h3' := hme.2 h3
          have h4' : ¬ fG g ∈ (mapSt fE fG s).gs := fun h => h4 (hmg.1 h)
          simp [h1, h2, h3, h4, h3', h4', mapE]
      · have h3' : ¬ fE e ∈ (mapSt fE fG s).es := fun h => h3 (hme.1 h)
        simp [h1, h2, h3, h3', mapE]
    · simp only [h1, h2, if_false, Bool.false_eq_true, mapE]
      refine ⟨trivial, ?_⟩
      intro s' hs'
      cases hs'
      exact hs

theorem stepG_sim {fE fG : Obj → Obj} {E G : List Obj} {c c' : Obj → Obj → Bool} (R : Renaming fE fG E G c c') :
    StepSim fE fG E G (stepG c) (stepG c') := by
  intro e he g hg s hs
  have hme : fE e ∈ (mapSt fE fG s).es ↔ e ∈ s.es := mem_map_injOn R.injE he hs.1
  have hmg : fG g ∈ (mapSt fE fG s).gs ↔ g ∈ s.gs := mem_map_injOn R.injG hg hs.2
  obtain ⟨ht, hi⟩ := take_sim R he hg hs
  unfold stepG
  rw [R.null e he g hg, R.test e he g hg]
  have hd1 : decide (fE e ∈ (mapSt fE fG s).es) = decide (e ∈ s.es) := by simp only [hme]
  have hd2 : decide (fG g ∈ (mapSt fE fG s).gs) = decide (g ∈ s.gs) := by simp only [hmg]
  rw [hd1, hd2]
  by_cases h1 : nullUuid e g = true
  · simp [h1, mapE]
  · by_cases h2 : (c e g && decide (e ∈ s.es) && decide (g ∈ s.gs)) = true
    · simp only [h1, h2, if_true, if_false, Bool.false_eq_true, ht, mapE]
      refine ⟨trivial, ?_⟩
      intro s' hs'
      cases hs'
      exact hi
    · simp only [h1, h2, if_false, Bool.false_eq_true, mapE]
      refine ⟨trivial, ?_⟩
      intro s' hs'
      cases hs'
      exact hs

theorem inner_sim {fE fG : Obj → Obj} {E G : List Obj} {step step' : Obj → Obj → St → Except Err St}
    (H : StepSim fE fG E G step step') {e : Obj} (he : e ∈ E) :
    ∀ (gl : List Obj), gl ⊆ G → ∀ s, Inv E G s →
      inner step' (fE e) (gl.map fG) (mapSt fE fG s) = mapE fE fG (inner step e gl s) ∧
      ∀ s', inner step e gl s = .ok s' → Inv E G s' := by
  intro gl
  induction gl with
  | nil =>
    intro _ s hs
    refine ⟨rfl, ?_⟩
    intro s' h
    simp only [inner] at h
    cases h
    exact hs
  | cons g gl ih =>
    intro hgl s hs
    have hg : g ∈ G := hgl (by simp)
    have hgl' : gl ⊆ G := fun x hx => hgl (by simp [hx])
    obtain ⟨h1, h2⟩ := H e he g hg s hs
    simp only [List.map_cons, inner, h1]
    cases hst : step e g s with
    | error x => simp [mapE]
    | ok s1 =>
      simp only [mapE]
      exact ih hgl' s1 (h2 s1 hst)

theorem outer_sim {fE fG : Obj → Obj} {E G : List Obj} {step step' : Obj → Obj → St → Except Err St}
    (H : StepSim fE fG E G step step') {gl : List Obj} (hgl : gl ⊆ G) :
    ∀ (el : List Obj), el ⊆ E → ∀ s, Inv E G s →
      outer step' (gl.map fG) (el.map fE) (mapSt fE fG s) = mapE fE fG (outer step gl el s) ∧
      ∀ s', outer step gl el s = .ok s' → Inv E G s' := by
  intro el
  induction el with
  | nil =>
    intro _ s hs
    refine ⟨rfl, ?_⟩
    intro s' h
    simp only [outer] at h
    cases h
    exact hs
  | cons e el ih =>
    intro hel s hs
    have he : e ∈ E := hel (by simp)
    have hel' : el ⊆ E := fun x hx => hel (by simp [hx])
    obtain ⟨h1, h2⟩ := inner_sim H he gl hgl s hs
    simp only [List.map_cons, outer, h1]
    cases hst : inner step e gl s with
    | error x => simp [mapE]
    | ok s1 =>
      simp only [mapE]
      exact ih hel' s1 (h2 s1 hst)

theorem paired_map (fE fG : Obj → Obj) (ps : List (Obj × Obj)) :
    paired (ps.map fun p => (fE p.1, fG p.2)) = (paired ps).map (mapRes fE fG) := by
  simp [paired, mapRes, List.map_map, Function.comp]

theorem fpResults_map (fE fG : Obj → Obj) (es : List Obj) :
    fpResults (es.map fE) = (fpResults es).map (mapRes fE fG) := by
  simp [fpResults, mapRes, List.map_map, Function.comp]

theorem any_map_congr {fE : Obj → Obj} {E : List Obj} {tl tl' : Obj → Bool} (htl : ∀ e ∈ E, tl' (fE e) = tl e) :
    ∀ {l : List Obj}, l ⊆ E → (l.map fE).any tl' = l.any tl := by
  intro l
  induction l with
  | nil => intro _; rfl
  | cons x xs ih =>
    intro h
    simp only [List.map_cons, List.any_cons, htl x (h (by simp)), ih fun y hy => h (by simp [hy])]

/-- RELABELLING INVARIANCE of `_get_object_results_with_id` (any lengths): a renaming that preserves the answers of the
pairing test, of the traffic-light-frame test and of `uuid is None` renames the results -/
theorem pairByIdG_sim {fE fG : Obj → Obj} {E G : List Obj} {c c' : Obj → Obj → Bool} (R : Renaming fE fG E G c c')
    {tl tl' : Obj → Bool} (htl : ∀ e ∈ E, tl' (fE e) = tl e) :
    pairByIdG c' tl' (E.map fE) (G.map fG) = mapOut fE fG (pairByIdG c tl E G) := by
  unfold pairByIdG
  have hinit : initSt (E.map fE) (G.map fG) = mapSt fE fG (initSt E G) := rfl
  have hinv : Inv E G (initSt E G) := ⟨fun _ h => h, fun _ h => h⟩
  obtain ⟨h1, h2⟩ := outer_sim (stepU_sim R) (fun _ h => h) E (fun _ h => h) (initSt E G) hinv
  rw [hinit, h1]
  cases hst : outer (stepU c) G E (initSt E G) with
  | error x => rfl
  | ok s =>
    have hs := h2 s hst
    simp only [mapE, mapOut, mapSt, List.map_append, paired_map, List.isEmpty_map, any_map_congr htl hs.1]
    congr 2
    split
    · exact fpResults_map fE fG s.es
    · rfl

/-- RELABELLING INVARIANCE of `_get_object_results_for_tlr` (any lengths), both stages -/
theorem pairTlrG_sim {fE fG : Obj → Obj} {E G : List Obj} {c1 c1' c2 c2' : Obj → Obj → Bool}
    (R1 : Renaming fE fG E G c1 c1') (R2 : Renaming fE fG E G c2 c2') :
    pairTlrG c1' c2' (E.map fE) (G.map fG) = mapOut fE fG (pairTlrG c1 c2 E G) := by
  unfold pairTlrG
  have hinit : initSt (E.map fE) (G.map fG) = mapSt fE fG (initSt E G) := rfl
  have hinv : Inv E G (initSt E G) := ⟨fun _ h => h, fun _ h => h⟩
  obtain ⟨h1, h2⟩ := outer_sim (stepG_sim R1) (fun _ h => h) E (fun _ h => h) (initSt E G) hinv
  rw [hinit, h1]
  cases hst : outer (stepG c1) G E (initSt E G) with
  | error x => rfl
  | ok s1 =>
    have hs1 := h2 s1 hst
    obtain ⟨h3, _⟩ := outer_sim (stepG_sim R2) hs1.2 s1.es hs1.1 s1 hs1
    simp only [mapE]
    have e1 : (mapSt fE fG s1).gs = s1.gs.map fG := rfl
    have e2 : (mapSt fE fG s1).es = s1.es.map fE := rfl
    rw [e1, e2, h3]
    cases hst2 : outer (stepG c2) s1.gs s1.es s1 with
    | error x => rfl
    | ok s2 => simp only [mapE, mapOut, mapSt, paired_map]

/-! ## from concrete objects to index objects -/

/-- the valuation `v` answers the atoms of the tables as the objects do -/
structure Induces (v : Val) (ests gts : List Obj) : Prop where
  uuid : ∀ i j e g, ests[i]? = some e → gts[j]? = some g → v.b (aUuid i j) = decide (e.uuid = g.uuid)
  frame : ∀ i j e g, ests[i]? = some e → gts[j]? = some g → v.b (aFrame i j) = decide (e.frame = g.frame)
  lab : ∀ i j e g, ests[i]? = some e → gts[j]? = some g → v.b (aLab i j) = decide (e.label = g.label)
  tl : ∀ i e, ests[i]? = some e → v.b (aTl i) = (e.frame == camTrafficLight)

/-- a result of the model as the tables write it: positions in the input lists -/
def encodeC (ests gts : List Obj) : Except Err (List Classification.Res) → DT.Res
  | .error e => if e = "ValueError" then .raise 6 else if e = "RuntimeError" then .raise 7 else .raise 0
  | .ok rs => .other (codeOf (rs.map fun r => digitOf (ests.idxOf r.est) (r.gt.map fun g => gts.idxOf g)))

/-- which table: 0 generic, 1 / 2 traffic lights without / with `uuid_matching_first` (dispatch on the first estimate) -/
def fOf (uf : Bool) : List Obj → Nat
  | [] => 0
  | e0 :: _ => if e0.label.tl then (if uf then 2 else 1) else 0

def toE (ests : List Obj) (e : Obj) : Obj := idxE (ests.idxOf e)
def toG (gts : List Obj) (g : Obj) : Obj := idxG (gts.idxOf g)

theorem getElem?_idxOf_of_mem {l : List Obj} {a : Obj} (h : a ∈ l) : l[l.idxOf a]? = some a := by
  have hlt : l.idxOf a < l.length := List.idxOf_lt_length_iff.2 h
  rw [List.getElem?_eq_getElem hlt, List.getElem_idxOf hlt]

theorem idxOf_injOn (l : List Obj) : ∀ a ∈ l, ∀ b ∈ l, l.idxOf a = l.idxOf b → a = b := by
  intro a ha b hb h
  have h1 := getElem?_idxOf_of_mem ha
  have h2 := getElem?_idxOf_of_mem hb
  rw [h, h2] at h1
  exact (Option.some.inj h1).symm

theorem map_idxOf_nodup {l : List Obj} (h : l.Nodup) : l.map (fun a => l.idxOf a) = List.range l.length := by
  apply List.ext_getElem
  · simp
  · intro i h1 h2
    simp only [List.length_map] at h1
    simp [List.Nodup.idxOf_getElem h i h1]

theorem map_toE {ests : List Obj} (h : ests.Nodup) : (List.range ests.length).map idxE = ests.map (toE ests) := by
  rw [← map_idxOf_nodup h, List.map_map]
  rfl

theorem map_toG {gts : List Obj} (h : gts.Nodup) : (List.range gts.length).map idxG = gts.map (toG gts) := by
  rw [← map_idxOf_nodup h, List.map_map]
  rfl

theorem toE_injOn (ests : List Obj) : InjOn (toE ests) ests := by
  intro a ha b hb h
  apply idxOf_injOn ests a ha b hb
  have := congrArg Obj.id h
  simpa [toE, idxE] using this

theorem toG_injOn (gts : List Obj) : InjOn (toG gts) gts := by
  intro a ha b hb h
  apply idxOf_injOn gts a ha b hb
  have := congrArg Obj.id h
  simpa [toG, idxG] using this

theorem encodeR_mapOut (ests gts : List Obj) (r : Except Err (List Classification.Res)) :
    encodeR (mapOut (toE ests) (toG gts) r) = encodeC ests gts r := by
  cases r with
  | error x => rfl
  | ok rs =>
    simp only [mapOut, encodeR, encodeC, List.map_map]
    congr 2
    apply List.map_congr_left
    intro r _
    simp only [Function.comp, mapRes, toE, idxE, Option.map_map]
    congr 1
    cases r.gt <;> simp [toG, idxG]

theorem nullUuid_of_nonnull {ests gts : List Obj} (hn : ∀ o ∈ ests ++ gts, o.uuid ≠ none) :
    ∀ e ∈ ests, ∀ g ∈ gts, nullUuid (toE ests e) (toG gts g) = nullUuid e g := by
  intro e he g hg
  have h1 := hn e (by simp [he])
  have h2 := hn g (by simp [hg])
  unfold nullUuid
  cases hu : e.uuid with
  | none => exact absurd hu h1
  | some a =>
    cases hv : g.uuid with
    | none => exact absurd hv h2
    | some b => simp [toE, toG, idxE, idxG]

theorem sameKey_renaming {v : Val} {ests gts : List Obj} (hv : Induces v ests gts)
    (hn : ∀ o ∈ ests ++ gts, o.uuid ≠ none) : Renaming (toE ests) (toG gts) ests gts sameKey (sameKeyV v) where
  injE := toE_injOn ests
  injG := toG_injOn gts
  null := nullUuid_of_nonnull hn
  test := by
    intro e he g hg
    have h1 := getElem?_idxOf_of_mem he
    have h2 := getElem?_idxOf_of_mem hg
    simp only [sameKeyV, sameKey, toE, toG, idxE, idxG, Nat.add_sub_cancel_left,
      hv.uuid _ _ e g h1 h2, hv.frame _ _ e g h1 h2]

theorem cond1_renaming {v : Val} {ests gts : List Obj} (hv : Induces v ests gts)
    (hn : ∀ o ∈ ests ++ gts, o.uuid ≠ none) (uf : Bool) :
    Renaming (toE ests) (toG gts) ests gts (cond1 uf) (cond1V uf v) where
  injE := toE_injOn ests
  injG := toG_injOn gts
  null := nullUuid_of_nonnull hn
  test := by
    intro e he g hg
    have h1 := getElem?_idxOf_of_mem he
    have h2 := getElem?_idxOf_of_mem hg
    simp only [cond1V, cond1, toE, toG, idxE, idxG, Nat.add_sub_cancel_left,
      hv.uuid _ _ e g h1 h2, hv.frame _ _ e g h1 h2, hv.lab _ _ e g h1 h2]

theorem fpResults_encode (ests gts : List Obj) (hE : ests.Nodup) :
    encodeR (.ok (fpResults ((List.range ests.length).map idxE))) = encodeC ests gts (.ok (fpResults ests)) := by
  rw [map_toE hE, fpResults_map (toE ests) (toG gts)]
  exact encodeR_mapOut ests gts (.ok (fpResults ests))

/-- **THE BRIDGE of C11, any lengths**: for pairwise distinct estimates, pairwise distinct ground truths and non-null uuids,
the model's `get_object_results` (not FP validation), written as index pairs, is the model's algorithm run on index
objects at ANY valuation that answers the equality tests as the objects do. -/
theorem objectResults_eq_modelOnIndex (uf : Bool) (ests gts : List Obj) (hE : ests.Nodup) (hG : gts.Nodup)
    (hn : ∀ o ∈ ests ++ gts, o.uuid ≠ none) (v : Val) (hv : Induces v ests gts) :
    modelOnIndex (fOf uf ests) ests.length gts.length v = encodeC ests gts (objectResults false uf ests gts) := by
  unfold modelOnIndex
  cases ests with
  | nil => rfl
  | cons e0 es =>
    cases gts with
    | nil =>
      have := fpResults_encode (e0 :: es) [] hE
      simpa [objectResults, List.range_succ_eq_map] using this
    | cons g0 gs =>
      have hmE := map_toE hE
      have hmG := map_toG hG
      simp only [] at hmE hmG ⊢
      rw [hmE, hmG]
      simp only [List.map_cons, objectResults, fOf]
      have hcons1 : toE (e0 :: es) e0 :: es.map (toE (e0 :: es)) = (e0 :: es).map (toE (e0 :: es)) := rfl
      have hcons2 : toG (g0 :: gs) g0 :: gs.map (toG (g0 :: gs)) = (g0 :: gs).map (toG (g0 :: gs)) := rfl
      rw [hcons1, hcons2]
      by_cases htl : e0.label.tl = true
      · have hR1 := cond1_renaming hv hn uf
        have hR2 := sameKey_renaming hv hn
        have hf : (if uf = true then 2 else 1) ≠ 0 := by cases uf <;> simp
        have hf2 : ((if uf = true then 2 else 1) == 2) = uf := by cases uf <;> rfl
        simp only [htl, if_true, hf, if_false, hf2]
        rw [pairTlrG_sim hR1 hR2, encodeR_mapOut, pairTlr_eq]
      · have hR := sameKey_renaming hv hn
        have htlV : ∀ e ∈ e0 :: es, tlV v (toE (e0 :: es) e) = (e.frame == camTrafficLight) := by
          intro e he
          simp only [tlV, toE, idxE]
          exact hv.tl _ e (getElem?_idxOf_of_mem he)
        simp only [htl, Bool.false_eq_true, if_false, if_true]
        rw [pairByIdG_sim hR htlV, encodeR_mapOut, pairById_eq]

/-! ## the valuation of a concrete input of at most 2 × 2 objects -/

/-- the valuation the equality tests of the objects induce on the 14 atoms of the tables -/
def valC (ests gts : List Obj) : Val where
  b := fun a =>
    if a < 12 then
      match ests[(a % 4) / 2]?, gts[a % 2]? with
      | some e, some g =>
        if a < 4 then decide (e.uuid = g.uuid) else if a < 8 then decide (e.frame = g.frame) else decide (e.label = g.label)
      | _, _ => false
    else match ests[a - 12]? with
      | some e => e.frame == camTrafficLight
      | none => false
  c := fun _ => .eq

theorem valC_induces (ests gts : List Obj) (hn : ests.length ≤ 2) (hm : gts.length ≤ 2) : Induces (valC ests gts) ests gts := by
  have hlt : ∀ {l : List Obj} {i : Nat} {x : Obj}, l.length ≤ 2 → l[i]? = some x → i < 2 := by
    intro l i x hl h
    have := (List.getElem?_eq_some_iff.1 h).1
    omega
  constructor
  · intro i j e g he hg
    have hi := hlt hn he
    have hj := hlt hm hg
    have h1 : (2 * i + j) % 4 / 2 = i := by omega
    have h2 : (2 * i + j) % 2 = j := by omega
    have h3 : 2 * i + j < 4 := by omega
    have h4 : 2 * i + j < 12 := by omega
    simp only [valC, aUuid, h1, h2, h3, h4, he, hg, if_true]
  · intro i j e g he hg
    have hi := hlt hn he
    have hj := hlt hm hg
    have h1 : (4 + 2 * i + j) % 4 / 2 = i := by omega
    have h2 : (4 + 2 * i + j) % 2 = j := by omega
    have h3 : ¬ 4 + 2 * i + j < 4 := by omega
    have h4 : 4 + 2 * i + j < 12 := by omega
    have h5 : 4 + 2 * i + j < 8 := by omega
    simp only [valC, aFrame, h1, h2, h3, h4, h5, he, hg, if_true, if_false]
  · intro i j e g he hg
    have hi := hlt hn he
    have hj := hlt hm hg
    have h1 : (8 + 2 * i + j) % 4 / 2 = i := by omega
    have h2 : (8 + 2 * i + j) % 2 = j := by omega
    have h3 : ¬ 8 + 2 * i + j < 4 := by omega
    have h4 : 8 + 2 * i + j < 12 := by omega
    have h5 : ¬ 8 + 2 * i + j < 8 := by omega
    simp only [valC, aLab, h1, h2, h3, h4, h5, he, hg, if_true, if_false]
  · intro i e he
    have h1 : ¬ 12 + i < 12 := by omega
    have h2 : 12 + i - 12 = i := by omega
    simp only [valC, aTl, h1, h2, he, if_false]

/-! ## a tree reads a valuation only at the atoms it asks -/

/-- all Boolean atoms of the tree are in `as`; no order atom -/
def atomsIn (as : List Nat) : DTree → Bool
  | .leaf _ => true
  | .bnode a n y => as.contains a && atomsIn as n && atomsIn as y
  | .cnode _ _ _ _ => false

theorem eval_congr {as : List Nat} {v v' : Val} (h : ∀ a ∈ as, v.b a = v'.b a) :
    ∀ t : DTree, atomsIn as t = true → eval t v = eval t v' := by
  intro t
  induction t with
  | leaf r => intro _; rfl
  | bnode a n y ihn ihy =>
    intro ht
    simp only [atomsIn, Bool.and_eq_true, List.contains_iff_mem] at ht
    rw [eval, eval, h a ht.1.1]
    cases v'.b a
    · exact ihn ht.1.2
    · exact ihy ht.2
  | cnode a l e g _ _ _ => intro ht; simp [atomsIn] at ht

theorem lookup_zip_map (f : Nat → Bool) (a : Nat) : ∀ (as : List Nat), a ∈ as → (as.zip (as.map f)).lookup a = some (f a) := by
  intro as
  induction as with
  | nil => intro h; simp at h
  | cons x xs ih =>
    intro h
    simp only [List.map_cons, List.zip_cons_cons, List.lookup_cons]
    by_cases e : a = x
    · subst e; simp
    · have : (a == x) = false := by simpa using e
      rw [this]
      simp only [List.mem_cons] at h
      rcases h with h | h
      · exact absurd h e
      · exact ih h

/-- the enumerated valuation that answers the atoms `as` as `v` does -/
theorem valOf_agrees (as : List Nat) (v : Val) : ∀ a ∈ as, (valOf as (as.map v.b)).b a = v.b a := by
  intro a ha
  simp [valOf, lookup_zip_map v.b a as ha]

theorem mem_allBits : ∀ (k : Nat) (bs : List Bool), bs.length = k → bs ∈ allBits k := by
  intro k
  induction k with
  | zero => intro bs h; simp [allBits, List.length_eq_zero_iff.1 h]
  | succ k ih =>
    intro bs h
    cases bs with
    | nil => simp at h
    | cons b bs =>
      simp only [allBits, List.mem_flatMap]
      refine ⟨bs, ih bs (by simpa using h), ?_⟩
      cases b <;> simp

/-- the atoms a skeleton asks are the shape's atoms (every function, every tabulated shape) -/
theorem skel_atomsIn : ∀ f ∈ [0, 1, 2], ∀ nm ∈ shapes, atomsIn (shapeAtoms f nm.1 nm.2) (skel f nm.1 nm.2) = true := by
  decide +kernel

theorem mem_shapeAtoms (f n m i j : Nat) (hi : i < n) (hj : j < m) :
    aUuid i j ∈ shapeAtoms f n m ∧ aFrame i j ∈ shapeAtoms f n m ∧ (f ≠ 0 → aLab i j ∈ shapeAtoms f n m) := by
  simp only [shapeAtoms, List.mem_append, List.mem_flatMap, List.mem_range]
  refine ⟨Or.inl ⟨i, hi, j, hj, by simp⟩, Or.inl ⟨i, hi, j, hj, by simp⟩, fun hf => Or.inl ⟨i, hi, j, hj, by simp [hf]⟩⟩

theorem mem_shapeAtoms_tl (n m i : Nat) (hi : i < n) : aTl i ∈ shapeAtoms 0 n m := by
  simp only [shapeAtoms, List.mem_append, if_true, List.mem_map, List.mem_range]
  exact Or.inr ⟨i, hi, rfl⟩

theorem mapOut_id (r : Except Err (List Classification.Res)) : mapOut id id r = r := by
  cases r with
  | error x => rfl
  | ok rs =>
    simp only [mapOut]
    congr 1
    have : mapRes id id = id := by
      funext r
      cases r with
      | mk e g => cases g <;> rfl
    rw [this, List.map_id]

/-- the model on index objects reads a valuation only through the answers to the shape's atoms (an instance of the
relabelling invariance with the identity renaming) -/
theorem modelOnIndex_congr (f n m : Nat) (v v' : Val) (h : ∀ a ∈ shapeAtoms f n m, v'.b a = v.b a) :
    modelOnIndex f n m v' = modelOnIndex f n m v := by
  unfold modelOnIndex
  simp only []
  have hEm : ∀ o ∈ (List.range n).map idxE, ∃ i, i < n ∧ o = idxE i := by
    intro o ho
    obtain ⟨i, hi, rfl⟩ := List.mem_map.1 ho
    exact ⟨i, List.mem_range.1 hi, rfl⟩
  have hGm : ∀ o ∈ (List.range m).map idxG, ∃ j, j < m ∧ o = idxG j := by
    intro o ho
    obtain ⟨j, hj, rfl⟩ := List.mem_map.1 ho
    exact ⟨j, List.mem_range.1 hj, rfl⟩
  generalize (List.range n).map idxE = E at hEm
  generalize (List.range m).map idxG = G at hGm
  congr 1
  cases E with
  | nil => rfl
  | cons e0 es =>
    cases G with
    | nil => rfl
    | cons g0 gs =>
      simp only []
      have key : ∀ e ∈ e0 :: es, ∀ g ∈ g0 :: gs,
          v'.b (aUuid e.id (g.id - 10)) = v.b (aUuid e.id (g.id - 10)) ∧
          v'.b (aFrame e.id (g.id - 10)) = v.b (aFrame e.id (g.id - 10)) ∧
          (f ≠ 0 → v'.b (aLab e.id (g.id - 10)) = v.b (aLab e.id (g.id - 10))) := by
        intro e he g hg
        obtain ⟨i, hi, rfl⟩ := hEm e he
        obtain ⟨j, hj, rfl⟩ := hGm g hg
        have hm := mem_shapeAtoms f n m i j hi hj
        simp only [idxE, idxG, Nat.add_sub_cancel_left]
        exact ⟨h _ hm.1, h _ hm.2.1, fun hf => h _ (hm.2.2 hf)⟩
      have hR2 : Renaming id id (e0 :: es) (g0 :: gs) (sameKeyV v) (sameKeyV v') :=
        { injE := fun a _ b _ hab => hab, injG := fun a _ b _ hab => hab, null := fun _ _ _ _ => rfl,
          test := by
            intro e he g hg
            obtain ⟨k1, k2, _⟩ := key e he g hg
            simp only [sameKeyV, id, k1, k2] }
      by_cases hf : f = 0
      · subst hf
        simp only [if_true]
        have htl : ∀ e ∈ e0 :: es, tlV v' (id e) = tlV v e := by
          intro e he
          obtain ⟨i, hi, rfl⟩ := hEm e he
          simp only [tlV, id, idxE]
          exact h _ (mem_shapeAtoms_tl n m i hi)
        have := pairByIdG_sim hR2 htl
        simpa [mapOut_id] using this
      · simp only [hf, if_false]
        have hR1 : Renaming id id (e0 :: es) (g0 :: gs) (cond1V (f == 2) v) (cond1V (f == 2) v') :=
          { injE := fun a _ b _ hab => hab, injG := fun a _ b _ hab => hab, null := fun _ _ _ _ => rfl,
            test := by
              intro e he g hg
              obtain ⟨k1, k2, k3⟩ := key e he g hg
              simp only [cond1V, id, k1, k2, k3 hf] }
        have := pairTlrG_sim hR1 hR2
        simpa [mapOut_id] using this

/-- `skel_eq_model_on_index` lifted from the enumerated valuations to ALL valuations: for every function and every
tabulated shape the skeleton IS the model's algorithm on index objects -/
theorem skel_eq_model_all (f : Nat) (hf : f ∈ [0, 1, 2]) (n m : Nat) (hs : (n, m) ∈ shapes) (v : Val) :
    eval (skel f n m) v = modelOnIndex f n m v := by
  have hag := valOf_agrees (shapeAtoms f n m) v
  rw [← eval_congr hag (skel f n m) (skel_atomsIn f hf (n, m) hs), ← modelOnIndex_congr f n m v _ hag]
  have h := skel_eq_model_on_index f hf (n, m) hs
  unfold skelOk at h
  rw [List.all_eq_true] at h
  exact beq_iff_eq.mp (h _ (mem_allBits _ _ (by simp)))

/-- **relabelling invariance composed with the skeleton check**: for ALL estimate / ground-truth lists of a tabulated shape
(pairwise distinct objects, non-null uuids; any uuids, frames, labels otherwise) the skeleton at the valuation of their
equality tests is the model's `get_object_results`, written as index pairs -/
theorem skel_eq_objectResults (uf : Bool) (ests gts : List Obj) (hE : ests.Nodup) (hG : gts.Nodup)
    (hn : ∀ o ∈ ests ++ gts, o.uuid ≠ none) (hs : (ests.length, gts.length) ∈ shapes) :
    eval (skel (fOf uf ests) ests.length gts.length) (valC ests gts) =
      encodeC ests gts (objectResults false uf ests gts) := by
  have hf : fOf uf ests ∈ [0, 1, 2] := by
    cases ests with
    | nil => simp [fOf]
    | cons e0 es => cases h : e0.label.tl <;> cases uf <;> simp [fOf, h]
  have hlen : ests.length ≤ 2 ∧ gts.length ≤ 2 := by
    simp only [shapes, List.mem_cons, Prod.mk.injEq, List.not_mem_nil, or_false] at hs
    omega
  rw [skel_eq_model_all _ hf _ _ hs,
    objectResults_eq_modelOnIndex uf ests gts hE hG hn _ (valC_induces ests gts hlen.1 hlen.2)]

/-- RELABELLING INVARIANCE at the level of `get_object_results` (any lengths): renaming the objects injectively, in a way
that keeps every answer the code can obtain from them (uuid / frame / label equality between an estimate and a ground
truth, `uuid is None`, "lives in `CAM_TRAFFIC_LIGHT`", traffic-light label family), renames the results -/
theorem objectResults_relabel (uf : Bool) (fE fG : Obj → Obj) (ests gts : List Obj)
    (hiE : InjOn fE ests) (hiG : InjOn fG gts)
    (hu : ∀ e ∈ ests, ∀ g ∈ gts, decide ((fE e).uuid = (fG g).uuid) = decide (e.uuid = g.uuid))
    (hfr : ∀ e ∈ ests, ∀ g ∈ gts, decide ((fE e).frame = (fG g).frame) = decide (e.frame = g.frame))
    (hl : ∀ e ∈ ests, ∀ g ∈ gts, decide ((fE e).label = (fG g).label) = decide (e.label = g.label))
    (hnull : ∀ e ∈ ests, ∀ g ∈ gts, nullUuid (fE e) (fG g) = nullUuid e g)
    (htl : ∀ e ∈ ests, ((fE e).frame == camTrafficLight) = (e.frame == camTrafficLight))
    (hfam : ∀ e ∈ ests, (fE e).label.tl = e.label.tl) :
    objectResults false uf (ests.map fE) (gts.map fG) = mapOut fE fG (objectResults false uf ests gts) := by
  cases ests with
  | nil => rfl
  | cons e0 es =>
    cases gts with
    | nil =>
      simp only [List.map_cons, List.map_nil, objectResults, Bool.false_eq_true, if_false, mapOut]
      exact congrArg Except.ok (fpResults_map fE fG (e0 :: es))
    | cons g0 gs =>
      have hR2 : Renaming fE fG (e0 :: es) (g0 :: gs) sameKey sameKey :=
        { injE := hiE, injG := hiG, null := hnull,
          test := by intro e he g hg; simp only [sameKey, hu e he g hg, hfr e he g hg] }
      have hR1 : Renaming fE fG (e0 :: es) (g0 :: gs) (cond1 uf) (cond1 uf) :=
        { injE := hiE, injG := hiG, null := hnull,
          test := by intro e he g hg; simp only [cond1, hu e he g hg, hfr e he g hg, hl e he g hg] }
      have h1 := pairByIdG_sim hR2 (tl := fun e => e.frame == camTrafficLight)
        (tl' := fun e => e.frame == camTrafficLight) htl
      have h2 := pairTlrG_sim hR1 hR2
      simp only [List.map_cons] at h1 h2
      simp only [List.map_cons, objectResults, hfam e0 (by simp), pairById_eq, pairTlr_eq, h1, h2]
      split <;> rfl

/-! ## inputs inside the quantifier of C11 induce valuations consistent with `pairForb` -/

/-- unique (uuid, camera) per side (at most 2 × 2 objects): no object agrees in uuid AND camera with both objects of the
other side, so the valuation of the input avoids every clause of `pairForb` -/
theorem valC_consistent (ests gts : List Obj) (hn : ests.length ≤ 2) (hm : gts.length ≤ 2)
    (hE : (ests.map fun o => (o.uuid, o.frame)).Nodup) (hG : (gts.map fun o => (o.uuid, o.frame)).Nodup) :
    consistent pairForb (valC ests gts) = true := by
  rcases ests with _ | ⟨e0, _ | ⟨e1, _ | ⟨e2, es⟩⟩⟩ <;> rcases gts with _ | ⟨g0, _ | ⟨g1, _ | ⟨g2, gs⟩⟩⟩ <;>
    simp [consistent, pairForb, Lit.holds, valC, aUuid, aFrame] at * <;> grind

end PEval.ClassificationDT
