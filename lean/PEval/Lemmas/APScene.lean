import PEval.Lemmas.APDict
import PEval.Lemmas.APDTMap
import PEval.Properties.C04Core
/-!
Lemmas about the scene-level part of the AP model (`frameBuckets`, `sceneBucketsAux`, `sceneBuckets`,
`sceneMap`: the model of `PerceptionEvaluationManager.get_scene_result → Map → Ap`).

* the dicts `get_scene_result` hands to `Map`, in closed form (`frameBuckets_eq`, `sceneBucketsAux_eq`);
* `Map` reads a nested per-label entry only through its concatenation (`mapLoop_congr_flatten`,
  `mapOf_congr_flatten`), a congruence finer than `mapOf_congr`;
* counting the TPs of a classification per result (`isTpRes`, `classifyAll_countTp`), which makes the TP
  count additive over the frames of a pooled list and invariant under the confidence sort, and the
  per-frame one-to-one bound summed over the frames (`countTp_frames_le`).
-/

namespace PEval.AP

/-- the object results of one frame that `divide_objects(·, T)` files under the target label `l`, in
input order (`lookup_divideObjects_target`) -/
abbrev bucket (T : List Label) (l : Label) (rs : List Res) : List Res :=
  rs.filter (fun r => bucketLabel (some T) r == some l)

/-- the number of ground truths (given by their labels) of label `l`
(`lookup_divideObjectsToNum_target`) -/
abbrev cnt (l : Label) (gl : List Label) : Nat := (gl.filter (fun k => k == l)).length

/-! ### the scene dicts in closed form -/

/-- a dict built by tabulating `f` over the key list `ts` (duplicate keys allowed) -/
theorem lookupKey_tabulate {β : Type} (f : Label → β) (l : Label) (ts : List Label) :
    lookupKey l (ts.map (fun k => (k, f k))) = if ts.contains l then .ok (f l) else .error "KeyError" := by
  induction ts with
  | nil => simp [lookupKey]
  | cons k t ih =>
    simp only [List.map_cons, lookupKey, List.contains_cons]
    by_cases hk : (k == l) = true
    · have e : k = l := by simpa using hk
      subst e
      simp
    · have : (l == k) = false := by
        have e : ¬ k = l := by simpa using hk
        simp only [beq_eq_false_iff_ne, ne_eq]
        exact fun h => e h.symm
      simp only [hk, if_false, Bool.false_eq_true, this, Bool.false_or]
      exact ih

theorem lookupKey_tabulate_mem {β : Type} (f : Label → β) {l : Label} {ts : List Label} (hl : l ∈ ts) :
    lookupKey l (ts.map (fun k => (k, f k))) = .ok (f l) := by
  have hc : ts.contains l = true := by simpa using hl
  rw [lookupKey_tabulate, hc]
  rfl

/-- per label, `get_scene_result` gathers the label's bucket of every frame (in frame order) and adds
up the label's ground-truth counts -/
theorem frameBuckets_eq {T : List Label} {l : Label} (hl : T.contains l = true) :
    ∀ frames : List (List Res × List Label),
      frameBuckets T l frames
        = .ok (frames.map (fun f => bucket T l f.1), (frames.map (fun f => cnt l f.2)).sum)
  | [] => rfl
  | fr :: rest => by
    unfold frameBuckets
    rw [lookup_divideObjects_target fr.1 hl, lookup_divideObjectsToNum_target fr.2 hl,
      frameBuckets_eq hl rest]
    rfl

theorem sceneBucketsAux_eq {T : List Label} (frames : List (List Res × List Label)) :
    ∀ ls : List Label, (∀ l ∈ ls, T.contains l = true) →
      sceneBucketsAux T frames ls
        = .ok (ls.map (fun l => (l, [] :: frames.map (fun f => bucket T l f.1))),
               ls.map (fun l => (l, (frames.map (fun f => cnt l f.2)).sum)))
  | [], _ => rfl
  | l :: ls, h => by
    unfold sceneBucketsAux
    rw [frameBuckets_eq (h l List.mem_cons_self) frames,
      sceneBucketsAux_eq frames ls (fun k hk => h k (List.mem_cons_of_mem _ hk))]
    rfl

/-! ### `Map` reads a nested entry through its concatenation -/

theorem mapLoop_congr_flatten {m : Mode} {is2d : Bool} {b b' : List (Label × List (List Res))}
    {n n' : List (Label × Nat)} : ∀ (tz : List (Label × Rat)),
    (∀ p ∈ tz, (lookupKey p.1 b).map List.flatten = (lookupKey p.1 b').map List.flatten) →
    (∀ p ∈ tz, lookupKey p.1 n = lookupKey p.1 n') →
    mapLoop m is2d b n tz = mapLoop m is2d b' n' tz
  | [], _, _ => rfl
  | (l, t) :: rest, hb, hn => by
    have ih := mapLoop_congr_flatten (m := m) (is2d := is2d) rest
      (fun p hp => hb p (List.mem_cons_of_mem _ hp)) (fun p hp => hn p (List.mem_cons_of_mem _ hp))
    have h1 := hb (l, t) List.mem_cons_self
    have h2 := hn (l, t) List.mem_cons_self
    simp only at h1 h2
    unfold mapLoop
    rw [← h2, ← ih]
    cases e1 : lookupKey l b with
    | error e =>
      cases e2 : lookupKey l b' with
      | error e' =>
        rw [e1, e2] at h1
        simp only [Except.map, Except.error.injEq] at h1
        rw [h1]
      | ok v' =>
        rw [e1, e2] at h1
        simp [Except.map] at h1
    | ok v =>
      cases e2 : lookupKey l b' with
      | error e' =>
        rw [e1, e2] at h1
        simp [Except.map] at h1
      | ok v' =>
        rw [e1, e2] at h1
        simp only [Except.map, Except.ok.injEq] at h1
        simp only [apOfNested, h1]

/-- **S2**: two nested result dicts whose entries under the target labels have the same concatenation
(and two count dicts with the same entries under the target labels) give the same `Map` -/
theorem mapOf_congr_flatten {m : Mode} {is2d : Bool} {T : List Label} {th : List Rat}
    {b b' : List (Label × List (List Res))} {n n' : List (Label × Nat)}
    (hb : ∀ l ∈ T, (lookupKey l b).map List.flatten = (lookupKey l b').map List.flatten)
    (hn : ∀ l ∈ T, lookupKey l n = lookupKey l n') :
    mapOf m is2d T th b n = mapOf m is2d T th b' n' := by
  unfold mapOf
  rw [mapLoop_congr_flatten (T.zip th) (fun p hp => hb p.1 (List.of_mem_zip hp).1)
    (fun p hp => hn p.1 (List.of_mem_zip hp).1)]

/-! ### counting TPs per result -/

/-- "this result is classified TP" (an erroring classification counts as not TP) -/
def isTpRes (tm : TpMetric) (m : Mode) (T : List Label) (th : List Rat) (r : Res) : Bool :=
  match classify tm m T th r with
  | .ok k => k.isTp
  | .error _ => false

theorem isTpRes_of_ok {tm : TpMetric} {m : Mode} {T : List Label} {th : List Rat} {r : Res} {k : Kind}
    (h : classify tm m T th r = .ok k) : isTpRes tm m T th r = k.isTp := by
  simp only [isTpRes, h]

/-- (a) the number of TPs of a classification is the number of results classified TP -/
theorem classifyAll_countTp {tm : TpMetric} {m : Mode} {T : List Label} {th : List Rat} :
    ∀ {rs : List Res} {ks : List Kind}, classifyAll tm m T th rs = .ok ks →
      (ks.filter Kind.isTp).length = rs.countP (isTpRes tm m T th)
  | [], ks, h => by
    simp only [classifyAll, Except.ok.injEq] at h
    subst h
    rfl
  | r :: rs, ks, h => by
    obtain ⟨k, ks0, hk, hks, rfl⟩ := classifyAll_cons_ok h
    have ih := classifyAll_countTp hks
    rw [List.countP_cons, isTpRes_of_ok hk, ← ih, List.filter_cons]
    cases k.isTp <;> simp

/-- (b) a classification that answers has classified every result -/
theorem classifyAll_ok_forall {tm : TpMetric} {m : Mode} {T : List Label} {th : List Rat} :
    ∀ {rs : List Res} {ks : List Kind}, classifyAll tm m T th rs = .ok ks →
      ∀ r ∈ rs, ∃ k, classify tm m T th r = .ok k
  | [], _, _ => fun r hr => by cases hr
  | r0 :: rs, ks, h => by
    obtain ⟨k, ks0, hk, hks, rfl⟩ := classifyAll_cons_ok h
    intro r hr
    rcases List.mem_cons.1 hr with rfl | hr'
    · exact ⟨k, hk⟩
    · exact classifyAll_ok_forall hks r hr'

/-- (b, converse) if every result classifies, the list does -/
theorem classifyAll_ok_of_forall {tm : TpMetric} {m : Mode} {T : List Label} {th : List Rat} :
    ∀ {rs : List Res}, (∀ r ∈ rs, ∃ k, classify tm m T th r = .ok k) →
      ∃ ks, classifyAll tm m T th rs = .ok ks
  | [], _ => ⟨[], rfl⟩
  | r0 :: rs, h => by
    obtain ⟨k, hk⟩ := h r0 List.mem_cons_self
    obtain ⟨ks, hks⟩ := classifyAll_ok_of_forall (rs := rs) (fun r hr => h r (List.mem_cons_of_mem _ hr))
    exact ⟨k :: ks, by simp only [classifyAll, hk, hks]⟩

/-- (c) the TP count does not depend on the order: the confidence sort keeps it -/
theorem countTp_sortDesc (p : Res → Bool) (rs : List Res) :
    (sortDesc Res.conf rs).countP p = rs.countP p :=
  (sortDesc_perm Res.conf rs).countP_eq p

theorem cnt_map_label (gts : List Gt) (l : Label) :
    cnt l (gts.map (·.label)) = (gts.filter (fun g => g.label == l)).length := by
  unfold cnt
  rw [List.filter_map, List.length_map]
  rfl

/-- (d) one frame: with one-to-one matching inside the frame, the per-label evaluation finds at most as
many TPs among the frame's results as the frame has ground truths of the label -/
theorem countTp_frame_le (tm : TpMetric) (m : Mode) (l : Label) (t : Rat) (rs : List Res) (gts : List Gt)
    (hnd : (rs.filterMap (·.gt)).Nodup) (hsub : ∀ g ∈ rs.filterMap (·.gt), g ∈ gts)
    (hok : ∀ r ∈ rs, ∃ k, classify tm m [l] [t] r = .ok k) :
    rs.countP (isTpRes tm m [l] [t]) ≤ (gts.filter (fun g => g.label == l)).length := by
  obtain ⟨ks, hks⟩ := classifyAll_ok_of_forall hok
  rw [← classifyAll_countTp hks]
  exact C04.tp_le_gt_of_one_to_one tm m l t rs gts hnd hsub hks

/-- (e) all frames: one-to-one matching inside EACH frame (ground-truth ids may repeat across frames)
bounds the TPs of the pooled list by the summed ground-truth counts -/
theorem countTp_frames_le (tm : TpMetric) (m : Mode) (l : Label) (t : Rat) :
    ∀ (frames : List (List Res × List Gt)),
    (∀ f ∈ frames, (f.1.filterMap (·.gt)).Nodup) →
    (∀ f ∈ frames, ∀ g ∈ f.1.filterMap (·.gt), g ∈ f.2) →
    (∀ f ∈ frames, ∀ r ∈ f.1, ∃ k, classify tm m [l] [t] r = .ok k) →
    (frames.map (·.1)).flatten.countP (isTpRes tm m [l] [t])
      ≤ (frames.map (fun f => (f.2.filter (fun g => g.label == l)).length)).sum
  | [], _, _, _ => Nat.le_refl _
  | f :: rest, hnd, hsub, hok => by
    have ih := countTp_frames_le tm m l t rest (fun g hg => hnd g (List.mem_cons_of_mem _ hg))
      (fun g hg => hsub g (List.mem_cons_of_mem _ hg)) (fun g hg => hok g (List.mem_cons_of_mem _ hg))
    have h0 := countTp_frame_le tm m l t f.1 f.2 (hnd f List.mem_cons_self) (hsub f List.mem_cons_self)
      (hok f List.mem_cons_self)
    simp only [List.map_cons, List.flatten_cons, List.countP_append, List.sum_cons]
    exact Nat.add_le_add h0 ih

/-! ### non-vacuity of the hypotheses above (the scene-level ones: `PEval/Properties/C04Scene.lean`, S7) -/

section Example

/-- a TP (ground truth 7 of label 2, distance 1/2 < 1), an FP without ground truth, and a second TP on
the same ground truth id in another frame -/
def exR1 : Res := ⟨1, 9/10, 2, some ⟨7, 2⟩, .val (some (1/2)), 1/2, .default⟩
def exR2 : Res := ⟨2, 95/100, 2, none, .val none, 0, .default⟩
def exR3 : Res := ⟨3, 7/10, 2, some ⟨7, 2⟩, .val (some (1/4)), 1, .default⟩

example : classifyAll .aph .centerDistance [2] [1] [exR1, exR2, exR3] = .ok [.tp (1/2), .fp, .tp 1] := by
  decide +kernel
example : ∀ r ∈ [exR1, exR2, exR3], ∃ k, classify .aph .centerDistance [2] [1] r = .ok k := by
  intro r hr
  simp only [List.mem_cons, List.not_mem_nil, or_false] at hr
  rcases hr with rfl | rfl | rfl
  · exact ⟨.tp (1/2), by decide +kernel⟩
  · exact ⟨.fp, by decide +kernel⟩
  · exact ⟨.tp 1, by decide +kernel⟩
example : [exR1, exR2, exR3].countP (isTpRes .aph .centerDistance [2] [1]) = 2 := by decide +kernel
/-- per-frame hypotheses of `countTp_frames_le` on two frames sharing ground-truth id 7 -/
example :
    let frames : List (List Res × List Gt) := [([exR1, exR2], [⟨7, 2⟩]), ([exR3], [⟨7, 2⟩, ⟨9, 4⟩])]
    (∀ f ∈ frames, (f.1.filterMap (·.gt)).Nodup) ∧ (∀ f ∈ frames, ∀ g ∈ f.1.filterMap (·.gt), g ∈ f.2)
      ∧ ¬ ((frames.map (·.1)).flatten.filterMap (·.gt)).Nodup := by
  decide +kernel

end Example

end PEval.AP
