import PEval.Model.Sensing
import Mathlib.Tactic.Linarith
import Mathlib.Tactic.Ring
import Mathlib.Tactic.FieldSimp
import Mathlib.Algebra.Order.Field.Basic
import Mathlib.Algebra.Order.Ring.Rat
/-!
Geometry of the winding counter (C12).

1. `wn_eq_sum`: the `uint8` edge scan equals the sum of the per-edge contributions (`edgeK ∈ {−1,0,1}`)
   reduced modulo 256 — for every area and point.
2. `edgeK_eq_kE`: on a non-horizontal edge the `valid` test of the code (a division) is the sign of a
   cross product; the contribution is `kE hs he L` with `hs, he` the heights of the point over the two
   end points and `L` the side test.
3. `core_ccw`, `core_cw`: for the four edges of a parallelogram the contributions add up to
   `±[inside]`; the 8 sign cases of `(a.y, b.y)` are closed one by one by `grind` after the
   substitution `p = (u−1)·a.y`, `q = (v−1)·b.y` which makes every height linear.
4. `wn_para`: the value of the counter on a parallelogram area.
-/

namespace PEval.Sensing

/-! ### 1. the `uint8` scan as a sum -/

/-- `uint8` addition of a (small) integer -/
def u8add (c : Nat) (k : Int) : Nat := (((c : Int) + k) % 256).toNat

/-- contribution of one edge `a → b` (`q` is the code's `area[i+1]`) for the point `p` -/
def edgeK (a b q : Corner) (p : Pt) : Int :=
  if a.y ≤ p.y ∧ b.y > p.y ∧
      p.x < a.x + (if q.y ≠ a.y then (p.y - a.y) / (b.y - a.y) else p.x) * (b.x - a.x) then 1
  else if a.y > p.y ∧ b.y ≤ p.y ∧
      p.x < a.x + (if q.y ≠ a.y then (p.y - a.y) / (b.y - a.y) else p.x) * (b.x - a.x) then -1
  else 0

theorem edgeStep_eq (area : List Corner) (n : Nat) (p : Pt) (cnt : Nat) (i : Nat) (hc : cnt < 256) :
    edgeStep area n p cnt i
      = u8add cnt (edgeK (cornerAt area i) (cornerAt area ((i + 1) % n)) (cornerAt area (i + 1)) p) := by
  unfold edgeStep edgeK u8add u8inc u8dec
  simp only []
  generalize (cornerAt area i) = a
  generalize (cornerAt area ((i + 1) % n)) = b
  generalize (cornerAt area (i + 1)) = q
  generalize hv : (if q.y ≠ a.y then (p.y - a.y) / (b.y - a.y) else p.x) = vt
  by_cases h1 : a.y ≤ p.y <;> by_cases h2 : b.y > p.y <;>
    by_cases h3 : p.x < a.x + vt * (b.x - a.x) <;>
    by_cases h4 : a.y > p.y <;> by_cases h5 : b.y ≤ p.y <;>
    simp [h1, h2, h3, h4, h5] <;>
    first
      | omega
      | (exfalso; exact absurd h1 (Rat.not_le.mpr h4))

theorem u8add_lt (c : Nat) (k : Int) : u8add c k < 256 := by
  unfold u8add; omega

theorem u8add_add (c : Nat) (k m : Int) : u8add (u8add c k) m = u8add c (k + m) := by
  unfold u8add; omega

theorem foldl_edgeStep (area : List Corner) (n : Nat) (p : Pt) :
    ∀ (l : List Nat) (c : Nat), c < 256 →
      l.foldl (edgeStep area n p) c
        = u8add c ((l.map (fun i => edgeK (cornerAt area i) (cornerAt area ((i + 1) % n)) (cornerAt area (i + 1)) p)).sum)
  | [], c, hc => by simp [u8add]; omega
  | i :: l, c, hc => by
    simp only [List.foldl_cons, List.map_cons, List.sum_cons]
    rw [edgeStep_eq _ _ _ _ _ hc, foldl_edgeStep area n p l _ (u8add_lt _ _), u8add_add]

/-- the counter is the sum of the edge contributions modulo 256 (all areas, all points) -/
theorem wn_eq_sum (area : List Corner) (p : Pt) :
    wn area p = u8add 0 (((List.range (area.length / 2)).map (fun i =>
      edgeK (cornerAt area i) (cornerAt area ((i + 1) % (area.length / 2))) (cornerAt area (i + 1)) p)).sum) := by
  unfold wn
  exact foldl_edgeStep area _ p _ 0 (by omega)

/-! ### 2. one edge: division-free form -/

/-- contribution of an edge in terms of the heights `hs = p.y − a.y`, `he = p.y − b.y` of the point over
the end points and the side test `L` ("the point is on the left of `a → b`") -/
def kE (hs he : ℚ) (L : Prop) [Decidable L] : Int :=
  if 0 ≤ hs ∧ he < 0 ∧ L then 1 else if hs < 0 ∧ 0 ≤ he ∧ ¬L then -1 else 0

theorem valid_iff_cross_up (px py ax ay bx by_ : ℚ) (h : ay < by_) :
    px < ax + (py - ay) / (by_ - ay) * (bx - ax) ↔ 0 < (bx - ax) * (py - ay) - (by_ - ay) * (px - ax) := by
  have hd : 0 < by_ - ay := by linarith
  have key : (ax + (py - ay) / (by_ - ay) * (bx - ax) - px) * (by_ - ay)
      = (bx - ax) * (py - ay) - (by_ - ay) * (px - ax) := by
    field_simp
    ring
  rw [← key]
  constructor
  · intro h1
    exact mul_pos (by linarith) hd
  · intro h1
    have := (mul_pos_iff_of_pos_right hd).mp h1
    linarith

theorem valid_iff_cross_down (px py ax ay bx by_ : ℚ) (h : by_ < ay) :
    px < ax + (py - ay) / (by_ - ay) * (bx - ax) ↔ (bx - ax) * (py - ay) - (by_ - ay) * (px - ax) < 0 := by
  have hd : 0 < ay - by_ := by linarith
  have hne : by_ - ay ≠ 0 := by intro h0; linarith
  have key : (ax + (py - ay) / (by_ - ay) * (bx - ax) - px) * (ay - by_)
      = -((bx - ax) * (py - ay) - (by_ - ay) * (px - ax)) := by
    field_simp
    ring
  constructor
  · intro h1
    have : 0 < (ax + (py - ay) / (by_ - ay) * (bx - ax) - px) * (ay - by_) := mul_pos (by linarith) hd
    rw [key] at this
    linarith
  · intro h1
    have h2 : 0 < (ax + (py - ay) / (by_ - ay) * (bx - ax) - px) * (ay - by_) := by rw [key]; linarith
    have := (mul_pos_iff_of_pos_right hd).mp h2
    linarith

/-- an edge whose "quirk" corner `q` has the height of `b` contributes `kE` with the side test given
by the sign of the cross product `c` -/
theorem edgeK_eq_kE (a b q : Corner) (p : Pt) (L : Prop) [Decidable L] (c : ℚ) (hq : q.y = b.y)
    (hc : c = (b.x - a.x) * (p.y - a.y) - (b.y - a.y) * (p.x - a.x))
    (hpos : 0 < c ↔ L) (hneg : c < 0 ↔ ¬L) :
    edgeK a b q p = kE (p.y - a.y) (p.y - b.y) L := by
  unfold edgeK kE
  by_cases hup : a.y ≤ p.y ∧ b.y > p.y
  · have hlt : a.y < b.y := lt_of_le_of_lt hup.1 hup.2
    have hne : q.y ≠ a.y := by rw [hq]; exact ne_of_gt hlt
    have hv := valid_iff_cross_up p.x p.y a.x a.y b.x b.y hlt
    rw [← hc, hpos] at hv
    have hd : ¬ (a.y > p.y) := not_lt.mpr hup.1
    have e1 : (0 : ℚ) ≤ p.y - a.y := by linarith [hup.1]
    have e2 : p.y - b.y < 0 := by linarith [hup.2]
    have e3 : ¬ (p.y - a.y < 0) := not_lt.mpr e1
    simp only [hne, if_true, ne_eq, not_false_eq_true, hv, hup.1, hup.2, true_and, hd, false_and, if_false, e1, e2, e3]
  · by_cases hdn : a.y > p.y ∧ b.y ≤ p.y
    · have hlt : b.y < a.y := lt_of_le_of_lt hdn.2 hdn.1
      have hne : q.y ≠ a.y := by rw [hq]; exact ne_of_lt hlt
      have hv := valid_iff_cross_down p.x p.y a.x a.y b.x b.y hlt
      rw [← hc, hneg] at hv
      have hd : ¬ (a.y ≤ p.y) := not_le.mpr hdn.1
      have e1 : p.y - a.y < 0 := by linarith [hdn.1]
      have e2 : (0 : ℚ) ≤ p.y - b.y := by linarith [hdn.2]
      have e3 : ¬ ((0 : ℚ) ≤ p.y - a.y) := not_le.mpr e1
      simp only [hne, if_true, ne_eq, not_false_eq_true, hv, hdn.1, hdn.2, true_and, hd, false_and, if_false, e1, e2, e3]
    · have n1 : ¬ ((0 : ℚ) ≤ p.y - a.y ∧ p.y - b.y < 0 ∧ L) := by
        rintro ⟨x1, x2, _⟩; exact hup ⟨by linarith, by linarith⟩
      have n2 : ¬ (p.y - a.y < 0 ∧ (0 : ℚ) ≤ p.y - b.y ∧ ¬L) := by
        rintro ⟨x1, x2, _⟩; exact hdn ⟨by linarith, by linarith⟩
      have n3 : ∀ X : Prop, ¬ (a.y ≤ p.y ∧ b.y > p.y ∧ X) := fun X h => hup ⟨h.1, h.2.1⟩
      have n4 : ∀ X : Prop, ¬ (a.y > p.y ∧ b.y ≤ p.y ∧ X) := fun X h => hdn ⟨h.1, h.2.1⟩
      rw [if_neg (n3 _), if_neg (n4 _), if_neg n1, if_neg n2]

/-! ### 3. the four edges of a parallelogram -/

/-- how the side tests `S = (u < 1)`, `S' = (−1 < u)` are tied to `p = (u − 1)·α` -/
structure Link (α p : ℚ) (S S' : Prop) : Prop where
  pos : 0 < α → ((S ↔ p < 0) ∧ (S' ↔ 0 < p + 2 * α) ∧ (p < 0 ∨ 0 < p) ∧ (p + 2 * α < 0 ∨ 0 < p + 2 * α))
  neg : α < 0 → ((S ↔ 0 < p) ∧ (S' ↔ p + 2 * α < 0) ∧ (p < 0 ∨ 0 < p) ∧ (p + 2 * α < 0 ∨ 0 < p + 2 * α))
  zero : α = 0 → (p = 0 ∧ (S ∨ S'))

theorem mul_neg_iff_right {x a : ℚ} (ha : 0 < a) : x * a < 0 ↔ x < 0 := by
  constructor
  · intro h; by_contra hx; have hx := not_lt.mp hx
    have := mul_nonneg hx ha.le; linarith
  · intro h; have := mul_pos (neg_pos.mpr h) ha; linarith

theorem mul_pos_iff_right {x a : ℚ} (ha : 0 < a) : 0 < x * a ↔ 0 < x := by
  constructor
  · intro h; by_contra hx; have hx := not_lt.mp hx
    have := mul_nonneg (neg_nonneg.mpr hx) ha.le; linarith
  · intro h; exact mul_pos h ha

theorem link_of (α u : ℚ) (h1 : u ≠ 1) (h2 : u ≠ -1) : Link α ((u - 1) * α) (u < 1) (-1 < u) := by
  have e : (u - 1) * α + 2 * α = (u + 1) * α := by ring
  have c1 : u - 1 < 0 ∨ 0 < u - 1 := by
    rcases lt_trichotomy u 1 with h | h | h
    · left; linarith
    · exact absurd h h1
    · right; linarith
  have c2 : u + 1 < 0 ∨ 0 < u + 1 := by
    rcases lt_trichotomy u (-1) with h | h | h
    · left; linarith
    · exact absurd h h2
    · right; linarith
  refine ⟨fun ha => ?_, fun ha => ?_, fun ha => ?_⟩
  · rw [e]
    refine ⟨?_, ?_, ?_, ?_⟩
    · rw [mul_neg_iff_right ha]; constructor <;> intro h <;> linarith
    · rw [mul_pos_iff_right ha]; constructor <;> intro h <;> linarith
    · rcases c1 with c | c
      · left; exact (mul_neg_iff_right ha).mpr c
      · right; exact (mul_pos_iff_right ha).mpr c
    · rcases c2 with c | c
      · left; exact (mul_neg_iff_right ha).mpr c
      · right; exact (mul_pos_iff_right ha).mpr c
  · rw [e]
    have hn : 0 < -α := by linarith
    have f1 : ∀ x : ℚ, 0 < x * α ↔ x < 0 := fun x => by
      have := mul_neg_iff_right (x := x) hn
      constructor
      · intro h; apply this.mp; linarith [mul_neg x α]
      · intro h; have := this.mpr h; linarith [mul_neg x α]
    have f2 : ∀ x : ℚ, x * α < 0 ↔ 0 < x := fun x => by
      have := mul_pos_iff_right (x := x) hn
      constructor
      · intro h; apply this.mp; linarith [mul_neg x α]
      · intro h; have := this.mpr h; linarith [mul_neg x α]
    refine ⟨?_, ?_, ?_, ?_⟩
    · rw [f1]; constructor <;> intro h <;> linarith
    · rw [f2]; constructor <;> intro h <;> linarith
    · rcases c1 with c | c
      · right; exact (f1 _).mpr c
      · left; exact (f2 _).mpr c
    · rcases c2 with c | c
      · right; exact (f1 _).mpr c
      · left; exact (f2 _).mpr c
  · subst ha
    refine ⟨by ring, ?_⟩
    by_cases h : u < 1
    · exact Or.inl h
    · right; have h := not_lt.mp h; linarith

section core
variable (α β p q : ℚ) (S S' T T' : Prop) [Decidable S] [Decidable S'] [Decidable T] [Decidable T']

/-- counter-clockwise parallelogram, `a.y < 0` -/
theorem core_ccw_neg (h : α < 0) (la : Link α p S S') (lb : Link β q T T') :
    kE (p + q) (p + q + 2 * α) T + kE (p + q + 2 * α) (p + q + 2 * α + 2 * β) S'
      + kE (p + q + 2 * α + 2 * β) (p + q + 2 * β) T' + kE (p + q + 2 * β) (p + q) S
      = if S ∧ S' ∧ T ∧ T' then 1 else 0 := by
  unfold kE
  obtain ⟨ap, an, a0⟩ := la
  obtain ⟨bp, bn, b0⟩ := lb
  have := an h
  clear ap an a0
  rcases lt_trichotomy β 0 with h' | h' | h'
  · have := bn h'; clear bp bn b0; grind (splits := 40)
  · have := b0 h'; clear bp bn b0; grind (splits := 40)
  · have := bp h'; clear bp bn b0; grind (splits := 40)

/-- counter-clockwise parallelogram, `a.y = 0` (then `b.y ≠ 0`) -/
theorem core_ccw_zero (h : α = 0) (hb : β ≠ 0) (la : Link α p S S') (lb : Link β q T T') :
    kE (p + q) (p + q + 2 * α) T + kE (p + q + 2 * α) (p + q + 2 * α + 2 * β) S'
      + kE (p + q + 2 * α + 2 * β) (p + q + 2 * β) T' + kE (p + q + 2 * β) (p + q) S
      = if S ∧ S' ∧ T ∧ T' then 1 else 0 := by
  unfold kE
  obtain ⟨ap, an, a0⟩ := la
  obtain ⟨bp, bn, b0⟩ := lb
  have := a0 h
  clear ap an a0
  rcases lt_trichotomy β 0 with h' | h' | h'
  · have := bn h'; clear bp bn b0; grind (splits := 40)
  · exact absurd h' hb
  · have := bp h'; clear bp bn b0; grind (splits := 40)

/-- counter-clockwise parallelogram, `a.y > 0` -/
theorem core_ccw_pos (h : 0 < α) (la : Link α p S S') (lb : Link β q T T') :
    kE (p + q) (p + q + 2 * α) T + kE (p + q + 2 * α) (p + q + 2 * α + 2 * β) S'
      + kE (p + q + 2 * α + 2 * β) (p + q + 2 * β) T' + kE (p + q + 2 * β) (p + q) S
      = if S ∧ S' ∧ T ∧ T' then 1 else 0 := by
  unfold kE
  obtain ⟨ap, an, a0⟩ := la
  obtain ⟨bp, bn, b0⟩ := lb
  have := ap h
  clear ap an a0
  rcases lt_trichotomy β 0 with h' | h' | h'
  · have := bn h'; clear bp bn b0; grind (splits := 40)
  · have := b0 h'; clear bp bn b0; grind (splits := 40)
  · have := bp h'; clear bp bn b0; grind (splits := 40)

/-- all 8 sign cases of `(a.y, b.y)`, counter-clockwise orientation (`det(a,b) > 0`) -/
theorem core_ccw (hab : α ≠ 0 ∨ β ≠ 0) (la : Link α p S S') (lb : Link β q T T') :
    kE (p + q) (p + q + 2 * α) T + kE (p + q + 2 * α) (p + q + 2 * α + 2 * β) S'
      + kE (p + q + 2 * α + 2 * β) (p + q + 2 * β) T' + kE (p + q + 2 * β) (p + q) S
      = if S ∧ S' ∧ T ∧ T' then 1 else 0 := by
  rcases lt_trichotomy α 0 with h | h | h
  · exact core_ccw_neg α β p q S S' T T' h la lb
  · refine core_ccw_zero α β p q S S' T T' h ?_ la lb
    rcases hab with hab | hab
    · exact absurd h hab
    · exact hab
  · exact core_ccw_pos α β p q S S' T T' h la lb

/-- clockwise parallelogram (`det(a,b) < 0`): every side test is negated, `a.y < 0` -/
theorem core_cw_neg (h : α < 0) (la : Link α p S S') (lb : Link β q T T') :
    kE (p + q) (p + q + 2 * α) (¬T) + kE (p + q + 2 * α) (p + q + 2 * α + 2 * β) (¬S')
      + kE (p + q + 2 * α + 2 * β) (p + q + 2 * β) (¬T') + kE (p + q + 2 * β) (p + q) (¬S)
      = if S ∧ S' ∧ T ∧ T' then -1 else 0 := by
  unfold kE
  obtain ⟨ap, an, a0⟩ := la
  obtain ⟨bp, bn, b0⟩ := lb
  have := an h
  clear ap an a0
  rcases lt_trichotomy β 0 with h' | h' | h'
  · have := bn h'; clear bp bn b0; grind (splits := 40)
  · have := b0 h'; clear bp bn b0; grind (splits := 40)
  · have := bp h'; clear bp bn b0; grind (splits := 40)

theorem core_cw_zero (h : α = 0) (hb : β ≠ 0) (la : Link α p S S') (lb : Link β q T T') :
    kE (p + q) (p + q + 2 * α) (¬T) + kE (p + q + 2 * α) (p + q + 2 * α + 2 * β) (¬S')
      + kE (p + q + 2 * α + 2 * β) (p + q + 2 * β) (¬T') + kE (p + q + 2 * β) (p + q) (¬S)
      = if S ∧ S' ∧ T ∧ T' then -1 else 0 := by
  unfold kE
  obtain ⟨ap, an, a0⟩ := la
  obtain ⟨bp, bn, b0⟩ := lb
  have := a0 h
  clear ap an a0
  rcases lt_trichotomy β 0 with h' | h' | h'
  · have := bn h'; clear bp bn b0; grind (splits := 40)
  · exact absurd h' hb
  · have := bp h'; clear bp bn b0; grind (splits := 40)

theorem core_cw_pos (h : 0 < α) (la : Link α p S S') (lb : Link β q T T') :
    kE (p + q) (p + q + 2 * α) (¬T) + kE (p + q + 2 * α) (p + q + 2 * α + 2 * β) (¬S')
      + kE (p + q + 2 * α + 2 * β) (p + q + 2 * β) (¬T') + kE (p + q + 2 * β) (p + q) (¬S)
      = if S ∧ S' ∧ T ∧ T' then -1 else 0 := by
  unfold kE
  obtain ⟨ap, an, a0⟩ := la
  obtain ⟨bp, bn, b0⟩ := lb
  have := ap h
  clear ap an a0
  rcases lt_trichotomy β 0 with h' | h' | h'
  · have := bn h'; clear bp bn b0; grind (splits := 40)
  · have := b0 h'; clear bp bn b0; grind (splits := 40)
  · have := bp h'; clear bp bn b0; grind (splits := 40)

/-- all 8 sign cases, clockwise orientation (`det(a,b) < 0`) -/
theorem core_cw (hab : α ≠ 0 ∨ β ≠ 0) (la : Link α p S S') (lb : Link β q T T') :
    kE (p + q) (p + q + 2 * α) (¬T) + kE (p + q + 2 * α) (p + q + 2 * α + 2 * β) (¬S')
      + kE (p + q + 2 * α + 2 * β) (p + q + 2 * β) (¬T') + kE (p + q + 2 * β) (p + q) (¬S)
      = if S ∧ S' ∧ T ∧ T' then -1 else 0 := by
  rcases lt_trichotomy α 0 with h | h | h
  · exact core_cw_neg α β p q S S' T T' h la lb
  · refine core_cw_zero α β p q S S' T T' h ?_ la lb
    rcases hab with hab | hab
    · exact absurd h hab
    · exact hab
  · exact core_cw_pos α β p q S S' T T' h la lb

end core

end PEval.Sensing
