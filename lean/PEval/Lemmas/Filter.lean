import PEval.Lemmas.FilterSpec
import Mathlib.Tactic.Linarith
import Mathlib.Tactic.FieldSimp
import Mathlib.Algebra.Order.Field.Basic
import Mathlib.Algebra.Order.Ring.Rat
/-!
# C10 — the transcribed filter decides the declarative criteria

Stage by stage: each `if is_target and <list> is not None: …` block of `_is_target_object`
(`stage`, `stagePts`, `stageUuid`, `stageLabel`, `stageAttr`, `position`) is shown equivalent to the
corresponding conjunct of `Criteria` (`FilterSpec.lean`), whenever the code returns at all.
-/
namespace PEval.Filter

theorem isFP_iff (l : String) : isFP l = true ↔ IsFP l := by
  simp [isFP, commonFP, IsFP]

theorem isUnknown_iff (l : String) : isUnknown l = true ↔ IsUnknown l := by
  simp [isUnknown, commonUnknown, IsUnknown]

theorem isInfix_iff (k s : List Char) : isInfix k s = true ↔ Occurs k s := by
  induction s with
  | nil =>
    simp only [isInfix, List.isEmpty_iff, Occurs]
    constructor
    · rintro rfl; exact ⟨[], [], rfl⟩
    · rintro ⟨a, b, h⟩
      have := congrArg List.length h
      simp at this
      exact List.eq_nil_of_length_eq_zero (by omega)
  | cons c cs ih =>
    simp only [isInfix, Bool.or_eq_true, ih, List.isPrefixOf_iff_prefix, Occurs]
    constructor
    · rintro (⟨t, ht⟩ | ⟨a, b, h⟩)
      · exact ⟨[], t, by simpa using ht.symm⟩
      · exact ⟨c :: a, b, by simp [h]⟩
    · rintro ⟨a, b, h⟩
      cases a with
      | nil => left; exact ⟨b, by simpa using h.symm⟩
      | cons a0 a' =>
        right
        simp only [List.cons_append, List.cons.injEq] at h
        exact ⟨a', b, h.2⟩

theorem indexOf?_eq_some {a : String} {ts : List String} {i : Nat} :
    indexOf? a ts = some i ↔ ts[i]? = some a ∧ ∀ j, j < i → ts[j]? ≠ some a := by
  induction ts generalizing i with
  | nil => simp [indexOf?]
  | cons b bs ih =>
    unfold indexOf?
    by_cases hb : b = a
    · subst hb
      simp only [if_true, Option.some.injEq]
      constructor
      · rintro rfl; simp
      · rintro ⟨_, h2⟩
        cases i with
        | zero => rfl
        | succ n => exact absurd (by simp) (h2 0 (by omega))
    · simp only [hb, if_false, Option.map_eq_some_iff]
      constructor
      · rintro ⟨n, hn, rfl⟩
        rw [ih] at hn
        refine ⟨by simpa using hn.1, ?_⟩
        intro j hj
        cases j with
        | zero => simpa using hb
        | succ m => simpa using hn.2 m (by omega)
      · rintro ⟨h1, h2⟩
        cases i with
        | zero => simp at h1; exact absurd h1 hb
        | succ n =>
          refine ⟨n, ih.2 ⟨by simpa using h1, ?_⟩, rfl⟩
          intro j hj
          simpa using h2 (j + 1) (by omega)

theorem indexOf?_eq_none {a : String} {ts : List String} : indexOf? a ts = none ↔ a ∉ ts := by
  induction ts with
  | nil => simp [indexOf?]
  | cons b bs ih =>
    unfold indexOf?
    by_cases hb : b = a
    · subst hb; simp
    · simp only [hb, if_false, Option.map_eq_none_iff, ih, List.mem_cons, not_or]
      constructor
      · intro h; exact ⟨fun e => hb e.symm, h⟩
      · intro h; exact h.2

theorem useUnknown_iff (P : Params) (o : Obj) : useUnknown P o = true ↔ Relaxed P o := by
  unfold useUnknown Relaxed
  cases hT : P.targets with
  | none => simp [isUnknown_iff]
  | some ts =>
    have : (¬ ts.any isUnknown = true) ↔ ∀ t ∈ ts, ¬ IsUnknown t := by
      simp [List.any_eq_true, isUnknown_iff]
    simp only [Bool.and_eq_true, Bool.not_eq_true', isUnknown_iff, Option.some.injEq, forall_eq',
      ← Bool.not_eq_true, and_assoc, this]

theorem labelBound_unique {α} {P : Params} {o : Obj} {l : List α} {t t' : α}
    (h : LabelBound P o l t) (h' : LabelBound P o l t') : t = t' := by
  obtain ⟨ts, i, hT, hi, hmin, hl⟩ := h
  obtain ⟨ts', i', hT', hi', hmin', hl'⟩ := h'
  rw [hT] at hT'; cases hT'
  have : i = i' := by
    rcases Nat.lt_trichotomy i i' with h | h | h
    · exact absurd hi (hmin' i h)
    · exact h
    · exact absurd hi' (hmin i' h)
  subst this
  rw [hl] at hl'; exact Option.some.inj hl'

theorem getLabelThreshold_ok {α} {P : Params} {o : Obj} {l : List α} {r : Option α}
    (h : getLabelThreshold P.targets o.label l = .ok r) (t : α) :
    r = some t ↔ LabelBound P o l t := by
  unfold getLabelThreshold at h
  cases hT : P.targets with
  | none =>
    rw [hT] at h; cases h
    simp only [reduceCtorEq, false_iff]
    rintro ⟨ts, i, hT', _⟩; rw [hT] at hT'; cases hT'
  | some ts =>
    rw [hT] at h
    simp only at h
    cases hi : indexOf? o.label ts with
    | none =>
      rw [hi] at h; cases h
      simp only [reduceCtorEq, false_iff]
      rintro ⟨ts', i, hT', hi', _⟩
      rw [hT] at hT'; cases hT'
      exact (indexOf?_eq_none.1 hi) (List.mem_of_getElem? hi')
    | some i =>
      rw [hi] at h
      simp only at h
      cases hl : l[i]? with
      | none => rw [hl] at h; cases h
      | some v =>
        rw [hl] at h; cases h
        have hb : LabelBound P o l v := ⟨ts, i, hT, (indexOf?_eq_some.1 hi).1, (indexOf?_eq_some.1 hi).2, hl⟩
        constructor
        · intro e; cases e; exact hb
        · intro h'; rw [labelBound_unique hb h']

theorem mean_eq_some (l : List Rat) (m : Rat) : mean l = some m ↔ IsMean l m := by
  unfold mean IsMean
  cases l with
  | nil => simp
  | cons a as =>
    have hne : ((a :: as).length : Rat) ≠ 0 := by
      simp only [List.length_cons, Nat.cast_add, Nat.cast_one]
      positivity
    simp only [List.isEmpty_cons, Bool.false_eq_true, if_false, Option.some.injEq, ne_eq,
      reduceCtorEq, not_false_eq_true, true_and]
    rw [div_eq_iff hne]
    exact eq_comm

theorem bound_ok {P : Params} {o : Obj} {unk : Option Rat} {l : List Rat} {r : Option Rat}
    (h : bound P (useUnknown P o) o unk l = .ok r) (t : Rat) :
    r = some t ↔ (Relaxed P o ∧ unk = some t) ∨ (¬ Relaxed P o ∧ LabelBound P o l t) := by
  unfold bound at h
  by_cases hu : useUnknown P o = true
  · have hR := (useUnknown_iff P o).1 hu
    rw [hu] at h; simp only [if_true] at h; cases h
    simp [hR]
  · have hR : ¬ Relaxed P o := fun c => hu ((useUnknown_iff P o).2 c)
    simp only [hu, Bool.false_eq_true, if_false] at h
    cases hg : getLabelThreshold P.targets o.label l with
    | error e => rw [hg] at h; cases h
    | ok r' =>
      rw [hg] at h
      cases r' with
      | none => cases h
      | some v =>
        cases h
        simp only [hR, false_and, not_false_eq_true, true_and, false_or]
        exact getLabelThreshold_ok hg t

/-- what a range / confidence stage decides -/
theorem stage_ok {P : Params} {o : Obj} {ok b : Bool} {l? : Option (List Rat)}
    {unk : List Rat → Option Rat} {test : Rat → Bool}
    (h : stage P (useUnknown P o) o ok l? unk test = .ok b) :
    b = true ↔ ok = true ∧ ∀ l, l? = some l →
      ∃ t, ((Relaxed P o ∧ unk l = some t) ∨ (¬ Relaxed P o ∧ LabelBound P o l t)) ∧ test t = true := by
  unfold stage at h
  cases ok with
  | false => cases l? <;> (cases h; simp)
  | true =>
    cases l? with
    | none => cases h; simp
    | some l =>
      simp only at h
      cases hb : bound P (useUnknown P o) o (unk l) l with
      | error e => rw [hb] at h; cases h
      | ok r =>
        rw [hb] at h; cases h
        simp only [true_and, Option.some.injEq, forall_eq']
        cases r with
        | none =>
          simp only [cmpB, Bool.false_eq_true, false_iff]
          rintro ⟨t, ht, _⟩
          exact absurd ((bound_ok hb t).2 ht) (by simp)
        | some v =>
          simp only [cmpB]
          constructor
          · intro hv; exact ⟨v, (bound_ok hb v).1 rfl, hv⟩
          · rintro ⟨t, ht, htest⟩
            have := (bound_ok hb t).2 ht
            cases this; exact htest

theorem judged_iff (P : Params) (o : Obj) (l : List Rat) (t : Rat) :
    ((Relaxed P o ∧ mean l = some t) ∨ (¬ Relaxed P o ∧ LabelBound P o l t)) ↔ JudgedBy P o l t := by
  simp [JudgedBy, mean_eq_some]

theorem absR_lt (x t : Rat) : absR x < t ↔ -t < x ∧ x < t := by
  unfold absR
  split
  · constructor
    · intro h; constructor <;> linarith
    · intro h; linarith [h.1]
  · constructor
    · intro h; constructor <;> linarith
    · intro h; exact h.2

theorem distLt_iff (d2 t : Rat) : distLt d2 t = true ↔ 0 < t ∧ d2 < t * t := by
  simp [distLt]

theorem distGt_iff (d2 t : Rat) : distGt d2 t = true ↔ t < 0 ∨ t * t < d2 := by
  simp [distGt]

theorem stageLabel_iff (P : Params) (o : Obj) :
    stageLabel P (useUnknown P o) o = true ↔ LabelOK P o := by
  unfold stageLabel LabelOK
  by_cases hu : useUnknown P o = true
  · have hR := (useUnknown_iff P o).1 hu
    simp only [hu, if_true, hR, true_or, iff_true]
    split <;> rfl
  · have hR : ¬ Relaxed P o := fun c => hu ((useUnknown_iff P o).2 c)
    simp only [hu, Bool.false_eq_true, if_false, hR, false_or]
    cases hT : P.targets with
    | none => simp
    | some ts =>
      cases ts with
      | nil => simp
      | cons t ts => simp

theorem containsKey_iff (o : Obj) (k : String) : containsKey o k = true ↔ HasKey o k := by
  simp [containsKey, HasKey, isInfix_iff]

theorem stageAttr_iff (P : Params) (o : Obj) (ok : Bool) :
    stageAttr P (useUnknown P o) o ok = true ↔ ok = true ∧ AttrOK P o := by
  unfold stageAttr AttrOK
  by_cases hu : useUnknown P o = true
  · have hR := (useUnknown_iff P o).1 hu
    cases P.ignoreAttrs <;> simp [hu, hR]
  · have hR : ¬ Relaxed P o := fun c => hu ((useUnknown_iff P o).2 c)
    cases hA : P.ignoreAttrs with
    | none => simp
    | some ks =>
      simp only [hu, Bool.false_eq_true, if_false, Bool.and_eq_true, Bool.not_eq_true', hR, false_or,
        Option.some.injEq, forall_eq', containsAny]
      rw [← Bool.not_eq_true, List.any_eq_true]
      simp [containsKey_iff]

theorem stageConf_ok {P : Params} {o : Obj} {ok b : Bool}
    (h : stage P (useUnknown P o) o ok P.conf (fun _ => some 0) (fun t => decide (t < o.score)) = .ok b) :
    b = true ↔ ok = true ∧ ConfOK P o := by
  rw [stage_ok h]
  apply and_congr Iff.rfl
  unfold ConfOK
  apply forall_congr'; intro l
  apply imp_congr Iff.rfl
  constructor
  · rintro ⟨t, (⟨hR, ht⟩ | ⟨hR, ht⟩), hs⟩
    · cases ht; left; exact ⟨hR, by simpa using hs⟩
    · right; exact ⟨hR, t, ht, by simpa using hs⟩
  · rintro (⟨hR, hs⟩ | ⟨hR, t, ht, hs⟩)
    · exact ⟨0, Or.inl ⟨hR, rfl⟩, by simpa using hs⟩
    · exact ⟨t, Or.inr ⟨hR, ht⟩, by simpa using hs⟩

theorem stageRangeList_ok {P : Params} {o : Obj} {ok b : Bool} {l? : Option (List Rat)} {test : Rat → Bool}
    (h : stage P (useUnknown P o) o ok l? mean test = .ok b) :
    b = true ↔ ok = true ∧ ∀ l, l? = some l → ∃ t, JudgedBy P o l t ∧ test t = true := by
  rw [stage_ok h]
  simp only [judged_iff]

theorem position_ok {P : Params} {o : Obj} {pos : Option Pos} (h : position P o = .ok pos) (p : Pos) :
    pos = some p ↔ EgoPos P o p := by
  unfold position at h
  unfold EgoPos
  by_cases hf : o.frame = "base_link"
  · simp only [hf, beq_self_eq_true, Bool.and_true, if_true] at h
    simp only [hf, true_and, ne_eq, not_true_eq_false, false_and, or_false]
    cases hT : P.hasTransforms with
    | false =>
      simp only [hT, Bool.not_false, if_true] at h
      cases hp : o.pos with
      | none => rw [hp] at h; cases h
      | some q => rw [hp] at h; cases h; rfl
    | true =>
      simp only [hT, Bool.not_true, Bool.false_eq_true, if_false, Bool.and_true] at h
      cases hp : o.pos with
      | none => rw [hp] at h; simp at h; cases h; simp
      | some q => rw [hp] at h; simp at h; cases h; rfl
  · have hf' : (o.frame == "base_link") = false := by simpa using hf
    simp only [hf', Bool.and_false, Bool.false_eq_true, if_false] at h
    simp only [hf, false_and, ne_eq, not_false_eq_true, true_and, false_or]
    cases hT : P.hasTransforms with
    | false =>
      simp only [hT, Bool.and_false, Bool.false_eq_true, if_false] at h
      cases h; simp
    | true =>
      simp only [hT, Bool.and_true] at h
      cases hp : o.pos with
      | none => rw [hp] at h; simp at h; cases h; simp
      | some q =>
        rw [hp] at h
        simp only [Option.isSome_some, if_true] at h
        cases he : o.egoPos with
        | none => rw [he] at h; cases h
        | some e => rw [he] at h; cases h; simp

theorem stagePts_ok {P : Params} {o : Obj} {ok b : Bool}
    (h : stagePts P (useUnknown P o) o ok = .ok b) : b = true ↔ ok = true ∧ PtsOK P o := by
  unfold stagePts at h
  unfold PtsOK
  cases ok with
  | false => simp at h; cases h; simp
  | true =>
    cases hG : P.isGt with
    | false => simp [hG] at h; cases h; simp
    | true =>
      have hu : useUnknown P o = false := by
        rw [← Bool.not_eq_true, useUnknown_iff]; intro hR; rw [hR.2.1] at hG; cases hG
      simp only [hG, Bool.and_true, hu, Bool.false_eq_true, if_false] at h
      cases hM : P.minPts with
      | none => rw [hM] at h; cases h; simp
      | some l =>
        rw [hM] at h
        simp only at h
        cases hg : getLabelThreshold P.targets o.label l with
        | error e => rw [hg] at h; cases h
        | ok n? =>
          rw [hg] at h
          simp only at h
          cases h2 : o.is2d with
          | true => rw [h2] at h; cases h
          | false =>
            rw [h2] at h
            simp only [Bool.false_eq_true, if_false] at h
            simp only [true_and, Option.some.injEq, forall_eq', forall_const]
            cases hc : o.pcNum with
            | none => rw [hc] at h; cases h
            | some c =>
              rw [hc] at h
              cases n? with
              | none => cases h
              | some n =>
                cases h
                have hb := (getLabelThreshold_ok hg n).1 rfl
                simp only [decide_eq_true_eq]
                constructor
                · intro hle; exact ⟨n, c, hb, rfl, hle⟩
                · rintro ⟨n', c', hb', hc', hle⟩
                  cases hc'; rw [labelBound_unique hb hb']; exact hle

theorem stageUuid_iff (P : Params) (o : Obj) (ok : Bool) :
    stageUuid P o ok = true ↔ ok = true ∧ UuidOK P o := by
  unfold stageUuid UuidOK
  cases ok with
  | false => simp
  | true =>
    cases hG : P.isGt with
    | false => simp
    | true =>
      cases hU : P.uuids with
      | none => simp
      | some us =>
        cases hu : o.uuid with
        | none => simp
        | some u => simp

theorem stageRange_ok {P : Params} {o : Obj} {pos : Option Pos} {ok b : Bool}
    (h : stageRange P (useUnknown P o) o pos ok = .ok b) :
    b = true ↔ ok = true ∧ ∀ p, pos = some p → RangeOK P o p := by
  unfold stageRange at h
  cases pos with
  | none => cases h; simp
  | some p =>
    simp only at h
    cases h1 : stage P (useUnknown P o) o ok P.maxX mean (fun t => decide (absR p.x < t)) with
    | error e => rw [h1] at h; cases h
    | ok ok1 =>
    rw [h1] at h; simp only at h
    cases h2 : stage P (useUnknown P o) o ok1 P.maxY mean (fun t => decide (absR p.y < t)) with
    | error e => rw [h2] at h; cases h
    | ok ok2 =>
    rw [h2] at h; simp only at h
    cases h3 : stage P (useUnknown P o) o ok2 P.maxDist mean (fun t => distLt p.d2 t) with
    | error e => rw [h3] at h; cases h
    | ok ok3 =>
    rw [h3] at h; simp only at h
    cases h4 : stage P (useUnknown P o) o ok3 P.minDist mean (fun t => distGt p.d2 t) with
    | error e => rw [h4] at h; cases h
    | ok ok4 =>
    rw [h4] at h; simp only at h
    rw [stagePts_ok h, stageRangeList_ok h4, stageRangeList_ok h3, stageRangeList_ok h2,
      stageRangeList_ok h1]
    simp only [Option.some.injEq, forall_eq', RangeOK, XOK, YOK, MaxDistOK, MinDistOK, decide_eq_true_eq,
      absR_lt, distLt_iff, distGt_iff, Pos.d2, and_assoc]

/-- **the transcribed code decides exactly the declarative criteria** (whenever it returns) -/
theorem isTarget_ok_iff {P : Params} {o : Obj} {b : Bool} (h : isTarget P o = .ok b) :
    b = true ↔ Criteria P o := by
  unfold isTarget at h
  unfold Criteria
  by_cases hfp : isFP o.label = true
  · rw [if_pos hfp] at h; cases h
    simp [(isFP_iff _).1 hfp]
  · rw [if_neg hfp] at h
    have hnfp : ¬ IsFP o.label := fun c => hfp ((isFP_iff _).2 c)
    simp only at h
    cases h1 : stage P (useUnknown P o) o (stageAttr P (useUnknown P o) o (stageLabel P (useUnknown P o) o))
        P.conf (fun _ => some 0) (fun t => decide (t < o.score)) with
    | error e => rw [h1] at h; cases h
    | ok ok2 =>
    rw [h1] at h; simp only at h
    cases h2 : position P o with
    | error e => rw [h2] at h; cases h
    | ok pos =>
    rw [h2] at h; simp only at h
    cases h3 : stageRange P (useUnknown P o) o pos ok2 with
    | error e => rw [h3] at h; cases h
    | ok ok3 =>
    rw [h3] at h; cases h
    rw [stageUuid_iff, stageRange_ok h3, stageConf_ok h1, stageAttr_iff, stageLabel_iff]
    simp only [hnfp, false_or, position_ok h2, and_assoc]

end PEval.Filter
