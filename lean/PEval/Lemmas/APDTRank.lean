import Mathlib.Tactic.Ring
import Mathlib.Tactic.Linarith
import PEval.Lemmas.APDTBridge
/-!
The remaining bridges of the AP tables (a) — `Ap.__init__` up to `tp_list` / `fp_list` — for ALL inputs
(does not import `PEval.Gen.*`, so Lake caches it):

* COVERAGE. `rankPat cs` (rank of every entry = number of entries strictly below it) is, for a list of rationals of ANY
  length, order-isomorphic to the list (`rankPat_iso`), a fixed point of `countRank` and a member of the enumerated weak
  orderings `countPatterns cs.length` (`rankPat_mem_countPatterns`); hence for every list of ≤ 3 numbers one of the
  enumerated rank patterns applies (`rankPat_mem_tpfpShapes`, `rankPat_mem_patShapes`): "some table row applies to every
  input of length ≤ 3" is a theorem, not a construction argument of the translator.
* BRIDGE. `valAP` is the valuation a concrete result list induces on the atoms hasGt / inTargets / isTp, `envW` the
  assignment of the weight variables `w j`. `tpfp_bridge`: whenever the model's `apOf` answers (no exception), its
  `tp_list` / `fp_list` / "ap defined" are the skeleton `tpfpAtoms pat G` read at `valAP` / `envW`, for every pattern `pat`
  ordered like the confidences (classification AND cumulative sums AND ranking; any number of results).
-/
namespace PEval.APDT
open PEval.AP PEval.ClearDT

/-! ### coverage: every list of numbers has its rank pattern among the enumerated ones -/

/-- the rank pattern of a list of numbers: entry ↦ number of entries strictly below it -/
def rankPat (cs : List Rat) : List Nat := cs.map fun x => cs.countP (· < x)

theorem countP_lt_countP {α : Type} (p q : α → Bool) :
    ∀ (l : List α), (∀ a ∈ l, p a = true → q a = true) → (∃ w ∈ l, q w = true ∧ p w = false) →
      l.countP p < l.countP q := by
  intro l
  induction l with
  | nil => intro _ h; obtain ⟨w, hw, _⟩ := h; simp at hw
  | cons a l ih =>
    intro himp hex
    have himp' : ∀ b ∈ l, p b = true → q b = true := fun b hb => himp b (by simp [hb])
    have hle : l.countP p ≤ l.countP q := List.countP_mono_left himp'
    obtain ⟨w, hw, hqw, hpw⟩ := hex
    simp only [List.mem_cons] at hw
    rcases hw with rfl | hw
    · simp only [List.countP_cons, hqw, hpw, if_true, Bool.false_eq_true, if_false]
      omega
    · have := ih himp' ⟨w, hw, hqw, hpw⟩
      have ha := himp a (by simp)
      simp only [List.countP_cons]
      cases hp : p a
      · simp only [Bool.false_eq_true, if_false]
        split <;> omega
      · simp only [ha hp, if_true]
        omega

theorem rank_lt_iff (cs : List Rat) (x y : Rat) (hx : x ∈ cs) :
    cs.countP (· < x) < cs.countP (· < y) ↔ x < y := by
  constructor
  · intro h
    by_contra hn
    have hyx : y ≤ x := not_lt.1 hn
    have : cs.countP (· < y) ≤ cs.countP (· < x) := by
      apply List.countP_mono_left
      intro z _ hz
      simp only [decide_eq_true_eq] at hz ⊢
      exact lt_of_lt_of_le hz hyx
    omega
  · intro h
    apply countP_lt_countP
    · intro z _ hz
      simp only [decide_eq_true_eq] at hz ⊢
      exact lt_trans hz h
    · exact ⟨x, hx, by simpa using h, by simp⟩

theorem rank_lt_length (cs : List Rat) (x : Rat) (hx : x ∈ cs) : cs.countP (· < x) < cs.length := by
  have := countP_lt_countP (fun z => decide (z < x)) (fun _ => true) cs (fun _ _ _ => rfl) ⟨x, hx, rfl, by simp⟩
  simpa using this

theorem rankPat_length (cs : List Rat) : (rankPat cs).length = cs.length := by simp [rankPat]

theorem getD_mem {cs : List Rat} {i : Nat} (hi : i < cs.length) : cs.getD i 0 ∈ cs := by
  simp [List.getD_eq_getElem?_getD, List.getElem?_eq_getElem hi]

theorem rankPat_getD (cs : List Rat) {i : Nat} (hi : i < cs.length) :
    (rankPat cs).getD i 0 = cs.countP (· < cs.getD i 0) := by
  simp [rankPat, List.getD_eq_getElem?_getD, List.getElem?_eq_getElem hi]

/-- the rank pattern is ordered like the list (any length) -/
theorem rankPat_iso (cs : List Rat) (i j : Nat) (hi : i < cs.length) (hj : j < cs.length) :
    (rankPat cs).getD i 0 < (rankPat cs).getD j 0 ↔ cs.getD i 0 < cs.getD j 0 := by
  rw [rankPat_getD cs hi, rankPat_getD cs hj]
  exact rank_lt_iff cs _ _ (getD_mem hi)

/-- the same in the form the ranking bridge `table_ranking_is_model_sort` asks for -/
theorem rankPat_iso_cast (cs : List Rat) (i j : Nat) (hi : i < cs.length) (hj : j < cs.length) :
    (((rankPat cs).getD i 0 : Nat) : Rat) < (((rankPat cs).getD j 0 : Nat) : Rat) ↔ cs.getD i 0 < cs.getD j 0 := by
  rw [← rankPat_iso cs i j hi hj]
  exact Nat.cast_lt

/-- the same in the form the area bridge `areaModel_eval` asks for -/
theorem rankPat_iso_gt (cs : List Rat) (i j : Nat) (hi : i < cs.length) (hj : j < cs.length) :
    (rankPat cs).getD i 0 > (rankPat cs).getD j 0 ↔ cs.getD i 0 > cs.getD j 0 :=
  rankPat_iso cs j i hj hi

theorem countRank_rankPat (cs : List Rat) : countRank (rankPat cs) = rankPat cs := by
  unfold countRank rankPat
  rw [List.map_map]
  apply List.map_congr_left
  intro x hx
  simp only [Function.comp, List.countP_map]
  apply List.countP_congr
  intro z hz
  simp only [Function.comp, decide_eq_true_eq]
  exact rank_lt_iff cs z x hz

theorem mem_allLists (n : Nat) : ∀ (k : Nat) (l : List Nat), l ∈ allLists n k ↔ l.length = k ∧ ∀ x ∈ l, x < n := by
  intro k
  induction k with
  | zero =>
    intro l
    simp only [allLists, List.mem_singleton]
    constructor
    · rintro rfl; simp
    · rintro ⟨h, _⟩; exact List.length_eq_zero_iff.1 h
  | succ k ih =>
    intro l
    simp only [allLists, List.mem_flatMap, List.mem_range, List.mem_map]
    constructor
    · rintro ⟨x, hx, t, ht, rfl⟩
      obtain ⟨h1, h2⟩ := (ih t).1 ht
      refine ⟨by simp [h1], ?_⟩
      intro y hy
      simp only [List.mem_cons] at hy
      rcases hy with rfl | hy
      · exact hx
      · exact h2 y hy
    · rintro ⟨h1, h2⟩
      cases l with
      | nil => simp at h1
      | cons x t =>
        refine ⟨x, h2 x (by simp), t, (ih t).2 ⟨by simpa using h1, fun y hy => h2 y (by simp [hy])⟩, rfl⟩

theorem rankPat_mem_allLists (cs : List Rat) : rankPat cs ∈ allLists cs.length cs.length := by
  rw [mem_allLists]
  refine ⟨rankPat_length cs, ?_⟩
  intro x hx
  simp only [rankPat, List.mem_map] at hx
  obtain ⟨y, hy, rfl⟩ := hx
  exact rank_lt_length cs y hy

/-- COVERAGE, any length: the rank pattern of a list of `n` numbers is one of the enumerated weak orderings of `n` items -/
theorem rankPat_mem_countPatterns (cs : List Rat) : rankPat cs ∈ countPatterns cs.length := by
  unfold countPatterns
  rw [List.mem_filter]
  exact ⟨rankPat_mem_allLists cs, by simp [countRank_rankPat]⟩

/-- COVERAGE of the tables (a): every list of 1 … 3 confidences has its row among the tabulated shapes -/
theorem rankPat_mem_tpfpShapes (cs : List Rat) (h1 : 1 ≤ cs.length) (h3 : cs.length ≤ 3) :
    (rankPat cs, 1) ∈ tpfpShapes := by
  have h := rankPat_mem_countPatterns cs
  unfold tpfpShapes
  apply List.mem_append_right
  rw [List.mem_map]
  refine ⟨rankPat cs, ?_, rfl⟩
  simp only [List.mem_append]
  have : cs.length = 1 ∨ cs.length = 2 ∨ cs.length = 3 := by omega
  rcases this with hl | hl | hl <;> rw [hl] at h
  · exact Or.inl (Or.inl h)
  · exact Or.inl (Or.inr h)
  · exact Or.inr h

/-- COVERAGE of the tables (b): every list of `lo … 3` precisions has its row among `patShapes lo` -/
theorem rankPat_mem_patShapes (lo : Nat) (cs : List Rat) (h1 : lo ≤ cs.length) (h3 : cs.length ≤ 3) :
    rankPat cs ∈ patShapes lo := by
  unfold patShapes
  rw [List.mem_flatMap]
  refine ⟨cs.length, ?_, rankPat_mem_allLists cs⟩
  rw [List.mem_filter, List.mem_range]
  exact ⟨by omega, by simpa using h1⟩

/-! ### the valuation of a concrete result list -/

def sideLabel (r : Res) (gtSide : Bool) : Option Label :=
  if gtSide then r.gt.map (·.label) else some r.label

/-- the threshold `get_label_threshold` answers for result `j`'s ground-truth / estimate label (`none`: no threshold, or the lookup raised) -/
def thrOfAP (targets : List Label) (thrs : List Rat) (rs : List Res) (j : Nat) (gtSide : Bool) : Option Rat :=
  (rs[j]?).bind fun r => (sideLabel r gtSide).bind fun l =>
    match getLabelThreshold l targets (some thrs) with
    | .ok (some t) => some t
    | _ => none

def correctB (m : Mode) (t : Rat) (r : Res) : Bool :=
  match isResultCorrect m (some t) r with
  | .ok true => true
  | _ => false

/-- the valuation of the atoms of the (a) tables that a concrete result list (input order) induces -/
def valAP (m : Mode) (targets : List Label) (thrs : List Rat) (rs : List Res) : Val where
  b := fun a =>
    match a with
    | .hasGt (.cur j) => match rs[j]? with
      | some r => r.gt.isSome
      | none => false
    | .inTargets j s => (thrOfAP targets thrs rs j s).isSome
    | .isTp (.cur i) j s => match rs[i]?, thrOfAP targets thrs rs j s with
      | some r, some t => correctB m t r
      | _, _ => false
    | _ => false
  o := fun _ => .eq

theorem valAP_consistent (m : Mode) (targets : List Label) (thrs : List Rat) (rs : List Res) :
    (valAP m targets thrs rs).consistent := by
  refine ⟨?_, by simp [valAP]⟩
  intro r j s h
  cases r with
  | prev i => simp [valAP] at h
  | cur i =>
    simp only [valAP] at h ⊢
    cases hr : rs[i]? with
    | none => simp [hr] at h
    | some x =>
      cases ht : thrOfAP targets thrs rs j s with
      | none => simp [hr, ht] at h
      | some t =>
        simp only [hr, ht, correctB] at h
        simp only
        cases hg : x.gt with
        | none => simp [isResultCorrect, hg] at h
        | some g => rfl

/-- the weight variables `w j` read on a concrete result list: `tp_metrics.get_value(result j)` -/
def envW (tm : TpMetric) (rs : List Res) : Var → Rat := fun v =>
  if v.1 = "w" then (match rs[v.2]? with
    | some r => tpValue tm r
    | none => 0) else 0

/-- a symbolic kind read on a concrete result list -/
def kOf (tm : TpMetric) (rs : List Res) : K → Kind
  | .tp j => (match rs[j]? with
    | some r => .tp (tpValue tm r)
    | none => .ignored)
  | .fp => .fp
  | .ign => .ignored

theorem thrOfAP_key (targets : List Label) (thrs : List Rat) (rs : List Res) (j : Nat) (r : Res) (hr : rs[j]? = some r) :
    thrOfAP targets thrs rs j r.gt.isSome =
      match getLabelThreshold (keyLabel r) targets (some thrs) with
      | .ok (some t) => some t
      | _ => none := by
  unfold thrOfAP sideLabel keyLabel
  simp only [hr, Option.bind_some]
  cases r.gt <;> simp

/-- the loop body of `_calculate_tp_fp` of the model on result `j` = the skeleton's kind at the induced valuation -/
theorem kind_bridge (tm : TpMetric) (m : Mode) (targets : List Label) (thrs : List Rat) (rs : List Res) (j : Nat)
    (r : Res) (hr : rs[j]? = some r) (k : Kind) (hk : classify tm m targets thrs r = .ok k) :
    k = kOf tm rs (kindAtoms (valAP m targets thrs rs) j) := by
  have hgt : (valAP m targets thrs rs).b (.hasGt (.cur j)) = r.gt.isSome := by simp [valAP, hr]
  have hthr := thrOfAP_key targets thrs rs j r hr
  unfold classify at hk
  unfold kindAtoms
  rw [hgt]
  cases hl : getLabelThreshold (keyLabel r) targets (some thrs) with
  | error e => simp [hl] at hk
  | ok ot =>
    cases ot with
    | none =>
      simp only [hl] at hk hthr
      have : (valAP m targets thrs rs).b (.inTargets j r.gt.isSome) = false := by simp [valAP, hthr]
      simp only [this, Bool.not_false, if_true, kOf]
      cases hk
      rfl
    | some t =>
      simp only [hl] at hk hthr
      have h1 : (valAP m targets thrs rs).b (.inTargets j r.gt.isSome) = true := by simp [valAP, hthr]
      have h2 : (valAP m targets thrs rs).b (.isTp (.cur j) j r.gt.isSome) = correctB m t r := by
        simp [valAP, hr, hthr]
      simp only [h1, h2, Bool.not_true, Bool.false_eq_true, if_false, correctB]
      cases hc : isResultCorrect m (some t) r with
      | error e => simp [hc] at hk
      | ok b =>
        cases b
        · simp only [hc] at hk
          cases hk
          simp [kOf]
        · simp only [hc] at hk
          cases hk
          simp [kOf, hr]

theorem classifyAll_bridge (tm : TpMetric) (m : Mode) (targets : List Label) (thrs : List Rat) (rs : List Res) :
    ∀ (l : List (Res × Nat)), (∀ p ∈ l, rs[p.2]? = some p.1) → ∀ ks,
      classifyAll tm m targets thrs (l.map (·.1)) = .ok ks →
      ks = l.map fun p => kOf tm rs (kindAtoms (valAP m targets thrs rs) p.2) := by
  intro l
  induction l with
  | nil => intro _ ks h; simp [classifyAll] at h; subst h; rfl
  | cons p l ih =>
    intro hmem ks h
    simp only [List.map_cons, classifyAll] at h
    cases hc : classify tm m targets thrs p.1 with
    | error e => simp [hc] at h
    | ok k =>
      cases hr : classifyAll tm m targets thrs (l.map (·.1)) with
      | error e => simp [hc, hr] at h
      | ok ks' =>
        simp only [hc, hr] at h
        cases h
        rw [List.map_cons, ← ih (fun q hq => hmem q (by simp [hq])) ks' hr,
          ← kind_bridge tm m targets thrs rs p.2 p.1 (hmem p (by simp)) k hc]

/-- the model's ranking of a result list, as ranking of the input positions -/
theorem sortDesc_zipIdx (rs : List Res) :
    ∃ sz : List (Res × Nat), (∀ p ∈ sz, rs[p.2]? = some p.1) ∧ sz.map (·.1) = sortDesc Res.conf rs ∧
      sz.map (·.2) = sortDesc (fun j => (rs.map Res.conf).getD j 0) (List.range rs.length) := by
  refine ⟨sortDesc (fun p => p.1.conf) rs.zipIdx, ?_, ?_, ?_⟩
  · intro p hp
    have : p ∈ rs.zipIdx := (sortDesc_perm _ _).mem_iff.1 hp
    exact List.mem_zipIdx_iff_getElem?.1 this
  · rw [← sortDesc_map Res.conf (fun p : Res × Nat => p.1)]
    simp
  · have hkey : sortDesc (fun p : Res × Nat => p.1.conf) rs.zipIdx =
        sortDesc (fun p : Res × Nat => (rs.map Res.conf).getD p.2 0) rs.zipIdx := by
      apply sortDesc_congr
      intro a ha b hb
      have ha' := List.mem_zipIdx_iff_getElem?.1 ha
      have hb' := List.mem_zipIdx_iff_getElem?.1 hb
      simp [List.getD_eq_getElem?_getD, List.getElem?_map, ha', hb']
    rw [hkey, ← sortDesc_map (fun j => (rs.map Res.conf).getD j 0) (fun p : Res × Nat => p.2)]
    congr 1
    simp [List.zipIdx_map_snd, List.range_eq_range']

/-! ### reading the leaves at the weights -/

def sumW (env : Var → Rat) (acc : List Nat) : Rat := (acc.map fun j => env ("w", j)).sum

theorem evalNF_wTerms (env : Var → Rat) (acc : List Nat) : evalNF env (acc.map wTerm) = sumW env acc := by
  induction acc with
  | nil => simp [evalNF, sumW]
  | cons j acc ih =>
    simp only [List.map_cons, wTerm, evalNF, evalMono, sumW, List.sum_cons] at ih ⊢
    rw [ih]
    simp [npow]

theorem sumW_insW (env : Var → Rat) (j : Nat) (acc : List Nat) : sumW env (insW j acc) = sumW env acc + env ("w", j) := by
  induction acc with
  | nil => simp [insW, sumW]
  | cons x xs ih =>
    unfold insW
    split
    · simp [sumW]; ring
    · simp only [sumW, List.map_cons, List.sum_cons] at ih ⊢
      rw [ih]
      ring

theorem evalNF_natNF (env : Var → Rat) (c : Nat) : evalNF env (natNF c) = (c : Rat) := by
  unfold natNF
  split
  · next h => subst h; simp [evalNF]
  · simp [evalNF, evalMono]

theorem tpw_kOf (tm : TpMetric) (rs : List Res) (k : K) :
    (kOf tm rs k).tpw = match k with
      | .tp j => envW tm rs ("w", j)
      | _ => 0 := by
  cases k with
  | tp j =>
    simp only [kOf, envW, if_true]
    cases rs[j]? <;> rfl
  | fp => rfl
  | ign => rfl

/-- the running sums of the skeleton, read at the weights, are the model's `np.cumsum`s -/
theorem prefixes_eval (tm : TpMetric) (rs : List Res) :
    ∀ (ks : List K) (acc : List Nat) (c : Nat),
      (prefixes acc c ks).1.map (evalNF (envW tm rs)) =
        cumsumFrom (sumW (envW tm rs) acc) (ks.map fun k => (kOf tm rs k).tpw) ∧
      (prefixes acc c ks).2.map (evalNF (envW tm rs)) =
        cumsumFrom (c : Rat) (ks.map fun k => (kOf tm rs k).fpw) := by
  intro ks
  induction ks with
  | nil => intro acc c; exact ⟨rfl, rfl⟩
  | cons k ks ih =>
    intro acc c
    cases k with
    | tp j =>
      obtain ⟨h1, h2⟩ := ih (insW j acc) c
      have hf : (kOf tm rs (.tp j)).fpw = 0 := by
        simp only [kOf]
        cases rs[j]? <;> rfl
      simp only [prefixes, List.map_cons, cumsumFrom, h1, h2, evalNF_wTerms, evalNF_natNF, sumW_insW, tpw_kOf, hf,
        add_zero]
      exact ⟨trivial, trivial⟩
    | fp =>
      obtain ⟨h1, h2⟩ := ih acc (c + 1)
      have e1 : (kOf tm rs .fp).tpw = 0 := rfl
      have e2 : (kOf tm rs .fp).fpw = 1 := rfl
      constructor <;> simp [prefixes, cumsumFrom, h1, h2, evalNF_wTerms, evalNF_natNF, e1, e2]
    | ign =>
      obtain ⟨h1, h2⟩ := ih acc c
      have e1 : (kOf tm rs .ign).tpw = 0 := rfl
      have e2 : (kOf tm rs .ign).fpw = 0 := rfl
      constructor <;> simp [prefixes, cumsumFrom, h1, h2, evalNF_wTerms, evalNF_natNF, e1, e2]

/-- a symbolic leaf read at the weights: `tp_list`, `fp_list`, "ap is not inf" -/
def TpFp.read (env : Var → Rat) (x : TpFp) : List Rat × List Rat × Bool :=
  (x.tp.map (evalNF env), x.fp.map (evalNF env), x.defined)

/-- `leafOfKinds` read at the weights = the model's `apOfKinds` on the kinds read on the results -/
theorem leafOfKinds_eval (tm : TpMetric) (rs : List Res) (G : Nat) (ks : List K) :
    (leafOfKinds G ks).read (envW tm rs) =
      ((apOfKinds G (ks.map (kOf tm rs))).tpList, (apOfKinds G (ks.map (kOf tm rs))).fpList,
       (apOfKinds G (ks.map (kOf tm rs))).ap.isSome) := by
  unfold leafOfKinds apOfKinds tpFpLists TpFp.read
  cases ks with
  | nil =>
    by_cases hG : G = 0
    · simp [hG]
    · simp only [List.isEmpty_nil, if_true, hG, if_false, List.map_nil, Option.isSome_none, List.map_replicate, evalNF,
        List.map_map]
      refine Prod.ext rfl (Prod.ext ?_ rfl)
      apply List.map_congr_left
      intro i _
      simp only [Function.comp, evalNF_natNF]
      push_cast
      rfl
  | cons k ks =>
    obtain ⟨h1, h2⟩ := prefixes_eval tm rs (k :: ks) [] 0
    simp only [List.isEmpty_cons, Bool.false_eq_true, if_false, List.map_cons, Option.isSome_some, cumsum]
    simp only [List.map_cons] at h1 h2
    rw [h1, h2]
    refine Prod.ext ?_ (Prod.ext ?_ rfl) <;> simp [sumW] <;> rfl

/-- **THE BRIDGE of (a)**, any number of results: whenever the model's `Ap` answers (no exception), its `tp_list`,
`fp_list` and "ap defined" are the skeleton `tpfpAtoms pat G` — ranking by `sortIdx pat`, classification over the atoms,
running sums — read at the valuation and the weights the result list induces, for EVERY pattern ordered like the
confidences. -/
theorem tpfp_bridge (tm : TpMetric) (m : Mode) (targets : List Label) (thrs : List Rat) (G : Nat) (rs : List Res)
    (pat : List Nat) (hlen : pat.length = rs.length)
    (hiso : ∀ i j, i < rs.length → j < rs.length →
      (pat.getD i 0 < pat.getD j 0 ↔ (rs.map Res.conf).getD i 0 < (rs.map Res.conf).getD j 0))
    (out : ApOut) (hout : apOf tm m targets thrs G rs = .ok out) :
    (tpfpAtoms pat G (valAP m targets thrs rs)).read (envW tm rs) = (out.tpList, out.fpList, out.ap.isSome) := by
  unfold apOf at hout
  cases hc : classifyAll tm m targets thrs (sortDesc Res.conf rs) with
  | error e => simp [hc] at hout
  | ok ks =>
    simp only [hc] at hout
    split at hout
    · cases hout
    · cases hout
      obtain ⟨sz, hmem, hfst, hsnd⟩ := sortDesc_zipIdx rs
      rw [← hfst] at hc
      have hks := classifyAll_bridge tm m targets thrs rs sz hmem ks hc
      have hidx : sortIdx pat = sz.map (·.2) := by
        rw [hsnd]
        unfold sortIdx
        rw [hlen]
        apply sortDesc_congr
        intro a ha b hb
        simp only [List.mem_range] at ha hb
        rw [← hiso a b ha hb]
        exact Nat.cast_lt
      unfold tpfpAtoms
      rw [leafOfKinds_eval, hidx, hks]
      simp only [List.map_map]
      rfl

/-- for a non-empty result list the ground-truth count does not enter `tp_list` / `fp_list` (the rows are tabulated with G = 1) -/
theorem tpfpAtoms_G (pat : List Nat) (hp : pat ≠ []) (G G' : Nat) (v : Val) : tpfpAtoms pat G v = tpfpAtoms pat G' v := by
  unfold tpfpAtoms leafOfKinds
  have : ((sortIdx pat).map (kindAtoms v)).isEmpty = false := by
    have hl : (sortIdx pat).length = pat.length := by
      unfold sortIdx
      rw [(sortDesc_perm _ _).length_eq, List.length_range]
    cases hs : sortIdx pat with
    | nil => rw [hs] at hl; exact absurd (List.length_eq_zero_iff.1 hl.symm) hp
    | cons a l => rfl
  simp [this]

end PEval.APDT
