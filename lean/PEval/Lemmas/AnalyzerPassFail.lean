import PEval.Lemmas.AnalyzerCounts
/-!
# C19 lemmas (7): the lists produced by (the model of) `PassFailResult.evaluate` are well formed

For object results whose ground truths are pairwise distinct members of a duplicate-free critical
ground-truth list, `passFail` yields a frame satisfying `Frame.WF`; moreover the ordinary ground truths
kept in FP results are exactly the FN objects contributed by the first loop of `get_negative_objects`
— the double tabulation of finding F11.  Core Lean only.
-/

set_option linter.unusedSimpArgs false
set_option linter.unnecessarySimpa false

namespace PEval.Analyzer

/-- ground truths carried by the object results -/
def resGts (results : List (Pair × Bool)) : List Obj := results.filterMap (·.1.gt)

theorem gtsWith_isSome (results : List (Pair × Bool)) : gtsWith (·.isSome) results = resGts results := by
  unfold gtsWith resGts
  congr 1
  funext ⟨p, c⟩
  cases hg : p.gt with
  | none => simp [getStatus, hg]
  | some g => cases c <;> cases hf : g.isFp <;> simp [getStatus, hg, hf]

theorem getPositive_tp_has_gt (results : List (Pair × Bool)) : ∀ p ∈ (getPositive results).1, p.gt.isSome = true := by
  induction results with
  | nil => simp [getPositive]
  | cons pc rest ih =>
    obtain ⟨p, c⟩ := pc
    cases hg : p.gt with
    | none => simpa [getPositive, hg] using ih
    | some g =>
      cases c <;> cases hf : g.isFp <;> simp [getPositive, getStatus, hg, hf] <;> first | exact ih | skip
      all_goals exact ⟨by simp [hg], ih⟩

theorem getStatus_some (p : Pair) (c : Bool) (g : Obj) (hg : p.gt = some g) :
    getStatus p c = if c then (if g.isFp then (.FP, some .TN) else (.TP, some .TP))
      else (if g.isFp then (.FP, some .FP) else (.FP, some .FN)) := by
  simp [getStatus, hg]

theorem getStatus_none (p : Pair) (c : Bool) (hg : p.gt = none) : getStatus p c = (.FP, none) := by
  simp [getStatus, hg]

/-- the ordinary ground truths kept in FP results are exactly the first-loop FN objects -/
theorem fpOrd_eq_fn1 (results : List (Pair × Bool)) :
    (((getPositive results).2.filterMap (·.gt)).filter fun g => !g.isFp) = gtsWith (· == some .FN) results := by
  induction results with
  | nil => simp [getPositive, gtsWith]
  | cons pc rest ih =>
    obtain ⟨p, c⟩ := pc
    unfold gtsWith at ih ⊢
    cases hg : p.gt with
    | none =>
      have hs := getStatus_none p c hg
      simp only [getPositive, hg, List.filterMap_cons, hs]
      simpa using ih
    | some g =>
      have hs := getStatus_some p c g hg
      cases c <;> cases hf : g.isFp <;> simp only [hf, if_true, if_false, Bool.false_eq_true] at hs <;>
        simp only [getPositive, hg, List.filterMap_cons, hs, List.filter_cons, hf] <;> simpa using ih

/-- every carried ground truth is in exactly one of: TP ground truths, FP-labelled ground truths kept in
FP results, first-loop TN objects, first-loop FN objects -/
theorem resGts_count (results : List (Pair × Bool)) (a : Obj) :
    (resGts results).count a =
      ((getPositive results).1.filterMap (·.gt)).count a +
      (((getPositive results).2.filterMap (·.gt)).filter (·.isFp)).count a +
      (gtsWith (· == some .TN) results).count a + (gtsWith (· == some .FN) results).count a := by
  induction results with
  | nil => simp [resGts, getPositive, gtsWith]
  | cons pc rest ih =>
    obtain ⟨p, c⟩ := pc
    unfold gtsWith resGts at ih ⊢
    cases hg : p.gt with
    | none =>
      have hs := getStatus_none p c hg
      simp only [getPositive, hg, List.filterMap_cons, hs]
      simpa using ih
    | some g =>
      have hs := getStatus_some p c g hg
      cases c <;> cases hf : g.isFp <;> simp only [hf, if_true, if_false, Bool.false_eq_true] at hs <;>
        simp only [getPositive, hg, List.filterMap_cons, hs, List.filter_cons, hf] <;>
        simp [List.count_cons] at ih ⊢ <;> omega

theorem count_filter_split (l : List Obj) (q : Obj → Bool) (a : Obj) :
    (l.filter q).count a + (l.filter fun g => !q g).count a = l.count a := by
  induction l with
  | nil => simp
  | cons g l ih =>
    by_cases hq : q g = true <;> simp [List.filter_cons, hq, List.count_cons] <;> omega

theorem count_filter_not_mem (l nc : List Obj) (a : Obj) :
    (l.filter fun g => !(nc.contains g)).count a = if a ∈ nc then 0 else l.count a := by
  induction l with
  | nil => simp
  | cons g l ih =>
    by_cases hg : g ∈ nc
    · by_cases ha : a ∈ nc
      · simp [List.filter_cons, hg, ha] at ih ⊢; try exact ih
      · have hne : g ≠ a := fun e => ha (e ▸ hg)
        simp [List.filter_cons, hg, ha, List.count_cons, hne] at ih ⊢; try exact ih
    · by_cases ha : a ∈ nc
      · have hne : g ≠ a := fun e => hg (e ▸ ha)
        simp [List.filter_cons, hg, ha, List.count_cons, hne] at ih ⊢; try exact ih
      · simp [List.filter_cons, hg, ha, List.count_cons] at ih ⊢; try omega

/-- `PassFailResult.evaluate` yields well-formed lists -/
theorem passFail_WF (n : Nat) (critical : List Obj) (results : List (Pair × Bool))
    (hnd : critical.Nodup) (hres : (resGts results).Nodup) (hsub : ∀ g ∈ resGts results, g ∈ critical) :
    (passFail n critical results).WF := by
  refine ⟨?_, ?_, ?_⟩
  · exact getPositive_tp_has_gt results
  · apply List.perm_iff_count.mpr
    intro a
    have h1 := resGts_count results a
    have h2 := count_filter_not_mem critical (gtsWith (·.isSome) results) a
    have h3 := count_filter_split (critical.filter fun g => !((gtsWith (·.isSome) results).contains g)) (·.isFp) a
    rw [gtsWith_isSome] at h2 h3
    have hc1 : critical.count a ≤ 1 := List.nodup_iff_count.mp hnd a
    have hc2 : (resGts results).count a ≤ 1 := List.nodup_iff_count.mp hres a
    simp only [passFail, getNegative, Frame.tpGts, Frame.fpFpl, Frame.fpGts, List.count_append, gtsWith_isSome]
    by_cases ha : a ∈ resGts results
    · have hpos : 0 < (resGts results).count a := List.count_pos_iff.mpr ha
      have hpos2 : 0 < critical.count a := List.count_pos_iff.mpr (hsub a ha)
      simp only [ha, if_true] at h2
      omega
    · have hz : (resGts results).count a = 0 := List.count_eq_zero.mpr ha
      simp only [ha, if_false] at h2
      omega
  · intro g hg
    simp only [passFail, getNegative, Frame.fpOrd, Frame.fpGts] at hg ⊢
    rw [fpOrd_eq_fn1] at hg
    exact List.mem_append_left _ hg

/-- F11 at its source: an ordinary ground truth kept in an FP result is also put into the FN list -/
theorem passFail_fpOrd (n : Nat) (critical : List Obj) (results : List (Pair × Bool)) :
    (passFail n critical results).fpOrd = gtsWith (· == some .FN) results := by
  simp only [passFail, Frame.fpOrd, Frame.fpGts]
  exact fpOrd_eq_fn1 results

end PEval.Analyzer
