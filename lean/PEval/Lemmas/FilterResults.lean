import PEval.Lemmas.FilterMono
import PEval.Lemmas.FilterList
/-!
Result level of the object filter (`filter_object_results`, model `filterResults`): totality inside the contract,
monotonicity in the bounds, invariance under rendering the scene into the map frame (C10).
-/
namespace PEval.Filter

theorem wfParams_est {P : Params} (h : WFParams P) : WFParams (estParams P) := by
  obtain ⟨ts, hT, hne, h1, h2, h3, h4, h5, _⟩ := h.targets
  exact ⟨⟨ts, hT, hne, h1, h2, h3, h4, h5, fun l hl => (by cases hl)⟩⟩

theorem wfParams_gt {P : Params} (h : WFParams P) : WFParams (gtParams P) := by
  obtain ⟨ts, hT, hne, h1, h2, h3, h4, _, h6⟩ := h.targets
  exact ⟨⟨ts, hT, hne, h1, h2, h3, h4, (fun l hl => (by cases hl)), h6⟩⟩

/-- a result is complete for the configuration: its estimate for the estimate-side arguments, its ground truth (if
any) for the ground-truth-side arguments -/
def WFRes (P : Params) (r : Res) : Prop :=
  WFObj (estParams P) r.est ∧ ∀ g, r.gt = some g → WFObj (gtParams P) g

theorem resultTarget_total {P : Params} {r : Res} (hP : WFParams P) (hr : WFRes P r) :
    ∃ b, resultTarget P r = .ok b := by
  obtain ⟨e, he⟩ := isTarget_total (wfParams_est hP) hr.1
  unfold resultTarget
  rw [he]
  cases hg : r.gt with
  | none => cases e <;> exact ⟨_, rfl⟩
  | some g =>
    cases e with
    | false => exact ⟨false, rfl⟩
    | true =>
      obtain ⟨b, hb⟩ := isTarget_total (wfParams_gt hP) (hr.2 g hg)
      exact ⟨b, hb⟩

theorem filterResults_total' {P : Params} {rs : List Res} (hP : WFParams P) (hO : ∀ r ∈ rs, WFRes P r) :
    ∃ ks, filterResults P rs = .ok ks :=
  filterE_total (fun r hr => resultTarget_total hP (hO r hr))

theorem wider_est {P P' : Params} (w : Wider P P') : Wider (estParams P) (estParams P') :=
  ⟨rfl, w.targets, rfl, rfl, w.hasTransforms, w.maxX, w.maxY, w.maxDist, w.minDist, w.conf, trivial⟩

theorem wider_gt {P P' : Params} (w : Wider P P') : Wider (gtParams P) (gtParams P') :=
  ⟨rfl, w.targets, w.ignoreAttrs, w.uuids, w.hasTransforms, w.maxX, w.maxY, w.maxDist, w.minDist, trivial, w.minPts⟩

theorem filter_sublist_of_imp_mem {α} {p q : α → Bool} : ∀ {l : List α}, (∀ a ∈ l, p a = true → q a = true) →
    (l.filter p).Sublist (l.filter q)
  | [], _ => List.Sublist.slnil
  | a :: t, h => by
    have ih := filter_sublist_of_imp_mem (l := t) (fun x hx => h x (List.mem_cons_of_mem _ hx))
    by_cases hp : p a = true
    · have hq := h a List.mem_cons_self hp
      rw [List.filter_cons_of_pos hp, List.filter_cons_of_pos hq]
      exact ih.cons_cons a
    · rw [List.filter_cons_of_neg hp]
      by_cases hq : q a = true
      · rw [List.filter_cons_of_pos hq]; exact ih.cons a
      · rw [List.filter_cons_of_neg hq]; exact ih

/-- rendering of a result into the map frame: both objects -/
def Res.renderMap (e : Pose) (r : Res) : Res := { r with est := Filter.renderMap e r.est, gt := r.gt.map (Filter.renderMap e) }

end PEval.Filter
