import PEval.Model.TransformMatrix
import PEval.Lemmas.Transform
import Mathlib.Tactic.Ring
import Mathlib.Tactic.Linarith
import Mathlib.Tactic.LinearCombination
import Mathlib.Tactic.FieldSimp
/-!
Lemmas for `PEval.Model.TransformMatrix`: equality up to sign is an equivalence compatible with the quaternion operations, it is
the SAME thing as equality of rotation matrices (for unit quaternions: the double cover has kernel `±1`), 4×4 block algebra, the
extraction contract, pyquaternion's `trace_method` and the defective closed form of seed C18_G.
-/
namespace PEval.Transform

/-! ## `SignEq` -/

theorem Quat.neg_neg' (q : Quat) : -(-q) = q := by ext <;> simp

theorem Quat.SignEq.refl (q : Quat) : q.SignEq q := Or.inl rfl

theorem Quat.SignEq.symm {p q : Quat} (h : p.SignEq q) : q.SignEq p := by
  rcases h with rfl | rfl
  · exact Or.inl rfl
  · exact Or.inr (Quat.neg_neg' q).symm

theorem Quat.SignEq.trans {p q r : Quat} (h1 : p.SignEq q) (h2 : q.SignEq r) : p.SignEq r := by
  rcases h1 with rfl | rfl <;> rcases h2 with rfl | rfl
  · exact Or.inl rfl
  · exact Or.inr rfl
  · exact Or.inr rfl
  · exact Or.inl (Quat.neg_neg' r)

theorem Quat.signEq_neg (q : Quat) : (-q).SignEq q := Or.inr rfl

theorem Quat.neg_mul_left (p q : Quat) : (-p) * q = -(p * q) := by ext <;> simp <;> ring

theorem Quat.neg_mul_right (p q : Quat) : p * (-q) = -(p * q) := by ext <;> simp <;> ring

theorem Quat.conj_neg (q : Quat) : (-q).conj = -q.conj := by ext <;> simp [Quat.conj]

theorem Quat.SignEq.mul {p p' q q' : Quat} (hp : p.SignEq p') (hq : q.SignEq q') : (p * q).SignEq (p' * q') := by
  rcases hp with rfl | rfl <;> rcases hq with rfl | rfl
  · exact Or.inl rfl
  · exact Or.inr (Quat.neg_mul_right _ _)
  · exact Or.inr (Quat.neg_mul_left _ _)
  · left; rw [Quat.neg_mul_left, Quat.neg_mul_right, Quat.neg_neg']

theorem Quat.SignEq.conj {p q : Quat} (h : p.SignEq q) : p.conj.SignEq q.conj := by
  rcases h with rfl | rfl
  · exact Or.inl rfl
  · exact Or.inr (Quat.conj_neg q)

theorem Quat.SignEq.normSq {p q : Quat} (h : p.SignEq q) : p.normSq = q.normSq := by
  rcases h with rfl | rfl
  · rfl
  · exact Quat.normSq_neg q

/-- sign-equal quaternions are the same rotation -/
theorem Quat.SignEq.rotMat_eq {p q : Quat} (h : p.SignEq q) : rotMat p = rotMat q := by
  rcases h with rfl | rfl
  · rfl
  · exact rotMat_neg q

theorem four_sq_zero {x0 x1 x2 x3 : Rat} (h : x0 * x0 + x1 * x1 + x2 * x2 + x3 * x3 = 0) :
    x0 = 0 ∧ x1 = 0 ∧ x2 = 0 ∧ x3 = 0 := by
  have n0 := mul_self_nonneg x0
  have n1 := mul_self_nonneg x1
  have n2 := mul_self_nonneg x2
  have n3 := mul_self_nonneg x3
  exact ⟨mul_self_eq_zero.1 (by linarith), mul_self_eq_zero.1 (by linarith), mul_self_eq_zero.1 (by linarith),
    mul_self_eq_zero.1 (by linarith)⟩

/-- four numbers with the same pairwise products as four others, on the unit sphere, are those others up to ONE common sign -/
theorem sign_of_products {a0 a1 a2 a3 b0 b1 b2 b3 : Rat} (hn : a0 * a0 + a1 * a1 + a2 * a2 + a3 * a3 = 1)
    (h00 : a0 * a0 = b0 * b0) (h11 : a1 * a1 = b1 * b1) (h22 : a2 * a2 = b2 * b2) (h33 : a3 * a3 = b3 * b3)
    (h01 : a0 * a1 = b0 * b1) (h02 : a0 * a2 = b0 * b2) (h03 : a0 * a3 = b0 * b3)
    (h12 : a1 * a2 = b1 * b2) (h13 : a1 * a3 = b1 * b3) (h23 : a2 * a3 = b2 * b3) :
    (a0 = b0 ∧ a1 = b1 ∧ a2 = b2 ∧ a3 = b3) ∨ (a0 = -b0 ∧ a1 = -b1 ∧ a2 = -b2 ∧ a3 = -b3) := by
  have hs : (a0 * b0 + a1 * b1 + a2 * b2 + a3 * b3) * (a0 * b0 + a1 * b1 + a2 * b2 + a3 * b3) = 1 := by
    linear_combination (-(a0 * a0)) * h00 + (-(a1 * a1)) * h11 + (-(a2 * a2)) * h22 + (-(a3 * a3)) * h33
      + (-2 * (a0 * a1)) * h01 + (-2 * (a0 * a2)) * h02 + (-2 * (a0 * a3)) * h03
      + (-2 * (a1 * a2)) * h12 + (-2 * (a1 * a3)) * h13 + (-2 * (a2 * a3)) * h23
      + (a0 * a0 + a1 * a1 + a2 * a2 + a3 * a3 + 1) * hn
  have hb : b0 * b0 + b1 * b1 + b2 * b2 + b3 * b3 = 1 := by linarith
  have hs' : (a0 * b0 + a1 * b1 + a2 * b2 + a3 * b3 - 1) * (a0 * b0 + a1 * b1 + a2 * b2 + a3 * b3 + 1) = 0 := by
    linear_combination hs
  rcases mul_eq_zero.1 hs' with h | h
  · left
    have hsum : (a0 - b0) * (a0 - b0) + (a1 - b1) * (a1 - b1) + (a2 - b2) * (a2 - b2) + (a3 - b3) * (a3 - b3) = 0 := by
      linear_combination hn + hb - 2 * h
    obtain ⟨e0, e1, e2, e3⟩ := four_sq_zero hsum
    exact ⟨by linarith, by linarith, by linarith, by linarith⟩
  · right
    have hsum : (a0 + b0) * (a0 + b0) + (a1 + b1) * (a1 + b1) + (a2 + b2) * (a2 + b2) + (a3 + b3) * (a3 + b3) = 0 := by
      linear_combination hn + hb + 2 * h
    obtain ⟨e0, e1, e2, e3⟩ := four_sq_zero hsum
    exact ⟨by linarith, by linarith, by linarith, by linarith⟩

/-- two unit quaternions with the same rotation matrix differ at most by the sign: the class `{q, −q}` IS the rotation -/
theorem signEq_of_rotMat_eq {p q : Quat} (hp : p.normSq = 1) (hq : q.normSq = 1) (h : rotMat p = rotMat q) :
    p.SignEq q := by
  have e00 := congrArg (fun m => m.r0.x) h
  have e01 := congrArg (fun m => m.r0.y) h
  have e02 := congrArg (fun m => m.r0.z) h
  have e10 := congrArg (fun m => m.r1.x) h
  have e11 := congrArg (fun m => m.r1.y) h
  have e12 := congrArg (fun m => m.r1.z) h
  have e20 := congrArg (fun m => m.r2.x) h
  have e21 := congrArg (fun m => m.r2.y) h
  have e22 := congrArg (fun m => m.r2.z) h
  simp only [rotMat] at e00 e01 e02 e10 e11 e12 e20 e21 e22
  simp only [Quat.normSq] at hp hq
  have key := sign_of_products (a0 := p.w) (a1 := p.x) (a2 := p.y) (a3 := p.z) (b0 := q.w) (b1 := q.x) (b2 := q.y)
    (b3 := q.z) hp
    (by linear_combination (1/4 : Rat) * (e00 + e11 + e22) + (1/4 : Rat) * (hp - hq))
    (by linear_combination (1/4 : Rat) * (e00 - e11 - e22) + (1/4 : Rat) * (hp - hq))
    (by linear_combination (1/4 : Rat) * (e11 - e00 - e22) + (1/4 : Rat) * (hp - hq))
    (by linear_combination (1/4 : Rat) * (e22 - e00 - e11) + (1/4 : Rat) * (hp - hq))
    (by linear_combination (1/4 : Rat) * (e21 - e12))
    (by linear_combination (1/4 : Rat) * (e02 - e20))
    (by linear_combination (1/4 : Rat) * (e10 - e01))
    (by linear_combination (1/4 : Rat) * (e10 + e01))
    (by linear_combination (1/4 : Rat) * (e02 + e20))
    (by linear_combination (1/4 : Rat) * (e21 + e12))
  rcases key with ⟨a, b, c, d⟩ | ⟨a, b, c, d⟩
  · left; ext <;> assumption
  · right; ext <;> simp [*]

theorem rotMat_eq_iff_signEq {p q : Quat} (hp : p.normSq = 1) (hq : q.normSq = 1) : rotMat p = rotMat q ↔ p.SignEq q :=
  ⟨signEq_of_rotMat_eq hp hq, Quat.SignEq.rotMat_eq⟩

/-! ## 4×4 blocks -/

theorem rotBlock_matOf (p : V3) (r : Quat) : (matOf p r).rotBlock = rotMat r := rfl

theorem posCol_matOf (p : V3) (r : Quat) : (matOf p r).posCol = p := rfl

theorem matOfMat3_rotMat (p : V3) (r : Quat) : matOfMat3 p (rotMat r) = matOf p r := rfl

theorem extractPR_matOf (ex : Mat3 → Quat) (p : V3) (r : Quat) : extractPR ex (matOf p r) = (p, ex (rotMat r)) := rfl

theorem matOf_congr (p : V3) {r r' : Quat} (h : rotMat r = rotMat r') : matOf p r = matOf p r' := by
  unfold matOf; rw [h]

/-- the `.matrix` attribute does not see the sign of the quaternion -/
theorem toMat_congr {a b : HM} (hp : a.pos = b.pos) (hr : rotMat a.rot = rotMat b.rot) : toMat a = toMat b := by
  unfold toMat; rw [hp]; exact matOf_congr _ hr

theorem matMul_assoc (a b c : Mat4) : matMul (matMul a b) c = matMul a (matMul b c) := by
  ext <;> simp [matMul, rowMul] <;> ring

/-- the homogeneous matrix of a transformed pose is the product of the homogeneous matrices -/
theorem matMul_toMat_matOf (a : HM) (p : V3) (r : Quat) :
    matMul (toMat a) (matOf p r) = matOf (transformPos a p) (a.rot * r) := by
  ext <;> simp [transformPos, toMat, matOf, matMul, rowMul, rotate, rotMat, Mat3.mulVec, V3.dot] <;> ring

theorem HM.SignEq.refl (a : HM) : a.SignEq a := ⟨rfl, Quat.SignEq.refl _, rfl, rfl⟩

theorem HM.SignEq.symm {a b : HM} (h : a.SignEq b) : b.SignEq a := ⟨h.1.symm, h.2.1.symm, h.2.2.1.symm, h.2.2.2.symm⟩

theorem HM.SignEq.trans {a b c : HM} (h1 : a.SignEq b) (h2 : b.SignEq c) : a.SignEq c :=
  ⟨h1.1.trans h2.1, h1.2.1.trans h2.2.1, h1.2.2.1.trans h2.2.2.1, h1.2.2.2.trans h2.2.2.2⟩

theorem HM.SignEq.toMat_eq {a b : HM} (h : a.SignEq b) : toMat a = toMat b := toMat_congr h.1 h.2.1.rotMat_eq

theorem PoseEq.refl (a : V3 × Quat) : PoseEq a a := ⟨rfl, Quat.SignEq.refl _⟩

theorem PoseEq.symm {a b : V3 × Quat} (h : PoseEq a b) : PoseEq b a := ⟨h.1.symm, h.2.symm⟩

theorem PoseEq.trans {a b c : V3 × Quat} (h1 : PoseEq a b) (h2 : PoseEq b c) : PoseEq a c :=
  ⟨h1.1.trans h2.1, h1.2.trans h2.2⟩

/-! ## the extraction contract -/

/-- the extraction returns a representative of the class of the quaternion the matrix was made from -/
theorem ExtractOK.signEq {ex : Mat3 → Quat} (h : ExtractOK ex) {q : Quat} (hq : q.normSq = 1) :
    (ex (rotMat q)).SignEq q :=
  signEq_of_rotMat_eq (h q hq).1 hq (h q hq).2

/-! ## pyquaternion's `trace_method` -/

theorem Quat.scale_scale (k c : Rat) (v : Quat) : Quat.scale k (Quat.scale c v) = Quat.scale (k * c) v := by
  ext <;> simp [Quat.scale] <;> ring

theorem Quat.scale_one (v : Quat) : Quat.scale 1 v = v := by ext <;> simp [Quat.scale]

theorem Quat.scale_neg_one (v : Quat) : Quat.scale (-1) v = -v := by ext <;> simp [Quat.scale]

/-- the normalisation `q *= 0.5 / sqrt(t)` with `t = (2c)²` and the vector `4c · v`: the result is `sign(c) · v` -/
theorem pivot_scale {sq : Rat → Rat} (hsq : ∀ a : Rat, 0 ≤ a → sq (a * a) = a) {c t : Rat} (hc : c ≠ 0) (ht : t = 4 * c * c)
    (v : Quat) : Quat.scale ((1/2) / sq t) (Quat.scale (4 * c) v) = v ∨ Quat.scale ((1/2) / sq t) (Quat.scale (4 * c) v) = -v := by
  rw [Quat.scale_scale]
  rcases lt_or_gt_of_ne hc with h | h
  · right
    have e : sq t = -(2 * c) := by
      rw [ht, show 4 * c * c = (-(2 * c)) * (-(2 * c)) by ring]
      exact hsq _ (by linarith)
    rw [e, show (1/2 : Rat) / -(2 * c) * (4 * c) = -1 by field_simp; ring]
    exact Quat.scale_neg_one v
  · left
    have e : sq t = 2 * c := by
      rw [ht, show 4 * c * c = (2 * c) * (2 * c) by ring]
      exact hsq _ (by linarith)
    rw [e, show (1/2 : Rat) / (2 * c) * (4 * c) = 1 by field_simp; ring]
    exact Quat.scale_one v

/-- one branch of `trace_method`: pivot component `c`, `t = (2c)² > 0`, the vector is `4c · q` -/
theorem trace_branch {sq : Rat → Rat} (hsq : ∀ a : Rat, 0 ≤ a → sq (a * a) = a) {q v : Quat} {c t : Rat}
    (ht : t = 4 * c * c) (hpos : 0 < t) (hv : v = Quat.scale (4 * c) q) :
    (Quat.scale ((1/2) / sq t) v).SignEq q := by
  have hc : c ≠ 0 := by
    intro h0; rw [h0] at ht; rw [ht] at hpos; simp at hpos
  rw [hv]
  exact pivot_scale hsq hc ht q

/-- `trace_method` returns `q` or `−q` on the rotation matrix of a unit quaternion `q` (whatever branch is taken) -/
theorem extractTrace_signEq {sq : Rat → Rat} (hsq : ∀ a : Rat, 0 ≤ a → sq (a * a) = a) {q : Quat} (hq : q.normSq = 1) :
    (extractTrace sq (rotMat q)).SignEq q := by
  simp only [Quat.normSq] at hq
  unfold extractTrace
  by_cases c1 : (rotMat q).r2.z < 0
  · rw [if_pos c1]
    by_cases c2 : (rotMat q).r0.x > (rotMat q).r1.y
    · rw [if_pos c2]
      simp only [rotMat] at c1 c2 ⊢
      refine trace_branch hsq (c := q.x) (by linear_combination (-1 : Rat) * hq) (by linarith) ?_
      ext <;> simp only [Quat.scale]
      · ring
      · linear_combination (-1 : Rat) * hq
      · ring
      · ring
    · rw [if_neg c2]
      simp only [rotMat] at c1 c2 ⊢
      refine trace_branch hsq (c := q.y) (by linear_combination (-1 : Rat) * hq) (by linarith) ?_
      ext <;> simp only [Quat.scale]
      · ring
      · ring
      · linear_combination (-1 : Rat) * hq
      · ring
  · rw [if_neg c1]
    by_cases c2 : (rotMat q).r0.x < -(rotMat q).r1.y
    · rw [if_pos c2]
      simp only [rotMat] at c1 c2 ⊢
      refine trace_branch hsq (c := q.z) (by linear_combination (-1 : Rat) * hq) (by linarith) ?_
      ext <;> simp only [Quat.scale]
      · ring
      · ring
      · ring
      · linear_combination (-1 : Rat) * hq
    · rw [if_neg c2]
      simp only [rotMat] at c1 c2 ⊢
      refine trace_branch hsq (c := q.w) (by linear_combination (-1 : Rat) * hq) (by linarith) ?_
      ext <;> simp only [Quat.scale]
      · linear_combination (-1 : Rat) * hq
      · ring
      · ring
      · ring

/-- `trace_method` satisfies the contract -/
theorem extractTrace_ok {sq : Rat → Rat} (hsq : ∀ a : Rat, 0 ≤ a → sq (a * a) = a) : ExtractOK (extractTrace sq) := by
  intro q hq
  have h := extractTrace_signEq hsq hq
  exact ⟨by rw [h.normSq]; exact hq, h.rotMat_eq⟩

/-! ## the closed form of seed C18_G -/

/-- away from half turns the closed form is fine: it returns `sign(w) · q` -/
theorem extractG_signEq {sq : Rat → Rat} (hsq : ∀ a : Rat, 0 ≤ a → sq (a * a) = a) {q : Quat} (hq : q.normSq = 1)
    (hw : q.w ≠ 0) : (extractG sq (rotMat q)).SignEq q := by
  simp only [Quat.normSq] at hq
  have ht : 1 + ((rotMat q).r0.x + (rotMat q).r1.y + (rotMat q).r2.z) = 4 * q.w * q.w := by
    simp only [rotMat]; linear_combination (-1 : Rat) * hq
  have hpos : 4 * q.w * q.w > 0 := by
    have := mul_self_pos.2 hw; nlinarith
  unfold extractG
  simp only [ht, if_pos hpos]
  simp only [rotMat]
  rcases lt_or_gt_of_ne hw with h | h
  · right
    have e : sq (4 * q.w * q.w) = -(2 * q.w) := by
      rw [show 4 * q.w * q.w = (-(2 * q.w)) * (-(2 * q.w)) by ring]
      exact hsq _ (by linarith)
    rw [e]
    ext <;> simp only [Quat.neg_w, Quat.neg_x, Quat.neg_y, Quat.neg_z] <;> field_simp <;> ring
  · left
    have e : sq (4 * q.w * q.w) = 2 * q.w := by
      rw [show 4 * q.w * q.w = (2 * q.w) * (2 * q.w) by ring]
      exact hsq _ (by linarith)
    rw [e]
    ext <;> field_simp <;> ring

/-- on a half turn (`w = 0`) it returns the zero quaternion (the model's stand-in for NaN) -/
theorem extractG_half_turn {sq : Rat → Rat} (hsq : ∀ a : Rat, 0 ≤ a → sq (a * a) = a) {q : Quat} (hq : q.normSq = 1)
    (hw : q.w = 0) : extractG sq (rotMat q) = ⟨0, 0, 0, 0⟩ := by
  simp only [Quat.normSq] at hq
  have ht : 1 + ((rotMat q).r0.x + (rotMat q).r1.y + (rotMat q).r2.z) = 0 := by
    simp only [rotMat, hw]; rw [hw] at hq; linear_combination (-1 : Rat) * hq
  have s0 : sq 0 = 0 := by simpa using hsq 0 (le_refl 0)
  unfold extractG
  simp only [ht, lt_irrefl, if_false, s0]
  ext <;> simp

/-! ## keyed registry, chains -/

theorem lookupK_ofList (d : List HM) (k : String × String) : lookupK (KReg.ofList d) k = lookup d k := by
  induction d with
  | nil => rfl
  | cons a ds ih =>
    simp only [KReg.ofList, List.map_cons] at ih ⊢
    unfold lookupK lookup
    rw [ih]
    rfl

theorem lookupK_set (d : KReg) (k' : String × String) (m : HM) (k : String × String) :
    lookupK (kSet d k' m) k = if k' = k then some m else lookupK d k := by
  induction d with
  | nil => simp [kSet, lookupK]
  | cons a ds ih =>
    simp only [kSet, List.cons_append] at ih ⊢
    unfold lookupK
    rw [ih]
    by_cases h : k' = k
    · simp [h]
    · simp only [if_neg h]

end PEval.Transform
