import PEval.Lemmas.Filter
import Mathlib.Tactic.LinearCombination
/-!
# C10 — the filtering loop (`filterE`), totality on well-formed inputs, frame invariance
-/
namespace PEval.Filter

/-- the loop returns iff the predicate returns on every element; the result is then `List.filter` -/
theorem filterE_ok {α} {f : α → Except Err Bool} {as ks : List α} (h : filterE f as = .ok ks) :
    (∀ a ∈ as, ∃ b, f a = .ok b) ∧ ks = as.filter (fun a => decide (f a = .ok true)) := by
  induction as generalizing ks with
  | nil => cases h; simp
  | cons a as ih =>
    unfold filterE at h
    cases hf : f a with
    | error e => rw [hf] at h; cases h
    | ok b =>
      rw [hf] at h; simp only at h
      cases hr : filterE f as with
      | error e => rw [hr] at h; cases h
      | ok ks' =>
        rw [hr] at h; cases h
        obtain ⟨h1, h2⟩ := ih hr
        refine ⟨?_, ?_⟩
        · intro x hx
          rcases List.mem_cons.1 hx with rfl | hx
          · exact ⟨b, hf⟩
          · exact h1 x hx
        · cases b <;> simp [hf, h2]

theorem filterE_all_true {α} {f : α → Except Err Bool} {l : List α} (h : ∀ a ∈ l, f a = .ok true) :
    filterE f l = .ok l := by
  induction l with
  | nil => rfl
  | cons a as ih =>
    unfold filterE
    rw [h a (List.mem_cons_self), ih (fun x hx => h x (List.mem_cons_of_mem _ hx))]
    rfl

theorem filterE_total {α} {f : α → Except Err Bool} {l : List α} (h : ∀ a ∈ l, ∃ b, f a = .ok b) :
    ∃ ks, filterE f l = .ok ks := by
  induction l with
  | nil => exact ⟨[], rfl⟩
  | cons a as ih =>
    obtain ⟨b, hb⟩ := h a (List.mem_cons_self)
    obtain ⟨ks, hks⟩ := ih (fun x hx => h x (List.mem_cons_of_mem _ hx))
    unfold filterE
    rw [hb, hks]
    exact ⟨_, rfl⟩

/-- filtering the image of a list under `r`, when the predicate does not see the difference -/
theorem filterE_map {α β} {f : α → Except Err Bool} {g : β → Except Err Bool} {r : α → β} {l : List α}
    (h : ∀ a ∈ l, g (r a) = f a) : filterE g (l.map r) = (filterE f l).map (List.map r) := by
  induction l with
  | nil => rfl
  | cons a as ih =>
    simp only [List.map_cons]
    unfold filterE
    rw [h a (List.mem_cons_self), ih (fun x hx => h x (List.mem_cons_of_mem _ hx))]
    cases f a with
    | error e => rfl
    | ok b =>
      cases filterE f as with
      | error e => rfl
      | ok ks => cases b <;> rfl

/-- the first element on which the predicate raises decides the error -/
theorem filterE_error_of_head {α} {f : α → Except Err Bool} {a : α} {as : List α} {e : Err}
    (h : f a = .error e) : filterE f (a :: as) = .error e := by
  unfold filterE; rw [h]

/-! ## no exception on well-formed inputs -/

theorem getLabelThreshold_total {α} {P : Params} {o : Obj} {l : List α} {ts : List String}
    (hT : P.targets = some ts) (hlen : l.length = ts.length) :
    ∃ r, getLabelThreshold P.targets o.label l = .ok r := by
  unfold getLabelThreshold
  rw [hT]
  simp only
  cases hi : indexOf? o.label ts with
  | none => exact ⟨none, rfl⟩
  | some i =>
    simp only
    have hlt : i < ts.length := by
      have := (indexOf?_eq_some.1 hi).1
      exact (List.getElem?_eq_some_iff.1 this).1
    have : i < l.length := by omega
    rw [List.getElem?_eq_getElem this]
    exact ⟨_, rfl⟩

/-- on a well-formed configuration a per-label stage never raises: when the stage is reached by a
non-relaxed object its label is a target (the label test passed), so a bound exists -/
theorem stage_total {P : Params} {o : Obj} {ok : Bool} {l? : Option (List Rat)}
    {unk : List Rat → Option Rat} {test : Rat → Bool} {ts : List String}
    (hT : P.targets = some ts) (hlen : ∀ l, l? = some l → l.length = ts.length)
    (hok : ok = true → useUnknown P o = false → o.label ∈ ts) :
    ∃ b, stage P (useUnknown P o) o ok l? unk test = .ok b ∧ (b = true → ok = true) := by
  unfold stage
  cases ok with
  | false => cases l? <;> exact ⟨false, rfl, fun h => h⟩
  | true =>
    cases l? with
    | none => exact ⟨true, rfl, fun h => h⟩
    | some l =>
      simp only
      unfold bound
      cases hu : useUnknown P o with
      | true => simp only [if_true]; exact ⟨_, rfl, by simp⟩
      | false =>
        simp only [Bool.false_eq_true, if_false]
        have hmem := hok rfl hu
        unfold getLabelThreshold
        rw [hT]; simp only
        cases hi : indexOf? o.label ts with
        | none => exact absurd hmem (indexOf?_eq_none.1 hi)
        | some i =>
          simp only
          have hlt : i < ts.length := (List.getElem?_eq_some_iff.1 (indexOf?_eq_some.1 hi).1).1
          have : i < l.length := by have := hlen l rfl; omega
          rw [List.getElem?_eq_getElem this]
          exact ⟨_, rfl, by simp⟩

theorem stageLabel_mem {P : Params} {o : Obj} {ts : List String} (hT : P.targets = some ts) (hne : ts ≠ [])
    (h : stageLabel P (useUnknown P o) o = true) (hu : useUnknown P o = false) : o.label ∈ ts := by
  unfold stageLabel at h
  rw [hT, hu] at h
  cases ts with
  | nil => exact absurd rfl hne
  | cons t ts => simpa using h

theorem stageAttr_true {P : Params} {u : Bool} {o : Obj} {ok : Bool} (h : stageAttr P u o ok = true) : ok = true := by
  unfold stageAttr at h
  split at h
  · cases u
    · simp only [Bool.false_eq_true, if_false, Bool.and_eq_true] at h; exact h.1
    · simpa using h
  · exact h

/-- **no exception is reachable inside the documented contract** -/
theorem isTarget_total {P : Params} {o : Obj} (hP : WFParams P) (hO : WFObj P o) :
    ∃ b, isTarget P o = .ok b := by
  obtain ⟨ts, hT, hne, hX, hY, hD, hd, hC, hM⟩ := hP.targets
  unfold isTarget
  by_cases hfp : isFP o.label = true
  · rw [if_pos hfp]; exact ⟨true, rfl⟩
  · rw [if_neg hfp]
    simp only
    have hlab : ∀ ok, (ok = true → stageAttr P (useUnknown P o) o (stageLabel P (useUnknown P o) o) = true) →
        ok = true → useUnknown P o = false → o.label ∈ ts := fun ok himp hok hu =>
      stageLabel_mem hT hne (stageAttr_true (himp hok)) hu
    obtain ⟨b1, h1, i1⟩ := stage_total (P := P) (o := o)
      (ok := stageAttr P (useUnknown P o) o (stageLabel P (useUnknown P o) o)) (l? := P.conf)
      (unk := fun _ => some 0) (test := fun t => decide (t < o.score)) hT hC (hlab _ (fun h => h))
    rw [h1]; simp only
    -- position
    obtain ⟨q, hq⟩ := Option.ne_none_iff_exists'.1 hO.pos
    have hpos : ∃ pos, position P o = .ok pos := by
      unfold position
      rw [hq]
      by_cases hf : o.frame = "base_link"
      · cases P.hasTransforms <;> simp [hf]
      · have hf' : (o.frame == "base_link") = false := by simpa using hf
        cases hTr : P.hasTransforms with
        | false => simp [hf']
        | true =>
          obtain ⟨e, he⟩ := Option.ne_none_iff_exists'.1 (hO.ego hTr hf)
          simp [hf', he]
    obtain ⟨pos, hp⟩ := hpos
    rw [hp]; simp only
    -- range
    have hrange : ∃ b, stageRange P (useUnknown P o) o pos b1 = .ok b := by
      unfold stageRange
      cases pos with
      | none => exact ⟨_, rfl⟩
      | some p =>
        simp only
        obtain ⟨b2, h2, i2⟩ := stage_total (P := P) (o := o) (ok := b1) (l? := P.maxX) (unk := mean)
          (test := fun t => decide (absR p.x < t)) hT hX (hlab _ i1)
        rw [h2]; simp only
        obtain ⟨b3, h3, i3⟩ := stage_total (P := P) (o := o) (ok := b2) (l? := P.maxY) (unk := mean)
          (test := fun t => decide (absR p.y < t)) hT hY (hlab _ (fun h => i1 (i2 h)))
        rw [h3]; simp only
        obtain ⟨b4, h4, i4⟩ := stage_total (P := P) (o := o) (ok := b3) (l? := P.maxDist) (unk := mean)
          (test := fun t => distLt p.d2 t) hT hD (hlab _ (fun h => i1 (i2 (i3 h))))
        rw [h4]; simp only
        obtain ⟨b5, h5, i5⟩ := stage_total (P := P) (o := o) (ok := b4) (l? := P.minDist) (unk := mean)
          (test := fun t => distGt p.d2 t) hT hd (hlab _ (fun h => i1 (i2 (i3 (i4 h)))))
        rw [h5]; simp only
        -- points
        unfold stagePts
        cases hb5 : b5 with
        | false => cases P.minPts <;> exact ⟨_, rfl⟩
        | true =>
          cases hG : P.isGt with
          | false => cases P.minPts <;> exact ⟨_, rfl⟩
          | true =>
            cases hMp : P.minPts with
            | none => exact ⟨_, rfl⟩
            | some l =>
              simp only [Bool.and_self]
              have hu : useUnknown P o = false := by
                rw [← Bool.not_eq_true, useUnknown_iff]; intro hR; rw [hR.2.1] at hG; cases hG
              have hmem : o.label ∈ ts := hlab b5 (fun h => i1 (i2 (i3 (i4 (i5 h))))) hb5 hu
              obtain ⟨h2d, hpc⟩ := hO.pts hG (by rw [hMp]; simp)
              obtain ⟨c, hc⟩ := Option.ne_none_iff_exists'.1 hpc
              simp only [hu, Bool.false_eq_true, if_false, h2d, hc]
              unfold getLabelThreshold
              rw [hT]; simp only
              cases hi : indexOf? o.label ts with
              | none => exact absurd hmem (indexOf?_eq_none.1 hi)
              | some i =>
                simp only
                have hlt : i < ts.length := (List.getElem?_eq_some_iff.1 (indexOf?_eq_some.1 hi).1).1
                have : i < l.length := by have := hM l hMp; omega
                rw [List.getElem?_eq_getElem this]
                exact ⟨_, rfl⟩
    obtain ⟨b, hb⟩ := hrange
    rw [hb]
    exact ⟨_, rfl⟩

/-! ## frame invariance: a base_link object and its map-frame rendering are judged alike -/

theorem toEgo_toMap (e : Pose) (h : e.c * e.c + e.s * e.s = 1) (p : Pos) : toEgo e (toMap e p) = p := by
  cases p with
  | mk x y =>
    simp only [toEgo, toMap, Pos.mk.injEq]
    constructor
    · linear_combination (x) * h
    · linear_combination (y) * h

theorem position_renderMap {P : Params} {o : Obj} {e : Pose} (h : e.c * e.c + e.s * e.s = 1)
    (hf : o.frame = "base_link") (hp : o.pos ≠ none) :
    position { P with hasTransforms := true } (renderMap e o) = position P o := by
  obtain ⟨q, hq⟩ := Option.ne_none_iff_exists'.1 hp
  unfold position renderMap
  simp only [hq, hf, Option.map_some, toEgo_toMap e h]
  cases P.hasTransforms <;> simp

end PEval.Filter
