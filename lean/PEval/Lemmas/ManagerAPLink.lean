import PEval.Model.Manager
import PEval.Lemmas.APClassify
import PEval.Lemmas.ManagerSort
/-!
Link between the two transcriptions of `evaluation/metrics/detection/ap.py`:

* `PEval.Manager` (`Model/Manager.lean`): `sortDesc`, `cumsum`, `prFrom`, `envelope`, `area`, `apCore`,
  `apOf`, `meanValid` — the AP the C13 state machine uses for scene scores;
* `PEval.AP` (`Model/AP.lean`): `sortDesc`, `cumsumFrom`, `precFrom`, `recalls`, `scan`, `stackArea`,
  `calculateAp`, `classify`, `apOfKinds`, `apOf`, `meanDefined` — the AP of properties C04/C08.

Every stage is proved equal, and the main theorem `apOf_eq_AP_apOf` says: translate each `AP.Res` to a
`Manager.Res` whose single TP column holds the weight `AP.classify` gives that result; then
`Manager.apOf` on the translated list is the `ap` field of `AP.apOf` on the original list, whenever the
latter does not raise.
-/

namespace PEval.Manager

open PEval

/-! ### 1. cumulative sums -/

theorem cumsum_eq (acc : Rat) (l : List Rat) : Manager.cumsum acc l = AP.cumsumFrom acc l := by
  induction l generalizing acc with
  | nil => rfl
  | cons x xs ih => simp only [cumsum, AP.cumsumFrom, ih]

/-! ### 2. precision / recall points -/

theorem prFrom_eq (n i : Nat) (ts : List Rat) :
    prFrom n i ts = (AP.precFrom i ts).zip (AP.recalls n ts) := by
  induction ts generalizing i with
  | nil => rfl
  | cons t ts ih =>
    simp only [prFrom, AP.precFrom, AP.recalls, List.map_cons, List.zip_cons_cons, ih, AP.recallOf]

/-! ### 3. interpolation and area -/

theorem area_append_two (l : List (Rat × Rat)) (a b : Rat × Rat) :
    area (l ++ [a, b]) = area (l ++ [a]) + a.1 * (a.2 - b.2) := by
  induction l with
  | nil => simp [area]
  | cons x l ih =>
    cases l with
    | nil =>
      simp only [List.cons_append, List.nil_append, area]
      grind
    | cons y l' =>
      simp only [List.cons_append, area] at ih ⊢
      rw [ih]
      grind

theorem area_reverse_eq_partialArea (x : Rat × Rat) (st : List (Rat × Rat)) :
    area ((x :: st).reverse) = AP.partialArea (x :: st) := by
  induction st generalizing x with
  | nil => obtain ⟨m, r⟩ := x; simp [area, AP.partialArea]
  | cons y st ih =>
    obtain ⟨m, r⟩ := x
    obtain ⟨m', r'⟩ := y
    have h : ((m, r) :: (m', r') :: st).reverse = st.reverse ++ [(m', r'), (m, r)] := by simp
    have h' : st.reverse ++ [(m', r')] = ((m', r') :: st).reverse := by simp
    rw [h, area_append_two, h', ih]
    simp only [AP.partialArea]
    grind

/-- the generalised link: `st` = the maxima already recorded (most recent first), `(m, rm)` the
current maximum, `qs` the points still to visit -/
theorem area_envelope_eq_scan (qs : List (Rat × Rat)) (m rm : Rat) (st : List (Rat × Rat)) :
    area (st.reverse ++ envelope (m, rm) qs) = AP.stackArea (AP.scan qs ((m, rm) :: st)) := by
  induction qs generalizing m rm st with
  | nil =>
    simp only [envelope, AP.scan, AP.stackArea]
    rw [area_append_two]
    have h' : st.reverse ++ [(m, rm)] = ((m, rm) :: st).reverse := by simp
    rw [h', area_reverse_eq_partialArea]
  | cons q qs ih =>
    obtain ⟨p, r⟩ := q
    by_cases h : p > m
    · simp only [envelope, AP.scan, h, if_true]
      have h' : st.reverse ++ (m, rm) :: envelope (p, r) qs
          = ((m, rm) :: st).reverse ++ envelope (p, r) qs := by simp
      rw [h', ih]
    · simp only [envelope, AP.scan, h, if_false]
      exact ih m rm st

/-- `interpolate_precision_recall_list` + `_calculate_ap`: the two transcriptions agree -/
theorem area_envelope (p : Rat × Rat) (rest : List (Rat × Rat)) :
    area (envelope p rest) = AP.stackArea (AP.scan rest [p]) := by
  obtain ⟨m, rm⟩ := p
  simpa using area_envelope_eq_scan rest m rm []

/-! ### 4. the AP of a ranking of TP weights -/

theorem apCore_eq (ws : List Rat) (G : Nat) :
    apCore ws G = if ws = [] then none
      else some (AP.calculateAp (AP.precFrom 0 (AP.cumsum ws)) (AP.recalls G (AP.cumsum ws))) := by
  unfold apCore AP.calculateAp AP.cumsum
  rw [cumsum_eq, prFrom_eq]
  cases ws with
  | nil => rfl
  | cons w ws =>
    rw [if_neg (List.cons_ne_nil _ _)]
    generalize hL : ((AP.precFrom 0 (AP.cumsumFrom 0 (w :: ws))).zip
      (AP.recalls G (AP.cumsumFrom 0 (w :: ws)))).reverse = L
    cases L with
    | nil =>
      have := congrArg List.length hL
      simp [AP.cumsumFrom, AP.precFrom, AP.recalls] at this
    | cons p rest => simp only [area_envelope]

theorem apCore_eq_apOfKinds (G : Nat) (ks : List AP.Kind) :
    apCore (ks.map AP.Kind.tpw) G = (AP.apOfKinds G ks).ap := by
  rw [apCore_eq]
  cases ks with
  | nil => rfl
  | cons k ks =>
    rw [if_neg (by simp)]
    simp [AP.apOfKinds, AP.tpFpLists]

/-! ### 5. translation of results; the two stable descending sorts -/

/-- an `AP.Res` as pooling sees it, with the single TP column `w r` -/
def ofAP (w : AP.Res → Rat) (r : AP.Res) : Res := ⟨r.id, r.gt.map (·.id), r.conf, [w r]⟩

theorem insertDesc_map_ofAP (w : AP.Res → Rat) (x : AP.Res) (l : List AP.Res) :
    insertDesc (ofAP w x) (l.map (ofAP w)) = (AP.insertDesc AP.Res.conf x l).map (ofAP w) := by
  induction l with
  | nil => rfl
  | cons y ys ih =>
    simp only [List.map_cons, insertDesc, AP.insertDesc]
    by_cases h : x.conf < y.conf
    · have h' : ¬ (ofAP w y).conf ≤ (ofAP w x).conf := by
        simp only [ofAP]; exact Rat.not_le.mpr h
      rw [if_neg h', if_pos h, ih]
      rfl
    · have h' : (ofAP w y).conf ≤ (ofAP w x).conf := by
        simp only [ofAP]; exact Rat.not_lt.mp h
      rw [if_pos h', if_neg h]
      rfl

theorem sortDesc_map_ofAP (w : AP.Res → Rat) (rs : List AP.Res) :
    sortDesc (rs.map (ofAP w)) = (AP.sortDesc AP.Res.conf rs).map (ofAP w) := by
  induction rs with
  | nil => rfl
  | cons r rs ih =>
    simp only [List.map_cons, sortDesc, AP.sortDesc, ih, insertDesc_map_ofAP]

/-! ### 6. main theorem -/

/-- the TP weight `_calculate_tp_fp` adds to `tp_list` for a result (0 for an FP or an ignored one) -/
def tpWeight (tm : AP.TpMetric) (m : AP.Mode) (T : List AP.Label) (th : List Rat) (r : AP.Res) : Rat :=
  match AP.classify tm m T th r with
  | .ok k => k.tpw
  | .error _ => 0

theorem map_tpWeight_of_classifyAll {tm : AP.TpMetric} {m : AP.Mode} {T : List AP.Label}
    {th : List Rat} {L : List AP.Res} {ks : List AP.Kind}
    (h : AP.classifyAll tm m T th L = .ok ks) :
    L.map (tpWeight tm m T th) = ks.map AP.Kind.tpw := by
  induction L generalizing ks with
  | nil =>
    simp only [AP.classifyAll, Except.ok.injEq] at h
    subst h; rfl
  | cons r t ih =>
    obtain ⟨k, ks0, hk, hks, rfl⟩ := AP.classifyAll_cons_ok h
    simp only [List.map_cons, ih hks, tpWeight, hk]

theorem tp_column_ofAP (w : AP.Res → Rat) (L : List AP.Res) :
    (L.map (ofAP w)).map (fun r => r.tp.getD 0 0) = L.map w := by
  simp [ofAP, Function.comp_def]

/-- `Manager.apOf` (column 0) on the translated results is the `ap` of `AP.apOf`, whenever the
latter returns -/
theorem apOf_eq_AP_apOf {tm : AP.TpMetric} {m : AP.Mode} {T : List AP.Label} {th : List Rat}
    {G : Nat} {rs : List AP.Res} {a : AP.ApOut} (h : AP.apOf tm m T th G rs = .ok a) :
    Manager.apOf 0 (rs.map (ofAP (tpWeight tm m T th))) G = a.ap := by
  obtain ⟨ks, hks, rfl⟩ := AP.apOf_ok h
  unfold Manager.apOf
  rw [sortDesc_map_ofAP, tp_column_ofAP, map_tpWeight_of_classifyAll hks, apCore_eq_apOfKinds]

/-! ### 7. the mean over the defined APs -/

theorem meanValid_eq (xs : List (Option Rat)) : meanValid xs = AP.meanDefined xs := rfl

/-! ### 8. non-vacuity of `apOf_eq_AP_apOf`

Three results of label 2 (the only target, centre-distance threshold 1, two ground truths), given out
of ranking order: a result without ground truth (confidence 1), a TP (distance 0, confidence 3), an FP
(distance 5 ≥ 1, confidence 2).  `AP.apOf` returns; its `ap` and `Manager.apOf` on the translated list
are both `1 · (1/2 − 0) = 1/2`. -/

/-- the example input -/
def exResults : List AP.Res :=
  [ ⟨7, 1, 2, none, .val none, 1, .default⟩,
    ⟨5, 3, 2, some ⟨10, 2⟩, .val (some 0), 1, .default⟩,
    ⟨6, 2, 2, some ⟨11, 2⟩, .val (some 5), 1, .default⟩ ]

example :
    AP.apOf .ap .centerDistance [2] [1] 2 exResults
        = .ok ⟨some (mkRat 1 2), [1, 1, 1], [0, 1, 2]⟩
      ∧ Manager.apOf 0 (exResults.map (ofAP (tpWeight .ap .centerDistance [2] [1]))) 2
        = some (mkRat 1 2)
      ∧ exResults.map (tpWeight .ap .centerDistance [2] [1]) = [0, 1, 0] := by
  decide +kernel

/-- the instance of the main theorem on the example (its hypothesis holds) -/
example :
    Manager.apOf 0 (exResults.map (ofAP (tpWeight .ap .centerDistance [2] [1]))) 2
      = some (mkRat 1 2) :=
  apOf_eq_AP_apOf (a := ⟨some (mkRat 1 2), [1, 1, 1], [0, 1, 2]⟩) (by decide +kernel)

end PEval.Manager
