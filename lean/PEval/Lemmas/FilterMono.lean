import PEval.Lemmas.FilterList
/-!
# C10 — widening a bound never removes a kept object (on the declarative criteria)
-/
namespace PEval.Filter

theorem pointwise_get {α} {R : α → α → Prop} {l l' : List α} (h : Pointwise R l l') {i : Nat} {t : α}
    (hl : l[i]? = some t) : ∃ t', l'[i]? = some t' ∧ R t t' := by
  induction l generalizing l' i with
  | nil => simp at hl
  | cons a as ih =>
    cases l' with
    | nil => exact absurd h (by simp [Pointwise])
    | cons b bs =>
      simp only [Pointwise] at h
      cases i with
      | zero => simp at hl; subst hl; exact ⟨b, by simp, h.1⟩
      | succ n =>
        simp only [List.getElem?_cons_succ] at hl ⊢
        exact ih h.2 hl

theorem pointwise_length {α} {R : α → α → Prop} {l l' : List α} (h : Pointwise R l l') :
    l.length = l'.length := by
  induction l generalizing l' with
  | nil => cases l' <;> simp_all [Pointwise]
  | cons a as ih =>
    cases l' with
    | nil => exact absurd h (by simp [Pointwise])
    | cons b bs => simp only [Pointwise] at h; simp [ih h.2]

theorem pointwise_sum_le {l l' : List Rat} (h : Pointwise (· ≤ ·) l l') : l.sum ≤ l'.sum := by
  induction l generalizing l' with
  | nil => cases l' <;> simp_all [Pointwise]
  | cons a as ih =>
    cases l' with
    | nil => exact absurd h (by simp [Pointwise])
    | cons b bs =>
      simp only [Pointwise] at h
      simp only [List.sum_cons]
      exact add_le_add h.1 (ih h.2)

theorem pointwise_sum_ge {l l' : List Rat} (h : Pointwise (· ≥ ·) l l') : l'.sum ≤ l.sum := by
  induction l generalizing l' with
  | nil => cases l' <;> simp_all [Pointwise]
  | cons a as ih =>
    cases l' with
    | nil => exact absurd h (by simp [Pointwise])
    | cons b bs =>
      simp only [Pointwise] at h
      simp only [List.sum_cons]
      exact add_le_add h.1 (ih h.2)

theorem optRel_some {α} {R : α → α → Prop} {a b : Option (List α)} {l' : List α} (h : OptRel R a b)
    (hb : b = some l') : ∃ l, a = some l ∧ Pointwise R l l' := by
  subst hb
  cases a with
  | none => exact absurd h (by simp [OptRel])
  | some l => exact ⟨l, rfl, h⟩

variable {P P' : Params} {o : Obj}

theorem relaxed_wider (w : Wider P P') : Relaxed P' o ↔ Relaxed P o := by
  unfold Relaxed; rw [w.isGt, w.targets]

theorem labelBound_wider {α} {R : α → α → Prop} (w : Wider P P') {l l' : List α} (hl : Pointwise R l l') {t : α}
    (h : LabelBound P o l t) : ∃ t', LabelBound P' o l' t' ∧ R t t' := by
  obtain ⟨ts, i, hT, hi, hmin, hli⟩ := h
  obtain ⟨t', ht', hR⟩ := pointwise_get hl hli
  exact ⟨t', ⟨ts, i, by rw [w.targets, hT], hi, hmin, ht'⟩, hR⟩

theorem isMean_le {l l' : List Rat} (hl : Pointwise (· ≤ ·) l l') {t : Rat} (h : IsMean l t) :
    ∃ t', IsMean l' t' ∧ t ≤ t' := by
  obtain ⟨hne, hm⟩ := h
  have hlen := pointwise_length hl
  have hpos : (0 : Rat) < (l.length : Rat) := by
    have : 0 < l.length := List.length_pos_iff.2 hne
    exact_mod_cast this
  have hne' : l' ≠ [] := by
    intro e; rw [e] at hlen; simp at hlen; exact hne hlen
  refine ⟨l'.sum / (l'.length : Rat), ⟨hne', ?_⟩, ?_⟩
  · rw [← hlen]; field_simp
  · rw [← hlen, le_div_iff₀ hpos, hm]; exact pointwise_sum_le hl

theorem isMean_ge {l l' : List Rat} (hl : Pointwise (· ≥ ·) l l') {t : Rat} (h : IsMean l t) :
    ∃ t', IsMean l' t' ∧ t' ≤ t := by
  obtain ⟨hne, hm⟩ := h
  have hlen := pointwise_length hl
  have hpos : (0 : Rat) < (l.length : Rat) := by
    have : 0 < l.length := List.length_pos_iff.2 hne
    exact_mod_cast this
  have hne' : l' ≠ [] := by
    intro e; rw [e] at hlen; simp at hlen; exact hne hlen
  refine ⟨l'.sum / (l'.length : Rat), ⟨hne', ?_⟩, ?_⟩
  · rw [← hlen]; field_simp
  · rw [← hlen, div_le_iff₀ hpos, hm]; exact pointwise_sum_ge hl

theorem judged_le (w : Wider P P') {l l' : List Rat} (hl : Pointwise (· ≤ ·) l l') {t : Rat}
    (h : JudgedBy P o l t) : ∃ t', JudgedBy P' o l' t' ∧ t ≤ t' := by
  rcases h with ⟨hR, hm⟩ | ⟨hR, hb⟩
  · obtain ⟨t', hm', hle⟩ := isMean_le hl hm
    exact ⟨t', Or.inl ⟨(relaxed_wider w).2 hR, hm'⟩, hle⟩
  · obtain ⟨t', hb', hle⟩ := labelBound_wider w hl hb
    exact ⟨t', Or.inr ⟨fun c => hR ((relaxed_wider w).1 c), hb'⟩, hle⟩

theorem judged_ge (w : Wider P P') {l l' : List Rat} (hl : Pointwise (· ≥ ·) l l') {t : Rat}
    (h : JudgedBy P o l t) : ∃ t', JudgedBy P' o l' t' ∧ t' ≤ t := by
  rcases h with ⟨hR, hm⟩ | ⟨hR, hb⟩
  · obtain ⟨t', hm', hle⟩ := isMean_ge hl hm
    exact ⟨t', Or.inl ⟨(relaxed_wider w).2 hR, hm'⟩, hle⟩
  · obtain ⟨t', hb', hle⟩ := labelBound_wider w hl hb
    exact ⟨t', Or.inr ⟨fun c => hR ((relaxed_wider w).1 c), hb'⟩, hle⟩

theorem labelOK_wider (w : Wider P P') (h : LabelOK P o) : LabelOK P' o := by
  unfold LabelOK at *; rw [relaxed_wider w, w.targets]; exact h

theorem attrOK_wider (w : Wider P P') (h : AttrOK P o) : AttrOK P' o := by
  unfold AttrOK at *; rw [relaxed_wider w, w.ignoreAttrs]; exact h

theorem confOK_wider (w : Wider P P') (h : ConfOK P o) : ConfOK P' o := by
  intro l' hl'
  obtain ⟨l, hl, hpw⟩ := optRel_some w.conf hl'
  rcases h l hl with ⟨hR, hs⟩ | ⟨hR, t, hb, hs⟩
  · exact Or.inl ⟨(relaxed_wider w).2 hR, hs⟩
  · obtain ⟨t', hb', hle⟩ := labelBound_wider w hpw hb
    exact Or.inr ⟨fun c => hR ((relaxed_wider w).1 c), t', hb', lt_of_le_of_lt hle hs⟩

theorem egoPos_wider (w : Wider P P') (p : Pos) : EgoPos P' o p ↔ EgoPos P o p := by
  unfold EgoPos; rw [w.hasTransforms]

theorem rangeOK_wider (w : Wider P P') {p : Pos} (h : RangeOK P o p) : RangeOK P' o p := by
  obtain ⟨hx, hy, hD, hd, hpts⟩ := h
  refine ⟨?_, ?_, ?_, ?_, ?_⟩
  · intro l' hl'
    obtain ⟨l, hl, hpw⟩ := optRel_some w.maxX hl'
    obtain ⟨t, hj, h1, h2⟩ := hx l hl
    obtain ⟨t', hj', hle⟩ := judged_le w hpw hj
    exact ⟨t', hj', by linarith, by linarith⟩
  · intro l' hl'
    obtain ⟨l, hl, hpw⟩ := optRel_some w.maxY hl'
    obtain ⟨t, hj, h1, h2⟩ := hy l hl
    obtain ⟨t', hj', hle⟩ := judged_le w hpw hj
    exact ⟨t', hj', by linarith, by linarith⟩
  · intro l' hl'
    obtain ⟨l, hl, hpw⟩ := optRel_some w.maxDist hl'
    obtain ⟨t, hj, h1, h2⟩ := hD l hl
    obtain ⟨t', hj', hle⟩ := judged_le w hpw hj
    exact ⟨t', hj', by linarith, by nlinarith⟩
  · intro l' hl'
    obtain ⟨l, hl, hpw⟩ := optRel_some w.minDist hl'
    obtain ⟨t, hj, h1⟩ := hd l hl
    obtain ⟨t', hj', hle⟩ := judged_ge w hpw hj
    refine ⟨t', hj', ?_⟩
    rcases h1 with h1 | h1
    · left; linarith
    · by_cases hneg : t' < 0
      · left; exact hneg
      · right; nlinarith
  · intro hG l' hl'
    rw [w.isGt] at hG
    obtain ⟨l, hl, hpw⟩ := optRel_some w.minPts hl'
    obtain ⟨n, c, hb, hc, hle⟩ := hpts hG l hl
    obtain ⟨n', hb', hge⟩ := labelBound_wider w hpw hb
    exact ⟨n', c, hb', hc, le_trans hge hle⟩

theorem uuidOK_wider (w : Wider P P') (h : UuidOK P o) : UuidOK P' o := by
  unfold UuidOK at *; rw [w.isGt, w.uuids]; exact h

/-- widening any bound keeps every object that satisfied the criteria -/
theorem criteria_wider (w : Wider P P') (h : Criteria P o) : Criteria P' o := by
  rcases h with h | ⟨h1, h2, h3, h4, h5⟩
  · exact Or.inl h
  · exact Or.inr ⟨labelOK_wider w h1, attrOK_wider w h2, confOK_wider w h3,
      fun p hp => rangeOK_wider w (h4 p ((egoPos_wider w p).1 hp)), uuidOK_wider w h5⟩

end PEval.Filter
