import PEval.Lemmas.AnalyzerStatus
import Mathlib.Algebra.Order.Field.Basic
import Mathlib.Algebra.Order.Ring.Rat
import Mathlib.Tactic.Linarith
import Mathlib.Tactic.Positivity
/-!
# C19 lemmas (5): rates lie in [0,1]; the confusion matrix sums to the number of paired rows
-/

set_option linter.unusedSimpArgs false
set_option linter.unnecessarySimpa false

namespace PEval.Analyzer

/-! ### rates -/

/-- every TP estimate row selected by `s` sits next to a ground-truth row selected by `s` -/
def TPCovered (s : Sel) (t : Table) : Prop :=
  ∀ r ∈ t, ∀ e, r.est = some e → e.matches s = true → e.status = .TP → ∃ g, r.gt = some g ∧ g.matches s = true

theorem numTP_le_numGT (s : Sel) (t : Table) (h : TPCovered s t) : getNumTP t s ≤ getNumGroundTruth t s := by
  unfold getNumTP getNumGroundTruth getEstimation getGroundTruth countStatus
  induction t with
  | nil => simp
  | cons r t ih =>
    have ih' := ih (fun r' hr' => h r' (by simp [hr']))
    have hr := h r (by simp)
    cases he : r.est with
    | none =>
      cases hg : r.gt with
      | none => simpa [he, hg] using ih'
      | some g =>
        by_cases hgm : g.matches s = true
        · simp [he, hg, hgm, List.filter_cons] at ih' ⊢; omega
        · simp [he, hg, hgm, List.filter_cons] at ih' ⊢; omega
    | some e =>
      by_cases hm : e.matches s = true
      · by_cases hst : e.status = .TP
        · obtain ⟨g, hg, hgm⟩ := hr e he hm hst
          simp [he, hg, hm, hgm, hst, List.filter_cons, List.countP_cons] at ih' ⊢; omega
        · cases hg : r.gt with
          | none => simp [he, hg, hm, hst, List.filter_cons, List.countP_cons] at ih' ⊢; omega
          | some g =>
            by_cases hgm : g.matches s = true
            · simp [he, hg, hm, hgm, hst, List.filter_cons, List.countP_cons] at ih' ⊢; omega
            · simp [he, hg, hm, hgm, hst, List.filter_cons, List.countP_cons] at ih' ⊢; omega
      · cases hg : r.gt with
        | none => simp [he, hg, hm, List.filter_cons] at ih' ⊢; omega
        | some g =>
          by_cases hgm : g.matches s = true
          · simp [he, hg, hm, hgm, List.filter_cons] at ih' ⊢; omega
          · simp [he, hg, hm, hgm, List.filter_cons] at ih' ⊢; omega

theorem numTN_le_numGT (s : Sel) (t : Table) : getNumTN t s ≤ getNumGroundTruth t s := by
  unfold getNumTN getNumGroundTruth countStatus
  exact List.countP_le_length

theorem numFN_le_numGT (s : Sel) (t : Table) : getNumFN t s ≤ getNumGroundTruth t s := by
  unfold getNumFN getNumGroundTruth countStatus
  exact List.countP_le_length

def Ratio.inUnit (r : Ratio) : Prop :=
  0 ≤ r.tp ∧ r.tp ≤ 1 ∧ 0 ≤ r.fp ∧ r.fp ≤ 1 ∧ 0 ≤ r.tn ∧ r.tn ≤ 1 ∧ 0 ≤ r.fn ∧ r.fn ≤ 1

theorem nat_div_unit (a b : Nat) (h : a ≤ b) (hb : 0 < b) : 0 ≤ (a : Rat) / (b : Rat) ∧ (a : Rat) / (b : Rat) ≤ 1 := by
  have hb' : (0 : Rat) < (b : Rat) := by exact_mod_cast hb
  have ha : (0 : Rat) ≤ (a : Rat) := by exact_mod_cast Nat.zero_le a
  have hab : (a : Rat) ≤ (b : Rat) := by exact_mod_cast h
  exact ⟨div_nonneg ha hb'.le, (div_le_one hb').mpr hab⟩

/-- `summarize_ratio` for one label row: all four rates in [0,1] when the TP rows are covered -/
theorem ratioOf_inUnit (s : Sel) (t : Table) (h : TPCovered s t) : (ratioOf t s).inUnit := by
  unfold ratioOf
  simp only
  split
  · rename_i hpos
    have h1 := nat_div_unit _ _ (numTP_le_numGT s t h) hpos
    have h3 := nat_div_unit _ _ (numTN_le_numGT s t) hpos
    have h4 := nat_div_unit _ _ (numFN_le_numGT s t) hpos
    refine ⟨h1.1, h1.2, ?_, ?_, h3.1, h3.2, h4.1, h4.2⟩
    · split
      · rename_i hne
        exact (nat_div_unit (getNumFP t s) (getNumTP t s + getNumFP t s) (by omega) (by omega)).1
      · exact le_refl _
    · split
      · rename_i hne
        exact (nat_div_unit (getNumFP t s) (getNumTP t s + getNumFP t s) (by omega) (by omega)).2
      · exact zero_le_one
  · simp [Ratio.inUnit]

/-- the per-label TP rate as the code computes it (characterisation of finding N1) -/
theorem ratioOf_tp (s : Sel) (t : Table) :
    (ratioOf t s).tp = if getNumGroundTruth t s > 0 then (getNumTP t s : Rat) / (getNumGroundTruth t s : Rat) else 0 := by
  unfold ratioOf
  simp only
  split <;> rfl

/-! ### rows of the table come from the frames -/

theorem mem_allItemsFrom (area : Rat → Rat → Option Nat) (it : Item) :
    ∀ (k : Nat) (scenes : List (List Frame)), it ∈ allItemsFrom area k scenes →
      ∃ k' f, f ∈ scenes.flatten ∧ it ∈ frameItems area k' f := by
  intro k scenes
  induction scenes generalizing k with
  | nil => intro h; simp [allItemsFrom] at h
  | cons fs rest ih =>
    intro h
    simp only [allItemsFrom, List.mem_append, sceneItems, List.mem_flatMap] at h
    rcases h with ⟨f, hf, hit⟩ | h
    · exact ⟨k, f, by simp [hf], hit⟩
    · obtain ⟨k', f, hf, hit⟩ := ih (k + 1) h
      exact ⟨k', f, by simp [hf], hit⟩

theorem mem_table (area : Rat → Rat → Option Nat) (scenes : List (List Frame)) (r : RowPair)
    (h : r ∈ (addAll area scenes).table) : ∃ k f, f ∈ scenes.flatten ∧ r.strip ∈ frameItems area k f := by
  have : r.strip ∈ (addAll area scenes).table.map RowPair.strip := List.mem_map_of_mem h
  rw [addAll_strip] at this
  exact mem_allItemsFrom area _ 0 scenes this

/-- a TP estimate row of a frame's block is a TP result of that frame, next to its ground truth -/
theorem frameItems_tp_row (area : Rat → Rat → Option Nat) (k : Nat) (f : Frame) (it : Item) (e : Cell)
    (hit : it ∈ frameItems area k f) (he : it.2 = some e) (hst : e.status = .TP) :
    ∃ p ∈ f.tp, e.obj = p.est ∧ it.1 = p.gt.map fun g => (⟨.TP, g, area p.est.x p.est.y, f.frameNum, k⟩ : Cell) := by
  simp only [frameItems, List.mem_append, List.mem_map] at hit
  rcases hit with ((⟨p, hp, rfl⟩ | ⟨p, hp, rfl⟩) | ⟨o, ho, rfl⟩) | ⟨o, ho, rfl⟩
  · simp only [resultCells, Option.some.injEq] at he
    subst he
    exact ⟨p, hp, rfl, rfl⟩
  · simp only [resultCells, Option.some.injEq] at he
    subst he
    simp at hst
  · simp [objectCells] at he
  · simp [objectCells] at he

/-- tables of frames whose TP results carry a ground truth: the "ALL" row is covered -/
theorem table_TPCovered_all (area : Rat → Rat → Option Nat) (scenes : List (List Frame))
    (h : ∀ f ∈ scenes.flatten, ∀ p ∈ f.tp, p.gt.isSome = true) (t : Table)
    (ht : ∀ r ∈ t, r ∈ (addAll area scenes).table) : TPCovered {} t := by
  intro r hr e he _ hst
  obtain ⟨k, f, hf, hit⟩ := mem_table area scenes r (ht r hr)
  obtain ⟨p, hp, _, hgt⟩ := frameItems_tp_row area k f r.strip e hit he hst
  have := h f hf p hp
  cases hg : p.gt with
  | none => simp [hg] at this
  | some g => exact ⟨_, by simpa [RowPair.strip, hg] using hgt, by simp⟩

/-- … and every label row when, in addition, TP pairs have equal labels -/
theorem table_TPCovered_label (area : Rat → Rat → Option Nat) (scenes : List (List Frame))
    (h : ∀ f ∈ scenes.flatten, ∀ p ∈ f.tp, ∃ g, p.gt = some g ∧ g.label = p.est.label) (t : Table)
    (ht : ∀ r ∈ t, r ∈ (addAll area scenes).table) (L : String) : TPCovered { labels := some [L] } t := by
  intro r hr e he hm hst
  obtain ⟨k, f, hf, hit⟩ := mem_table area scenes r (ht r hr)
  obtain ⟨p, hp, hobj, hgt⟩ := frameItems_tp_row area k f r.strip e hit he hst
  obtain ⟨g, hg, hl⟩ := h f hf p hp
  refine ⟨_, by simpa [RowPair.strip, hg] using hgt, ?_⟩
  rw [Cell.matches_label] at hm ⊢
  simp only [decide_eq_true_eq] at hm ⊢
  rw [hl, ← hobj]; exact hm

/-! ### the label-selected counts of the whole table (finding N1) -/

theorem getNumTP_label_table (area : Rat → Rat → Option Nat) (scenes : List (List Frame)) (L : String) :
    getNumTP (addAll area scenes).table { labels := some [L] } =
      sumN (scenes.flatten.map fun f => f.tp.countP fun p => decide (p.est.label = L)) := by
  unfold getNumTP getEstimation
  rw [table_filterMap_est]
  apply table_measure area scenes
    (fun l => countStatus .TP ((l.filterMap (·.2)).filter (Cell.matches { labels := some [L] }))) _ rfl
  · intro a b; simp [List.filterMap_append, countStatus_append]
  · intro k f
    simp [frameItems_est, countStatus, List.countP_append, List.countP_filter, List.countP_map, Function.comp_def,
      Cell.matches_label, Status.beq_decide]

theorem getNumGT_label_table (area : Rat → Rat → Option Nat) (scenes : List (List Frame)) (L : String) :
    getNumGroundTruth (addAll area scenes).table { labels := some [L] } =
      sumN (scenes.flatten.map fun f => (f.tpGts ++ f.fpGts ++ f.tn ++ f.fn).countP fun g => decide (g.label = L)) := by
  unfold getNumGroundTruth getGroundTruth
  rw [table_filterMap_gt]
  apply table_measure area scenes
    (fun l => ((l.filterMap (·.1)).filter (Cell.matches { labels := some [L] })).length) _ rfl
  · intro a b; simp [List.filterMap_append]
  · intro k f
    simp only [frameItems_gt, ← List.countP_eq_length_filter, List.countP_append, List.countP_map, Frame.tpGts,
      Frame.fpGts, List.countP_filterMap]
    simp [Function.comp_def, Cell.matches_label]

/-! ### confusion matrix -/

theorem labelIndices_ok (tl : List String) : ∀ (ls : List String) (is : List Nat),
    labelIndices tl ls = .ok is → is.length = ls.length ∧ ∀ i ∈ is, i < tl.length := by
  intro ls
  induction ls with
  | nil => intro is h; simp [labelIndices] at h; subst h; simp
  | cons l ls ih =>
    intro is h
    simp only [labelIndices] at h
    cases hi : tl.idxOf? l with
    | none => simp [hi] at h
    | some i =>
      simp only [hi] at h
      cases hr : labelIndices tl ls with
      | error e => simp [hr] at h
      | ok is' =>
        simp only [hr, Except.ok.injEq] at h
        subst h
        obtain ⟨h1, h2⟩ := ih is' hr
        have hlt : i < tl.length := by
          obtain ⟨hh, _⟩ := List.idxOf?_eq_some_iff.mp hi
          exact hh
        refine ⟨by simp [h1], ?_⟩
        intro j hj
        rcases List.mem_cons.mp hj with h | h
        · subst h; exact hlt
        · exact h2 j h

theorem decomp_iff (n k i j : Nat) (hj : j < n) : k = n * i + j ↔ i = k / n ∧ j = k % n := by
  have hn : 0 < n := by omega
  constructor
  · intro h
    subst h
    rw [Nat.mul_add_div hn, Nat.mul_add_mod, Nat.div_eq_of_lt hj, Nat.mod_eq_of_lt hj]
    simp
  · rintro ⟨h1, h2⟩
    subst h1 h2
    exact (Nat.div_add_mod k n).symm

theorem sum_indicator_range (n j0 : Nat) (h : j0 < n) :
    sumN ((List.range n).map fun j => if j = j0 then 1 else 0) = 1 := by
  have := sumN_indicator (List.range n) id (fun _ => 1) j0 (by simpa using List.nodup_range) (List.mem_range.mpr h)
  simpa using this

theorem sum_hit (n k : Nat) (hk : k < n * n) :
    sumN ((List.range n).map fun i => sumN ((List.range n).map fun j => if k = n * i + j then 1 else 0)) = 1 := by
  have hn : 0 < n := by
    cases n with
    | zero => simp at hk
    | succ m => omega
  have hi0 : k / n < n := Nat.div_lt_of_lt_mul hk
  have hj0 : k % n < n := Nat.mod_lt _ hn
  have inner : ∀ i ∈ List.range n,
      sumN ((List.range n).map fun j => if k = n * i + j then 1 else 0) = if i = k / n then 1 else 0 := by
    intro i _
    by_cases hi : i = k / n
    · rw [if_pos hi]
      rw [sumN_map_congr _ _ (fun j => if j = k % n then 1 else 0)]
      · exact sum_indicator_range n (k % n) hj0
      · intro j hj
        have hj' := List.mem_range.mp hj
        have := decomp_iff n k i j hj'
        by_cases hjj : j = k % n
        · rw [if_pos hjj, if_pos (this.mpr ⟨hi, hjj⟩)]
        · rw [if_neg hjj, if_neg (fun hh => hjj (this.mp hh).2)]
    · rw [if_neg hi]
      apply sumN_map_zero
      intro j hj
      have hj' := List.mem_range.mp hj
      have := decomp_iff n k i j hj'
      rw [if_neg (fun hh => hi (this.mp hh).1)]
  rw [sumN_map_congr _ _ _ inner]
  exact sum_indicator_range n (k / n) hi0

theorem bincount_sum (n : Nat) (indices : List Nat) (h : ∀ k ∈ indices, k < n * n) :
    sumN ((bincountMatrix n indices).map sumN) = indices.length := by
  induction indices with
  | nil =>
    simp only [bincountMatrix, List.count_nil, List.map_map, List.length_nil]
    apply sumN_map_zero
    intro i _
    simp only [Function.comp_apply]
    apply sumN_map_zero
    intro j _
    rfl
  | cons k ks ih =>
    have ih' := ih (fun k' hk' => h k' (by simp [hk']))
    have hk := h k (by simp)
    simp only [bincountMatrix, List.map_map, Function.comp_def, List.count_cons, beq_iff_eq] at ih' ⊢
    simp only [sumN_map_add]
    rw [ih', sum_hit n k hk]
    simp

theorem index_bound (n g e : Nat) (hg : g < n) (he : e < n) : n * g + e < n * n := by
  calc n * g + e < n * g + n := by omega
    _ = n * (g + 1) := by rw [Nat.mul_add, Nat.mul_one]
    _ ≤ n * n := Nat.mul_le_mul_left n (by omega)

theorem confusionWith_some (tl : List String) (t : Table) (m : List (List Nat))
    (h : confusionWith tl t = .ok (some m)) :
    sumN (m.map sumN) = (getPairResults t).length ∧ 0 < (getPairResults t).length := by
  unfold confusionWith at h
  split at h
  · simp at h
  · simp only at h
    split at h
    · rename_i gi ei hgi hei
      obtain ⟨g1, g2⟩ := labelIndices_ok _ _ _ hgi
      obtain ⟨e1, e2⟩ := labelIndices_ok _ _ _ hei
      split at h
      · simp at h
      · rename_i hne
        simp only [Except.ok.injEq, Option.some.injEq] at h
        subst h
        have hlen : ((gi.zip ei).map fun (g, e) => tl.length * g + e).length = (getPairResults t).length := by
          simp [g1, e1]
        rw [bincount_sum]
        · refine ⟨hlen, ?_⟩
          rw [← hlen]
          cases hh : ((gi.zip ei).map fun (g, e) => tl.length * g + e) with
          | nil => simp [hh] at hne
          | cons a b => simp
        · intro k hk
          simp only [List.mem_map] at hk
          obtain ⟨⟨g, e⟩, hge, rfl⟩ := hk
          have := List.of_mem_zip hge
          exact index_bound _ g e (g2 g this.1) (e2 e this.2)
    · simp at h
    · simp at h

theorem confusionWith_none_iff (tl : List String) (t : Table) :
    confusionWith tl t = .ok none ↔ getPairResults t = [] := by
  unfold confusionWith
  constructor
  · intro h
    split at h
    · rename_i he
      cases t with
      | nil => rfl
      | cons r t => simp at he
    · simp only at h
      split at h
      · rename_i gi ei hgi hei
        obtain ⟨g1, _⟩ := labelIndices_ok _ _ _ hgi
        obtain ⟨e1, _⟩ := labelIndices_ok _ _ _ hei
        split at h
        · rename_i hemp
          have : ((gi.zip ei).map fun (g, e) => tl.length * g + e).length = 0 := by
            cases hh : ((gi.zip ei).map fun (g, e) => tl.length * g + e) with
            | nil => rfl
            | cons a b => simp [hh] at hemp
          simp [g1, e1] at this
          exact this
        · simp at h
      · simp at h
      · simp at h
  · intro h
    split
    · rfl
    · simp [h, labelIndices]

/-- the repaired `get_confusion_matrix`: a returned matrix sums to the number of paired rows -/
theorem confusion_some (labels : List String) (t : Table) (m : List (List Nat))
    (h : getConfusionMatrix labels t = .ok (some m)) :
    sumN (m.map sumN) = (getPairResults t).length ∧ 0 < (getPairResults t).length :=
  confusionWith_some _ t m h

theorem confusion_none_iff (labels : List String) (t : Table) :
    getConfusionMatrix labels t = .ok none ↔ getPairResults t = [] :=
  confusionWith_none_iff _ t

/-- the same for the pre-fix function (N3) -/
theorem confusionOld_some (labels : List String) (t : Table) (m : List (List Nat))
    (h : getConfusionMatrixOld labels t = .ok (some m)) :
    sumN (m.map sumN) = (getPairResults t).length ∧ 0 < (getPairResults t).length :=
  confusionWith_some _ t m h

theorem confusionOld_none_iff (labels : List String) (t : Table) :
    getConfusionMatrixOld labels t = .ok none ↔ getPairResults t = [] :=
  confusionWith_none_iff _ t

/-- shape of a returned matrix: square, of the size of the index -/
theorem confusionWith_shape (tl : List String) (t : Table) (m : List (List Nat))
    (h : confusionWith tl t = .ok (some m)) : m.length = tl.length ∧ ∀ row ∈ m, row.length = tl.length := by
  unfold confusionWith at h
  split at h
  · simp at h
  · simp only at h
    split at h
    · split at h
      · simp at h
      · simp only [Except.ok.injEq, Option.some.injEq] at h
        subst h
        simp [bincountMatrix]
    · simp at h
    · simp at h

end PEval.Analyzer
