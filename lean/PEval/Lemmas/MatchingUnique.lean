import PEval.Lemmas.MatchingBlocking
/-!
Uniqueness of the greedy outcome when no two scores tie: the sequence of picks does not depend on the
order in which the remaining estimates / ground truths are listed, and it is the only run of the
relational specification "take *a* best available pair until none is left".
-/
namespace PEval.Matching

/-- no two entries of the table carry the same score -/
def NoTies (t : Tbl) : Prop :=
  ∀ i j i' j' s, t.score i j = some s → t.score i' j' = some s → i = i' ∧ j = j'

theorem cands_mem_congr (t : Tbl) (s1 : Bool) {es es' gs gs' : List Nat} (hE : es.Perm es') (hG : gs.Perm gs')
    (x : Nat × Nat × Rat) : x ∈ cands t s1 es gs ↔ x ∈ cands t s1 es' gs' := by
  obtain ⟨i, j, s⟩ := x
  rw [mem_cands_iff, mem_cands_iff, hE.mem_iff, hG.mem_iff]

/-- with pairwise different scores the arg-best only depends on the SET of candidates -/
theorem argBest_congr {t : Tbl} (hnt : NoTies t) (mx : Bool) {l l' : List (Nat × Nat × Rat)}
    (hl : ∀ x ∈ l, t.score x.1 x.2.1 = some x.2.2) (hmem : ∀ x, x ∈ l ↔ x ∈ l') :
    argBest mx l = argBest mx l' := by
  cases h : argBest mx l with
  | none =>
    have hnil := argBest_none mx l h
    subst hnil
    have : l' = [] := List.eq_nil_iff_forall_not_mem.2 (fun x hx => by simpa using (hmem x).2 hx)
    subst this; rfl
  | some c =>
    have hc := argBest_mem mx l c h
    cases h' : argBest mx l' with
    | none =>
      have hnil := argBest_none mx l' h'
      subst hnil
      exact absurd ((hmem c).1 hc) (by simp)
    | some c' =>
      have hc' := argBest_mem mx l' c' h'
      have h1 := argBest_opt mx l c h c' ((hmem c').2 hc')
      have h2 := argBest_opt mx l' c' h' c ((hmem c).1 hc)
      have heq := eq_of_not_better mx _ _ h1 h2
      have hs := hl c hc
      have hs' := hl c' ((hmem c').2 hc')
      rw [heq] at hs'
      obtain ⟨i, j, s⟩ := c
      obtain ⟨i', j', s'⟩ := c'
      simp only at heq hs hs'
      subst heq
      obtain ⟨rfl, rfl⟩ := hnt _ _ _ _ _ hs' hs
      rfl

theorem cands_scored (t : Tbl) (s1 : Bool) (es gs : List Nat) :
    ∀ x ∈ cands t s1 es gs, t.score x.1 x.2.1 = some x.2.2 := by
  intro x hx
  obtain ⟨i, j, s⟩ := x
  exact (mem_cands_iff.1 hx).2.2.1

/-- one loop does not depend on the listing order of the remaining indices -/
theorem stage_perm {t : Tbl} (hnt : NoTies t) (s1 : Bool) (fuel : Nat) (st st' : St)
    (hE : st.es.Perm st'.es) (hG : st.gs.Perm st'.gs) (hP : st.pairs = st'.pairs) :
    (stage t s1 fuel st).pairs = (stage t s1 fuel st').pairs ∧
      (stage t s1 fuel st).es.Perm (stage t s1 fuel st').es ∧
      (stage t s1 fuel st).gs.Perm (stage t s1 fuel st').gs := by
  induction fuel generalizing st st' with
  | zero => exact ⟨hP, hE, hG⟩
  | succ n ih =>
    have hcong := argBest_congr hnt t.maximize (cands_scored t s1 st.es st.gs)
      (cands_mem_congr t s1 hE hG)
    cases hb : argBest t.maximize (cands t s1 st.es st.gs) with
    | none =>
      rw [stage_succ_none hb, stage_succ_none (hcong ▸ hb)]
      exact ⟨hP, hE, hG⟩
    | some c =>
      obtain ⟨i, j, s⟩ := c
      rw [stage_succ_some hb, stage_succ_some (hcong ▸ hb)]
      exact ih _ _ (hE.erase i) (hG.erase j) (by simp [hP])

/-- the whole two-stage run does not depend on the listing order -/
theorem matchFrom_perm {t : Tbl} (hnt : NoTies t) {es es' gs gs' : List Nat} (hE : es.Perm es') (hG : gs.Perm gs') :
    (matchFrom t es gs).pairs = (matchFrom t es' gs').pairs ∧
      (matchFrom t es gs).es.Perm (matchFrom t es' gs').es := by
  have h1 := stage_perm hnt true es.length { es := es, gs := gs, pairs := [] } { es := es', gs := gs', pairs := [] }
    hE hG rfl
  rw [matchFrom_eq, matchFrom_eq]
  unfold stage1State
  rw [← hE.length_eq]
  have h2 := stage_perm hnt false (stage t true es.length { es := es, gs := gs, pairs := [] }).es.length _ _
    h1.2.1 h1.2.2 h1.1
  rw [← h1.2.1.length_eq]
  exact ⟨h2.1, h2.2.1⟩

/-! ## relational specification of one stage -/

/-- "pick *a* best available pair (w.r.t. the stage's filter) until none is left" -/
inductive GreedyRun (t : Tbl) (s1 : Bool) : St → St → Prop where
  | done (st : St) : cands t s1 st.es st.gs = [] → GreedyRun t s1 st st
  | pick (st st' : St) (i j : Nat) (s : Rat) :
      (i, j, s) ∈ cands t s1 st.es st.gs →
      (∀ x ∈ cands t s1 st.es st.gs, better t.maximize x.2.2 s = false) →
      GreedyRun t s1 { es := st.es.erase i, gs := st.gs.erase j, pairs := st.pairs ++ [(i, j)] } st' →
      GreedyRun t s1 st st'

/-- the loop is a run of the specification (given fuel for every remaining estimate) -/
theorem stage_refines (t : Tbl) (s1 : Bool) (fuel : Nat) (st : St) (hf : st.es.length ≤ fuel) :
    GreedyRun t s1 st (stage t s1 fuel st) := by
  induction fuel generalizing st with
  | zero =>
    have : st.es = [] := List.eq_nil_of_length_eq_zero (Nat.le_zero.1 hf)
    exact GreedyRun.done st (by simp [this, cands])
  | succ n ih =>
    cases hb : argBest t.maximize (cands t s1 st.es st.gs) with
    | none => rw [stage_succ_none hb]; exact GreedyRun.done st (argBest_none _ _ hb)
    | some c =>
      obtain ⟨i, j, s⟩ := c
      rw [stage_succ_some hb]
      have hi := (pick_spec hb).1
      refine GreedyRun.pick st _ i j s (argBest_mem _ _ _ hb) (argBest_opt _ _ _ hb) (ih _ ?_)
      simp only [List.length_erase_of_mem hi]
      have : 0 < st.es.length := List.length_pos_of_mem hi
      omega

/-- without ties the specification has exactly one run -/
theorem greedyRun_unique {t : Tbl} (hnt : NoTies t) {s1 : Bool} {st a b : St}
    (ha : GreedyRun t s1 st a) (hb : GreedyRun t s1 st b) : a = b := by
  induction ha generalizing b with
  | done st hnil =>
    cases hb with
    | done _ _ => rfl
    | pick _ _ i j s hmem _ _ => rw [hnil] at hmem; cases hmem
  | pick st st' i j s hmem hopt _ ih =>
    cases hb with
    | done _ hnil => rw [hnil] at hmem; cases hmem
    | pick _ _ i' j' s' hmem' hopt' hrun' =>
      have h1 := hopt' (i, j, s) hmem
      have h2 := hopt (i', j', s') hmem'
      have heq : s = s' := eq_of_not_better t.maximize _ _ h1 h2
      subst heq
      obtain ⟨rfl, rfl⟩ := hnt _ _ _ _ _ (mem_cands_iff.1 hmem).2.2.1 (mem_cands_iff.1 hmem').2.2.1
      exact ih hrun'

end PEval.Matching

namespace PEval.Matching

/-- the documented assignment as a relation: a run of the compatible-only stage followed by a run of the
label-blind stage -/
def TwoStageRun (t : Tbl) (es gs : List Nat) (st : St) : Prop :=
  ∃ s1, GreedyRun t true { es := es, gs := gs, pairs := [] } s1 ∧ GreedyRun t false s1 st

theorem matchFrom_refines (t : Tbl) (es gs : List Nat) : TwoStageRun t es gs (matchFrom t es gs) :=
  ⟨stage1State t es gs, stage_refines t true es.length _ (Nat.le_refl _),
    by rw [matchFrom_eq]; exact stage_refines t false _ _ (Nat.le_refl _)⟩

theorem twoStageRun_unique {t : Tbl} (hnt : NoTies t) {es gs : List Nat} {a b : St}
    (ha : TwoStageRun t es gs a) (hb : TwoStageRun t es gs b) : a = b := by
  obtain ⟨sa, ha1, ha2⟩ := ha
  obtain ⟨sb, hb1, hb2⟩ := hb
  have := greedyRun_unique hnt ha1 hb1
  subst this
  exact greedyRun_unique hnt ha2 hb2

/-- executable check of `NoTies` for a table built from a scene -/
def noTiesCheck (c : Cfg) (sc : Scene) : Bool :=
  (List.range sc.ests.length).all fun i => (List.range sc.gts.length).all fun j =>
    (List.range sc.ests.length).all fun i' => (List.range sc.gts.length).all fun j' =>
      (((mkTbl c sc).score i j).isNone || (mkTbl c sc).score i j != (mkTbl c sc).score i' j')
        || (i == i' && j == j')

theorem noTies_of_check {c : Cfg} {sc : Scene} (h : noTiesCheck c sc = true) : NoTies (mkTbl c sc) := by
  intro i j i' j' s h1 h2
  obtain ⟨hi, hj⟩ := mkTbl_score_some_lt h1
  obtain ⟨hi', hj'⟩ := mkTbl_score_some_lt h2
  unfold noTiesCheck at h
  rw [List.all_eq_true] at h
  have a := h i (List.mem_range.2 hi)
  rw [List.all_eq_true] at a
  have b := a j (List.mem_range.2 hj)
  rw [List.all_eq_true] at b
  have c' := b i' (List.mem_range.2 hi')
  rw [List.all_eq_true] at c'
  have d := c' j' (List.mem_range.2 hj')
  simp [h1, h2] at d
  exact d

end PEval.Matching
