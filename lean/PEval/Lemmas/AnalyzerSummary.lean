import PEval.Lemmas.AnalyzerErrors
/-!
# C19 lemmas (10): which rows feed `summarize_error`

`summarize_error(df)` on a sub-table `df = full.filter q` of a table whose pair indices are distinct and whose
paired rows have status TP / FP / TN:

* the "ALL" block summarises, column by column, the per-row errors `pairErrors c df` = GT − estimate of the PAIRED rows
  of `df` (both sides present: TP results and FP results that carry a ground truth), NaN dropped;
* the block of a label `L` summarises the per-row errors of the paired rows of `df` whose GROUND-TRUTH row has label
  `L` (the estimate's label is irrelevant), looked up in the full table by pair index.
-/

set_option linter.unusedSimpArgs false
set_option linter.unnecessarySimpa false

namespace PEval.Analyzer

/-- per-row errors of a column over the paired rows of a table, NaN (missing velocity) dropped -/
def pairErrors (c : Col) (t : Table) : List Rat := (getPairResults t).filterMap (pairError c)

/-- one `_summarize` per modelled column over the paired rows of `t` -/
def errCols (t : Table) : List (Col × Option Summary) := summaryCols.map fun c => (c, summarize (pairErrors c t))

/-- every paired row has status TP / FP / TN on both sides -/
def PairsIn (t : Table) : Prop := ∀ p ∈ getPairResults t, inStatus [.TP, .FP, .TN] p = true

theorem PairsIn.filter {t : Table} (h : PairsIn t) (q : RowPair → Bool) : PairsIn (t.filter q) := by
  intro p hp
  apply h p
  rw [getPairResults_eq] at hp ⊢
  obtain ⟨r, hr, hrp⟩ := List.mem_filterMap.mp hp
  exact List.mem_filterMap.mpr ⟨r, (List.mem_filter.mp hr).1, hrp⟩

theorem summarizeCols_eq (t : Table) (h : PairsIn t) : summarizeCols t = errCols t := by
  unfold summarizeCols errCols
  apply List.map_congr_left
  intro c _
  congr 1
  have hc : (calculateError c t).filterMap id = pairErrors c t := by
    rw [calculateError_eq, List.filter_eq_self.mpr h, List.filterMap_map]
    rfl
  by_cases he : t.isEmpty = true
  · have : t = [] := by cases t <;> simp_all
    subst this
    simp [pairErrors, getPairResults, summarize]
  · simp only [he, Bool.false_eq_true, if_false, hc]

/-- the ground-truth row has a status TP / FP / TN and label `L` (`get_ground_truth(df, status=[…], label=L)`) -/
def gtLabelIs (L : String) (r : RowPair) : Bool :=
  r.gt.any fun c => [Status.TP, .FP, .TN].contains c.status && c.obj.label == L

theorem inj_of_nodup_map {α β : Type} (f : α → β) : ∀ (l : List α), (l.map f).Nodup →
    ∀ a ∈ l, ∀ b ∈ l, f a = f b → a = b
  | [], _, a, ha, _, _, _ => by simp at ha
  | x :: l, h, a, ha, b, hb, hab => by
    simp only [List.map_cons, List.nodup_cons, List.mem_map, not_exists, not_and] at h
    rcases List.mem_cons.mp ha with rfl | ha' <;> rcases List.mem_cons.mp hb with rfl | hb'
    · rfl
    · exact absurd hab.symm (h.1 b hb')
    · exact absurd hab (h.1 a ha')
    · exact inj_of_nodup_map f l h.2 a ha' b hb' hab

/-- looking rows up by index in a table with distinct indices gives back exactly the rows whose indices were collected -/
theorem filter_index_contains (full : Table) (hnd : (full.map (·.index)).Nodup) (Q : RowPair → Bool) :
    full.filter (fun r => ((full.filter Q).map (·.index)).contains r.index) = full.filter Q := by
  apply List.filter_congr
  intro r hr
  have hinj := inj_of_nodup_map (·.index) full hnd
  by_cases hq : Q r = true
  · rw [hq]
    have : r.index ∈ (full.filter Q).map (·.index) :=
      List.mem_map.mpr ⟨r, List.mem_filter.mpr ⟨hr, hq⟩, rfl⟩
    simpa using this
  · have hq' : Q r = false := by simpa using hq
    rw [hq']
    apply Bool.eq_false_iff.mpr
    intro hc
    simp only [List.contains_iff_mem, List.mem_map, List.mem_filter, decide_eq_true_eq] at hc
    obtain ⟨r', ⟨hr', hq2⟩, hidx⟩ := hc
    have := hinj r' hr' r hr hidx
    subst this
    exact hq hq2

theorem summarizeError_eq (labels : List String) (full : Table) (q : RowPair → Bool)
    (hnd : (full.map (·.index)).Nodup) (hp : PairsIn full) :
    summarizeError labels full (full.filter q) =
      ("ALL", errCols (full.filter q)) :: labels.map fun L => (L, errCols ((full.filter q).filter (gtLabelIs L))) := by
  unfold summarizeError
  rw [summarizeCols_eq _ (hp.filter q)]
  congr 1
  apply List.map_congr_left
  intro L _
  refine congrArg (Prod.mk L) ?_
  have hQ : ((full.filter q).filter fun r =>
      r.gt.any fun c => [Status.TP, .FP, .TN].contains c.status && c.obj.label == L) =
      full.filter (fun r => q r && gtLabelIs L r) := by
    rw [List.filter_filter]
    apply List.filter_congr
    intro r _
    simp [gtLabelIs, Bool.and_comm]
  have hQ' : (full.filter q).filter (gtLabelIs L) = full.filter (fun r => q r && gtLabelIs L r) := by
    rw [List.filter_filter]
    apply List.filter_congr
    intro r _
    simp [Bool.and_comm]
  simp only [hQ]
  rw [filter_index_contains full hnd, hQ']
  split
  · rename_i hemp
    have : full.filter (fun r => q r && gtLabelIs L r) = [] := by
      cases hh : full.filter (fun r => q r && gtLabelIs L r) with
      | nil => rfl
      | cons a b => simp [hh] at hemp
    rw [this]
    exact summarizeCols_eq [] (by intro p hp; simp [getPairResults] at hp)
  · exact summarizeCols_eq _ (hp.filter _)

/-- the paired rows of the label block: the paired rows whose ground-truth row has label `L` -/
theorem getPairResults_gtLabel (t : Table) (h : PairsIn t) (L : String) :
    getPairResults (t.filter (gtLabelIs L)) = (getPairResults t).filter (fun p => p.1.obj.label == L) := by
  induction t with
  | nil => rfl
  | cons r t ih =>
    have ht : PairsIn t := by
      intro p hp
      apply h p
      rw [getPairResults_eq] at hp ⊢
      simp only [List.filterMap_cons]
      cases pairOf r <;> simp [hp]
    have ih' := ih ht
    cases hg : r.gt with
    | none =>
      have h1 : gtLabelIs L r = false := by simp [gtLabelIs, hg]
      have h2 : getPairResults (r :: t) = getPairResults t := by simp [getPairResults, hg]
      rw [List.filter_cons, h1, h2]
      simpa using ih'
    | some g =>
      cases he : r.est with
      | none =>
        have h2 : getPairResults (r :: t) = getPairResults t := by simp [getPairResults, hg, he]
        rw [h2, List.filter_cons]
        split
        · have h3 : getPairResults (r :: t.filter (gtLabelIs L)) = getPairResults (t.filter (gtLabelIs L)) := by
            simp [getPairResults, hg, he]
          rw [h3, ih']
        · exact ih'
      | some e =>
        have h2 : getPairResults (r :: t) = (g, e) :: getPairResults t := by simp [getPairResults, hg, he]
        have hst : [Status.TP, .FP, .TN].contains g.status = true := by
          have := h (g, e) (by rw [h2]; simp)
          simp only [inStatus, Bool.and_eq_true] at this
          exact this.1
        have h1 : gtLabelIs L r = (g.obj.label == L) := by
          simp [gtLabelIs, hg]; intro _; simpa using hst
        rw [h2, List.filter_cons, List.filter_cons, h1]
        split
        · have h3 : getPairResults (r :: t.filter (gtLabelIs L)) = (g, e) :: getPairResults (t.filter (gtLabelIs L)) := by
            simp [getPairResults, hg, he]
          rw [h3, ih']
        · exact ih'

theorem pairErrors_gtLabel (t : Table) (h : PairsIn t) (L : String) (c : Col) :
    pairErrors c (t.filter (gtLabelIs L)) =
      ((getPairResults t).filter (fun p => p.1.obj.label == L)).filterMap (pairError c) := by
  unfold pairErrors
  rw [getPairResults_gtLabel t h L]

end PEval.Analyzer
