import PEval.Model.Classification
/-!
Loop principles for the double loops of the id-based matchers, and the invariants they keep:
working copies only shrink, results only grow, estimates / ground truths are always split between
the working copy and the result list (`WF`), every appended pair satisfied the loop's condition.
-/
namespace PEval.Classification

/-! ## induction principles for `inner` / `outer` -/

theorem inner_induct {step : Obj → Obj → St → Except Err St} {e : Obj} {P : St → Prop} :
    ∀ (gs : List Obj), (∀ g ∈ gs, ∀ s s', P s → step e g s = .ok s' → P s') →
    ∀ s s', P s → inner step e gs s = .ok s' → P s' := by
  intro gs
  induction gs with
  | nil => intro _ s s' hp h; simp only [inner, Except.ok.injEq] at h; exact h ▸ hp
  | cons g t ih =>
    intro hstep s s' hp h
    simp only [inner] at h
    split at h
    · rename_i s1 h1
      exact ih (fun g' hg' => hstep g' (List.mem_cons_of_mem _ hg')) s1 s'
        (hstep g List.mem_cons_self s s1 hp h1) h
    · cases h

theorem outer_induct {step : Obj → Obj → St → Except Err St} {gs : List Obj} {P : St → Prop} :
    ∀ (es : List Obj), (∀ e ∈ es, ∀ g ∈ gs, ∀ s s', P s → step e g s = .ok s' → P s') →
    ∀ s s', P s → outer step gs es s = .ok s' → P s' := by
  intro es
  induction es with
  | nil => intro _ s s' hp h; simp only [outer, Except.ok.injEq] at h; exact h ▸ hp
  | cons e t ih =>
    intro hstep s s' hp h
    simp only [outer] at h
    split at h
    · rename_i s1 h1
      exact ih (fun e' he' => hstep e' (List.mem_cons_of_mem _ he')) s1 s'
        (inner_induct gs (hstep e List.mem_cons_self) s s1 hp h1) h
    · cases h

/-- every pair `(e, g)` of the double loop is visited; what its visit establishes (`Q`) and later
steps preserve holds at the end -/
theorem inner_visited {step : Obj → Obj → St → Except Err St} {e : Obj} {P : St → Prop}
    {Q : Obj → St → Prop} (gs : List Obj)
    (hP : ∀ g ∈ gs, ∀ s s', P s → step e g s = .ok s' → P s')
    (hQ : ∀ g ∈ gs, ∀ s s', P s → step e g s = .ok s' → Q g s')
    (hK : ∀ g ∈ gs, ∀ g' ∈ gs, ∀ s s', P s → Q g s → step e g' s = .ok s' → Q g s') :
    ∀ s s', P s → inner step e gs s = .ok s' → P s' ∧ ∀ g ∈ gs, Q g s' := by
  induction gs with
  | nil =>
    intro s s' hp h; simp only [inner, Except.ok.injEq] at h
    exact ⟨h ▸ hp, fun g hg => by cases hg⟩
  | cons g t ih =>
    intro s s' hp h
    simp only [inner] at h
    split at h
    · rename_i s1 h1
      have hp1 : P s1 := hP g List.mem_cons_self s s1 hp h1
      have hq1 : Q g s1 := hQ g List.mem_cons_self s s1 hp h1
      have hrest := ih (fun g' hg' => hP g' (List.mem_cons_of_mem _ hg'))
        (fun g' hg' => hQ g' (List.mem_cons_of_mem _ hg'))
        (fun g1 hg1 g2 hg2 => hK g1 (List.mem_cons_of_mem _ hg1) g2 (List.mem_cons_of_mem _ hg2)) s1 s' hp1 h
      have hkeep : P s' ∧ Q g s' :=
        inner_induct (P := fun s => P s ∧ Q g s) t
          (fun g' hg' a b hab hs =>
            ⟨hP g' (List.mem_cons_of_mem _ hg') a b hab.1 hs,
             hK g List.mem_cons_self g' (List.mem_cons_of_mem _ hg') a b hab.1 hab.2 hs⟩)
          s1 s' ⟨hp1, hq1⟩ h
      refine ⟨hrest.1, ?_⟩
      intro g' hg'
      rcases List.mem_cons.1 hg' with rfl | hg'
      · exact hkeep.2
      · exact hrest.2 g' hg'
    · cases h

theorem outer_visited {step : Obj → Obj → St → Except Err St} {P : St → Prop}
    {Q : Obj → Obj → St → Prop} (gs : List Obj) (es : List Obj)
    (hP : ∀ e ∈ es, ∀ g ∈ gs, ∀ s s', P s → step e g s = .ok s' → P s')
    (hQ : ∀ e ∈ es, ∀ g ∈ gs, ∀ s s', P s → step e g s = .ok s' → Q e g s')
    (hK : ∀ e ∈ es, ∀ g ∈ gs, ∀ e' ∈ es, ∀ g' ∈ gs, ∀ s s', P s → Q e g s → step e' g' s = .ok s' → Q e g s') :
    ∀ s s', P s → outer step gs es s = .ok s' → P s' ∧ ∀ e ∈ es, ∀ g ∈ gs, Q e g s' := by
  induction es with
  | nil =>
    intro s s' hp h; simp only [outer, Except.ok.injEq] at h
    exact ⟨h ▸ hp, fun e he => by cases he⟩
  | cons e t ih =>
    intro s s' hp h
    simp only [outer] at h
    split at h
    · rename_i s1 h1
      have hin := inner_visited (P := P) (Q := Q e) gs (hP e List.mem_cons_self)
        (hQ e List.mem_cons_self)
        (fun g hg g' hg' => hK e List.mem_cons_self g hg e List.mem_cons_self g' hg') s s1 hp h1
      have hrest := ih (fun e' he' => hP e' (List.mem_cons_of_mem _ he'))
        (fun e' he' => hQ e' (List.mem_cons_of_mem _ he'))
        (fun e1 he1 g1 hg1 e2 he2 g2 hg2 =>
          hK e1 (List.mem_cons_of_mem _ he1) g1 hg1 e2 (List.mem_cons_of_mem _ he2) g2 hg2) s1 s' hin.1 h
      have hkeep : P s' ∧ ∀ g ∈ gs, Q e g s' :=
        outer_induct (P := fun s => P s ∧ ∀ g ∈ gs, Q e g s) t
          (fun e' he' g' hg' a b hab hs =>
            ⟨hP e' (List.mem_cons_of_mem _ he') g' hg' a b hab.1 hs,
             fun g hg => hK e List.mem_cons_self g hg e' (List.mem_cons_of_mem _ he') g' hg' a b hab.1
               (hab.2 g hg) hs⟩)
          s1 s' ⟨hin.1, hin.2⟩ h
      refine ⟨hrest.1, ?_⟩
      intro e' he'
      rcases List.mem_cons.1 he' with rfl | he'
      · exact hkeep.2
      · exact hrest.2 e' he'
    · cases h

/-! ## what one loop body can do -/

/-- the only state changes: take a pair satisfying the condition whose members are both still in the
working copies, or leave the state alone -/
inductive Move (c : Obj → Obj → Bool) (e g : Obj) (s : St) : St → Prop
  | take : c e g = true → e ∈ s.es → g ∈ s.gs → Move c e g s (take e g s)
  | skip : Move c e g s s

theorem stepG_ok {c : Obj → Obj → Bool} {e g : Obj} {s s' : St} (h : stepG c e g s = .ok s') :
    nullUuid e g = false ∧
      ((c e g = true ∧ e ∈ s.es ∧ g ∈ s.gs ∧ s' = take e g s) ∨
       (¬(c e g = true ∧ e ∈ s.es ∧ g ∈ s.gs) ∧ s' = s)) := by
  unfold stepG at h
  split at h
  · cases h
  · rename_i hn
    refine ⟨by simpa using hn, ?_⟩
    split at h
    · rename_i hc
      simp only [Bool.and_eq_true, decide_eq_true_eq] at hc
      simp only [Except.ok.injEq] at h
      exact Or.inl ⟨hc.1.1, hc.1.2, hc.2, h.symm⟩
    · rename_i hc
      simp only [Bool.and_eq_true, decide_eq_true_eq] at hc
      simp only [Except.ok.injEq] at h
      exact Or.inr ⟨fun hh => hc ⟨⟨hh.1, hh.2.1⟩, hh.2.2⟩, h.symm⟩

theorem stepU_ok {c : Obj → Obj → Bool} {e g : Obj} {s s' : St} (h : stepU c e g s = .ok s') :
    nullUuid e g = false ∧
      ((c e g = true ∧ e ∈ s.es ∧ g ∈ s.gs ∧ s' = take e g s) ∨ (c e g = false ∧ s' = s)) := by
  unfold stepU at h
  split at h
  · cases h
  · rename_i hn
    refine ⟨by simpa using hn, ?_⟩
    split at h
    · rename_i hc
      split at h
      · rename_i he
        split at h
        · rename_i hg
          simp only [Except.ok.injEq] at h
          exact Or.inl ⟨hc, he, hg, h.symm⟩
        · cases h
      · cases h
    · rename_i hc
      simp only [Except.ok.injEq] at h
      exact Or.inr ⟨by simpa using hc, h.symm⟩

theorem stepG_move {c : Obj → Obj → Bool} {e g : Obj} {s s' : St} (h : stepG c e g s = .ok s') :
    Move c e g s s' := by
  rcases (stepG_ok h).2 with ⟨hc, he, hg, rfl⟩ | ⟨_, rfl⟩
  · exact .take hc he hg
  · exact .skip

theorem stepU_move {c : Obj → Obj → Bool} {e g : Obj} {s s' : St} (h : stepU c e g s = .ok s') :
    Move c e g s s' := by
  rcases (stepU_ok h).2 with ⟨hc, he, hg, rfl⟩ | ⟨_, rfl⟩
  · exact .take hc he hg
  · exact .skip

/-- a loop all of whose bodies are `Move`s preserves every predicate that `Move`s preserve -/
theorem outer_moves {step : Obj → Obj → St → Except Err St} {c : Obj → Obj → Bool} {P : St → Prop}
    (hstep : ∀ e g s s', step e g s = .ok s' → Move c e g s s')
    (gs es : List Obj)
    (hP : ∀ e ∈ es, ∀ g ∈ gs, ∀ s s', P s → Move c e g s s' → P s') {s s' : St}
    (hp : P s) (h : outer step gs es s = .ok s') : P s' :=
  outer_induct es (fun e he g hg a b ha hs => hP e he g hg a b ha (hstep e g a b hs)) s s' hp h

/-! ## invariants -/

/-- working copies only shrink, the result list only grows -/
structure Shrinks (s s' : St) : Prop where
  es : s'.es.Sublist s.es
  gs : s'.gs.Sublist s.gs
  res : ∃ t, s'.res = s.res ++ t

theorem Shrinks.refl (s : St) : Shrinks s s := ⟨List.Sublist.refl _, List.Sublist.refl _, [], by simp⟩

theorem Shrinks.trans {a b c : St} (h1 : Shrinks a b) (h2 : Shrinks b c) : Shrinks a c := by
  obtain ⟨t1, ht1⟩ := h1.res
  obtain ⟨t2, ht2⟩ := h2.res
  exact ⟨h2.es.trans h1.es, h2.gs.trans h1.gs, t1 ++ t2, by rw [ht2, ht1, List.append_assoc]⟩

theorem Move.shrinks {c : Obj → Obj → Bool} {e g : Obj} {s s' : St} (h : Move c e g s s') : Shrinks s s' := by
  cases h with
  | take _ _ _ => exact ⟨List.erase_sublist, List.erase_sublist, [(e, g)], rfl⟩
  | skip => exact Shrinks.refl s

theorem outer_shrinks {step : Obj → Obj → St → Except Err St} {c : Obj → Obj → Bool}
    (hstep : ∀ e g s s', step e g s = .ok s' → Move c e g s s') (gs es : List Obj) {s s' : St}
    (h : outer step gs es s = .ok s') : Shrinks s s' :=
  outer_moves (P := fun x => Shrinks s x) hstep gs es
    (fun _ _ _ _ _ _ ha hm => ha.trans hm.shrinks) (Shrinks.refl s) h

/-- every estimate (ground truth) is either still in the working copy or in exactly one pair -/
structure WF (ests gts : List Obj) (s : St) : Prop where
  es : ests.Perm (s.es ++ s.res.map Prod.fst)
  gs : gts.Perm (s.gs ++ s.res.map Prod.snd)

theorem wf_init (ests gts : List Obj) : WF ests gts (initSt ests gts) := by
  constructor <;> simp [initSt]

theorem perm_take {l r : List Obj} {a : Obj} (h : a ∈ l) : (l ++ r).Perm (l.erase a ++ (r ++ [a])) := by
  have h1 : l.Perm (a :: l.erase a) := List.perm_cons_erase h
  have h2 : (l ++ r).Perm ((a :: l.erase a) ++ r) := h1.append_right r
  refine h2.trans ?_
  have : (l.erase a ++ (r ++ [a])) = (l.erase a ++ r) ++ [a] := by simp
  rw [this]
  simpa using (List.perm_append_singleton a (l.erase a ++ r)).symm

theorem Move.wf {c : Obj → Obj → Bool} {e g : Obj} {s s' : St} {ests gts : List Obj}
    (h : Move c e g s s') (w : WF ests gts s) : WF ests gts s' := by
  cases h with
  | take _ he hg =>
    constructor
    · show ests.Perm (s.es.erase e ++ (s.res ++ [(e, g)]).map Prod.fst)
      rw [List.map_append]; exact w.es.trans (perm_take he)
    · show gts.Perm (s.gs.erase g ++ (s.res ++ [(e, g)]).map Prod.snd)
      rw [List.map_append]; exact w.gs.trans (perm_take hg)
  | skip => exact w

/-- every pair in the result list satisfies `d` -/
def AllRes (d : Obj → Obj → Prop) (s : St) : Prop := ∀ p ∈ s.res, d p.1 p.2

theorem Move.allRes {c : Obj → Obj → Bool} {d : Obj → Obj → Prop} {e g : Obj} {s s' : St}
    (h : Move c e g s s') (hd : c e g = true → d e g) (a : AllRes d s) : AllRes d s' := by
  cases h with
  | take hc _ _ =>
    intro p hp
    simp only [Classification.take, List.mem_append, List.mem_singleton] at hp
    rcases hp with hp | rfl
    · exact a p hp
    · exact hd hc
  | skip => exact a

/-! consequences of `WF` for duplicate-free inputs -/

theorem WF.nodup_es {ests gts : List Obj} {s : St} (w : WF ests gts s) (h : ests.Nodup) :
    (s.es ++ s.res.map Prod.fst).Nodup := w.es.nodup_iff.1 h

theorem WF.nodup_gs {ests gts : List Obj} {s : St} (w : WF ests gts s) (h : gts.Nodup) :
    (s.gs ++ s.res.map Prod.snd).Nodup := w.gs.nodup_iff.1 h

theorem WF.mem_es {ests gts : List Obj} {s : St} (w : WF ests gts s) (x : Obj) :
    x ∈ ests ↔ x ∈ s.es ∨ x ∈ s.res.map Prod.fst := by
  rw [w.es.mem_iff, List.mem_append]

theorem WF.mem_gs {ests gts : List Obj} {s : St} (w : WF ests gts s) (x : Obj) :
    x ∈ gts ↔ x ∈ s.gs ∨ x ∈ s.res.map Prod.snd := by
  rw [w.gs.mem_iff, List.mem_append]

end PEval.Classification
