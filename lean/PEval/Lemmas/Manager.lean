import PEval.Model.Manager
/-!
Helper lemmas for C13: invariants of the manager state machine over arbitrary operation lists, and
what the accumulation loop of `get_scene_result` computes.
-/

namespace PEval.Manager

variable {E C T : Type}

/-! ### single steps and runs -/

theorem step_dataset (sem : Sem E C T) (s : State T) (op : Op E C) : (step sem s op).1.dataset = s.dataset := by
  cases op <;> rfl

theorem run_dataset (sem : Sem E C T) (s : State T) (ops : List (Op E C)) : (run sem s ops).1.dataset = s.dataset := by
  induction ops generalizing s with
  | nil => rfl
  | cons op ops ih => simp only [run]; rw [ih, step_dataset]

theorem step_query (sem : Sem E C T) (s : State T) (op : Op E C) (h : op.isQuery = true) : (step sem s op).1 = s := by
  cases op <;> first | rfl | (simp [Op.isQuery] at h)

theorem run_queries (sem : Sem E C T) (s : State T) (ops : List (Op E C)) (h : ∀ op ∈ ops, op.isQuery = true) :
    (run sem s ops).1 = s := by
  induction ops generalizing s with
  | nil => rfl
  | cons op ops ih =>
    simp only [run]
    rw [step_query sem s op (h op List.mem_cons_self)]
    exact ih s (fun o ho => h o (List.mem_cons_of_mem _ ho))

theorem run_append (sem : Sem E C T) (s : State T) (a b : List (Op E C)) :
    run sem s (a ++ b) = ((run sem (run sem s a).1 b).1, (run sem s a).2 ++ (run sem (run sem s a).1 b).2) := by
  induction a generalizing s with
  | nil => simp [run]
  | cons op ops ih => simp only [List.cons_append, run]; rw [ih]

theorem run_state_append (sem : Sem E C T) (s : State T) (a b : List (Op E C)) :
    (run sem s (a ++ b)).1 = (run sem (run sem s a).1 b).1 := by
  rw [run_append]

/-- the stored detection parts are exactly the fresh evaluations of the `add`s, in order -/
theorem run_frameResults_det (sem : Sem E C T) (s : State T) (ops : List (Op E C)) :
    (run sem s ops).1.frameResults.map (·.det) = s.frameResults.map (·.det) ++ addsDet sem ops := by
  induction ops generalizing s with
  | nil => simp [run, addsDet]
  | cons op ops ih =>
    simp only [run]
    rw [ih]
    cases op with
    | add g e c => simp [step, addFrameResult, evalFrame, addsDet]
    | scene => simp [step, addsDet]
    | lookup t thr => simp [step, addsDet]

theorem addsDet_append (sem : Sem E C T) (a b : List (Op E C)) :
    addsDet sem (a ++ b) = addsDet sem a ++ addsDet sem b := by
  induction a with
  | nil => simp [addsDet]
  | cons op ops ih => cases op <;> simp [addsDet, ih]

theorem addsDet_queries (sem : Sem E C T) (ops : List (Op E C)) (h : ∀ op ∈ ops, op.isQuery = true) :
    addsDet sem ops = [] := by
  induction ops with
  | nil => rfl
  | cons op ops ih =>
    have h0 := h op List.mem_cons_self
    have ht := ih (fun o ho => h o (List.mem_cons_of_mem _ ho))
    cases op with
    | add g e c => simp [Op.isQuery] at h0
    | scene => simpa [addsDet] using ht
    | lookup t thr => simpa [addsDet] using ht

/-- the predecessor seen by an `add` = the last stored result -/
theorem getLast?_map_det (l : List (FrameResult T)) : l.getLast?.map (·.det) = (l.map (·.det)).getLast? := by
  simp [List.getLast?_map]

theorem lastOut_append_one (sem : Sem E C T) (s : State T) (pre : List (Op E C)) (op : Op E C) :
    lastOut sem s (pre ++ [op]) = some (step sem (run sem s pre).1 op).2 := by
  unfold lastOut
  rw [run_append]
  simp [run]

/-- the detection part of the last stored result after a run -/
theorem run_last_det (sem : Sem E C T) (s : State T) (ops : List (Op E C)) :
    (run sem s ops).1.frameResults.getLast?.map (·.det)
      = (s.frameResults.map (·.det) ++ addsDet sem ops).getLast? := by
  rw [getLast?_map_det, run_frameResults_det]

/-! ### `get_scene_result` -/

theorem foldl_sceneAdd_results (frs : List (FrameResult T)) (sc : Scene) (l : Nat) :
    (frs.foldl sceneAdd sc).results[l]? = sc.results[l]?.map (· ++ frs.map (·.det.bucket l)) := by
  induction frs generalizing sc with
  | nil => cases h : sc.results[l]? <;> simp_all
  | cons fr frs ih =>
    simp only [List.foldl_cons]
    rw [ih]
    simp only [sceneAdd, List.getElem?_mapIdx]
    cases h : sc.results[l]? <;> simp

theorem foldl_sceneAdd_numGt (frs : List (FrameResult T)) (sc : Scene) (l : Nat) :
    (frs.foldl sceneAdd sc).numGt[l]? = sc.numGt[l]?.map (· + (frs.map (·.det.gt l)).sum) := by
  induction frs generalizing sc with
  | nil => cases h : sc.numGt[l]? <;> simp_all
  | cons fr frs ih =>
    simp only [List.foldl_cons]
    rw [ih]
    simp only [sceneAdd, List.getElem?_mapIdx]
    cases h : sc.numGt[l]? <;> simp [Nat.add_assoc]

theorem foldl_sceneAdd_usedFrame (frs : List (FrameResult T)) (sc : Scene) :
    (frs.foldl sceneAdd sc).usedFrame = sc.usedFrame ++ frs.map (·.frameName) := by
  induction frs generalizing sc with
  | nil => simp
  | cons fr frs ih => simp only [List.foldl_cons]; rw [ih]; simp [sceneAdd]

theorem foldl_sceneAdd_length (frs : List (FrameResult T)) (sc : Scene) :
    (frs.foldl sceneAdd sc).numGt.length = sc.numGt.length := by
  induction frs generalizing sc with
  | nil => rfl
  | cons fr frs ih => simp only [List.foldl_cons]; rw [ih]; simp [sceneAdd]

/-- the nested list handed to `Ap` for label `l`: the initial `[]`, then one bucket per stored frame -/
theorem scene_results (nl : Nat) (s : State T) (l : Nat) (hl : l < nl) :
    (getSceneResult nl s).results.getD l [] = [] :: s.frameResults.map (·.det.bucket l) := by
  unfold getSceneResult
  rw [List.getD_eq_getElem?_getD, foldl_sceneAdd_results]
  simp [sceneInit, hl]

theorem scene_pooled (nl : Nat) (s : State T) (l : Nat) (hl : l < nl) :
    (getSceneResult nl s).pooled l = (s.frameResults.map (·.det.bucket l)).flatten := by
  unfold Scene.pooled
  rw [scene_results nl s l hl]
  simp

theorem scene_gt (nl : Nat) (s : State T) (l : Nat) (hl : l < nl) :
    (getSceneResult nl s).gt l = (s.frameResults.map (·.det.gt l)).sum := by
  unfold Scene.gt getSceneResult
  rw [List.getD_eq_getElem?_getD, foldl_sceneAdd_numGt]
  simp [sceneInit, hl]

/-- the whole `all_num_gt` table -/
theorem scene_numGt_list (nl : Nat) (s : State T) :
    (getSceneResult nl s).numGt = (List.range nl).map (fun l => (s.frameResults.map (·.det.gt l)).sum) := by
  apply List.ext_getElem?
  intro l
  unfold getSceneResult
  rw [foldl_sceneAdd_numGt]
  by_cases hl : l < nl
  · simp [sceneInit, hl]
  · simp [sceneInit, hl]

theorem scene_usedFrame (nl : Nat) (s : State T) :
    (getSceneResult nl s).usedFrame = s.frameResults.map (·.frameName) := by
  unfold getSceneResult
  rw [foldl_sceneAdd_usedFrame]; simp [sceneInit]

/-- a label outside the target labels has no bucket: nothing is pooled for it -/
theorem scene_pooled_out (nl : Nat) (s : State T) (l : Nat) (hl : nl ≤ l) :
    (getSceneResult nl s).pooled l = [] ∧ (getSceneResult nl s).gt l = 0 := by
  unfold Scene.pooled Scene.gt getSceneResult
  rw [List.getD_eq_getElem?_getD, List.getD_eq_getElem?_getD, foldl_sceneAdd_results, foldl_sceneAdd_numGt]
  have h1 : (sceneInit nl).results[l]? = none := by simp [sceneInit, hl]
  have h2 : (sceneInit nl).numGt[l]? = none := by simp [sceneInit, hl]
  rw [h1, h2]; simp

/-! ### `getGT` -/

theorem foldl_best_mem (t : Int) (ds : List Frame) (b : Frame × Nat) (S : List Frame)
    (hb : b.1 ∈ S) (hds : ∀ f ∈ ds, f ∈ S) :
    (ds.foldl (fun (b : Frame × Nat) f => if (t - f.time).natAbs < b.2 then (f, (t - f.time).natAbs) else b) b).1 ∈ S := by
  induction ds generalizing b with
  | nil => exact hb
  | cons f fs ih =>
    simp only [List.foldl_cons]
    apply ih
    · split
      · exact hds f List.mem_cons_self
      · exact hb
    · exact fun g hg => hds g (List.mem_cons_of_mem _ hg)

/-- the frame handed out by the lookup is one of the dataset's frames -/
theorem getGT_mem (s : State T) (t thr : Int) (f : Frame) (h : getGT s t thr = .ok (some f)) : f ∈ s.dataset := by
  unfold getGT at h
  split at h
  · cases h
  · split at h
    · cases h
    · rename_i f0 rest hds
      simp only at h
      split at h
      · cases h
      · injection h with h; injection h with h
        rw [← h, hds]
        apply foldl_best_mem
        · exact List.mem_cons_self
        · exact fun g hg => hg

end PEval.Manager
