import PEval.Model.DTree
import PEval.Model.Classification
/-!
# Decision skeletons of the id-based pairing kernels over abstract atoms (C11, decision-table translator)

`harness/dt_c11.py` runs the REAL `get_object_results` on ROI-less stub `DynamicObject2D`s (at most two estimates and two
ground truths) and emits the decision trees (`PEval/Gen/ClassificationDT.lean`); key1 = 0 generic labels
(`_get_object_results_with_id`), 1 / 2 traffic-light labels with `uuid_matching_first` False / True
(`_get_object_results_for_tlr`); key2 = 3·estimates + ground truths.  Boolean atoms (`i` estimate, `j` ground truth):
`uuid(i,j) = 2i+j`, `frame(i,j) = 4+2i+j`, `lab(i,j) = 8+2i+j`, `tl(i) = 12+i` (`frame_id == CAM_TRAFFIC_LIGHT`).
A result is the list of results in order as `Σ_k digit_k·10^k`, `digit = 1 + 3i + (0 unpaired | j+1)`; `raise 6` = ValueError.

`skel f n m` is the hand-written skeleton (loops over index lists, working copies, `in` guards / `remove` errors as in
the model `PEval.Classification`); `modelOnIndex f n m v` runs the MODEL's own loop functions (`outer`, `stepU`, `stepG`,
`take`) on index objects with the equality tests read from the valuation.  No Mathlib.
-/
namespace PEval.ClassificationDT
open PEval PEval.DT PEval.Classification

def aUuid (i j : Nat) : Nat := 2 * i + j
def aFrame (i j : Nat) : Nat := 4 + 2 * i + j
def aLab (i j : Nat) : Nat := 8 + 2 * i + j
def aTl (i : Nat) : Nat := 12 + i

def digitOf (i : Nat) (j : Option Nat) : Nat :=
  1 + 3 * i + (match j with | none => 0 | some j => j + 1)

def codeOf : List Nat → Nat
  | [] => 0
  | d :: ds => d + 10 * codeOf ds

/-- loop state over indices: result digits, working copies `estimated_objects_`, `ground_truth_objects_` -/
structure S where
  res : List Nat
  es : List Nat
  gs : List Nat

def S.take (s : S) (i j : Nat) : S := ⟨s.res ++ [digitOf i (some j)], s.es.erase i, s.gs.erase j⟩

/-- a short-circuit conjunction of atoms -/
def conj : List Nat → DTree → DTree → DTree
  | [], yes, _ => yes
  | a :: as, yes, no => askB a fun b => if b then conj as yes no else no

/-! ## `_get_object_results_with_id` -/

def gInner (i : Nat) : List Nat → S → (S → DTree) → DTree
  | [], s, k => k s
  | j :: js, s, k =>
    conj [aUuid i j, aFrame i j]
      (if s.es.contains i && s.gs.contains j then gInner i js (s.take i j) k else .leaf (.raise 6))
      (gInner i js s k)

def gOuter (gs0 : List Nat) : List Nat → S → (S → DTree) → DTree
  | [], s, k => k s
  | i :: is, s, k => gInner i gs0 s fun s' => gOuter gs0 is s' k

def anyTl : List Nat → Bool → (Bool → DTree) → DTree
  | [], acc, k => k acc
  | i :: is, acc, k => askB (aTl i) fun b => anyTl is (acc || b) k

/-- the remaining estimates are all FP, unless one of them lives in `CAM_TRAFFIC_LIGHT` -/
def gTail (s : S) : DTree :=
  if s.es.isEmpty then .leaf (.other (codeOf s.res))
  else anyTl s.es false fun b =>
    .leaf (.other (codeOf (if b then s.res else s.res ++ s.es.map (digitOf · none))))

def withIdSkel (n m : Nat) : DTree :=
  gOuter (List.range m) (List.range n) ⟨[], List.range n, List.range m⟩ gTail

/-! ## `_get_object_results_for_tlr` -/

def tAtoms (stage1 uf : Bool) (i j : Nat) : List Nat :=
  (if stage1 then [aLab i j] ++ (if uf then [aUuid i j] else []) else [aUuid i j]) ++ [aFrame i j]

def tLoop (stage1 uf : Bool) : List (Nat × Nat) → S → (S → DTree) → DTree
  | [], s, k => k s
  | (i, j) :: ps, s, k =>
    conj (tAtoms stage1 uf i j)
      (if s.es.contains i && s.gs.contains j then tLoop stage1 uf ps (s.take i j) k else tLoop stage1 uf ps s k)
      (tLoop stage1 uf ps s k)

def pairsOf (es gs : List Nat) : List (Nat × Nat) := es.flatMap fun i => gs.map fun j => (i, j)

def tlrSkel (uf : Bool) (n m : Nat) : DTree :=
  tLoop true uf (pairsOf (List.range n) (List.range m)) ⟨[], List.range n, List.range m⟩ fun s1 =>
  tLoop false uf (pairsOf s1.es s1.gs) s1 fun s2 => .leaf (.other (codeOf s2.res))

/-- `get_object_results` on ROI-less 2-D objects (not FP validation): `f` = 0 generic, 1 / 2 traffic lights -/
def skel (f n m : Nat) : DTree :=
  if n = 0 then .leaf (.other 0)
  else if m = 0 then .leaf (.other (codeOf ((List.range n).map (digitOf · none))))
  else if f = 0 then withIdSkel n m
  else tlrSkel (f == 2) n m

def skelAtoms (f n m : Nat) (v : Val) : DT.Res := eval (skel f n m) v

/-! ## what the per-run obligation leaves open (the property speaks of the pairs as a SET)

`canonRes` forgets the ORDER of the result list (digits sorted; a digit names its estimate and its partner, so the sorted
list is the set of pairs) and — on the traffic-light path with ground truths present, where the text does not say whether
unpaired estimates are reported — the unpaired (FP) results. `harness/dt_c11.py` applies the same canonicalisation to
the result of the real function before it emits a leaf. `pairForb` lists the valuations no input inside the property's
quantifier ("unique non-null uuids per side and camera") induces: one object agreeing in uuid AND camera with both
objects of the other side. -/

/-- the digits of a result code (at most `fuel` of them); inverse of `codeOf` on lists of non-zero digits -/
def digitsOf : Nat → Nat → List Nat
  | 0, _ => []
  | fuel + 1, k => if k = 0 then [] else (k % 10) :: digitsOf fuel (k / 10)

def insertD (d : Nat) : List Nat → List Nat
  | [] => [d]
  | x :: xs => if d ≤ x then d :: x :: xs else x :: insertD d xs

def sortD : List Nat → List Nat
  | [] => []
  | d :: ds => insertD d (sortD ds)

/-- `digitOf i none = 1 + 3 i` -/
def isFPDigit (d : Nat) : Bool := d % 3 == 1

def canonDigits (dropFP : Bool) (ds : List Nat) : List Nat :=
  sortD (if dropFP then ds.filter (fun d => !isFPDigit d) else ds)

def canonRes (dropFP : Bool) : DT.Res → DT.Res
  | .other k => .other (codeOf (canonDigits dropFP (digitsOf 6 k)))
  | r => r

/-- unpaired results are left open only where `_get_object_results_for_tlr` runs: traffic lights, both lists non-empty -/
def dropFPOf (f n m : Nat) : Bool := f != 0 && n != 0 && m != 0

def mapLeaf (g : DT.Res → DT.Res) : DTree → DTree
  | .leaf r => .leaf (g r)
  | .bnode a n y => .bnode a (mapLeaf g n) (mapLeaf g y)
  | .cnode a l e gt => .cnode a (mapLeaf g l) (mapLeaf g e) (mapLeaf g gt)

theorem eval_mapLeaf (g : DT.Res → DT.Res) (v : Val) : ∀ t : DTree, eval (mapLeaf g t) v = g (eval t v) := by
  intro t
  induction t with
  | leaf r => rfl
  | bnode a n y ihn ihy =>
    rw [mapLeaf, eval, eval]
    cases v.b a
    · exact ihn
    · exact ihy
  | cnode a l e gt ihl ihe ihg =>
    rw [mapLeaf, eval, eval]
    cases v.c a
    · exact ihl
    · exact ihe
    · exact ihg

/-- the skeleton with canonical leaves: what the code's table is compared with -/
def skelC (f n m : Nat) : DTree := mapLeaf (canonRes (dropFPOf f n m)) (skel f n m)

theorem eval_skelC (f n m : Nat) (v : Val) : eval (skelC f n m) v = canonRes (dropFPOf f n m) (skelAtoms f n m v) :=
  eval_mapLeaf _ v _

/-- valuations outside the quantifier: estimate `i` shares uuid and camera with both ground truths, or ground truth `j`
with both estimates (then two objects of one side share uuid and camera) -/
def pairForb : List (List Lit) :=
  [[.b (aUuid 0 0) true, .b (aFrame 0 0) true, .b (aUuid 0 1) true, .b (aFrame 0 1) true],
   [.b (aUuid 1 0) true, .b (aFrame 1 0) true, .b (aUuid 1 1) true, .b (aFrame 1 1) true],
   [.b (aUuid 0 0) true, .b (aFrame 0 0) true, .b (aUuid 1 0) true, .b (aFrame 1 0) true],
   [.b (aUuid 0 1) true, .b (aFrame 0 1) true, .b (aUuid 1 1) true, .b (aFrame 1 1) true]]

/-- the canonical form keeps the set of pairs: reordered results have the same canonical code, different sets differ -/
example : canonRes false (.other 26) = .other 62 ∧ canonRes false (.other 62) = .other 62 ∧
    canonRes false (.other 35) = .other 53 ∧ canonRes false (.other 53) ≠ canonRes false (.other 62) ∧
    canonRes true (.other 214) = .other 2 ∧ canonRes false (.other 214) = .other 421 ∧
    canonRes true (.raise 6) = .raise 6 ∧ canonRes true (.other 999999) = .other 999999 := by decide

/-! ## the model's own functions on index objects, tests read from the valuation -/

/-- estimate `i` has id `i`, ground truth `j` has id `10 + j`; uuids are non-null -/
def idxE (i : Nat) : Obj := ⟨i, some "", ⟨false, ""⟩, ""⟩
def idxG (j : Nat) : Obj := ⟨10 + j, some "", ⟨false, ""⟩, ""⟩

def sameKeyV (v : Val) (e g : Obj) : Bool := v.b (aUuid e.id (g.id - 10)) && v.b (aFrame e.id (g.id - 10))
def cond1V (uf : Bool) (v : Val) (e g : Obj) : Bool :=
  v.b (aLab e.id (g.id - 10)) && (!uf || v.b (aUuid e.id (g.id - 10))) && v.b (aFrame e.id (g.id - 10))
def tlV (v : Val) (e : Obj) : Bool := v.b (aTl e.id)

/-- `pairById` with its two tests as parameters -/
def pairByIdG (c : Obj → Obj → Bool) (tl : Obj → Bool) (ests gts : List Obj) : Except Err (List Classification.Res) :=
  match outer (stepU c) gts ests (initSt ests gts) with
  | .error x => .error x
  | .ok s => .ok (paired s.res ++ fpResults (if !s.es.isEmpty && !(s.es.any tl) then s.es else []))

/-- `pairTlr` with its two conditions as parameters -/
def pairTlrG (c1 c2 : Obj → Obj → Bool) (ests gts : List Obj) : Except Err (List Classification.Res) :=
  match outer (stepG c1) gts ests (initSt ests gts) with
  | .error x => .error x
  | .ok s1 =>
    match outer (stepG c2) s1.gs s1.es s1 with
    | .error x => .error x
    | .ok s2 => .ok (paired s2.res)

/-- the model IS the parametrised form at its own tests -/
theorem pairById_eq (ests gts : List Obj) :
    pairById ests gts = pairByIdG sameKey (fun e => e.frame == camTrafficLight) ests gts := rfl

theorem pairTlr_eq (uf : Bool) (ests gts : List Obj) :
    pairTlr uf ests gts = pairTlrG (cond1 uf) sameKey ests gts := rfl

def encodeR : Except Err (List Classification.Res) → DT.Res
  | .error e => if e = "ValueError" then .raise 6 else if e = "RuntimeError" then .raise 7 else .raise 0
  | .ok rs => .other (codeOf (rs.map fun r => digitOf r.est.id (r.gt.map (·.id - 10))))

/-- `objectResults false …` (dispatch of `get_object_results`) on index objects under a valuation -/
def modelOnIndex (f n m : Nat) (v : Val) : DT.Res :=
  let ests := (List.range n).map idxE
  let gts := (List.range m).map idxG
  encodeR (match ests, gts with
    | [], _ => .ok []
    | _ :: _, [] => .ok (fpResults ests)
    | _ :: _, _ :: _ =>
      if f = 0 then pairByIdG (sameKeyV v) (tlV v) ests gts
      else pairTlrG (cond1V (f == 2) v) (sameKeyV v) ests gts)

/-! ## finite valuation spaces -/

/-- the atoms a shape can ask -/
def shapeAtoms (f n m : Nat) : List Nat :=
  ((List.range n).flatMap fun i => (List.range m).flatMap fun j =>
      [aUuid i j, aFrame i j] ++ (if f = 0 then [] else [aLab i j])) ++
    (if f = 0 then (List.range n).map aTl else [])

def valOf (atoms : List Nat) (bs : List Bool) : Val := ⟨fun a => ((atoms.zip bs).lookup a).getD false, fun _ => .eq⟩

def allBits : Nat → List (List Bool)
  | 0 => [[]]
  | k + 1 => (allBits k).flatMap fun bs => [false :: bs, true :: bs]

/-- skeleton = model's algorithm on index objects, for EVERY valuation of the shape's atoms -/
def skelOk (f n m : Nat) : Bool :=
  (allBits (shapeAtoms f n m).length).all fun bs =>
    eval (skel f n m) (valOf (shapeAtoms f n m) bs) == modelOnIndex f n m (valOf (shapeAtoms f n m) bs)

def shapes : List (Nat × Nat) := [(0, 1), (1, 0), (2, 0), (1, 1), (1, 2), (2, 1), (2, 2)]

end PEval.ClassificationDT
