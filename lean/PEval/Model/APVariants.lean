import PEval.Model.AP
/-!
Appendix to the AP model (properties C04 / C08): the constructor `Ap.__init__` with its ranking step as a
parameter, the Boolean "this result is counted correct", and DEFECTIVE variants of single steps.  The defective
variants exist only to be refuted: each theorem of `Properties/C04Perfect.lean` / `Properties/C08.lean` that
names one of them shows that the property's statement FAILS for it on a concrete instance, i.e. that the
statement is not true "by the type of the model".

* `apOfWith sorter` : `Ap.__init__` with `all_object_results.sort(...)` replaced by `sorter`;
  `apOf = apOfWith (sortDesc Res.conf)` by `rfl` (`apOf_eq_apOfWith`).
* `sortAsc`         : `list.sort(key=confidence)` with `reverse=True` forgotten (stable ASCENDING sort).
* `scanC08G`, `calculateApC08G`, `apOfKindsC08G` : stored change C08_G (`break` in the interpolation scan at the first
  rank whose precision is below the running maximum).
* `isResultCorrectC08J`, `isPositiveC08J` : stored change C08_J (the inverted FP-validation branch of `is_result_correct`
  taken for every ground truth under `ALLOW_ANY`).
* `apOfKindsC04G`   : stored change C04_G (AP undefined as soon as `num_ground_truth = 0`).
-/

namespace PEval.AP

/-! ## the ranking step as a parameter -/

/-- `Ap.__init__` with the sort replaced by `sorter` -/
def apOfWith (sorter : List Res → List Res) (tm : TpMetric) (m : Mode) (targets : List Label)
    (thrs : List Rat) (G : Nat) (results : List Res) : Except Err ApOut :=
  match classifyAll tm m targets thrs (sorter results) with
  | .error e => .error e
  | .ok ks =>
    if results.any (fun r => r.score == Score.noMethod) then .error "AttributeError"
    else .ok (apOfKinds G ks)

theorem apOf_eq_apOfWith (tm : TpMetric) (m : Mode) (T : List Label) (th : List Rat) (G : Nat)
    (rs : List Res) : apOf tm m T th G rs = apOfWith (sortDesc Res.conf) tm m T th G rs := rfl

/-- `all_object_results.sort(key=confidence)` — `reverse=True` forgotten: Python's stable ascending sort -/
def sortAsc (rs : List Res) : List Res := sortDesc (fun r => - r.conf) rs

/-! ## "the result is counted correct" (the TP test of `_calculate_tp_fp`) -/

/-- the label of the result (ground truth's, else estimate's) is a target with threshold `t`, and
`is_result_correct(mode, t)` is `True`; `false` when either step raises -/
def isCorrectAt (m : Mode) (targets : List Label) (thrs : List Rat) (r : Res) : Bool :=
  match getLabelThreshold (keyLabel r) targets (some thrs) with
  | .ok (some t) =>
    (match isResultCorrect m (some t) r with
     | .ok b => b
     | .error _ => false)
  | _ => false

/-! ## stored change C08_G: `break` in `interpolate_precision_recall_list` -/

/-- the backward scan that stops at the first point whose precision is below the running maximum -/
def scanC08G : List Pt → List Pt → List Pt
  | [], st => st
  | (p, r) :: rest, [] => scanC08G rest [(p, r)]
  | (p, r) :: rest, (m, rm) :: st =>
    if p < m then (m, rm) :: st
    else if p > m then scanC08G rest ((p, r) :: (m, rm) :: st) else scanC08G rest ((m, rm) :: st)

def calculateApC08G (ps rs : List Rat) : Rat :=
  match (ps.zip rs).reverse with
  | [] => 0
  | pt :: rest => stackArea (scanC08G rest [pt])

def apOfKindsC08G (G : Nat) (ks : List Kind) : ApOut :=
  let tf := tpFpLists G ks
  { ap := if ks.isEmpty then none
          else some (calculateApC08G (precFrom 0 tf.1) (recalls G tf.1)),
    tpList := tf.1, fpList := tf.2 }

/-! ## stored change C08_J: the inverted branch taken under `ALLOW_ANY` -/

/-- `is_result_correct` deciding "this pair must NOT match" with `policy.is_label_free(gt)`
(`gt.is_fp() or policy == ALLOW_ANY`) instead of `gt.is_fp()` -/
def isResultCorrectC08J (m : Mode) (thr : Option Rat) (r : Res) : Except Err Bool :=
  match r.gt with
  | none => .ok false
  | some g =>
    match thr with
    | none => .ok (isLabelCorrect r)
    | some t =>
      match r.score with
      | .noMethod => .ok (isLabelCorrect r)
      | .val v =>
        match isBetterThan m v t with
        | .error e => .error e
        | .ok b =>
          .ok (if g.label == fpLabel || r.policy == .allowAny then !b else b && isLabelCorrect r)

/-! ## stored change C04_G: AP undefined when there is no ground truth -/

def apOfKindsC04G (G : Nat) (ks : List Kind) : ApOut :=
  let tf := tpFpLists G ks
  { ap := if ks.isEmpty || G == 0 then none
          else some (calculateAp (precFrom 0 tf.1) (recalls G tf.1)),
    tpList := tf.1, fpList := tf.2 }

/-! ## the interpolated area in the property's wording: "maximum precision at any HIGHER RECALL"

`apSpec` (`Model/AP.lean`) takes the maximum over the later INDICES; the property text over the points of recall at
least the current one.  `apSpecRecall` is the literal recall-based sum; `C04.apSpec_eq_apSpecRecall` shows that the two
agree whenever the recalls are non-decreasing along the ranking (TP weights `≥ 0`) and the precisions non-negative. -/

/-- the maximum precision among the points of `all` whose recall is at least `ρ` (0 when there is none) -/
def maxPrecAtRecall (all : List Pt) (ρ : Rat) : Rat :=
  ((all.filter (fun pt => decide (ρ ≤ pt.2))).map Prod.fst).foldr max 0

/-- `Σ_i (r_i − r_{i−1}) · max { p_j | r_j ≥ r_i }` over the points `cur`, the maxima taken over ALL points `all` -/
def apRecallFrom (all : List Pt) (prev : Rat) : List Pt → Rat
  | [] => 0
  | (_, r) :: rest => (r - prev) * maxPrecAtRecall all r + apRecallFrom all r rest

def apSpecRecall (ps rs : List Rat) : Rat := apRecallFrom (ps.zip rs) 0 (ps.zip rs)

end PEval.AP
