import PEval.Model.Basic
/-!
Executable model of the detection metrics AP / APH / mAP / mAPH and of the threshold-dependent
TP/FP/FN split (properties C04 and C08).

Anchors in /repo/perception_eval/perception_eval:
* `evaluation/metrics/detection/ap.py`   `Ap.__init__`, `_calculate_tp_fp`, `get_precision_recall_list`,
  `interpolate_precision_recall_list`, `_calculate_ap`
* `evaluation/metrics/detection/map.py`  `Map.__init__`
* `evaluation/metrics/detection/tp_metrics.py` `TPMetricsAp/TPMetricsAph.get_value` (the heading weight
  itself is an input of this model: it is property C09's subject)
* `evaluation/matching/objects_filter.py` `divide_objects`, `divide_objects_to_num`,
  `get_positive_objects`, `get_negative_objects`
* `evaluation/result/object_result.py` `is_result_correct`, `get_status`, `is_label_correct`
* `evaluation/matching/object_matching.py` `is_better_than` of the four modes, `MatchingLabelPolicy.is_matchable`
* `common/threshold.py` `get_label_threshold`

Conventions: labels are naturals assigned by the harness (`0` = unknown, `1` = false_positive);
`float("inf")` ("AP undefined") is `none`; Python lists are `List`; a Python exception is
`Except.error <class name>`.
-/

namespace PEval.AP

/-! ## labels, modes, policies -/

abbrev Label := Nat
def unknownLabel : Label := 0
def fpLabel : Label := 1

inductive Mode where
  | centerDistance | planeDistance | iou2d | iou3d
  deriving DecidableEq, Repr

/-- distance modes: a smaller value is better, `value < threshold` -/
def Mode.isDistance : Mode → Bool
  | .centerDistance | .planeDistance => true
  | _ => false

inductive Policy where
  | default | allowUnknown | allowAny
  deriving DecidableEq, Repr

/-- `MatchingLabelPolicy.is_matchable` (estimate label, ground-truth label) -/
def isMatchable (pol : Policy) (e g : Label) : Bool :=
  if g == fpLabel || pol == .allowAny then true
  else if pol == .allowUnknown then e == g || e == unknownLabel
  else e == g

/-! ## object results -/

structure Gt where
  id : Nat
  label : Label
  deriving DecidableEq, Repr

/-- what `get_matching(mode)` gives: no method at all (2-D object without ROI, 3-D modes on 2-D
objects), or a method whose `value` is `None` or a number -/
inductive Score where
  | noMethod
  | val (v : Option Rat)
  deriving DecidableEq, Repr

/-- one `DynamicObjectWithPerceptionResult`, reduced to what the metrics read -/
structure Res where
  id : Nat                -- harness id of the estimate
  conf : Rat              -- estimated_object.semantic_score
  label : Label           -- estimate's label
  gt : Option Gt          -- ground_truth_object
  score : Score           -- get_matching(mode) for the mode under evaluation
  hw : Rat                -- TPMetricsAph.get_value (heading agreement), an input here
  policy : Policy
  deriving DecidableEq, Repr

/-- `is_label_correct` -/
def isLabelCorrect (r : Res) : Bool :=
  match r.gt with
  | none => false
  | some g => isMatchable r.policy r.label g.label

/-- the IoU modes assert `0 ≤ t ≤ 1` -/
def thrValid (m : Mode) (t : Rat) : Bool :=
  if m.isDistance then true else decide (0 ≤ t) && decide (t ≤ 1)

/-- strict comparison of a value against the threshold, per mode -/
def isBetter (m : Mode) (v t : Rat) : Bool :=
  if m.isDistance then decide (v < t) else decide (v > t)

/-- `MatchingMethod.is_better_than` -/
def isBetterThan (m : Mode) (v : Option Rat) (t : Rat) : Except Err Bool :=
  if thrValid m t then
    .ok (match v with
      | none => false
      | some x => isBetter m x t)
  else .error "AssertionError"

/-- `DynamicObjectWithPerceptionResult.is_result_correct` -/
def isResultCorrect (m : Mode) (thr : Option Rat) (r : Res) : Except Err Bool :=
  match r.gt with
  | none => .ok false
  | some g =>
    match thr with
    | none => .ok (isLabelCorrect r)
    | some t =>
      match r.score with
      | .noMethod => .ok (isLabelCorrect r)
      | .val v =>
        match isBetterThan m v t with
        | .error e => .error e
        | .ok b => .ok (if g.label == fpLabel then !b else b && isLabelCorrect r)

/-- `get_label_threshold(semantic_label, target_labels, threshold_list)`:
`target_labels.index(label)` then `threshold_list[index]` (IndexError when the list is too short) -/
def getLabelThreshold (l : Label) (targets : List Label) (thrs : Option (List Rat)) :
    Except Err (Option Rat) :=
  match thrs with
  | none => .ok none
  | some ts =>
    match targets.findIdx? (· == l) with
    | none => .ok none
    | some i =>
      match ts[i]? with
      | some t => .ok (some t)
      | none => .error "IndexError"

/-- label used for the threshold lookup: the ground truth's if there is one, else the estimate's -/
def keyLabel (r : Res) : Label :=
  match r.gt with
  | some g => g.label
  | none => r.label

/-! ## stable descending sort (`list.sort(key=…, reverse=True)`)

Python's `reverse=True` keeps the original order among equal keys. Insertion from the right:
`x` (earlier in the input) passes only elements with a strictly larger key. -/

def insertDesc {α} (key : α → Rat) (x : α) : List α → List α
  | [] => [x]
  | y :: ys => if key x < key y then y :: insertDesc key x ys else x :: y :: ys

def sortDesc {α} (key : α → Rat) : List α → List α
  | [] => []
  | x :: xs => insertDesc key x (sortDesc key xs)

/-! ## TP / FP / ignored per result -/

inductive TpMetric where
  | ap | aph
  deriving DecidableEq, Repr

/-- `tp_metrics.get_value(obj_result)` -/
def tpValue : TpMetric → Res → Rat
  | .ap, _ => 1
  | .aph, r => if r.gt.isNone then 0 else r.hw

inductive Kind where
  | tp (w : Rat)
  | fp
  | ignored
  deriving DecidableEq, Repr

def Kind.tpw : Kind → Rat
  | .tp w => w
  | _ => 0

def Kind.fpw : Kind → Rat
  | .fp => 1
  | _ => 0

def Kind.isTp : Kind → Bool
  | .tp _ => true
  | _ => false

/-- the body of the loop in `_calculate_tp_fp` for one result -/
def classify (tm : TpMetric) (m : Mode) (targets : List Label) (thrs : List Rat) (r : Res) :
    Except Err Kind :=
  match getLabelThreshold (keyLabel r) targets (some thrs) with
  | .error e => .error e
  | .ok none => .ok .ignored
  | .ok (some t) =>
    match isResultCorrect m (some t) r with
    | .error e => .error e
    | .ok true => .ok (.tp (tpValue tm r))
    | .ok false => .ok .fp

def classifyAll (tm : TpMetric) (m : Mode) (targets : List Label) (thrs : List Rat) :
    List Res → Except Err (List Kind)
  | [] => .ok []
  | r :: rs =>
    match classify tm m targets thrs r with
    | .error e => .error e
    | .ok k =>
      match classifyAll tm m targets thrs rs with
      | .error e => .error e
      | .ok ks => .ok (k :: ks)

/-! ## cumulative sums, precision, recall -/

/-- `np.cumsum` -/
def cumsumFrom (acc : Rat) : List Rat → List Rat
  | [] => []
  | x :: xs => (acc + x) :: cumsumFrom (acc + x) xs

def cumsum (l : List Rat) : List Rat := cumsumFrom 0 l

/-- `precisions[i] = tp_list[i] / (i + 1)` (index starts at `i`) -/
def precFrom (i : Nat) : List Rat → List Rat
  | [] => []
  | t :: ts => t / ((i : Rat) + 1) :: precFrom (i + 1) ts

/-- `recalls[i] = tp_list[i] / G` if `G > 0` else `0.0` -/
def recallOf (G : Nat) (t : Rat) : Rat := if 0 < G then t / (G : Rat) else 0

def recalls (G : Nat) (tps : List Rat) : List Rat := tps.map (recallOf G)

/-- `_calculate_tp_fp` after the per-result loop, including the no-result special case -/
def tpFpLists (G : Nat) (ks : List Kind) : List Rat × List Rat :=
  if ks.isEmpty then
    if G = 0 then ([], [])
    else (List.replicate G 0, (List.range G).map (fun (i : Nat) => ((i : Rat) + 1)))
  else (cumsum (ks.map Kind.tpw), cumsum (ks.map Kind.fpw))

/-! ## interpolation and area, as the code computes them

Points are `(precision, recall)`. The code walks the indices from the last one down and appends a
point whenever the precision exceeds the last recorded maximum; the Python lists
`max_precision_list`/`max_precision_recall_list` are the stack below read bottom-up. -/

abbrev Pt := Rat × Rat

/-- `interpolate_precision_recall_list`: arguments = points still to visit (last index first), stack
of recorded maxima (head = most recent) -/
def scan : List Pt → List Pt → List Pt
  | [], st => st
  | (p, r) :: rest, [] => scan rest [(p, r)]
  | (p, r) :: rest, (m, rm) :: st =>
    if p > m then scan rest ((p, r) :: (m, rm) :: st) else scan rest ((m, rm) :: st)

set_option linter.unusedVariables false in
/-- `Σ max_precision[i] * (recall[i] - recall[i+1])` over the recorded points -/
def partialArea : List Pt → Rat
  | (m, r) :: (m', r') :: st => m' * (r' - r) + partialArea ((m', r') :: st)
  | _ => 0

/-- the closing step: the last recorded maximum is extended to recall 0 -/
def stackArea : List Pt → Rat
  | [] => 0
  | (m, r) :: st => partialArea ((m, r) :: st) + m * (r - 0)

/-- `_calculate_ap(precision_list, recall_list)` -/
def calculateAp (ps rs : List Rat) : Rat :=
  match (ps.zip rs).reverse with
  | [] => 0
  | pt :: rest => stackArea (scan rest [pt])

/-! ## specification: all-point interpolated area -/

/-- maximum of `m` and every element of `ps` -/
def maxWith (m : Rat) (ps : List Rat) : Rat := ps.foldr max m

/-- `Σ_i (r_i − r_{i−1}) · max_{j ≥ i} p_j` with `r_{−1} = prev` -/
def apSpecFrom (prev : Rat) : List Pt → Rat
  | [] => 0
  | (p, r) :: rest => (r - prev) * maxWith p (rest.map Prod.fst) + apSpecFrom r rest

def apSpec (ps rs : List Rat) : Rat := apSpecFrom 0 (ps.zip rs)

/-! ## `Ap` -/

structure ApOut where
  ap : Option Rat         -- `none` = `float("inf")`: no object result
  tpList : List Rat
  fpList : List Rat
  deriving DecidableEq, Repr

/-- everything in `Ap.__init__` after the results are sorted and classified -/
def apOfKinds (G : Nat) (ks : List Kind) : ApOut :=
  let tf := tpFpLists G ks
  { ap := if ks.isEmpty then none
          else some (calculateAp (precFrom 0 tf.1) (recalls G tf.1)),
    tpList := tf.1, fpList := tf.2 }

/-- `Ap(tp_metrics, object_results (flat), num_ground_truth, target_labels, mode, thresholds)` -/
def apOf (tm : TpMetric) (m : Mode) (targets : List Label) (thrs : List Rat) (G : Nat)
    (results : List Res) : Except Err ApOut :=
  match classifyAll tm m targets thrs (sortDesc Res.conf results) with
  | .error e => .error e
  | .ok ks =>
    -- `_calculate_average_sd` reads `get_matching(mode).value` of every result
    if results.any (fun r => r.score == Score.noMethod) then .error "AttributeError"
    else .ok (apOfKinds G ks)

/-- nested `object_results` (list of per-frame lists) are concatenated first -/
def apOfNested (tm : TpMetric) (m : Mode) (targets : List Label) (thrs : List Rat) (G : Nat)
    (results : List (List Res)) : Except Err ApOut :=
  apOf tm m targets thrs G results.flatten

/-! ## `Map` -/

/-- mean over the APs that are not `inf`; `inf` when there is none -/
def meanDefined (l : List (Option Rat)) : Option Rat :=
  let v := l.filterMap id
  if 0 < v.length then some (v.sum / (v.length : Rat)) else none

structure MapOut where
  aps : List ApOut
  aphs : List ApOut
  map : Option Rat
  maph : Option Rat
  deriving DecidableEq, Repr

def lookupKey {β} (l : Label) : List (Label × β) → Except Err β
  | [] => .error "KeyError"
  | (k, v) :: rest => if k == l then .ok v else lookupKey l rest

/-- the per-label loop of `Map.__init__` over `zip(target_labels, matching_threshold_list)` -/
def mapLoop (m : Mode) (is2d : Bool) (buckets : List (Label × List (List Res)))
    (nums : List (Label × Nat)) : List (Label × Rat) → Except Err (List ApOut × List ApOut)
  | [] => .ok ([], [])
  | (l, t) :: rest =>
    match lookupKey l buckets with
    | .error e => .error e
    | .ok rs =>
      match lookupKey l nums with
      | .error e => .error e
      | .ok G =>
        match apOfNested .ap m [l] [t] G rs with
        | .error e => .error e
        | .ok a =>
          match (if is2d then .ok none else (apOfNested .aph m [l] [t] G rs).map some) with
          | .error e => .error e
          | .ok h =>
            match mapLoop m is2d buckets nums rest with
            | .error e => .error e
            | .ok (as, hs) => .ok (a :: as, match h with | some x => x :: hs | none => hs)

def mapOf (m : Mode) (is2d : Bool) (targets : List Label) (thrs : List Rat)
    (buckets : List (Label × List (List Res))) (nums : List (Label × Nat)) : Except Err MapOut :=
  match mapLoop m is2d buckets nums (targets.zip thrs) with
  | .error e => .error e
  | .ok (as, hs) =>
    .ok { aps := as, aphs := hs, map := meanDefined (as.map (·.ap)), maph := meanDefined (hs.map (·.ap)) }

/-! ## `divide_objects`, `divide_objects_to_num` -/

def bucketAdd {β} (l : Label) (x : β) : List (Label × List β) → List (Label × List β)
  | [] => [(l, [x])]
  | (k, v) :: rest => if k == l then (k, v ++ [x]) :: rest else (k, v) :: bucketAdd l x rest

/-- bucket label of an object result: the estimate's label; if that is no target, the ground
truth's label (whatever it is); a GT-less non-target result is dropped -/
def bucketLabel (targets : Option (List Label)) (r : Res) : Option Label :=
  match targets with
  | none => some r.label
  | some ts =>
    if ts.contains r.label then some r.label
    else match r.gt with
      | some g => some g.label
      | none => none

/-- `divide_objects(object_results, target_labels)`; dict in insertion order -/
def divideObjects (targets : Option (List Label)) (rs : List Res) : List (Label × List Res) :=
  rs.foldl (fun acc r =>
      match bucketLabel targets r with
      | some l => bucketAdd l r acc
      | none => acc)
    ((targets.getD []).map (fun l => (l, [])))

def countAdd (l : Label) : List (Label × Nat) → List (Label × Nat)
  | [] => [(l, 1)]
  | (k, v) :: rest => if k == l then (k, v + 1) :: rest else (k, v) :: countAdd l rest

/-- `divide_objects_to_num(ground_truth_objects, target_labels)` for plain objects (labels given) -/
def divideObjectsToNum (targets : Option (List Label)) (gtLabels : List Label) : List (Label × Nat) :=
  gtLabels.foldl (fun acc l =>
      match targets with
      | none => countAdd l acc
      | some ts => if ts.contains l then countAdd l acc else acc)
    ((targets.getD []).map (fun l => (l, 0)))

/-- frame level (`PerceptionFrameResult.evaluate_frame`): flat buckets -/
def frameMap (m : Mode) (is2d : Bool) (targets : List Label) (thrs : List Rat)
    (rs : List Res) (gtLabels : List Label) : Except Err MapOut :=
  mapOf m is2d targets thrs
    ((divideObjects (some targets) rs).map (fun kv => (kv.1, [kv.2])))
    (divideObjectsToNum (some targets) gtLabels)

/-- scene level (`PerceptionEvaluationManager.get_scene_result`): per label `[[]] + [bucket of
frame 1, bucket of frame 2, …]`, ground-truth counts summed -/
def frameBuckets (targets : List Label) (l : Label) :
    List (List Res × List Label) → Except Err (List (List Res) × Nat)
  | [] => .ok ([], 0)
  | fr :: rest =>
    match lookupKey l (divideObjects (some targets) fr.1) with
    | .error e => .error e
    | .ok b =>
      match lookupKey l (divideObjectsToNum (some targets) fr.2) with
      | .error e => .error e
      | .ok k =>
        match frameBuckets targets l rest with
        | .error e => .error e
        | .ok (bl, n) => .ok (b :: bl, k + n)

def sceneBucketsAux (targets : List Label) (frames : List (List Res × List Label)) :
    List Label → Except Err (List (Label × List (List Res)) × List (Label × Nat))
  | [] => .ok ([], [])
  | l :: ls =>
    match frameBuckets targets l frames with
    | .error e => .error e
    | .ok (bl, n) =>
      match sceneBucketsAux targets frames ls with
      | .error e => .error e
      | .ok (bs, ns) => .ok ((l, [] :: bl) :: bs, (l, n) :: ns)

def sceneBuckets (targets : List Label) (frames : List (List Res × List Label)) :
    Except Err (List (Label × List (List Res)) × List (Label × Nat)) :=
  sceneBucketsAux targets frames targets

def sceneMap (m : Mode) (is2d : Bool) (targets : List Label) (thrs : List Rat)
    (frames : List (List Res × List Label)) : Except Err MapOut :=
  match sceneBuckets targets frames with
  | .error e => .error e
  | .ok (bs, ns) => mapOf m is2d targets thrs bs ns

/-! ## `get_positive_objects`, `get_negative_objects` (threshold-dependent split, C08) -/

inductive Status where
  | tp | fp | tn | fn
  deriving DecidableEq, Repr

/-- `get_status`: (estimate status, ground-truth status) -/
def getStatus (m : Mode) (thr : Option Rat) (r : Res) : Except Err (Status × Option Status) :=
  match r.gt with
  | none => .ok (.fp, none)
  | some g =>
    match isResultCorrect m thr r with
    | .error e => .error e
    | .ok true => .ok (if g.label == fpLabel then (.fp, some .tn) else (.tp, some .tp))
    | .ok false => .ok (if g.label == fpLabel then (.fp, some .fp) else (.fp, some .fn))

/-- one iteration of `get_positive_objects`: `true` = appended to the TP list, `false` = to the FP
list (possibly re-wrapped without its ground truth when that is a TN) -/
def isPositive (m : Mode) (targets : List Label) (thrs : Option (List Rat)) (r : Res) :
    Except Err Bool :=
  match r.gt with
  | none => .ok false
  | some g =>
    match getLabelThreshold g.label targets thrs with
    | .error e => .error e
    | .ok thr =>
      match getStatus m thr r with
      | .error e => .error e
      | .ok (.tp, some .tp) => .ok true
      | .ok _ => .ok false

/-- `get_positive_objects`: ids of the estimates of the TP list and of the FP list, in order -/
def getPositive (m : Mode) (targets : List Label) (thrs : Option (List Rat)) :
    List Res → Except Err (List Nat × List Nat)
  | [] => .ok ([], [])
  | r :: rs =>
    match isPositive m targets thrs r with
    | .error e => .error e
    | .ok b =>
      match getPositive m targets thrs rs with
      | .error e => .error e
      | .ok (tps, fps) => .ok (if b then (r.id :: tps, fps) else (tps, r.id :: fps))

/-- ground-truth status of every result, in order (first loop of `get_negative_objects`) -/
def gtStatuses (m : Mode) (targets : List Label) (thrs : Option (List Rat)) :
    List Res → Except Err (List (Option (Gt × Status)))
  | [] => .ok []
  | r :: rs =>
    match getLabelThreshold (keyLabel r) targets thrs with
    | .error e => .error e
    | .ok thr =>
      match getStatus m thr r with
      | .error e => .error e
      | .ok (_, gs) =>
        match gtStatuses m targets thrs rs with
        | .error e => .error e
        | .ok l =>
          .ok ((match r.gt, gs with
                | some g, some s => some (g, s)
                | _, _ => none) :: l)

/-- `get_negative_objects`: ids of the TN list and of the FN list, in order. Membership of a ground
truth in `non_candidates` (Python `in`, i.e. `DynamicObject.__eq__`) is id equality here. -/
def getNegative (m : Mode) (targets : List Label) (thrs : Option (List Rat)) (gts : List Gt)
    (rs : List Res) : Except Err (List Nat × List Nat) :=
  match gtStatuses m targets thrs rs with
  | .error e => .error e
  | .ok sts =>
    let paired := sts.filterMap id
    let tn1 := (paired.filter (fun gs => gs.2 == Status.tn)).map (fun gs => gs.1.id)
    let fn1 := (paired.filter (fun gs => gs.2 == Status.fn)).map (fun gs => gs.1.id)
    let nonCand := paired.map (fun gs => gs.1.id)
    let rest := gts.filter (fun g => !nonCand.contains g.id)
    .ok (tn1 ++ (rest.filter (fun g => g.label == fpLabel)).map (·.id),
         fn1 ++ (rest.filter (fun g => g.label != fpLabel)).map (·.id))

end PEval.AP
