import PEval.Model.DTree
import PEval.Model.Sensing
/-!
# The decision skeleton of `SensingFrameResult.evaluate_frame` over abstract atoms (C12, decision-table translator)

`harness/dt_c12.py` runs the REAL `evaluate_frame` on stub objects for the shapes
(number of objects `n`, number of non-detection clouds `k`) ∈ {(0,0),(0,1),(0,2),(1,0),(2,0)} and emits the decision
trees (`PEval/Gen/SensingDT.lean`). Atoms (numbering shared with the Python registry):

* Boolean `2i`   : `len(object_i.crop_pointcloud(cloud, scale)) == 0`;  `2i+1` : `object_i.visibility == Visibility.NONE`;
  `100+j` : `len(nd_clouds[j]) == 0`
* order   `2i`   : `compare (inside count of object i) min_points_threshold` (asked when the crop is non-empty);
  `99` : `compare 0 min_points_threshold` (asked when it is empty)

A result is the number `Σ_i (digit_i + 1)·13^i + 13^4·Σ_j reported_j·2^j`, `digit = container (0 warning, 1 success,
2 fail) + 3·is_detected + 6·(nearest_point is not None)`.

`frameSkel n k` is the model's skeleton as a tree, `frameCode` the same as a function of the valuation,
`valuationOf` the atoms of a concrete model input, `modelCode` the number computed from the MODEL's results (`sres`).
No Mathlib.
-/
namespace PEval.SensingDT
open PEval PEval.DT PEval.Sensing

def bEmpty (i : Nat) : Nat := 2 * i
def bVisNone (i : Nat) : Nat := 2 * i + 1
def bNdEmpty (j : Nat) : Nat := 100 + j
def cNumThr (i : Nat) : Nat := 2 * i
def cZeroThr : Nat := 99

def digit (warn det near : Bool) : Nat :=
  (if warn then 0 else if det then 1 else 2) + (if det then 3 else 0) + (if near then 6 else 0)

def ndWeight (e : Bool) (j : Nat) : Nat := if e then 0 else 13 ^ 4 * 2 ^ j

/-! ## the skeleton as a tree -/

/-- `_evaluate_pointcloud_for_non_detection` without objects: cloud `j` is reported iff it is non-empty -/
def ndSkel : Nat → Nat → Nat → DTree
  | 0, _, acc => .leaf (.other acc)
  | m + 1, j, acc => askB (bNdEmpty j) fun e => ndSkel m (j + 1) (acc + ndWeight e j)

/-- `_evaluate_pointcloud_for_detection`: per object the crop, `is_detected = count ≥ threshold`, the nearest point
(none iff the crop is empty), then `if is_occluded … elif is_detected … else` -/
def objSkel : Nat → Nat → Nat → Nat → DTree
  | 0, _, k, acc => ndSkel k 0 acc
  | m + 1, i, k, acc =>
    askB (bEmpty i) fun e =>
    askC (if e then cZeroThr else cNumThr i) fun o =>
    askB (bVisNone i) fun w =>
    objSkel m (i + 1) k (acc + (digit w (o != .lt) (!e) + 1) * 13 ^ i)

def frameSkel (n k : Nat) : DTree := objSkel n 0 k 0

/-! ## the skeleton as a function of the valuation -/

def ndCode (v : Val) : Nat → Nat → Nat → Nat
  | 0, _, acc => acc
  | m + 1, j, acc => ndCode v m (j + 1) (acc + ndWeight (v.b (bNdEmpty j)) j)

def objDigitAtoms (v : Val) (i : Nat) : Nat :=
  digit (v.b (bVisNone i)) (v.c (if v.b (bEmpty i) then cZeroThr else cNumThr i) != .lt) (!(v.b (bEmpty i)))

def frameCode (v : Val) : Nat → Nat → Nat → Nat → Nat
  | 0, _, k, acc => ndCode v k 0 acc
  | m + 1, i, k, acc => frameCode v m (i + 1) k (acc + (objDigitAtoms v i + 1) * 13 ^ i)

def frameAtoms (n k : Nat) (v : Val) : Res := .other (frameCode v n 0 k 0)

theorem eval_ndSkel (v : Val) : ∀ m j acc, eval (ndSkel m j acc) v = .other (ndCode v m j acc)
  | 0, _, _ => rfl
  | m + 1, j, acc => by
    rw [ndSkel, eval_askB, ndCode]; exact eval_ndSkel v m (j + 1) _

theorem eval_objSkel (v : Val) : ∀ m i k acc, eval (objSkel m i k acc) v = .other (frameCode v m i k acc)
  | 0, _, k, acc => by rw [objSkel, frameCode]; exact eval_ndSkel v k 0 acc
  | m + 1, i, k, acc => by
    rw [objSkel, eval_askB, eval_askC, eval_askB, frameCode]
    exact eval_objSkel v m (i + 1) k _

theorem eval_frameSkel (n k : Nat) (v : Val) : eval (frameSkel n k) v = frameAtoms n k v :=
  eval_objSkel v n 0 k 0

/-! ## the atoms of a concrete model input -/

def cmpI (a b : Int) : Ordering := if a < b then .lt else if a = b then .eq else .gt

/-- the crop `DynamicObjectWithSensingResult` keeps (`inside_pointcloud`) -/
def insideOf (cfg : Cfg) (cols : Nat) (cloud : List Pt) (o : Obj) : List Pt :=
  cropInside cols cloud (boxCorners o.box (scaleFactor cfg o.dist))

/-- `rest`: the non-detection clouds after the objects' boxes were removed (the clouds themselves when there is no
object) -/
def valuationOf (cfg : Cfg) (cols : Nat) (cloud : List Pt) (objs : List Obj) (rest : List (List Pt)) : Val :=
  ⟨fun a =>
      if 100 ≤ a then (rest.getD (a - 100) []).length == 0
      else match objs[a / 2]? with
        | none => false
        | some o => if a % 2 = 0 then (insideOf cfg cols cloud o).length == 0 else isNone o.visibility,
   fun a =>
      if a = 99 then cmpI 0 cfg.minPoints
      else match objs[a / 2]? with
        | none => .eq
        | some o => cmpI ((insideOf cfg cols cloud o).length : Int) cfg.minPoints⟩

/-! ## the number computed from the MODEL's results -/

/-- digit of a model result (`SRes`): container by `classify`, `isDetected`, nearest point present iff `num ≠ 0` -/
def objDigit (r : SRes) : Nat := digit r.isOccluded r.isDetected (r.num != 0)

/-- the model's `DynamicObjectWithSensingResult` of an object (total form of `sensingResult`) -/
def sresOf (cfg : Cfg) (cols : Nat) (cloud : List Pt) (o : Obj) : SRes :=
  { gt := o.id, inside := insideOf cfg cols cloud o, num := (insideOf cfg cols cloud o).length,
    isDetected := decide (((insideOf cfg cols cloud o).length : Int) ≥ cfg.minPoints),
    isOccluded := isNone o.visibility }

def digitsCode : List Nat → Nat → Nat → Nat
  | [], _, acc => acc
  | d :: ds, i, acc => digitsCode ds (i + 1) (acc + (d + 1) * 13 ^ i)

def flagsCode : List Bool → Nat → Nat → Nat
  | [], _, acc => acc
  | e :: es, j, acc => flagsCode es (j + 1) (acc + ndWeight e j)

/-- the result number of the model: per-object digits in object order, reported non-detection clouds -/
def modelCode (cfg : Cfg) (cols : Nat) (cloud : List Pt) (objs : List Obj) (rest : List (List Pt)) : Nat :=
  flagsCode (rest.map fun c => c.length == 0) 0
    (digitsCode (objs.map fun o => objDigit (sresOf cfg cols cloud o)) 0 0)

/-! ## the bridge: the skeleton applied to the atoms of an input is the model's number -/

theorem cmpI_ne_lt (a b : Int) : (cmpI a b != .lt) = decide (a ≥ b) := by
  unfold cmpI
  by_cases h : a < b
  · have h' : ¬ (a ≥ b) := by omega
    simp [h, h']
  · by_cases h2 : a = b
    · subst h2; simp
    · have h' : a ≥ b := by omega
      simp [h, h2, h']

theorem objDigitAtoms_valuationOf (cfg : Cfg) (cols : Nat) (cloud : List Pt) (objs : List Obj) (rest : List (List Pt))
    (i : Nat) (o : Obj) (hi : i < 50) (ho : objs[i]? = some o) :
    objDigitAtoms (valuationOf cfg cols cloud objs rest) i = objDigit (sresOf cfg cols cloud o) := by
  have h1 : ¬ (100 ≤ 2 * i) := by omega
  have h2 : ¬ (100 ≤ 2 * i + 1) := by omega
  have h3 : 2 * i / 2 = i := by omega
  have h4 : (2 * i + 1) / 2 = i := by omega
  have h5 : 2 * i % 2 = 0 := by omega
  have h6 : ¬ ((2 * i + 1) % 2 = 0) := by omega
  have h7 : ¬ (2 * i = 99) := by omega
  unfold objDigitAtoms objDigit sresOf
  simp only [valuationOf, bEmpty, bVisNone, cNumThr, cZeroThr, h1, h2, h3, h4, h5, h6, ho, if_true, if_false]
  by_cases he : (insideOf cfg cols cloud o).length = 0
  · simp [he, cmpI_ne_lt]
  · simp [he, h7, h3, ho, cmpI_ne_lt] <;> rfl

theorem frameCode_objs (cfg : Cfg) (cols : Nat) (cloud : List Pt) (objs : List Obj) (rest : List (List Pt)) (k : Nat) :
    ∀ (suf pre : List Obj) (acc : Nat), objs = pre ++ suf → objs.length ≤ 50 →
      frameCode (valuationOf cfg cols cloud objs rest) suf.length pre.length k acc =
        ndCode (valuationOf cfg cols cloud objs rest) k 0
          (digitsCode (suf.map fun o => objDigit (sresOf cfg cols cloud o)) pre.length acc)
  | [], pre, acc, _, _ => rfl
  | o :: suf, pre, acc, h, hl => by
    have hlen : pre.length < 50 := by
      have := congrArg List.length h
      simp at this; omega
    have ho : objs[pre.length]? = some o := by rw [h]; simp
    simp only [List.length_cons, frameCode, List.map_cons, digitsCode]
    rw [objDigitAtoms_valuationOf cfg cols cloud objs rest pre.length o hlen ho]
    have := frameCode_objs cfg cols cloud objs rest k suf (pre ++ [o]) (acc + (objDigit (sresOf cfg cols cloud o) + 1) * 13 ^ pre.length)
      (by rw [h]; simp) hl
    simpa using this

theorem ndCode_rest (cfg : Cfg) (cols : Nat) (cloud : List Pt) (objs : List Obj) (rest : List (List Pt)) :
    ∀ (suf pre : List (List Pt)) (acc : Nat), rest = pre ++ suf →
      ndCode (valuationOf cfg cols cloud objs rest) suf.length pre.length acc =
        flagsCode (suf.map fun c => c.length == 0) pre.length acc
  | [], _, _, _ => rfl
  | c :: suf, pre, acc, h => by
    have hc : rest[pre.length]? = some c := by rw [h]; simp
    have hb : (valuationOf cfg cols cloud objs rest).b (bNdEmpty pre.length) = (c.length == 0) := by
      simp [valuationOf, bNdEmpty, hc]
    simp only [List.length_cons, ndCode, List.map_cons, flagsCode, hb]
    have := ndCode_rest cfg cols cloud objs rest suf (pre ++ [c]) (acc + ndWeight (c.length == 0) pre.length) (by rw [h]; simp)
    simpa using this

/-- THE BRIDGE (all inputs with at most 50 objects): the skeleton on the atoms of an input = the model's number -/
theorem frameAtoms_valuationOf (cfg : Cfg) (cols : Nat) (cloud : List Pt) (objs : List Obj) (rest : List (List Pt))
    (hl : objs.length ≤ 50) :
    frameAtoms objs.length rest.length (valuationOf cfg cols cloud objs rest) =
      .other (modelCode cfg cols cloud objs rest) := by
  unfold frameAtoms modelCode
  have h1 := frameCode_objs cfg cols cloud objs rest rest.length objs [] 0 (by simp) hl
  have h2 := ndCode_rest cfg cols cloud objs rest rest [] (digitsCode (objs.map fun o => objDigit (sresOf cfg cols cloud o)) 0 0) (by simp)
  simp only [List.length_nil] at h1 h2
  rw [h1, h2]

end PEval.SensingDT
