import PEval.Model.Basic
/-!
C13 — state-machine model of `PerceptionEvaluationManager`
(`manager/perception_evaluation_manager.py`, `manager/_evaluation_manager_base.py`,
`evaluation/result/perception_frame_result.py`, `evaluation/metrics/metrics.py`,
`evaluation/metrics/detection/{map,ap}.py`, `evaluation/matching/objects_filter.py:divide_objects*`).

State: the loaded dataset (`ground_truth_frames`) and the history (`frame_results`).
Operations: `getGT` (`get_ground_truth_now_frame`, nearest frame), `addFrameResult`, `getSceneResult`.

What is abstract: the evaluation of ONE frame (filtering, matching, TP/FP decisions; properties
C01–C12 are about those).  It is a pure function parameter, split as the code is split:

* `evalDet g e c`        — everything `_filter_objects` + `evaluate_frame` derive from the ground
                           truth frame `g`, the estimates `e` and the configurations `c` only;
* `evalTrack g e c prev` — the tracking scores; `evaluate_frame(previous_result)` reads
                           `previous_result.object_results` and nothing else, so `prev` is the
                           detection part of the *immediately preceding stored* result.

What is concrete: how results are stored, how the predecessor is picked (`frame_results[-1]`), how
`get_scene_result` pools (`all_frame_results[label] = [[]]`, then one appended bucket per stored
frame; `all_num_gt[label] += …`), how `Ap.__init__` flattens the nested lists, sorts them (stable,
descending confidence) and integrates the interpolated precision/recall curve, how `Map` averages.

Python values are immutable here: a frame handed to `addFrameResult` is a value, so the repaired
behaviour of defect F5 (the manager works on a shallow copy) is the only one expressible; that the
real manager keeps `ground_truth_frames` untouched is what the correspondence run compares after
every operation.
-/

namespace PEval.Manager

/-- One object result as pooling sees it.  `id`/`gt`: harness ids of the estimate and of the matched
ground truth; `conf`: `estimated_object.semantic_score`; `tp[c]`: the value `_calculate_tp_fp` adds to
`tp_list` for metric column `c` (one column per `Map` × {AP, APH}): `1` (AP) or the heading weight
(APH) when `is_result_correct`, `0` for an FP or a result whose threshold label is not the bucket's. -/
structure Res where
  id : Nat
  gt : Option Nat
  conf : Rat
  tp : List Rat
deriving DecidableEq, Repr

/-- Detection part of a stored frame result: `divide_objects(object_results, target_labels)` (one
bucket per target label, in stored order) and `divide_objects_to_num(frame_ground_truth.objects)`. -/
structure Det where
  results : List (List Res)
  numGt : List Nat
deriving DecidableEq, Repr

def Det.bucket (d : Det) (l : Nat) : List Res := d.results.getD l []
def Det.gt (d : Det) (l : Nat) : Nat := d.numGt.getD l 0

/-- A ground-truth frame of the dataset (`FrameGroundTruth`): time stamp [µs], `int(frame_name)`, ids of its objects. -/
structure Frame where
  time : Int
  name : Nat
  objects : List Nat
deriving DecidableEq, Repr

/-- `PerceptionFrameResult` (what scene scoring and the next tracking evaluation read), `T` = tracking scores. -/
structure FrameResult (T : Type) where
  frameName : Nat
  det : Det
  track : T
deriving Repr

/-- The manager: `ground_truth_frames` and `frame_results`. -/
structure State (T : Type) where
  dataset : List Frame
  frameResults : List (FrameResult T)

/-- a manager right after construction on a dataset -/
def fresh {T : Type} (ds : List Frame) : State T := { dataset := ds, frameResults := [] }

/-- The abstract single-frame evaluation and the number of target labels of the manager. -/
structure Sem (E C T : Type) where
  nLabels : Nat
  evalDet : Frame → E → C → Det
  evalTrack : Frame → E → C → Option Det → T

/-- `PerceptionFrameResult(...)` followed by `evaluate_frame(previous_result)`. -/
def evalFrame {E C T : Type} (sem : Sem E C T) (g : Frame) (e : E) (c : C) (prev : Option (FrameResult T)) :
    FrameResult T :=
  { frameName := g.name
    det := sem.evalDet g e c
    track := sem.evalTrack g e c (prev.map (·.det)) }

/-- `add_frame_result`: the predecessor is `frame_results[-1]` when there is one; the result is appended. -/
def addFrameResult {E C T : Type} (sem : Sem E C T) (s : State T) (g : Frame) (e : E) (c : C) :
    State T × FrameResult T :=
  let r := evalFrame sem g e c s.frameResults.getLast?
  ({ s with frameResults := s.frameResults ++ [r] }, r)

/-- `get_now_frame`: first frame with the smallest time difference; `None` beyond the tolerance. -/
def getGT {T : Type} (s : State T) (t thr : Int) : Except Err (Option Frame) :=
  if t > 10 ^ 17 then .error "DatasetLoadingError"
  else match s.dataset with
    | [] => .error "IndexError"
    | f0 :: _ =>
      let best := s.dataset.foldl
        (fun (b : Frame × Nat) f => if (t - f.time).natAbs < b.2 then (f, (t - f.time).natAbs) else b)
        (f0, (t - f0.time).natAbs)
      if (best.2 : Int) > thr then .ok none else .ok (some best.1)

/-- The accumulators of `get_scene_result`: `all_frame_results`, `all_num_gt`, `used_frame`. -/
structure Scene where
  results : List (List (List Res))
  numGt : List Nat
  usedFrame : List Nat
deriving DecidableEq, Repr

def sceneInit (nl : Nat) : Scene :=
  { results := List.replicate nl [[]], numGt := List.replicate nl 0, usedFrame := [] }

/-- one pass of the loop `for frame in self.frame_results` -/
def sceneAdd {T : Type} (sc : Scene) (fr : FrameResult T) : Scene :=
  { results := sc.results.mapIdx (fun l b => b ++ [fr.det.bucket l])
    numGt := sc.numGt.mapIdx (fun l n => n + fr.det.gt l)
    usedFrame := sc.usedFrame ++ [fr.frameName] }

def getSceneResult {T : Type} (nl : Nat) (s : State T) : Scene :=
  s.frameResults.foldl sceneAdd (sceneInit nl)

/-- `Ap.__init__`: the nested per-frame lists are concatenated in order. -/
def Scene.pooled (sc : Scene) (l : Nat) : List Res := (sc.results.getD l []).flatten
def Scene.gt (sc : Scene) (l : Nat) : Nat := sc.numGt.getD l 0
/-- `MetricsScore.num_ground_truth` of the scene score -/
def Scene.totalGt (sc : Scene) : Nat := sc.numGt.sum

/-- score of label `l` under an AP function -/
def Scene.score (ap : List Res → Nat → Option Rat) (sc : Scene) (l : Nat) : Option Rat :=
  ap (sc.pooled l) (sc.gt l)
def Det.score (ap : List Res → Nat → Option Rat) (d : Det) (l : Nat) : Option Rat :=
  ap (d.bucket l) (d.gt l)

/-! ### operations and runs -/

inductive Op (E C : Type) where
  | add (g : Frame) (e : E) (c : C)
  | scene
  | lookup (t thr : Int)

inductive Out (T : Type) where
  | added (r : FrameResult T)
  | scene (sc : Scene)
  | frame (f : Except Err (Option Frame))

def step {E C T : Type} (sem : Sem E C T) (s : State T) : Op E C → State T × Out T
  | .add g e c => let r := addFrameResult sem s g e c; (r.1, .added r.2)
  | .scene => (s, .scene (getSceneResult sem.nLabels s))
  | .lookup t thr => (s, .frame (getGT s t thr))

def run {E C T : Type} (sem : Sem E C T) : State T → List (Op E C) → State T × List (Out T)
  | s, [] => (s, [])
  | s, op :: ops =>
    let r := step sem s op
    let rest := run sem r.1 ops
    (rest.1, r.2 :: rest.2)

def Out.det? {T : Type} : Out T → Option Det
  | .added r => some r.det
  | _ => none

def Out.track? {T : Type} : Out T → Option T
  | .added r => some r.track
  | _ => none

def Out.scene? {T : Type} : Out T → Option Scene
  | .scene sc => some sc
  | _ => none

/-- the answer to the last operation of a list -/
def lastOut {E C T : Type} (sem : Sem E C T) (s : State T) (ops : List (Op E C)) : Option (Out T) :=
  (run sem s ops).2.getLast?

/-- is the operation a pure query (`get_scene_result`, `get_ground_truth_now_frame`)? -/
def Op.isQuery {E C : Type} : Op E C → Bool
  | .add .. => false
  | _ => true

/-- the detection parts a FRESH evaluation gives for the `add`s of an operation list, in order -/
def addsDet {E C T : Type} (sem : Sem E C T) : List (Op E C) → List Det
  | [] => []
  | .add g e c :: ops => sem.evalDet g e c :: addsDet sem ops
  | _ :: ops => addsDet sem ops

/-! ### the caller's variables (for `estimates_untouched`)

The caller holds its estimate lists in variables `ests[k]`; an `add` names one of them.  The machine
only reads them. -/

structure World (E T : Type) where
  st : State T
  ests : List E

inductive OpW (C : Type) where
  | add (g : Frame) (k : Nat) (c : C)
  | scene
  | lookup (t thr : Int)

def stepW {E C T : Type} (sem : Sem E C T) (w : World E T) : OpW C → World E T × Option (Out T)
  | .add g k c =>
    match w.ests[k]? with
    | some e => let r := step sem w.st (.add g e c); ({ w with st := r.1 }, some r.2)
    | none => (w, none)
  | .scene => (w, some (step sem w.st (Op.scene : Op E C)).2)
  | .lookup t thr => (w, some (step sem w.st (Op.lookup t thr : Op E C)).2)

def runW {E C T : Type} (sem : Sem E C T) : World E T → List (OpW C) → World E T × List (Option (Out T))
  | w, [] => (w, [])
  | w, op :: ops =>
    let r := stepW sem w op
    let rest := runW sem r.1 ops
    (rest.1, r.2 :: rest.2)

/-! ### a concrete AP (`ap.py`), enough to compute scene scores and to state order-independence -/

/-- insert `r` into a list sorted by descending confidence, before the first element whose
confidence is not larger (`r` comes earlier in the original list than everything in `l`) -/
def insertDesc (r : Res) : List Res → List Res
  | [] => [r]
  | x :: xs => if x.conf ≤ r.conf then r :: x :: xs else x :: insertDesc r xs

/-- `list.sort(key=confidence, reverse=True)`: stable, descending -/
def sortDesc : List Res → List Res
  | [] => []
  | r :: rs => insertDesc r (sortDesc rs)

/-- `np.cumsum` -/
def cumsum (acc : Rat) : List Rat → List Rat
  | [] => []
  | x :: xs => (acc + x) :: cumsum (acc + x) xs

/-- `get_precision_recall_list` on the cumulative TP list, position `i` (0-based) -/
def prFrom (n : Nat) (i : Nat) : List Rat → List (Rat × Rat)
  | [] => []
  | t :: ts => (t / ((i : Rat) + 1), if n > 0 then t / (n : Rat) else 0) :: prFrom n (i + 1) ts

/-- `interpolate_precision_recall_list`, walking from the last point backwards (`rest` = the earlier
points in reverse order); a point is kept when its precision is strictly larger than the last kept
one; finally `(last precision, 0)` is appended. -/
def envelope (last : Rat × Rat) : List (Rat × Rat) → List (Rat × Rat)
  | [] => [last, (last.1, 0)]
  | q :: qs => if q.1 > last.1 then last :: envelope q qs else envelope last qs

/-- `_calculate_ap`: Σ maxP[i] · (maxR[i] − maxR[i+1]) -/
def area : List (Rat × Rat) → Rat
  | a :: b :: rest => a.1 * (a.2 - b.2) + area (b :: rest)
  | _ => 0

/-- AP of the TP values in ranking order; `none` = `float("inf")` (no object result) -/
def apCore (tps : List Rat) (n : Nat) : Option Rat :=
  match (prFrom n 0 (cumsum 0 tps)).reverse with
  | [] => none
  | p :: rest => some (area (envelope p rest))

/-- AP of metric column `c` -/
def apOf (c : Nat) (rs : List Res) (n : Nat) : Option Rat :=
  apCore ((sortDesc rs).map (fun r => r.tp.getD c 0)) n

/-- `Map.map` / `Map.maph`: mean of the APs that are not `inf`; `inf` when there is none -/
def meanValid (xs : List (Option Rat)) : Option Rat :=
  let v := xs.filterMap id
  if v.length > 0 then some (v.sum / (v.length : Rat)) else none

end PEval.Manager

/-!
### Note (heap model)

In this file a ground-truth frame is a VALUE and `Sem.evalDet` has no access to the state, so "the dataset
is not modified" and "the result does not depend on the history" cannot fail here.  The model in which
they can — frames and estimate lists as cells of a store, passed by reference, the assignments of
`_filter_objects` / `evaluate_frame` as writes, with the F5-defective variant next to the repaired code —
is `PEval/Model/ManagerHeap.lean`; `Lemmas/ManagerHeap.lean` (`hrun_sim`) proves that the repaired heap
machine refines `run` of this file, so the theorems about `run` transfer.  `apOf` below the line
"a concrete AP" is proved equal to the `ap` of `PEval.AP.apOf` in `Lemmas/ManagerAPLink.lean`.
-/
