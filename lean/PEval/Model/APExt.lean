import PEval.Model.AP
/-!
Extension of the AP model (`PEval/Model/AP.lean`) for properties C04 / C08:

* **extended thresholds** `EThr`: a matching threshold as a Python float can be, a number or
  `float("inf")`. `float("inf")` passes the threshold validators (`set_thresholds` accepts any `Real`),
  is the loosest distance threshold (`value < inf` holds for every matching score, which is always
  finite) and is rejected by the IoU modes' `assert 0.0 <= threshold_value <= 1.0`.
  The functions below are the functions of `AP.lean` with `EThr` in the place of `Rat`, line by line
  (suffix `E`); `PEval/Lemmas/APExt.lean` proves that on finite thresholds they ARE the functions of
  `AP.lean`, and that `inf` behaves like any number above all scores and above 1.
* **the two label lists of `evaluate_frame`**: `divide_objects(object_results, critical.target_labels)`
  keys the per-label dicts by the critical-object filter's label list, `Map` reads them by the
  evaluation config's label list (`frameMapE`, the `EThr` version of `Pipeline.frameMap2`).
* `Map` on explicitly given dicts (association lists in insertion order) is `mapOf` / `mapOfE` itself.
-/

namespace PEval.AP

/-- a threshold value: a number or `float("inf")` -/
inductive EThr where
  | fin (t : Rat)
  | posInf
  deriving DecidableEq, Repr

/-- the IoU modes assert `0 ≤ t ≤ 1` (false for `inf`); the distance modes assert nothing -/
def thrValidE (m : Mode) : EThr → Bool
  | .fin t => thrValid m t
  | .posInf => m.isDistance

/-- `value < inf` is true, `value > inf` is false (matching scores are finite) -/
def isBetterE (m : Mode) (v : Rat) : EThr → Bool
  | .fin t => isBetter m v t
  | .posInf => m.isDistance

/-- `MatchingMethod.is_better_than` -/
def isBetterThanE (m : Mode) (v : Option Rat) (t : EThr) : Except Err Bool :=
  if thrValidE m t then
    .ok (match v with
      | none => false
      | some x => isBetterE m x t)
  else .error "AssertionError"

/-- `DynamicObjectWithPerceptionResult.is_result_correct` -/
def isResultCorrectE (m : Mode) (thr : Option EThr) (r : Res) : Except Err Bool :=
  match r.gt with
  | none => .ok false
  | some g =>
    match thr with
    | none => .ok (isLabelCorrect r)
    | some t =>
      match r.score with
      | .noMethod => .ok (isLabelCorrect r)
      | .val v =>
        match isBetterThanE m v t with
        | .error e => .error e
        | .ok b => .ok (if g.label == fpLabel then !b else b && isLabelCorrect r)

/-- `get_label_threshold` -/
def getLabelThresholdE (l : Label) (targets : List Label) (thrs : Option (List EThr)) :
    Except Err (Option EThr) :=
  match thrs with
  | none => .ok none
  | some ts =>
    match targets.findIdx? (· == l) with
    | none => .ok none
    | some i =>
      match ts[i]? with
      | some t => .ok (some t)
      | none => .error "IndexError"

/-- the body of the loop in `_calculate_tp_fp` for one result -/
def classifyE (tm : TpMetric) (m : Mode) (targets : List Label) (thrs : List EThr) (r : Res) :
    Except Err Kind :=
  match getLabelThresholdE (keyLabel r) targets (some thrs) with
  | .error e => .error e
  | .ok none => .ok .ignored
  | .ok (some t) =>
    match isResultCorrectE m (some t) r with
    | .error e => .error e
    | .ok true => .ok (.tp (tpValue tm r))
    | .ok false => .ok .fp

def classifyAllE (tm : TpMetric) (m : Mode) (targets : List Label) (thrs : List EThr) :
    List Res → Except Err (List Kind)
  | [] => .ok []
  | r :: rs =>
    match classifyE tm m targets thrs r with
    | .error e => .error e
    | .ok k =>
      match classifyAllE tm m targets thrs rs with
      | .error e => .error e
      | .ok ks => .ok (k :: ks)

/-- `Ap(tp_metrics, object_results (flat), num_ground_truth, target_labels, mode, thresholds)` -/
def apOfE (tm : TpMetric) (m : Mode) (targets : List Label) (thrs : List EThr) (G : Nat)
    (results : List Res) : Except Err ApOut :=
  match classifyAllE tm m targets thrs (sortDesc Res.conf results) with
  | .error e => .error e
  | .ok ks =>
    if results.any (fun r => r.score == Score.noMethod) then .error "AttributeError"
    else .ok (apOfKinds G ks)

def apOfNestedE (tm : TpMetric) (m : Mode) (targets : List Label) (thrs : List EThr) (G : Nat)
    (results : List (List Res)) : Except Err ApOut :=
  apOfE tm m targets thrs G results.flatten

/-- the per-label loop of `Map.__init__` over `zip(target_labels, matching_threshold_list)`; the two
dicts are read by key (`object_results_dict[target_label]`), never by position -/
def mapLoopE (m : Mode) (is2d : Bool) (buckets : List (Label × List (List Res)))
    (nums : List (Label × Nat)) : List (Label × EThr) → Except Err (List ApOut × List ApOut)
  | [] => .ok ([], [])
  | (l, t) :: rest =>
    match lookupKey l buckets with
    | .error e => .error e
    | .ok rs =>
      match lookupKey l nums with
      | .error e => .error e
      | .ok G =>
        match apOfNestedE .ap m [l] [t] G rs with
        | .error e => .error e
        | .ok a =>
          match (if is2d then .ok none else (apOfNestedE .aph m [l] [t] G rs).map some) with
          | .error e => .error e
          | .ok h =>
            match mapLoopE m is2d buckets nums rest with
            | .error e => .error e
            | .ok (as, hs) => .ok (a :: as, match h with | some x => x :: hs | none => hs)

/-- `Map(object_results_dict, num_ground_truth_dict, target_labels, mode, thresholds)`; the dicts are
association lists in insertion order -/
def mapOfE (m : Mode) (is2d : Bool) (targets : List Label) (thrs : List EThr)
    (buckets : List (Label × List (List Res))) (nums : List (Label × Nat)) : Except Err MapOut :=
  match mapLoopE m is2d buckets nums (targets.zip thrs) with
  | .error e => .error e
  | .ok (as, hs) =>
    .ok { aps := as, aphs := hs, map := meanDefined (as.map (·.ap)), maph := meanDefined (hs.map (·.ap)) }

/-- frame level (`PerceptionFrameResult.evaluate_frame`): the dicts are keyed by the label list of the
critical-object filter (`divTargets`), `Map` walks the label list of the evaluation config -/
def frameMapE (m : Mode) (is2d : Bool) (divTargets mapTargets : List Label) (thrs : List EThr)
    (rs : List Res) (gtLabels : List Label) : Except Err MapOut :=
  mapOfE m is2d mapTargets thrs
    ((divideObjects (some divTargets) rs).map (fun kv => (kv.1, [kv.2])))
    (divideObjectsToNum (some divTargets) gtLabels)

/-- scene level (`get_scene_result`) -/
def sceneMapE (m : Mode) (is2d : Bool) (targets : List Label) (thrs : List EThr)
    (frames : List (List Res × List Label)) : Except Err MapOut :=
  match sceneBuckets targets frames with
  | .error e => .error e
  | .ok (bs, ns) => mapOfE m is2d targets thrs bs ns

/-! ## `get_positive_objects`, `get_negative_objects` -/

def getStatusE (m : Mode) (thr : Option EThr) (r : Res) : Except Err (Status × Option Status) :=
  match r.gt with
  | none => .ok (.fp, none)
  | some g =>
    match isResultCorrectE m thr r with
    | .error e => .error e
    | .ok true => .ok (if g.label == fpLabel then (.fp, some .tn) else (.tp, some .tp))
    | .ok false => .ok (if g.label == fpLabel then (.fp, some .fp) else (.fp, some .fn))

def isPositiveE (m : Mode) (targets : List Label) (thrs : Option (List EThr)) (r : Res) :
    Except Err Bool :=
  match r.gt with
  | none => .ok false
  | some g =>
    match getLabelThresholdE g.label targets thrs with
    | .error e => .error e
    | .ok thr =>
      match getStatusE m thr r with
      | .error e => .error e
      | .ok (.tp, some .tp) => .ok true
      | .ok _ => .ok false

def getPositiveE (m : Mode) (targets : List Label) (thrs : Option (List EThr)) :
    List Res → Except Err (List Nat × List Nat)
  | [] => .ok ([], [])
  | r :: rs =>
    match isPositiveE m targets thrs r with
    | .error e => .error e
    | .ok b =>
      match getPositiveE m targets thrs rs with
      | .error e => .error e
      | .ok (tps, fps) => .ok (if b then (r.id :: tps, fps) else (tps, r.id :: fps))

def gtStatusesE (m : Mode) (targets : List Label) (thrs : Option (List EThr)) :
    List Res → Except Err (List (Option (Gt × Status)))
  | [] => .ok []
  | r :: rs =>
    match getLabelThresholdE (keyLabel r) targets thrs with
    | .error e => .error e
    | .ok thr =>
      match getStatusE m thr r with
      | .error e => .error e
      | .ok (_, gs) =>
        match gtStatusesE m targets thrs rs with
        | .error e => .error e
        | .ok l =>
          .ok ((match r.gt, gs with
                | some g, some s => some (g, s)
                | _, _ => none) :: l)

def getNegativeE (m : Mode) (targets : List Label) (thrs : Option (List EThr)) (gts : List Gt)
    (rs : List Res) : Except Err (List Nat × List Nat) :=
  match gtStatusesE m targets thrs rs with
  | .error e => .error e
  | .ok sts =>
    let paired := sts.filterMap id
    let tn1 := (paired.filter (fun gs => gs.2 == Status.tn)).map (fun gs => gs.1.id)
    let fn1 := (paired.filter (fun gs => gs.2 == Status.fn)).map (fun gs => gs.1.id)
    let nonCand := paired.map (fun gs => gs.1.id)
    let rest := gts.filter (fun g => !nonCand.contains g.id)
    .ok (tn1 ++ (rest.filter (fun g => g.label == fpLabel)).map (·.id),
         fn1 ++ (rest.filter (fun g => g.label != fpLabel)).map (·.id))

/-! ## reading `inf` as a number

`EThr.real B` replaces `inf` by the number `B`. For `B` above 1 and above every matching score of the
results at hand nothing changes (`PEval/Lemmas/APExt.lean`), which carries every theorem about
rational thresholds over to `EThr`. -/

def EThr.real (B : Rat) : EThr → Rat
  | .fin t => t
  | .posInf => B

/-- the order of threshold values: numbers as usual, `inf` on top -/
def EThr.le : EThr → EThr → Prop
  | .fin a, .fin b => a ≤ b
  | _, .posInf => True
  | .posInf, .fin _ => False

/-- `t'` is at least as loose as `t` for mode `m` (distance modes: larger; IoU modes: smaller) -/
def looserE (m : Mode) (t t' : EThr) : Prop := if m.isDistance then EThr.le t t' else EThr.le t' t

end PEval.AP
