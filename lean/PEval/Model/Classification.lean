import PEval.Model.Basic
/-!
# Classification: pairing ROI-less 2-D objects by identity, scoring them by label agreement

Model of
* `get_object_results` (dispatch for ROI-less `DynamicObject2D`), `_get_object_results_with_id`,
  `_get_object_results_for_tlr`, `_get_fp_object_results`  (evaluation/result/object_result.py),
* `DynamicObjectWithPerceptionResult.is_label_correct` with the default label policy,
* `ClassificationAccuracy` (evaluation/metrics/classification/accuracy.py),
* `ClassificationMetricsScore._summarize` (classification_metrics_score.py).

Conventions.  A Python object is an `Obj` carrying the harness-assigned `id`; `DynamicObject2D` has no
`__eq__`, so `x in list` / `list.remove(x)` work by identity = structural equality of `Obj` (ids are
distinct).  A label is the enum family (`TrafficLightLabel` or `AutowareLabel`) plus the member value;
members of different families are never equal.  A frame is the `FrameID` value string.  Python floats
`inf` / `nan` are the constructors `Score.inf` / `Score.nan`.
-/
namespace PEval.Classification

/-- `Label.label`: enum family (`tl` = it is a `TrafficLightLabel`) and member value -/
structure Label where
  tl : Bool
  name : String
  deriving DecidableEq, Repr

/-- `Label.is_fp()` : `label == CommonLabel.FP` -/
def Label.isFP (l : Label) : Bool := l.name == "false_positive"

/-- a ROI-less `DynamicObject2D` -/
structure Obj where
  id : Nat
  uuid : Option String
  label : Label
  frame : String
  deriving DecidableEq, Repr

/-- `DynamicObjectWithPerceptionResult(estimated_object, ground_truth_object)` -/
structure Res where
  est : Obj
  gt : Option Obj
  deriving DecidableEq, Repr

/-- loop state: pairs appended so far and the two working copies `estimated_objects_`,
`ground_truth_objects_` -/
structure St where
  res : List (Obj × Obj)
  es : List Obj
  gs : List Obj
  deriving DecidableEq, Repr

/-- append the pair and `.remove` both objects from the working copies -/
def take (e g : Obj) (s : St) : St :=
  { res := s.res ++ [(e, g)], es := s.es.erase e, gs := s.gs.erase g }

/-- `est_object.uuid is None or gt_object.uuid is None` -/
def nullUuid (e g : Obj) : Bool := e.uuid.isNone || g.uuid.isNone

/-- loop body of `_get_object_results_with_id`: no `in` guard, so `list.remove` raises `ValueError`
when the object is not in the working copy any more -/
def stepU (c : Obj → Obj → Bool) (e g : Obj) (s : St) : Except Err St :=
  if nullUuid e g then .error "RuntimeError"
  else if c e g then
    if e ∈ s.es then
      if g ∈ s.gs then .ok (take e g s) else .error "ValueError"
    else .error "ValueError"
  else .ok s

/-- loop body of `_get_object_results_for_tlr`: the condition includes `est_object in estimated_objects_
and gt_object in ground_truth_objects_` -/
def stepG (c : Obj → Obj → Bool) (e g : Obj) (s : St) : Except Err St :=
  if nullUuid e g then .error "RuntimeError"
  else if c e g && decide (e ∈ s.es) && decide (g ∈ s.gs) then .ok (take e g s)
  else .ok s

/-- `for gt_object in ground_truth_objects: body` -/
def inner (step : Obj → Obj → St → Except Err St) (e : Obj) : List Obj → St → Except Err St
  | [], s => .ok s
  | g :: gs, s =>
    match step e g s with
    | .ok s' => inner step e gs s'
    | .error x => .error x

/-- `for est_object in estimated_objects: for gt_object in ground_truth_objects: body` -/
def outer (step : Obj → Obj → St → Except Err St) (gs : List Obj) : List Obj → St → Except Err St
  | [], s => .ok s
  | e :: es, s =>
    match inner step e gs s with
    | .ok s' => outer step gs es s'
    | .error x => .error x

/-- `est.uuid == gt.uuid and est.frame_id == gt.frame_id` -/
def sameKey (e g : Obj) : Bool := decide (e.uuid = g.uuid) && decide (e.frame = g.frame)

/-- stage-1 condition of `match_condition` without the two `in` guards -/
def cond1 (uuidFirst : Bool) (e g : Obj) : Bool :=
  decide (e.label = g.label) && (!uuidFirst || decide (e.uuid = g.uuid)) && decide (e.frame = g.frame)

def initSt (ests gts : List Obj) : St := { res := [], es := ests, gs := gts }

def paired (ps : List (Obj × Obj)) : List Res := ps.map fun p => { est := p.1, gt := some p.2 }

/-- `_get_fp_object_results` -/
def fpResults (es : List Obj) : List Res := es.map fun e => { est := e, gt := none }

def camTrafficLight : String := "cam_traffic_light"

/-- "when there are rest of estimated objects, they all are FP" – unless one of them lives in the
integrated traffic-light camera frame `CAM_TRAFFIC_LIGHT`, in which case none is reported -/
def fpTail (es : List Obj) : List Obj :=
  if !es.isEmpty && !(es.any fun e => e.frame == camTrafficLight) then es else []

/-- `_get_object_results_with_id` -/
def pairById (ests gts : List Obj) : Except Err (List Res) :=
  match outer (stepU sameKey) gts ests (initSt ests gts) with
  | .error x => .error x
  | .ok s => .ok (paired s.res ++ fpResults (fpTail s.es))

/-- stage 1 of `_get_object_results_for_tlr` -/
def tlrStage1 (uuidFirst : Bool) (ests gts : List Obj) : Except Err St :=
  outer (stepG (cond1 uuidFirst)) gts ests (initSt ests gts)

/-- stage 2: loops over copies of the rest lists taken after stage 1 -/
def tlrStage2 (s1 : St) : Except Err St :=
  outer (stepG sameKey) s1.gs s1.es s1

/-- `_get_object_results_for_tlr` -/
def pairTlr (uuidFirst : Bool) (ests gts : List Obj) : Except Err (List Res) :=
  match tlrStage1 uuidFirst ests gts with
  | .error x => .error x
  | .ok s1 =>
    match tlrStage2 s1 with
    | .error x => .error x
    | .ok s2 => .ok (paired s2.res)

/-- `get_object_results` restricted to ROI-less `DynamicObject2D` lists; `fpv` is
`evaluation_task.is_fp_validation()` -/
def objectResults (fpv uuidFirst : Bool) (ests gts : List Obj) : Except Err (List Res) :=
  match ests, gts with
  | [], _ => .ok []
  | _ :: _, [] => .ok (if fpv then [] else fpResults ests)
  | e0 :: _, _ :: _ => if e0.label.tl then pairTlr uuidFirst ests gts else pairById ests gts

/-! ## scoring -/

/-- `is_label_correct` (policy `DEFAULT`, the one the id-based matchers construct results with):
false without ground truth; true when the ground truth carries the FP label; else label equality -/
def labelCorrect (r : Res) : Bool :=
  match r.gt with
  | none => false
  | some g => g.label.isFP || decide (r.est.label = g.label)

/-- a Python float result -/
inductive Score where
  | val (r : Rat)
  | inf
  | nan
  deriving DecidableEq, Repr

/-- `a / b if b != 0 else float("inf")` -/
def ratio (a b : Nat) : Score := if b = 0 then .inf else .val ((a : Rat) / (b : Rat))

/-- `ClassificationAccuracy.calculate_f1score` (beta = 1) -/
def f1Acc : Score → Score → Score
  | .val p, .val r => if p + r = 0 then .inf else .val (2 * p * r / (p + r))
  | _, _ => .inf

/-- the F1 expression of `_summarize`: only `precision + recall != 0` is tested, so an infinite
precision or recall yields `nan` (`inf/inf` or `inf*0`) -/
def f1Sum : Score → Score → Score
  | .val p, .val r => if p + r = 0 then .inf else .val (2 * p * r / (p + r))
  | _, _ => .nan

structure Acc where
  numGT : Nat
  num : Nat
  tp : Nat
  fp : Nat
  accuracy : Score
  precision : Score
  recall : Score
  f1 : Score
  deriving DecidableEq, Repr

def countTp (rs : List Res) : Nat := rs.countP labelCorrect

/-- `ClassificationAccuracy(object_results, num_ground_truth, _)` for a flat list -/
def accuracy (rs : List Res) (numGT : Nat) : Acc :=
  let n := rs.length
  let tp := countTp rs
  let p := ratio tp n
  let r := ratio tp numGT
  { numGT := numGT, num := n, tp := tp, fp := n - tp,
    accuracy := ratio tp (n + numGT - tp), precision := p, recall := r, f1 := f1Acc p r }

/-- nested input (list of per-frame lists) is concatenated first -/
def accuracyNested (frames : List (List Res)) (numGT : Nat) : Acc := accuracy frames.flatten numGT

/-- `ClassificationMetricsScore._summarize` -/
def summarize (accs : List Acc) : Score × Score × Score × Score :=
  let numEst := (accs.map (·.num)).sum
  let numGt := (accs.map (·.numGT)).sum
  let tp := (accs.map (·.tp)).sum
  let fp := (accs.map (·.fp)).sum
  let p := ratio tp (tp + fp)
  let r := ratio tp numGt
  (ratio tp (numEst + numGt - tp), p, r, f1Sum p r)

end PEval.Classification
