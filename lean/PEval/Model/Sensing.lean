import PEval.Model.Basic
import PEval.Gen.Enums
/-!
Model of the sensing evaluation (property C12).

Anchors in /repo/perception_eval/perception_eval:
* `common/point.py: crop_pointcloud`             → `wn`, `keepInside`, `keepOutside`, `crop`
* `common/object.py: get_footprint/get_corners`  → `boxCorners`
* `common/object.py: crop_pointcloud, get_inside_pointcloud_num, point_exist` → `cropBox`, `insideNum`, `pointExist`
* `evaluation/sensing/sensing_frame_config.py: get_scale_factor`, `util/math.py: get_bbox_scale` → `scaleFactor`
* `evaluation/sensing/sensing_result.py`          → `sensingResult`
* `evaluation/sensing/sensing_frame_result.py`    → `classify`, `evaluateDetection`, `evaluateNonDetection`, `evaluateFrame`
* `manager/sensing_evaluation_manager.py: crop_pointcloud, add_frame_result` → `managerCrop`, `nonDetectionPoints`, `addFrameResult`

Numbers are exact rationals.  A cloud row is `Pt`: its first three columns and a `tag` (the row's
identity given by the harness; it stands for every further column, e.g. intensity).  `cols` is the
number of columns of the numpy array (`0` encodes "not 2-dimensional").
-/

namespace PEval.Sensing

/-- one row of the point cloud -/
structure Pt where
  x : Rat
  y : Rat
  z : Rat
  tag : Nat
deriving DecidableEq, Repr

/-- one corner `(x, y, z)` of an area -/
structure Corner where
  x : Rat
  y : Rat
  z : Rat
deriving DecidableEq, Repr

/-! ### the winding counter (`numpy.uint8`, wraps modulo 256) -/

/-- `cnt += 1` on a `uint8` -/
def u8inc (c : Nat) : Nat := (c + 1) % 256
/-- `cnt -= 1` on a `uint8` (`0 - 1 = 255`) -/
def u8dec (c : Nat) : Nat := (c + 255) % 256

/-- `area[i]` (the code never indexes out of range: `i + 1 ≤ n < 2n`) -/
def cornerAt (area : List Corner) (i : Nat) : Corner := area.getD i ⟨0, 0, 0⟩

/-- one pass of the loop body of `crop_pointcloud` for edge `i` and one point.
`n = len(area) // 2`; note the code's `area[i + 1]` (not `area[next_idx]`) in the test that selects
how `vt` is computed. Division by zero yields `0` here and `inf/nan` in numpy; in that case both
crossing flags are false, so the value is not used. -/
def edgeStep (area : List Corner) (n : Nat) (p : Pt) (cnt : Nat) (i : Nat) : Nat :=
  let a := cornerAt area i
  let b := cornerAt area ((i + 1) % n)
  let q := cornerAt area (i + 1)
  let vt : Rat := if q.y ≠ a.y then (p.y - a.y) / (b.y - a.y) else p.x
  let valid : Bool := decide (p.x < a.x + vt * (b.x - a.x))
  let inc : Bool := decide (a.y ≤ p.y) && decide (b.y > p.y) && valid
  let dec : Bool := decide (a.y > p.y) && decide (b.y ≤ p.y) && valid
  let cnt := if inc then u8inc cnt else cnt
  if dec then u8dec cnt else cnt

/-- the final value of `cnt_arr_` for one point -/
def wn (area : List Corner) (p : Pt) : Nat :=
  (List.range (area.length / 2)).foldl (edgeStep area (area.length / 2) p) 0

/-- `min(area, key=lambda x: x[2])[2]` -/
def zMin : List Corner → Rat
  | [] => 0
  | c :: cs => cs.foldl (fun m d => if d.z < m then d.z else m) c.z

/-- `max(area, key=lambda x: x[2])[2]` -/
def zMax : List Corner → Rat
  | [] => 0
  | c :: cs => cs.foldl (fun m d => if m < d.z then d.z else m) c.z

/-- the row mask `idx` of `crop_pointcloud(..., inside=True)` -/
def keepInside (cols : Nat) (area : List Corner) (p : Pt) : Bool :=
  let xy : Bool := decide (0 < wn area p)
  if cols < 3 then xy
  else xy && (decide (zMin area ≤ p.z) && decide (p.z ≤ zMax area))

/-- the row mask `idx` of `crop_pointcloud(..., inside=False)` -/
def keepOutside (cols : Nat) (area : List Corner) (p : Pt) : Bool :=
  let xy : Bool := decide (wn area p ≤ 0)
  if cols < 3 then xy
  else xy || (decide (p.z < zMin area) || decide (zMax area < p.z))

def cropInside (cols : Nat) (cloud : List Pt) (area : List Corner) : List Pt :=
  cloud.filter (keepInside cols area)

def cropOutside (cols : Nat) (cloud : List Pt) (area : List Corner) : List Pt :=
  cloud.filter (keepOutside cols area)

/-- `crop_pointcloud(pointcloud, area, inside)` with its two `RuntimeError`s -/
def crop (cols : Nat) (cloud : List Pt) (area : List Corner) (inside : Bool) : Except Err (List Pt) :=
  if cols < 2 then .error "RuntimeError"
  else if area.length / 2 < 3 ∨ area.length % 2 ≠ 0 then .error "RuntimeError"
  else .ok (if inside then cropInside cols cloud area else cropOutside cols cloud area)

/-! ### boxes -/

/-- a 3-D box. `(e1x, e1y)` and `(e2x, e2y)` are the xy-components of the images of the box's unit
x- and y-axis under its orientation (first two columns of the rotation matrix, rows 0 and 1);
for a pure yaw `(c, s)`: `e1 = (c, s)`, `e2 = (−s, c)`. `size = (w, l, h)`: `l` along `e1`, `w` along `e2`. -/
structure Box where
  cx : Rat
  cy : Rat
  cz : Rat
  e1x : Rat
  e1y : Rat
  e2x : Rat
  e2y : Rat
  w : Rat
  l : Rat
  h : Rat
deriving Repr

/-- xy of the footprint corner with local coordinates `(sx·l/2, sy·w/2)·scale` -/
def Box.corner (b : Box) (k sx sy z : Rat) : Corner :=
  ⟨(sx * b.l / 2 * k) * b.e1x + (sy * b.w / 2 * k) * b.e2x + b.cx,
   (sx * b.l / 2 * k) * b.e1y + (sy * b.w / 2 * k) * b.e2y + b.cy, z⟩

/-- `DynamicObject.get_corners(scale).tolist()`: upper plane then lower plane, each in the order
`(+l,+w), (−l,+w), (−l,−w), (+l,−w)` of `Shape.__calculate_corners` -/
def boxCorners (b : Box) (k : Rat) : List Corner :=
  let zu := b.cz + b.h / 2
  let zl := b.cz - b.h / 2
  [b.corner k 1 1 zu, b.corner k (-1) 1 zu, b.corner k (-1) (-1) zu, b.corner k 1 (-1) zu,
   b.corner k 1 1 zl, b.corner k (-1) 1 zl, b.corner k (-1) (-1) zl, b.corner k 1 (-1) zl]

/-- `DynamicObject.crop_pointcloud(pointcloud, bbox_scale, inside)` -/
def cropBox (cols : Nat) (cloud : List Pt) (b : Box) (k : Rat) (inside : Bool) : Except Err (List Pt) :=
  crop cols cloud (boxCorners b k) inside

/-- `DynamicObject.get_inside_pointcloud_num` -/
def insideNum (cols : Nat) (cloud : List Pt) (b : Box) (k : Rat) : Except Err Nat :=
  (cropBox cols cloud b k true).map List.length

/-- `DynamicObject.point_exist` -/
def pointExist (cols : Nat) (cloud : List Pt) (b : Box) (k : Rat) : Except Err Bool :=
  (insideNum cols cloud b k).map (fun n => decide (n > 0))

/-! ### frame evaluation -/

/-- the `visibility` attribute of an object: a `Visibility` member (by name) or a plain `str` -/
inductive Vis where
  | member (name : String)
  | raw (s : String)
deriving DecidableEq, Repr

/-- `ground_truth_object.visibility == Visibility.NONE`: identity for members; a `str` is compared
with the member's *value* (`Visibility.__eq__`), read from the table regenerated from the source;
`None` is not equal -/
def isNone : Option Vis → Bool
  | some (.member n) => n == "NONE"
  | some (.raw s) => (Gen.visibility.find? (fun p => p.1 == "NONE")).map (·.2) == some s
  | none => false

/-- a ground-truth object as seen by the sensing evaluation. `dist` is `get_distance()` (the
Euclidean norm of the position, handed over by the harness because it is a square root). -/
structure Obj where
  id : Nat
  uuid : Option String
  box : Box
  dist : Rat
  visibility : Option Vis
deriving Repr

/-- `SensingFrameConfig` / the sensing part of `SensingEvaluationConfig` -/
structure Cfg where
  targetUuids : Option (List String)
  scale0 : Rat
  scale100 : Rat
  minPoints : Int
deriving Repr

/-- `SensingFrameConfig.get_scale_factor` = `get_bbox_scale` -/
def scaleFactor (cfg : Cfg) (distance : Rat) : Rat :=
  (1 / 100) * (cfg.scale100 - cfg.scale0) * distance + cfg.scale0

/-- `DynamicObjectWithSensingResult` -/
structure SRes where
  gt : Nat
  inside : List Pt
  num : Nat
  isDetected : Bool
  isOccluded : Bool
deriving Repr

def sensingResult (cfg : Cfg) (cols : Nat) (cloud : List Pt) (o : Obj) : Except Err SRes := do
  let ins ← cropBox cols cloud o.box (scaleFactor cfg o.dist) true
  pure { gt := o.id, inside := ins, num := ins.length,
         isDetected := decide ((ins.length : Int) ≥ cfg.minPoints),
         isOccluded := isNone o.visibility }

inductive Verdict where
  | warning
  | success
  | fail
deriving DecidableEq, Repr

/-- the `if is_occluded … elif is_detected … else` of `_evaluate_pointcloud_for_detection` -/
def classify (r : SRes) : Verdict :=
  if r.isOccluded then .warning else if r.isDetected then .success else .fail

/-- `SensingFrameResult` containers -/
structure FrameRes where
  success : List SRes := []
  fail : List SRes := []
  warning : List SRes := []
  nonDetection : List (List Pt) := []
deriving Repr

def FrameRes.push (fr : FrameRes) (r : SRes) : FrameRes :=
  match classify r with
  | .warning => { fr with warning := fr.warning ++ [r] }
  | .success => { fr with success := fr.success ++ [r] }
  | .fail => { fr with fail := fr.fail ++ [r] }

/-- the loop of `_evaluate_pointcloud_for_detection` (an empty list is the early `return`) -/
def evaluateDetection (cfg : Cfg) (cols : Nat) (cloud : List Pt) : List Obj → FrameRes → Except Err FrameRes
  | [], fr => pure fr
  | o :: os, fr => do
    let r ← sensingResult cfg cols cloud o
    evaluateDetection cfg cols cloud os (fr.push r)

/-- inner loop of `_evaluate_pointcloud_for_non_detection` (and of the manager's crop): remove the
points inside every object's scaled box, one object after the other -/
def cropOutsideAll (cfg : Cfg) (cols : Nat) : List Obj → List Pt → Except Err (List Pt)
  | [], pts => pure pts
  | o :: os, pts => do
    let rest ← cropBox cols pts o.box (scaleFactor cfg o.dist) false
    cropOutsideAll cfg cols os rest

/-- `_evaluate_pointcloud_for_non_detection`: a remaining cloud is reported iff it is non-empty -/
def evaluateNonDetection (cfg : Cfg) (cols : Nat) (objs : List Obj) : List (List Pt) → FrameRes → Except Err FrameRes
  | [], fr => pure fr
  | c :: cs, fr => do
    let rest ← cropOutsideAll cfg cols objs c
    evaluateNonDetection cfg cols objs cs
      (if rest.length ≠ 0 then { fr with nonDetection := fr.nonDetection ++ [rest] } else fr)

/-- `SensingFrameResult.evaluate_frame` on a fresh result -/
def evaluateFrame (cfg : Cfg) (cols : Nat) (objs : List Obj) (cloud : List Pt) (ndClouds : List (List Pt)) :
    Except Err FrameRes := do
  let fr ← evaluateDetection cfg cols cloud objs {}
  evaluateNonDetection cfg cols objs ndClouds fr

/-! ### manager -/

/-- `SensingEvaluationManager.crop_pointcloud`: first every area is cropped (inside), then every
cropped cloud is reduced by all objects' boxes scaled with the *manager's* configuration -/
def managerCropAreas (cols : Nat) (cloud : List Pt) : List (List Corner) → Except Err (List (List Pt))
  | [] => pure []
  | a :: as => do
    let c ← crop cols cloud a true
    let cs ← managerCropAreas cols cloud as
    pure (c :: cs)

def managerCropObjects (mcfg : Cfg) (cols : Nat) (objs : List Obj) : List (List Pt) → Except Err (List (List Pt))
  | [] => pure []
  | c :: cs => do
    let r ← cropOutsideAll mcfg cols objs c
    let rs ← managerCropObjects mcfg cols objs cs
    pure (r :: rs)

def managerCrop (mcfg : Cfg) (cols : Nat) (objs : List Obj) (cloud : List Pt) (areas : List (List Corner)) :
    Except Err (List (List Pt)) := do
  let cs ← managerCropAreas cols cloud areas
  managerCropObjects mcfg cols objs cs

/-- `filter_objects(objects, is_gt=True, target_uuids=…)` (no object carries an FP label) -/
def filterUuids (cfg : Cfg) (objs : List Obj) : List Obj :=
  match cfg.targetUuids with
  | none => objs
  | some us => objs.filter (fun o => match o.uuid with
      | some u => us.contains u
      | none => false)

/-- `SensingEvaluationManager.add_frame_result` (`mcfg`: the manager's configuration,
`fcfg`: the frame configuration, equal to `mcfg` when none is passed) -/
def addFrameResult (mcfg fcfg : Cfg) (cols : Nat) (objs : List Obj) (cloud : List Pt)
    (areas : List (List Corner)) : Except Err FrameRes := do
  let nd ← managerCrop mcfg cols objs cloud areas
  evaluateFrame fcfg cols (filterUuids fcfg objs) cloud nd

/-- the reported non-detection points of `add_frame_result` (`pointcloud_failed_non_detection`) -/
def nonDetectionPoints (mcfg fcfg : Cfg) (cols : Nat) (objs : List Obj) (cloud : List Pt)
    (areas : List (List Corner)) : Except Err (List (List Pt)) :=
  (addFrameResult mcfg fcfg cols objs cloud areas).map (·.nonDetection)

end PEval.Sensing
