import PEval.Model.Basic
import PEval.Model.Enums
/-!
Model of `perception_eval/common/transform.py`: `HomogeneousMatrix` (`__init__`, `transform` with a
position / a position and a rotation / another matrix, `dot`, `inv`) and `TransformDict.transform`
(identity for X-to-X, direct entry, inverse of the reverse entry, `KeyError`), with the key
normalisation of `TransformKey` taken from `PEval.Enums` (`frameOfArg`, `transformKey`).

Numbers are exact rationals.  A rotation is a quaternion `(w, x, y, z)` over `Rat`; it acts on points
through the *homogeneous* rotation-matrix formula (diagonal `w²+x²-y²-z²` …, the product
`Q(q)·Q̄(q)ᵀ` that pyquaternion's `rotation_matrix` evaluates), so the group laws are polynomial
identities and unit length enters only as the hypothesis `normSq q = 1`.  The real code keeps a 4×4
float matrix next to the quaternion and goes through `Quaternion(matrix=…)` after every product
(sign of the quaternion unspecified); the model keeps `(pos, rot)` and offers the 4×4 view `toMat`;
`PEval.C18.transform_eq_matmul`, `dot_eq_matmul`, `inv_matmul` state that both views agree.
Frames are `FrameID` member names (strings), as in `PEval.Enums`.
-/
namespace PEval.Transform
open PEval.Enums

/-! ## vectors, quaternions, matrices -/

@[ext] structure V3 where
  x : Rat
  y : Rat
  z : Rat
deriving Repr, DecidableEq

namespace V3
def add (a b : V3) : V3 := ⟨a.x + b.x, a.y + b.y, a.z + b.z⟩
def neg (a : V3) : V3 := ⟨-a.x, -a.y, -a.z⟩
def dot (a b : V3) : Rat := a.x * b.x + a.y * b.y + a.z * b.z
def zero : V3 := ⟨0, 0, 0⟩
instance : Add V3 := ⟨add⟩
instance : Neg V3 := ⟨neg⟩
@[simp] theorem add_x (a b : V3) : (a + b).x = a.x + b.x := rfl
@[simp] theorem add_y (a b : V3) : (a + b).y = a.y + b.y := rfl
@[simp] theorem add_z (a b : V3) : (a + b).z = a.z + b.z := rfl
@[simp] theorem neg_x (a : V3) : (-a).x = -a.x := rfl
@[simp] theorem neg_y (a : V3) : (-a).y = -a.y := rfl
@[simp] theorem neg_z (a : V3) : (-a).z = -a.z := rfl
end V3

/-- quaternion, ordering `(w, x, y, z)` as in pyquaternion -/
@[ext] structure Quat where
  w : Rat
  x : Rat
  y : Rat
  z : Rat
deriving Repr, DecidableEq

namespace Quat
/-- Hamilton product -/
def mul (p q : Quat) : Quat :=
  ⟨p.w * q.w - p.x * q.x - p.y * q.y - p.z * q.z,
   p.w * q.x + p.x * q.w + p.y * q.z - p.z * q.y,
   p.w * q.y - p.x * q.z + p.y * q.w + p.z * q.x,
   p.w * q.z + p.x * q.y - p.y * q.x + p.z * q.w⟩
def conj (q : Quat) : Quat := ⟨q.w, -q.x, -q.y, -q.z⟩
def neg (q : Quat) : Quat := ⟨-q.w, -q.x, -q.y, -q.z⟩
def normSq (q : Quat) : Rat := q.w * q.w + q.x * q.x + q.y * q.y + q.z * q.z
def one : Quat := ⟨1, 0, 0, 0⟩
instance : Mul Quat := ⟨mul⟩
instance : Neg Quat := ⟨neg⟩
@[simp] theorem mul_w (p q : Quat) : (p * q).w = p.w * q.w - p.x * q.x - p.y * q.y - p.z * q.z := rfl
@[simp] theorem mul_x (p q : Quat) : (p * q).x = p.w * q.x + p.x * q.w + p.y * q.z - p.z * q.y := rfl
@[simp] theorem mul_y (p q : Quat) : (p * q).y = p.w * q.y - p.x * q.z + p.y * q.w + p.z * q.x := rfl
@[simp] theorem mul_z (p q : Quat) : (p * q).z = p.w * q.z + p.x * q.y - p.y * q.x + p.z * q.w := rfl
@[simp] theorem neg_w (q : Quat) : (-q).w = -q.w := rfl
@[simp] theorem neg_x (q : Quat) : (-q).x = -q.x := rfl
@[simp] theorem neg_y (q : Quat) : (-q).y = -q.y := rfl
@[simp] theorem neg_z (q : Quat) : (-q).z = -q.z := rfl
end Quat

/-- 3×3 matrix, by rows -/
@[ext] structure Mat3 where
  r0 : V3
  r1 : V3
  r2 : V3
deriving Repr, DecidableEq

def Mat3.mulVec (m : Mat3) (v : V3) : V3 := ⟨m.r0.dot v, m.r1.dot v, m.r2.dot v⟩

/-- homogeneous rotation matrix of a quaternion (= the rotation matrix when `normSq q = 1`;
`normSq q` times a rotation matrix in general) -/
def rotMat (q : Quat) : Mat3 :=
  ⟨⟨q.w * q.w + q.x * q.x - q.y * q.y - q.z * q.z, 2 * (q.x * q.y - q.w * q.z), 2 * (q.x * q.z + q.w * q.y)⟩,
   ⟨2 * (q.x * q.y + q.w * q.z), q.w * q.w - q.x * q.x + q.y * q.y - q.z * q.z, 2 * (q.y * q.z - q.w * q.x)⟩,
   ⟨2 * (q.x * q.z - q.w * q.y), 2 * (q.y * q.z + q.w * q.x), q.w * q.w - q.x * q.x - q.y * q.y + q.z * q.z⟩⟩

/-- action of a quaternion on a point -/
def rotate (q : Quat) (v : V3) : V3 := (rotMat q).mulVec v

/-- row of a 4×4 matrix -/
@[ext] structure V4 where
  a : Rat
  b : Rat
  c : Rat
  d : Rat
deriving Repr, DecidableEq

/-- 4×4 matrix, by rows -/
@[ext] structure Mat4 where
  r0 : V4
  r1 : V4
  r2 : V4
  r3 : V4
deriving Repr, DecidableEq

/-- row vector times matrix -/
def rowMul (r : V4) (m : Mat4) : V4 :=
  ⟨r.a * m.r0.a + r.b * m.r1.a + r.c * m.r2.a + r.d * m.r3.a,
   r.a * m.r0.b + r.b * m.r1.b + r.c * m.r2.b + r.d * m.r3.b,
   r.a * m.r0.c + r.b * m.r1.c + r.c * m.r2.c + r.d * m.r3.c,
   r.a * m.r0.d + r.b * m.r1.d + r.c * m.r2.d + r.d * m.r3.d⟩

/-- ordinary matrix product (`numpy.dot` of two 4×4 arrays) -/
def matMul (m n : Mat4) : Mat4 := ⟨rowMul m.r0 n, rowMul m.r1 n, rowMul m.r2 n, rowMul m.r3 n⟩

def Mat4.one : Mat4 := ⟨⟨1, 0, 0, 0⟩, ⟨0, 1, 0, 0⟩, ⟨0, 0, 1, 0⟩, ⟨0, 0, 0, 1⟩⟩

/-- `__generate_homogeneous_matrix(position, rotation)`: `eye(4)` with the rotation block and the
translation column filled in -/
def matOf (pos : V3) (rot : Quat) : Mat4 :=
  let r := rotMat rot
  ⟨⟨r.r0.x, r.r0.y, r.r0.z, pos.x⟩,
   ⟨r.r1.x, r.r1.y, r.r1.z, pos.y⟩,
   ⟨r.r2.x, r.r2.y, r.r2.z, pos.z⟩,
   ⟨0, 0, 0, 1⟩⟩

/-! ## HomogeneousMatrix -/

/-- `HomogeneousMatrix`: translation, rotation, source and destination frame (member names) -/
structure HM where
  pos : V3
  rot : Quat
  src : String
  dst : String
deriving Repr, DecidableEq

/-- `HomogeneousMatrix(position, rotation, src, dst)`: a frame given as a string goes through
`FrameID.from_value` (`ValueError` for an unknown name), `src` first -/
def HM.mk' (pos : V3) (rot : Quat) (src dst : Arg) : Except String HM := do
  let s ← frameOfArg src
  let d ← frameOfArg dst
  pure ⟨pos, rot, s, d⟩

/-- the attribute `.matrix` -/
def toMat (a : HM) : Mat4 := matOf a.pos a.rot

/-- `__transform_position`: translation column of `self.matrix · [[I, p], [0, 1]]` -/
def transformPos (a : HM) (p : V3) : V3 := rotate a.rot p + a.pos

/-- `__transform_position_and_rotation`: position and rotation of `self.matrix · [[R(r), p], [0, 1]]` -/
def transformPose (a : HM) (pr : V3 × Quat) : V3 × Quat := (transformPos a pr.1, a.rot * pr.2)

/-- `self.dot(other)`: `ValueError` unless `self.src == other.dst`; the matrix product, labelled
`other.src → self.dst` -/
def dot (self other : HM) : Except String HM :=
  if self.src ≠ other.dst then .error "ValueError"
  else .ok ⟨rotate self.rot other.pos + self.pos, self.rot * other.rot, other.src, self.dst⟩

/-- `self.inv()`: inverse rigid motion (for a unit rotation: conjugate quaternion, translation
`-R⁻¹ t`), labels swapped -/
def inv (a : HM) : HM := ⟨-(rotate a.rot.conj a.pos), a.rot.conj, a.dst, a.src⟩

/-- `__transform_matrix(matrix)`: `matrix.dot(self)` -/
def transformHM (a m : HM) : Except String HM := dot m a

/-- what `transform(*args, **kwargs)` was called with.  The last four are the malformed calls the
code rejects (no argument at all; more than two positional arguments; keyword arguments naming
neither `position` nor `matrix`; `position=` together with `matrix=`). -/
inductive TArg where
  | pos (p : V3)
  | pose (p : V3) (r : Quat)
  | mat (m : HM)
  | noArgs
  | tooMany
  | unknownKw
  | posAndMat
deriving Repr, DecidableEq

/-- the exception a malformed call raises (the same in `HomogeneousMatrix.transform` and in the
same-frame branch of `TransformDict.transform`) -/
def TArg.malformed : TArg → Option String
  | .noArgs => some "ValueError"
  | .tooMany => some "ValueError"
  | .unknownKw => some "KeyError"
  | .posAndMat => some "ValueError"
  | _ => none

/-- `HomogeneousMatrix.transform` -/
def HM.transform (a : HM) : TArg → Except String TArg
  | .pos p => .ok (.pos (transformPos a p))
  | .pose p r => let pr := transformPose a (p, r); .ok (.pose pr.1 pr.2)
  | .mat m => (transformHM a m).map .mat
  | .noArgs => .error "ValueError"
  | .tooMany => .error "ValueError"
  | .unknownKw => .error "KeyError"
  | .posAndMat => .error "ValueError"

/-! ## TransformDict -/

/-- the dictionary key of a registered matrix: `TransformKey(mat.src, mat.dst)` -/
def HM.key (m : HM) : String × String := (m.src, m.dst)

/-- `self.__data.get(key)` for `self.__data = {TransformKey(m.src, m.dst): m for m in matrices}`:
a later matrix with the same key overwrites an earlier one, so the *last* match is found -/
def lookup : List HM → String × String → Option HM
  | [], _ => none
  | m :: ms, k =>
    match lookup ms k with
    | some r => some r
    | none => if m.key = k then some m else none

/-- `TransformDict(matrices).transform(key, *args, **kwargs)`; the key is a `TransformKey` or a
pair, each component a `FrameID` member or its name in any case (`ValueError` for an unknown name) -/
def dictTransform (d : List HM) (ksrc kdst : Arg) (x : TArg) : Except String TArg := do
  let k ← transformKey ksrc kdst
  if k.1 = k.2 then
    match x.malformed with
    | some e => .error e
    | none => pure x
  else
    match lookup d (k.1, k.2) with
    | some m => m.transform x
    | none =>
      match lookup d (k.2, k.1) with
      | some m => (inv m).transform x
      | none => .error "KeyError"

/-! ## the other access paths of the registry

`get`, `__getitem__` (and `__contains__` where the class defines it) read their key exactly like
`transform`: a `TransformKey`, or a pair whose components go through `FrameID.from_value` when they
are strings (`ValueError` for an unknown name); then the plain dictionary is asked. -/

/-- `reg.get(key)`: the registered matrix or `None` -/
def dictGet (d : List HM) (ksrc kdst : Arg) : Except String (Option HM) := do
  let k ← transformKey ksrc kdst
  pure (lookup d k)

/-- `reg[key]`: the registered matrix or `KeyError` -/
def dictGetItem (d : List HM) (ksrc kdst : Arg) : Except String HM := do
  let k ← transformKey ksrc kdst
  match lookup d k with
  | some m => pure m
  | none => .error "KeyError"

/-- `key in reg` -/
def dictContains (d : List HM) (ksrc kdst : Arg) : Except String Bool := do
  let k ← transformKey ksrc kdst
  pure (lookup d k).isSome

/-! ## modifying a registry

The registry is a plain dictionary: every query is answered from the contents at the time of the
query.  `reg[TransformKey(m.src, m.dst)] = m` is modelled by appending (`lookup` finds the last
match, so appending overwrites), `del reg[k]` by removing every entry with that key, and
`copy.deepcopy(reg)` by the same list. -/

/-- `reg[(m.src, m.dst)] = m` -/
def dictSet (d : List HM) (m : HM) : List HM := d ++ [m]

/-- the contents after `del reg[k]` -/
def dictErase (d : List HM) (k : String × String) : List HM := d.filter (fun m => decide (m.key ≠ k))

/-- `del reg[k]`: `KeyError` when the key is not registered -/
def dictDel (d : List HM) (k : String × String) : Except String (List HM) :=
  match lookup d k with
  | none => .error "KeyError"
  | some _ => .ok (dictErase d k)

end PEval.Transform
