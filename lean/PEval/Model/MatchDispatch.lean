import PEval.Model.Matching
import PEval.Model.Classification
/-!
# The dispatch at the top of `get_object_results` (`evaluation/result/object_result.py`)

`get_object_results` serves three kinds of objects with one entry point and selects the matcher from
what it reads of the FIRST estimate and the FIRST ground truth:

```
if not estimated_objects: return []
if not ground_truth_objects: return [] if fp_validation else FP results
if   2-D and (est[0].roi is None or gt[0].roi is None) and est[0] label is a TrafficLightLabel -> _get_object_results_for_tlr
elif 2-D and (est[0].roi is None or gt[0].roi is None)                                        -> _get_object_results_with_id
else                                                                                           -> score table + two-stage greedy
```

`ObjX` is an object as this entry point sees it: kind-independent fields (label member value, label
family, frame, uuid) plus `roiNone` (`roi is None`; always `false` for a 3-D box).  `SceneX.is2d` is
`isinstance(estimated_objects[0], DynamicObject2D)` (the `isinstance` assertion makes the first ground
truth the same type).  The geometric matcher is `Matching.getObjectResults` (C01/C02), the two
identity-based matchers are `Classification.pairTlr` / `Classification.pairById` (C11).

Assumption: all labels of one call (estimates, ground truths, target labels) belong to ONE label family
(`AutowareLabel` or `TrafficLightLabel`), so that within the geometric matcher equality of labels is
equality of the member values (`toScene`).
-/
namespace PEval.MatchDispatch
open PEval PEval.Matching

/-- an object as `get_object_results` sees it, whatever its kind -/
structure ObjX where
  /-- `semantic_label.label.value` -/
  label : String
  /-- `isinstance(semantic_label.label, TrafficLightLabel)` -/
  tl : Bool
  frame : String
  uuid : Option String
  /-- `roi is None` (2-D); a 3-D box always carries geometry -/
  roiNone : Bool
  deriving DecidableEq, Repr

structure SceneX where
  /-- `isinstance(estimated_objects[0], DynamicObject2D)` -/
  is2d : Bool
  ests : List ObjX
  gts : List ObjX
  /-- `MatchingMethod(est_i, gt_j).value` (only read on the geometric path) -/
  val : Nat → Nat → Rat

/-- which matcher serves the call -/
inductive Path where
  | tlr | byId | geometric
  deriving DecidableEq, Repr

/-- the `if / elif` at the top of `get_object_results` (after the two early returns) -/
def dispatch (is2d : Bool) (e0 g0 : ObjX) : Path :=
  if is2d && (e0.roiNone || g0.roiNone) && e0.tl then .tlr
  else if is2d && (e0.roiNone || g0.roiNone) then .byId
  else .geometric

/-- what the geometric matcher reads -/
def toObj (o : ObjX) : Obj := ⟨o.label, o.frame⟩

def toScene (sx : SceneX) : Scene :=
  { ests := sx.ests.map toObj, gts := sx.gts.map toObj, val := sx.val }

/-- what the identity-based matchers read; the position in the list is the object's identity -/
def toClsFrom : Nat → List ObjX → List Classification.Obj
  | _, [] => []
  | k, o :: os => ⟨k, o.uuid, ⟨o.tl, o.label⟩, o.frame⟩ :: toClsFrom (k + 1) os

def toCls (os : List ObjX) : List Classification.Obj := toClsFrom 0 os

def clsRes (rs : List Classification.Res) : List Res := rs.map fun r => (r.est.id, r.gt.map (·.id))

/-- every object carries geometry: 3-D boxes, or 2-D objects all of which have a ROI -/
def hasGeometry (sx : SceneX) : Prop :=
  sx.is2d = false ∨ ((∀ o ∈ sx.ests, o.roiNone = false) ∧ (∀ o ∈ sx.gts, o.roiNone = false))

/-- the path taken for a scene with both lists non-empty (`none` = an early return) -/
def pathOf (sx : SceneX) : Option Path :=
  match sx.ests, sx.gts with
  | e0 :: _, g0 :: _ => some (dispatch sx.is2d e0 g0)
  | _, _ => none

/-- `get_object_results` for every kind of object -/
def getObjectResultsX (uuidFirst : Bool) (c : Cfg) (sx : SceneX) : Except Err (List Res) :=
  match sx.ests, sx.gts with
  | [], _ => .ok []
  | _ :: _, [] => .ok (if c.fpValidation then [] else fpResults (List.range sx.ests.length))
  | e0 :: _, g0 :: _ =>
    match dispatch sx.is2d e0 g0 with
    | .tlr => (Classification.pairTlr uuidFirst (toCls sx.ests) (toCls sx.gts)).map clsRes
    | .byId => (Classification.pairById (toCls sx.ests) (toCls sx.gts)).map clsRes
    | .geometric => getObjectResults c (toScene sx)

/-! ## error exits of the matching classes on objects without the geometry the mode needs (audit C01 finding 2)

`get_object_results` selects the matcher from the FIRST estimate and the FIRST ground truth only.  On the geometric path
`_get_score_table` then builds `matching_method_module(estimated_object, ground_truth_object, transforms)` for every
SAME-frame pair, after `get_label_threshold` and before `is_better_than`; the constructor computes the value and raises
when an object lacks what the mode reads (observed on the code, `DynamicObject2D` lists):

| mode | 2-D object with ROI | 2-D object, `roi is None` (either side) |
|---|---|---|
| CENTERDISTANCE | value | `AttributeError` (`None.center`) |
| IOU2D | value | `RuntimeError` (`get_area`: "self.roi is None.") |
| PLANEDISTANCE | `AttributeError` (`get_footprint`) | `AttributeError` |
| IOU3D | `AttributeError` (`get_volume`) | `AttributeError` |

3-D boxes always carry what all four modes read.  `getObjectResultsXE` is `getObjectResultsX` with these exits. -/

/-- the exception raised when the matching method of mode `m` is constructed for the pair `(e, g)` -/
def valueError (is2d : Bool) (m : Mode) (e g : ObjX) : Option Err :=
  if is2d then
    match m with
    | .planeDistance => some "AttributeError"
    | .iou3d => some "AttributeError"
    | .centerDistance => if e.roiNone || g.roiNone then some "AttributeError" else none
    | .iou2d => if e.roiNone || g.roiNone then some "RuntimeError" else none
  else none

/-- body of the double loop of `_get_score_table` with the constructor of the matching method in its place -/
def cellXE (c : Cfg) (is2d : Bool) (e g : ObjX) (v : Rat) : Except Err Cell :=
  if e.frame == g.frame then do
    let thr ← labelThreshold c.targets c.thresholds g.label
    match valueError is2d c.mode e g with
    | some err => throw err
    | none =>
      let ok ← match thr with
        | none => pure true
        | some t => isBetterThan c.mode v t
      if ok then pure ⟨some v, isMatchable c.policy (toObj e) (toObj g)⟩ else pure Cell.nan
  else pure Cell.nan

def cellAtXE (c : Cfg) (sx : SceneX) (i j : Nat) : Except Err Cell :=
  match sx.ests[i]?, sx.gts[j]? with
  | some e, some g => cellXE c sx.is2d e g (sx.val i j)
  | _, _ => .ok Cell.nan

/-- first exception raised while the table is filled (row-major), constructor exits included -/
def tableErrorXE (c : Cfg) (sx : SceneX) : Option Err :=
  (List.range sx.ests.length).findSome? fun i =>
    (List.range sx.gts.length).findSome? fun j =>
      match cellAtXE c sx i j with
      | .error e => some e
      | .ok _ => none

/-- `get_object_results` for every kind of object and every LIST of objects (also lists whose first objects carry a
ROI and a later one does not, and 2-D objects with a 3-D-only mode) -/
def getObjectResultsXE (uuidFirst : Bool) (c : Cfg) (sx : SceneX) : Except Err (List Res) :=
  match sx.ests, sx.gts with
  | [], _ => .ok []
  | _ :: _, [] => .ok (if c.fpValidation then [] else fpResults (List.range sx.ests.length))
  | e0 :: _, g0 :: _ =>
    match dispatch sx.is2d e0 g0 with
    | .tlr => (Classification.pairTlr uuidFirst (toCls sx.ests) (toCls sx.gts)).map clsRes
    | .byId => (Classification.pairById (toCls sx.ests) (toCls sx.gts)).map clsRes
    | .geometric =>
      match tableErrorXE c sx with
      | some e => .error e
      | none => getObjectResults c (toScene sx)

/-! ## label FAMILIES (audit C01 finding 8)

`Label.__eq__` compares enum MEMBERS (`common/label.py`): `AutowareLabel.UNKNOWN != TrafficLightLabel.UNKNOWN` although
both have the value `"unknown"`; `is_fp()` / `is_unknown()` go through `CommonLabel`, which contains the members of BOTH
families; `get_label_threshold` tests `semantic_label.label in target_labels` (member equality).  `Matching.Obj` carries
the member VALUE only, which is exact as long as one call uses one family (the assumption in the header).  The
definitions below carry the family (`ObjX.tl`) and state what the code does for mixed families; `Lemmas/MatchingFamily`
proves that they coincide with the value-only model under the one-family assumption. -/

/-- `is_same_label`: equality of enum members = same family and same value -/
def sameMember (e g : ObjX) : Bool := e.tl == g.tl && e.label == g.label

/-- `MatchingLabelPolicy.is_matchable` on members -/
def isMatchableF (p : Policy) (e g : ObjX) : Bool :=
  if isFp g.label || p == .allowAny then true
  else if p == .allowUnknown then sameMember e g || isUnknown e.label
  else sameMember e g

/-- `get_label_threshold` with target labels as members `(is traffic-light family, value)` -/
def labelThresholdF (targets : Option (List (Bool × String))) (thrs : Option (List Rat)) (g : ObjX) :
    Except Err (Option Rat) :=
  match targets, thrs with
  | none, _ => .ok none
  | some _, none => .ok none
  | some ts, some th =>
    match ts.findIdx? (fun t => t.1 == g.tl && t.2 == g.label) with
    | none => .ok none
    | some k =>
      match th[k]? with
      | some r => .ok (some r)
      | none => .error "IndexError"

/-- one cell of the score table on members -/
def cellF (p : Policy) (m : Mode) (targets : Option (List (Bool × String))) (thrs : Option (List Rat))
    (e g : ObjX) (v : Rat) : Except Err Cell :=
  if e.frame == g.frame then do
    let thr ← labelThresholdF targets thrs g
    let ok ← match thr with
      | none => pure true
      | some t => isBetterThan m v t
    if ok then pure ⟨some v, isMatchableF p e g⟩ else pure Cell.nan
  else pure Cell.nan

end PEval.MatchDispatch
