import PEval.Model.Matching
import PEval.Model.Classification
/-!
# The dispatch at the top of `get_object_results` (`evaluation/result/object_result.py`)

`get_object_results` serves three kinds of objects with one entry point and selects the matcher from
what it reads of the FIRST estimate and the FIRST ground truth:

```
if not estimated_objects: return []
if not ground_truth_objects: return [] if fp_validation else FP results
if   2-D and (est[0].roi is None or gt[0].roi is None) and est[0] label is a TrafficLightLabel -> _get_object_results_for_tlr
elif 2-D and (est[0].roi is None or gt[0].roi is None)                                        -> _get_object_results_with_id
else                                                                                           -> score table + two-stage greedy
```

`ObjX` is an object as this entry point sees it: kind-independent fields (label member value, label
family, frame, uuid) plus `roiNone` (`roi is None`; always `false` for a 3-D box).  `SceneX.is2d` is
`isinstance(estimated_objects[0], DynamicObject2D)` (the `isinstance` assertion makes the first ground
truth the same type).  The geometric matcher is `Matching.getObjectResults` (C01/C02), the two
identity-based matchers are `Classification.pairTlr` / `Classification.pairById` (C11).

Assumption: all labels of one call (estimates, ground truths, target labels) belong to ONE label family
(`AutowareLabel` or `TrafficLightLabel`), so that within the geometric matcher equality of labels is
equality of the member values (`toScene`).
-/
namespace PEval.MatchDispatch
open PEval PEval.Matching

/-- an object as `get_object_results` sees it, whatever its kind -/
structure ObjX where
  /-- `semantic_label.label.value` -/
  label : String
  /-- `isinstance(semantic_label.label, TrafficLightLabel)` -/
  tl : Bool
  frame : String
  uuid : Option String
  /-- `roi is None` (2-D); a 3-D box always carries geometry -/
  roiNone : Bool
  deriving DecidableEq, Repr

structure SceneX where
  /-- `isinstance(estimated_objects[0], DynamicObject2D)` -/
  is2d : Bool
  ests : List ObjX
  gts : List ObjX
  /-- `MatchingMethod(est_i, gt_j).value` (only read on the geometric path) -/
  val : Nat → Nat → Rat

/-- which matcher serves the call -/
inductive Path where
  | tlr | byId | geometric
  deriving DecidableEq, Repr

/-- the `if / elif` at the top of `get_object_results` (after the two early returns) -/
def dispatch (is2d : Bool) (e0 g0 : ObjX) : Path :=
  if is2d && (e0.roiNone || g0.roiNone) && e0.tl then .tlr
  else if is2d && (e0.roiNone || g0.roiNone) then .byId
  else .geometric

/-- what the geometric matcher reads -/
def toObj (o : ObjX) : Obj := ⟨o.label, o.frame⟩

def toScene (sx : SceneX) : Scene :=
  { ests := sx.ests.map toObj, gts := sx.gts.map toObj, val := sx.val }

/-- what the identity-based matchers read; the position in the list is the object's identity -/
def toClsFrom : Nat → List ObjX → List Classification.Obj
  | _, [] => []
  | k, o :: os => ⟨k, o.uuid, ⟨o.tl, o.label⟩, o.frame⟩ :: toClsFrom (k + 1) os

def toCls (os : List ObjX) : List Classification.Obj := toClsFrom 0 os

def clsRes (rs : List Classification.Res) : List Res := rs.map fun r => (r.est.id, r.gt.map (·.id))

/-- every object carries geometry: 3-D boxes, or 2-D objects all of which have a ROI -/
def hasGeometry (sx : SceneX) : Prop :=
  sx.is2d = false ∨ ((∀ o ∈ sx.ests, o.roiNone = false) ∧ (∀ o ∈ sx.gts, o.roiNone = false))

/-- the path taken for a scene with both lists non-empty (`none` = an early return) -/
def pathOf (sx : SceneX) : Option Path :=
  match sx.ests, sx.gts with
  | e0 :: _, g0 :: _ => some (dispatch sx.is2d e0 g0)
  | _, _ => none

/-- `get_object_results` for every kind of object -/
def getObjectResultsX (uuidFirst : Bool) (c : Cfg) (sx : SceneX) : Except Err (List Res) :=
  match sx.ests, sx.gts with
  | [], _ => .ok []
  | _ :: _, [] => .ok (if c.fpValidation then [] else fpResults (List.range sx.ests.length))
  | e0 :: _, g0 :: _ =>
    match dispatch sx.is2d e0 g0 with
    | .tlr => (Classification.pairTlr uuidFirst (toCls sx.ests) (toCls sx.gts)).map clsRes
    | .byId => (Classification.pairById (toCls sx.ests) (toCls sx.gts)).map clsRes
    | .geometric => getObjectResults c (toScene sx)

end PEval.MatchDispatch
