import PEval.Model.Heading
import PEval.Model.Transform
/-!
# Headings at the quaternion level (C09, clause "not on the sign convention of the quaternion")

`PEval.Model.Heading` takes the yaw `τ` (half-turns) as its input, so it cannot say anything about the two
representatives `q` and `−q` of one orientation.  This file adds the layer below it.

The repaired code reads an orientation only through `pyquaternion.Quaternion.yaw_pitch_roll[0]`:
```
self._normalise()
yaw = np.arctan2(2 * (q[0]*q[3] - q[1]*q[2]),  1 - 2 * (q[2]**2 + q[3]**2))
```
Both arguments of `arctan2` are *polynomials* in the components: `yawDir q` is that pair, written as
`(c, s) = (second argument, first argument)`; for a unit quaternion it is `cos(pitch) · (cos yaw, sin yaw)`, and for a
pure-yaw unit quaternion `(w, 0, 0, z)` it is the double-angle pair `(w² − z², 2wz) = (cos yaw, sin yaw)`: no `atan2`
is needed to speak about the heading *direction*.

`arctan2` itself (a float function of numpy) is a parameter `at2 : Rat → Rat → Rat` of the quaternion-level
functions (`yawVia`, `aphWeightQ`, `headingErrorQ`, `analyzerYawErrorQ`): every statement proved for all `at2` holds
for whatever `arctan2` computes.

The pre-fix behaviour F3 (`orientation.radians`, seeded again as C09_G) is `radiansDir` / `radiansVia`:
`angle = wrap(2·atan2(‖v‖, w))`, whose direction is `(w² − ‖v‖², 2·w·‖v‖)`; for a pure-yaw quaternion `‖v‖ = |z|`.
-/
namespace PEval.Heading
open PEval.Transform

/-- a heading direction: `(cos, sin)` of an angle, possibly scaled (`c² + s² = cos² pitch` for `yawDir`) -/
structure Dir where
  c : Rat
  s : Rat
deriving Repr, DecidableEq

/-- the two arguments of `np.arctan2` in `Quaternion.yaw_pitch_roll[0]` (`c` = second argument, `s` = first) -/
def yawDir (q : Quat) : Dir := ⟨1 - 2 * (q.y * q.y + q.z * q.z), 2 * (q.w * q.z - q.x * q.y)⟩

/-- pure-yaw unit quaternion `(cos(yaw/2), 0, 0, sin(yaw/2))` or its negative -/
def YawOnly (q : Quat) : Prop := q.x = 0 ∧ q.y = 0 ∧ q.normSq = 1

instance (q : Quat) : Decidable (YawOnly q) := by unfold YawOnly; infer_instance

def Dir.OnCircle (d : Dir) : Prop := d.c * d.c + d.s * d.s = 1

instance (d : Dir) : Decidable d.OnCircle := by unfold Dir.OnCircle; infer_instance

/-- composing planar rotations = multiplying unit complex numbers -/
def Dir.mul (a b : Dir) : Dir := ⟨a.c * b.c - a.s * b.s, a.c * b.s + a.s * b.c⟩

/-- the opposite direction (a half turn away) -/
def Dir.opp (a : Dir) : Dir := ⟨-a.c, -a.s⟩

/-- `cos` of the angle between two directions on the circle (dot product) -/
def cosDiff (a b : Dir) : Rat := a.c * b.c + a.s * b.s

/-- `sin` of the angle from `a` to `b` (cross product); its sign is the sign of the signed minimal yaw difference -/
def sinDiff (a b : Dir) : Rat := a.c * b.s - a.s * b.c

/-! ## the code's yaw, with numpy's `arctan2` as a parameter -/

/-- `yaw_pitch_roll[0] / π` of a unit quaternion, `at2 y x` standing for `np.arctan2(y, x) / π` -/
def yawVia (at2 : Rat → Rat → Rat) (q : Quat) : Rat := at2 (yawDir q).s (yawDir q).c

/-- `TPMetricsAph.get_value` for a pair given by its quaternions (both objects in `BASE_LINK`) -/
def aphWeightQ (at2 : Rat → Rat → Rat) (qe qg : Quat) : Rat := aphWeight (yawVia at2 qe) (yawVia at2 qg)

/-- `heading_error[2] / π` for a pair given by its quaternions -/
def headingErrorQ (at2 : Rat → Rat → Rat) (qe qg : Quat) : Rat := headingError (yawVia at2 qe) (yawVia at2 qg)

/-- the analyzer's yaw error column for a pair given by its quaternions -/
def analyzerYawErrorQ (at2 : Rat → Rat → Rat) (qe qg : Quat) : Rat :=
  analyzerYawError (yawVia at2 qe) (yawVia at2 qg)

/-- the pair rendered in the map frame: both orientations left-multiplied by the ego rotation `q0` (what
`TransformDict.transform` does with the orientation), then read through `yaw_pitch_roll` -/
def aphWeightQMap (at2 : Rat → Rat → Rat) (q0 qe qg : Quat) : Rat := aphWeightQ at2 (q0 * qe) (q0 * qg)

/-! ## the pre-fix behaviour (F3, seed C09_G): `orientation.radians` -/

/-- direction `(cos, sin)` of `Quaternion.angle = wrap(2·atan2(‖v‖, w))` for a pure-yaw unit quaternion
(`‖v‖ = |z|`; double-angle formulas with `cos φ = w`, `sin φ = |z|`) -/
def radiansDir (q : Quat) : Dir := ⟨q.w * q.w - q.z * q.z, 2 * q.w * absR q.z⟩

/-- `orientation.radians / π` for a pure-yaw unit quaternion: `wrap(2 · atan2(|z|, w))`, pyquaternion's `_wrap_angle`
sending odd multiples of π to `+π`; the argument `2·atan2 ∈ [0, 2]` -/
def radiansVia (at2 : Rat → Rat → Rat) (q : Quat) : Rat :=
  let θ := 2 * at2 (absR q.z) q.w
  if θ > 1 then θ - 2 else θ

/-- the APH weight of the ego-frame branch before the repair -/
def aphWeightQF3 (at2 : Rat → Rat → Rat) (qe qg : Quat) : Rat := aphWeight (radiansVia at2 qe) (radiansVia at2 qg)

/-! ## the bridge between directions and half-turn angles

The τ-model computes with angles, the quaternion layer with directions.  What links them is the angle function
`arg (c, s) = atan2(s, c) / π` together with `arccos`.  Over `ℚ` the angle function cannot be defined on the whole
circle (a rational point of the circle has a rational angle in half-turns only on the axes: Niven), so the link is a
hypothesis about the function `at2` the code uses, restricted to the set `pts` of directions a statement is about.  It is
the ONE assumption of this layer and collects exactly the facts about `arctan2`/`cos`/`sin` that are not polynomial:

* `on_circle`: (no assumption, a restriction of `pts`) the directions in play are unit vectors;
* `dom`: `atan2(s, c)/π ∈ (−1, 1]`;
* `dist`: the minimal yaw difference `d/π ∈ [0, 1]` of two directions is `ac (a · b)`, a function of the cosine of the
  angle between them (`ac x = arccos x / π`) …
* `ac_anti`, `ac_one`, `ac_neg_one`: … which is strictly decreasing on `[−1, 1]` from `ac 1 = 0` to `ac (−1) = 1`;
* `sin_sign`: the wrapped difference `angle b − angle a` lies strictly between `0` and `π` exactly when the cross product
  is positive (`sin e > 0 ⇔ 0 < e < π`).

`PEval.C09.yawBridge_axes` instantiates it (the four axis directions with their exact angles); over `ℝ` the facts are
`Complex.arg_cos_add_sin_mul_I`, `Real.strictAntiOn_cos`, `Real.sin_pos_of_pos_of_lt_pi` of Mathlib. -/
structure YawBridge (at2 : Rat → Rat → Rat) (ac : Rat → Rat) (pts : Dir → Prop) : Prop where
  on_circle : ∀ a, pts a → a.OnCircle
  dom : ∀ a, pts a → InDom (at2 a.s a.c)
  dist : ∀ a b, pts a → pts b → circDist (at2 a.s a.c) (at2 b.s b.c) = ac (cosDiff a b)
  ac_anti : ∀ x y, -1 ≤ x → x < y → y ≤ 1 → ac y < ac x
  ac_one : ac 1 = 0
  ac_neg_one : ac (-1) = 1
  sin_sign : ∀ a b, pts a → pts b →
    ((0 < clip (at2 b.s b.c - at2 a.s a.c) ∧ clip (at2 b.s b.c - at2 a.s a.c) < 1) ↔ 0 < sinDiff a b)

/-- `arctan2(y, x)/π`, exact on the four half-axes (`0`, `1/2`, `1`, `−1/2`); off the axes the value of the quadrant's
first axis (any value would do there: the instance `yawBridge_axes` only speaks about the axes) -/
def at2Axes (y x : Rat) : Rat :=
  if y = 0 then (if x < 0 then 1 else 0) else if y > 0 then 1/2 else -1/2

/-- the four axis directions -/
def axisPts : List Dir := [⟨1, 0⟩, ⟨0, 1⟩, ⟨-1, 0⟩, ⟨0, -1⟩]

/-- `arccos x / π` is `(1 − x)/2` at `x ∈ {1, 0, −1}` -/
def acAxes (x : Rat) : Rat := (1 - x) / 2

/-- the representative of an orientation: `q` or `−q` -/
def withSign (neg : Bool) (q : Quat) : Quat := if neg then -q else q

end PEval.Heading
