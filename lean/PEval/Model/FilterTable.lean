import PEval.Model.DTree
import PEval.Model.Filter
/-!
# The decision skeleton of `_is_target_object` over abstract atoms (C10, decision-table translator)

`isTargetTree` is the hand-written decision skeleton of the model `PEval.Filter.isTarget`, over the atoms that the
translator (`harness/dt_c10.py`) lets the REAL `_is_target_object` see when it runs it on symbolic inputs; the
numbering of the atoms is the one of the Python registry (`B_ATOMS`, `C_ATOMS`, `EXC_CODE` there). `valuationOf P o`
computes the atoms of a concrete model input; `isTarget_eq_tree` (in `Lemmas/FilterTable.lean`) shows
`isTarget P o = (eval isTargetTree (valuationOf P o)).toExcept` for all inputs.

The generated table `PEval.Gen.IsTarget.tree` is compared with `isTargetTree` by `PEval.DT.agree` (complete over the
finite decision space, kernel-evaluated) in `Properties/C10.lean`.
-/
namespace PEval.FilterTable
open PEval PEval.DT PEval.Filter

/-! ## atom numbering (Boolean atoms) -/
def aFp : Nat := 0
def aUnknown : Nat := 1
def aIsGt : Nat := 2
def aTargetsNone : Nat := 3
def aTargetsEmpty : Nat := 4
def aHasUnknown : Nat := 5
def aLabelIn : Nat := 6
def aIgnoreNone : Nat := 7
def aAttrHit : Nat := 8
def aTfNone : Nat := 9
def aFrameBl : Nat := 10
def aPosNone : Nat := 11
def aIs2d : Nat := 12
def aTfMissing : Nat := 13
def aPcNone : Nat := 14
def aUuidsNone : Nat := 15
def aUuidIn : Nat := 16

/-- the three Boolean atoms of a per-label list: `is None`, shorter than the label's index, `== []` -/
structure LA where
  none : Nat
  short : Nat
  empty : Nat

def laConf : LA := ⟨17, 18, 19⟩
def laMaxX : LA := ⟨20, 21, 22⟩
def laMaxY : LA := ⟨23, 24, 25⟩
def laMaxD : LA := ⟨26, 27, 28⟩
def laMinD : LA := ⟨29, 30, 31⟩
def laPts : LA := ⟨32, 33, 34⟩

/-! order atoms: `compare first second` of the canonical (sorted) pair of term names -/
/-- `cmp(conf[label]|score)` -/
def cConf : Nat := 0
/-- `cmp(0|score)` -/
def cConf0 : Nat := 1
/-- position-dependent order atoms start at 2 for `pos` (state.position) and at 10 for `tf(pos)`:
+0 `cmp(abs(p.x)|maxx[label])`, +1 `…|mean(maxx)`, +2/+3 y, +4/+5 `cmp(dist(p)|maxd[label])`/mean, +6/+7 mind -/
def cBase (tf : Bool) : Nat := if tf then 10 else 2
/-- `cmp(pc|pts[label])` -/
def cPts : Nat := 18
/-- `cmp(0|pc)` -/
def cPts0 : Nat := 19

/-! exception kinds -/
def eType : Nat := 1
def eIndex : Nat := 2
def eAssert : Nat := 3
def eAttr : Nat := 4
def eKey : Nat := 5
def eValue : Nat := 6

def errCode (e : Err) : Nat :=
  if e = "TypeError" then 1 else if e = "IndexError" then 2 else if e = "AssertionError" then 3
  else if e = "AttributeError" then 4 else if e = "KeyError" then 5 else if e = "ValueError" then 6 else 99

def errName (e : Nat) : Err :=
  match e with
  | 1 => "TypeError" | 2 => "IndexError" | 3 => "AssertionError" | 4 => "AttributeError" | 5 => "KeyError"
  | 6 => "ValueError" | _ => "?"

/-- a table result as a model result -/
def toExcept : DT.Res → Option (Except Err Bool)
  | .ret b => some (.ok b)
  | .raise e => some (.error (errName e))
  | _ => none

/-- jointly unrealisable decisions excluded from the comparison (FORBIDDEN in harness/dt_c10.py): none are needed,
table and skeleton agree on every valuation -/
def forbidden : List (List Lit) := []

/-! ## the skeleton, stage by stage (continuation-passing; mirrors `PEval.Filter.isTarget`) -/

/-- `use_unknown_threshold` -/
def tUse (k : Bool → DTree) : DTree :=
  askB aUnknown fun un => if !un then k false else
  askB aIsGt fun g => if g then k false else
  askB aTargetsNone fun tn => if tn then k true else
  askB aHasUnknown fun hu => k (!hu)

/-- `stageLabel` -/
def tLabel (u : Bool) (k : Bool → DTree) : DTree :=
  askB aTargetsNone fun tn => if tn then k true else
  askB aTargetsEmpty fun te => if te then k true else
  if u then k true else askB aLabelIn fun li => k li

/-- `stageAttr` -/
def tAttr (u ok : Bool) (k : Bool → DTree) : DTree :=
  askB aIgnoreNone fun n => if n then k ok else
  if u then k ok else askB aAttrHit fun h => k (ok && !h)

/-- the per-label entry (`bound` for a non-relaxed object): TypeError when `get_label_threshold` answers None,
IndexError when the list is too short -/
def tEntry (la : LA) (k : DTree) : DTree :=
  askB aTargetsNone fun tn => if tn then .leaf (.raise eType) else
  askB aLabelIn fun li => if !li then .leaf (.raise eType) else
  askB la.short fun sh => if sh then .leaf (.raise eIndex) else k

/-- `stage`: a numeric criterion against the per-label entry (order atom `cL`) or, relaxed, against the special
bound (order atom `cU`; `nan`: the special bound is `np.mean`, nan on an empty list) -/
def tStage (u ok : Bool) (la : LA) (cL cU : Nat) (nan : Bool) (pass : Ordering → Bool) (k : Bool → DTree) : DTree :=
  if !ok then k ok else
  askB la.none fun isNone => if isNone then k ok else
  if u then
    (if nan then askB la.empty fun em => if em then k false else askC cU fun o => k (pass o)
     else askC cU fun o => k (pass o))
  else tEntry la (askC cL fun o => k (pass o))

/-- `position`: `none` no ego-relative position, `some false` the object's own position, `some true` the transformed one -/
def tPosition (k : Option Bool → DTree) : DTree :=
  askB aTfNone fun tn =>
    if tn then
      askB aFrameBl fun bl =>
        if bl then askB aPosNone fun pn =>
          if pn then askB aIs2d fun d => .leaf (.raise (if d then eAssert else eType)) else k (some false)
        else k none
    else
      askB aPosNone fun pn => if pn then k none else
      askB aFrameBl fun bl => if bl then k (some false) else
      askB aTfMissing fun ms => if ms then .leaf (.raise eKey) else k (some true)

/-- after the threshold lookup of `stagePts`: the attribute access, then the comparison -/
def tPc (hasBound : Bool) (c : Nat) (pass : Ordering → Bool) (k : Bool → DTree) : DTree :=
  askB aIs2d fun d => if d then .leaf (.raise eAttr) else
  if !hasBound then .leaf (.raise eType) else
  askB aPcNone fun pn => if pn then .leaf (.raise eType) else askC c fun o => k (pass o)

/-- `stagePts` -/
def tPts (u ok : Bool) (k : Bool → DTree) : DTree :=
  if !ok then k ok else
  askB aIsGt fun g => if !g then k ok else
  askB laPts.none fun pn => if pn then k ok else
  if u then tPc true cPts0 (fun o => o != .gt) k
  else
    askB aTargetsNone fun tn => if tn then tPc false cPts (fun o => o != .lt) k else
    askB aLabelIn fun li => if !li then tPc false cPts (fun o => o != .lt) k else
    askB laPts.short fun sh => if sh then .leaf (.raise eIndex) else tPc true cPts (fun o => o != .lt) k

/-- `stageRange` -/
def tRange (u ok : Bool) (pos : Option Bool) (k : Bool → DTree) : DTree :=
  match pos with
  | none => k ok
  | some tf =>
    let c := cBase tf
    tStage u ok laMaxX c (c + 1) true (· == .lt) fun ok1 =>
    tStage u ok1 laMaxY (c + 2) (c + 3) true (· == .lt) fun ok2 =>
    tStage u ok2 laMaxD (c + 4) (c + 5) true (· == .lt) fun ok3 =>
    tStage u ok3 laMinD (c + 6) (c + 7) true (· == .gt) fun ok4 =>
    tPts u ok4 k

/-- `stageUuid` -/
def tUuid (ok : Bool) (k : Bool → DTree) : DTree :=
  if !ok then k ok else
  askB aIsGt fun g => if !g then k ok else
  askB aUuidsNone fun n => if n then k ok else
  askB aUuidIn fun i => k i

/-- `_is_target_object` over the atoms -/
def isTargetTree : DTree :=
  askB aFp fun fp => if fp then .leaf (.ret true) else
  tUse fun u =>
  tLabel u fun ok0 =>
  tAttr u ok0 fun ok1 =>
  tStage u ok1 laConf cConf cConf0 false (· == .lt) fun ok2 =>
  tPosition fun pos =>
  tRange u ok2 pos fun ok3 =>
  tUuid ok3 fun ok4 => .leaf (.ret ok4)

/-- the skeleton as a function of the valuation -/
def isTargetAtoms (v : Val) : DT.Res := eval isTargetTree v

/-! ## readings the property text leaves open

C10: "… whose confidence (estimates) or point count and uuid (ground truth) satisfy that label's thresholds, with the
documented relaxations: false-positive-labelled objects always pass and unknown-labelled estimates are judged against the
mean bounds when unknown is not a target." The text does not say
* whether a GROUND TRUTH's own confidence is compared with the confidence threshold (`gtConf`; today's code: yes),
* whether `target_labels == []` means "no label criterion" or "nothing is targeted" (`emptyAll`; today: no criterion),
* whether the confidence bound of a relaxed unknown estimate is 0 or the mean of the list (`relaxedMean`; today: 0).
`isTargetTreeR r` is the skeleton under reading `r`; `isTargetTreeR today = isTargetTree` by `rfl`. The per-run obligation
(`Properties/C10.lean`) asks the code's table to equal the skeleton of ONE of the eight readings; which exception CLASS a
rejected input raises is not compared either (`canonRes`: the translator records every exception as `raise:Rejected`). -/

structure Reading where
  gtConf : Bool
  emptyAll : Bool
  relaxedMean : Bool
deriving DecidableEq, Repr

def today : Reading := ⟨true, true, false⟩

def readings : List Reading :=
  [today, ⟨false, true, false⟩, ⟨true, false, false⟩, ⟨true, true, true⟩, ⟨false, false, false⟩, ⟨false, true, true⟩,
   ⟨true, false, true⟩, ⟨false, false, true⟩]

/-- `cmp(mean(conf)|score)`: only read under `relaxedMean` -/
def cConfMean : Nat := 20

/-- the one code of "the input is rejected with an exception" (`EXC_CODE` in harness/dt_c10.py) -/
def eRejected : Nat := 0

def canonRes : DT.Res → DT.Res
  | .raise _ => .raise eRejected
  | r => r

def mapRes (f : DT.Res → DT.Res) : DTree → DTree
  | .leaf r => .leaf (f r)
  | .bnode a n y => .bnode a (mapRes f n) (mapRes f y)
  | .cnode a l e g => .cnode a (mapRes f l) (mapRes f e) (mapRes f g)

theorem eval_mapRes (f : DT.Res → DT.Res) (t : DTree) (v : Val) : eval (mapRes f t) v = f (eval t v) := by
  induction t with
  | leaf r => rfl
  | bnode a n y ihn ihy => simp only [mapRes, eval]; cases v.b a <;> simp [ihn, ihy]
  | cnode a l e g ihl ihe ihg => simp only [mapRes, eval]; cases v.c a <;> simp [ihl, ihe, ihg]

/-- `stageLabel` under a reading -/
def tLabelR (r : Reading) (u : Bool) (k : Bool → DTree) : DTree :=
  askB aTargetsNone fun tn => if tn then k true else
  if r.emptyAll then
    askB aTargetsEmpty fun te => if te then k true else
    if u then k true else askB aLabelIn fun li => k li
  else
    if u then k true else askB aLabelIn fun li => k li

/-- the confidence stage under a reading -/
def tConfR (r : Reading) (u ok : Bool) (k : Bool → DTree) : DTree :=
  let st : DTree :=
    if r.relaxedMean then tStage u ok laConf cConf cConfMean true (· == .lt) k
    else tStage u ok laConf cConf cConf0 false (· == .lt) k
  if r.gtConf then st else
  if !ok then k ok else askB aIsGt fun g => if g then k ok else st

/-- substitute trees for the leaves of a tree -/
def bindT : DTree → (DT.Res → DTree) → DTree
  | .leaf r, f => f r
  | .bnode a n y, f => .bnode a (bindT n f) (bindT y f)
  | .cnode a l e g, f => .cnode a (bindT l f) (bindT e f) (bindT g f)

theorem eval_bindT (t : DTree) (f : DT.Res → DTree) (v : Val) : eval (bindT t f) v = eval (f (eval t v)) v := by
  induction t with
  | leaf r => rfl
  | bnode a n y ihn ihy => simp only [bindT, eval]; cases v.b a <;> simp [ihn, ihy]
  | cnode a l e g ihl ihe ihg => simp only [bindT, eval]; cases v.c a <;> simp [ihl, ihe, ihg]

/-- what the head hands to the tail: `use_unknown_threshold` and `is_target` after the confidence stage -/
def encUO (u ok : Bool) : DT.Res := .other ((if u then 2 else 0) + (if ok then 1 else 0))

/-- the stages on which the readings differ (label, attributes, confidence); the leaves are the final results reached
there (`ret true` of an FP label, the exceptions of the confidence stage) or `encUO u ok2` -/
def headR (r : Reading) : DTree :=
  askB aFp fun fp => if fp then .leaf (.ret true) else
  tUse fun u =>
  tLabelR r u fun ok0 =>
  tAttr u ok0 fun ok1 =>
  tConfR r u ok1 fun ok2 => .leaf (encUO u ok2)

/-- the stages common to all readings (position, ranges, point count, uuid) -/
def tailT (u ok2 : Bool) : DTree :=
  tPosition fun pos =>
  tRange u ok2 pos fun ok3 =>
  tUuid ok3 fun ok4 => .leaf (.ret ok4)

def tailOf : DT.Res → DTree
  | .other 0 => tailT false false
  | .other 1 => tailT false true
  | .other 2 => tailT true false
  | .other 3 => tailT true true
  | r => .leaf r

/-- `_is_target_object` over the atoms under a reading of the open points -/
def isTargetTreeR (r : Reading) : DTree := bindT (headR r) tailOf

/-- the valuations on which the readings part ways (an OVER-approximation, as conjunctions of atom values):
ground truth with a confidence list whose comparison fails or whose per-label entry is missing; an empty target list;
a relaxed unknown estimate for which 0 and the mean of the confidence list decide differently -/
def openValuations : List (List Lit) :=
  [[.b aIsGt true, .b laConf.none false, .c cConf .eq],
   [.b aIsGt true, .b laConf.none false, .c cConf .gt],
   [.b aIsGt true, .b laConf.none false, .b aTargetsNone true],
   [.b aIsGt true, .b laConf.none false, .b laConf.short true],
   [.b aTargetsEmpty true],
   [.b aUnknown true, .b aIsGt false, .b laConf.none false, .c cConf0 .lt, .b laConf.empty true],
   [.b aUnknown true, .b aIsGt false, .b laConf.none false, .c cConf0 .lt, .c cConfMean .eq],
   [.b aUnknown true, .b aIsGt false, .b laConf.none false, .c cConf0 .lt, .c cConfMean .gt],
   [.b aUnknown true, .b aIsGt false, .b laConf.none false, .c cConf0 .eq, .b laConf.empty false, .c cConfMean .lt],
   [.b aUnknown true, .b aIsGt false, .b laConf.none false, .c cConf0 .gt, .b laConf.empty false, .c cConfMean .lt]]

/-- atoms whose decisions the checker records when it compares two readings outside `openValuations` (every atom named
there, plus the atoms a skeleton re-reads); the list is shared by Boolean and order atoms -/
def openSticky : List Nat :=
  [aIsGt, aTargetsNone, aLabelIn, aTargetsEmpty, aUnknown, laConf.none, laConf.short, laConf.empty, cConf, cConf0, cConfMean]

/-! ## the atoms of a concrete model input -/

def cmpR (a b : Rat) : Ordering := if a < b then .lt else if a = b then .eq else .gt
def cmpI (a b : Int) : Ordering := if a < b then .lt else if a = b then .eq else .gt
/-- `hypot ? t` on the squared distance -/
def cmpDist (d2 t : Rat) : Ordering := if t < 0 then .gt else cmpR d2 (t * t)

/-- index of the object's label among the targets -/
def labelIdx (P : Params) (o : Obj) : Option Nat :=
  match P.targets with
  | some ts => indexOf? o.label ts
  | none => none

def isShort {α} (P : Params) (o : Obj) (l? : Option (List α)) : Bool :=
  match l?, labelIdx P o with
  | some l, some i => l[i]?.isNone
  | _, _ => false

def entryR (P : Params) (o : Obj) (l? : Option (List Rat)) : Rat :=
  match l?, labelIdx P o with
  | some l, some i => l[i]?.getD 0
  | _, _ => 0

def entryI (P : Params) (o : Obj) (l? : Option (List Int)) : Int :=
  match l?, labelIdx P o with
  | some l, some i => l[i]?.getD 0
  | _, _ => 0

def isEmptyL {α} : Option (List α) → Bool
  | some [] => true
  | _ => false

def meanR (l? : Option (List Rat)) : Rat :=
  match l? with
  | some l => (mean l).getD 0
  | none => 0

def posOf (tf : Bool) (o : Obj) : Pos := ((if tf then o.egoPos else o.pos).getD ⟨0, 0⟩)

def valB (P : Params) (o : Obj) (a : Nat) : Bool :=
  match a with
  | 0 => isFP o.label
  | 1 => isUnknown o.label
  | 2 => P.isGt
  | 3 => P.targets.isNone
  | 4 => isEmptyL P.targets
  | 5 => (match P.targets with | some ts => ts.any isUnknown | none => false)
  | 6 => (labelIdx P o).isSome
  | 7 => P.ignoreAttrs.isNone
  | 8 => (match P.ignoreAttrs with | some ks => containsAny o ks | none => false)
  | 9 => !P.hasTransforms
  | 10 => o.frame == "base_link"
  | 11 => o.pos.isNone
  | 12 => o.is2d
  | 13 => o.egoPos.isNone
  | 14 => o.pcNum.isNone
  | 15 => P.uuids.isNone
  | 16 => (match P.uuids, o.uuid with | some us, some u => us.contains u | _, _ => false)
  | 17 => P.conf.isNone | 18 => isShort P o P.conf | 19 => isEmptyL P.conf
  | 20 => P.maxX.isNone | 21 => isShort P o P.maxX | 22 => isEmptyL P.maxX
  | 23 => P.maxY.isNone | 24 => isShort P o P.maxY | 25 => isEmptyL P.maxY
  | 26 => P.maxDist.isNone | 27 => isShort P o P.maxDist | 28 => isEmptyL P.maxDist
  | 29 => P.minDist.isNone | 30 => isShort P o P.minDist | 31 => isEmptyL P.minDist
  | 32 => P.minPts.isNone | 33 => isShort P o P.minPts | 34 => isEmptyL P.minPts
  | _ => false

def valCPos (P : Params) (o : Obj) (tf : Bool) (i : Nat) : Ordering :=
  let p := posOf tf o
  match i with
  | 0 => cmpR (absR p.x) (entryR P o P.maxX)
  | 1 => cmpR (absR p.x) (meanR P.maxX)
  | 2 => cmpR (absR p.y) (entryR P o P.maxY)
  | 3 => cmpR (absR p.y) (meanR P.maxY)
  | 4 => cmpDist p.d2 (entryR P o P.maxDist)
  | 5 => cmpDist p.d2 (meanR P.maxDist)
  | 6 => cmpDist p.d2 (entryR P o P.minDist)
  | 7 => cmpDist p.d2 (meanR P.minDist)
  | _ => .eq

def valC (P : Params) (o : Obj) (a : Nat) : Ordering :=
  match a with
  | 0 => cmpR (entryR P o P.conf) o.score
  | 1 => cmpR 0 o.score
  | 20 => cmpR (meanR P.conf) o.score
  | 18 => cmpI (o.pcNum.getD 0) (entryI P o P.minPts)
  | 19 => cmpI 0 (o.pcNum.getD 0)
  | a => if 2 ≤ a ∧ a < 10 then valCPos P o false (a - 2) else if 10 ≤ a ∧ a < 18 then valCPos P o true (a - 10) else .eq

/-- the valuation of the atoms determined by a concrete model input -/
def valuationOf (P : Params) (o : Obj) : Val := ⟨valB P o, valC P o⟩

end PEval.FilterTable
