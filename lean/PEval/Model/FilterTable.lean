import PEval.Model.DTree
import PEval.Model.Filter
/-!
# The decision skeleton of `_is_target_object` over abstract atoms (C10, decision-table translator)

`isTargetTree` is the hand-written decision skeleton of the model `PEval.Filter.isTarget`, over the atoms that the
translator (`harness/dt_c10.py`) lets the REAL `_is_target_object` see when it runs it on symbolic inputs; the
numbering of the atoms is the one of the Python registry (`B_ATOMS`, `C_ATOMS`, `EXC_CODE` there). `valuationOf P o`
computes the atoms of a concrete model input; `isTarget_eq_tree` (in `Lemmas/FilterTable.lean`) shows
`isTarget P o = (eval isTargetTree (valuationOf P o)).toExcept` for all inputs.

The generated table `PEval.Gen.IsTarget.tree` is compared with `isTargetTree` by `PEval.DT.agree` (complete over the
finite decision space, kernel-evaluated) in `Properties/C10.lean`.
-/
namespace PEval.FilterTable
open PEval PEval.DT PEval.Filter

/-! ## atom numbering (Boolean atoms) -/
def aFp : Nat := 0
def aUnknown : Nat := 1
def aIsGt : Nat := 2
def aTargetsNone : Nat := 3
def aTargetsEmpty : Nat := 4
def aHasUnknown : Nat := 5
def aLabelIn : Nat := 6
def aIgnoreNone : Nat := 7
def aAttrHit : Nat := 8
def aTfNone : Nat := 9
def aFrameBl : Nat := 10
def aPosNone : Nat := 11
def aIs2d : Nat := 12
def aTfMissing : Nat := 13
def aPcNone : Nat := 14
def aUuidsNone : Nat := 15
def aUuidIn : Nat := 16

/-- the three Boolean atoms of a per-label list: `is None`, shorter than the label's index, `== []` -/
structure LA where
  none : Nat
  short : Nat
  empty : Nat

def laConf : LA := ⟨17, 18, 19⟩
def laMaxX : LA := ⟨20, 21, 22⟩
def laMaxY : LA := ⟨23, 24, 25⟩
def laMaxD : LA := ⟨26, 27, 28⟩
def laMinD : LA := ⟨29, 30, 31⟩
def laPts : LA := ⟨32, 33, 34⟩

/-! order atoms: `compare first second` of the canonical (sorted) pair of term names -/
/-- `cmp(conf[label]|score)` -/
def cConf : Nat := 0
/-- `cmp(0|score)` -/
def cConf0 : Nat := 1
/-- position-dependent order atoms start at 2 for `pos` (state.position) and at 10 for `tf(pos)`:
+0 `cmp(abs(p.x)|maxx[label])`, +1 `…|mean(maxx)`, +2/+3 y, +4/+5 `cmp(dist(p)|maxd[label])`/mean, +6/+7 mind -/
def cBase (tf : Bool) : Nat := if tf then 10 else 2
/-- `cmp(pc|pts[label])` -/
def cPts : Nat := 18
/-- `cmp(0|pc)` -/
def cPts0 : Nat := 19

/-! exception kinds -/
def eType : Nat := 1
def eIndex : Nat := 2
def eAssert : Nat := 3
def eAttr : Nat := 4
def eKey : Nat := 5
def eValue : Nat := 6

def errCode (e : Err) : Nat :=
  if e = "TypeError" then 1 else if e = "IndexError" then 2 else if e = "AssertionError" then 3
  else if e = "AttributeError" then 4 else if e = "KeyError" then 5 else if e = "ValueError" then 6 else 99

def errName (e : Nat) : Err :=
  match e with
  | 1 => "TypeError" | 2 => "IndexError" | 3 => "AssertionError" | 4 => "AttributeError" | 5 => "KeyError"
  | 6 => "ValueError" | _ => "?"

/-- a table result as a model result -/
def toExcept : DT.Res → Option (Except Err Bool)
  | .ret b => some (.ok b)
  | .raise e => some (.error (errName e))
  | _ => none

/-- jointly unrealisable decisions excluded from the comparison (FORBIDDEN in harness/dt_c10.py): none are needed,
table and skeleton agree on every valuation -/
def forbidden : List (List Lit) := []

/-! ## the skeleton, stage by stage (continuation-passing; mirrors `PEval.Filter.isTarget`) -/

/-- `use_unknown_threshold` -/
def tUse (k : Bool → DTree) : DTree :=
  askB aUnknown fun un => if !un then k false else
  askB aIsGt fun g => if g then k false else
  askB aTargetsNone fun tn => if tn then k true else
  askB aHasUnknown fun hu => k (!hu)

/-- `stageLabel` -/
def tLabel (u : Bool) (k : Bool → DTree) : DTree :=
  askB aTargetsNone fun tn => if tn then k true else
  askB aTargetsEmpty fun te => if te then k true else
  if u then k true else askB aLabelIn fun li => k li

/-- `stageAttr` -/
def tAttr (u ok : Bool) (k : Bool → DTree) : DTree :=
  askB aIgnoreNone fun n => if n then k ok else
  if u then k ok else askB aAttrHit fun h => k (ok && !h)

/-- the per-label entry (`bound` for a non-relaxed object): TypeError when `get_label_threshold` answers None,
IndexError when the list is too short -/
def tEntry (la : LA) (k : DTree) : DTree :=
  askB aTargetsNone fun tn => if tn then .leaf (.raise eType) else
  askB aLabelIn fun li => if !li then .leaf (.raise eType) else
  askB la.short fun sh => if sh then .leaf (.raise eIndex) else k

/-- `stage`: a numeric criterion against the per-label entry (order atom `cL`) or, relaxed, against the special
bound (order atom `cU`; `nan`: the special bound is `np.mean`, nan on an empty list) -/
def tStage (u ok : Bool) (la : LA) (cL cU : Nat) (nan : Bool) (pass : Ordering → Bool) (k : Bool → DTree) : DTree :=
  if !ok then k ok else
  askB la.none fun isNone => if isNone then k ok else
  if u then
    (if nan then askB la.empty fun em => if em then k false else askC cU fun o => k (pass o)
     else askC cU fun o => k (pass o))
  else tEntry la (askC cL fun o => k (pass o))

/-- `position`: `none` no ego-relative position, `some false` the object's own position, `some true` the transformed one -/
def tPosition (k : Option Bool → DTree) : DTree :=
  askB aTfNone fun tn =>
    if tn then
      askB aFrameBl fun bl =>
        if bl then askB aPosNone fun pn =>
          if pn then askB aIs2d fun d => .leaf (.raise (if d then eAssert else eType)) else k (some false)
        else k none
    else
      askB aPosNone fun pn => if pn then k none else
      askB aFrameBl fun bl => if bl then k (some false) else
      askB aTfMissing fun ms => if ms then .leaf (.raise eKey) else k (some true)

/-- after the threshold lookup of `stagePts`: the attribute access, then the comparison -/
def tPc (hasBound : Bool) (c : Nat) (pass : Ordering → Bool) (k : Bool → DTree) : DTree :=
  askB aIs2d fun d => if d then .leaf (.raise eAttr) else
  if !hasBound then .leaf (.raise eType) else
  askB aPcNone fun pn => if pn then .leaf (.raise eType) else askC c fun o => k (pass o)

/-- `stagePts` -/
def tPts (u ok : Bool) (k : Bool → DTree) : DTree :=
  if !ok then k ok else
  askB aIsGt fun g => if !g then k ok else
  askB laPts.none fun pn => if pn then k ok else
  if u then tPc true cPts0 (fun o => o != .gt) k
  else
    askB aTargetsNone fun tn => if tn then tPc false cPts (fun o => o != .lt) k else
    askB aLabelIn fun li => if !li then tPc false cPts (fun o => o != .lt) k else
    askB laPts.short fun sh => if sh then .leaf (.raise eIndex) else tPc true cPts (fun o => o != .lt) k

/-- `stageRange` -/
def tRange (u ok : Bool) (pos : Option Bool) (k : Bool → DTree) : DTree :=
  match pos with
  | none => k ok
  | some tf =>
    let c := cBase tf
    tStage u ok laMaxX c (c + 1) true (· == .lt) fun ok1 =>
    tStage u ok1 laMaxY (c + 2) (c + 3) true (· == .lt) fun ok2 =>
    tStage u ok2 laMaxD (c + 4) (c + 5) true (· == .lt) fun ok3 =>
    tStage u ok3 laMinD (c + 6) (c + 7) true (· == .gt) fun ok4 =>
    tPts u ok4 k

/-- `stageUuid` -/
def tUuid (ok : Bool) (k : Bool → DTree) : DTree :=
  if !ok then k ok else
  askB aIsGt fun g => if !g then k ok else
  askB aUuidsNone fun n => if n then k ok else
  askB aUuidIn fun i => k i

/-- `_is_target_object` over the atoms -/
def isTargetTree : DTree :=
  askB aFp fun fp => if fp then .leaf (.ret true) else
  tUse fun u =>
  tLabel u fun ok0 =>
  tAttr u ok0 fun ok1 =>
  tStage u ok1 laConf cConf cConf0 false (· == .lt) fun ok2 =>
  tPosition fun pos =>
  tRange u ok2 pos fun ok3 =>
  tUuid ok3 fun ok4 => .leaf (.ret ok4)

/-- the skeleton as a function of the valuation -/
def isTargetAtoms (v : Val) : DT.Res := eval isTargetTree v

/-! ## the atoms of a concrete model input -/

def cmpR (a b : Rat) : Ordering := if a < b then .lt else if a = b then .eq else .gt
def cmpI (a b : Int) : Ordering := if a < b then .lt else if a = b then .eq else .gt
/-- `hypot ? t` on the squared distance -/
def cmpDist (d2 t : Rat) : Ordering := if t < 0 then .gt else cmpR d2 (t * t)

/-- index of the object's label among the targets -/
def labelIdx (P : Params) (o : Obj) : Option Nat :=
  match P.targets with
  | some ts => indexOf? o.label ts
  | none => none

def isShort {α} (P : Params) (o : Obj) (l? : Option (List α)) : Bool :=
  match l?, labelIdx P o with
  | some l, some i => l[i]?.isNone
  | _, _ => false

def entryR (P : Params) (o : Obj) (l? : Option (List Rat)) : Rat :=
  match l?, labelIdx P o with
  | some l, some i => l[i]?.getD 0
  | _, _ => 0

def entryI (P : Params) (o : Obj) (l? : Option (List Int)) : Int :=
  match l?, labelIdx P o with
  | some l, some i => l[i]?.getD 0
  | _, _ => 0

def isEmptyL {α} : Option (List α) → Bool
  | some [] => true
  | _ => false

def meanR (l? : Option (List Rat)) : Rat :=
  match l? with
  | some l => (mean l).getD 0
  | none => 0

def posOf (tf : Bool) (o : Obj) : Pos := ((if tf then o.egoPos else o.pos).getD ⟨0, 0⟩)

def valB (P : Params) (o : Obj) (a : Nat) : Bool :=
  match a with
  | 0 => isFP o.label
  | 1 => isUnknown o.label
  | 2 => P.isGt
  | 3 => P.targets.isNone
  | 4 => isEmptyL P.targets
  | 5 => (match P.targets with | some ts => ts.any isUnknown | none => false)
  | 6 => (labelIdx P o).isSome
  | 7 => P.ignoreAttrs.isNone
  | 8 => (match P.ignoreAttrs with | some ks => containsAny o ks | none => false)
  | 9 => !P.hasTransforms
  | 10 => o.frame == "base_link"
  | 11 => o.pos.isNone
  | 12 => o.is2d
  | 13 => o.egoPos.isNone
  | 14 => o.pcNum.isNone
  | 15 => P.uuids.isNone
  | 16 => (match P.uuids, o.uuid with | some us, some u => us.contains u | _, _ => false)
  | 17 => P.conf.isNone | 18 => isShort P o P.conf | 19 => isEmptyL P.conf
  | 20 => P.maxX.isNone | 21 => isShort P o P.maxX | 22 => isEmptyL P.maxX
  | 23 => P.maxY.isNone | 24 => isShort P o P.maxY | 25 => isEmptyL P.maxY
  | 26 => P.maxDist.isNone | 27 => isShort P o P.maxDist | 28 => isEmptyL P.maxDist
  | 29 => P.minDist.isNone | 30 => isShort P o P.minDist | 31 => isEmptyL P.minDist
  | 32 => P.minPts.isNone | 33 => isShort P o P.minPts | 34 => isEmptyL P.minPts
  | _ => false

def valCPos (P : Params) (o : Obj) (tf : Bool) (i : Nat) : Ordering :=
  let p := posOf tf o
  match i with
  | 0 => cmpR (absR p.x) (entryR P o P.maxX)
  | 1 => cmpR (absR p.x) (meanR P.maxX)
  | 2 => cmpR (absR p.y) (entryR P o P.maxY)
  | 3 => cmpR (absR p.y) (meanR P.maxY)
  | 4 => cmpDist p.d2 (entryR P o P.maxDist)
  | 5 => cmpDist p.d2 (meanR P.maxDist)
  | 6 => cmpDist p.d2 (entryR P o P.minDist)
  | 7 => cmpDist p.d2 (meanR P.minDist)
  | _ => .eq

def valC (P : Params) (o : Obj) (a : Nat) : Ordering :=
  match a with
  | 0 => cmpR (entryR P o P.conf) o.score
  | 1 => cmpR 0 o.score
  | 18 => cmpI (o.pcNum.getD 0) (entryI P o P.minPts)
  | 19 => cmpI 0 (o.pcNum.getD 0)
  | a => if 2 ≤ a ∧ a < 10 then valCPos P o false (a - 2) else if 10 ≤ a ∧ a < 18 then valCPos P o true (a - 10) else .eq

/-- the valuation of the atoms determined by a concrete model input -/
def valuationOf (P : Params) (o : Obj) : Val := ⟨valB P o, valC P o⟩

end PEval.FilterTable
