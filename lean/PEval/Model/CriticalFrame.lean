import PEval.Model.PassFail
import PEval.Model.Filter
/-!
# The critical-object filter of `evaluate_frame`, on objects with positions (property C03)

Anchor: `evaluation/result/perception_frame_result.py: PerceptionFrameResult.evaluate_frame`

```
self.object_results = filter_object_results(self.object_results,
        transforms=self.frame_ground_truth.transforms, **critical.filtering_params)          # call site R
self.frame_ground_truth.objects = filter_objects(self.frame_ground_truth.objects, is_gt=True,
        transforms=self.frame_ground_truth.transforms, **critical.filtering_params)          # call site G
...
self.pass_fail_result.evaluate(self.object_results, self.frame_ground_truth.objects)
```

`Model/PassFail.lean` carries the outcome of the critical predicate as ONE opaque Boolean per object
(`GT.crit`, `Res.estCrit`).  Here the Booleans are *computed*: an object carries its frame id and its
position in that frame, the frame carries the registered transforms (`frame_ground_truth.transforms`:
per frame id the planar ego pose whose inverse leads to BASE_LINK, or `None`) and the critical filter's
`filtering_params`; the predicate is the C10 model `Filter.isTarget` / `Filter.resultTarget`
(`_is_target_object`, loop body of `filter_object_results`) applied to what the filter reads of the
object (`view`).

The two call sites are modelled SEPARATELY: a `Site` is the keyword arguments one call receives
(`params`, `transforms`), a `Wiring` says how `evaluate_frame` builds the two sites from the frame.
`wiring` is the code; `wiringF2` is the code before commit 46d063e (`transform=` for `transforms=` at
call site R: the callee swallows the unknown keyword in `**kwargs` and sees `transforms=None`);
`wiringF2gt` is the mirror image (the typo at call site G).  Statements about "both call sites apply
the same predicate with the same transforms" are therefore statements about a `Wiring`, true of
`wiring` and false of the two defective ones (`Properties/C03Critical.lean`).

`filter_object_results` tests the paired ground truth with `gtParams` (no confidence list),
`filter_objects(is_gt=True, **filtering_params)` hands the confidence list on to `_is_target_object`,
which compares it with the ground truth's own `semantic_score`: the two sites agree on a ground truth
only if its score beats the critical confidence threshold of its label (`GtConfOK`; 1.0 > threshold in
every loaded dataset).  The model keeps the difference.
-/
namespace PEval.CritFrame
open PEval

/-- `TransformDict` as far as the filter reads it: for a frame id, the planar ego pose `e` such that
`transforms.transform((frame_id, BASE_LINK), p)` is `Filter.toEgo e p`; a frame id without entry
raises `KeyError` -/
abbrev Transforms := List (String × Filter.Pose)

/-- an object of the frame: what `_is_target_object` reads of it (label, name, attributes, confidence,
point count, uuid, 2-D flag, frame id, position IN ITS OWN FRAME) and what the accounting reads
(`id`, `eqKey` = class of `DynamicObject.__eq__`) -/
structure CObj where
  id : Nat
  label : String
  name : String
  attributes : List String
  score : Rat
  pcNum : Option Int
  uuid : Option String
  is2d : Bool
  /-- `frame_id.value` -/
  frame : String
  /-- `state.position` (x, y) in the object's own frame -/
  pos : Option Filter.Pos
  eqKey : Nat
deriving DecidableEq, Repr

/-- the pose registered for a frame id (`KeyError` = `none`) -/
def poseOf (d : Transforms) (frame : String) : Option Filter.Pose := d.lookup frame

/-- `transforms.transform((frame_id, BASE_LINK), position)` for a supplied `transforms` -/
def egoOf (tr : Option Transforms) (o : CObj) : Option Filter.Pos :=
  match tr with
  | none => none
  | some d =>
    match poseOf d o.frame with
    | none => none
    | some e => o.pos.map (Filter.toEgo e)

/-- what `_is_target_object` reads of the object when it is called with `transforms = tr` -/
def view (tr : Option Transforms) (o : CObj) : Filter.Obj :=
  { id := o.id, label := o.label, name := o.name, attributes := o.attributes, score := o.score,
    pcNum := o.pcNum, uuid := o.uuid, is2d := o.is2d, frame := o.frame, pos := o.pos, egoPos := egoOf tr o }

/-- a `DynamicObjectWithPerceptionResult` of the frame: the two objects and what `get_status` reads -/
structure CRes where
  est : CObj
  gt : Option CObj
  /-- `is_label_correct` -/
  labelOk : Bool
  /-- `get_label_threshold` for the ground truth's label -/
  thr : Option Rat
  /-- `plane_distance.value` -/
  score : Option Rat
deriving DecidableEq, Repr

/-- input of `evaluate_frame` -/
structure Frame where
  /-- `self.object_results` (the matcher's output) -/
  results : List CRes
  /-- `self.frame_ground_truth.objects` -/
  gts : List CObj
  /-- `self.frame_ground_truth.transforms` -/
  transforms : Option Transforms
  /-- `critical_object_filter_config.filtering_params` (`isGt`, `hasTransforms` are set per call) -/
  critical : Filter.Params

/-- the keyword arguments ONE filter call receives -/
structure Site where
  params : Filter.Params
  /-- value of the parameter `transforms` inside the callee -/
  transforms : Option Transforms

/-- the parameters as `_is_target_object` sees them at this site (`transforms is not None`) -/
def Site.P (s : Site) : Filter.Params := { s.params with hasTransforms := s.transforms.isSome }

/-- how `evaluate_frame` builds the two calls from the frame -/
structure Wiring where
  /-- `filter_object_results(self.object_results, …)` -/
  resSite : Frame → Site
  /-- `filter_objects(self.frame_ground_truth.objects, is_gt=True, …)` -/
  gtSite : Frame → Site

/-- THE CODE: both calls receive `transforms=self.frame_ground_truth.transforms` and
`**filtering_params`; the second one `is_gt=True` -/
def wiring : Wiring :=
  { resSite := fun f => ⟨f.critical, f.transforms⟩,
    gtSite := fun f => ⟨{ f.critical with isGt := true }, f.transforms⟩ }

/-- defect F2 (before commit 46d063e): `transform=` at call site R, so the callee's `transforms` is `None` -/
def wiringF2 : Wiring :=
  { resSite := fun f => ⟨f.critical, none⟩,
    gtSite := fun f => ⟨{ f.critical with isGt := true }, f.transforms⟩ }

/-- the mirror image: the misspelt keyword at call site G -/
def wiringF2gt : Wiring :=
  { resSite := fun f => ⟨f.critical, f.transforms⟩,
    gtSite := fun f => ⟨{ f.critical with isGt := true }, none⟩ }

/-! ## the two filters -/

/-- the result as `filter_object_results` sees it at a site -/
def toFRes (tr : Option Transforms) (r : CRes) : Filter.Res :=
  { id := r.est.id, est := view tr r.est, gt := r.gt.map (view tr) }

/-- loop body of `filter_object_results` at site `s` -/
def resTarget (s : Site) (r : CRes) : Except Err Bool := Filter.resultTarget s.P (toFRes s.transforms r)

/-- loop body of `filter_objects` at site `s` -/
def gtTarget (s : Site) (g : CObj) : Except Err Bool := Filter.isTarget s.P (view s.transforms g)

/-! ## the Booleans of `Model/PassFail.lean`, computed -/

/-- the call returned `True` (an exception is not `True`) -/
def isOkTrue : Except Err Bool → Bool
  | .ok true => true
  | _ => false

/-- `_is_target_object(estimated_object, is_gt=False, …)` returned `True` at site `s`, and the result is
not dropped by the `elif target_uuids and ground_truth_object is None` branch -/
def estFlag (s : Site) (r : CRes) : Bool :=
  isOkTrue (Filter.isTarget (Filter.estParams s.P) (view s.transforms r.est)) &&
    (r.gt.isSome || !Filter.truthy s.P.uuids)

/-- `_is_target_object(ground_truth_object, is_gt=True, …)` as `filter_object_results` calls it at site `s` -/
def gtFlagRes (s : Site) (g : CObj) : Bool :=
  isOkTrue (Filter.isTarget (Filter.gtParams s.P) (view s.transforms g))

/-- `_is_target_object(object_, is_gt, …)` as `filter_objects` calls it at site `s` -/
def gtFlagList (s : Site) (g : CObj) : Bool := isOkTrue (gtTarget s g)

/-- ground truth as the accounting reads it; `crit` is the verdict of call site G -/
def absGT (sG : Site) (g : CObj) : PassFail.GT :=
  { id := g.id, isFP := Filter.isFP g.label, crit := gtFlagList sG g, eqKey := g.eqKey }

/-- result as the accounting reads it; `estCrit` is the verdict of call site R on the estimate -/
def absRes (sR sG : Site) (r : CRes) : PassFail.Res :=
  { est := r.est.id, estCrit := estFlag sR r, gt := r.gt.map (absGT sG), labelOk := r.labelOk,
    thr := r.thr, score := r.score }

/-- the frame of `Model/PassFail.lean` that a wiring induces: every object with its computed flags -/
def absFrame (w : Wiring) (f : Frame) : PassFail.Frame :=
  { results := f.results.map (absRes (w.resSite f) (w.gtSite f)),
    gts := f.gts.map (absGT (w.gtSite f)) }

/-! ## `evaluate_frame` -/

structure Out where
  /-- `self.object_results` after the critical filter -/
  keptResults : List CRes
  /-- `self.frame_ground_truth.objects` after the critical filter -/
  keptGts : List CObj
  /-- `self.pass_fail_result` (+ the two lists as the accounting reads them) -/
  pf : PassFail.PassFail

/-- `evaluate_frame` for a given wiring of the two filter calls: filter the results, filter the ground
truths (the first exception aborts the frame), then `PassFailResult.evaluate` on what is left -/
def evaluateFrameWith (w : Wiring) (f : Frame) : Except Err Out :=
  match Filter.filterE (resTarget (w.resSite f)) f.results with
  | .error e => .error e
  | .ok rs =>
    match Filter.filterE (gtTarget (w.gtSite f)) f.gts with
    | .error e => .error e
    | .ok gs =>
      .ok { keptResults := rs, keptGts := gs,
            pf := PassFail.evaluate (rs.map (absRes (w.resSite f) (w.gtSite f))) (gs.map (absGT (w.gtSite f))) }

/-- `PerceptionFrameResult.evaluate_frame` (the code) -/
def evaluateFrame (f : Frame) : Except Err Out := evaluateFrameWith wiring f

/-! ## the two renderings of a frame -/

/-- the MAP-frame rendering of a BASE_LINK object under ego pose `e` -/
def CObj.toMap (e : Filter.Pose) (o : CObj) : CObj :=
  { o with frame := "map", pos := o.pos.map (Filter.toMap e) }

def CRes.toMap (e : Filter.Pose) (r : CRes) : CRes :=
  { r with est := r.est.toMap e, gt := r.gt.map (CObj.toMap e) }

/-- the MAP-frame rendering of a BASE_LINK frame: every object expressed in the map, the ego pose
registered for the frame id `map` (what the dataset loader puts into `frame_ground_truth.transforms`) -/
def Frame.toMap (e : Filter.Pose) (f : Frame) : Frame :=
  { results := f.results.map (CRes.toMap e), gts := f.gts.map (CObj.toMap e),
    transforms := some [("map", e)], critical := f.critical }

/-- the output of the MAP rendering that corresponds to an output of the BASE_LINK rendering: the same
objects (rendered), the SAME pass/fail lists -/
def Out.toMap (e : Filter.Pose) (o : Out) : Out :=
  { keptResults := o.keptResults.map (CRes.toMap e), keptGts := o.keptGts.map (CObj.toMap e), pf := o.pf }

/-- every object of the frame is given in BASE_LINK with a position -/
def Frame.allEgo (f : Frame) : Bool :=
  f.gts.all (fun g => g.frame == "base_link" && g.pos.isSome) &&
  f.results.all (fun r => (r.est.frame == "base_link" && r.est.pos.isSome) &&
    (match r.gt with
     | none => true
     | some g => g.frame == "base_link" && g.pos.isSome))

end PEval.CritFrame
