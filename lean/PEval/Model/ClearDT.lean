import PEval.Model.Clear
/-!
Decision tables of the CLEAR kernels (property C05): the vocabulary shared by the GENERATED tables
(`PEval/Gen/ClearDT.lean`, extracted from the real code by `harness/dt_clear.py` on every check run) and the
hand-written decision skeletons of the model `PEval/Model/Clear.lean`.

* `Atom` — the decision atoms the stubs of the symbolic execution expose; `Val` — a valuation of the atoms;
* `DTree α` — a decision tree (`ite` on a Boolean atom, `cmp` on a three-valued order atom), `DTree.eval`;
* `agree` — a decision procedure for "two trees agree on every consistent valuation". It walks the first tree, then
  the second, under the partial valuation collected so far, branching only on atoms not yet decided, and pruning
  partial valuations that are inconsistent (`isTp r … = true` while `hasGt r = false`). It is indifferent to the order
  in which a tree asks its atoms and to atoms asked but not needed. Soundness: `PEval/Lemmas/ClearDT.lean`;
* the skeletons (continuation-passing, so that they are trees) and their readings over a valuation (`…Atoms`);
* `valOf` — the valuation of a concrete input of the model.
-/

namespace PEval.ClearDT
open PEval.Clear

/-- a result of the current (`cur j`) or of the previous (`prev i`) frame, by position -/
inductive Ref where
  | cur (j : Nat)
  | prev (i : Nat)
deriving DecidableEq, Repr

inductive Atom where
  /-- `r.ground_truth_object is not None` -/
  | hasGt (r : Ref)
  /-- the ground truth's (`true`) / the estimate's (`false`) label of current result `j` is in `target_labels` -/
  | inTargets (j : Nat) (gtSide : Bool)
  /-- `r.is_result_correct(mode, threshold of current j's gt/est label)` -/
  | isTp (r : Ref) (j : Nat) (gtSide : Bool)
  | sameEstId (j i : Nat)
  | sameEstLabel (j i : Nat)
  | sameGtId (j i : Nat)
  /-- order of two numeric terms (canonical names) -/
  | ord (a b : String)
  /-- frame `i` of a history has no result -/
  | empty (i : Nat)
  | other (s : String)
deriving DecidableEq, Repr

inductive DTree (α : Type) where
  | leaf (r : α)
  | ite (a : Atom) (f t : DTree α)
  | cmp (a : Atom) (lt eq gt : DTree α)
deriving Repr

structure Val where
  b : Atom → Bool
  o : Atom → Ordering

def DTree.eval {α : Type} : DTree α → Val → α
  | .leaf r, _ => r
  | .ite a f t, v => if v.b a then t.eval v else f.eval v
  | .cmp a l e g, v =>
    match v.o a with
    | .lt => l.eval v
    | .eq => e.eval v
    | .gt => g.eval v

/-- the only dependencies between atoms that the real objects enforce: a result without ground truth is never correct;
the number of ground truths is not negative -/
def Val.consistent (v : Val) : Prop :=
  (∀ r j s, v.b (.isTp r j s) = true → v.b (.hasGt r) = true) ∧ v.o (.ord "num_gt" "0") ≠ .lt

/-! ### partial valuations and the agreement check -/

structure PVal where
  b : List (Atom × Bool)
  o : List (Atom × Ordering)

def PVal.empty : PVal := ⟨[], []⟩

def PVal.getB (π : PVal) (a : Atom) : Option Bool := (π.b.find? (fun p => p.1 == a)).map (·.2)
def PVal.getO (π : PVal) (a : Atom) : Option Ordering := (π.o.find? (fun p => p.1 == a)).map (·.2)
def PVal.pushB (π : PVal) (a : Atom) (x : Bool) : PVal := ⟨(a, x) :: π.b, π.o⟩
def PVal.pushO (π : PVal) (a : Atom) (x : Ordering) : PVal := ⟨π.b, (a, x) :: π.o⟩

/-- no decided `isTp r … = true` together with a decided `hasGt r = false`; no decided `num_gt < 0` -/
def PVal.ok (π : PVal) : Bool :=
  (π.b.all fun p =>
    match p.1 with
    | .isTp r _ _ => !p.2 || !(π.b.any fun q => q.1 == .hasGt r && !q.2)
    | _ => true) &&
  (π.o.all fun p => !(p.1 == .ord "num_gt" "0" && p.2 == .lt))

def Val.sat (v : Val) (π : PVal) : Prop := (∀ p ∈ π.b, v.b p.1 = p.2) ∧ (∀ p ∈ π.o, v.o p.1 = p.2)

def agreeLeaf {α : Type} [DecidableEq α] (r : α) : PVal → DTree α → Bool
  | _, .leaf r' => decide (r = r')
  | π, .ite a f t =>
    match π.getB a with
    | some true => agreeLeaf r π t
    | some false => agreeLeaf r π f
    | none =>
      (!(π.pushB a false).ok || agreeLeaf r (π.pushB a false) f) &&
      (!(π.pushB a true).ok || agreeLeaf r (π.pushB a true) t)
  | π, .cmp a l e g =>
    match π.getO a with
    | some .lt => agreeLeaf r π l
    | some .eq => agreeLeaf r π e
    | some .gt => agreeLeaf r π g
    | none =>
      (!(π.pushO a .lt).ok || agreeLeaf r (π.pushO a .lt) l) &&
      (!(π.pushO a .eq).ok || agreeLeaf r (π.pushO a .eq) e) &&
      (!(π.pushO a .gt).ok || agreeLeaf r (π.pushO a .gt) g)

def agree {α : Type} [DecidableEq α] : PVal → DTree α → DTree α → Bool
  | π, .leaf r, t2 => agreeLeaf r π t2
  | π, .ite a f t, t2 =>
    match π.getB a with
    | some true => agree π t t2
    | some false => agree π f t2
    | none =>
      (!(π.pushB a false).ok || agree (π.pushB a false) f t2) &&
      (!(π.pushB a true).ok || agree (π.pushB a true) t t2)
  | π, .cmp a l e g, t2 =>
    match π.getO a with
    | some .lt => agree π l t2
    | some .eq => agree π e t2
    | some .gt => agree π g t2
    | none =>
      (!(π.pushO a .lt).ok || agree (π.pushO a .lt) l t2) &&
      (!(π.pushO a .eq).ok || agree (π.pushO a .eq) e t2) &&
      (!(π.pushO a .gt).ok || agree (π.pushO a .gt) g t2)

/-- the per-run obligation on a generated table: it agrees with the skeleton, or the translator marked the function
untranslatable (`none`: the correspondence run alone ties the model to the code) -/
def tableOk {α : Type} [DecidableEq α] (gen : Option (DTree α)) (sk : DTree α) : Bool :=
  match gen with
  | none => true
  | some t => agree PVal.empty t sk

/-! ### skeletons -/

def askB {α : Type} (a : Atom) (k : Bool → DTree α) : DTree α := .ite a (k false) (k true)
def askO {α : Type} (a : Atom) (k : Ordering → DTree α) : DTree α := .cmp a (k .lt) (k .eq) (k .gt)

/-- `_is_id_switched` on the three comparisons -/
def switchF (a b g : Bool) : Bool := if a && b then !g else if g then !(a && b) else false
/-- `_is_same_match` on the three comparisons -/
def sameF (a b g : Bool) : Bool := a && b && g

/-- common shape of `_is_id_switched` / `_is_same_match`: `False` when a ground truth is missing, else `f` of
(same estimated uuid, same estimated label, same ground-truth uuid) -/
def pairSk {α : Type} (f : Bool → Bool → Bool → Bool) (j i : Nat) (k : Bool → DTree α) : DTree α :=
  askB (.hasGt (.cur j)) fun gc => if !gc then k false else
  askB (.hasGt (.prev i)) fun gp => if !gp then k false else
  askB (.sameEstId j i) fun a => askB (.sameEstLabel j i) fun b => askB (.sameGtId j i) fun g => k (f a b g)

def pairAtoms (f : Bool → Bool → Bool → Bool) (j i : Nat) (v : Val) : Bool :=
  if !v.b (.hasGt (.cur j)) then false
  else if !v.b (.hasGt (.prev i)) then false
  else f (v.b (.sameEstId j i)) (v.b (.sameEstLabel j i)) (v.b (.sameGtId j i))

/-- `Model.isIdSwitched` over the atoms -/
def isIdSwitchedAtoms (j i : Nat) (v : Val) : Bool := pairAtoms switchF j i v
/-- `Model.isSameMatch` over the atoms -/
def isSameMatchAtoms (j i : Nat) (v : Val) : Bool := pairAtoms sameF j i v

def isIdSwitchedSkTree : DTree (Except String Bool) := pairSk switchF 0 0 fun r => .leaf (.ok r)
def isSameMatchSkTree : DTree (Except String Bool) := pairSk sameF 0 0 fun r => .leaf (.ok r)

/-- outcome of the scan of the previous frame, by position -/
inductive ScanR where
  | nothing
  | switched
  | same (i : Nat)
deriving DecidableEq, Repr

/-- the inner loop of `_calculate_tp_fp` for current result `j` (threshold of its gt/est label, `thrGt`) over the previous
results `i, i+1, …, i+n-1`: not correct at the threshold: skip; id switched: stop; same match: stop with credit; else go on -/
def scanSk {α : Type} (j : Nat) (thrGt : Bool) : (i n : Nat) → (ScanR → DTree α) → DTree α
  | _, 0, k => k .nothing
  | i, n + 1, k =>
    askB (.isTp (.prev i) j thrGt) fun tp => if !tp then scanSk j thrGt (i + 1) n k else
    pairSk switchF j i fun sw => if sw then k .switched else
    pairSk sameF j i fun sm => if sm then k (.same i) else scanSk j thrGt (i + 1) n k

def scanAtoms (v : Val) (j : Nat) (thrGt : Bool) : (i n : Nat) → ScanR
  | _, 0 => .nothing
  | i, n + 1 =>
    if !v.b (.isTp (.prev i) j thrGt) then scanAtoms v j thrGt (i + 1) n
    else if isIdSwitchedAtoms j i v then .switched
    else if isSameMatchAtoms j i v then .same i
    else scanAtoms v j thrGt (i + 1) n

/-- what `_calculate_tp_fp` returns, symbolically: the results whose TP weight / matching score were credited, and the counts -/
structure MOut where
  tp : List Ref
  fp : Nat
  sw : Nat
  score : List Ref
deriving DecidableEq, Repr

def MOut.zero : MOut := ⟨[], 0, 0, []⟩
def MOut.add (a b : MOut) : MOut := ⟨a.tp ++ b.tp, a.fp + b.fp, a.sw + b.sw, a.score ++ b.score⟩

/-- the tail decision for current result `j` after the scan -/
def tailOut (j : Nat) (s : ScanR) (tpCur : Bool) : MOut :=
  match s with
  | .same i => ⟨[.prev i], 0, 0, [.prev i]⟩
  | .switched => if tpCur then ⟨[.cur j], 0, 1, [.cur j]⟩ else ⟨[], 1, 0, []⟩
  | .nothing => if tpCur then ⟨[.cur j], 0, 0, [.cur j]⟩ else ⟨[], 1, 0, []⟩

/-- one current result: the threshold is looked up with the ground truth's label iff there is a ground truth; no threshold:
ignored; same match found: the PREVIOUS result is credited and the current one is not tested; else own test -/
def resStepSk {α : Type} (j np : Nat) (k : MOut → DTree α) : DTree α :=
  askB (.hasGt (.cur j)) fun gc =>
  askB (.inTargets j gc) fun inT => if !inT then k MOut.zero else
  scanSk j gc 0 np fun s =>
    match s with
    | .same i => k (tailOut j (.same i) false)
    | s => askB (.isTp (.cur j) j gc) fun tp => k (tailOut j s tp)

def resStepAtoms (v : Val) (j np : Nat) : MOut :=
  let gc := v.b (.hasGt (.cur j))
  if !v.b (.inTargets j gc) then MOut.zero
  else tailOut j (scanAtoms v j gc 0 np) (v.b (.isTp (.cur j) j gc))

/-- the outer loop over the current results `j, …, j+n-1` -/
def frameStepSk {α : Type} (np : Nat) : (j n : Nat) → MOut → (MOut → DTree α) → DTree α
  | _, 0, acc, k => k acc
  | j, n + 1, acc, k => resStepSk j np fun m => frameStepSk np (j + 1) n (acc.add m) k

def frameStepAtoms (v : Val) (np : Nat) : (j n : Nat) → MOut → MOut
  | _, 0, acc => acc
  | j, n + 1, acc => frameStepAtoms v np (j + 1) n (acc.add (resStepAtoms v j np))

/-! ### the leaf format of the generated step tables -/

inductive Term where
  | w (r : Ref)
  | value (r : Ref)
  | int (n : Int)
  | other (s : String)
deriving DecidableEq, Repr

/-- (tp, fp, id switches, matching score), each a canonically ordered sum of terms (empty = 0) -/
structure SOut where
  tp : List Term
  fp : List Term
  sw : List Term
  score : List Term
deriving DecidableEq, Repr

def Ref.key : Ref → Nat
  | .cur j => 2 * j
  | .prev i => 2 * i + 1

def insertRef (r : Ref) : List Ref → List Ref
  | [] => [r]
  | x :: xs => if r.key ≤ x.key then r :: x :: xs else x :: insertRef r xs

def sortRefs (l : List Ref) : List Ref := l.foldr insertRef []

def natTerm (n : Nat) : List Term := if n = 0 then [] else [.int n]

def enc (m : MOut) : SOut := ⟨(sortRefs m.tp).map .w, natTerm m.fp, natTerm m.sw, (sortRefs m.score).map .value⟩

def stepSkTree (nc np : Nat) : DTree (Except String SOut) :=
  frameStepSk np 0 nc MOut.zero fun m => .leaf (.ok (enc m))

/-- `Model.frameStep` over the atoms, for `nc` current and `np` previous results -/
def stepAtoms (nc np : Nat) (v : Val) : MOut := frameStepAtoms v np 0 nc MOut.zero

/-! ### `_calculate_score` -/

def motaRatio : String := "(tp-fp-id_switch)/num_gt"
def motpRatio : String := "tp_matching_score/tp"

/-- which formula `_calculate_score` uses: MOTA = inf without ground truth, else the ratio clamped at 0;
MOTP = inf when tp = 0, else the ratio -/
def scoreAtoms (v : Val) : String × String :=
  (if v.o (.ord "num_gt" "0") = .eq then "inf" else if v.o (.ord motaRatio "0") = .gt then motaRatio else "0",
   if v.o (.ord "tp" "0") = .eq then "inf" else motpRatio)

def scoreSkTree : DTree (Except String (String × String)) :=
  askO (.ord "num_gt" "0") fun g =>
  askO (.ord "tp" "0") fun t =>
    let motp := if t = .eq then "inf" else motpRatio
    if g = .eq then .leaf (.ok ("inf", motp))
    else askO (.ord motaRatio "0") fun s => .leaf (.ok (if s = .gt then motaRatio else "0", motp))

/-! ### `CLEAR.__init__`: which frame pairs are counted -/

/-- `_calculate_tp_fp(cur = frame i, prev = frame i-1)` for every NON-EMPTY frame i = 1 … n-1 (a call with an empty current
frame books nothing — `stepTree_0_1` — so it is not part of the outcome: skipping it is a harmless optimisation, skipping the
update of "previous" is not); `predict_num` = number of results after the initial frame (non-empty frames of the probe hold
one result) -/
def initSk {α : Type} : (i n : Nat) → List (Option Nat × Option Nat) → Nat →
    (List (Option Nat × Option Nat) → Nat → DTree α) → DTree α
  | _, 0, ps, c, k => k ps c
  | i, n + 1, ps, c, k =>
    askB (.empty i) fun e =>
      if e then initSk (i + 1) n ps c k else initSk (i + 1) n (ps ++ [(some (i - 1), some i)]) (c + 1) k

def initAtoms (v : Val) : (i n : Nat) → List (Option Nat × Option Nat) → Nat → List (Option Nat × Option Nat) × Nat
  | _, 0, ps, c => (ps, c)
  | i, n + 1, ps, c =>
    if v.b (.empty i) then initAtoms v (i + 1) n ps c else initAtoms v (i + 1) n (ps ++ [(some (i - 1), some i)]) (c + 1)

def initSkTree (n : Nat) : DTree (Except String (List (Option Nat × Option Nat) × Nat)) :=
  initSk 1 (n - 1) [] 0 fun ps c => .leaf (.ok (ps, c))

/-! ### the valuation of a concrete input -/

def deref (prev cur : List Res) : Ref → Option Res
  | .cur j => cur[j]?
  | .prev i => prev[i]?

def sideLabel (r : Res) (gtSide : Bool) : Option Nat :=
  if gtSide then r.gt.map (·.label) else some r.estLabel

/-- the threshold `get_label_threshold` answers for current result `j`'s gt/est label -/
def thrOf (cfg : Cfg) (cur : List Res) (j : Nat) (gtSide : Bool) : Option Rat :=
  (cur[j]?).bind fun c => (sideLabel c gtSide).bind (labelThreshold cfg)

def gtIdEq (c p : Res) : Bool :=
  match c.gt, p.gt with
  | some a, some b => a.id == b.id
  | _, _ => false

def valOf (cfg : Cfg) (prev cur : List Res) : Val where
  b := fun a =>
    match a with
    | .hasGt r => match deref prev cur r with
      | some x => x.gt.isSome
      | none => false
    | .inTargets j s => (thrOf cfg cur j s).isSome
    | .isTp r j s => match deref prev cur r, thrOf cfg cur j s with
      | some x, some t => isTp cfg t x
      | _, _ => false
    | .sameEstId j i => match cur[j]?, prev[i]? with
      | some c, some p => c.est == p.est
      | _, _ => false
    | .sameEstLabel j i => match cur[j]?, prev[i]? with
      | some c, some p => c.estLabel == p.estLabel
      | _, _ => false
    | .sameGtId j i => match cur[j]?, prev[i]? with
      | some c, some p => gtIdEq c p
      | _, _ => false
    | _ => false
  o := fun _ => .eq

def sumOver (f : Res → Rat) (prev cur : List Res) : List Ref → Rat
  | [] => 0
  | r :: rs => (match deref prev cur r with
    | some x => f x
    | none => 0) + sumOver f prev cur rs

/-- the numbers a symbolic outcome stands for on a concrete input -/
def interp (prev cur : List Res) (m : MOut) : Acc :=
  ⟨sumOver (·.w) prev cur m.tp, m.fp, m.sw, sumOver (·.value) prev cur m.score⟩

end PEval.ClearDT
