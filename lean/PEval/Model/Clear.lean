import PEval.Model.Basic
/-!
Model of the CLEAR tracking metrics (property C05).

Anchors (perception_eval/evaluation/metrics/tracking):
* `clear.py`  `CLEAR.__init__` (accumulation over consecutive frame pairs), `_calculate_tp_fp`
  (previous-frame scan, carry-over, TP/FP, switch counting), `_is_id_switched`, `_is_same_match`,
  `_calculate_score` (MOTA / MOTP with their `inf` cases);
* `tracking_metrics_score.py`  `TrackingMetricsScore.__init__` (one CLEAR per target label with the
  singleton label / threshold lists) and `_sum_clear`;
* how the manager feeds them: `divide_objects` (bucket of a result), `PerceptionFrameResult.evaluate_frame`
  (`[previous, current]` per label), `PerceptionEvaluationManager.get_scene_result` (`[[], f1, …, fn]`).

Conventions: uuids and labels are `Nat`s assigned by the harness (only equality is ever used);
`float('inf')` ("undefined") is `none`; the matching value and the TP weight of a result are inputs
(they are computed by the geometry code, which is the subject of other properties).
-/

namespace PEval.Clear

/-- the ground-truth side of an object result: uuid, label, and `semantic_label.is_fp()` -/
structure Gt where
  id : Nat
  label : Nat
  isFp : Bool
deriving DecidableEq, Repr

/-- one `DynamicObjectWithPerceptionResult` as far as CLEAR looks at it.
`value` = `get_matching(mode).value` (not consulted when there is no ground truth),
`labelOk` = `is_label_correct`, `w` = `tp_metrics.get_value(result)` (1 for `TPMetricsAp`). -/
structure Res where
  est : Nat
  estLabel : Nat
  gt : Option Gt
  value : Rat
  labelOk : Bool
  w : Rat
deriving DecidableEq, Repr

/-- matching mode (only the direction of "better" matters) and the zipped
`target_labels` / `matching_threshold_list` of the CLEAR instance -/
structure Cfg where
  maximize : Bool
  thresholds : List (Nat × Rat)
deriving Repr

/-- the label whose threshold is looked up: the GT's label if there is a GT, else the estimate's -/
def keyLabel (r : Res) : Nat :=
  match r.gt with
  | some g => g.label
  | none => r.estLabel

/-- `get_label_threshold`: threshold at the first index of the label in `target_labels`, else `None` -/
def labelThreshold (cfg : Cfg) (l : Nat) : Option Rat :=
  match cfg.thresholds.find? (fun p => p.1 == l) with
  | some p => some p.2
  | none => none

/-- `MatchingMethod.is_better_than`: `<` for the distances, `>` for the IoUs -/
def better (cfg : Cfg) (v t : Rat) : Bool :=
  if cfg.maximize then decide (t < v) else decide (v < t)

/-- `DynamicObjectWithPerceptionResult.is_result_correct(mode, t)` for a threshold `t` that is not `None` -/
def isTp (cfg : Cfg) (t : Rat) (r : Res) : Bool :=
  match r.gt with
  | none => false
  | some g =>
    if g.isFp then !(better cfg r.value t)
    else (better cfg r.value t && r.labelOk)

/-- `CLEAR._is_id_switched(cur, prev)` -/
def isIdSwitched (c p : Res) : Bool :=
  match c.gt, p.gt with
  | some gc, some gp =>
    let sameEstId := c.est == p.est
    let sameEstLabel := c.estLabel == p.estLabel
    let sameGtId := gc.id == gp.id
    if sameEstId && sameEstLabel then !sameGtId
    else if sameGtId then !(sameEstId && sameEstLabel)
    else false
  | _, _ => false

/-- `CLEAR._is_same_match(cur, prev)` -/
def isSameMatch (c p : Res) : Bool :=
  match c.gt, p.gt with
  | some gc, some gp => (c.est == p.est) && (c.estLabel == p.estLabel) && (gc.id == gp.id)
  | _, _ => false

/-- outcome of the scan of the previous frame for one current result -/
inductive Scan where
  | nothing
  | switched
  | same (p : Res)
deriving DecidableEq, Repr

/-- the inner `for prev_obj_result in prev_object_results` loop: previous results that are not TP
(under the CURRENT result's threshold) are skipped; the first TP that is an id switch wins (`break`);
else the first TP with the same pairing wins (`break`); else go on. -/
def scan (cfg : Cfg) (t : Rat) (c : Res) : List Res → Scan
  | [] => .nothing
  | p :: ps =>
    if !isTp cfg t p then scan cfg t c ps
    else if isIdSwitched c p then .switched
    else if isSameMatch c p then .same p
    else scan cfg t c ps

/-- the four accumulators of `_calculate_tp_fp` / `CLEAR.__init__` -/
structure Acc where
  tp : Rat
  fp : Nat
  sw : Nat
  score : Rat
deriving DecidableEq, Repr

def Acc.zero : Acc := ⟨0, 0, 0, 0⟩

def Acc.add (a b : Acc) : Acc := ⟨a.tp + b.tp, a.fp + b.fp, a.sw + b.sw, a.score + b.score⟩

/-- body of the `for cur_obj_result in cur_object_results` loop: the increment for one result.
No threshold for the key label: skipped. Same pairing as a previous TP: the PREVIOUS result's TP
value and matching score are added (the current result is not tested). Otherwise TP (plus a switch
if the scan was left through the id-switch `break`) or FP by the current result's own test. -/
def resStep (cfg : Cfg) (prev : List Res) (c : Res) : Acc :=
  match labelThreshold cfg (keyLabel c) with
  | none => Acc.zero
  | some t =>
    match scan cfg t c prev with
    | .same p => ⟨p.w, 0, 0, p.value⟩
    | .switched => if isTp cfg t c then ⟨c.w, 0, 1, c.value⟩ else ⟨0, 1, 0, 0⟩
    | .nothing => if isTp cfg t c then ⟨c.w, 0, 0, c.value⟩ else ⟨0, 1, 0, 0⟩

/-- `_calculate_tp_fp(cur, prev)` -/
def frameStep (cfg : Cfg) (prev cur : List Res) : Acc :=
  cur.foldl (fun a c => a.add (resStep cfg prev c)) Acc.zero

/-- the loop of `CLEAR.__init__` from frame `i` on, `prev` = frame `i-1` -/
def clearLoop (cfg : Cfg) : List Res → List (List Res) → Acc → Acc
  | _, [], a => a
  | prev, cur :: rest, a => clearLoop cfg cur rest (a.add (frameStep cfg prev cur))

/-- totals over a history: index 0 is the initial "previous" frame, it is never counted itself -/
def clear (cfg : Cfg) (hist : List (List Res)) : Acc :=
  match hist with
  | [] => Acc.zero
  | f0 :: rest => clearLoop cfg f0 rest Acc.zero

/-- `objects_results_num` -/
def predictNum (hist : List (List Res)) : Nat :=
  (hist.drop 1).foldl (fun n f => n + f.length) 0

/-- MOTA of `_calculate_score`: `inf` when there is no ground truth, clamped at 0 otherwise -/
def mota (g : Nat) (a : Acc) : Option Rat :=
  if g = 0 then none else some (max 0 ((a.tp - (a.fp : Rat) - (a.sw : Rat)) / (g : Rat)))

/-- MOTP of `_calculate_score`: `inf` when the TP total is 0 -/
def motp (a : Acc) : Option Rat :=
  if a.tp = 0 then none else some (a.score / a.tp)

/-- `CLEAR.results` (+ `num_ground_truth`) -/
structure Out where
  predictNum : Nat
  g : Nat
  acc : Acc
  mota : Option Rat
  motp : Option Rat
deriving DecidableEq, Repr

def evalClear (cfg : Cfg) (g : Nat) (hist : List (List Res)) : Out :=
  let a := clear cfg hist
  ⟨predictNum hist, g, a, mota g a, motp a⟩

/-- `int(clear.tp)` -/
def intTp (tp : Rat) : Int := Int.tdiv tp.num tp.den

/-- `TrackingMetricsScore._sum_clear` -/
def sumClear (cs : List Out) : Option Rat × Option Rat × Nat :=
  let motaSum : Rat := cs.foldl (fun s c => match c.mota with
    | some m => s + m * (c.g : Rat)
    | none => s) 0
  let motpSum : Rat := cs.foldl (fun s c => match c.motp with
    | some m => s + m * c.acc.tp
    | none => s) 0
  let numGt : Nat := cs.foldl (fun s c => s + c.g) 0
  let numTp : Int := cs.foldl (fun s c => s + intTp c.acc.tp) 0
  let numSw : Nat := cs.foldl (fun s c => s + c.acc.sw) 0
  let mota : Option Rat := if numGt = 0 then none else some (max 0 (motaSum / (numGt : Rat)))
  let motp : Option Rat := if numTp = 0 then none else some (motpSum / (numTp : Rat))
  (mota, motp, numSw)

/-- one entry per target label of a `TrackingMetricsScore`: label, threshold, ground-truth number, history -/
structure LabelInput where
  label : Nat
  thr : Rat
  g : Nat
  hist : List (List Res)

/-- `TrackingMetricsScore.__init__`: one CLEAR per target label, with singleton label / threshold lists -/
def trackingClears (maximize : Bool) (ls : List LabelInput) : List Out :=
  ls.map (fun l => evalClear ⟨maximize, [(l.label, l.thr)]⟩ l.g l.hist)

def trackingScore (maximize : Bool) (ls : List LabelInput) :
    List Out × (Option Rat × Option Rat × Nat) :=
  let cs := trackingClears maximize ls
  (cs, sumClear cs)

/-! ### how the manager builds the per-label histories -/

/-- `divide_objects` on object results: the estimate's label if it is a target label, else the
ground truth's label if there is a ground truth, else the result is dropped -/
def bucketLabel (targets : List Nat) (r : Res) : Option Nat :=
  if targets.contains r.estLabel then some r.estLabel
  else match r.gt with
    | some g => some g.label
    | none => none

def bucket (targets : List Nat) (l : Nat) (rs : List Res) : List Res :=
  rs.filter (fun r => bucketLabel targets r == some l)

/-- `get_scene_result`: `[[], f1, …, fn]` per target label, ground-truth numbers summed over the frames.
`frames` = the object results of the frames in order, `gts i` = per-label GT numbers of frame `i`
(in the order of `targets`). -/
def sceneInputs (targets : List (Nat × Rat)) (frames : List (List Res)) (gts : List (List Nat)) :
    List LabelInput :=
  let labels := targets.map (·.1)
  targets.zipIdx.map (fun (lt, i) =>
    ⟨lt.1, lt.2, gts.foldl (fun s row => s + row.getD i 0) 0,
      [] :: frames.map (bucket labels lt.1)⟩)

/-- `evaluate_frame` in a tracking task: `[previous, current]` per target label (previous = `[]`
for the first frame), ground-truth numbers of the current frame -/
def frameInputs (targets : List (Nat × Rat)) (prev cur : List Res) (gt : List Nat) : List LabelInput :=
  let labels := targets.map (·.1)
  targets.zipIdx.map (fun (lt, i) =>
    ⟨lt.1, lt.2, gt.getD i 0, [bucket labels lt.1 prev, bucket labels lt.1 cur]⟩)

/-- the tracking scores of every frame result of a run of the manager -/
def frameScores (maximize : Bool) (targets : List (Nat × Rat)) :
    List Res → List (List Res) → List (List Nat) → List (List Out × (Option Rat × Option Rat × Nat))
  | _, [], _ => []
  | prev, cur :: rest, gts =>
    trackingScore maximize (frameInputs targets prev cur (gts.headD [])) ::
      frameScores maximize targets cur rest (gts.drop 1)

end PEval.Clear
