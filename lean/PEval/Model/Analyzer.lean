import PEval.Model.Basic
import PEval.Model.FrameChange
/-!
# C19 — model of the analysis tables (`tool/perception_analyzer_base.py`, `tool/perception_analyzer3d.py`,
`tool/utils.py`, `evaluation/result/perception_frame_result.py:get_object_status`, `common/status.py`)

A frame result is modelled by its four pass/fail lists (`PassFailResult`): TP results, FP results
(with optional ground truth), TN objects, FN objects, plus the list of critical ground-truth objects
(`frame_ground_truth.objects`).  Objects carry the columns of the table that are rational: uuid,
label, ego-frame `x`,`y`, yaw as half-turns `τ` (angle = τ·π, DESIGN §4.2), width, length, velocity.

The pandas `DataFrame` with `MultiIndex (i, side)` is a list of `RowPair`s: index `i`, the
`ground_truth` row and the `estimation` row (`none` = the all-NaN row `format2dict` writes for a missing
partner).  `Table.rows` is the flat view in DataFrame order.

The model follows the code, including finding F11: an ordinary ground truth paired with an estimate
that fails the threshold sits in the FP row pair *and* in an FN row, so `numGroundTruth` and
`getObjectStatus` see it twice.
-/

namespace PEval.Analyzer

/-! ## objects, results, frames -/

inductive Status where
  | TP | FP | TN | FN
  deriving DecidableEq, Repr, Inhabited

def Status.toString : Status → String
  | .TP => "TP" | .FP => "FP" | .TN => "TN" | .FN => "FN"

/-- the columns of a `DynamicObject` that the tables use (ego frame) -/
structure Obj where
  uuid : String
  label : String
  x : Rat
  y : Rat
  /-- yaw in half-turns, in [-1, 1] (`yaw_pitch_roll[0] / π`) -/
  yaw : Rat
  width : Rat
  length : Rat
  vx : Option Rat
  vy : Option Rat
  deriving DecidableEq, Repr

/-- `str(AutowareLabel.FP)` -/
def fpLabel : String := "false_positive"

/-- `semantic_label.is_fp()` -/
def Obj.isFp (o : Obj) : Bool := o.label == fpLabel

/-- `DynamicObjectWithPerceptionResult`: an estimate and its (optional) ground truth -/
structure Pair where
  est : Obj
  gt : Option Obj
  deriving DecidableEq, Repr

/-- the pass/fail lists of one `PerceptionFrameResult` and its critical ground truth -/
structure Frame where
  /-- `int(frame.frame_name)` -/
  frameNum : Nat
  tp : List Pair
  fp : List Pair
  tn : List Obj
  fn : List Obj
  /-- `frame.frame_ground_truth.objects` (after the critical-object filter) -/
  critical : List Obj
  deriving Repr

/-! ## `PassFailResult.evaluate` (`get_positive_objects`, `get_negative_objects`) -/

/-- `DynamicObjectWithPerceptionResult.get_status`, given the outcome of `is_result_correct` -/
def getStatus (p : Pair) (correct : Bool) : Status × Option Status :=
  match p.gt with
  | none => (.FP, none)
  | some g =>
    if correct then (if g.isFp then (.FP, some .TN) else (.TP, some .TP))
    else (if g.isFp then (.FP, some .FP) else (.FP, some .FN))

/-- `get_positive_objects`: (TP results, FP results), in the order of the loop -/
def getPositive : List (Pair × Bool) → List Pair × List Pair
  | [] => ([], [])
  | (p, c) :: rest =>
    let r := getPositive rest
    match p.gt with
    | none => (r.1, p :: r.2)
    | some _ =>
      match getStatus p c with
      | (.FP, some .TN) => (r.1, ⟨p.est, none⟩ :: r.2)
      | (.FP, _) => (r.1, p :: r.2)
      | (.TP, some .TP) => (p :: r.1, r.2)
      | _ => r

/-- ground truths of the results whose GT status satisfies `q` (first loop of `get_negative_objects`) -/
def gtsWith (q : Option Status → Bool) (results : List (Pair × Bool)) : List Obj :=
  results.filterMap fun (p, c) => if q (getStatus p c).2 then p.gt else none

/-- `get_negative_objects`: (TN objects, FN objects). `in non_candidates` is `DynamicObject.__eq__`,
modelled by equality of the record (hypothesis: distinct ground truths differ under `__eq__`). -/
def getNegative (critical : List Obj) (results : List (Pair × Bool)) : List Obj × List Obj :=
  let tn1 := gtsWith (· == some .TN) results
  let fn1 := gtsWith (· == some .FN) results
  let nonCand := gtsWith (·.isSome) results
  let rest := critical.filter fun g => !(nonCand.contains g)
  (tn1 ++ rest.filter (·.isFp), fn1 ++ rest.filter (fun g => !g.isFp))

/-- `PassFailResult.evaluate` as a frame -/
def passFail (frameNum : Nat) (critical : List Obj) (results : List (Pair × Bool)) : Frame :=
  let pos := getPositive results
  let neg := getNegative critical results
  { frameNum := frameNum, tp := pos.1, fp := pos.2, tn := neg.1, fn := neg.2, critical := critical }

/-! ## areas (`generate_area_points`, `get_area_idx`) -/

structure Areas where
  upperRights : List (Rat × Rat)
  bottomLefts : List (Rat × Rat)
  deriving Repr

/-- `generate_area_points` for `max_x, max_y ≠ 0`: `np.arange(m, -m, -2m/3) = [m, m/3, -m/3]`,
`np.arange(-m, m, 2m/3)[::-1] = [m/3, -m/3, -m]`; the 9-division is the row-major meshgrid. -/
def generateAreaPoints (n : Nat) (maxX maxY : Rat) : Except Err Areas :=
  let rightX := [maxX, maxX / 3, -maxX / 3]
  let leftX := [maxX / 3, -maxX / 3, -maxX]
  if n = 1 then .ok ⟨[(maxX, -maxY)], [(-maxX, maxY)]⟩
  else if n = 3 then
    .ok ⟨rightX.map (fun x => (x, -maxY)), leftX.map (fun x => (x, maxY))⟩
  else if n = 9 then
    let rightY := [maxY / 3, -maxY / 3, -maxY]
    let leftY := [maxY, maxY / 3, -maxY / 3]
    .ok ⟨rightY.flatMap (fun y => rightX.map (fun x => (x, y))),
         leftY.flatMap (fun y => leftX.map (fun x => (x, y)))⟩
  else .error "ValueError"

def insideArea (ur bl : Rat × Rat) (x y : Rat) : Bool :=
  (x < ur.1 && x > bl.1) && (y > ur.2 && y < bl.2)

/-- the indices `np.where(is_x_inside * is_y_inside)[0]` -/
def areaHits (a : Areas) (x y : Rat) : List Nat :=
  (((a.upperRights.zip a.bottomLefts).map fun (ur, bl) => insideArea ur bl x y).zipIdx.filter (·.1)).map (·.2)

/-- `get_area_idx` on the ego-frame position: `None` outside every area; `.item()` raises
`ValueError` when more than one area matches -/
def getAreaIdx (a : Areas) (x y : Rat) : Except Err (Option Nat) :=
  match areaHits a x y with
  | [] => .ok none
  | [i] => .ok (some i)
  | _ => .error "ValueError"

/-- the area function used by the table (`none` also on the error path, which the driver reports
separately and `Lemmas/Analyzer` shows unreachable for generated areas) -/
def areaOf (a : Areas) (x y : Rat) : Option Nat :=
  match getAreaIdx a x y with
  | .ok r => r
  | .error _ => none

/-! ## the table (`format2dict`, `format2df`, `add_frame`, `add`) -/

/-- one non-NaN row of the DataFrame -/
structure Cell where
  status : Status
  obj : Obj
  area : Option Nat
  frame : Nat
  scene : Nat
  deriving DecidableEq, Repr

/-- the two rows `(index, "ground_truth")`, `(index, "estimation")` -/
structure RowPair where
  index : Nat
  gt : Option Cell
  est : Option Cell
  deriving DecidableEq, Repr

abbrev Table := List RowPair

inductive Side where
  | groundTruth | estimation
  deriving DecidableEq, Repr

/-- the DataFrame rows in order -/
def Table.rows (t : Table) : List (Nat × Side × Option Cell) :=
  t.flatMap fun r => [(r.index, .groundTruth, r.gt), (r.index, .estimation, r.est)]

/-- `format2dict` for a `DynamicObjectWithPerceptionResult` (the area is that of the estimate) -/
def resultCells (area : Rat → Rat → Option Nat) (scene frame : Nat) (st : Status) (p : Pair) :
    Option Cell × Option Cell :=
  let a := area p.est.x p.est.y
  (p.gt.map fun g => ⟨st, g, a, frame, scene⟩, some ⟨st, p.est, a, frame, scene⟩)

/-- `format2dict` for a `DynamicObject` with status TN / FN (ground-truth side only) -/
def objectCells (area : Rat → Rat → Option Nat) (scene frame : Nat) (st : Status) (o : Obj) :
    Option Cell × Option Cell :=
  (some ⟨st, o, area o.x o.y, frame, scene⟩, none)

/-- `format2df`: `enumerate(object_results, start=start)` -/
def format2df {α : Type} (mk : α → Option Cell × Option Cell) : List α → Nat → Table
  | [], _ => []
  | a :: l, i => ⟨i, (mk a).1, (mk a).2⟩ :: format2df mk l (i + 1)

/-- `add_frame` (scene = `self.num_scene` while `add` runs) -/
def addFrame (area : Rat → Rat → Option Nat) (scene : Nat) (t : Table) (f : Frame) : Table :=
  let start := t.length
  let tpDf := format2df (resultCells area scene f.frameNum .TP) f.tp start
  let start := start + tpDf.length
  let fpDf := format2df (resultCells area scene f.frameNum .FP) f.fp start
  let start := start + fpDf.length
  let tnDf := format2df (objectCells area scene f.frameNum .TN) f.tn start
  let start := start + tnDf.length
  let fnDf := format2df (objectCells area scene f.frameNum .FN) f.fn start
  t ++ tpDf ++ fpDf ++ tnDf ++ fnDf

structure Analyzer where
  numScene : Nat := 0
  numFrame : Nat := 0
  table : Table := []
  deriving Repr

/-- `add(frame_results)` -/
def Analyzer.add (area : Rat → Rat → Option Nat) (a : Analyzer) (frames : List Frame) : Analyzer :=
  { numScene := a.numScene + 1
    numFrame := a.numFrame + frames.length
    table := frames.foldl (addFrame area a.numScene) a.table }

/-- one `add` per scene on a fresh analyzer -/
def addAll (area : Rat → Rat → Option Nat) (scenes : List (List Frame)) : Analyzer :=
  scenes.foldl (Analyzer.add area) {}

/-! ## selections (`filter`/`get`, `get_ground_truth`, `get_estimation`, `filter_by_distance`) -/

/-- keyword selections; a scalar `item` is a singleton list -/
structure Sel where
  labels : Option (List String) := none
  scenes : Option (List Nat) := none
  frames : Option (List Nat) := none
  areas : Option (List Nat) := none
  statuses : Option (List Status) := none
  uuids : Option (List String) := none
  deriving Repr

def keyMatch {β : Type} [BEq β] (sel : Option (List β)) (v : Option β) : Bool :=
  match sel with
  | none => true
  | some l => match v with
    | some b => l.contains b
    | none => false

/-- row-wise selection (`get_ground_truth(df, **kwargs)`): every key must match on this row -/
def Cell.matches (s : Sel) (c : Cell) : Bool :=
  keyMatch s.labels (some c.obj.label) && keyMatch s.scenes (some c.scene) &&
  keyMatch s.frames (some c.frame) && keyMatch s.areas c.area &&
  keyMatch s.statuses (some c.status) && keyMatch s.uuids (some c.obj.uuid)

def RowPair.anySide (r : RowPair) (p : Cell → Bool) : Bool := r.gt.any p || r.est.any p

/-- one keyword of `filter`: absent (`item is None`) imposes nothing; otherwise some row of the
pair must match it (`cur_mask.groupby(level=0).any()`) -/
def RowPair.keyKeep {β : Type} [BEq β] (sel : Option (List β)) (get : Cell → Option β) (r : RowPair) : Bool :=
  sel.isNone || r.anySide (fun c => keyMatch sel (get c))

/-- group-wise selection (`filter`): the masks of the keywords are multiplied -/
def RowPair.keep (s : Sel) (r : RowPair) : Bool :=
  r.keyKeep s.labels (fun c => some c.obj.label) &&
  r.keyKeep s.scenes (fun c => some c.scene) &&
  r.keyKeep s.frames (fun c => some c.frame) &&
  r.keyKeep s.areas (fun c => c.area) &&
  r.keyKeep s.statuses (fun c => some c.status) &&
  r.keyKeep s.uuids (fun c => some c.obj.uuid)

/-- `filter(**kwargs)` / `get(**kwargs)` -/
def Table.select (s : Sel) (t : Table) : Table := t.filter (·.keep s)

/-- `d0 ≤ ‖(x,y)‖ < d1` without square roots -/
def inDistance (d : Rat × Rat) (c : Cell) : Bool :=
  let r2 := c.obj.x * c.obj.x + c.obj.y * c.obj.y
  (d.1 ≤ 0 || d.1 * d.1 ≤ r2) && (0 < d.2 && r2 < d.2 * d.2)

/-- `filter_by_distance` -/
def filterByDistance (d : Rat × Rat) (t : Table) : Except Err Table :=
  if d.1 < d.2 then .ok (t.filter fun r => r.anySide (inDistance d)) else .error "AssertionError"

/-- the sub-table every public selection entry point works on — `analyze(**kwargs, distance=d)`,
`filter_by_distance(d, get(**kwargs))`: the keyword selection (`get` / `filter`), then the distance
selection.  A row PAIR is kept or dropped as a whole (`analyze_eq_selectTable`: `analyze` computes on
exactly this table). -/
def selectTable (full : Table) (s : Sel) (distance : Option (Rat × Rat)) : Except Err Table :=
  match distance with
  | none => .ok (full.select s)
  | some d => filterByDistance d (full.select s)

/-- the pair predicate of a selection: every given keyword is matched by SOME row of the pair, and (if a
distance range is given) SOME row of the pair lies in `[d0, d1)` — the two rows may be different ones -/
def RowPair.selected (s : Sel) (distance : Option (Rat × Rat)) (r : RowPair) : Bool :=
  r.keep s && (match distance with
    | none => true
    | some d => r.anySide (inDistance d))

/-- `get_ground_truth`: ground-truth rows with a status, then the keyword filters -/
def getGroundTruth (t : Table) (s : Sel := {}) : List Cell :=
  (t.filterMap (·.gt)).filter (·.matches s)

/-- `get_estimation` -/
def getEstimation (t : Table) (s : Sel := {}) : List Cell :=
  (t.filterMap (·.est)).filter (·.matches s)

def countStatus (st : Status) (cs : List Cell) : Nat := cs.countP (·.status == st)

def getNumGroundTruth (t : Table) (s : Sel := {}) : Nat := (getGroundTruth t s).length
def getNumEstimation (t : Table) (s : Sel := {}) : Nat := (getEstimation t s).length
def getNumTP (t : Table) (s : Sel := {}) : Nat := countStatus .TP (getEstimation t s)
def getNumFP (t : Table) (s : Sel := {}) : Nat := countStatus .FP (getEstimation t s)
def getNumTN (t : Table) (s : Sel := {}) : Nat := countStatus .TN (getGroundTruth t s)
def getNumFN (t : Table) (s : Sel := {}) : Nat := countStatus .FN (getGroundTruth t s)

/-- the `num_*` properties. On the initial empty frame `df.xs(..., level=1)` raises `TypeError`
(its index is not a MultiIndex) — finding N2.  Whether the analyzer under test still does so is probed
by the harness on the real class and handed over as `emptyRaises` (a repaired analyzer returns 0). -/
def numProp (emptyRaises : Bool) (t : Table) (v : Nat) : Except Err Nat :=
  if emptyRaises && t.isEmpty then .error "TypeError" else .ok v

def numGroundTruth (er : Bool) (t : Table) : Except Err Nat := numProp er t (getNumGroundTruth t)
def numEstimation (er : Bool) (t : Table) : Except Err Nat := numProp er t (getNumEstimation t)
def numTP (er : Bool) (t : Table) : Except Err Nat := numProp er t (getNumTP t)
def numFP (er : Bool) (t : Table) : Except Err Nat := numProp er t (getNumFP t)
def numTN (er : Bool) (t : Table) : Except Err Nat := numProp er t (getNumTN t)
def numFN (er : Bool) (t : Table) : Except Err Nat := numProp er t (getNumFN t)

/-! ## errors (`get_pair_results`, `calculate_error`, `summarize_error`) -/

/-- `get_pair_results`: pairs whose two rows both carry a status -/
def getPairResults (t : Table) : List (Cell × Cell) :=
  t.filterMap fun r =>
    match r.gt, r.est with
    | some g, some e => some (g, e)
    | _, _ => none

/-- row-wise `df[df["status"].isin(l)]` -/
def rowFilterStatus (l : List Status) (t : Table) : Table :=
  t.map fun r => { r with gt := r.gt.filter (fun c => l.contains c.status),
                          est := r.est.filter (fun c => l.contains c.status) }

inductive Col where
  | x | y | yaw | length | width | vx | vy
  deriving DecidableEq, Repr

def Col.get (c : Col) (o : Obj) : Option Rat :=
  match c with
  | .x => some o.x | .y => some o.y | .yaw => some o.yaw
  | .length => some o.length | .width => some o.width
  | .vx => o.vx | .vy => o.vy

def Col.name : Col → String
  | .x => "x" | .y => "y" | .yaw => "yaw" | .length => "length" | .width => "width"
  | .vx => "vx" | .vy => "vy"

/-- the yaw wrap of `calculate_error` in half-turns: `err[err > π] -= 2π` then `err[err < -π] += 2π` -/
def wrapYaw (d : Rat) : Rat :=
  let d1 := if d > 1 then d - 2 else d
  if d1 < -1 then d1 + 2 else d1

/-- GT − estimate of one paired row (`none` = NaN) -/
def pairError (col : Col) (p : Cell × Cell) : Option Rat :=
  match col.get p.1.obj, col.get p.2.obj with
  | some a, some b => some (if col = .yaw then wrapYaw (a - b) else a - b)
  | _, _ => none

/-- `calculate_error(column, df)` with `remove_nan=False` (`none` = NaN) -/
def calculateError (col : Col) (t : Table) : List (Option Rat) :=
  let t' := rowFilterStatus [.TP, .FP, .TN] t
  if t'.any (·.gt.isSome) && t'.any (·.est.isSome) then (getPairResults t').map (pairError col)
  else []

structure Summary where
  average : Rat
  /-- square of the reported RMS -/
  rms2 : Rat
  /-- square of the reported standard deviation -/
  var : Rat
  max : Rat
  min : Rat
  deriving DecidableEq, Repr

def sumR (l : List Rat) : Rat := l.foldr (· + ·) 0

/-- `_summarize` on a non-empty error array -/
def summarize (errs : List Rat) : Option Summary :=
  match errs with
  | [] => none
  | e :: es =>
    let n : Rat := (errs.length : Nat)
    let avg := sumR errs / n
    some { average := avg
           rms2 := sumR (errs.map fun v => v * v) / n
           var := sumR (errs.map fun v => (v - avg) * (v - avg)) / n
           max := es.foldl (fun m v => if m < v.abs then v.abs else m) e.abs
           min := es.foldl (fun m v => if v.abs < m then v.abs else m) e.abs }

def summaryCols : List Col := [.x, .y, .yaw, .length, .width, .vx, .vy]

/-- the inner `_summarize(column, df_)` for every modelled column (`remove_nan=True`) -/
def summarizeCols (df : Table) : List (Col × Option Summary) :=
  summaryCols.map fun c =>
    (c, if df.isEmpty then none else summarize ((calculateError c df).filterMap id))

/-- `summarize_error(df)`: "ALL" on the selected frame, each label on `self.df.loc[index]` -/
def summarizeError (labels : List String) (full sel : Table) :
    List (String × List (Col × Option Summary)) :=
  ("ALL", summarizeCols sel) :: labels.map fun L =>
    let idx := (sel.filter fun r =>
      r.gt.any fun c => [Status.TP, .FP, .TN].contains c.status && c.obj.label == L).map (·.index)
    (L, if idx.isEmpty then summarizeCols [] else summarizeCols (full.filter fun r => idx.contains r.index))

/-! ## rates (`summarize_ratio`) -/

structure Ratio where
  tp : Rat
  fp : Rat
  tn : Rat
  fn : Rat
  deriving DecidableEq, Repr

def ratioOf (t : Table) (s : Sel) : Ratio :=
  let nGT := getNumGroundTruth t s
  if nGT > 0 then
    let tp := getNumTP t s
    let fp := getNumFP t s
    { tp := (tp : Rat) / nGT
      fp := if tp + fp ≠ 0 then (fp : Rat) / ((tp + fp : Nat) : Rat) else 0
      tn := (getNumTN t s : Rat) / nGT
      fn := (getNumFN t s : Rat) / nGT }
  else ⟨0, 0, 0, 0⟩

/-- `summarize_ratio(df)`: "ALL" then one row per target label -/
def summarizeRatio (labels : List String) (t : Table) : List (String × Ratio) :=
  ("ALL", ratioOf t {}) :: labels.map fun L => (L, ratioOf t { labels := some [L] })

/-! ## confusion matrix (`get_confusion_matrix`) -/

def confusionLabels (labels : List String) : List String :=
  if labels.contains "unknown" then labels else labels ++ ["unknown"]

/-- `label.apply(lambda l: target_labels.index(l))` -/
def labelIndices (tl : List String) : List String → Except Err (List Nat)
  | [] => .ok []
  | l :: ls =>
    match tl.idxOf? l with
    | none => .error "ValueError"
    | some i =>
      match labelIndices tl ls with
      | .ok is => .ok (i :: is)
      | .error e => .error e

/-- `np.bincount(indices, minlength=n*n).reshape(n, n)` -/
def bincountMatrix (n : Nat) (indices : List Nat) : List (List Nat) :=
  (List.range n).map fun i => (List.range n).map fun j => indices.count (n * i + j)

/-- the body of `get_confusion_matrix` for a given index `tl` of the matrix (row / column labels) -/
def confusionWith (tl : List String) (t : Table) : Except Err (Option (List (List Nat))) :=
  if t.isEmpty then .ok none else
  let pairs := getPairResults t
  match labelIndices tl (pairs.map (·.1.obj.label)), labelIndices tl (pairs.map (·.2.obj.label)) with
  | .ok gi, .ok ei =>
    let n := tl.length
    let indices := (gi.zip ei).map fun (g, e) => n * g + e
    if indices.isEmpty then .ok none else .ok (some (bincountMatrix n indices))
  | .error e, _ => .error e
  | _, .error e => .error e

/-- PRE-FIX behaviour (finding N3, repaired by `fix:` 24663d1): the index is `target_labels + ["unknown"]` only, and
`target_labels.index(label)` raised `ValueError` for a paired row with any other label.  Kept for the characterising
theorems (`PEval.C19.confusion_error_iff` …). -/
def getConfusionMatrixOld (labels : List String) (t : Table) : Except Err (Option (List (List Nat))) :=
  confusionWith (confusionLabels labels) t

/-- `for label in pd.concat([gt_df["label"], est_df["label"]]).unique(): if label not in target_labels: append` -/
def extendLabels (tl : List String) (ls : List String) : List String :=
  ls.foldl (fun acc l => if acc.contains l then acc else acc ++ [l]) tl

/-- the index of the matrix after the repair: `target_labels`, `"unknown"`, then every other label met in the paired
rows, in order of first occurrence — the ground-truth column's labels in row order first, then the estimate column's -/
def confusionIndex (labels : List String) (t : Table) : List String :=
  let pairs := getPairResults t
  extendLabels (confusionLabels labels) (pairs.map (·.1.obj.label) ++ pairs.map (·.2.obj.label))

/-- `get_confusion_matrix(df)` (repaired code) -/
def getConfusionMatrix (labels : List String) (t : Table) : Except Err (Option (List (List Nat))) :=
  confusionWith (confusionIndex labels t) t

/-! ## `analyze` -/

structure Analysis where
  ratio : List (String × Ratio)
  error : List (String × List (Col × Option Summary))
  confusion : Option (List (List Nat))
  deriving Repr

/-- `analyze(**kwargs)` without the metric-score columns (they belong to C04/C05) -/
def analyze (labels : List String) (full : Table) (s : Sel) (distance : Option (Rat × Rat)) :
    Except Err (Option Analysis) :=
  let df := full.select s
  let dfE : Except Err Table :=
    match distance with
    | none => .ok df
    | some d => filterByDistance d df
  match dfE with
  | .error e => .error e
  | .ok df =>
    if df.isEmpty then .ok none else
    match getConfusionMatrix labels df with
    | .error e => .error e
    | .ok cm => .ok (some ⟨summarizeRatio labels df, summarizeError labels full df, cm⟩)

/-- PRE-FIX `analyze` (finding N3): the same with `getConfusionMatrixOld` -/
def analyzeOld (labels : List String) (full : Table) (s : Sel) (distance : Option (Rat × Rat)) :
    Except Err (Option Analysis) :=
  match selectTable full s distance with
  | .error e => .error e
  | .ok df =>
    if df.isEmpty then .ok none else
    match getConfusionMatrixOld labels df with
    | .error e => .error e
    | .ok cm => .ok (some ⟨summarizeRatio labels df, summarizeError labels full df, cm⟩)

/-! ## `get_object_status` -/

/-- `GroundTruthStatus` -/
structure GtStatus where
  uuid : String
  total : List Nat := []
  tp : List Nat := []
  fp : List Nat := []
  tn : List Nat := []
  fn : List Nat := []
  deriving DecidableEq, Repr

def GtStatus.addStatus (s : GtStatus) (st : Status) (n : Nat) : GtStatus :=
  match st with
  | .TP => { s with total := s.total ++ [n], tp := s.tp ++ [n] }
  | .FP => { s with total := s.total ++ [n], fp := s.fp ++ [n] }
  | .TN => { s with total := s.total ++ [n], tn := s.tn ++ [n] }
  | .FN => { s with total := s.total ++ [n], fn := s.fn ++ [n] }

/-- one step of the loops: `uuid not in status_infos` → append, else update `status_infos[index(uuid)]` -/
def addTo (uuid : String) (st : Status) (n : Nat) : List GtStatus → List GtStatus
  | [] => [({ uuid := uuid } : GtStatus).addStatus st n]
  | s :: rest => if s.uuid == uuid then s.addStatus st n :: rest else s :: addTo uuid st n rest

/-- the `(uuid, status, frame)` events one frame contributes, in the order of the four loops
(FP results without ground truth are skipped; TP results always carry one) -/
def frameEvents (f : Frame) : List (String × Status × Nat) :=
  (f.tp.filterMap (·.gt)).map (fun g => (g.uuid, Status.TP, f.frameNum)) ++
  (f.fp.filterMap (·.gt)).map (fun g => (g.uuid, Status.FP, f.frameNum)) ++
  f.tn.map (fun g => (g.uuid, Status.TN, f.frameNum)) ++
  f.fn.map (fun g => (g.uuid, Status.FN, f.frameNum))

def getObjectStatus (frames : List Frame) : List GtStatus :=
  (frames.flatMap frameEvents).foldl (fun infos ev => addTo ev.1 ev.2.1 ev.2.2 infos) []

/-! ## objects as they are handed over: `BASE_LINK` or `MAP` frame (`format2dict`, `get_area_idx`)

`Obj` above already holds the ego-frame columns.  The code receives `DynamicObject`s in the frame of the evaluation
(`frame_id` = `base_link` or `map`) together with the frame's transforms (the ego pose `base_link → map`) and brings
every object to `BASE_LINK` itself, twice: in `format2dict`
(`transforms.transform(TransformKey(obj.frame_id, BASE_LINK), position, orientation)`, then `x, y, _ = position`,
`yaw = rotation.yaw_pitch_roll[0]`) and, independently, in `get_area_idx` (`x, y, _ = transforms.transform(key, position)`).
`RawObj` is the object as given, `RawObj.toRow` the row `format2dict` writes, `getAreaIdxRaw` the area lookup.  The height
`z` of the transformed position is discarded by both; velocities are copied untransformed (`state.velocity[:2]`). -/

inductive FrameId where
  | baseLink | map
  deriving DecidableEq, Repr

/-- a `DynamicObject` as handed to the analyzer: position (3-D) and yaw (half-turns, in (-1, 1]) in ITS frame -/
structure RawObj where
  frame : FrameId
  uuid : String
  label : String
  pos : Geometry.V3
  yaw : Rat
  width : Rat
  length : Rat
  vx : Option Rat
  vy : Option Rat
  deriving DecidableEq, Repr

/-- `transforms.transform(TransformKey(frame_id, BASE_LINK), position)`: the input itself when source = destination,
else the inverse of the registered `base_link → map` matrix -/
def egoPosition (e : FrameChange.Pose) (o : RawObj) : Geometry.V3 :=
  match o.frame with
  | .baseLink => o.pos
  | .map => FrameChange.toEgo3 e o.pos

/-- `yaw_pitch_roll[0]` of the transformed orientation: principal value of `yaw − ego yaw` for a map-frame object -/
def egoYaw (e : FrameChange.Pose) (o : RawObj) : Rat :=
  match o.frame with
  | .baseLink => o.yaw
  | .map => Heading.toEgoYaw e.tau o.yaw

/-- the columns `format2dict` writes for one object (`x, y, _ = position`: the height is dropped) -/
def RawObj.toRow (e : FrameChange.Pose) (o : RawObj) : Obj :=
  { uuid := o.uuid, label := o.label, x := (egoPosition e o).x, y := (egoPosition e o).y, yaw := egoYaw e o,
    width := o.width, length := o.length, vx := o.vx, vy := o.vy }

/-- `get_area_idx(object, upper_rights, bottom_lefts, transforms)` -/
def getAreaIdxRaw (a : Areas) (e : FrameChange.Pose) (o : RawObj) : Except Err (Option Nat) :=
  let p := egoPosition e o
  getAreaIdx a p.x p.y

def areaOfRaw (a : Areas) (e : FrameChange.Pose) (o : RawObj) : Option Nat :=
  match getAreaIdxRaw a e o with
  | .ok r => r
  | .error _ => none

/-- the `distance` column, squared: `np.linalg.norm([x, y])` of the ego-frame position -/
def Obj.dist2 (o : Obj) : Rat := o.x * o.x + o.y * o.y

structure RawPair where
  est : RawObj
  gt : Option RawObj
  deriving DecidableEq, Repr

/-- one `PerceptionFrameResult` as given: pass/fail lists of raw objects and the frame's ego pose -/
structure RawFrame where
  ego : FrameChange.Pose
  frameNum : Nat
  tp : List RawPair
  fp : List RawPair
  tn : List RawObj
  fn : List RawObj
  critical : List RawObj
  deriving Repr

/-- `format2dict` for a result given in any frame (area of the ESTIMATE, through `get_area_idx`) -/
def resultCellsRaw (a : Areas) (e : FrameChange.Pose) (scene frame : Nat) (st : Status) (p : RawPair) :
    Option Cell × Option Cell :=
  let ar := areaOfRaw a e p.est
  (p.gt.map fun g => ⟨st, g.toRow e, ar, frame, scene⟩, some ⟨st, p.est.toRow e, ar, frame, scene⟩)

def objectCellsRaw (a : Areas) (e : FrameChange.Pose) (scene frame : Nat) (st : Status) (o : RawObj) :
    Option Cell × Option Cell :=
  (some ⟨st, o.toRow e, areaOfRaw a e o, frame, scene⟩, none)

/-- `add_frame` on a frame result given in any frame -/
def addFrameRaw (a : Areas) (scene : Nat) (t : Table) (f : RawFrame) : Table :=
  let start := t.length
  let tpDf := format2df (resultCellsRaw a f.ego scene f.frameNum .TP) f.tp start
  let start := start + tpDf.length
  let fpDf := format2df (resultCellsRaw a f.ego scene f.frameNum .FP) f.fp start
  let start := start + fpDf.length
  let tnDf := format2df (objectCellsRaw a f.ego scene f.frameNum .TN) f.tn start
  let start := start + tnDf.length
  let fnDf := format2df (objectCellsRaw a f.ego scene f.frameNum .FN) f.fn start
  t ++ tpDf ++ fpDf ++ tnDf ++ fnDf

def Analyzer.addRaw (ar : Areas) (a : Analyzer) (frames : List RawFrame) : Analyzer :=
  { numScene := a.numScene + 1
    numFrame := a.numFrame + frames.length
    table := frames.foldl (addFrameRaw ar a.numScene) a.table }

def addAllRaw (ar : Areas) (scenes : List (List RawFrame)) : Analyzer :=
  scenes.foldl (Analyzer.addRaw ar) {}

/-- the ego-frame view of a raw pair / frame: what the older part of the model starts from -/
def RawPair.toPair (e : FrameChange.Pose) (p : RawPair) : Pair := ⟨p.est.toRow e, p.gt.map (·.toRow e)⟩

def RawFrame.toFrame (f : RawFrame) : Frame :=
  { frameNum := f.frameNum, tp := f.tp.map (·.toPair f.ego), fp := f.fp.map (·.toPair f.ego),
    tn := f.tn.map (·.toRow f.ego), fn := f.fn.map (·.toRow f.ego), critical := f.critical.map (·.toRow f.ego) }

/-- the two renderings of one physical object whose ego-frame description is `o` (`o.frame = baseLink`):
as it is, or moved into the map frame by the ego pose (position by the rigid motion incl. heights, yaw as the
principal value of the sum; what a dataset in the map frame holds) -/
def RawObj.renderMap (e : FrameChange.Pose) (o : RawObj) : RawObj :=
  { o with frame := .map, pos := e.motion.apply3 o.pos, yaw := Heading.wrapYaw (o.yaw + e.tau) }

def RawPair.renderMap (e : FrameChange.Pose) (p : RawPair) : RawPair := ⟨p.est.renderMap e, p.gt.map (·.renderMap e)⟩

def RawFrame.renderMap (f : RawFrame) : RawFrame :=
  { f with tp := f.tp.map (·.renderMap f.ego), fp := f.fp.map (·.renderMap f.ego), tn := f.tn.map (·.renderMap f.ego),
           fn := f.fn.map (·.renderMap f.ego), critical := f.critical.map (·.renderMap f.ego) }

/-- DEFECTIVE variant (kept for the witness `toRow_noTransform_fails`): the object's own coordinates are tabulated,
whatever its frame -/
def RawObj.toRowNoTransform (o : RawObj) : Obj :=
  { uuid := o.uuid, label := o.label, x := o.pos.x, y := o.pos.y, yaw := o.yaw,
    width := o.width, length := o.length, vx := o.vx, vy := o.vy }

/-! ## `get_confusion_matrix`, variants for the witness examples of N3

`getConfusionMatrixOld` above is the pre-fix code: `target_labels.index(label)` raised `ValueError` for a label outside
`target_labels + ["unknown"]`.  `getConfusionMatrixSkip` is a DEFECTIVE variant that silently drops such rows (the
matrix then sums to fewer than the paired rows); `getConfusionMatrixExt` spells the repair as "the old function on the
extended label list" (`getConfusionMatrixExt_eq`: it is the repaired `getConfusionMatrix`). -/

def labelIndicesSkip (tl : List String) (pairs : List (String × String)) : List (Nat × Nat) :=
  pairs.filterMap fun (g, e) =>
    match tl.idxOf? g, tl.idxOf? e with
    | some i, some j => some (i, j)
    | _, _ => none

def getConfusionMatrixSkip (labels : List String) (t : Table) : Option (List (List Nat)) :=
  let pairs := getPairResults t
  let tl := confusionLabels labels
  let n := tl.length
  let indices := (labelIndicesSkip tl (pairs.map fun p => (p.1.obj.label, p.2.obj.label))).map fun (g, e) => n * g + e
  if indices.isEmpty then none else some (bincountMatrix n indices)

def getConfusionMatrixExt (labels : List String) (t : Table) : Except Err (Option (List (List Nat))) :=
  getConfusionMatrixOld (confusionIndex labels t) t

/-! ## `summarize_error`, DEFECTIVE variant for the witness example: per-label rows chosen by the ESTIMATE's label -/

def summarizeErrorByEst (labels : List String) (full sel : Table) :
    List (String × List (Col × Option Summary)) :=
  ("ALL", summarizeCols sel) :: labels.map fun L =>
    let idx := (sel.filter fun r =>
      r.est.any fun c => [Status.TP, .FP, .TN].contains c.status && c.obj.label == L).map (·.index)
    (L, if idx.isEmpty then summarizeCols [] else summarizeCols (full.filter fun r => idx.contains r.index))

/-! ## `GroundTruthStatus.get_status_rates`, `StatusRate.rate`, `get_scene_rates` (`common/status.py`) -/

/-- `StatusRate.rate`: `num_status / num_total if num_status != 0 and num_total != 0 else float("inf")`
(`none` = `inf`: also for a status that never occurred) -/
def statusRate (numStatus numTotal : Nat) : Option Rat :=
  if numStatus ≠ 0 ∧ numTotal ≠ 0 then some ((numStatus : Rat) / (numTotal : Rat)) else none

/-- `get_status_rates()`: (TP, FP, TN, FN) order -/
def GtStatus.statusRates (s : GtStatus) : List (Status × Option Rat) :=
  [(.TP, statusRate s.tp.length s.total.length), (.FP, statusRate s.fp.length s.total.length),
   (.TN, statusRate s.tn.length s.total.length), (.FN, statusRate s.fn.length s.total.length)]

structure SceneCounts where
  total : Nat := 0
  tp : Nat := 0
  fp : Nat := 0
  tn : Nat := 0
  fn : Nat := 0
  deriving DecidableEq, Repr

/-- the accumulation loop of `get_scene_rates` -/
def sceneCounts (l : List GtStatus) : SceneCounts :=
  l.foldl (fun c s => { total := c.total + s.total.length, tp := c.tp + s.tp.length, fp := c.fp + s.fp.length,
                        tn := c.tn + s.tn.length, fn := c.fn + s.fn.length }) {}

/-- `get_scene_rates(status_list)`: `none` = the four `inf` of an empty tally -/
def sceneRates (l : List GtStatus) : Option (Rat × Rat × Rat × Rat) :=
  let c := sceneCounts l
  if c.total = 0 then none
  else some ((c.tp : Rat) / c.total, (c.fp : Rat) / c.total, (c.tn : Rat) / c.total, (c.fn : Rat) / c.total)

end PEval.Analyzer
