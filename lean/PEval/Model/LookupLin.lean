import PEval.Model.LookupTable
/-!
A SEMANTIC check of the decision tables of the ground-truth lookup (C17).

`PEval.LookupDT.equiv` compares two trees atom by atom and treats order atoms of different linear
forms as independent; that pins HOW the code compares (which linear forms it tests, which of several
equidistant frames it keeps, what it does on lists that are not time-ordered).  The property is
weaker: "returns the loaded frame closest in time if it is within the tolerance and nothing
otherwise", over "all time-ordered frame lists".  This file holds a checker for exactly that:

* every order atom is an integer affine form over `q`, `tol`, `t i` once the sign of every
  `q - t i` is fixed (`|q - t i|` is then `q - t i` or `t i - q`): `Atom.aff`;
* a path of the tree is a list of constraints `form ≤ 0`; infeasibility over the integers is shown by
  Fourier-Motzkin elimination (`refute`; sound, not complete: a `false` only means "not shown");
* `nowRowOk n tree`: on EVERY time-ordered (non-decreasing) list of `n ≥ 1` stamps, every query time
  `q ≤ 10^17` and every tolerance, the leaf reached is `frame k` with `|q - t k|` minimal and
  `≤ tol`, or `none` with every `|q - t j| > tol` — ANY arg-min, whichever comparison forms the
  code uses;
* `eqRowOk n code skel`: on every STRICTLY increasing list of `n` stamps the two trees reach the same
  leaf (used for `get_interpolated_now_frame`, whose answer is determined there).

Core Lean only; soundness in `PEval/Lemmas/LookupLin.lean`.
-/
namespace PEval.LookupDT

/-- affine form `Σ c_k x_k + k` over the variables `x = q :: tol :: ts` -/
structure Aff where
  c : List Int
  k : Int
deriving DecidableEq, Repr, Inhabited

def dot : List Int → List Int → Int
  | a :: as, b :: bs => a * b + dot as bs
  | _, _ => 0

def Aff.eval (x : List Int) (f : Aff) : Int := dot f.c x + f.k

def addL : List Int → List Int → List Int
  | a :: as, b :: bs => (a + b) :: addL as bs
  | [], bs => bs
  | as, [] => as

def Aff.add (f g : Aff) : Aff := ⟨addL f.c g.c, f.k + g.k⟩
def Aff.smul (a : Int) (f : Aff) : Aff := ⟨f.c.map (fun c => a * c), a * f.k⟩
def Aff.neg (f : Aff) : Aff := f.smul (-1)
def Aff.addConst (f : Aff) (d : Int) : Aff := ⟨f.c, f.k + d⟩

/-- the variable `x_i` -/
def varA (i : Nat) : Aff := ⟨List.replicate i 0 ++ [1], 0⟩
def affQ : Aff := varA 0
def affTol : Aff := varA 1
def affT (i : Nat) : Aff := varA (i + 2)
/-- `q - t i` -/
def affD (i : Nat) : Aff := affQ.add (affT i).neg

/-- `sg[i] = true`: the case `q - t i ≥ 0` (so `|q - t i| = q - t i`); `false`: `q - t i ≤ 0` -/
def affAbs (sg : List Bool) (i : Nat) : Aff := if sg.getD i true then affD i else (affD i).neg

def Leaf.aff (sg : List Bool) : Leaf → Aff
  | .q => affQ
  | .tol => affTol
  | .t i => affT i
  | .absd i => affAbs sg i

def termsAff (sg : List Bool) : List (Int × Leaf) → Aff
  | [] => ⟨[], 0⟩
  | (c, l) :: r => ((l.aff sg).smul c).add (termsAff sg r)

def Atom.aff (sg : List Bool) (a : Atom) : Aff := (termsAff sg a.terms).addConst a.const

/-- every `|q - t i|` of the atom is about one of the `n` frames (anything else is not tabulated: the check fails) -/
def Leaf.inRange (n : Nat) : Leaf → Bool
  | .absd i => decide (i < n)
  | _ => true

def termsOk (n : Nat) : List (Int × Leaf) → Bool
  | [] => true
  | (_, l) :: r => l.inRange n && termsOk n r

def Atom.ok (n : Nat) (a : Atom) : Bool := termsOk n a.terms

/-- the constraints (each `form ≤ 0`, integers) saying that `f` has sign `s` -/
def signCs (f : Aff) : Sign → List Aff
  | .lt => [f.addConst 1]
  | .eq => [f, f.neg]
  | .gt => [f.neg.addConst 1]

/-! ## Fourier-Motzkin refutation -/

def coef (f : Aff) (j : Nat) : Int := f.c.getD j 0

/-- `0·x + k ≤ 0` with `k > 0` -/
def isContra (f : Aff) : Bool := f.c.all (fun c => c == 0) && decide (0 < f.k)

def combine (j : Nat) (p n : Aff) : Aff := (p.smul (-(coef n j))).add (n.smul (coef p j))

/-- consequences of `cs` without the variable `j` -/
def elim (j : Nat) (cs : List Aff) : List Aff :=
  let pos := cs.filter (fun f => decide (0 < coef f j))
  let neg := cs.filter (fun f => decide (coef f j < 0))
  let zer := cs.filter (fun f => coef f j == 0)
  zer ++ pos.flatMap (fun p => neg.map (fun n => combine j p n))

/-- `true` ⇒ no integer point satisfies every `c ≤ 0` -/
def refute : List Nat → List Aff → Bool
  | [], cs => cs.any isContra
  | j :: js, cs => cs.any isContra || refute js (elim j cs)

/-- elimination order: the stamps (last first), the tolerance, the query time -/
def elimOrder (n : Nat) : List Nat := ((List.range n).map (fun i => i + 2)).reverse ++ [1, 0]

/-! ## constraints that hold for every input of the quantifier -/

/-- the sign case of every `q - t i` -/
def sgCs (sg : List Bool) (n : Nat) : List Aff :=
  (List.range n).map (fun i => if sg.getD i true then (affD i).neg else affD i)

/-- `t i ≤ t (i+1)` -/
def sortedCs (n : Nat) : List Aff :=
  (List.range (n - 1)).map (fun i => (affT i).add (affT (i + 1)).neg)

/-- `t i < t (i+1)` -/
def strictCs (n : Nat) : List Aff :=
  (List.range (n - 1)).map (fun i => ((affT i).add (affT (i + 1)).neg).addConst 1)

/-- `q ≤ 10^17` (the unit guard of `get_now_frame` does not fire) -/
def guardC : Aff := affQ.addConst (-100000000000000000)

def allSg : Nat → List (List Bool)
  | 0 => [[]]
  | n + 1 => (allSg n).flatMap (fun s => [true :: s, false :: s])

/-! ## `get_now_frame`: any arg-min within the tolerance -/

/-- what has to be refuted at a leaf: each entry is the NEGATION of one clause of the specification -/
def nowGoals (n : Nat) (sg : List Bool) : Res → List (List Aff)
  | .frame k =>
    if k < n then
      -- `|q - t j| < |q - t k|` for some j, or `tol < |q - t k|`
      (List.range n).map (fun j => [((affAbs sg j).add (affAbs sg k).neg).addConst 1])
        ++ [[(affTol.add (affAbs sg k).neg).addConst 1]]
    else [[]]
  | .none => (List.range n).map (fun j => [(affAbs sg j).add affTol.neg])   -- `|q - t j| ≤ tol`
  | _ => [[]]

def checkNow (n : Nat) (sg : List Bool) : List Aff → DTree → Bool
  | cs, .leaf r => (nowGoals n sg r).all (fun g => refute (elimOrder n) (g ++ cs))
  | cs, .node a l e g =>
    a.ok n && checkNow n sg (signCs (a.aff sg) .lt ++ cs) l && checkNow n sg (signCs (a.aff sg) .eq ++ cs) e
      && checkNow n sg (signCs (a.aff sg) .gt ++ cs) g

def nowRowOk (n : Nat) (t : DTree) : Bool :=
  n == 0 || (allSg n).all (fun sg => checkNow n sg (guardC :: (sgCs sg n ++ sortedCs n)) t)

def nowTableOk (rows : List (Nat × DTree)) : Bool := rows.all (fun p => nowRowOk p.1 p.2)

/-! ## two trees reach the same leaf on every realisable valuation -/

def checkLeafSem (n : Nat) (sg : List Bool) (r : Res) : List (Atom × Sign) → List Aff → DTree → Bool
  | _, cs, .leaf r' => r == r' || refute (elimOrder n) cs
  | dec, cs, .node a l e g =>
    match lookupA a dec with
    | some s => s.pick (checkLeafSem n sg r dec cs l) (checkLeafSem n sg r dec cs e) (checkLeafSem n sg r dec cs g)
    | none =>
      a.ok n && checkLeafSem n sg r ((a, .lt) :: dec) (signCs (a.aff sg) .lt ++ cs) l
        && checkLeafSem n sg r ((a, .eq) :: dec) (signCs (a.aff sg) .eq ++ cs) e
        && checkLeafSem n sg r ((a, .gt) :: dec) (signCs (a.aff sg) .gt ++ cs) g

/-- `dec`: the decisions taken so far (an atom already decided is not split again), `cs`: the same as constraints -/
def checkEq (n : Nat) (sg : List Bool) (t2 : DTree) : List (Atom × Sign) → List Aff → DTree → Bool
  | dec, cs, .leaf r => checkLeafSem n sg r dec cs t2
  | dec, cs, .node a l e g =>
    match lookupA a dec with
    | some s => s.pick (checkEq n sg t2 dec cs l) (checkEq n sg t2 dec cs e) (checkEq n sg t2 dec cs g)
    | none =>
      a.ok n && checkEq n sg t2 ((a, .lt) :: dec) (signCs (a.aff sg) .lt ++ cs) l
        && checkEq n sg t2 ((a, .eq) :: dec) (signCs (a.aff sg) .eq ++ cs) e
        && checkEq n sg t2 ((a, .gt) :: dec) (signCs (a.aff sg) .gt ++ cs) g

/-- agreement on every strictly increasing list of `n` stamps -/
def eqRowOk (n : Nat) (code skel : DTree) : Bool :=
  (allSg n).all (fun sg => checkEq n sg skel [] (sgCs sg n ++ strictCs n) code)

def eqTableOk (rows : List (Nat × DTree)) (skel : Nat → DTree) : Bool :=
  rows.all (fun p => equiv [] p.2 (skel p.1) || eqRowOk p.1 p.2 (skel p.1))

end PEval.LookupDT
