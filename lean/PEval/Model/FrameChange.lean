import PEval.Model.Geometry
import PEval.Model.Heading
import PEval.Model.Filter
/-!
Model for C07: the same physical scene rendered in the ego frame (`BASE_LINK`) and in the map frame
with the ego pose supplied as the frame's `base_link → map` transform.

* positions and footprints move by the rigid motion `p ↦ R p + t` (`Geometry.Motion`, `Box.move`);
* yaws (half-turns, DESIGN §4.2) become `wrapYaw (τ + τ0)`: the orientation quaternion is
  left-multiplied by the ego rotation and `yaw_pitch_roll` returns the principal value;
* the code computes, for map-frame objects,
  - the ego-relative position for range filtering through the inverse transform (`toEgo2`),
  - center distance and IoU directly from the map coordinates,
  - plane distance with the ground-truth corners *ranked* by their distance from the ego (the
    corners are transformed to `base_link` for the sort key only) and the corner-to-corner
    distances taken in map coordinates (`planeDist2Map`),
  - the APH weight from the map yaws (`TPMetricsAph` builds an identity transform),
  - the yaw error from the map yaws.
`scoreRowEgo` / `scoreRowMap` collect what one estimate–ground-truth pair contributes to every
downstream decision (matching, pass/fail, AP/APH, CLEAR) in the two renderings.
-/
namespace PEval.FrameChange
open PEval.Geometry PEval.Heading

/-- ego pose in the map frame: rotation as unit complex number, the same angle in half-turns
(the harness supplies `tau = atan2(s, c)/π`; that `rot` and `tau` describe the same angle is the
bridge assumed in DESIGN §4.2), translation -/
structure Pose where
  rot : Rot2
  tau : Rat
  t : V3
deriving Repr

def Pose.motion (e : Pose) : Motion := ⟨e.rot, e.t⟩

/-- inverse of the planar motion: `p ↦ Rᵀ (p − t)` (what `transform((MAP, BASE_LINK), p)` computes
from the registered `base_link → map` matrix) -/
def toEgo2 (e : Pose) (p : V2) : V2 :=
  let d : V2 := ⟨p.x - e.t.x, p.y - e.t.y⟩
  ⟨e.rot.c * d.x + e.rot.s * d.y, -e.rot.s * d.x + e.rot.c * d.y⟩

/-- a scene object: its box (position, orientation as unit complex, size) and its yaw in half-turns -/
structure Obj where
  box : Box
  tau : Rat
deriving Repr

/-- the map-frame rendering of an ego-frame object -/
def Obj.toMap (e : Pose) (o : Obj) : Obj := ⟨o.box.move e.motion, wrapYaw (o.tau + e.tau)⟩

/-- plane distance (squared) from corner lists with an explicit ranking key per ground-truth corner -/
def planeDist2Keys (keys : List Rat) (est gt : List V2) : Rat :=
  let idx := argsort keys
  let i := idx.getD 0 0
  let j := idx.getD 1 0
  let gtPlane := [gt.getD i V2.zero, gt.getD j V2.zero]
  let estPlane := [est.getD i V2.zero, est.getD j V2.zero]
  let lr := leftRightIndex (gtPlane.getD 0 V2.zero) (gtPlane.getD 1 V2.zero)
  let dl2 := dist2 (estPlane.getD lr.1 V2.zero) (gtPlane.getD lr.1 V2.zero)
  let dr2 := dist2 (estPlane.getD lr.2 V2.zero) (gtPlane.getD lr.2 V2.zero)
  (dl2 + dr2) / 2

/-- `PlaneDistanceMatching` for two map-frame boxes with the ego pose supplied: corners ranked by the
squared distance of their `base_link` image from the origin -/
def planeDist2Map (e : Pose) (est gt : Box) : Rat :=
  planeDist2Keys ((footprint gt).map (fun p => (toEgo2 e p).norm2)) (footprint est) (footprint gt)

/-- everything one estimate–ground-truth pair contributes downstream -/
structure ScoreRow where
  center2 : Rat     -- squared center distance
  plane2 : Rat      -- squared plane distance
  iou2d : Rat
  iou3d : Rat
  aph : Rat         -- heading weight of APH
  yawErr : Rat      -- yaw error in half-turns
deriving DecidableEq, Repr

def scoreRowEgo (est gt : Obj) : ScoreRow :=
  let I := interArea (footprint est.box) (footprint gt.box)
  { center2 := centerDist2 est.box gt.box, plane2 := planeDist2 est.box gt.box,
    iou2d := boxIou2d I est.box gt.box, iou3d := boxIou3d I est.box gt.box,
    aph := aphWeight est.tau gt.tau, yawErr := headingError est.tau gt.tau }

/-- the same pair, both objects given in the map frame, ego pose `e` supplied -/
def scoreRowMap (e : Pose) (est gt : Obj) : ScoreRow :=
  let I := interArea (footprint est.box) (footprint gt.box)
  { center2 := centerDist2 est.box gt.box, plane2 := planeDist2Map e est.box gt.box,
    iou2d := boxIou2d I est.box gt.box, iou3d := boxIou3d I est.box gt.box,
    aph := aphWeight est.tau gt.tau, yawErr := headingError est.tau gt.tau }

/-- ego-relative planar position of an object as the range filter sees it -/
def egoPosEgo (o : Obj) : V2 := o.box.center2
def egoPosMap (e : Pose) (o : Obj) : V2 := toEgo2 e o.box.center2

/-- score table of a scene: one row per estimate, one entry per ground truth -/
def tableEgo (ests gts : List Obj) : List (List ScoreRow) := ests.map (fun a => gts.map (scoreRowEgo a))
def tableMap (e : Pose) (ests gts : List Obj) : List (List ScoreRow) :=
  ests.map (fun a => gts.map (scoreRowMap e a))

/-! ## object identity (`DynamicObject.__eq__`)

`__eq__` compares the time stamp, the label, the position tuple and the orientation quaternion, all
*exactly*. Time stamp and label are frame-free attributes; the frame-dependent part is `samePose`.
`x in list` (`get_negative_objects`: `ground_truth_object in non_candidates`) is `containsPose`. -/

/-- the frame-dependent part of `DynamicObject.__eq__`: equal position and equal orientation -/
def Obj.samePose (a b : Obj) : Bool := a.box.center == b.box.center && a.box.rot == b.box.rot

/-- `o in os` as far as it depends on the frame -/
def containsPose (os : List Obj) (o : Obj) : Bool := os.any (fun x => o.samePose x)

/-- who is equal to whom in a list of objects (row `i`, column `j`: `os[i] == os[j]`) -/
def sameTable (os : List Obj) : List (List Bool) := os.map (fun a => os.map (fun b => a.samePose b))

/-! ## full 3-D content: heights of the objects and of the ego, and every filter criterion

Real scenes are not flat: objects stand several metres above or below the ego (overpasses, ramps),
and the ego's own height in the map is not zero. `transform((MAP, BASE_LINK), position)` inverts the
whole homogeneous matrix (`toEgo3`); the range filter then reads the PLANAR part of the result only:
`abs(position_[0])`, `abs(position_[1])` for the x/y box and `get_distance_bev` =
`hypot(position[0], position[1])` for the distance ring (`bevDist2Map`, squared). The height never
enters a filter decision, whatever the frame (`norm3sq` is what a 3-D norm would give instead).

`filterViewEgo` / `filterViewMap` are what `_is_target_object` (model: `PEval.Filter`, property C10)
reads from a 3-D object of the ego rendering / of the map rendering with the ego pose supplied, together
with the frame-free attributes the other criteria look at (`Tag`: label, attributes, confidence, point
count, uuid). `keptEgo` / `keptMap` run the evaluation config's filter and then the critical object
filter over the ground truths of a frame, as `add_frame_result` does, and return the surviving ids. -/

/-- `transform((MAP, BASE_LINK), p)` in 3-D: inverse planar motion, height relative to the ego -/
def toEgo3 (e : Pose) (p : V3) : V3 :=
  let q := toEgo2 e ⟨p.x, p.y⟩
  ⟨q.x, q.y, p.z - e.t.z⟩

/-- `get_distance_bev()` squared for an ego-frame object -/
def bevDist2Ego (o : Obj) : Rat := o.box.center.x * o.box.center.x + o.box.center.y * o.box.center.y

/-- `get_distance_bev(transforms)` squared for a map-frame object: planar norm of the ego-relative position -/
def bevDist2Map (e : Pose) (o : Obj) : Rat :=
  let p := toEgo3 e o.box.center
  p.x * p.x + p.y * p.y

/-- squared 3-D norm (NOT what the ring filter uses; for contrast in the examples) -/
def norm3sq (p : V3) : Rat := p.x * p.x + p.y * p.y + p.z * p.z

/-- the frame-free attributes of an object that the filter criteria read -/
structure Tag where
  id : Nat
  label : String
  name : String
  attributes : List String
  score : Rat
  pcNum : Option Int
  uuid : Option String
deriving Repr

/-- an object of a scene with its attributes -/
structure Tagged where
  tag : Tag
  obj : Obj
deriving Repr

def Tagged.toMap (e : Pose) (t : Tagged) : Tagged := ⟨t.tag, t.obj.toMap e⟩

/-- what `_is_target_object` reads from an ego-frame object -/
def filterViewEgo (t : Tagged) : Filter.Obj :=
  { id := t.tag.id, label := t.tag.label, name := t.tag.name, attributes := t.tag.attributes, score := t.tag.score,
    pcNum := t.tag.pcNum, uuid := t.tag.uuid, is2d := false, frame := "base_link",
    pos := some ⟨t.obj.box.center.x, t.obj.box.center.y⟩, egoPos := none }

/-- … and from a map-frame object with the ego pose `e` supplied -/
def filterViewMap (e : Pose) (t : Tagged) : Filter.Obj :=
  { id := t.tag.id, label := t.tag.label, name := t.tag.name, attributes := t.tag.attributes, score := t.tag.score,
    pcNum := t.tag.pcNum, uuid := t.tag.uuid, is2d := false, frame := "map",
    pos := some ⟨t.obj.box.center.x, t.obj.box.center.y⟩,
    egoPos := some ⟨(toEgo3 e t.obj.box.center).x, (toEgo3 e t.obj.box.center).y⟩ }

/-- the planar part of the ego pose, as the filter model of C10 spells it -/
def Pose.planar (e : Pose) : Filter.Pose := ⟨e.rot.c, e.rot.s, e.t.x, e.t.y⟩

/-- two filters in a row (evaluation config, then critical object filter); the first error wins -/
def filter2 (Pm Pc : Filter.Params) (os : List Filter.Obj) : Except Err (List Filter.Obj) :=
  match Filter.filterObjects Pm os with
  | .error err => .error err
  | .ok ks => Filter.filterObjects Pc ks

def idsOf (r : Except Err (List Filter.Obj)) : Except Err (List Nat) := r.map (List.map (·.id))

/-- ids of the ground truths that survive both filters, ego rendering (`transforms` is always supplied
by the manager, also for ego-frame objects) -/
def keptEgo (Pm Pc : Filter.Params) (os : List Tagged) : Except Err (List Nat) :=
  idsOf (filter2 { Pm with hasTransforms := true } { Pc with hasTransforms := true } (os.map filterViewEgo))

/-- … map rendering (the objects are given in the map frame) with the ego pose supplied -/
def keptMap (e : Pose) (Pm Pc : Filter.Params) (os : List Tagged) : Except Err (List Nat) :=
  idsOf (filter2 { Pm with hasTransforms := true } { Pc with hasTransforms := true } (os.map (filterViewMap e)))

end PEval.FrameChange
