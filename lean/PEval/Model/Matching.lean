import PEval.Model.Basic
/-!
# Model of the two-stage greedy matcher (`evaluation/result/object_result.py`)

Anchors: `get_object_results`, `_get_score_table`, `_get_fp_object_results`, `_get_matching_module`,
`MatchingLabelPolicy.is_matchable`, `MatchingMethod.is_better_than` (four modes),
`common/threshold.py: get_label_threshold`.

What the matcher reads of an object is its label and its frame id (`Obj`); the matching score of a
pair (`MatchingMethod.value`, a float) is an *abstract rational* handed in as `Scene.val i j`, so every
statement proved about this model holds for any scoring function (all four modes, exact ties included).

Python semantics modelled explicitly:
* the score table holds NaN (`none`) for a different `frame_id` or when the pair is not better than the
  threshold looked up by the **ground truth's** label; the IoU modes assert `0 ≤ threshold ≤ 1`;
* `np.nanargmin / np.nanargmax` + `np.unravel_index` = first occurrence in row-major order over the
  rows/columns that REMAIN after the `np.delete`s (`cands` over the remaining index lists, `argBest`);
* `list.pop(idx)` / `np.delete` keep the relative order of what remains (`List.erase` on duplicate-free
  index lists);
* the loops are `for _ in range(n)` with `break` when every remaining entry is NaN (`stage`, fuel `n`);
* leftover estimates become results without ground truth, in their input order, unless the task is
  FP validation; early returns for empty inputs.

Left out (other properties): the ROI-less 2-D branches (`_get_object_results_with_id`,
`_get_object_results_for_tlr`, C11) and the `isinstance` assertion on the first objects.
-/
namespace PEval.Matching

/-- `none` = NaN in the numpy score table -/
abbrev Score := Option Rat

inductive Policy where
  | default | allowUnknown | allowAny
  deriving DecidableEq, Repr

inductive Mode where
  | centerDistance | planeDistance | iou2d | iou3d
  deriving DecidableEq, Repr

/-- `_get_matching_module`: distances are minimised, IoUs maximised -/
def Mode.maximize : Mode → Bool
  | .centerDistance => false
  | .planeDistance => false
  | .iou2d => true
  | .iou3d => true

/-- `a` is strictly better than `b` (the order of arg-min / arg-max and of `is_better_than`) -/
def better (mx : Bool) (a b : Rat) : Bool := if mx then decide (b < a) else decide (a < b)

/-- `MatchingMethod.is_better_than(threshold)`; the IoU modes assert `0 ≤ threshold ≤ 1` first -/
def isBetterThan (m : Mode) (v thr : Rat) : Except Err Bool :=
  if m.maximize then
    if 0 ≤ thr ∧ thr ≤ 1 then .ok (better true v thr) else .error "AssertionError"
  else .ok (better false v thr)

/-- what the matcher reads of an object: `semantic_label.label` (enum value) and `frame_id` -/
structure Obj where
  label : String
  frame : String
  deriving DecidableEq, Repr

def isFp (l : String) : Bool := l == "false_positive"
def isUnknown (l : String) : Bool := l == "unknown"

/-- `MatchingLabelPolicy.is_matchable(estimation, ground_truth)` -/
def isMatchable (p : Policy) (e g : Obj) : Bool :=
  if isFp g.label || p == .allowAny then true
  else if p == .allowUnknown then e.label == g.label || isUnknown e.label
  else e.label == g.label

/-- `get_label_threshold(semantic_label, target_labels, threshold_list)` -/
def labelThreshold (targets : Option (List String)) (thrs : Option (List Rat)) (label : String) :
    Except Err (Option Rat) :=
  match targets, thrs with
  | none, _ => .ok none
  | some _, none => .ok none
  | some ts, some th =>
    match ts.findIdx? (· == label) with
    | none => .ok none
    | some k =>
      match th[k]? with
      | some r => .ok (some r)
      | none => .error "IndexError"

structure Cfg where
  policy : Policy
  mode : Mode
  targets : Option (List String)
  thresholds : Option (List Rat)
  fpValidation : Bool

/-- one entry `(score, is_label_ok)` of the score table -/
structure Cell where
  score : Score
  valid : Bool
  deriving DecidableEq, Repr

def Cell.nan : Cell := ⟨none, false⟩

/-- body of the double loop of `_get_score_table` for one (estimate, ground truth) pair with value `v` -/
def cell (c : Cfg) (e g : Obj) (v : Rat) : Except Err Cell :=
  if e.frame == g.frame then do
    let thr ← labelThreshold c.targets c.thresholds g.label
    let ok ← match thr with
      | none => pure true
      | some t => isBetterThan c.mode v t
    if ok then pure ⟨some v, isMatchable c.policy e g⟩ else pure Cell.nan
  else pure Cell.nan

structure Scene where
  ests : List Obj
  gts : List Obj
  /-- `MatchingMethod(est_i, gt_j).value` -/
  val : Nat → Nat → Rat

def cellAt (c : Cfg) (sc : Scene) (i j : Nat) : Except Err Cell :=
  match sc.ests[i]?, sc.gts[j]? with
  | some e, some g => cell c e g (sc.val i j)
  | _, _ => .ok Cell.nan

/-- first exception raised while the table is filled (row-major) -/
def tableError (c : Cfg) (sc : Scene) : Option Err :=
  (List.range sc.ests.length).findSome? fun i =>
    (List.range sc.gts.length).findSome? fun j =>
      match cellAt c sc i j with
      | .error e => some e
      | .ok _ => none

/-- the score table as the two planes `score_table[..., 0]` and `score_table[..., 1]` -/
structure Tbl where
  score : Nat → Nat → Score
  valid : Nat → Nat → Bool
  maximize : Bool

def mkTbl (c : Cfg) (sc : Scene) : Tbl where
  score i j := match cellAt c sc i j with
    | .ok x => x.score
    | .error _ => none
  valid i j := match cellAt c sc i j with
    | .ok x => x.valid
    | .error _ => false
  maximize := c.mode.maximize

/-- non-NaN entries in row-major order over the remaining rows `es` and columns `gs`;
stage 1 looks at `np.where(is_valid, scores, nan)`, stage 2 at the raw scores -/
def cands (t : Tbl) (stage1 : Bool) (es gs : List Nat) : List (Nat × Nat × Rat) :=
  es.flatMap fun i => gs.filterMap fun j =>
    match t.score i j with
    | none => none
    | some s => if stage1 && !(t.valid i j) then none else some (i, j, s)

/-- first arg-best (`np.nanargmin` / `np.nanargmax` return the first occurrence) -/
def argBest (mx : Bool) : List (Nat × Nat × Rat) → Option (Nat × Nat × Rat)
  | [] => none
  | c :: cs =>
    match argBest mx cs with
    | none => some c
    | some d => if better mx d.2.2 c.2.2 then some d else some c

/-- remaining estimate / ground-truth indices (`estimated_objects_`, `ground_truth_objects_`) and the
results appended so far -/
structure St where
  es : List Nat
  gs : List Nat
  pairs : List (Nat × Nat)
  deriving DecidableEq, Repr

/-- one matching loop: `for _ in range(fuel)`, `break` when all remaining entries are NaN -/
def stage (t : Tbl) (stage1 : Bool) : Nat → St → St
  | 0, st => st
  | fuel + 1, st =>
    match argBest t.maximize (cands t stage1 st.es st.gs) with
    | none => st
    | some (i, j, _) =>
      stage t stage1 fuel { es := st.es.erase i, gs := st.gs.erase j, pairs := st.pairs ++ [(i, j)] }

/-- both loops, started from arbitrary remaining lists -/
def matchFrom (t : Tbl) (es gs : List Nat) : St :=
  let s1 := stage t true es.length { es := es, gs := gs, pairs := [] }
  stage t false s1.es.length s1

def matchAll (t : Tbl) (nE nG : Nat) : St := matchFrom t (List.range nE) (List.range nG)

/-- a result: index of the estimate, index of its ground truth (or `none`) -/
abbrev Res := Nat × Option Nat

/-- `_get_fp_object_results` -/
def fpResults (es : List Nat) : List Res := es.map fun i => (i, none)

def pairResults (ps : List (Nat × Nat)) : List Res := ps.map fun p => (p.1, some p.2)

/-- `get_object_results` for objects that carry geometry -/
def getObjectResults (c : Cfg) (sc : Scene) : Except Err (List Res) :=
  if sc.ests.isEmpty then .ok []
  else if sc.gts.isEmpty then
    .ok (if c.fpValidation then [] else fpResults (List.range sc.ests.length))
  else
    match tableError c sc with
    | some e => .error e
    | none =>
      let st := matchAll (mkTbl c sc) sc.ests.length sc.gts.length
      .ok (pairResults st.pairs ++ (if c.fpValidation then [] else fpResults st.es))

/-- number of pairs made by stage 1 (for the branch histogram of the correspondence run) -/
def stage1Count (c : Cfg) (sc : Scene) : Nat :=
  (stage (mkTbl c sc) true sc.ests.length
    { es := List.range sc.ests.length, gs := List.range sc.gts.length, pairs := [] }).pairs.length

end PEval.Matching
