import PEval.Model.DTree
import PEval.Model.Matching
import PEval.Model.AP
import PEval.Model.PassFail
/-!
# Decision skeletons of the matching / result-status kernels over abstract atoms (C01, C02, C03, C08)

Hand-written once. The translator `harness/dt_match.py` runs the REAL functions

* `MatchingLabelPolicy.is_matchable`                                   (`matchableTree`)
* `is_better_than` of the four `MatchingMethod` classes                 (`betterTree`)
* `DynamicObjectWithPerceptionResult.is_label_correct / is_result_correct / get_status`
                                                                        (`labelCorrectTree`, `resultCorrectTree`, `statusTree`)
* `_get_score_table` for one estimate and one ground truth              (`cellTree`)

on symbolic inputs over every assignment of the atoms below and emits their decision trees (`PEval/Gen/K*.lean`); the trees
here are the model's skeletons over the same atoms (numbering = `B_CODE`, `C_CODE`, `EXC_CODE`, `OTHER_CODE` of the Python
registry). The policy and the matching mode are enumerated over the enum's members; the per-member trees hang under a
chain of `policy.is(NAME)` / `mode.is(NAME)` nodes.

Direction of `is_better_than`, read off `passOrd`: the distance classes answer `True` exactly on `value < threshold`
(order atom `cmp(value|thr) = lt`), the IoU classes exactly on `value > threshold` (`gt`); `eq` is never better.
-/
namespace PEval.MatchKernels
open PEval PEval.DT

/-! ## atom numbering -/
def aGtNone : Nat := 0
def aGtFp : Nat := 1
def aMatchable : Nat := 2
def aThrNone : Nat := 3
/-- `mode.is(CENTERDISTANCE | PLANEDISTANCE | IOU2D | IOU3D)`: 4 + index -/
def aMode (k : Nat) : Nat := 4 + k
/-- the matching attribute of mode `k` is `None` -/
def aMNone (k : Nat) : Nat := 8 + k
/-- its `.value` is `None` -/
def aVNone (k : Nat) : Nat := 12 + k
/-- the comparison answered a numpy bool (not read by the model) -/
def aNpBool : Nat := 16
def aPolAny : Nat := 20
def aPolUnknown : Nat := 21
def aPolDefault : Nat := 22
def aEstUnknown : Nat := 23
def aSameLabel : Nat := 24
def aEstFp : Nat := 25
def aGtUnknown : Nat := 26
def aSameFrame : Nat := 27
def aRadiusNone : Nat := 28

/-- order atoms: `cmp(value_k|thr)` = `cb + k`, `cmp(0|thr)` = `cb + 4`, `cmp(1|thr)` = `cb + 5`; `cb = 0` for the
threshold argument, `cb = 6` for the radius `thr[gt]` looked up with the ground truth's label -/
def cThr : Nat := 0
def cRadius : Nat := 6

def eAssert : Nat := 3

/-- results of `get_status` -/
def sFpNone : Nat := 0
def sFpTn : Nat := 1
def sTpTp : Nat := 2
def sFpFp : Nat := 3
def sFpFn : Nat := 4
/-- cells of the score table -/
def cellNan : Nat := 10
def cellOk : Nat := 11
def cellNotOk : Nat := 12

/-- jointly unrealisable decisions about the two labels (FORBIDDEN in harness/dt_match.py) -/
def forbidden : List (List Lit) := [
  [.b aSameLabel true, .b aEstUnknown true, .b aGtUnknown false],
  [.b aSameLabel true, .b aEstUnknown false, .b aGtUnknown true],
  [.b aSameLabel true, .b aEstFp true, .b aGtFp false],
  [.b aSameLabel true, .b aEstFp false, .b aGtFp true],
  [.b aEstFp true, .b aEstUnknown true],
  [.b aGtFp true, .b aGtUnknown true],
  [.b aSameLabel false, .b aEstFp true, .b aGtFp true],
  [.b aSameLabel false, .b aEstUnknown true, .b aGtUnknown true]]

/-- Valuations that stand for an IoU threshold OUTSIDE [0, 1] (`0 > thr` or `1 < thr` while the matching class is IOU2D /
IOU3D; both for the threshold argument, base `cThr`, and for the radius looked up for the ground truth's label, base
`cRadius`).  C01 ("when a maximum matchable radius is configured for the ground truth's label, only pairs objects closer
than that radius") and C08 ("a result that is a TP at some matching threshold is still a TP at every looser threshold
(larger distance, smaller IoU)") speak about thresholds of the mode's scale only; what the kernels do with an IoU
threshold outside the scale (today: an assertion) is left open by the texts, so the per-run obligations of the tables of
`is_better_than`, `is_result_correct`, `get_status` and the score-table cell are stated for valuations avoiding these
conjunctions (`FORB_IOU` in harness/dt_match.py).  The distance classes are NOT affected: every clause carries the
`mode.is(IOU*)` literal. -/
def forbIoU : List (List Lit) := [
  [.b (aMode 2) true, .c (cThr + 4) .gt], [.b (aMode 2) true, .c (cThr + 5) .lt],
  [.b (aMode 3) true, .c (cThr + 4) .gt], [.b (aMode 3) true, .c (cThr + 5) .lt],
  [.b (aMode 2) true, .c (cRadius + 4) .gt], [.b (aMode 2) true, .c (cRadius + 5) .lt],
  [.b (aMode 3) true, .c (cRadius + 4) .gt], [.b (aMode 3) true, .c (cRadius + 5) .lt]]

/-- the in-quantifier predicate on an optional threshold: if there is one, it lies on the mode's scale -/
def thrOk (m : AP.Mode) (thr : Option Rat) : Prop := ∀ t, thr = some t → AP.thrValid m t = true

/-! ## skeletons -/

/-- distances (mode index 0, 1) are better when smaller, IoUs (2, 3) when larger; equality is never better -/
def passOrd (k : Nat) (o : Ordering) : Bool := if k < 2 then o == .lt else o == .gt

def modeChain (f : Nat → DTree) : DTree :=
  askB (aMode 0) fun c => if c then f 0 else
  askB (aMode 1) fun p => if p then f 1 else
  askB (aMode 2) fun i => if i then f 2 else
  askB (aMode 3) fun j => if j then f 3 else .leaf .unreachable

/-- the comparison of `is_better_than` for class `k` (after the assertion) -/
def tCompare (k cb : Nat) (optV : Bool) (kk : Bool → DTree) : DTree :=
  if optV then askB (aVNone k) fun vn => if vn then kk false else askC (cb + k) fun o => kk (passOrd k o)
  else askC (cb + k) fun o => kk (passOrd k o)

/-- `is_better_than` of class `k`: the IoU classes assert `0 ≤ thr ≤ 1` first (the two rejection leaves are reachable only
under a conjunction of `forbIoU`: for the per-run check they are don't-care) -/
def tBetter (k cb : Nat) (optV : Bool) (kk : Bool → DTree) : DTree :=
  if k < 2 then tCompare k cb optV kk else
  askC (cb + 4) fun o0 => if o0 == .gt then .leaf (.raise eAssert) else
  askC (cb + 5) fun o1 => if o1 == .lt then .leaf (.raise eAssert) else tCompare k cb optV kk

def betterTree : DTree := modeChain fun k => tBetter k cThr true fun b => .leaf (.ret b)

def tPolicyBody (unknownOk : Bool) : DTree :=
  askB aGtFp fun fp => if fp then .leaf (.ret true) else
  askB aSameLabel fun s => if s then .leaf (.ret true) else
  if unknownOk then askB aEstUnknown fun u => .leaf (.ret u) else .leaf (.ret false)

def matchableTree : DTree :=
  askB aPolAny fun a => if a then .leaf (.ret true) else
  askB aPolUnknown fun u => if u then tPolicyBody true else
  askB aPolDefault fun d => if d then tPolicyBody false else .leaf .unreachable

/-- `is_label_correct` -/
def tLabelCorrect (kk : Bool → DTree) : DTree :=
  askB aGtNone fun n => if n then kk false else askB aMatchable fun m => kk m

def labelCorrectTree : DTree := tLabelCorrect fun b => .leaf (.ret b)

/-- `is_result_correct` for mode `k`, once the ground truth is known to be present -/
def tResultCorrectBody (k : Nat) (kk : Bool → DTree) : DTree :=
  askB aThrNone fun tn => if tn then askB aMatchable fun m => kk m else
  askB (aMNone k) fun mn => if mn then askB aMatchable fun m => kk m else
  tBetter k cThr true fun b =>
  askB aGtFp fun fp => if fp then kk (!b) else
  if b then askB aMatchable fun m => kk m else kk false

/-- `is_result_correct` for mode `k` -/
def tResultCorrect (k : Nat) (kk : Bool → DTree) : DTree :=
  askB aGtNone fun n => if n then kk false else tResultCorrectBody k kk

def resultCorrectTree : DTree := modeChain fun k => tResultCorrect k fun b => .leaf (.ret b)

/-- `get_status` for mode `k` -/
def tStatus (k : Nat) : DTree :=
  askB aGtNone fun n => if n then .leaf (.other sFpNone) else
  tResultCorrectBody k fun c =>
  askB aGtFp fun fp =>
    .leaf (.other (if c then (if fp then sFpTn else sTpTp) else (if fp then sFpFp else sFpFn)))

def statusTree : DTree := modeChain tStatus

/-- the cell of `_get_score_table` for one estimate and one ground truth, matching class `k` -/
def tCell (k : Nat) : DTree :=
  askB aSameFrame fun sf => if !sf then .leaf (.other cellNan) else
  askB aRadiusNone fun rn =>
    if rn then askB aMatchable fun m => .leaf (.other (if m then cellOk else cellNotOk))
    else tBetter k cRadius false fun b =>
      if b then askB aMatchable fun m => .leaf (.other (if m then cellOk else cellNotOk))
      else .leaf (.other cellNan)

def cellTree : DTree := modeChain tCell

/-- the skeletons as functions of the valuation -/
def matchableAtoms (v : Val) : DT.Res := eval matchableTree v
def betterAtoms (v : Val) : DT.Res := eval betterTree v
def labelCorrectAtoms (v : Val) : DT.Res := eval labelCorrectTree v
def resultCorrectAtoms (v : Val) : DT.Res := eval resultCorrectTree v
def statusAtoms (v : Val) : DT.Res := eval statusTree v
def cellAtoms (v : Val) : DT.Res := eval cellTree v

/-! ## results of the models as table results -/

def errCode (e : Err) : Nat :=
  if e = "TypeError" then 1 else if e = "IndexError" then 2 else if e = "AssertionError" then 3
  else if e = "AttributeError" then 4 else if e = "KeyError" then 5 else if e = "ValueError" then 6
  else if e = "NotImplementedError" then 7 else 99

def ofBool : Except Err Bool → DT.Res
  | .ok b => .ret b
  | .error e => .raise (errCode e)

def statusCodeAP : AP.Status × Option AP.Status → Nat
  | (.fp, none) => sFpNone
  | (.fp, some .tn) => sFpTn
  | (.tp, some .tp) => sTpTp
  | (.fp, some .fp) => sFpFp
  | (.fp, some .fn) => sFpFn
  | _ => 99

def ofStatusAP : Except Err (AP.Status × Option AP.Status) → DT.Res
  | .ok s => .other (statusCodeAP s)
  | .error e => .raise (errCode e)

def statusCodePF : PassFail.Status × Option PassFail.Status → Nat
  | (.FP, none) => sFpNone
  | (.FP, some .TN) => sFpTn
  | (.TP, some .TP) => sTpTp
  | (.FP, some .FP) => sFpFp
  | (.FP, some .FN) => sFpFn
  | _ => 99

def ofCell : Except Err Matching.Cell → DT.Res
  | .ok ⟨none, _⟩ => .other cellNan
  | .ok ⟨some _, true⟩ => .other cellOk
  | .ok ⟨some _, false⟩ => .other cellNotOk
  | .error e => .raise (errCode e)

/-! ## the atoms of concrete model inputs -/

def cmpR (a b : Rat) : Ordering := if a < b then .lt else if a = b then .eq else .gt

def modeIdx : AP.Mode → Nat
  | .centerDistance => 0 | .planeDistance => 1 | .iou2d => 2 | .iou3d => 3

/-- the matcher's mode enum as the metrics model's -/
def toAP : Matching.Mode → AP.Mode
  | .centerDistance => .centerDistance | .planeDistance => .planeDistance | .iou2d => .iou2d | .iou3d => .iou3d

def modeIdxM (m : Matching.Mode) : Nat := modeIdx (toAP m)

/-- order atoms of a (value, threshold) pair at base `cb` for mode index `k` -/
def valCmp (cb k : Nat) (v t : Rat) (a : Nat) : Ordering :=
  if a = cb + k then cmpR v t else if a = cb + 4 then cmpR 0 t else if a = cb + 5 then cmpR 1 t else .eq

/-- `is_better_than(t)` of the class of mode `m` with `value = v` -/
def valBetter (m : AP.Mode) (v : Option Rat) (t : Rat) : Val where
  b a := if a = aMode (modeIdx m) then true else if a = aVNone (modeIdx m) then v.isNone else false
  c a := valCmp cThr (modeIdx m) (v.getD 0) t a

def scoreValue : AP.Score → Rat
  | .val (some v) => v
  | _ => 0

/-- the atoms of `is_result_correct(m, thr)` / `get_status(m, thr)` on the result `r` (model `PEval.AP`) -/
def valAP (m : AP.Mode) (thr : Option Rat) (r : AP.Res) : Val where
  b a :=
    if a = aGtNone then r.gt.isNone
    else if a = aGtFp then (match r.gt with | some g => g.label == AP.fpLabel | none => false)
    else if a = aMatchable then AP.isLabelCorrect r
    else if a = aThrNone then thr.isNone
    else if a = aMode (modeIdx m) then true
    else if a = aMNone (modeIdx m) then r.score == .noMethod
    else if a = aVNone (modeIdx m) then r.score == .val none
    else false
  c a := valCmp cThr (modeIdx m) (scoreValue r.score) (thr.getD 0) a

/-- the atoms of the pass/fail model's result (`PEval.PassFail`: plane distance, method present) -/
def valPF (r : PassFail.Res) : Val where
  b a :=
    if a = aGtNone then r.gt.isNone
    else if a = aGtFp then (match r.gt with | some g => g.isFP | none => false)
    else if a = aMatchable then r.labelOk
    else if a = aThrNone then r.thr.isNone
    else if a = aMode 1 then true
    else if a = aVNone 1 then r.score.isNone
    else false
  c a := valCmp cThr 1 (r.score.getD 0) (r.thr.getD 0) a

def polAtoms (isAny isUnknown isDefault gtFp estUnknown same estFp gtUnknown : Bool) : Val where
  b a :=
    if a = aPolAny then isAny else if a = aPolUnknown then isUnknown else if a = aPolDefault then isDefault
    else if a = aGtFp then gtFp else if a = aEstUnknown then estUnknown else if a = aSameLabel then same
    else if a = aEstFp then estFp else if a = aGtUnknown then gtUnknown else false
  c _ := .eq

/-- the atoms of `is_matchable` in the matcher's model (`PEval.Matching`) -/
def valMatchable (p : Matching.Policy) (e g : Matching.Obj) : Val :=
  polAtoms (p == .allowAny) (p == .allowUnknown) (p == .default) (Matching.isFp g.label) (Matching.isUnknown e.label)
    (e.label == g.label) (Matching.isFp e.label) (Matching.isUnknown g.label)

/-- the atoms of `is_matchable` in the metrics model (`PEval.AP`) -/
def valMatchableAP (p : AP.Policy) (e g : AP.Label) : Val :=
  polAtoms (p == .allowAny) (p == .allowUnknown) (p == .default) (g == AP.fpLabel) (e == AP.unknownLabel)
    (e == g) (e == AP.fpLabel) (g == AP.unknownLabel)

/-- the atoms of one score-table cell: `radius` is what `get_label_threshold` answered for the ground truth's label -/
def valCell (c : Matching.Cfg) (e g : Matching.Obj) (v : Rat) (radius : Option Rat) : Val where
  b a :=
    if a = aSameFrame then e.frame == g.frame
    else if a = aRadiusNone then radius.isNone
    else if a = aMatchable then Matching.isMatchable c.policy e g
    else if a = aMode (modeIdxM c.mode) then true
    else false
  c a := valCmp cRadius (modeIdxM c.mode) v (radius.getD 0) a

end PEval.MatchKernels
