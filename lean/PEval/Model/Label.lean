import PEval.Gen.Labels
import PEval.Gen.Enums
import PEval.Model.Basic
/-!
Model of `perception_eval/common/label.py`: `LabelConverter` and `set_target_lists`.
Labels are represented by their enum *member names* (strings); the pair tables
`(label member name, registered name)` are regenerated from the source on every run (`PEval.Gen`):
they are what `_get_autoware_pairs` / `_get_traffic_light_paris` return in the current tree.
Hand-modelled: the lookup loops (`convert_label`: first match with `break`; `convert_name`: no
`break`, so the last match wins), the lower-casing of the argument, the UNKNOWN fallback, the
prefix dispatch of the constructor. `str.lower()` is modelled on ASCII.
-/
namespace PEval.Label

abbrev Table := List (String × String)   -- (label member name, registered name)

def regNames (t : Table) : List String := t.map (·.2)

/-- `LabelConverter.convert_label(name).label`: first entry whose registered name equals
`name.lower()`, else `label_type.UNKNOWN` -/
def convertLabel (t : Table) (name : String) : String :=
  match t.find? (fun p => p.2 == name.toLower) with
  | some p => p.1
  | none => "UNKNOWN"

/-- `LabelConverter.convert_name(name)`: the loop has no `break`, the last match wins -/
def convertName (t : Table) (name : String) : String :=
  (t.foldl (fun acc p => if p.2 == name.toLower then some p.1 else acc) none).getD "UNKNOWN"

/-- the documented merging of similar labels: truck, bus → car; motorbike → bicycle -/
def mergeImage : String → String
  | "TRUCK" => "CAR"
  | "BUS" => "CAR"
  | "MOTORBIKE" => "BICYCLE"
  | l => l

/-- which table `_get_traffic_light_paris(task)` returns, task given by member name -/
def trafficLightTable (task : String) : Table :=
  match Gen.trafficLightTableOfTask.find? (fun p => p.1 == task) with
  | some (_, "classification") => Gen.trafficLightPairsClassification
  | _ => Gen.trafficLightPairsOther

/-- the constructor's dispatch on `label_prefix`: the table and the label family, or the exception -/
def tableFor (labelPrefix : String) (merge : Bool) (task : String) : Except String (Table × String) :=
  if labelPrefix == "autoware" then
    .ok (if merge then Gen.autowarePairsMerged else Gen.autowarePairs, "autoware")
  else if labelPrefix == "traffic_light" then
    .ok (trafficLightTable task, "traffic_light")
  else if labelPrefix == "blinker" || labelPrefix == "brake_lamp" then
    .error "NotImplementedError"
  else .error "ValueError"

/-- member names of the label family, in definition order -/
def familyMembers (family : String) : List String :=
  if family == "autoware" then Gen.autowareLabel.map (·.1) else Gen.trafficLightLabel.map (·.1)

/-- `set_target_lists(target_labels, converter)`: all members when `None` or empty, else
`convert_name` of every entry -/
def setTargetLists (targets : Option (List String)) (t : Table) (family : String) : List String :=
  match targets with
  | none => familyMembers family
  | some [] => familyMembers family
  | some l => l.map (convertName t)

/-! ## defective variants (used only by `example`s that show which theorems tell them apart) -/

/-- DEFECTIVE variant of `convertLabel`: compares the argument as given, without lower-casing it -/
def convertLabelCS (t : Table) (name : String) : String :=
  match t.find? (fun p => p.2 == name) with
  | some p => p.1
  | none => "UNKNOWN"

/-- DEFECTIVE variant of a pair table: the alias `name` is registered for the label `wrong` (the kind of defect
of F6: a table row that maps a non-canonical alias to another label of the family) -/
def withWrongAlias (t : Table) (name wrong : String) : Table :=
  t.map (fun p => if p.2 == name then (wrong, p.2) else p)

/-- DEFECTIVE variant of `setTargetLists`: `None` / empty gives the empty list instead of every member -/
def setTargetLists_noDefault (targets : Option (List String)) (t : Table) : List String :=
  match targets with
  | none => []
  | some l => l.map (convertName t)

end PEval.Label
