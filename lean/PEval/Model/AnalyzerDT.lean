import PEval.Model.DTree
import PEval.Model.Analyzer
/-!
# Decision skeletons of the C19 kernels over abstract atoms (decision-table translator)

`harness/dt_c19.py` runs the REAL code on symbolic inputs and emits decision trees (`PEval/Gen/AnalyzerDT.lean`,
`tables : List (key1 × key2 × Option DTree)`).

## (1) `tool/utils.get_area_idx` on the grid of `generate_area_points` — key1 = 0, key2 = divisions (1, 3, 9; 13 = an
object RESULT as input, 3 divisions)

The grid is built by the real `generate_area_points` on the symbolic bounds `max_x`, `max_y`; its lines come out as the
forms `-m, -m/3, m/3, m` (line numbers 0..3, `lineVal`).  Order atoms (three outcomes):
`a = k`     : `compare x (line k of max_x)`,  `a = 4 + k` : `compare y (line k of max_y)`   (x, y = ego-frame position).
Result: `.other 0` = `None`, `.other (i+1)` = area `i`, `.raise 6` = `ValueError` (two areas hit: impossible for ordered
lines, but the atoms are treated as independent).

## (2) the row status written by `PerceptionAnalyzer3D.add([frame])` — key1 = 1, key2 = a + 3b + 9c + 27d for a frame with
`a` TP results, `b` FP results, `c` TN objects, `d` FN objects (a+b+c+d ≤ 2)

Boolean atoms: `i` : TP result `i` has no ground truth, `2+i` : FP result `i` has no ground truth.  Result: the DataFrame
as the number `Σ_k (digit_k + 1)·64^k` over the row pairs IN ASCENDING ORDER OF THEIR CELLS (the pairs are read from the index,
whatever its labels and order), `digit = g + 5e + 25j`, `g`/`e` = status of the ground-truth / estimation row (0 = all-None row,
1 TP, 2 FP, 3 TN, 4 FN), `j` = which item of `tp ++ fp ++ tn ++ fn` the row shows.  Code and model are compared by `rowsRel`.

No Mathlib.
-/
namespace PEval.AnalyzerDT
open PEval PEval.DT PEval.Analyzer

/-! ## (1) area index -/

/-- the four grid lines of a bound `m`, by line number -/
def lineVal (m : Rat) : Nat → Rat
  | 0 => -m
  | 1 => -m / 3
  | 2 => m / 3
  | _ => m

def pick (a b c d : Ordering) : Nat → Ordering
  | 0 => a
  | 1 => b
  | 2 => c
  | _ => d

/-- `generate_area_points` with line numbers instead of numbers: (upper-right x line, y line), (bottom-left x line, y line) -/
def symUR (n : Nat) : List (Nat × Nat) :=
  let rightX := [3, 2, 1]
  if n = 1 then [(3, 0)]
  else if n = 3 then rightX.map (fun x => (x, 0))
  else [2, 1, 0].flatMap (fun y => rightX.map (fun x => (x, y)))

def symBL (n : Nat) : List (Nat × Nat) :=
  let leftX := [2, 1, 0]
  if n = 1 then [(0, 3)]
  else if n = 3 then leftX.map (fun x => (x, 3))
  else [3, 2, 1].flatMap (fun y => leftX.map (fun x => (x, y)))

def isLt : Ordering → Bool
  | .lt => true
  | _ => false

def isGt : Ordering → Bool
  | .gt => true
  | _ => false

/-- `(x < ur.x) * (x > bl.x)`, `(y > ur.y) * (y < bl.y)` on order atoms (`cx k` = `compare x (line k)`) -/
def insideSym (cx cy : Nat → Ordering) (ur bl : Nat × Nat) : Bool :=
  (isLt (cx ur.1) && isGt (cx bl.1)) && (isGt (cy ur.2) && isLt (cy bl.2))

/-- `np.where(mask)[0]` -/
def hitsOf (mask : List Bool) : List Nat := (mask.zipIdx.filter (·.1)).map (·.2)

def hitsSym (n : Nat) (cx cy : Nat → Ordering) : List Nat :=
  hitsOf (((symUR n).zip (symBL n)).map fun (ur, bl) => insideSym cx cy ur bl)

/-- `None` when no area is hit, the index when one is, `.item()` raises `ValueError` otherwise -/
def resOfHits : List Nat → Res
  | [] => .other 0
  | [i] => .other (i + 1)
  | _ => .raise 6

/-- `get_area_idx` on order atoms, following the code (all cells, then `np.where`) -/
def areaRes (n : Nat) (cx cy : Nat → Ordering) : Res := resOfHits (hitsSym n cx cy)

/-! the same function in a form the kernel evaluates quickly at the 3^8 leaves of the skeleton: the mask is the product of
a column mask and a row mask (`areaFast_eq`) -/

/-- of three flags: `some none` = none set, `some (some i)` = exactly flag `i`, `none` = several -/
def one3 : Bool → Bool → Bool → Option (Option Nat)
  | false, false, false => some none
  | true, false, false => some (some 0)
  | false, true, false => some (some 1)
  | false, false, true => some (some 2)
  | _, _, _ => none

def combine (cols rows : Option (Option Nat)) : Res :=
  match cols, rows with
  | some none, _ => .other 0
  | _, some none => .other 0
  | some (some c), some (some r) => .other (3 * r + c + 1)
  | _, _ => .raise 6

def areaFast (n : Nat) (x0 x1 x2 x3 y0 y1 y2 y3 : Ordering) : Res :=
  if n = 1 then combine (one3 (isLt x3 && isGt x0) false false) (one3 (isGt y0 && isLt y3) false false)
  else if n = 3 then
    combine (one3 (isLt x3 && isGt x2) (isLt x2 && isGt x1) (isLt x1 && isGt x0)) (one3 (isGt y0 && isLt y3) false false)
  else
    combine (one3 (isLt x3 && isGt x2) (isLt x2 && isGt x1) (isLt x1 && isGt x0))
      (one3 (isGt y2 && isLt y3) (isGt y1 && isLt y2) (isGt y0 && isLt y1))

theorem fast1 : ∀ c r : Bool, combine (one3 c false false) (one3 r false false) = resOfHits (hitsOf [c && r]) := by decide

theorem fast3 : ∀ c0 c1 c2 r : Bool,
    combine (one3 c0 c1 c2) (one3 r false false) = resOfHits (hitsOf [c0 && r, c1 && r, c2 && r]) := by decide

theorem fast9 : ∀ c0 c1 c2 r0 r1 r2 : Bool,
    combine (one3 c0 c1 c2) (one3 r0 r1 r2) =
      resOfHits (hitsOf [c0 && r0, c1 && r0, c2 && r0, c0 && r1, c1 && r1, c2 && r1, c0 && r2, c1 && r2, c2 && r2]) := by decide

theorem areaFast_eq (n : Nat) (hn : n = 1 ∨ n = 3 ∨ n = 9) (x0 x1 x2 x3 y0 y1 y2 y3 : Ordering) :
    areaFast n x0 x1 x2 x3 y0 y1 y2 y3 = areaRes n (pick x0 x1 x2 x3) (pick y0 y1 y2 y3) := by
  rcases hn with rfl | rfl | rfl
  · exact fast1 (isLt x3 && isGt x0) (isGt y0 && isLt y3)
  · exact fast3 (isLt x3 && isGt x2) (isLt x2 && isGt x1) (isLt x1 && isGt x0) (isGt y0 && isLt y3)
  · exact fast9 (isLt x3 && isGt x2) (isLt x2 && isGt x1) (isLt x1 && isGt x0)
      (isGt y2 && isLt y3) (isGt y1 && isLt y2) (isGt y0 && isLt y1)

/-- the skeleton as a function of the valuation -/
def areaAtoms (n : Nat) (v : Val) : Res :=
  areaFast n (v.c 0) (v.c 1) (v.c 2) (v.c 3) (v.c 4) (v.c 5) (v.c 6) (v.c 7)

/-- the skeleton as a tree (only the atoms the division needs, in the order the unchanged code asks them) -/
def areaSkel (n : Nat) : DTree :=
  if n = 1 then
    askC 3 fun x3 => askC 0 fun x0 => askC 4 fun y0 => askC 7 fun y3 =>
    .leaf (areaFast 1 x0 .eq .eq x3 y0 .eq .eq y3)
  else if n = 3 then
    askC 3 fun x3 => askC 2 fun x2 => askC 1 fun x1 => askC 0 fun x0 => askC 4 fun y0 => askC 7 fun y3 =>
    .leaf (areaFast 3 x0 x1 x2 x3 y0 .eq .eq y3)
  else
    askC 3 fun x3 => askC 2 fun x2 => askC 1 fun x1 => askC 0 fun x0 =>
    askC 6 fun y2 => askC 5 fun y1 => askC 4 fun y0 => askC 7 fun y3 =>
    .leaf (areaFast n x0 x1 x2 x3 y0 y1 y2 y3)

theorem eval_areaSkel (n : Nat) (v : Val) : eval (areaSkel n) v = areaAtoms n v := by
  unfold areaSkel
  split
  · next h => subst h; simp only [eval_askC]; rfl
  · split
    · next h => subst h; simp only [eval_askC]; rfl
    · simp only [eval_askC]; rfl

/-- the number of divisions a table key stands for (13 = three divisions, object result as input) -/
def divisionsOf (key : Nat) : Nat := key % 10

def cmpR (a b : Rat) : Ordering := if a < b then .lt else if a = b then .eq else .gt

/-- the atoms of a concrete input: ego-frame position `(x, y)` against the lines of the bounds -/
def areaValuation (mX mY x y : Rat) : Val :=
  ⟨fun _ => false, fun a => if a < 4 then cmpR x (lineVal mX a) else cmpR y (lineVal mY (a - 4))⟩

/-- what the MODEL answers, as a table result -/
def areaResOfModel (n : Nat) (mX mY x y : Rat) : Res :=
  match generateAreaPoints n mX mY with
  | .error _ => .raise 6
  | .ok a =>
    match getAreaIdx a x y with
    | .ok none => .other 0
    | .ok (some i) => .other (i + 1)
    | .error _ => .raise 6

/-! ## (2) row status -/

def rowDigit (g e j : Nat) : Nat := g + 5 * e + 25 * j

/-- (kind, index in its list) of the items of a frame in table order; kind 0 TP result, 1 FP result, 2 TN object, 3 FN object -/
def itemsOf (a b c d : Nat) : List (Nat × Nat) :=
  (List.range a).map (fun i => (0, i)) ++ (List.range b).map (fun i => (1, i)) ++
  (List.range c).map (fun i => (2, i)) ++ (List.range d).map (fun i => (3, i))

/-- atom "result `i` of list `kind` has no ground truth" -/
def aNone (kind i : Nat) : Nat := 2 * kind + i

def itemDigit (kind : Nat) (none : Bool) (j : Nat) : Nat :=
  if kind < 2 then rowDigit (if none then 0 else kind + 1) (kind + 1) j else rowDigit (kind + 1) 0 j

def rowsSkelAux : List (Nat × Nat) → Nat → Nat → DTree
  | [], _, acc => .leaf (.other acc)
  | (kind, i) :: rest, j, acc =>
    if kind < 2 then askB (aNone kind i) fun none => rowsSkelAux rest (j + 1) (acc + (itemDigit kind none j + 1) * 64 ^ j)
    else rowsSkelAux rest (j + 1) (acc + (itemDigit kind false j + 1) * 64 ^ j)

def rowsCodeAux (v : Val) : List (Nat × Nat) → Nat → Nat → Nat
  | [], _, acc => acc
  | (kind, i) :: rest, j, acc =>
    rowsCodeAux v rest (j + 1) (acc + (itemDigit kind (if kind < 2 then v.b (aNone kind i) else false) j + 1) * 64 ^ j)

def shapeOf (key : Nat) : Nat × Nat × Nat × Nat := (key % 3, key / 3 % 3, key / 9 % 3, key / 27 % 3)

def rowsSkel (key : Nat) : DTree :=
  let s := shapeOf key
  rowsSkelAux (itemsOf s.1 s.2.1 s.2.2.1 s.2.2.2) 0 0

def rowsAtoms (key : Nat) (v : Val) : Res :=
  let s := shapeOf key
  .other (rowsCodeAux v (itemsOf s.1 s.2.1 s.2.2.1 s.2.2.2) 0 0)

theorem eval_rowsSkelAux (v : Val) : ∀ l j acc, eval (rowsSkelAux l j acc) v = .other (rowsCodeAux v l j acc)
  | [], _, _ => rfl
  | (kind, i) :: rest, j, acc => by
    by_cases h : kind < 2
    · simp only [rowsSkelAux, rowsCodeAux, h, if_true, eval_askB]; exact eval_rowsSkelAux v rest (j + 1) _
    · simp only [rowsSkelAux, rowsCodeAux, h, if_false]; exact eval_rowsSkelAux v rest (j + 1) _

theorem eval_rowsSkel (key : Nat) (v : Val) : eval (rowsSkel key) v = rowsAtoms key v :=
  eval_rowsSkelAux v _ 0 0

/-! ### the relation between the code's table and the model's (what the per-run theorem checks for the row shapes)

C19: "one ground-truth/estimate row pair per TP, FP, TN and FN item" — no numbering and no order of the pairs is stated, so
`harness/dt_c19.py` emits the pairs as a SORTED multiset of cells (`cell = digit + 1`, `Σ_k cell_k · 64^k`; sorted = by item, when
every item has its one pair — the model's leaves are already in that form).  Which row pair owns the ground truth of an FP result
carrying one is the open design decision of known finding F11: there — cell `13 + 25 j`, `(g, e) = (FP, FP)` in the model's layout —
the code may also show the estimate only — cell `11 + 25 j`, `(g, e) = (none, FP)`.  Everywhere else the cells must be equal. -/

def cellRel (c m : Nat) : Bool := c == m || (m % 25 == 13 && c + 2 == m)

/-- cell-wise `cellRel` on the base-64 digits (fuel = number of cells looked at; the tables have at most 2) -/
def relCode : Nat → Nat → Nat → Bool
  | 0, c, m => c == m
  | n + 1, c, m => c == m || (cellRel (c % 64) (m % 64) && relCode n (c / 64) (m / 64))

def rowsRel : Res → Res → Bool
  | .other c, .other m => relCode 4 c m
  | _, _ => false

/-- the model's number shows no FP pair holding a ground truth (no input of F11's signature among the items) -/
def noF11Code : Nat → Nat → Bool
  | 0, _ => true
  | n + 1, m => m % 64 % 25 != 13 && noF11Code n (m / 64)

theorem relCode_eq_of_noF11 : ∀ (n c m : Nat), noF11Code n m = true → relCode n c m = true → c = m
  | 0, c, m, _, h => by simpa [relCode] using h
  | n + 1, c, m, hn, h => by
    simp only [noF11Code, Bool.and_eq_true, bne_iff_ne, ne_eq] at hn
    simp only [relCode, cellRel, Bool.or_eq_true, Bool.and_eq_true, beq_iff_eq] at h
    rcases h with h | ⟨h1, h2⟩
    · exact h
    · have hd := relCode_eq_of_noF11 n _ _ hn.2 h2
      have hm : c % 64 = m % 64 := by
        rcases h1 with h1 | ⟨h1, _⟩
        · exact h1
        · exact absurd h1 hn.1
      rw [← Nat.div_add_mod c 64, ← Nat.div_add_mod m 64, hd, hm]

theorem relCode_refl : ∀ (n c : Nat), relCode n c c = true
  | 0, c => by simp [relCode]
  | n + 1, c => by simp [relCode]

/-- the named restriction of the exact (equality) corollaries: no FP result of the shape carries a ground truth, i.e. the frame holds no
input of F11's signature -/
def noFPwithGT (key : Nat) (v : Val) : Bool := (List.range (shapeOf key).2.1).all fun i => v.b (aNone 1 i)

/-! trees of relational checks: `relTree rel code model` evaluates to `.ret (rel (code's result) (model's result))`, so the
EXISTING checker `DT.agree` (and its soundness lemma) decides "`rel` holds under every valuation" as `agree (relTree ..) (.leaf (.ret true))` -/

def mapT (f : Res → Res) : DTree → DTree
  | .leaf r => .leaf (f r)
  | .bnode a n y => .bnode a (mapT f n) (mapT f y)
  | .cnode a l e g => .cnode a (mapT f l) (mapT f e) (mapT f g)

def bindT (k : Res → DTree) : DTree → DTree
  | .leaf r => k r
  | .bnode a n y => .bnode a (bindT k n) (bindT k y)
  | .cnode a l e g => .cnode a (bindT k l) (bindT k e) (bindT k g)

theorem eval_mapT (f : Res → Res) (v : Val) : ∀ t, eval (mapT f t) v = f (eval t v)
  | .leaf _ => rfl
  | .bnode a n y => by
    simp only [mapT, eval]
    cases v.b a
    · exact eval_mapT f v n
    · exact eval_mapT f v y
  | .cnode a l e g => by
    simp only [mapT, eval]
    cases v.c a
    · exact eval_mapT f v l
    · exact eval_mapT f v e
    · exact eval_mapT f v g

theorem eval_bindT (k : Res → DTree) (v : Val) : ∀ t, eval (bindT k t) v = eval (k (eval t v)) v
  | .leaf _ => rfl
  | .bnode a n y => by
    simp only [bindT, eval]
    cases v.b a
    · exact eval_bindT k v n
    · exact eval_bindT k v y
  | .cnode a l e g => by
    simp only [bindT, eval]
    cases v.c a
    · exact eval_bindT k v l
    · exact eval_bindT k v e
    · exact eval_bindT k v g

def relTree (rel : Res → Res → Bool) (code model : DTree) : DTree :=
  bindT (fun c => mapT (fun m => .ret (rel c m)) model) code

theorem eval_relTree (rel : Res → Res → Bool) (code model : DTree) (v : Val) :
    eval (relTree rel code model) v = .ret (rel (eval code v) (eval model v)) := by
  unfold relTree
  rw [eval_bindT, eval_mapT]

/-! ### the MODEL's `addFrame` on index objects -/

def valOfBits (b : Bool × Bool × Bool × Bool) : Val :=
  ⟨fun a => match a with | 0 => b.1 | 1 => b.2.1 | 2 => b.2.2.1 | 3 => b.2.2.2 | _ => false, fun _ => .eq⟩

def allBits : List (Bool × Bool × Bool × Bool) :=
  [false, true].flatMap fun a => [false, true].flatMap fun b => [false, true].flatMap fun c => [false, true].map fun d => (a, b, c, d)

def mkObj (u : String) : Obj := ⟨u, "car", 0, 0, 0, 2, 4, none, none⟩

def estName (j : Nat) : String := "e" ++ toString j
def gtName (j : Nat) : String := "g" ++ toString j

/-- the model frame of a shape: item `j` (in table order) has estimate `e<j>` and ground truth `g<j>` -/
def frameOf (key : Nat) (v : Val) : Frame :=
  let s := shapeOf key
  let a := s.1; let b := s.2.1; let c := s.2.2.1; let d := s.2.2.2
  { frameNum := 7
    tp := (List.range a).map fun i => ⟨mkObj (estName i), if v.b (aNone 0 i) then none else some (mkObj (gtName i))⟩
    fp := (List.range b).map fun i => ⟨mkObj (estName (a + i)), if v.b (aNone 1 i) then none else some (mkObj (gtName (a + i)))⟩
    tn := (List.range c).map fun i => mkObj (gtName (a + b + i))
    fn := (List.range d).map fun i => mkObj (gtName (a + b + c + i))
    critical := [] }

def statusCode : Status → Nat
  | .TP => 1 | .FP => 2 | .TN => 3 | .FN => 4

def cellCode : Option Cell → Nat
  | none => 0
  | some c => statusCode c.status

def bad : Nat := 999999

/-- which item a uuid names (`e<j>` / `g<j>`, j < 4) -/
def itemOfUuid (side : String) (u : String) : Option Nat :=
  (List.range 4).find? fun j => u == side ++ toString j

/-- the item shown by a row pair: both present rows must name the same item -/
def pairItem (g e : Option Cell) : Option Nat :=
  match g.map (fun c => itemOfUuid "g" c.obj.uuid), e.map (fun c => itemOfUuid "e" c.obj.uuid) with
  | some (some j), none => some j
  | none, some (some j) => some j
  | some (some j), some (some j') => if j = j' then some j else none
  | _, _ => none

/-- the number `harness/dt_c19.py` computes from the DataFrame, here from the model's table (frame 7, scene 0) -/
def tableCodeAux : List RowPair → Nat → Nat → Nat
  | [], _, acc => acc
  | r :: rest, k, acc =>
    match pairItem r.gt r.est with
    | none => bad
    | some j =>
      if r.index = k ∧ (r.gt.all fun c => c.frame = 7 ∧ c.scene = 0) ∧ (r.est.all fun c => c.frame = 7 ∧ c.scene = 0) then
        tableCodeAux rest (k + 1) (acc + (rowDigit (cellCode r.gt) (cellCode r.est) j + 1) * 64 ^ k)
      else bad

def tableCode (t : Table) : Nat := tableCodeAux t 0 0

/-- the model's answer for a shape and a valuation: `add([frame])` on a fresh analyzer -/
def rowsModel (key : Nat) (v : Val) : Res :=
  .other (tableCode (Analyzer.add (fun _ _ => some 0) {} [frameOf key v]).table)

def rowKeys : List Nat :=
  ([0, 1, 2].flatMap fun d => [0, 1, 2].flatMap fun c => [0, 1, 2].flatMap fun b => [0, 1, 2].filterMap fun a =>
    if a + b + c + d ≤ 2 then some (a + 3 * b + 9 * c + 27 * d) else none)

/-- for a shape: on every assignment of the four atoms the skeleton equals the model run on index objects -/
def rowsSkelOk (key : Nat) : Bool := allBits.all fun b => rowsAtoms key (valOfBits b) == rowsModel key (valOfBits b)

end PEval.AnalyzerDT
