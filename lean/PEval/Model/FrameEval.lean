import PEval.Model.FrameChange
import PEval.Model.Pipeline
import PEval.Model.Clear
/-!
# C07, joining layer: one whole frame (and a history of frames) evaluated in a given rendering

`Model/FrameChange.lean` models what the code reads from ONE object / ONE pair in the two renderings
(`filterViewEgo` / `filterViewMap`, `scoreRowEgo` / `scoreRowMap`, `Obj.samePose`).  This file joins those
readings with the stage models of the evaluation itself, INSTANTIATED, in the order of
`PerceptionEvaluationManager.add_frame_result` / `PerceptionFrameResult.evaluate_frame`:

1. manager filter (`_filter_objects`: `filter_objects(estimates, is_gt=False)`, `filter_objects(ground truths,
   is_gt=True)`) = `Filter.filterE` over `Filter.isTarget` on what the rendering shows of each object;
2. the score table of the kept estimates × kept ground truths (`tableOf`: all six per-pair scores);
3. `Matching.getObjectResults` on the `Matching.Scene` whose `val i j` is the table's entry for the matcher's mode;
4. critical-object filter verdicts of every kept object (`Filter.estParams` / `Filter.gtParams`, as
   `filter_object_results` calls `_is_target_object`), the `__eq__` table of the kept ground truths
   (time stamp, label, `samePose`) and its classes (`eqKeys`);
5. `Pipeline.detectFrame` (critical filter on the object results, per-label `Map`s = `AP.frameMap`
   with AP / APH / mAP / mAPH, `PassFail.evaluateFrame` with TP / FP / TN / FN) on the `Pipeline.Frame`
   built from 1–4 (`mkFrame`): every score the later stages read (`pfScore` = plane distance, `apScore`
   = the value of the `Map`'s mode, `hw` = heading weight) is looked up in the SAME table;
6. the frame's object results as CLEAR reads them (`trackRes`), and over a history of frames the CLEAR
   fold `Clear.clear` / the per-label tracking score `Clear.trackingScore` (MOTA, MOTP, ID switches).

How a frame is read is a `Reader` (the three per-object / per-pair readings + the frame id handed to the
matcher).  The code dispatches on the objects' `frame_id`: `SFrame.reader` picks `readerEgo` for a
`BASE_LINK` frame and `readerMap pose` (pose = the registered `base_link → map` transform) for a `MAP`
frame; `evalFrame` is the evaluation of a frame as given.  Defective readers (`readerMapJ`: 3-D norm for
the distance ring in the map branch only; `readerMapG`: point-count criterion skipped in the map branch
when no distance bound is configured — the two stored seeds C07_J / C07_G) are kept next to the real ones:
the end-to-end theorem `C07.evalFrame_toMap` is false for them (examples in `Properties/C07.lean`).

Declared: distances are carried squared; `EvalCfg.dist` turns a squared distance into the value the code
compares / averages (`sqrt` then `round(·, 10)`; DESIGN §4.1) — the theorems hold for every such function.
Ground-truth confidence: `Pipeline` has one critical flag per ground truth (`Filter.gtParams`, confidence
list not applied), as in property C03.  `uuid_matching_first`, `target_uuids` post-filter of the manager: not
modelled (frame-free by inspection: they read uuids only).
-/
namespace PEval.FrameChange
open PEval.Geometry PEval.Heading

/-! ## scene objects, frames -/

/-- the frame-free attributes of an object: what the filter criteria read (`tag`), the label as the
matcher reads it (`semantic_label.label.value`), as AP / CLEAR encode it, the uuid as a number (only
compared), the time stamp (`__eq__`) -/
structure Attr where
  tag : Tag
  mlabel : String
  alabel : AP.Label
  uid : Nat
  stamp : Nat
deriving Repr

/-- an object of a scene: attributes + 3-D box and yaw in the frame's coordinates -/
structure SObj where
  attr : Attr
  obj : Obj
deriving Repr

def SObj.tagged (o : SObj) : Tagged := ⟨o.attr.tag, o.obj⟩

/-- the map-frame rendering of an ego-frame object: attributes untouched -/
def SObj.toMap (e : Pose) (o : SObj) : SObj := ⟨o.attr, o.obj.toMap e⟩

inductive FrameId where
  | baseLink | map
deriving DecidableEq, Repr

def FrameId.name : FrameId → String
  | .baseLink => "base_link"
  | .map => "map"

/-- one frame as the manager receives it: the objects' frame id, the `base_link → map` transform
registered in the frame's `TransformDict` (yaw + translation incl. height), estimates, ground truths -/
structure SFrame where
  frameId : FrameId
  pose : Pose
  ests : List SObj
  gts : List SObj

/-- the same physical frame with every object expressed in the map frame, ego pose `e` supplied -/
def SFrame.toMap (e : Pose) (f : SFrame) : SFrame :=
  { frameId := .map, pose := e, ests := f.ests.map (SObj.toMap e), gts := f.gts.map (SObj.toMap e) }

/-! ## readers: what the code reads from a frame of a given rendering -/

structure Reader where
  /-- `frame_id.value` of the objects (the matcher's score table is NaN for pairs of different frames) -/
  frame : String
  /-- `_is_target_object(obj, **params, transforms=…)` -/
  verdict : Filter.Params → Tagged → Except Err Bool
  /-- the six scores of an estimate / ground-truth pair -/
  row : Obj → Obj → ScoreRow
  /-- the frame-dependent part of `DynamicObject.__eq__` -/
  same : Obj → Obj → Bool

def readerEgo : Reader :=
  { frame := FrameId.baseLink.name
    verdict := fun P t => Filter.isTarget { P with hasTransforms := true } (filterViewEgo t)
    row := scoreRowEgo
    same := Obj.samePose }

def readerMap (e : Pose) : Reader :=
  { frame := FrameId.map.name
    verdict := fun P t => Filter.isTarget { P with hasTransforms := true } (filterViewMap e t)
    row := scoreRowMap e
    same := Obj.samePose }

/-- the dispatch on `frame_id` -/
def SFrame.reader (f : SFrame) : Reader :=
  match f.frameId with
  | .baseLink => readerEgo
  | .map => readerMap f.pose

/-! ## configuration -/

structure EvalCfg where
  /-- `PerceptionEvaluationConfig.filtering_params` (the manager filter; `isGt` is set per list) -/
  mgr : Filter.Params
  /-- `CriticalObjectFilterConfig.filtering_params` -/
  crit : Filter.Params
  /-- label policy, matcher mode (CENTERDISTANCE in the manager), target labels + `max_matchable_radii`, task -/
  matcher : Matching.Cfg
  /-- squared distance ↦ the distance value (`sqrt`, `round`); any function -/
  dist : Rat → Rat
  pfTargets : List AP.Label
  pfThrs : Option (List Rat)
  critTargets : List AP.Label
  mapTargets : List AP.Label
  maps : List Pipeline.MapCfg
  /-- matching mode of the tracking metrics and the zipped target labels / thresholds of CLEAR -/
  trackMode : AP.Mode
  trackTargets : List (Nat × Rat)

def EvalCfg.clearCfg (C : EvalCfg) : Clear.Cfg := ⟨!C.trackMode.isDistance, C.trackTargets⟩

/-! ## pieces -/

/-- `[f(x) for x in xs]` where `f` may raise -/
def flagsE {α} (f : α → Except Err Bool) : List α → Except Err (List Bool)
  | [] => .ok []
  | a :: as =>
    match f a with
    | .error e => .error e
    | .ok b =>
      match flagsE f as with
      | .error e => .error e
      | .ok bs => .ok (b :: bs)

/-- a score row without the SIGN of the yaw error (no decision reads it; at exactly opposite headings the
two renderings may report `+π` and `−π`, `C07.headingError_toMap`) -/
def ScoreRow.unsigned (r : ScoreRow) : ScoreRow := { r with yawErr := rabs r.yawErr }

/-- the score table of a scene as the reader computes it -/
def tableOf (R : Reader) (es gs : List SObj) : List (List ScoreRow) :=
  es.map (fun a => gs.map (fun g => (R.row a.obj g.obj).unsigned))

def rowAt (T : List (List ScoreRow)) (i j : Nat) : Option ScoreRow :=
  match T[i]? with
  | some row => row[j]?
  | none => none

/-- `MatchingMethod.value` per mode of the matcher … -/
def mValue (dist : Rat → Rat) : Matching.Mode → ScoreRow → Rat
  | .centerDistance, r => dist r.center2
  | .planeDistance, r => dist r.plane2
  | .iou2d, r => r.iou2d
  | .iou3d, r => r.iou3d

/-- … and per mode of the metrics -/
def apValue (dist : Rat → Rat) : AP.Mode → ScoreRow → Rat
  | .centerDistance, r => dist r.center2
  | .planeDistance, r => dist r.plane2
  | .iou2d, r => r.iou2d
  | .iou3d, r => r.iou3d

/-- `DynamicObject.__eq__`: time stamp, label, position and orientation -/
def SObj.sameAs (same : Obj → Obj → Bool) (a b : SObj) : Bool :=
  a.attr.stamp == b.attr.stamp && a.attr.mlabel == b.attr.mlabel && same a.obj b.obj

/-- who `==` whom among the ground truths handed to the frame result -/
def eqTable (same : Obj → Obj → Bool) (gs : List SObj) : List (List Bool) :=
  gs.map (fun a => gs.map (fun b => a.sameAs same b))

/-- class of `__eq__`: position of the first equal object -/
def eqKeys (tbl : List (List Bool)) : List Nat := tbl.map (fun row => row.idxOf true)

/-- the `Pipeline.Frame` of property C03's composed model, built from the attributes of the kept
objects, their critical verdicts, the score table and the `__eq__` classes -/
def mkFrame (C : EvalCfg) (fr : String) (aE aG : List Attr) (cE cG : List Bool)
    (T : List (List ScoreRow)) (keys : List Nat) : Pipeline.Frame :=
  { cfg := C.matcher
    scene :=
      { ests := aE.map (fun a => ⟨a.mlabel, fr⟩)
        gts := aG.map (fun a => ⟨a.mlabel, fr⟩)
        val := fun i j =>
          match rowAt T i j with
          | some r => mValue C.dist C.matcher.mode r
          | none => 0 }
    est := fun i =>
      match aE[i]? with
      | some a => { id := a.tag.id, label := a.alabel, conf := a.tag.score, crit := cE.getD i false }
      | none => { id := 0, label := 0, conf := 0, crit := false }
    gt := fun j =>
      match aG[j]? with
      | some a => { id := a.tag.id, label := a.alabel, crit := cG.getD j false, eqKey := keys.getD j 0 }
      | none => { id := 0, label := 0, crit := false, eqKey := 0 }
    pfTargets := C.pfTargets
    pfThrs := C.pfThrs
    pfScore := fun i j => (rowAt T i j).map (fun r => C.dist r.plane2)
    apScore := fun m i j => (rowAt T i j).map (apValue C.dist m)
    hw := fun i j =>
      match rowAt T i j with
      | some r => r.aph
      | none => 0
    critTargets := C.critTargets
    mapTargets := C.mapTargets
    maps := C.maps }

/-- one object result as CLEAR reads it (`TPMetricsAp`: weight 1) -/
def trackRes (C : EvalCfg) (aE aG : List Attr) (pf : Pipeline.Frame) (r : Matching.Res) : Clear.Res :=
  { est := match aE[r.1]? with
      | some a => a.uid
      | none => 0
    estLabel := (pf.est r.1).label
    gt := r.2.map (fun j =>
      { id := match aG[j]? with
          | some a => a.uid
          | none => 0
        label := (pf.gt j).label
        isFp := (pf.gt j).label == AP.fpLabel })
    value := match r.2 with
      | some j => (pf.apScore C.trackMode r.1 j).getD 0
      | none => 0
    labelOk := match r.2 with
      | some j => Pipeline.labelOk pf r.1 j
      | none => false
    w := 1 }

/-- everything observable of one evaluated frame -/
structure FrameOut where
  /-- ids surviving the manager filter -/
  keptEst : List Nat
  keptGt : List Nat
  /-- critical-filter verdicts of the kept objects -/
  critEst : List Bool
  critGt : List Bool
  /-- the score table handed to the matcher and to every later stage (yaw error unsigned) -/
  table : List (List ScoreRow)
  /-- `__eq__` among the kept ground truths -/
  same : List (List Bool)
  /-- matcher result, pass/fail result (TP / FP / TN / FN), the `Map`s (AP, APH, mAP, mAPH) -/
  out : Pipeline.Out
  /-- the critical object results as CLEAR reads them, labels of the critical ground truths -/
  tracks : List Clear.Res
  gtLabels : List AP.Label

/-- a digest of a `FrameOut` with decidable equality: kept ids of the manager filter, matcher result, the
ids in the TP / FP lists (estimates) and TN / FN lists (ground truths), mAP and mAPH of every `Map` -/
structure Summary where
  keptEst : List Nat
  keptGt : List Nat
  matched : List Matching.Res
  tp : List Nat
  fp : List Nat
  tn : List Nat
  fn : List Nat
  maps : List (Option Rat × Option Rat)
deriving DecidableEq, Repr

def FrameOut.summary (o : FrameOut) : Summary :=
  { keptEst := o.keptEst, keptGt := o.keptGt, matched := o.out.matched,
    tp := o.out.pf.tp.map (·.est), fp := o.out.pf.fp.map (·.est),
    tn := o.out.pf.tn.map (·.id), fn := o.out.pf.fn.map (·.id),
    maps := o.out.maps.map (fun m => (m.map, m.maph)) }

/-- steps 3–6 on the data of steps 1, 2 and 4: nothing here sees a coordinate -/
def finish (C : EvalCfg) (fr : String) (aE aG : List Attr) (cE cG : List Bool)
    (T : List (List ScoreRow)) (tbl : List (List Bool)) : Except Err FrameOut :=
  let pf := mkFrame C fr aE aG cE cG T (eqKeys tbl)
  match Pipeline.detectFrame pf with
  | .error e => .error e
  | .ok out =>
    .ok { keptEst := aE.map (·.tag.id), keptGt := aG.map (·.tag.id), critEst := cE, critGt := cG,
          table := T, same := tbl, out := out,
          tracks := (Pipeline.critResults pf out.matched).map (trackRes C aE aG pf),
          gtLabels := (Pipeline.apGts pf).map (·.label) }

/-- steps 2–6 on the objects kept by the manager filter -/
def evalKept (R : Reader) (C : EvalCfg) (kE kG : List SObj) : Except Err FrameOut :=
  match flagsE (fun o => R.verdict (Filter.estParams C.crit) o.tagged) kE with
  | .error e => .error e
  | .ok cE =>
    match flagsE (fun o => R.verdict (Filter.gtParams C.crit) o.tagged) kG with
    | .error e => .error e
    | .ok cG =>
      finish C R.frame (kE.map (·.attr)) (kG.map (·.attr)) cE cG (tableOf R kE kG) (eqTable R.same kG)

/-- the whole frame under a reader -/
def evalWith (R : Reader) (C : EvalCfg) (ests gts : List SObj) : Except Err FrameOut :=
  match Filter.filterE (fun o => R.verdict { C.mgr with isGt := false } o.tagged) ests with
  | .error e => .error e
  | .ok kE =>
    match Filter.filterE (fun o => R.verdict { C.mgr with isGt := true } o.tagged) gts with
    | .error e => .error e
    | .ok kG => evalKept R C kE kG

/-- `add_frame_result` + `evaluate_frame` on a frame as given (ego frame, or map frame with its transform) -/
def evalFrame (C : EvalCfg) (f : SFrame) : Except Err FrameOut := evalWith f.reader C f.ests f.gts

/-! ## histories -/

/-- `[g(x) for x in xs]` where `g` may raise: the first exception aborts -/
def mapE {α β} (g : α → Except Err β) : List α → Except Err (List β)
  | [] => .ok []
  | a :: as =>
    match g a with
    | .error e => .error e
    | .ok b =>
      match mapE g as with
      | .error e => .error e
      | .ok bs => .ok (b :: bs)

/-- every frame of a history evaluated on its own -/
def evalHistory (C : EvalCfg) (fs : List SFrame) : Except Err (List FrameOut) := mapE (evalFrame C) fs

/-- the CLEAR fold over the history (`[[], f1, …, fn]`): TP weight, FP, ID switches, score sum -/
def clearOf (C : EvalCfg) (fs : List SFrame) : Except Err Clear.Acc :=
  (evalHistory C fs).map (fun outs => Clear.clear C.clearCfg ([] :: outs.map (·.tracks)))

/-- number of critical ground truths per tracking target label of one frame -/
def gtNums (C : EvalCfg) (o : FrameOut) : List Nat :=
  C.trackTargets.map (fun lt => o.gtLabels.countP (· == lt.1))

/-- `get_scene_result` of a tracking run: one CLEAR per target label (MOTA, MOTP, ID switches) and their sum -/
def trackingOf (C : EvalCfg) (fs : List SFrame) :
    Except Err (List Clear.Out × (Option Rat × Option Rat × Nat)) :=
  (evalHistory C fs).map (fun outs =>
    Clear.trackingScore (!C.trackMode.isDistance)
      (Clear.sceneInputs C.trackTargets (outs.map (·.tracks)) (outs.map (gtNums C))))

/-- a history as recorded: every frame in `BASE_LINK` together with the ego pose at its time stamp;
`histEgo` evaluates it as it is, `histToMap` after expressing every frame in the map frame with its own pose -/
def histEgo (hist : List (Pose × SFrame)) : List SFrame := hist.map (·.2)
def histToMap (hist : List (Pose × SFrame)) : List SFrame := hist.map (fun p => p.2.toMap p.1)

/-! ## defective readers (for the "the theorem says something" examples)

`readerMapJ`: `get_distance_bev(transforms)` returns the 3-D norm of the ego-relative position (seed C07_J:
`math.hypot(*transform(...))` without the `[:2]` slice) — map branch only.
`readerMapG`: the map branch computes the BEV distance only when a distance bound is configured; the
point-count criterion, nested under `if bev_distance_ is not None`, is then skipped (seed C07_G).
`readerMapE`: `__eq__` with a relative tolerance, which only bites at map-sized coordinates. -/

/-- `stageRange` with the distance tests on `d2 + z²` -/
def stageRangeJ (z : Rat) (P : Filter.Params) (u : Bool) (o : Filter.Obj) (pos : Option Filter.Pos) (ok : Bool) :
    Except Err Bool :=
  match pos with
  | none => .ok ok
  | some p =>
    match Filter.stage P u o ok P.maxX Filter.mean (fun t => decide (Filter.absR p.x < t)) with
    | .error e => .error e
    | .ok ok1 =>
    match Filter.stage P u o ok1 P.maxY Filter.mean (fun t => decide (Filter.absR p.y < t)) with
    | .error e => .error e
    | .ok ok2 =>
    match Filter.stage P u o ok2 P.maxDist Filter.mean (fun t => Filter.distLt (p.d2 + z * z) t) with
    | .error e => .error e
    | .ok ok3 =>
    match Filter.stage P u o ok3 P.minDist Filter.mean (fun t => Filter.distGt (p.d2 + z * z) t) with
    | .error e => .error e
    | .ok ok4 => Filter.stagePts P u o ok4

/-- `stageRange` whose point-count stage is skipped for non-`BASE_LINK` objects when no distance bound is given -/
def stageRangeG (P : Filter.Params) (u : Bool) (o : Filter.Obj) (pos : Option Filter.Pos) (ok : Bool) :
    Except Err Bool :=
  match pos with
  | none => .ok ok
  | some p =>
    match Filter.stage P u o ok P.maxX Filter.mean (fun t => decide (Filter.absR p.x < t)) with
    | .error e => .error e
    | .ok ok1 =>
    match Filter.stage P u o ok1 P.maxY Filter.mean (fun t => decide (Filter.absR p.y < t)) with
    | .error e => .error e
    | .ok ok2 =>
    match Filter.stage P u o ok2 P.maxDist Filter.mean (fun t => Filter.distLt p.d2 t) with
    | .error e => .error e
    | .ok ok3 =>
    match Filter.stage P u o ok3 P.minDist Filter.mean (fun t => Filter.distGt p.d2 t) with
    | .error e => .error e
    | .ok ok4 =>
      if o.frame != "base_link" && P.maxDist.isNone && P.minDist.isNone then .ok ok4
      else Filter.stagePts P u o ok4

/-- `_is_target_object` with a replaced range stage -/
def isTargetWith (range : Filter.Params → Bool → Filter.Obj → Option Filter.Pos → Bool → Except Err Bool)
    (P : Filter.Params) (o : Filter.Obj) : Except Err Bool :=
  if Filter.isFP o.label then .ok true
  else
    let u := Filter.useUnknown P o
    let ok1 := Filter.stageAttr P u o (Filter.stageLabel P u o)
    match Filter.stage P u o ok1 P.conf (fun _ => some 0) (fun t => decide (t < o.score)) with
    | .error e => .error e
    | .ok ok2 =>
    match Filter.position P o with
    | .error e => .error e
    | .ok pos =>
    match range P u o pos ok2 with
    | .error e => .error e
    | .ok ok3 => .ok (Filter.stageUuid P o ok3)

def readerMapJ (e : Pose) : Reader :=
  { readerMap e with
    verdict := fun P t =>
      isTargetWith (stageRangeJ (toEgo3 e t.obj.box.center).z) { P with hasTransforms := true } (filterViewMap e t) }

def readerMapG (e : Pose) : Reader :=
  { readerMap e with
    verdict := fun P t => isTargetWith stageRangeG { P with hasTransforms := true } (filterViewMap e t) }

/-- `np.allclose`-style comparison (`|a − b| ≤ atol + rtol·|b|`, numpy's defaults) -/
def closeR (a b : Rat) : Bool := decide (rabs (a - b) ≤ 1 / 100000000 + (1 / 100000) * rabs b)

/-- `__eq__` on positions and orientations with a relative tolerance (cf. seed C07_E): at map coordinates of
10⁶ m two objects a millimetre — or a metre — apart compare equal -/
def Obj.closePose (a b : Obj) : Bool :=
  closeR a.box.center.x b.box.center.x && closeR a.box.center.y b.box.center.y && closeR a.box.center.z b.box.center.z &&
    closeR a.box.rot.c b.box.rot.c && closeR a.box.rot.s b.box.rot.s

/-- map branch with the tolerant `__eq__`; the ego branch (coordinates of some ten metres) is left exact -/
def readerMapE (e : Pose) : Reader := { readerMap e with same := Obj.closePose }

/-- the evaluation with the map branch of the dispatch replaced -/
def evalFrameV (mapReader : Pose → Reader) (C : EvalCfg) (f : SFrame) : Except Err FrameOut :=
  evalWith (match f.frameId with
    | .baseLink => readerEgo
    | .map => mapReader f.pose) C f.ests f.gts

end PEval.FrameChange
